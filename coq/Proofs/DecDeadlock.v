(* Deadlock freedom of the two decoding pipelines (DecLegacy, DecLZ4F).  The observable-level invariant DI and its
   update lemmas are those of Proofs/DeadlockProofs.v with the two compression-specific notions made uniform:
   a "pusher" is a thread whose next synchronisation is a TPool_submitJob into wPool, and the main thread may also be
   parked inside TPool_submitJob(tPool) (the decoders' main loop can find the one-slot queue full). *)
From Coq Require Import ZArith List Bool Arith Lia Sorted.
From LZ4V Require Import Model.WriteReg Model.TPool Model.Pipeline
  Proofs.TPoolProofs Proofs.WriteRegProofs Proofs.DecodeRingProofs Proofs.CompressProofs Proofs.NeverFullProofs.
Import ListNotations.

(* ---- queueSize never changes *)
Definition qs (st : state) : nat * nat := (q_size (s_pt st), q_size (s_pw st)).

Lemma qs_wake_thread : forall st t, qs (wake_thread st t) = qs st.
Proof. intros st [[|t]|]; unfold wake_thread; [destruct (s_mst st)|destruct (nth_error (s_ws st) (S t - 1)) as [[]|]|]; reflexivity. Qed.
Lemma qs_wake_all : forall ts st, qs (wake_all st ts) = qs st.
Proof. unfold wake_all. induction ts; intros st; cbn [fold_left]; [reflexivity|]. rewrite IHts. apply qs_wake_thread. Qed.
Lemma qs_signal_push : forall st p w st', signal_push st p w = Some st' -> qs st' = qs st.
Proof. intros st p w st' H. unfold signal_push in H. destruct (wake _ w) as [[l wk]|]; [|discriminate]. injection H as <-. rewrite qs_wake_thread. destruct p; reflexivity. Qed.
Lemma qs_signal_pop : forall st p w st', signal_pop st p w = Some st' -> qs st' = qs st.
Proof. intros st p w st' H. unfold signal_pop in H. destruct (wake _ w) as [[l wk]|]; [|discriminate]. injection H as <-. rewrite qs_wake_thread. destruct p; reflexivity. Qed.
Lemma qs_submit : forall st t p j w st2 b, submit_cs st t p j w = Some (st2, b) -> qs st2 = qs st.
Proof.
  intros st t p j w st2 b H. unfold submit_cs in H.
  destruct (isQueueFull (get_pool st p) && negb (shut (get_pool st p))); [injection H as <- _; destruct p; reflexivity|].
  destruct (shut (get_pool st p)); [injection H as <- _; reflexivity|].
  destruct (signal_pop _ p w) as [st3|] eqn:E; [|discriminate]. injection H as <- _.
  rewrite (qs_signal_pop _ _ _ _ E). destruct p; reflexivity.
Qed.
Lemma qs_sub_effects : forall c st t p j, qs (sub_effects c st t p j) = qs st. Proof. intros. destruct j; reflexivity. Qed.
Lemma qs_start_effects : forall c st t j, qs (start_effects c st t j) = qs st. Proof. intros. destruct j; reflexivity. Qed.
Lemma qs_body_effects : forall c st t j, qs (body_effects c st t j) = qs st.
Proof.
  intros c st t j. destruct j; try reflexivity. cbn [body_effects]. destruct (arrive _ _ _) as [[w' o] ok].
  destruct (wr_events_core (set_wr st w' o ok) t o) as (W1&_). unfold qs.
  pose proof (W1 PT) as E1. pose proof (W1 PW) as E2. cbn [get_pool] in E1, E2. rewrite E1, E2. reflexivity.
Qed.

Lemma qs_worker_step : forall c st t w st', worker_step c st t w = Some st' -> qs st' = qs st.
Proof.
  intros c st t w st' H. unfold worker_step in H.
  destruct (nth_error (s_ws st) (t - 1)) as [[| |j i|j i|j i| |]|]; try discriminate.
  - destruct (worker_must_wait _).
    + destruct (shut _); injection H as <-; destruct (own_pool c t); reflexivity.
    + destruct (pool_pop _) as [[j pl']|] eqn:E; [|injection H as <-; reflexivity].
      destruct (signal_push _ _ w) as [st3|] eqn:E2; [|discriminate]. injection H as <-.
      change (qs (set_w st3 t (WRun j 0))) with (qs st3). rewrite (qs_signal_push _ _ _ _ E2).
      unfold pool_pop in E. destruct (own_pool c t); cbn [get_pool] in *; (destruct (nth _ _ _); [|discriminate]); injection E as _ <-; reflexivity.
  - set (st1 := if i =? 0 then start_effects c st t j else st) in H.
    assert (E1 : qs st1 = qs st) by (unfold st1; destruct (i =? 0); [apply qs_start_effects|reflexivity]). clearbody st1.
    destruct (nth_error (job_subs c j) i) as [[p j']|].
    + destruct (submit_cs _ t p j' w) as [[st2 b]|] eqn:E; [|discriminate].
      apply qs_submit in E. rewrite qs_sub_effects in E. destruct b; injection H as <-;
        (change (qs (set_w st2 t _)) with (qs st2); congruence).
    + destruct (signal_push _ _ w) as [st3|] eqn:E2; [|discriminate]. injection H as <-.
      change (qs (set_w st3 t WIdle)) with (qs st3). rewrite (qs_signal_push _ _ _ _ E2). rewrite <- E1, <- (qs_body_effects c st1 t j).
      destruct (own_pool c t); reflexivity.
  - destruct (nth_error (job_subs c j) i) as [[p j']|]; [|injection H as <-; reflexivity].
    destruct (submit_cs st t p j' w) as [[st2 b]|] eqn:E; [|discriminate].
    apply qs_submit in E. destruct b; injection H as <-; (change (qs (set_w st2 t _)) with (qs st2); congruence).
  - injection H as <-. cbn [set_w set_ws s_mst]. destruct (s_mst st) as [|pp| |tj|]; try reflexivity. destruct (tj =? t); reflexivity.
Qed.

Lemma qs_main_run : forall fuel c st w woken st', main_run fuel c st w woken = Some st' -> qs st' = qs st.
Proof.
  induction fuel as [|f IH]; intros c st w woken st' H; cbn [main_run] in H; [injection H as <-; reflexivity|].
  destruct (s_mops st) as [|[p j|k|p|p|p|t] rest].
  - injection H as <-. reflexivity.
  - destruct (submit_cs _ 0 p j w) as [[st2 b]|] eqn:E; [|discriminate]. apply qs_submit in E.
    assert (E0 : qs (if woken then st else sub_effects c st 0 p j) = qs st) by (destruct woken; [reflexivity|apply qs_sub_effects]).
    destruct b; injection H as <-; (change (qs (set_main st2 _ _)) with (qs st2); congruence).
  - apply IH in H. rewrite H. reflexivity.
  - destruct (jobs_pending _); injection H as <-; destruct p; reflexivity.
  - injection H as <-. destruct p; reflexivity.
  - apply IH in H. rewrite H. change (qs (set_main ?x _ _)) with (qs x). rewrite !qs_wake_all. destruct p; reflexivity.
  - destruct (thread_done st t); [apply IH in H; rewrite H; reflexivity|injection H as <-; reflexivity].
Qed.

Lemma qs_pstep : forall c st pk st', pstep c st pk = Some st' -> qs st' = qs st.
Proof.
  intros c st [t w] st' H. unfold pstep in H.
  destruct (t =? 0).
  - unfold main_step in H. destruct (s_mst st); try discriminate;
      (destruct (main_run _ c st w _) as [st2|] eqn:E; [|discriminate]; injection H as <-; apply qs_main_run in E; exact E).
  - destruct (worker_step c st t w) as [st2|] eqn:E; [|discriminate]. injection H as <-. apply qs_worker_step in E. exact E.
Qed.

Lemma In_firstn_ : forall (A : Type) n (l : list A) x, In x (firstn n l) -> In x l.
Proof. induction n; intros l x H; [destruct H|]. destruct l; [exact H|]. destruct H as [H|H]; [left; exact H|right; apply IHn; exact H]. Qed.

Lemma NoDup_app_snoc_nat : forall (l : list nat) x, NoDup l -> ~ In x l -> NoDup (l ++ [x]).
Proof.
  induction l as [|a l IH]; intros x ND NI; cbn [app].
  - constructor; [intros []|constructor].
  - inversion ND as [|? ? NA ND']; subst. constructor.
    + intros H. apply in_app_or in H. destruct H as [H|[H|[]]]; [contradiction|subst; apply NI; left; reflexivity].
    + apply IH; [exact ND'|]. intros H. apply NI. right. exact H.
Qed.

Definition wget (ws : list wstate) (t : tid) : option wstate := nth_error ws (t - 1).

Lemma nth_error_set_nth : forall (A : Type) (l : list A) i k x,
  nth_error (set_nth i x l) k = if k =? i then (match nth_error l i with Some _ => Some x | None => None end) else nth_error l k.
Proof.
  induction l as [|a l IH]; intros i k x.
  - destruct i; cbn [set_nth]; destruct (k =? _); destruct k; reflexivity.
  - destruct i, k; cbn [set_nth nth_error Nat.eqb]; try reflexivity. apply IH.
Qed.

Lemma wget_set : forall ws t0 t x old, 1 <= t -> 1 <= t0 -> wget ws t0 = Some old ->
  wget (set_nth (t0 - 1) x ws) t = if t =? t0 then Some x else wget ws t.
Proof.
  intros ws t0 t x old Ht Ht0 H. unfold wget in *. rewrite nth_error_set_nth, H.
  destruct (t =? t0) eqn:E.
  - apply Nat.eqb_eq in E. subst. rewrite Nat.eqb_refl. reflexivity.
  - apply Nat.eqb_neq in E. assert (E2 : (t - 1 =? t0 - 1) = false) by (apply Nat.eqb_neq; lia). rewrite E2. reflexivity.
Qed.

Definition is_idle (w : wstate) : nat := match w with WIdle => 1 | _ => 0 end.
Definition gone (w : wstate) : bool := match w with WExit | WDone => true | _ => false end.

Section DL.
Variable c : cfg.

Definition is_pusher (w : wstate) : nat :=
  match w with
  | WRun j i | WSubWoken j i => match nth_error (job_subs c j) i with Some (PW, _) => 1 | _ => 0 end
  | _ => 0
  end.
Definition sub_ok (w : wstate) : Prop :=
  match w with WSubWait j i | WSubWoken j i => exists j', nth_error (job_subs c j) i = Some (PW, j') | _ => True end.

Definition nidle (ws : list wstate) (p : pid) : nat := sum_list (map is_idle (wof c ws p)).
Definition npush (ws : list wstate) : nat := sum_list (map is_pusher ws).

Record DI (ops : list mop) (mst : mstatus) (ws : list wstate)
          (PS PO : pid -> list tid) (LN : pid -> nat) (SH : pid -> bool) : Prop := {
  d_sub : Forall sub_ok ws;
  d_gone : forall t w, 1 <= t -> wget ws t = Some w -> gone w = true -> SH (own_pool c t) = true;
  d_pop_s : forall p t, In t (PO p) -> 1 <= t /\ own_pool c t = p /\ wget ws t = Some WWaitPop;
  d_pop_c : forall t, 1 <= t -> wget ws t = Some WWaitPop -> In t (PO (own_pool c t));
  d_pop_nd : forall p, NoDup (PO p);
  d_psh_s : forall p t, In t (PS p) -> t <> 0 -> p = PW /\ exists j i, wget ws t = Some (WSubWait j i);
  d_psh_c : forall t j i, 1 <= t -> wget ws t = Some (WSubWait j i) -> In t (PS PW);
  d_psh_nd : forall p, NoDup (PS p);
  d_m0 : forall p, In 0 (PS p) <-> mst = MWaitPush p;
  d_ip : forall p, PO p <> [] -> LN p <= nidle ws p;
  d_iw : (exists t, In t (PS PW) /\ t <> 0) -> c_wdepth c <= LN PW + npush ws;
  d_im : forall p, mst = MWaitPush p -> 0 < LN p + nrun (wof c ws p);
  d_hd : forall p, mst = MWaitPush p -> exists rest, ops = MJobsCompleted p :: rest \/ (p = PT /\ exists j, ops = MSubmit PT j :: rest);
  d_j : forall t, 1 <= t <= S (c_N c) -> In (MJoin t) ops \/ wget ws t = Some WDone;
  d_shd : forall p, In (MShutdown p) ops \/ SH p = true;
  d_sb : forall p, In (MShutdown p) ops -> In (MBroadcast p) ops;
  d_s : forall p, ~ In (MBroadcast p) ops -> SH p = true -> PO p = [];
  d_mj : forall t, mst = MWaitJoin t ->
           (exists rest, ops = MJoin t :: rest) /\ 1 <= t /\ exists w, wget ws t = Some w /\ w <> WDone
}.

Definition dlinv (st : state) : Prop :=
  DI (s_mops st) (s_mst st) (s_ws st)
     (fun p => push_w (get_pool st p)) (fun p => pop_w (get_pool st p))
     (fun p => length (queued (get_pool st p))) (fun p => shut (get_pool st p)).

Lemma DI_ext : forall ops mst ws PS PO LN SH PS' PO' LN' SH',
  DI ops mst ws PS PO LN SH ->
  (forall p, PS' p = PS p) -> (forall p, PO' p = PO p) -> (forall p, LN' p = LN p) -> (forall p, SH' p = SH p) ->
  DI ops mst ws PS' PO' LN' SH'.
Proof.
  intros ops mst ws PS PO LN SH PS' PO' LN' SH' [A1 A2 A3 A4 A5 A6 A7 A8 A9 A10 A11 A12 A13 A14 A15 A16 A17 A18] E1 E2 E3 E4.
  constructor; intros; rewrite ?E1, ?E2, ?E3, ?E4 in *; eauto.
Qed.

(* ---- sums over the workers of a pool when one worker changes *)
Lemma sum_wof_set : forall (g : wstate -> nat) ws t0 x old p, 1 <= t0 -> wget ws t0 = Some old ->
  sum_list (map g (wof c (set_nth (t0 - 1) x ws) p)) + (if pid_eqb p (own_pool c t0) then g old else 0)
  = sum_list (map g (wof c ws p)) + (if pid_eqb p (own_pool c t0) then g x else 0).
Proof.
  intros g ws t0 x old p Ht H. destruct (pid_eqb p (own_pool c t0)) eqn:E.
  - apply pid_eqb_eq in E. subst p. rewrite wof_set_own by exact Ht.
    apply sum_map_set_nth. rewrite wof_nth by exact Ht. exact H.
  - assert (p <> own_pool c t0) by (intros ->; rewrite pid_eqb_refl in E; discriminate).
    rewrite wof_set_other by assumption. lia.
Qed.

Lemma nidle_set : forall ws t0 x old p, 1 <= t0 -> wget ws t0 = Some old ->
  nidle (set_nth (t0 - 1) x ws) p + (if pid_eqb p (own_pool c t0) then is_idle old else 0)
  = nidle ws p + (if pid_eqb p (own_pool c t0) then is_idle x else 0).
Proof. intros. apply sum_wof_set; assumption. Qed.

Lemma nrun_set : forall ws t0 x old p, 1 <= t0 -> wget ws t0 = Some old ->
  nrun (wof c (set_nth (t0 - 1) x ws) p) + (if pid_eqb p (own_pool c t0) then b2n (running old) else 0)
  = nrun (wof c ws p) + (if pid_eqb p (own_pool c t0) then b2n (running x) else 0).
Proof. intros. unfold nrun. apply (sum_wof_set (fun w => b2n (running w))); assumption. Qed.

Lemma npush_set : forall ws t0 x old, wget ws t0 = Some old ->
  npush (set_nth (t0 - 1) x ws) + is_pusher old = npush ws + is_pusher x.
Proof. intros. unfold npush. apply sum_map_set_nth. exact H. Qed.

Lemma remove_tid_In : forall w t ws, In t (remove_tid w ws) -> In t ws.
Proof. intros w t ws H. apply (remove_tid_incl w ws). exact H. Qed.

Lemma remove_tid_NoDup : forall w ws, NoDup ws -> NoDup (remove_tid w ws) /\ ~ In w (remove_tid w ws) /\
  (forall t, t <> w -> In t ws -> In t (remove_tid w ws)).
Proof.
  induction ws as [|a ws IH]; intros ND; cbn [remove_tid]; [repeat split; auto; constructor|].
  inversion ND as [|? ? Ha ND']; subst. destruct (a =? w) eqn:E.
  - apply Nat.eqb_eq in E. subst a. repeat split; auto. intros t Ht [->|H]; [congruence|exact H].
  - apply Nat.eqb_neq in E. destruct (IH ND') as (A&B&C0). repeat split.
    + constructor; [intros H; apply Ha; eapply remove_tid_In; exact H|exact A].
    + intros [H|H]; [congruence|exact (B H)].
    + intros t Ht [->|H]; [left; reflexivity|right; apply C0; assumption].
Qed.

Ltac inv_di H := destruct H as [A1 A2 A3 A4 A5 A6 A7 A8 A9 A10 A11 A12 A13 A14 A15 A16 A17 A18].

(* ---- E1: pthread_cond_signal(queuePopCond of p) wakes worker w *)
Lemma E_wake_pop : forall ops mst ws PS PO LN SH p w,
  DI ops mst ws PS PO LN SH -> In w (PO p) ->
  DI ops mst (set_nth (w - 1) WIdle ws) PS (upd PO p (remove_tid w (PO p))) LN SH.
Proof.
  intros ops mst ws PS PO LN SH p w D Hin. pose proof D as D0. inv_di D.
  destruct (A3 p w Hin) as (Hw1 & Hown & Hw).
  destruct (remove_tid_NoDup w (PO p) (A5 p)) as (R1 & R2 & R3).
  constructor.
  - apply Forall_set_nth; [exact A1|exact I].
  - intros t x Ht Hg Hgo. rewrite (wget_set ws w t WIdle WWaitPop Ht Hw1 Hw) in Hg.
    destruct (t =? w); [injection Hg as <-; discriminate|eauto].
  - intros p0 t Ht. unfold upd in Ht.
    assert (Hin0 : In t (PO p0)) by (destruct (pid_eqb p p0) eqn:E; [apply pid_eqb_eq in E; subst p0; eapply remove_tid_In; exact Ht|exact Ht]).
    destruct (A3 p0 t Hin0) as (Ht1 & Ho & Hg).
    rewrite (wget_set ws w t WIdle WWaitPop Ht1 Hw1 Hw).
    destruct (t =? w) eqn:E2; [|auto].
    exfalso. apply Nat.eqb_eq in E2. subst t. rewrite Hown in Ho. subst p0. rewrite pid_eqb_refl in Ht. contradiction.
  - intros t Ht Hg. rewrite (wget_set ws w t WIdle WWaitPop Ht Hw1 Hw) in Hg.
    destruct (t =? w) eqn:E2; [discriminate|]. apply Nat.eqb_neq in E2. unfold upd.
    destruct (pid_eqb p (own_pool c t)) eqn:E; [|apply A4; assumption].
    apply pid_eqb_eq in E. apply R3; [exact E2|]. rewrite E. apply A4; assumption.
  - intros p0. unfold upd. destruct (pid_eqb p p0); [exact R1|apply A5].
  - intros p0 t Ht Hn. destruct (A6 p0 t Ht Hn) as (E & j & i & Hg). split; [exact E|]. exists j, i.
    rewrite (wget_set ws w t WIdle WWaitPop) by (try assumption; lia). destruct (t =? w) eqn:E2; [|exact Hg].
    apply Nat.eqb_eq in E2. subst t. congruence.
  - intros t j i Ht Hg. rewrite (wget_set ws w t WIdle WWaitPop Ht Hw1 Hw) in Hg. destruct (t =? w); [discriminate|eauto].
  - exact A8.
  - exact A9.
  - intros p0 Hne. pose proof (nidle_set ws w WIdle WWaitPop p0 Hw1 Hw) as S. cbn [is_idle] in S.
    unfold upd in Hne. destruct (pid_eqb p p0) eqn:E.
    + apply pid_eqb_eq in E. subst p0. rewrite Hown, pid_eqb_refl in S.
      assert (PO p <> []) by (intros E0; rewrite E0 in Hin; destruct Hin). specialize (A10 p H). lia.
    + specialize (A10 p0 Hne). destruct (pid_eqb p0 (own_pool c w)); lia.
  - intros Hex. specialize (A11 Hex). pose proof (npush_set ws w WIdle WWaitPop Hw) as S. cbn [is_pusher] in S. lia.
  - intros p0 Hm. specialize (A12 p0 Hm). pose proof (nrun_set ws w WIdle WWaitPop p0 Hw1 Hw) as S. cbn [running b2n] in S.
    destruct (pid_eqb p0 (own_pool c w)); lia.
  - exact A13.
  - intros t Ht. destruct (A14 t Ht) as [H|H]; [left; exact H|right].
    rewrite (wget_set ws w t WIdle WWaitPop) by (try assumption; lia). destruct (t =? w) eqn:E2; [|exact H].
    apply Nat.eqb_eq in E2. subst t. congruence.
  - exact A15.
  - exact A16.
  - intros p0 Hb Hs. unfold upd. destruct (pid_eqb p p0) eqn:E; [|apply A17; assumption].
    apply pid_eqb_eq in E. subst p0. rewrite (A17 p Hb Hs) in Hin. destruct Hin.
  - intros t Hm. destruct (A18 t Hm) as (Ho & Ht & x & Hx & Hd). split; [exact Ho|]. split; [exact Ht|].
    rewrite (wget_set ws w t WIdle WWaitPop Ht Hw1 Hw). destruct (t =? w); [exists WIdle; split; [reflexivity|discriminate]|eauto].
Qed.

(* ---- E2: pthread_cond_signal(queuePushCond of wPool) wakes a submitter *)
Lemma E_wake_push_w : forall ops mst ws PS PO LN SH w j i,
  DI ops mst ws PS PO LN SH -> In w (PS PW) -> 1 <= w -> wget ws w = Some (WSubWait j i) ->
  DI ops mst (set_nth (w - 1) (WSubWoken j i) ws) (upd PS PW (remove_tid w (PS PW))) PO LN SH.
Proof.
  intros ops mst ws PS PO LN SH w j i D Hin Hw1 Hw. inv_di D.
  destruct (remove_tid_NoDup w (PS PW) (A8 PW)) as (R1 & R2 & R3).
  pose proof (Forall_nth_error _ _ _ _ _ A1 Hw) as Sok. cbn [sub_ok] in Sok. destruct Sok as [jx Sok].
  assert (Pw : is_pusher (WSubWoken j i) = 1) by (cbn [is_pusher]; rewrite Sok; reflexivity).
  constructor.
  - apply Forall_set_nth; [exact A1|cbn [sub_ok]; eauto].
  - intros t x Ht Hg Hgo. rewrite (wget_set ws w t _ _ Ht Hw1 Hw) in Hg.
    destruct (t =? w); [injection Hg as <-; discriminate|eauto].
  - intros p0 t Ht. destruct (A3 p0 t Ht) as (Ht1 & Ho & Hg). rewrite (wget_set ws w t _ _ Ht1 Hw1 Hw).
    destruct (t =? w) eqn:E2; [apply Nat.eqb_eq in E2; subst t; congruence|auto].
  - intros t Ht Hg. rewrite (wget_set ws w t _ _ Ht Hw1 Hw) in Hg. destruct (t =? w); [discriminate|eauto].
  - exact A5.
  - intros p0 t Ht Hn. unfold upd in Ht.
    assert (Hin0 : In t (PS p0)) by (destruct (pid_eqb PW p0) eqn:E; [apply pid_eqb_eq in E; subst p0; eapply remove_tid_In; exact Ht|exact Ht]).
    destruct (A6 p0 t Hin0 Hn) as (E & j' & i' & Hg). split; [exact E|]. subst p0. cbn [pid_eqb] in Ht.
    assert (Ht1 : 1 <= t) by lia. rewrite (wget_set ws w t _ _ Ht1 Hw1 Hw).
    destruct (t =? w) eqn:E2; [apply Nat.eqb_eq in E2; subst t; contradiction|eauto].
  - intros t j' i' Ht Hg. rewrite (wget_set ws w t _ _ Ht Hw1 Hw) in Hg. destruct (t =? w) eqn:E2; [discriminate|].
    apply Nat.eqb_neq in E2. unfold upd. cbn [pid_eqb]. apply R3; [exact E2|eauto].
  - intros p0. unfold upd. destruct (pid_eqb PW p0); [exact R1|apply A8].
  - intros p0. rewrite <- A9. unfold upd. destruct (pid_eqb PW p0) eqn:E; [|reflexivity].
    apply pid_eqb_eq in E. subst p0. split; [apply remove_tid_In|]. intros H. apply R3; [lia|exact H].
  - intros p0 Hne. specialize (A10 p0 Hne). pose proof (nidle_set ws w (WSubWoken j i) _ p0 Hw1 Hw) as S. cbn [is_idle] in S.
    destruct (pid_eqb p0 (own_pool c w)); lia.
  - intros _. assert (Hex : exists t, In t (PS PW) /\ t <> 0) by (exists w; split; [exact Hin|lia]). specialize (A11 Hex).
    pose proof (npush_set ws w (WSubWoken j i) _ Hw) as S. rewrite Pw in S. change (is_pusher (WSubWait j i)) with 0 in S. lia.
  - intros p0 Hm. specialize (A12 p0 Hm). pose proof (nrun_set ws w (WSubWoken j i) _ p0 Hw1 Hw) as S. cbn [running b2n] in S.
    destruct (pid_eqb p0 (own_pool c w)); lia.
  - exact A13.
  - intros t Ht. destruct (A14 t Ht) as [H|H]; [left; exact H|right].
    rewrite (wget_set ws w t _ _) by (try eassumption; lia). destruct (t =? w) eqn:E2; [|exact H].
    apply Nat.eqb_eq in E2. subst t. congruence.
  - exact A15.
  - exact A16.
  - exact A17.
  - intros t Hm. destruct (A18 t Hm) as (Ho & Ht & x & Hx & Hd). split; [exact Ho|]. split; [exact Ht|].
    rewrite (wget_set ws w t _ _ Ht Hw1 Hw). destruct (t =? w); [eexists; split; [reflexivity|discriminate]|eauto].
Qed.

(* ---- E3: the signal wakes the main thread *)
Lemma E_wake_main : forall ops mst ws PS PO LN SH p,
  DI ops mst ws PS PO LN SH -> In 0 (PS p) ->
  DI ops MWokenPush ws (upd PS p (remove_tid 0 (PS p))) PO LN SH.
Proof.
  intros ops mst ws PS PO LN SH p D Hin. inv_di D.
  destruct (remove_tid_NoDup 0 (PS p) (A8 p)) as (R1 & R2 & R3).
  assert (Hm : mst = MWaitPush p) by (apply A9; exact Hin).
  constructor; try assumption; try discriminate.
  - intros p0 t Ht Hn. apply A6; [|exact Hn]. unfold upd in Ht. destruct (pid_eqb p p0) eqn:E; [apply pid_eqb_eq in E; subst p0; eapply remove_tid_In; exact Ht|exact Ht].
  - intros t j i Ht Hg. unfold upd. destruct (pid_eqb p PW) eqn:E; [|eauto]. apply pid_eqb_eq in E. subst p. apply R3; [lia|eauto].
  - intros p0. unfold upd. destruct (pid_eqb p p0); [exact R1|apply A8].
  - intros p0. split; [|discriminate]. unfold upd. destruct (pid_eqb p p0) eqn:E; [intros H; contradiction|].
    intros H. apply A9 in H. rewrite Hm in H. injection H as ->. rewrite pid_eqb_refl in E. discriminate.
  - intros Hex. apply A11. destruct Hex as [t [Ht Hn]]. exists t. split; [|exact Hn]. unfold upd in Ht.
    destruct (pid_eqb p PW) eqn:E; [apply pid_eqb_eq in E; subst p; eapply remove_tid_In; exact Ht|exact Ht].
Qed.

(* ---- component-level effect of wake_thread *)
Definition wk_ws (ws : list wstate) (t : option tid) : list wstate :=
  match t with
  | Some (S t') => match nth_error ws t' with
                   | Some WWaitPop => set_nth t' WIdle ws
                   | Some (WSubWait j i) => set_nth t' (WSubWoken j i) ws
                   | _ => ws
                   end
  | _ => ws
  end.
Definition wk_mst (mst : mstatus) (t : option tid) : mstatus :=
  match t with Some 0 => match mst with MWaitPush _ => MWokenPush | m => m end | _ => mst end.

Lemma wake_thread_comps : forall st t,
  s_ws (wake_thread st t) = wk_ws (s_ws st) t /\ s_mst (wake_thread st t) = wk_mst (s_mst st) t /\
  s_pt (wake_thread st t) = s_pt st /\ s_pw (wake_thread st t) = s_pw st /\ s_mops (wake_thread st t) = s_mops st.
Proof.
  intros st [[|t]|]; unfold wake_thread, wk_ws, wk_mst.
  - destruct (s_mst st) eqn:E; cbn; rewrite ?E; auto.
  - cbn [Nat.sub]. rewrite Nat.sub_0_r. destruct (nth_error (s_ws st) t) as [[]|]; cbn; rewrite ?Nat.sub_0_r; auto.
  - auto.
Qed.

Lemma wake_cases : forall l w l' wk, wake l w = Some (l', wk) ->
  (l = [] /\ l' = [] /\ wk = None) \/ (In w l /\ l' = remove_tid w l /\ wk = Some w).
Proof.
  intros l w l' wk H. unfold wake in H. destruct l as [|a l]; [left; inversion H; auto|].
  destruct (mem_tid w (a :: l)) eqn:E; [|discriminate]. right. inversion H; subst. split; [|auto].
  unfold mem_tid in E. apply existsb_exists in E. destruct E as [x [Hx E]]. apply Nat.eqb_eq in E. subst. exact Hx.
Qed.

Lemma DI_signal_push : forall ops mst ws PS PO LN SH p w l' wk,
  DI ops mst ws PS PO LN SH -> wake (PS p) w = Some (l', wk) ->
  DI ops (wk_mst mst wk) (wk_ws ws wk) (upd PS p l') PO LN SH.
Proof.
  intros ops mst ws PS PO LN SH p w l' wk D H.
  destruct (wake_cases _ _ _ _ H) as [(E1 & -> & ->)|(Hin & -> & ->)].
  - cbn [wk_mst wk_ws]. eapply DI_ext; [exact D| |reflexivity..].
    intros p0. unfold upd. destruct (pid_eqb p p0) eqn:E; [apply pid_eqb_eq in E; subst; auto|reflexivity].
  - destruct w as [|w'].
    + cbn [wk_ws wk_mst]. assert (Hm : mst = MWaitPush p) by (apply (d_m0 _ _ _ _ _ _ _ D); exact Hin). rewrite Hm.
      eapply E_wake_main; eassumption.
    + destruct (d_psh_s _ _ _ _ _ _ _ D p (S w') Hin ltac:(lia)) as (-> & j & i & Hg).
      cbn [wk_ws wk_mst]. unfold wget in Hg. cbn [Nat.sub] in Hg. rewrite Nat.sub_0_r in Hg. rewrite Hg.
      replace w' with (S w' - 1) at 1 by lia. eapply E_wake_push_w; try eassumption; [lia|].
      unfold wget. cbn [Nat.sub]. rewrite Nat.sub_0_r. exact Hg.
Qed.

Lemma DI_signal_pop : forall ops mst ws PS PO LN SH p w l' wk,
  DI ops mst ws PS PO LN SH -> wake (PO p) w = Some (l', wk) ->
  DI ops mst (wk_ws ws wk) PS (upd PO p l') LN SH.
Proof.
  intros ops mst ws PS PO LN SH p w l' wk D H.
  destruct (wake_cases _ _ _ _ H) as [(E1 & -> & ->)|(Hin & -> & ->)].
  - cbn [wk_ws]. eapply DI_ext; [exact D|reflexivity| |reflexivity..].
    intros p0. unfold upd. destruct (pid_eqb p p0) eqn:E; [apply pid_eqb_eq in E; subst; auto|reflexivity].
  - destruct (d_pop_s _ _ _ _ _ _ _ D p w Hin) as (Hw1 & Ho & Hg).
    destruct w as [|w']; [lia|]. cbn [wk_ws]. unfold wget in Hg. cbn [Nat.sub] in Hg. rewrite Nat.sub_0_r in Hg. rewrite Hg.
    replace w' with (S w' - 1) at 1 by lia. eapply E_wake_pop; eassumption.
Qed.

(* a thread that is not parked is not touched by a wake-up *)
Definition parked (w : wstate) : bool := match w with WWaitPop | WSubWait _ _ => true | _ => false end.
Lemma wk_ws_other : forall ws wk t old, wget ws t = Some old -> parked old = false -> wget (wk_ws ws wk) t = Some old.
Proof.
  intros ws wk t old H Hp. destruct wk as [[|w']|]; cbn [wk_ws]; try exact H.
  destruct (nth_error ws w') as [[]|] eqn:E; try exact H; unfold wget in *; rewrite nth_error_set_nth, E;
    (destruct (t - 1 =? w') eqn:E2; [apply Nat.eqb_eq in E2; rewrite E2, E in H; injection H as <-; discriminate|exact H]).
Qed.

(* ---- G: a worker that is not parked moves to another non-parked state; queue lengths may change *)
Lemma G_plain : forall ops mst ws PS PO LN LN' SH t0 old x,
  DI ops mst ws PS PO LN SH -> 1 <= t0 -> wget ws t0 = Some old ->
  parked old = false -> parked x = false -> sub_ok x ->
  (gone x = true -> SH (own_pool c t0) = true) ->
  (old = WDone -> x = WDone) ->
  (mst = MWaitJoin t0 -> x <> WDone) ->
  (forall p, PO p <> [] -> LN' p <= nidle (set_nth (t0 - 1) x ws) p) ->
  ((exists t, In t (PS PW) /\ t <> 0) -> c_wdepth c <= LN' PW + npush (set_nth (t0 - 1) x ws)) ->
  (forall p, mst = MWaitPush p -> 0 < LN' p + nrun (wof c (set_nth (t0 - 1) x ws) p)) ->
  DI ops mst (set_nth (t0 - 1) x ws) PS PO LN' SH.
Proof.
  intros ops mst ws PS PO LN LN' SH t0 old x D Ht0 Hw Po Px Sx Gx Dx Jx IP IW IM. inv_di D.
  constructor; try assumption.
  - apply Forall_set_nth; assumption.
  - intros t y Ht Hg Hgo. rewrite (wget_set ws t0 t _ _ Ht Ht0 Hw) in Hg.
    destruct (t =? t0) eqn:E; [apply Nat.eqb_eq in E; subst t; injection Hg as <-; auto|eauto].
  - intros p0 t Ht. destruct (A3 p0 t Ht) as (Ht1 & Ho & Hg). rewrite (wget_set ws t0 t _ _ Ht1 Ht0 Hw).
    destruct (t =? t0) eqn:E; [apply Nat.eqb_eq in E; subst t; rewrite Hw in Hg; injection Hg as ->; discriminate|auto].
  - intros t Ht Hg. rewrite (wget_set ws t0 t _ _ Ht Ht0 Hw) in Hg.
    destruct (t =? t0); [injection Hg as ->; discriminate|eauto].
  - intros p0 t Ht Hn. destruct (A6 p0 t Ht Hn) as (E & j & i & Hg). split; [exact E|]. exists j, i.
    rewrite (wget_set ws t0 t _ _) by (try eassumption; lia).
    destruct (t =? t0) eqn:E2; [apply Nat.eqb_eq in E2; subst t; rewrite Hw in Hg; injection Hg as ->; discriminate|exact Hg].
  - intros t j i Ht Hg. rewrite (wget_set ws t0 t _ _ Ht Ht0 Hw) in Hg.
    destruct (t =? t0); [injection Hg as ->; discriminate|eauto].
  - intros t Ht. destruct (A14 t Ht) as [H|H]; [left; exact H|right].
    rewrite (wget_set ws t0 t _ _) by (try eassumption; lia). destruct (t =? t0) eqn:E2; [|exact H].
    apply Nat.eqb_eq in E2. subst t. rewrite Hw in H. injection H as ->. rewrite Dx; reflexivity.
  - intros t Hm. destruct (A18 t Hm) as (Ho & Ht & y & Hy & Hd). split; [exact Ho|]. split; [exact Ht|].
    rewrite (wget_set ws t0 t _ _ Ht Ht0 Hw). destruct (t =? t0) eqn:E2; [|eauto].
    apply Nat.eqb_eq in E2. subst t. exists x. auto.
Qed.

(* ---- T1: an idle worker parks on queuePopCond *)
Lemma T_park : forall ops mst ws PS PO LN SH t0,
  DI ops mst ws PS PO LN SH -> 1 <= t0 -> wget ws t0 = Some WIdle ->
  LN (own_pool c t0) = 0 -> SH (own_pool c t0) = false ->
  DI ops mst (set_nth (t0 - 1) WWaitPop ws) PS (upd PO (own_pool c t0) (PO (own_pool c t0) ++ [t0])) LN SH.
Proof.
  intros ops mst ws PS PO LN SH t0 D Ht0 Hw HL HS. inv_di D.
  assert (Hnot : ~ In t0 (PO (own_pool c t0))) by (intros H; destruct (A3 _ _ H) as (_&_&H2); congruence).
  constructor; try assumption.
  - apply Forall_set_nth; [assumption|exact I].
  - intros t y Ht Hg Hgo. rewrite (wget_set ws t0 t _ _ Ht Ht0 Hw) in Hg.
    destruct (t =? t0); [injection Hg as <-; discriminate|eauto].
  - intros p0 t Ht. unfold upd in Ht. destruct (pid_eqb (own_pool c t0) p0) eqn:E.
    + apply pid_eqb_eq in E. subst p0. apply in_app_or in Ht. destruct Ht as [Ht|[<-|[]]].
      * destruct (A3 _ t Ht) as (Ht1 & Ho & Hg). rewrite (wget_set ws t0 t _ _ Ht1 Ht0 Hw).
        destruct (t =? t0) eqn:E2; [apply Nat.eqb_eq in E2; subst t; contradiction|auto].
      * rewrite (wget_set ws t0 t0 _ _ Ht0 Ht0 Hw), Nat.eqb_refl. auto.
    + destruct (A3 _ t Ht) as (Ht1 & Ho & Hg). rewrite (wget_set ws t0 t _ _ Ht1 Ht0 Hw).
      destruct (t =? t0) eqn:E2; [apply Nat.eqb_eq in E2; subst t; congruence|auto].
  - intros t Ht Hg. rewrite (wget_set ws t0 t _ _ Ht Ht0 Hw) in Hg. unfold upd.
    destruct (t =? t0) eqn:E2.
    + apply Nat.eqb_eq in E2. subst t. rewrite pid_eqb_refl. apply in_or_app. right. left. reflexivity.
    + destruct (pid_eqb (own_pool c t0) (own_pool c t)) eqn:E; [|eauto].
      apply pid_eqb_eq in E. rewrite E. apply in_or_app. left. eauto.
  - intros p0. unfold upd. destruct (pid_eqb (own_pool c t0) p0) eqn:E; [|apply A5].
    apply pid_eqb_eq in E. subst p0. apply NoDup_app_snoc_nat; [apply A5|exact Hnot].
  - intros p0 t Ht Hn. destruct (A6 p0 t Ht Hn) as (E & j & i & Hg). split; [exact E|]. exists j, i.
    rewrite (wget_set ws t0 t _ _) by (try eassumption; lia).
    destruct (t =? t0) eqn:E2; [apply Nat.eqb_eq in E2; subst t; congruence|exact Hg].
  - intros t j i Ht Hg. rewrite (wget_set ws t0 t _ _ Ht Ht0 Hw) in Hg.
    destruct (t =? t0); [discriminate|eauto].
  - intros p0 Hne. pose proof (nidle_set ws t0 WWaitPop _ p0 Ht0 Hw) as S. cbn [is_idle] in S. unfold upd in Hne.
    destruct (pid_eqb p0 (own_pool c t0)) eqn:E.
    + apply pid_eqb_eq in E. subst p0. lia.
    + assert (E' : pid_eqb (own_pool c t0) p0 = false) by (destruct (own_pool c t0), p0; cbn in *; congruence).
      rewrite E' in Hne. specialize (A10 p0 Hne). lia.
  - intros Hex. specialize (A11 Hex). pose proof (npush_set ws t0 WWaitPop _ Hw) as S. cbn [is_pusher] in S. lia.
  - intros p0 Hm. specialize (A12 p0 Hm). pose proof (nrun_set ws t0 WWaitPop _ p0 Ht0 Hw) as S. cbn [running b2n] in S.
    destruct (pid_eqb p0 (own_pool c t0)); lia.
  - intros t Ht. destruct (A14 t Ht) as [H|H]; [left; exact H|right].
    rewrite (wget_set ws t0 t _ _) by (try eassumption; lia). destruct (t =? t0) eqn:E2; [|exact H].
    apply Nat.eqb_eq in E2. subst t. congruence.
  - intros p0 Hb Hs. unfold upd. destruct (pid_eqb (own_pool c t0) p0) eqn:E; [|apply A17; assumption].
    apply pid_eqb_eq in E. subst p0. congruence.
  - intros t Hm. destruct (A18 t Hm) as (Ho & Ht & y & Hy & Hd). split; [exact Ho|]. split; [exact Ht|].
    rewrite (wget_set ws t0 t _ _ Ht Ht0 Hw). destruct (t =? t0); [eexists; split; [reflexivity|discriminate]|eauto].
Qed.

(* ---- T6: a compression job finds wPool's queue full and parks on queuePushCond *)
Lemma T_block : forall ops mst ws PS PO LN SH t0 old j i j',
  DI ops mst ws PS PO LN SH -> 1 <= t0 -> wget ws t0 = Some old ->
  parked old = false -> running old = true -> is_idle old = 0 -> is_pusher old = 1 -> old <> WDone ->
  nth_error (job_subs c j) i = Some (PW, j') ->
  c_wdepth c <= LN PW ->
  DI ops mst (set_nth (t0 - 1) (WSubWait j i) ws) (upd PS PW (PS PW ++ [t0])) PO LN SH.
Proof.
  intros ops mst ws PS PO LN SH t0 old j i j' D Ht0 Hw Po Ro Io Pu Nd Hsubj HL. inv_di D.
  assert (Hnot : ~ In t0 (PS PW)).
  { intros H. destruct (A6 _ _ H ltac:(lia)) as (_ & j0 & i0 & H2). rewrite Hw in H2. injection H2 as ->. discriminate. }
  constructor; try assumption.
  - apply Forall_set_nth; [assumption|cbn [sub_ok]; eauto].
  - intros t y Ht Hg Hgo. rewrite (wget_set ws t0 t _ _ Ht Ht0 Hw) in Hg.
    destruct (t =? t0); [injection Hg as <-; discriminate|eauto].
  - intros p0 t Ht. destruct (A3 p0 t Ht) as (Ht1 & Ho & Hg). rewrite (wget_set ws t0 t _ _ Ht1 Ht0 Hw).
    destruct (t =? t0) eqn:E; [apply Nat.eqb_eq in E; subst t; rewrite Hw in Hg; injection Hg as ->; discriminate|auto].
  - intros t Ht Hg. rewrite (wget_set ws t0 t _ _ Ht Ht0 Hw) in Hg. destruct (t =? t0); [discriminate|eauto].
  - intros p0 t Ht Hn. unfold upd in Ht. destruct (pid_eqb PW p0) eqn:E.
    + apply pid_eqb_eq in E. subst p0. split; [reflexivity|]. apply in_app_or in Ht. destruct Ht as [Ht|[<-|[]]].
      * destruct (A6 _ t Ht Hn) as (_ & j0 & i0 & Hg). exists j0, i0. rewrite (wget_set ws t0 t _ _) by (try eassumption; lia).
        destruct (t =? t0) eqn:E2; [apply Nat.eqb_eq in E2; subst t; contradiction|exact Hg].
      * exists j, i. rewrite (wget_set ws t0 t0 _ _ Ht0 Ht0 Hw), Nat.eqb_refl. reflexivity.
    + destruct (A6 _ t Ht Hn) as (E0 & _). subst p0. discriminate.
  - intros t j0 i0 Ht Hg. rewrite (wget_set ws t0 t _ _ Ht Ht0 Hw) in Hg. unfold upd. cbn [pid_eqb]. apply in_or_app.
    destruct (t =? t0) eqn:E2; [apply Nat.eqb_eq in E2; subst t; right; left; reflexivity|left; eauto].
  - intros p0. unfold upd. destruct (pid_eqb PW p0) eqn:E; [|apply A8].
    apply pid_eqb_eq in E. subst p0. apply NoDup_app_snoc_nat; [apply A8|exact Hnot].
  - intros p0. rewrite <- A9. unfold upd. destruct (pid_eqb PW p0) eqn:E; [|reflexivity].
    apply pid_eqb_eq in E. subst p0. split; intros H; [apply in_app_or in H; destruct H as [H|[H|[]]]; [exact H|lia]|apply in_or_app; left; exact H].
  - intros p0 Hne. specialize (A10 p0 Hne). pose proof (nidle_set ws t0 (WSubWait j i) _ p0 Ht0 Hw) as S. cbn [is_idle] in S.
    destruct (pid_eqb p0 (own_pool c t0)); lia.
  - intros _. lia.
  - intros p0 Hm. specialize (A12 p0 Hm). pose proof (nrun_set ws t0 (WSubWait j i) _ p0 Ht0 Hw) as S. cbn [running b2n] in S.
    rewrite Ro in S. cbn [b2n] in S. destruct (pid_eqb p0 (own_pool c t0)); lia.
  - intros t Ht. destruct (A14 t Ht) as [H|H]; [left; exact H|right].
    rewrite (wget_set ws t0 t _ _) by (try eassumption; lia). destruct (t =? t0) eqn:E2; [|exact H].
    apply Nat.eqb_eq in E2. subst t. congruence.
  - intros t Hm. destruct (A18 t Hm) as (Ho & Ht & y & Hy & Hd). split; [exact Ho|]. split; [exact Ht|].
    rewrite (wget_set ws t0 t _ _ Ht Ht0 Hw). destruct (t =? t0); [eexists; split; [reflexivity|discriminate]|eauto].
Qed.

(* ---- the main thread *)
Definition nowait (m : mstatus) : Prop := (forall p, m <> MWaitPush p) /\ (forall t, m <> MWaitJoin t).

Lemma M_mst : forall ops mst m' ws PS PO LN SH,
  DI ops mst ws PS PO LN SH -> (forall p, mst <> MWaitPush p) -> nowait m' -> DI ops m' ws PS PO LN SH.
Proof.
  intros ops mst m' ws PS PO LN SH D H [N1 N2]. inv_di D. constructor; try assumption.
  - intros p. split; intros H0; [apply A9 in H0; exfalso; exact (H p H0)|exfalso; exact (N1 p H0)].
  - intros p Hm. exfalso. exact (N1 p Hm).
  - intros p Hm. exfalso. exact (N1 p Hm).
  - intros t Hm. exfalso. exact (N2 t Hm).
Qed.

Lemma M_tail : forall op rest mst ws PS PO LN LN' SH,
  DI (op :: rest) mst ws PS PO LN SH -> nowait mst ->
  (forall t, op = MJoin t -> wget ws t = Some WDone) -> (forall p, op <> MShutdown p) -> (forall p, op <> MBroadcast p) ->
  (forall p, PO p <> [] -> LN' p <= nidle ws p) ->
  ((exists t, In t (PS PW) /\ t <> 0) -> c_wdepth c <= LN' PW + npush ws) ->
  DI rest mst ws PS PO LN' SH.
Proof.
  intros op rest mst ws PS PO LN LN' SH D [N1 N2] HJ HS HB IP IW. inv_di D. constructor; try assumption.
  - intros p Hm. exfalso. exact (N1 p Hm).
  - intros p Hm. exfalso. exact (N1 p Hm).
  - intros t Ht. destruct (A14 t Ht) as [[H|H]|H]; auto.
  - intros p. destruct (A15 p) as [[H|H]|H]; auto. exfalso. exact (HS p H).
  - intros p H. destruct (A16 p (or_intror H)) as [H2|H2]; [exfalso; exact (HB p H2)|exact H2].
  - intros p Hb Hs. apply A17; [|exact Hs]. intros [H|H]; [exact (HB p H)|exact (Hb H)].
  - intros t Hm. exfalso. exact (N2 t Hm).
Qed.

Lemma M_jcwait : forall p rest mst ws PS PO LN SH,
  DI (MJobsCompleted p :: rest) mst ws PS PO LN SH -> nowait mst ->
  0 < LN p + nrun (wof c ws p) ->
  DI (MJobsCompleted p :: rest) (MWaitPush p) ws (upd PS p (PS p ++ [0])) PO LN SH.
Proof.
  intros p rest mst ws PS PO LN SH D [N1 N2] Hp. inv_di D.
  assert (H0 : forall p0, ~ In 0 (PS p0)) by (intros p0 H; apply A9 in H; exact (N1 p0 H)).
  constructor; try assumption.
  - intros p0 t Ht Hn. apply A6; [|exact Hn]. unfold upd in Ht. destruct (pid_eqb p p0) eqn:E; [|exact Ht].
    apply pid_eqb_eq in E. subst p0. apply in_app_or in Ht. destruct Ht as [Ht|[Ht|[]]]; [exact Ht|congruence].
  - intros t j i Ht Hg. unfold upd. destruct (pid_eqb p PW) eqn:E; [|eauto]. apply pid_eqb_eq in E. subst p. apply in_or_app. left. eauto.
  - intros p0. unfold upd. destruct (pid_eqb p p0) eqn:E; [|apply A8]. apply pid_eqb_eq in E. subst p0.
    apply NoDup_app_snoc_nat; [apply A8|apply H0].
  - intros p0. unfold upd. destruct (pid_eqb p p0) eqn:E.
    + apply pid_eqb_eq in E. subst p0. split; [reflexivity|]. intros _. apply in_or_app. right. left. reflexivity.
    + split; [intros H; exfalso; exact (H0 p0 H)|]. intros H. injection H as ->. rewrite pid_eqb_refl in E. discriminate.
  - intros Hex. apply A11. destruct Hex as [t [Ht Hn]]. exists t. split; [|exact Hn]. unfold upd in Ht.
    destruct (pid_eqb p PW) eqn:E; [|exact Ht]. apply in_app_or in Ht. destruct Ht as [Ht|[Ht|[]]]; [|congruence].
    apply pid_eqb_eq in E. subst p. exact Ht.
  - intros p0 Hm. injection Hm as <-. exact Hp.
  - intros p0 Hm. injection Hm as <-. exists rest. left. reflexivity.
  - discriminate.
Qed.

Lemma M_shut : forall p rest mst ws PS PO LN SH,
  DI (MShutdown p :: rest) mst ws PS PO LN SH -> nowait mst ->
  DI rest mst ws PS PO LN (upd SH p true).
Proof.
  intros p rest mst ws PS PO LN SH D [N1 N2]. inv_di D. constructor; try assumption.
  - intros t w Ht Hg Hgo. unfold upd. destruct (pid_eqb p (own_pool c t)); [reflexivity|eauto].
  - intros p0 Hm. exfalso. exact (N1 p0 Hm).
  - intros t Ht. destruct (A14 t Ht) as [[H|H]|H]; auto. discriminate.
  - intros p0. unfold upd. destruct (pid_eqb p p0) eqn:E; [right; reflexivity|].
    destruct (A15 p0) as [[H|H]|H]; auto. injection H as ->. rewrite pid_eqb_refl in E. discriminate.
  - intros p0 H. destruct (A16 p0 (or_intror H)) as [H2|H2]; [discriminate|exact H2].
  - intros p0 Hb Hs. unfold upd in Hs. destruct (pid_eqb p p0) eqn:E.
    + apply pid_eqb_eq in E. subst p0. exfalso. destruct (A16 p (or_introl eq_refl)) as [H|H]; [discriminate|exact (Hb H)].
    + apply A17; [|exact Hs]. intros [H|H]; [discriminate|exact (Hb H)].
  - intros t Hm. exfalso. exact (N2 t Hm).
Qed.

Lemma M_joinblock : forall t rest mst ws PS PO LN SH w,
  DI (MJoin t :: rest) mst ws PS PO LN SH -> nowait mst -> 1 <= t -> wget ws t = Some w -> w <> WDone ->
  DI (MJoin t :: rest) (MWaitJoin t) ws PS PO LN SH.
Proof.
  intros t rest mst ws PS PO LN SH w D [N1 N2] Ht Hw Hd. inv_di D. constructor; try assumption; try discriminate.
  - intros p. split; [intros H; apply A9 in H; exfalso; exact (N1 p H)|discriminate].
  - intros t0 Hm. injection Hm as <-. split; [eexists; reflexivity|]. split; [exact Ht|]. exists w. auto.
Qed.

(* broadcast on queuePopCond of p: every parked worker of p becomes idle *)
Lemma DI_wake_all_pop : forall l ops mst ws PS PO LN SH p,
  DI ops mst ws PS PO LN SH -> PO p = l ->
  DI ops mst (fold_left (fun ws t => wk_ws ws (Some t)) l ws) PS (upd PO p []) LN SH.
Proof.
  induction l as [|t l IH]; intros ops mst ws PS PO LN SH p D E; cbn [fold_left].
  - eapply DI_ext; [exact D|reflexivity| |reflexivity..]. intros p0. unfold upd. destruct (pid_eqb p p0) eqn:E2; [apply pid_eqb_eq in E2; subst; auto|reflexivity].
  - assert (Hin : In t (PO p)) by (rewrite E; left; reflexivity).
    pose proof (DI_signal_pop ops mst ws PS PO LN SH p t l (Some t) D) as D1.
    assert (Hw : wake (PO p) t = Some (l, Some t)).
    { unfold wake. rewrite E. cbn [mem_tid existsb remove_tid]. rewrite Nat.eqb_refl. reflexivity. }
    specialize (D1 Hw).
    eapply DI_ext; [apply (IH _ _ _ _ _ _ _ p D1)| | | |]; try reflexivity.
    + unfold upd. rewrite pid_eqb_refl. reflexivity.
    + intros p0. unfold upd. destruct (pid_eqb p p0); reflexivity.
Qed.

Lemma M_bcast : forall p rest mst ws PS PO LN SH,
  DI (MBroadcast p :: rest) mst ws PS PO LN SH -> nowait mst -> PS p = [] -> ~ In (MShutdown p) rest ->
  DI rest mst (fold_left (fun ws t => wk_ws ws (Some t)) (PO p) ws) PS (upd PO p []) LN SH.
Proof.
  intros p rest mst ws PS PO LN SH D [N1 N2] HP HS.
  pose proof (DI_wake_all_pop (PO p) _ _ _ _ _ _ _ p D eq_refl) as D1. inv_di D1. constructor; try assumption.
  - intros p0 Hm. exfalso. exact (N1 p0 Hm).
  - intros t Ht. destruct (A14 t Ht) as [[H|H]|H]; auto. discriminate.
  - intros p0. destruct (A15 p0) as [[H|H]|H]; auto. discriminate.
  - intros p0 H. destruct (A16 p0 (or_intror H)) as [H2|H2]; [|exact H2]. injection H2 as ->. contradiction.
  - intros p0 Hb Hs. unfold upd. destruct (pid_eqb p p0) eqn:E; [reflexivity|].
    pose proof (A17 p0) as A. unfold upd in A. rewrite E in A. apply A; [|exact Hs].
    intros [H|H]; [injection H as ->; rewrite pid_eqb_refl in E; discriminate|exact (Hb H)].
  - intros t Hm. exfalso. exact (N2 t Hm).
Qed.

(* ---- from states to components *)
Definition dlinv_full (st : state) : Prop := dlinv st /\ q_size (s_pw st) = c_wdepth c + 1.

Lemma dlinv_intro : forall st' ops mst ws PS PO LN SH,
  DI ops mst ws PS PO LN SH ->
  s_mops st' = ops -> s_mst st' = mst -> s_ws st' = ws ->
  (forall p, push_w (get_pool st' p) = PS p) -> (forall p, pop_w (get_pool st' p) = PO p) ->
  (forall p, length (queued (get_pool st' p)) = LN p) -> (forall p, shut (get_pool st' p) = SH p) ->
  dlinv st'.
Proof.
  intros st' ops mst ws PS PO LN SH D E1 E2 E3 E4 E5 E6 E7. unfold dlinv. rewrite E1, E2, E3.
  eapply DI_ext; [exact D|assumption..].
Qed.

Lemma comps_signal_push : forall X p w st3, signal_push X p w = Some st3 ->
  exists l' wk, wake (push_w (get_pool X p)) w = Some (l', wk) /\
    s_ws st3 = wk_ws (s_ws X) wk /\ s_mst st3 = wk_mst (s_mst X) wk /\ s_mops st3 = s_mops X /\
    (forall p0, push_w (get_pool st3 p0) = upd (fun p1 => push_w (get_pool X p1)) p l' p0) /\
    (forall p0, pop_w (get_pool st3 p0) = pop_w (get_pool X p0)) /\
    (forall p0, queued (get_pool st3 p0) = queued (get_pool X p0)) /\
    (forall p0, shut (get_pool st3 p0) = shut (get_pool X p0)).
Proof.
  intros X p w st3 H. unfold signal_push in H. destruct (wake _ w) as [[l' wk]|] eqn:E; [|discriminate]. injection H as <-.
  exists l', wk. split; [reflexivity|].
  destruct (wake_thread_comps (set_pool X p (set_push_w (get_pool X p) l')) wk) as (A&B&C1&C2&C3).
  rewrite A, B, C3. repeat split; try (destruct p; reflexivity);
    intros p0; unfold get_pool at 1; rewrite C1, C2; destruct p, p0; reflexivity.
Qed.

Lemma comps_signal_pop : forall X p w st3, signal_pop X p w = Some st3 ->
  exists l' wk, wake (pop_w (get_pool X p)) w = Some (l', wk) /\
    s_ws st3 = wk_ws (s_ws X) wk /\ s_mst st3 = wk_mst (s_mst X) wk /\ s_mops st3 = s_mops X /\
    (forall p0, push_w (get_pool st3 p0) = push_w (get_pool X p0)) /\
    (forall p0, pop_w (get_pool st3 p0) = upd (fun p1 => pop_w (get_pool X p1)) p l' p0) /\
    (forall p0, queued (get_pool st3 p0) = queued (get_pool X p0)) /\
    (forall p0, shut (get_pool st3 p0) = shut (get_pool X p0)).
Proof.
  intros X p w st3 H. unfold signal_pop in H. destruct (wake _ w) as [[l' wk]|] eqn:E; [|discriminate]. injection H as <-.
  exists l', wk. split; [reflexivity|].
  destruct (wake_thread_comps (set_pool X p (set_pop_w (get_pool X p) l')) wk) as (A&B&C1&C2&C3).
  rewrite A, B, C3. repeat split; try (destruct p; reflexivity);
    intros p0; unfold get_pool at 1; rewrite C1, C2; destruct p, p0; reflexivity.
Qed.

Lemma pop_wk_mst : forall ops mst ws PS PO LN SH p w l' wk,
  DI ops mst ws PS PO LN SH -> wake (PO p) w = Some (l', wk) -> wk_mst mst wk = mst.
Proof.
  intros ops mst ws PS PO LN SH p w l' wk D H.
  destruct (wake_cases _ _ _ _ H) as [(_ & _ & ->)|(Hin & _ & ->)]; [reflexivity|].
  destruct (d_pop_s _ _ _ _ _ _ _ D p w Hin) as (Hw1 & _). destruct w; [lia|reflexivity].
Qed.


Ltac inv_c D := destruct D as [pos Q arrived Hops Hpos Hlen HR HB HL HT HW HC HI HQ HS HF].

Ltac comp0 := cbn [s_mops s_mst s_ws set_w set_ws set_main add_event];
  rewrite ?ops_set_pool, ?mst_set_pool, ?ws_set_pool; cbn [s_mops s_mst s_ws set_w set_ws set_main add_event]; reflexivity.

Lemma pid_eqb_sym : forall a b, pid_eqb a b = pid_eqb b a. Proof. intros [] []; reflexivity. Qed.

(* the components of a state *)
Definition cPS (st : state) (p : pid) := push_w (get_pool st p).
Definition cPO (st : state) (p : pid) := pop_w (get_pool st p).
Definition cLN (st : state) (p : pid) := length (queued (get_pool st p)).
Definition cSH (st : state) (p : pid) := shut (get_pool st p).

Lemma pop_wake_room : forall ops mst ws PS PO LN SH p' w l' wk,
  DI ops mst ws PS PO LN SH -> wake (PO p') w = Some (l', wk) ->
  upd PO p' l' p' <> [] -> LN p' + 1 <= nidle (wk_ws ws wk) p'.
Proof.
  intros ops mst ws PS PO LN SH p' w l' wk D Hwake Hne.
  destruct (wake_cases _ _ _ _ Hwake) as [(E1 & -> & ->)|(Hin & -> & ->)].
  - exfalso. apply Hne. unfold upd. rewrite pid_eqb_refl. reflexivity.
  - destruct (d_pop_s _ _ _ _ _ _ _ D p' w Hin) as (Hw1 & Ho & Hg).
    assert (Hne0 : PO p' <> []) by (intros E0; rewrite E0 in Hin; destruct Hin).
    pose proof (d_ip _ _ _ _ _ _ _ D p' Hne0) as I0.
    destruct w as [|w']; [lia|]. cbn [wk_ws]. unfold wget in Hg. cbn [Nat.sub] in Hg. rewrite Nat.sub_0_r in Hg. rewrite Hg.
    pose proof (nidle_set ws (S w') WIdle WWaitPop p' Hw1 ltac:(unfold wget; cbn [Nat.sub]; rewrite Nat.sub_0_r; exact Hg)) as HS1.
    cbn [is_idle Nat.sub] in HS1. rewrite Nat.sub_0_r, Ho, pid_eqb_refl in HS1. lia.
Qed.

Lemma push_site : forall ops mst ws PS PO LN SH p' w l' wk t old x,
  DI ops mst ws PS PO LN SH -> wake (PO p') w = Some (l', wk) ->
  1 <= t -> wget ws t = Some old -> parked old = false -> parked x = false -> sub_ok x -> gone x = false ->
  old <> WDone -> x <> WDone ->
  is_idle old = 0 -> is_idle x = 0 -> running x = running old ->
  is_pusher old <= is_pusher x + (if pid_eqb p' PW then 1 else 0) ->
  DI ops mst (set_nth (t - 1) x (wk_ws ws wk)) PS (upd PO p' l') (upd LN p' (LN p' + 1)) SH.
Proof.
  intros ops mst ws PS PO LN SH p' w l' wk t old x D Hwake Ht Hw Po Px Sx Gx Od Xd Io Ix Rx Pu.
  pose proof (DI_signal_pop _ _ _ _ _ _ _ p' w l' wk D Hwake) as D2.
  pose proof (wk_ws_other ws wk t old Hw Po) as Hw2.
  eapply (G_plain _ _ _ _ _ LN _ _ t old x D2 Ht Hw2); try assumption; try congruence.
  - intros p0 Hne. pose proof (nidle_set (wk_ws ws wk) t x _ p0 Ht Hw2) as HS1. rewrite Io, Ix in HS1.
    unfold upd at 1. destruct (pid_eqb p' p0) eqn:E.
    + apply pid_eqb_eq in E. subst p0. pose proof (pop_wake_room _ _ _ _ _ _ _ p' w l' wk D Hwake Hne). destruct (pid_eqb p' (own_pool c t)); lia.
    + pose proof (d_ip _ _ _ _ _ _ _ D2 p0 Hne). destruct (pid_eqb p0 (own_pool c t)); lia.
  - intros Hex. pose proof (d_iw _ _ _ _ _ _ _ D2 Hex) as I0. pose proof (npush_set (wk_ws ws wk) t x _ Hw2) as HS1.
    unfold upd. destruct (pid_eqb p' PW) eqn:E; [apply pid_eqb_eq in E; subst p'|]; lia.
  - intros p0 Hm. pose proof (d_im _ _ _ _ _ _ _ D2 p0 Hm) as I0. pose proof (nrun_set (wk_ws ws wk) t x _ p0 Ht Hw2) as HS1. rewrite Rx in HS1.
    unfold upd. destruct (pid_eqb p' p0) eqn:E; [apply pid_eqb_eq in E; subst p0|]; destruct (pid_eqb _ (own_pool c t)); lia.
Qed.

Lemma dlinv_tr : forall a b, tr_eq a b -> dlinv a -> dlinv b.
Proof.
  intros a b (E1&E2&E3&E4&E5&_) D. unfold dlinv in *. rewrite E3, E4, E5.
  eapply DI_ext; [exact D|..]; intros []; cbn [get_pool]; rewrite ?E1, ?E2; reflexivity.
Qed.

Lemma body_effects_comps : forall st t j,
  s_pt (body_effects c st t j) = s_pt st /\ s_pw (body_effects c st t j) = s_pw st /\
  s_ws (body_effects c st t j) = s_ws st /\ s_mops (body_effects c st t j) = s_mops st /\ s_mst (body_effects c st t j) = s_mst st.
Proof.
  intros st t j. destruct j; try (repeat split; reflexivity). cbn [body_effects].
  destruct (arrive (s_wr st) (Z.of_nat k) [Z.of_nat k]) as [[w' o] ok].
  destruct (wr_events_core (set_wr st w' o ok) t o) as (W1&W2&W3&W4&_).
  pose proof (W1 PT) as E1. pose proof (W1 PW) as E2. cbn [get_pool] in E1, E2. rewrite E1, E2, W2, W3, W4. repeat split.
Qed.

Definition not_subwait (w : wstate) : Prop := match w with WSubWait _ _ => False | _ => True end.

Lemma wake_all_comps : forall l st,
  s_ws (wake_all st l) = fold_left (fun ws t => wk_ws ws (Some t)) l (s_ws st) /\
  s_pt (wake_all st l) = s_pt st /\ s_pw (wake_all st l) = s_pw st.
Proof.
  unfold wake_all. induction l as [|t l IH]; intros st; cbn [fold_left]; [auto|].
  destruct (IH (wake_thread st (Some t))) as (A&B&C0). destruct (wake_thread_comps st (Some t)) as (W1&_&W3&W4&_).
  rewrite A, B, C0, W1, W3, W4. auto.
Qed.

Lemma wk_ws_length : forall ws wk, length (wk_ws ws wk) = length ws.
Proof. intros ws [[|t]|]; cbn [wk_ws]; try reflexivity. destruct (nth_error ws t) as [[]|]; rewrite ?set_nth_length; reflexivity. Qed.
Lemma wk_ws_nosub : forall ws wk, Forall not_subwait ws -> Forall not_subwait (wk_ws ws wk).
Proof. intros ws [[|t]|] H; cbn [wk_ws]; try exact H. destruct (nth_error ws t) as [[]|]; try exact H; apply Forall_set_nth; try exact H; exact I. Qed.
Lemma fold_wk_keep : forall l ws, Forall not_subwait ws ->
  Forall not_subwait (fold_left (fun ws t => wk_ws ws (Some t)) l ws) /\ length (fold_left (fun ws t => wk_ws ws (Some t)) l ws) = length ws.
Proof.
  induction l as [|t l IH]; intros ws H; cbn [fold_left]; [auto|].
  destruct (IH _ (wk_ws_nosub ws (Some t) H)) as [A B]. rewrite B, wk_ws_length. auto.
Qed.

Lemma ps_empty : forall ops mst ws PS PO LN SH p, DI ops mst ws PS PO LN SH -> nowait mst -> Forall not_subwait ws -> PS p = [].
Proof.
  intros ops mst ws PS PO LN SH p D [N1 _] Hn. destruct (PS p) as [|x l] eqn:E; [reflexivity|exfalso].
  assert (Hin : In x (PS p)) by (rewrite E; left; reflexivity).
  destruct (Nat.eq_dec x 0) as [->|Hx].
  - apply (d_m0 _ _ _ _ _ _ _ D) in Hin. exact (N1 p Hin).
  - destruct (d_psh_s _ _ _ _ _ _ _ D p x Hin Hx) as (_ & j & i & Hg).
    pose proof (Forall_nth_error _ _ _ _ _ Hn Hg) as F. exact F.
Qed.


Lemma wake_hd : forall l, exists r, wake l (hd 0 l) = Some r.
Proof. intros [|a l]; cbn [wake hd]; [eauto|]. unfold mem_tid. cbn [existsb]. rewrite Nat.eqb_refl. cbn [orb]. eauto. Qed.

Lemma signal_push_hd : forall X p, exists st3, signal_push X p (hd 0 (push_w (get_pool X p))) = Some st3.
Proof. intros X p. unfold signal_push. destruct (wake_hd (push_w (get_pool X p))) as [[l wk] E]. rewrite E. eauto. Qed.
Lemma signal_pop_hd : forall X p, exists st3, signal_pop X p (hd 0 (pop_w (get_pool X p))) = Some st3.
Proof. intros X p. unfold signal_pop. destruct (wake_hd (pop_w (get_pool X p))) as [[l wk] E]. rewrite E. eauto. Qed.

Lemma submit_enabled : forall X t p j, exists w r, submit_cs X t p j w = Some r.
Proof.
  intros X t p j. unfold submit_cs. destruct (isQueueFull (get_pool X p) && negb (shut (get_pool X p))); [exists 0; eauto|].
  destruct (shut (get_pool X p)); [exists 0; eauto|].
  destruct (signal_pop_hd (set_pool X p (pool_push (get_pool X p) j)) p) as [st3 E].
  eexists. rewrite E. eauto.
Qed.

Lemma worker_enabled : forall st t w0, nth_error (s_ws st) (t - 1) = Some w0 ->
  (match w0 with WIdle | WRun _ _ | WSubWoken _ _ | WExit => true | _ => false end) = true ->
  exists w st', worker_step c st t w = Some st'.
Proof.
  intros st t w0 Ew Hr. unfold worker_step. rewrite Ew. destruct w0 as [| |j i|j i|j i| |]; try discriminate.
  - destruct (worker_must_wait _); [destruct (shut _); exists 0; eauto|].
    destruct (pool_pop _) as [[j pl']|]; [|exists 0; eauto].
    destruct (signal_push_hd (set_pool st (own_pool c t) pl') (own_pool c t)) as [st3 E]. eexists. rewrite E. eauto.
  - set (st1 := if i =? 0 then start_effects c st t j else st). clearbody st1.
    destruct (nth_error (job_subs c j) i) as [[p' j']|].
    + destruct (submit_enabled (sub_effects c st1 t p' j') t p' j') as [w [[st2 b] E]]. exists w. rewrite E. destruct b; eauto.
    + match goal with |- exists w st', match signal_push ?X ?p w with _ => _ end = _ => destruct (signal_push_hd X p) as [st3 E] end.
      eexists. rewrite E. eauto.
  - destruct (nth_error (job_subs c j) i) as [[p' j']|]; [|exists 0; eauto].
    destruct (submit_enabled st t p' j') as [w [[st2 b] E]]. exists w. rewrite E. destruct b; eauto.
  - exists 0. eauto.
Qed.

Lemma main_run_nosub : forall fuel st w woken, (forall p j, ~ In (MSubmit p j) (s_mops st)) -> (forall k, ~ In (MRefill k) (s_mops st)) ->
  exists st', main_run fuel c st w woken = Some st'.
Proof.
  induction fuel as [|f IH]; intros st w woken Hs Hr; cbn [main_run]; [eauto|].
  destruct (s_mops st) as [|op rest] eqn:Eo; [eauto|].
  assert (Hs' : forall X m, forall p j, ~ In (MSubmit p j) (s_mops (set_main X rest m))) by (intros X m p j H; cbn in H; apply (Hs p j); right; exact H).
  assert (Hr' : forall X m, forall k, ~ In (MRefill k) (s_mops (set_main X rest m))) by (intros X m k H; cbn in H; apply (Hr k); right; exact H).
  destruct op as [pp jj|kk|pp|pp|pp|tt].
  - exfalso. apply (Hs pp jj). left. reflexivity.
  - exfalso. apply (Hr kk). left. reflexivity.
  - destruct (jobs_pending _); eauto.
  - eauto.
  - apply IH; auto.
  - destruct (thread_done st tt); [apply IH; auto|eauto].
Qed.


(* ---- worker steps, generic in the pipeline: what they need from the pipeline invariant is passed as hypotheses *)
Lemma G_idle : forall st t w st' (Q : pid -> list job), 1 <= t -> dlinv st ->
  (forall p, ring_ok (get_pool st p) (Q p)) ->
  (t_limit (get_pool st (own_pool c t)) <=? n_busy (get_pool st (own_pool c t))) = false ->
  (own_pool c t = PW -> forall j rest, Q PW = j :: rest -> is_pusher (WRun j 0) = 0) ->
  (s_mst st = MWaitPush PW -> forall t0, In t0 (cPS st PW) -> t0 = 0) ->
  wget (s_ws st) t = Some WIdle ->
  worker_step c st t w = Some st' -> dlinv st'.
Proof.
  intros st t w st' Q Ht D HR Elim0 Hpw0 Hmix Ew Hstep. pose proof D as D0. unfold dlinv in D. fold (cPS st) (cPO st) (cLN st) (cSH st) in D.
  unfold worker_step in Hstep. unfold wget in Ew. rewrite Ew in Hstep. fold (wget (s_ws st) t) in Ew.
  remember (own_pool c t) as p eqn:Ep.
  assert (Elim : (t_limit (get_pool st p) <=? n_busy (get_pool st p)) = false) by exact Elim0.
  unfold worker_must_wait in Hstep. rewrite Elim, orb_false_r in Hstep.
  pose proof (queued_ring _ _ (HR p)) as Eq.
  destruct (q_empty (get_pool st p)) eqn:Eem.
  - assert (EQ : Q p = []) by (apply (ring_empty job _ _ (HR p)); exact Eem).
    assert (L0 : cLN st p = 0) by (unfold cLN; rewrite Eq, EQ; reflexivity).
    destruct (shut (get_pool st p)) eqn:Esh; injection Hstep as <-.
    + (* exit *)
      eapply dlinv_intro; [eapply (G_plain _ _ _ _ _ (cLN st) (cLN st) _ t WIdle WExit D Ht Ew); try reflexivity; try exact I; try discriminate| | | | | | |];
        try reflexivity; try (intros p0; unfold cPS, cPO, cLN, cSH; rewrite gp_set_w; reflexivity).
      * intros _. rewrite <- Ep. exact Esh.
      * intros p0 Hne. pose proof (d_ip _ _ _ _ _ _ _ D p0 Hne) as I0.
        pose proof (nidle_set (s_ws st) t WExit _ p0 Ht Ew) as HS1. cbn [is_idle] in HS1. rewrite <- Ep in HS1.
        destruct (pid_eqb p0 p) eqn:E; [apply pid_eqb_eq in E; subst p0; lia|lia].
      * intros Hex. pose proof (d_iw _ _ _ _ _ _ _ D Hex). pose proof (npush_set (s_ws st) t WExit _ Ew) as HS1. cbn [is_pusher] in HS1. lia.
      * intros p0 Hm. pose proof (d_im _ _ _ _ _ _ _ D p0 Hm). pose proof (nrun_set (s_ws st) t WExit _ p0 Ht Ew) as HS1. cbn [running b2n] in HS1.
        destruct (pid_eqb p0 (own_pool c t)); lia.
    + (* park *)
      pose proof (T_park _ _ _ _ _ _ _ t D Ht Ew) as T. rewrite <- Ep in T. specialize (T L0 Esh).
      eapply dlinv_intro; [exact T| | | | | | |]; try comp0;
        intros p0; unfold cPS, cPO, cLN, cSH, upd; rewrite gp_set_w, get_pool_set_pool; destruct (pid_eqb p p0) eqn:E; try reflexivity;
        apply pid_eqb_eq in E; subst p0; reflexivity.
  - (* pop the oldest job *)
    destruct (Q p) as [|j rest] eqn:EQ.
    { exfalso. pose proof (HR p) as R. rewrite EQ in R. apply (ring_empty job _ _) in R. destruct R as [_ R]. rewrite R in Eem by reflexivity. discriminate. }
    pose proof (HR p) as R. rewrite EQ in R.
    destruct (ring_pop job _ _ _ R) as [pl' [Epop [R' [Eb [El [Es [Epw [Eqw Esz]]]]]]]].
    rewrite Epop in Hstep.
    destruct (signal_push _ p w) as [st3|] eqn:Esig; [|discriminate]. injection Hstep as <-.
    destruct (comps_signal_push _ _ _ _ Esig) as (l' & wk & Hwake & C1 & C2 & C3 & C4 & C5 & C6 & C7).
    rewrite get_pool_set_pool, pid_eqb_refl, Epw in Hwake. fold (cPS st p) in Hwake.
    pose proof (DI_signal_push _ _ _ _ _ _ _ p w l' wk D Hwake) as D2.
    pose proof (wk_ws_other (s_ws st) wk t WIdle Ew eq_refl) as Ew2.
    assert (LNp : cLN st p = S (length rest)) by (unfold cLN; rewrite Eq; reflexivity).
    eapply dlinv_intro;
      [eapply (G_plain _ _ _ _ _ (cLN st) (upd (cLN st) p (cLN st p - 1)) _ t WIdle (WRun j 0) D2 Ht Ew2); try reflexivity; try exact I; try discriminate| | | | | | |].
    + intros p0 Hne. pose proof (d_ip _ _ _ _ _ _ _ D2 p0 Hne) as I0.
      pose proof (nidle_set (wk_ws (s_ws st) wk) t (WRun j 0) _ p0 Ht Ew2) as HS1. cbn [is_idle] in HS1. rewrite <- Ep in HS1.
      unfold upd. rewrite (pid_eqb_sym p p0). destruct (pid_eqb p0 p) eqn:E; [apply pid_eqb_eq in E; subst p0; lia|lia].
    + intros Hex. pose proof (npush_set (wk_ws (s_ws st) wk) t (WRun j 0) _ Ew2) as HS1. change (is_pusher WIdle) with 0 in HS1.
      unfold upd. destruct p; cbn [pid_eqb].
      * pose proof (d_iw _ _ _ _ _ _ _ D2 Hex). lia.
      * rewrite (Hpw0 eq_refl j rest EQ) in HS1. rewrite !Nat.add_0_r in HS1. rewrite HS1.
        destruct (wake_cases _ _ _ _ Hwake) as [(E1 & -> & ->)|(Hin & -> & ->)].
        { exfalso. destruct Hex as [t0 [H0 _]]. unfold upd in H0. cbn [pid_eqb] in H0. destruct H0. }
        destruct w as [|w'].
        { exfalso. destruct Hex as [t0 [H0 Hn0]]. unfold upd in H0. cbn [pid_eqb] in H0. apply remove_tid_In in H0.
          apply Hn0. apply Hmix; [apply (d_m0 _ _ _ _ _ _ _ D); exact Hin|exact H0]. }
        destruct (d_psh_s _ _ _ _ _ _ _ D PW (S w') Hin ltac:(lia)) as (_ & j' & i' & Hg).
        pose proof (Forall_nth_error _ _ _ _ _ (d_sub _ _ _ _ _ _ _ D) Hg) as So. cbn [sub_ok] in So. destruct So as [jx So].
        assert (Pw : is_pusher (WSubWoken j' i') = 1) by (cbn [is_pusher]; rewrite So; reflexivity).
        assert (Hex0 : exists t0, In t0 (cPS st PW) /\ t0 <> 0) by (exists (S w'); split; [exact Hin|lia]).
        pose proof (d_iw _ _ _ _ _ _ _ D Hex0) as I0.
        cbn [wk_ws]. unfold wget in Hg. cbn [Nat.sub] in Hg. rewrite Nat.sub_0_r in Hg. rewrite Hg.
        pose proof (npush_set (s_ws st) (S w') (WSubWoken j' i') _ ltac:(unfold wget; cbn [Nat.sub]; rewrite Nat.sub_0_r; exact Hg)) as HS2.
        rewrite Pw in HS2. change (is_pusher (WSubWait j' i')) with 0 in HS2. cbn [Nat.sub] in HS2. rewrite Nat.sub_0_r in HS2. lia.
    + intros p0 Hm. pose proof (d_im _ _ _ _ _ _ _ D2 p0 Hm) as I0.
      pose proof (nrun_set (wk_ws (s_ws st) wk) t (WRun j 0) _ p0 Ht Ew2) as HS1. cbn [running b2n] in HS1. rewrite <- Ep in HS1.
      unfold upd. rewrite (pid_eqb_sym p p0). destruct (pid_eqb p0 p) eqn:E; [apply pid_eqb_eq in E; subst p0; lia|lia].
    + cbn [s_mops set_w set_ws]. rewrite C3. apply ops_set_pool.
    + cbn [s_mst set_w set_ws]. rewrite C2, mst_set_pool. reflexivity.
    + cbn [s_ws set_w set_ws]. rewrite C1, ws_set_pool. reflexivity.
    + intros p0. rewrite gp_set_w, C4. unfold upd, cPS. destruct (pid_eqb p p0) eqn:E; [reflexivity|]. rewrite get_pool_set_pool, E. reflexivity.
    + intros p0. rewrite gp_set_w, C5. unfold cPO. rewrite get_pool_set_pool. destruct (pid_eqb p p0) eqn:E; [|reflexivity].
      apply pid_eqb_eq in E. subst p0. exact Eqw.
    + intros p0. rewrite gp_set_w, C6. unfold upd, cLN. rewrite get_pool_set_pool. destruct (pid_eqb p p0) eqn:E; [|reflexivity].
      rewrite (queued_ring _ _ R'). fold (cLN st p). rewrite LNp. cbn. lia.
    + intros p0. rewrite gp_set_w, C7. unfold cSH. rewrite get_pool_set_pool. destruct (pid_eqb p p0) eqn:E; [|reflexivity].
      apply pid_eqb_eq in E. subst p0. exact Es.
Qed.

Lemma G_finish : forall st t w j i e st3,
  1 <= t -> dlinv st -> (s_mst st = MWaitPush PW -> forall t0, In t0 (cPS st PW) -> t0 = 0) ->
  wget (s_ws st) t = Some (WRun j i) ->
  nth_error (job_subs c j) i = None ->
  signal_push (set_pool (add_event (body_effects c st t j) e) (own_pool c t)
                 (pool_job_done (get_pool (add_event (body_effects c st t j) e) (own_pool c t)))) (own_pool c t) w = Some st3 ->
  dlinv (set_w st3 t WIdle).
Proof.
  intros st t w j i e st3 Ht D Hmix Ew Esub Hsig.
  pose proof D as D0. unfold dlinv in D. fold (cPS st) (cPO st) (cLN st) (cSH st) in D.
  destruct (body_effects_comps st t j) as (B1&B2&B3&B4&B5).
  remember (own_pool c t) as p eqn:Ep.
  assert (GP : forall p0, get_pool (add_event (body_effects c st t j) e) p0 = get_pool st p0).
  { intros []; cbn [get_pool add_event s_pt s_pw]; assumption. }
  destruct (comps_signal_push _ _ _ _ Hsig) as (l' & wk & Hwake & C1 & C2 & C3 & C4 & C5 & C6 & C7).
  rewrite get_pool_set_pool, pid_eqb_refl in Hwake. rewrite GP in Hwake. change (push_w (pool_job_done (get_pool st p))) with (cPS st p) in Hwake.
  pose proof (DI_signal_push _ _ _ _ _ _ _ p w l' wk D Hwake) as D2.
  pose proof (wk_ws_other (s_ws st) wk t _ Ew eq_refl) as Ew2.
  assert (Hnp : is_pusher (WRun j i) = 0) by (cbn [is_pusher]; rewrite Esub; reflexivity).
  eapply dlinv_intro;
    [eapply (G_plain _ _ _ _ _ (cLN st) (cLN st) _ t (WRun j i) WIdle D2 Ht Ew2); try reflexivity; try exact I; try discriminate| | | | | | |].
  - intros p0 Hne. pose proof (d_ip _ _ _ _ _ _ _ D2 p0 Hne) as I0.
    pose proof (nidle_set (wk_ws (s_ws st) wk) t WIdle _ p0 Ht Ew2) as HS1. cbn [is_idle] in HS1. destruct (pid_eqb p0 (own_pool c t)); lia.
  - intros Hex. pose proof (d_iw _ _ _ _ _ _ _ D2 Hex) as I0. pose proof (npush_set (wk_ws (s_ws st) wk) t WIdle _ Ew2) as HS1.
    rewrite Hnp in HS1. cbn [is_pusher] in HS1. lia.
  - intros p0 Hm. pose proof (d_im _ _ _ _ _ _ _ D2 p0 Hm) as I0.
    pose proof (nrun_set (wk_ws (s_ws st) wk) t WIdle _ p0 Ht Ew2) as HS1. cbn [running b2n] in HS1. rewrite <- Ep in HS1.
    destruct (pid_eqb p0 p) eqn:E; [|lia]. apply pid_eqb_eq in E. subst p0. exfalso.
    destruct (wake_cases _ _ _ _ Hwake) as [(E1 & -> & ->)|(Hin & -> & ->)].
    + cbn [wk_mst] in Hm. apply (d_m0 _ _ _ _ _ _ _ D) in Hm. rewrite E1 in Hm. destruct Hm.
    + destruct w as [|w'].
      * cbn [wk_mst] in Hm. pose proof (proj1 (d_m0 _ _ _ _ _ _ _ D p) Hin) as Hm0. rewrite Hm0 in Hm. discriminate.
      * cbn [wk_mst] in Hm. destruct (d_psh_s _ _ _ _ _ _ _ D p (S w') Hin ltac:(lia)) as (-> & _).
        pose proof (Hmix Hm (S w') Hin). lia.
  - cbn [s_mops set_w set_ws]. rewrite C3, ops_set_pool. cbn [s_mops add_event]. exact B4.
  - cbn [s_mst set_w set_ws]. rewrite C2, mst_set_pool. cbn [s_mst add_event]. rewrite B5. reflexivity.
  - cbn [s_ws set_w set_ws]. rewrite C1, ws_set_pool. cbn [s_ws add_event]. rewrite B3. reflexivity.
  - intros p0. rewrite gp_set_w, C4. unfold upd, cPS. destruct (pid_eqb p p0) eqn:E; [reflexivity|]. rewrite get_pool_set_pool, E, GP. reflexivity.
  - intros p0. rewrite gp_set_w, C5. unfold cPO. rewrite get_pool_set_pool. destruct (pid_eqb p p0) eqn:E; [|rewrite GP; reflexivity].
    apply pid_eqb_eq in E. subst p0. rewrite GP. reflexivity.
  - intros p0. rewrite gp_set_w, C6. unfold cLN. rewrite get_pool_set_pool. destruct (pid_eqb p p0) eqn:E; [|rewrite GP; reflexivity].
    apply pid_eqb_eq in E. subst p0. rewrite GP. reflexivity.
  - intros p0. rewrite gp_set_w, C7. unfold cSH. rewrite get_pool_set_pool. destruct (pid_eqb p p0) eqn:E; [|rewrite GP; reflexivity].
    apply pid_eqb_eq in E. subst p0. rewrite GP. reflexivity.
Qed.

Lemma L_exit : forall st t, 1 <= t -> dlinv st -> wget (s_ws st) t = Some WExit ->
  dlinv (match s_mst (set_w st t WDone) with
         | MWaitJoin t' => if t' =? t then set_main (set_w st t WDone) (s_mops (set_w st t WDone)) MRunnable else set_w st t WDone
         | _ => set_w st t WDone end).
Proof.
  intros st t Ht D Ew. unfold dlinv in D. fold (cPS st) (cPO st) (cLN st) (cSH st) in D.
  assert (Hsh : cSH st (own_pool c t) = true) by (apply (d_gone _ _ _ _ _ _ _ D t WExit Ht Ew eq_refl)).
  assert (G : forall m, DI (s_mops st) m (s_ws st) (cPS st) (cPO st) (cLN st) (cSH st) -> (m = MWaitJoin t -> False) ->
              DI (s_mops st) m (set_nth (t - 1) WDone (s_ws st)) (cPS st) (cPO st) (cLN st) (cSH st)).
  { intros m Dm Hm. eapply (G_plain _ _ _ _ _ (cLN st) (cLN st) _ t WExit WDone Dm Ht Ew); try reflexivity; try exact I; try discriminate.
    - intros _. exact Hsh.
    - intros H. exfalso. exact (Hm H).
    - intros p0 Hne. pose proof (d_ip _ _ _ _ _ _ _ Dm p0 Hne). pose proof (nidle_set (s_ws st) t WDone _ p0 Ht Ew) as HS1. cbn [is_idle] in HS1. destruct (pid_eqb p0 (own_pool c t)); lia.
    - intros Hex. pose proof (d_iw _ _ _ _ _ _ _ Dm Hex). pose proof (npush_set (s_ws st) t WDone _ Ew) as HS1. cbn [is_pusher] in HS1. lia.
    - intros p0 Hm0. pose proof (d_im _ _ _ _ _ _ _ Dm p0 Hm0). pose proof (nrun_set (s_ws st) t WDone _ p0 Ht Ew) as HS1. cbn [running b2n] in HS1. destruct (pid_eqb p0 (own_pool c t)); lia. }
  cbn [set_w set_ws s_mst s_mops].
  destruct (s_mst st) as [|pp| |tj|] eqn:Em.
  1-3,5: (eapply dlinv_intro; [apply (G _ D); discriminate| | | | | | |]; try comp0; try (cbn [s_mst set_w set_ws set_main]; exact Em); intros p0; rewrite gp_set_w; reflexivity).
  destruct (tj =? t) eqn:E.
  - apply Nat.eqb_eq in E. subst tj.
    assert (Dm : DI (s_mops st) MRunnable (s_ws st) (cPS st) (cPO st) (cLN st) (cSH st)).
    { eapply M_mst; [exact D|discriminate|split; discriminate]. }
    eapply dlinv_intro; [apply (G _ Dm); discriminate| | | | | | |]; try comp0; intros p0; rewrite gp_set_main, gp_set_w; reflexivity.
  - apply Nat.eqb_neq in E.
    eapply dlinv_intro; [apply (G _ D); intros H; injection H as ->; congruence| | | | | | |]; try comp0; try (cbn [s_mst set_w set_ws set_main]; exact Em); intros p0; rewrite gp_set_w; reflexivity.
Qed.

(* TPool_submitJob(wPool, j') by worker t, generic *)
Lemma G_submit_w : forall st t w j i w0 j' st2 b qw,
  1 <= t -> dlinv st -> ring_ok (s_pw st) qw -> q_size (s_pw st) = c_wdepth c + 1 -> shut (s_pw st) = false ->
  wget (s_ws st) t = Some w0 -> (w0 = WRun j i \/ w0 = WSubWoken j i) ->
  nth_error (job_subs c j) i = Some (PW, j') ->
  submit_cs st t PW j' w = Some (st2, b) ->
  dlinv (set_w st2 t (if b then WRun j (S i) else WSubWait j i)).
Proof.
  intros st t w j i w0 j' st2 b qw Ht D RW Hqs HshW Ew Hw0 Esub Hsub.
  pose proof D as D0. unfold dlinv in D. fold (cPS st) (cPO st) (cLN st) (cSH st) in D.
  assert (Hr : running w0 = true) by (destruct Hw0 as [->| ->]; reflexivity).
  assert (Hpk : parked w0 = false) by (destruct Hw0 as [->| ->]; reflexivity).
  assert (Hid : is_idle w0 = 0) by (destruct Hw0 as [->| ->]; reflexivity).
  assert (Hnd : w0 <> WDone) by (destruct Hw0 as [->| ->]; discriminate).
  assert (Hpu : is_pusher w0 = 1) by (destruct Hw0 as [->| ->]; cbn [is_pusher]; rewrite Esub; reflexivity).
  pose proof (queued_ring _ _ RW) as Eq.
  unfold submit_cs in Hsub. pose proof (ring_full job _ _ RW) as RF. cbn [get_pool] in Hsub. rewrite RF, HshW in Hsub.
  cbn [negb] in Hsub. rewrite andb_true_r in Hsub.
  destruct (S (length qw) =? q_size (s_pw st)) eqn:Efull.
  - apply Nat.eqb_eq in Efull. injection Hsub as <- <-.
    pose proof (T_block _ _ _ _ _ _ _ t w0 j i j' D Ht Ew Hpk Hr Hid Hpu Hnd Esub) as T.
    eapply dlinv_intro; [apply T; unfold cLN; cbn [get_pool]; rewrite Eq; lia| | | | | | |]; try comp0;
      intros p0; rewrite gp_set_w; unfold upd, cPS, cPO, cLN, cSH; destruct p0; reflexivity.
  - apply Nat.eqb_neq in Efull.
    destruct (signal_pop _ PW w) as [st3|] eqn:Es; [|discriminate]. injection Hsub as <- <-.
    destruct (comps_signal_pop _ _ _ _ Es) as (l' & wk & Hwake & C1 & C2 & C3 & C4 & C5 & C6 & C7).
    change (pop_w (get_pool (set_pool st PW (pool_push (s_pw st) j')) PW)) with (cPO st PW) in Hwake.
    pose proof (push_site _ _ _ _ _ _ _ PW w l' wk t w0 (WRun j (S i)) D Hwake Ht Ew Hpk) as P.
    eapply dlinv_intro; [apply P; try reflexivity; try exact I; try discriminate; try assumption| | | | | | |].
    + rewrite Hr. reflexivity.
    + rewrite Hpu. cbn [pid_eqb]. lia.
    + cbn [s_mops set_w set_ws]. rewrite C3. reflexivity.
    + cbn [s_mst set_w set_ws]. rewrite C2. cbn [s_mst set_pool]. apply (pop_wk_mst _ _ _ _ _ _ _ PW w l' wk D Hwake).
    + cbn [s_ws set_w set_ws]. rewrite C1. reflexivity.
    + intros p0. rewrite gp_set_w, C4. destruct p0; reflexivity.
    + intros p0. rewrite gp_set_w, C5. unfold upd, cPO. destruct p0; reflexivity.
    + intros p0. rewrite gp_set_w, C6. unfold upd, cLN. destruct p0; cbn [pid_eqb get_pool set_pool s_pt s_pw]; [reflexivity|].
      rewrite (queued_ring _ (qw ++ [j'])); [rewrite Eq, app_length; reflexivity|].
      apply (ring_push job (s_pw st)); [exact RW|]. destruct RW as [H0 [_ [_ [_ [_ [L _]]]]]]. lia.
    + intros p0. rewrite gp_set_w, C7. unfold cSH. destruct p0; reflexivity.
Qed.

(* the main thread finds tPool's queue full and parks inside TPool_submitJob *)
Lemma M_subwait : forall j rest mst ws PS PO LN SH,
  DI (MSubmit PT j :: rest) mst ws PS PO LN SH -> nowait mst -> 0 < LN PT ->
  DI (MSubmit PT j :: rest) (MWaitPush PT) ws (upd PS PT (PS PT ++ [0])) PO LN SH.
Proof.
  intros j rest mst ws PS PO LN SH D [N1 N2] Hp. inv_di D.
  assert (H0 : forall p0, ~ In 0 (PS p0)) by (intros p0 H; apply A9 in H; exact (N1 p0 H)).
  constructor; try assumption.
  - intros p0 t Ht Hn. apply A6; [|exact Hn]. unfold upd in Ht. destruct (pid_eqb PT p0) eqn:E; [|exact Ht].
    apply pid_eqb_eq in E. subst p0. apply in_app_or in Ht. destruct Ht as [Ht|[Ht|[]]]; [exact Ht|congruence].
  - intros p0. unfold upd. destruct (pid_eqb PT p0) eqn:E; [|apply A8]. apply pid_eqb_eq in E. subst p0.
    apply NoDup_app_snoc_nat; [apply A8|apply H0].
  - intros p0. unfold upd. destruct (pid_eqb PT p0) eqn:E.
    + apply pid_eqb_eq in E. subst p0. split; [reflexivity|]. intros _. apply in_or_app. right. left. reflexivity.
    + split; [intros H; exfalso; exact (H0 p0 H)|]. intros H. injection H as <-. discriminate.
  - intros p0 Hm. injection Hm as <-. lia.
  - intros p0 Hm. injection Hm as <-. exists rest. right. eauto.
  - discriminate.
Qed.

Lemma G_main_free : forall (fr : list mop), Forall is_free fr ->
  (forall q p rest, skipn q fr = MBroadcast p :: rest -> ~ In (MShutdown p) rest) ->
  (forall t, In (MJoin t) fr -> 1 <= t <= S (c_N c)) ->
  forall fuel st w woken st',
  dlinv st -> nowait (s_mst st) -> (exists q, s_mops st = skipn q fr) ->
  Forall not_subwait (s_ws st) -> length (s_ws st) = S (c_N c) ->
  main_run fuel c st w woken = Some st' -> dlinv st'.
Proof.
  intros fr Hfr Hbs Hjv. induction fuel as [|f IH]; intros st w woken st' D Hnw [q Hq] Hns Hlen Hrun.
  { cbn in Hrun. injection Hrun as <-. eapply dlinv_intro; [exact D|..]; try reflexivity; intros []; reflexivity. }
  pose proof D as D0. unfold dlinv in D. fold (cPS st) (cPO st) (cLN st) (cSH st) in D.
  cbn [main_run] in Hrun. destruct (s_mops st) as [|op rest] eqn:Eo.
  { injection Hrun as <-. eapply dlinv_intro; [eapply (M_mst _ _ MFinished); [exact D|apply Hnw|split; discriminate]|..]; try reflexivity; intros []; reflexivity. }
  symmetry in Hq. assert (Hrest : rest = skipn (S q) fr) by (symmetry; eapply skipn_cons_S; exact Hq).
  assert (Hfree : is_free op).
  { pose proof (Forall_skipn_ _ _ q _ Hfr) as F. rewrite Hq in F. inversion F; assumption. }
  assert (Nr : nowait MRunnable) by (split; discriminate).
  destruct op as [pp jj|kk|pp|pp|pp|tt]; try contradiction.
  - (* MShutdown *)
    injection Hrun as <-.
    eapply dlinv_intro; [eapply (M_mst _ _ MRunnable); [eapply M_shut; [exact D|exact Hnw]|apply Hnw|exact Nr]| | | | | | |]; try comp0;
      intros p0; rewrite gp_set_main, get_pool_set_pool; unfold upd, cPS, cPO, cLN, cSH; destruct (pid_eqb pp p0) eqn:E; try reflexivity;
      apply pid_eqb_eq in E; subst p0; reflexivity.
  - (* MBroadcast ; continue *)
    pose proof (ps_empty _ _ _ _ _ _ _ pp D Hnw Hns) as Hps.
    pose proof (M_bcast pp rest _ _ _ _ _ _ D Hnw Hps (Hbs q pp rest Hq)) as D2.
    destruct (wake_all_comps (pop_w (get_pool st pp)) (wake_all (set_pool st pp (set_pop_w (set_push_w (get_pool st pp) []) [])) (push_w (get_pool st pp)))) as (W1&W2&W3).
    fold (cPS st pp) in W1, W2, W3. rewrite Hps in W1, W2, W3. cbn [wake_all fold_left] in W1, W2, W3. rewrite ws_set_pool in W1.
    destruct (fold_wk_keep (cPO st pp) (s_ws st) Hns) as [K1 K2]. unfold cPO in K1, K2.
    apply IH in Hrun; [exact Hrun| | | | |].
    + eapply dlinv_intro; [eapply (M_mst _ _ MRunnable); [exact D2|apply Hnw|exact Nr]| | | | | | |]; try reflexivity.
      * cbn [s_ws set_main]. fold (cPS st pp). rewrite Hps. exact W1.
      * intros p0. rewrite gp_set_main. fold (cPS st pp). rewrite Hps. unfold get_pool at 1. cbn [wake_all fold_left]. rewrite W2, W3.
        fold (get_pool (set_pool st pp (set_pop_w (set_push_w (get_pool st pp) []) [])) p0). rewrite get_pool_set_pool.
        unfold cPS. destruct (pid_eqb pp p0) eqn:E; [|reflexivity]. apply pid_eqb_eq in E. subst p0. cbn. symmetry. exact Hps.
      * intros p0. rewrite gp_set_main. fold (cPS st pp). rewrite Hps. unfold get_pool at 1. cbn [wake_all fold_left]. rewrite W2, W3.
        fold (get_pool (set_pool st pp (set_pop_w (set_push_w (get_pool st pp) []) [])) p0). rewrite get_pool_set_pool.
        unfold upd, cPO. destruct (pid_eqb pp p0); reflexivity.
      * intros p0. rewrite gp_set_main. fold (cPS st pp). rewrite Hps. unfold get_pool at 1. cbn [wake_all fold_left]. rewrite W2, W3.
        fold (get_pool (set_pool st pp (set_pop_w (set_push_w (get_pool st pp) []) [])) p0). rewrite get_pool_set_pool.
        unfold cLN. destruct (pid_eqb pp p0) eqn:E; [|reflexivity]. apply pid_eqb_eq in E. subst p0. reflexivity.
      * intros p0. rewrite gp_set_main. fold (cPS st pp). rewrite Hps. unfold get_pool at 1. cbn [wake_all fold_left]. rewrite W2, W3.
        fold (get_pool (set_pool st pp (set_pop_w (set_push_w (get_pool st pp) []) [])) p0). rewrite get_pool_set_pool.
        unfold cSH. destruct (pid_eqb pp p0) eqn:E; [|reflexivity]. apply pid_eqb_eq in E. subst p0. reflexivity.
    + exact Nr.
    + exists (S q). exact Hrest.
    + cbn [s_ws set_main]. fold (cPS st pp). rewrite Hps. cbn [wake_all fold_left]. rewrite W1. exact K1.
    + cbn [s_ws set_main]. fold (cPS st pp). rewrite Hps. cbn [wake_all fold_left]. rewrite W1, K2. exact Hlen.
  - (* MJoin *)
    assert (Hv : 1 <= tt <= S (c_N c)) by (apply Hjv; eapply In_skipn_; rewrite Hq; left; reflexivity).
    unfold thread_done in Hrun. destruct (nth_error (s_ws st) (tt - 1)) as [wt|] eqn:Et.
    2:{ exfalso. apply nth_error_None in Et. lia. }
    assert (Hdone : forall x, (match x with WDone => true | _ => false end) = true -> x = WDone) by (intros []; intros; try discriminate; reflexivity).
    destruct (match wt with WDone => true | _ => false end) eqn:Ed.
    + apply Hdone in Ed. subst wt.
      apply IH in Hrun; [exact Hrun| |split; discriminate|exists (S q); exact Hrest|exact Hns|exact Hlen].
      eapply dlinv_intro; [eapply (M_mst _ _ MRunnable); [eapply (M_tail _ _ _ _ _ _ (cLN st) (cLN st)); [exact D|exact Hnw| | | | |]|apply Hnw|exact Nr]| | | | | | |];
        try reflexivity; try discriminate; try (intros []; reflexivity).
      * intros t0 E0. injection E0 as <-. exact Et.
      * apply (d_ip _ _ _ _ _ _ _ D).
      * apply (d_iw _ _ _ _ _ _ _ D).
    + injection Hrun as <-.
      eapply dlinv_intro; [eapply (M_joinblock tt rest _ _ _ _ _ _ wt D Hnw); [lia|exact Et|intros ->; discriminate]|..]; try reflexivity; intros []; reflexivity.
Qed.
End DL.

(* ================================================================== the decoding pipelines *)
Definition is_fin (m : mstatus) : bool := match m with MFinished => true | _ => false end.
Definition fo (st : state) : list mop * bool := (s_mops st, is_fin (s_mst st)).

Lemma fo_wake_thread : forall st t, fo (wake_thread st t) = fo st.
Proof. intros st [[|t]|]; unfold fo, wake_thread; [destruct (s_mst st) eqn:E; cbn; rewrite ?E; reflexivity|destruct (nth_error (s_ws st) (S t - 1)) as [[]|]; reflexivity|reflexivity]. Qed.
Lemma fo_wake_all : forall ts st, fo (wake_all st ts) = fo st.
Proof. unfold wake_all. induction ts; intros st; cbn [fold_left]; [reflexivity|]. rewrite IHts. apply fo_wake_thread. Qed.
Lemma fo_signal_push : forall st p w st', signal_push st p w = Some st' -> fo st' = fo st.
Proof. intros st p w st' H. unfold signal_push in H. destruct (wake _ w) as [[l wk]|]; [|discriminate]. injection H as <-. rewrite fo_wake_thread. destruct p; reflexivity. Qed.
Lemma fo_signal_pop : forall st p w st', signal_pop st p w = Some st' -> fo st' = fo st.
Proof. intros st p w st' H. unfold signal_pop in H. destruct (wake _ w) as [[l wk]|]; [|discriminate]. injection H as <-. rewrite fo_wake_thread. destruct p; reflexivity. Qed.
Lemma fo_submit : forall st t p j w st2 b, submit_cs st t p j w = Some (st2, b) -> fo st2 = fo st.
Proof.
  intros st t p j w st2 b H. unfold submit_cs in H.
  destruct (isQueueFull (get_pool st p) && negb (shut (get_pool st p))); [injection H as <- _; destruct p; reflexivity|].
  destruct (shut (get_pool st p)); [injection H as <- _; reflexivity|].
  destruct (signal_pop _ p w) as [st3|] eqn:E; [|discriminate]. injection H as <- _.
  rewrite (fo_signal_pop _ _ _ _ E). destruct p; reflexivity.
Qed.
Lemma fo_sub_effects : forall c st t p j, fo (sub_effects c st t p j) = fo st. Proof. intros. destruct j; reflexivity. Qed.
Lemma fo_start_effects : forall c st t j, fo (start_effects c st t j) = fo st. Proof. intros. destruct j; reflexivity. Qed.
Lemma fo_body_effects : forall c st t j, fo (body_effects c st t j) = fo st.
Proof.
  intros c st t j. destruct j; try reflexivity. cbn [body_effects]. destruct (arrive _ _ _) as [[w' o] ok].
  destruct (wr_events_core (set_wr st w' o ok) t o) as (_&_&W3&W4&_). unfold fo. rewrite W3, W4. reflexivity.
Qed.

Lemma fo_worker_step : forall c st t w st', worker_step c st t w = Some st' -> fo st' = fo st.
Proof.
  intros c st t w st' H. unfold worker_step in H.
  destruct (nth_error (s_ws st) (t - 1)) as [[| |j i|j i|j i| |]|]; try discriminate.
  - destruct (worker_must_wait _).
    + destruct (shut _); injection H as <-; destruct (own_pool c t); reflexivity.
    + destruct (pool_pop _) as [[j pl']|] eqn:E; [|injection H as <-; reflexivity].
      destruct (signal_push _ _ w) as [st3|] eqn:E2; [|discriminate]. injection H as <-.
      change (fo (set_w st3 t (WRun j 0))) with (fo st3). rewrite (fo_signal_push _ _ _ _ E2).
      unfold pool_pop in E. destruct (own_pool c t); cbn [get_pool] in *; (destruct (nth _ _ _); [|discriminate]); injection E as _ <-; reflexivity.
  - set (st1 := if i =? 0 then start_effects c st t j else st) in H.
    assert (E1 : fo st1 = fo st) by (unfold st1; destruct (i =? 0); [apply fo_start_effects|reflexivity]). clearbody st1.
    destruct (nth_error (job_subs c j) i) as [[p j']|].
    + destruct (submit_cs _ t p j' w) as [[st2 b]|] eqn:E; [|discriminate].
      apply fo_submit in E. rewrite fo_sub_effects in E. destruct b; injection H as <-;
        (change (fo (set_w st2 t _)) with (fo st2); congruence).
    + destruct (signal_push _ _ w) as [st3|] eqn:E2; [|discriminate]. injection H as <-.
      change (fo (set_w st3 t WIdle)) with (fo st3). rewrite (fo_signal_push _ _ _ _ E2). rewrite <- E1, <- (fo_body_effects c st1 t j).
      destruct (own_pool c t); reflexivity.
  - destruct (nth_error (job_subs c j) i) as [[p j']|]; [|injection H as <-; reflexivity].
    destruct (submit_cs st t p j' w) as [[st2 b]|] eqn:E; [|discriminate].
    apply fo_submit in E. destruct b; injection H as <-; (change (fo (set_w st2 t _)) with (fo st2); congruence).
  - injection H as <-. unfold fo. cbn [set_w set_ws s_mst]. destruct (s_mst st) as [|pp| |tj|] eqn:Em; cbn; rewrite ?Em; try reflexivity. destruct (tj =? t); cbn; rewrite ?Em; reflexivity.
Qed.


Section DD.
Variable c : cfg.
Hypothesis Hdec : is_dec c.
Hypothesis HN : c_N c = 1.
Hypothesis HTQ : 1 <= c_tdepth c.
Hypothesis HWQ : 1 <= c_wdepth c.
Hypothesis Hin : c_tdepth c + 2 <= c_NB c.
Hypothesis Hout_leg : c_kind c = DecLegacy -> c_wdepth c + 2 <= c_NB c.
Hypothesis Hout_f : c_kind c = DecLZ4F -> c_wdepth c + 2 <= c_PB c.

Ltac comp0 := cbn [s_mops s_mst s_ws set_w set_ws set_main add_event];
  rewrite ?ops_set_pool, ?mst_set_pool, ?ws_set_pool; cbn [s_mops s_mst s_ws set_w set_ws set_main add_event]; reflexivity.
Ltac inv_d H :=
  destruct H as [pos lo lw w1 w2 Hops Hpos Hws H1 H2 Hle1 R1 Hle2 R2 Sz1 Sz2 B1 B2 L1 L2 S1 S2 Q V].

Lemma o1 : own_pool c 1 = PT. Proof. unfold own_pool. rewrite HN. reflexivity. Qed.
Lemma o2 : own_pool c 2 = PW. Proof. unfold own_pool. rewrite HN. reflexivity. Qed.

Lemma head_jcpw_d : forall pos r, pos_ok c pos -> ops_of c pos = MJobsCompleted PW :: r -> pos = PTail 1.
Proof.
  intros pos r Hp H. destruct pos as [m|m|q]; cbn [ops_of pos_ok] in *.
  - destruct (Nat.lt_ge_cases m (ndec c)) as [Hm|Hm]; [rewrite (loop_from_unfold c m Hm) in H|rewrite loop_from_end in H by lia]; discriminate.
  - discriminate.
  - destruct q as [|[|[|[|[|[|[|[|[|q]]]]]]]]]; try discriminate; try reflexivity; lia.
Qed.

Lemma no_mixed_d : forall st, dinv c st -> dlinv c st -> s_mst st = MWaitPush PW ->
  forall t0, In t0 (cPS st PW) -> t0 = 0.
Proof.
  intros st Dd D Hm t0 Hin0. unfold dlinv in D. fold (cPS st) (cPO st) (cLN st) (cSH st) in D. inv_d Dd.
  destruct (Nat.eq_dec t0 0) as [E|E]; [exact E|exfalso].
  destruct (d_psh_s _ _ _ _ _ _ _ _ D PW t0 Hin0 E) as (_ & j & i & Hg).
  destruct (d_hd _ _ _ _ _ _ _ _ D PW Hm) as [r [Hr|[Hr _]]]; [|discriminate].
  rewrite Hops in Hr. apply head_jcpw_d in Hr; [|exact Hpos]. subst pos.
  destruct Q as [Q1 _]; [exists 1; auto|].
  unfold wget in Hg. rewrite Hws in Hg. destruct t0 as [|[|[|t0]]]; cbn in Hg; try lia.
  - injection Hg as ->. discriminate.
  - injection Hg as ->. exact H2.
  - destruct t0; discriminate.
Qed.

Definition Qd (pos : mpos) (lo lw : nat) (w1 w2 : wstate) (p : pid) : list job :=
  match p with
  | PT => map (JD c) (seq (lo + b2n (running w1)) (submitted c pos - (lo + b2n (running w1))))
  | PW => map (JW c) (seq (lw + b2n (running w2)) (wsub_of c lo w1 - (lw + b2n (running w2))))
  end.

Lemma pusher_JW : forall j, is_pusher c (WRun (JW c j) 0) = 0.
Proof. intros j. cbn [is_pusher]. rewrite (subs_JW c j 0 Hdec). reflexivity. Qed.

Lemma step_worker_dd : forall st t w st', 1 <= t -> dinv c st -> dlinv c st ->
  worker_step c st t w = Some st' -> dlinv c st'.
Proof.
  intros st t w st' Ht Dd D Hstep. pose proof Dd as Dd0. inv_d Dd.
  assert (HRq : forall p, ring_ok (get_pool st p) (Qd pos lo lw w1 w2 p)) by (intros []; assumption).
  assert (Hmix := no_mixed_d st Dd0 D).
  assert (HshW : running w1 = true -> shut (s_pw st) = false).
  { intros Hr. destruct (shut (s_pw st)) eqn:E; [|reflexivity]. destruct (S2 eq_refl) as [q [-> Hq]].
    destruct Q as [Q1 _]; [exists q; split; [reflexivity|lia]|]. congruence. }
  pose proof Hstep as Hstep0. unfold worker_step in Hstep.
  destruct t as [|[|[|t]]]; [lia| | |].
  - (* the decoder thread *)
    rewrite Hws in Hstep. cbn [Nat.sub nth_error] in Hstep.
    assert (Ew : wget (s_ws st) 1 = Some w1) by (unfold wget; rewrite Hws; reflexivity).
    destruct w1 as [| |j i|j i|j i| |]; try discriminate.
    + eapply (G_idle c st 1 w st' (Qd pos lo lw WIdle w2)); try eassumption.
      * rewrite o1. cbn [get_pool]. rewrite L1, B1. reflexivity.
      * rewrite o1. discriminate.
    + cbn [w1_ok] in H1. destruct H1 as [-> Hi].
      set (st1 := if i =? 0 then start_effects c st 1 (JD c lo) else st) in Hstep.
      assert (E1 : tr_eq st st1) by (unfold st1; destruct (i =? 0); [destruct (JD c lo); repeat split|apply tr_eq_refl]).
      clearbody st1. rewrite (subs_JD c lo i Hdec) in Hstep.
      destruct (i <? cnt c lo) eqn:Elt.
      * set (st1' := sub_effects c st1 1 PW _) in Hstep.
        assert (E2 : tr_eq st st1').
        { eapply tr_eq_trans; [exact E1|]. unfold st1'. destruct (JW c (DecodeRingProofs.base c lo + i)); repeat split. }
        clearbody st1'. pose proof E2 as (_&Epw&Ews&_).
        destruct (submit_cs st1' 1 PW _ w) as [[st2 b]|] eqn:Hsub; [|discriminate].
        assert (G : dlinv c (set_w st2 1 (if b then WRun (JD c lo) (S i) else WSubWait (JD c lo) i))).
        { eapply (G_submit_w c st1' 1 w (JD c lo) i (WRun (JD c lo) i) _ st2 b); try exact Hsub.
          - lia.
          - eapply dlinv_tr; eassumption.
          - rewrite Epw. exact R2.
          - rewrite Epw. exact Sz2.
          - rewrite Epw. apply HshW. reflexivity.
          - rewrite Ews. exact Ew.
          - left. reflexivity.
          - rewrite (subs_JD c lo i Hdec), Elt. reflexivity. }
        destruct b; injection Hstep as <-; exact G.
      * destruct (signal_push _ (own_pool c 1) w) as [st3|] eqn:Hsig; [|discriminate]. injection Hstep as <-.
        pose proof E1 as (_&_&Ews&_&Emst&_).
        eapply (G_finish c st1 1 w (JD c lo) i _ st3); [lia|eapply dlinv_tr; eassumption| |rewrite Ews; exact Ew| |exact Hsig].
        -- intros Hm t0 Ht0. apply Hmix; [rewrite <- Emst; exact Hm|]. unfold cPS in *. destruct E1 as (_&Epw&_). cbn [get_pool] in *. rewrite Epw in Ht0. exact Ht0.
        -- rewrite (subs_JD c lo i Hdec), Elt. reflexivity.
    + cbn [w1_ok] in H1. destruct H1 as [-> Hi].
      rewrite (subs_JD c lo i Hdec) in Hstep.
      assert (Elt : (i <? cnt c lo) = true) by (apply Nat.ltb_lt; exact Hi). rewrite Elt in Hstep.
      destruct (submit_cs st 1 PW _ w) as [[st2 b]|] eqn:Hsub; [|discriminate].
      assert (G : dlinv c (set_w st2 1 (if b then WRun (JD c lo) (S i) else WSubWait (JD c lo) i))).
      { eapply (G_submit_w c st 1 w (JD c lo) i (WSubWoken (JD c lo) i) _ st2 b); try exact Hsub; try eassumption.
        - apply HshW. reflexivity.
        - right. reflexivity.
        - rewrite (subs_JD c lo i Hdec), Elt. reflexivity. }
      destruct b; injection Hstep as <-; exact G.
    + injection Hstep as <-. apply (L_exit c st 1); [lia|exact D|exact Ew].
  - (* the writer thread *)
    rewrite Hws in Hstep. cbn [Nat.sub nth_error] in Hstep.
    assert (Ew : wget (s_ws st) 2 = Some w2) by (unfold wget; rewrite Hws; reflexivity).
    destruct w2 as [| |j i|j i|j i| |]; try discriminate; try contradiction.
    + eapply (G_idle c st 2 w st' (Qd pos lo lw w1 WIdle)); try eassumption.
      * rewrite o2. cbn [get_pool]. rewrite L2, B2. reflexivity.
      * intros _ j rest Hq. cbn [Qd] in Hq. destruct (wsub_of c lo w1 - (lw + b2n (running WIdle))); [discriminate|].
        cbn [seq map] in Hq. injection Hq as <- _. apply pusher_JW.
    + cbn [w2_ok] in H2. destruct H2 as [-> ->]. cbn [Nat.eqb] in Hstep.
      set (st1 := start_effects c st 2 (JW c lw)) in Hstep.
      assert (E1 : tr_eq st st1) by (unfold st1; destruct (JW c lw); repeat split). clearbody st1.
      rewrite (subs_JW c lw 0 Hdec) in Hstep.
      destruct (signal_push _ (own_pool c 2) w) as [st3|] eqn:Hsig; [|discriminate]. injection Hstep as <-.
      pose proof E1 as (_&_&Ews&_&Emst&_).
      eapply (G_finish c st1 2 w (JW c lw) 0 _ st3); [lia|eapply dlinv_tr; eassumption| |rewrite Ews; exact Ew|apply (subs_JW c lw 0 Hdec)|exact Hsig].
      intros Hm t0 Ht0. apply Hmix; [rewrite <- Emst; exact Hm|]. unfold cPS in *. destruct E1 as (_&Epw&_). cbn [get_pool] in *. rewrite Epw in Ht0. exact Ht0.
    + injection Hstep as <-. apply (L_exit c st 2); [lia|exact D|exact Ew].
  - rewrite Hws in Hstep. cbn in Hstep. destruct t; discriminate.
Qed.

(* ---- the main thread of the decoders *)
Definition dfrees : list mop := [MShutdown PW; MBroadcast PW; MJoin 2; MShutdown PT; MBroadcast PT; MJoin 1].

Lemma dfrees_free : Forall is_free dfrees. Proof. repeat constructor. Qed.
Lemma dfrees_bs : forall q p rest, skipn q dfrees = MBroadcast p :: rest -> ~ In (MShutdown p) rest.
Proof.
  intros q p rest H. destruct q as [|[|[|[|[|[|q]]]]]]; cbn in H; try discriminate; try (destruct q; discriminate);
    injection H as <- <-; cbn; intuition discriminate.
Qed.
Lemma dfrees_jv : forall t, In (MJoin t) dfrees -> 1 <= t <= S (c_N c).
Proof. intros t H. rewrite HN. cbn in H. intuition; try discriminate; match goal with E : MJoin _ = MJoin _ |- _ => injection E as <- end; lia. Qed.

Lemma nrun_wof : forall w1 w2 p, nrun (wof c [w1; w2] p) = b2n (running match p with PT => w1 | PW => w2 end).
Proof. intros w1 w2 []; unfold wof; rewrite HN; cbn; lia. Qed.

(* TPool_submitJob(tPool, j) by the main thread: pushes, or parks if the queue is full *)
Lemma submit_main_dd : forall f X w woken st' j rest qt,
  dlinv c X -> s_mops X = MSubmit PT j :: rest -> nowait (s_mst X) ->
  ring_ok (s_pt X) qt -> q_size (s_pt X) = c_tdepth c + 1 -> shut (s_pt X) = false ->
  main_run (S f) c X w woken = Some st' -> dlinv c st'.
Proof.
  intros f X w woken st' j rest qt D Eo Hnw RT Hqs Hsh Hrun.
  assert (Nr : nowait MRunnable) by (split; discriminate).
  cbn [main_run] in Hrun. rewrite Eo in Hrun.
  set (X1 := if woken then X else sub_effects c X 0 PT j) in Hrun.
  assert (E1 : tr_eq X X1) by (unfold X1; destruct woken; [apply tr_eq_refl|destruct j; repeat split]).
  clearbody X1. pose proof E1 as (Ept&Epw&Ews&Eops&Emst&_).
  pose proof (dlinv_tr c _ _ E1 D) as D1. unfold dlinv in D1. fold (cPS X1) (cPO X1) (cLN X1) (cSH X1) in D1.
  rewrite Eops, Eo, Emst in D1.
  pose proof (queued_ring _ _ RT) as Eq.
  unfold submit_cs in Hrun. cbn [get_pool] in Hrun. rewrite Ept in Hrun.
  rewrite (ring_full job _ _ RT), Hsh in Hrun. cbn [negb] in Hrun. rewrite andb_true_r in Hrun.
  destruct (S (length qt) =? q_size (s_pt X)) eqn:Efull.
  - apply Nat.eqb_eq in Efull. injection Hrun as <-.
    eapply dlinv_intro; [eapply (M_subwait c j rest); [exact D1|exact Hnw|unfold cLN; cbn [get_pool]; rewrite Ept, Eq; lia]|reflexivity|reflexivity|reflexivity| | | |];
      intros p0; rewrite gp_set_main; unfold upd, cPS, cPO, cLN, cSH; destruct p0; cbn [pid_eqb get_pool set_pool s_pt s_pw set_push_w push_w pop_w queued shut]; rewrite ?Ept; reflexivity.
  - apply Nat.eqb_neq in Efull.
    destruct (signal_pop _ PT w) as [st3|] eqn:Es; [|discriminate]. injection Hrun as <-.
    destruct (comps_signal_pop _ _ _ _ Es) as (l' & wk & Hwake & C1 & C2 & C3 & C4 & C5 & C6 & C7).
    change (pop_w (get_pool (set_pool X1 PT (pool_push (s_pt X) j)) PT)) with (pop_w (s_pt X)) in Hwake.
    assert (EPO : cPO X1 PT = pop_w (s_pt X)) by (unfold cPO; cbn [get_pool]; rewrite Ept; reflexivity). rewrite <- EPO in Hwake.
    pose proof (DI_signal_pop c _ _ _ _ _ _ _ PT w l' wk D1 Hwake) as D2.
    eapply dlinv_intro; [eapply (M_mst c _ _ MRunnable); [eapply (M_tail c _ _ _ _ _ _ (cLN X1) (upd (cLN X1) PT (cLN X1 PT + 1))); [exact D2|exact Hnw|discriminate|discriminate|discriminate| |]|apply Hnw|exact Nr]| | | | | | |]; try reflexivity.
    + intros p0 Hne. unfold upd at 1. destruct (pid_eqb PT p0) eqn:E0.
      * apply pid_eqb_eq in E0. subst p0. apply (pop_wake_room c _ _ _ _ _ _ _ PT w l' wk D1 Hwake Hne).
      * apply (d_ip _ _ _ _ _ _ _ _ D2 p0 Hne).
    + intros Hex. pose proof (d_iw _ _ _ _ _ _ _ _ D2 Hex). unfold upd. cbn [pid_eqb]. exact H.
    + cbn [s_ws set_main]. rewrite C1. cbn [s_ws set_pool]. reflexivity.
    + intros p0. rewrite gp_set_main, C4. unfold cPS. destruct p0; cbn [get_pool set_pool s_pt s_pw pool_push push_w]; rewrite ?Ept; reflexivity.
    + intros p0. rewrite gp_set_main, C5. unfold upd, cPO. destruct p0; cbn [pid_eqb get_pool set_pool s_pt s_pw pool_push pop_w]; rewrite ?Ept; reflexivity.
    + intros p0. rewrite gp_set_main, C6. unfold upd, cLN. destruct p0; cbn [pid_eqb get_pool set_pool s_pt s_pw]; rewrite ?Ept; [|reflexivity].
      rewrite (queued_ring _ (qt ++ [j])); [rewrite Eq, app_length; reflexivity|].
      apply (ring_push job (s_pt X)); [exact RT|]. destruct RT as [H0 [_ [_ [_ [_ [L _]]]]]]. lia.
    + intros p0. rewrite gp_set_main, C7. unfold cSH. destruct p0; cbn [get_pool set_pool s_pt s_pw pool_push shut]; rewrite ?Ept; reflexivity.
Qed.

Lemma dlinv_err : forall st, dlinv c st -> dlinv c (set_err st).
Proof. intros st D. eapply dlinv_intro; [exact D|..]; try reflexivity; intros []; reflexivity. Qed.

(* TPool_jobsCompleted(p) *)
Lemma main_jc_dd : forall f st w woken st' p rest ql,
  dlinv c st -> nowait (s_mst st) -> s_mops st = MJobsCompleted p :: rest ->
  ring_ok (get_pool st p) ql -> n_busy (get_pool st p) = nrun (wof c (s_ws st) p) ->
  main_run (S f) c st w woken = Some st' -> dlinv c st'.
Proof.
  intros f st w woken st' p rest ql D Hnw Eo R HB Hrun.
  assert (Nr : nowait MRunnable) by (split; discriminate).
  unfold dlinv in D. fold (cPS st) (cPO st) (cLN st) (cSH st) in D. rewrite Eo in D.
  cbn [main_run] in Hrun. rewrite Eo in Hrun. unfold jobs_pending in Hrun.
  destruct (negb (q_empty (get_pool st p)) || (0 <? n_busy (get_pool st p))) eqn:Ep; injection Hrun as <-.
  - assert (Hpend : 0 < cLN st p + nrun (wof c (s_ws st) p)).
    { rewrite <- HB. apply orb_true_iff in Ep. destruct Ep as [Ep|Ep]; [|apply Nat.ltb_lt in Ep; lia].
      apply negb_true_iff in Ep. unfold cLN. rewrite (queued_ring _ _ R). destruct ql as [|a ql]; [|cbn; lia].
      apply (ring_empty job _ _) in R. rewrite (proj2 R eq_refl) in Ep. discriminate. }
    destruct p; (eapply dlinv_intro; [eapply (M_jcwait c); [exact D|exact Hnw|exact Hpend]| | | | | | |]; try reflexivity;
      intros p0; destruct p0; reflexivity).
  - eapply dlinv_intro; [eapply (M_mst c _ _ MRunnable); [eapply (M_tail c _ _ _ _ _ _ (cLN st) (cLN st)); [exact D|exact Hnw|discriminate|discriminate|discriminate|apply (d_ip _ _ _ _ _ _ _ _ D)|apply (d_iw _ _ _ _ _ _ _ _ D)]|apply Hnw|exact Nr]|..];
      try reflexivity; intros []; reflexivity.
Qed.

Lemma tail_pos : forall pos q, pos_ok c pos -> q <= 8 -> ops_of c pos = skipn q dtail ->
  pos = PTail q \/ (q = 0 /\ pos = PLoop (ndec c)).
Proof.
  intros pos q Hp Hq H. destruct pos as [m|m|q']; cbn [ops_of pos_ok] in *.
  - destruct (Nat.lt_ge_cases m (ndec c)) as [Hm|Hm].
    + rewrite (loop_from_unfold c m Hm) in H. exfalso.
      destruct q as [|[|[|[|[|[|[|[|[|q]]]]]]]]]; cbn in H; try discriminate; lia.
    + rewrite loop_from_end in H by lia. cbn [app] in H.
      destruct q as [|[|[|[|[|[|[|[|[|q]]]]]]]]]; cbn in H; try discriminate; try lia.
      right. split; [reflexivity|f_equal; lia].
  - exfalso. destruct q as [|[|[|[|[|[|[|[|[|q]]]]]]]]]; cbn in H; try discriminate; lia.
  - left. f_equal. apply (f_equal (@length mop)) in H. rewrite !skipn_length in H. change (length dtail) with 8 in H. lia.
Qed.

Lemma main_tail_dd : forall f st w woken st' q, dinv c st -> dlinv c st -> nowait (s_mst st) ->
  s_mops st = skipn q dtail -> q <= 8 -> main_run (S f) c st w woken = Some st' -> dlinv c st'.
Proof.
  intros f st w woken st' q Dd D Hnw Eo Hq Hrun. inv_d Dd.
  destruct q as [|[|q]].
  - eapply (main_jc_dd f st w woken st' PT); [exact D|exact Hnw|exact Eo|exact R1| |exact Hrun].
    cbn [get_pool]. rewrite B1, Hws, nrun_wof. reflexivity.
  - eapply (main_jc_dd f st w woken st' PW); [exact D|exact Hnw|exact Eo|exact R2| |exact Hrun].
    cbn [get_pool]. rewrite B2, Hws, nrun_wof. reflexivity.
  - rewrite Hops in Eo. destruct (tail_pos pos (S (S q)) Hpos Hq Eo) as [->|[? _]]; [|discriminate].
    destruct Q as [Q1 _]; [exists (S (S q)); split; [reflexivity|lia]|].
    eapply (G_main_free c dfrees dfrees_free dfrees_bs dfrees_jv (S f) st w woken st' D Hnw); [exists q; rewrite Hops; reflexivity| | |exact Hrun].
    + rewrite Hws. constructor; [|constructor; [|constructor]].
      * destruct w1; try exact I. discriminate.
      * destruct w2; try exact I. exact H2.
    + rewrite Hws, HN. reflexivity.
Qed.

Lemma main_run_dd : forall fuel st w woken st', dinv c st -> dlinv c st -> nowait (s_mst st) ->
  main_run fuel c st w woken = Some st' -> dlinv c st'.
Proof.
  intros fuel st w woken st' Dd D Hnw Hrun. destruct fuel as [|f].
  { cbn in Hrun. injection Hrun as <-. apply dlinv_err. exact D. }
  pose proof Dd as Dd0. inv_d Dd.
  assert (Nr : nowait MRunnable) by (split; discriminate).
  destruct pos as [m|m|q]; cbn [ops_of pos_ok submitted] in *.
  - destruct (Nat.lt_ge_cases m (ndec c)) as [Hm|Hm].
    + rewrite (loop_from_unfold c m Hm) in Hops. cbn [app] in Hops.
      assert (Hsh : shut (s_pt st) = false).
      { destruct (shut (s_pt st)) eqn:Es; [|reflexivity]. destruct (S1 eq_refl) as [q [Hq _]]. discriminate. }
      cbn [main_run] in Hrun. rewrite Hops in Hrun.
      set (X := set_main (or_viol st (refill_conflict c st m)) (MSubmit PT (JD c m) :: loop_from c (S m) ++ dtail) MRunnable) in Hrun.
      assert (DX : dlinv c X).
      { unfold dlinv in D. fold (cPS st) (cPO st) (cLN st) (cSH st) in D. rewrite Hops in D.
        eapply dlinv_intro; [eapply (M_mst c _ _ MRunnable); [eapply (M_tail c _ _ _ _ _ _ (cLN st) (cLN st)); [exact D|exact Hnw|discriminate|discriminate|discriminate|apply (d_ip _ _ _ _ _ _ _ _ D)|apply (d_iw _ _ _ _ _ _ _ _ D)]|apply Hnw|exact Nr]|..];
          try reflexivity; intros []; reflexivity. }
      destruct f as [|f]; [cbn in Hrun; injection Hrun as <-; apply dlinv_err; exact DX|].
      eapply (submit_main_dd f X w false st' (JD c m) (loop_from c (S m) ++ dtail)); [exact DX|reflexivity|exact Nr|exact R1|exact Sz1|exact Hsh|exact Hrun].
    + rewrite loop_from_end in Hops by lia. cbn [app] in Hops.
      eapply (main_tail_dd f st w woken st' 0); [exact Dd0|exact D|exact Hnw|exact Hops|lia|exact Hrun].
  - assert (Hsh : shut (s_pt st) = false).
    { destruct (shut (s_pt st)) eqn:Es; [|reflexivity]. destruct (S1 eq_refl) as [q [Hq _]]. discriminate. }
    eapply (submit_main_dd f st w woken st' (JD c m) (loop_from c (S m) ++ dtail)); [exact D|exact Hops|exact Hnw|exact R1|exact Sz1|exact Hsh|exact Hrun].
  - eapply (main_tail_dd f st w woken st' q); [exact Dd0|exact D|exact Hnw|exact Hops|exact Hpos|exact Hrun].
Qed.

Lemma pstep_dd : forall st pk st', dinv c st -> dlinv c st -> pstep c st pk = Some st' -> dlinv c st'.
Proof.
  intros st [t w] st' Dd D H. unfold pstep in H.
  assert (NS : forall x, dlinv c x -> dlinv c (next_step x)) by (intros x Dx; eapply dlinv_tr; [|exact Dx]; repeat split).
  destruct t as [|t]; cbn [Nat.eqb] in H.
  - unfold main_step in H.
    destruct (s_mst st) eqn:Em; try discriminate;
      (destruct (main_run _ c st w _) as [st2|] eqn:E; [|discriminate]; injection H as <-;
       apply NS; eapply main_run_dd; try eassumption; rewrite Em; split; discriminate).
  - destruct (worker_step c st (S t) w) as [st2|] eqn:E; [|discriminate]. injection H as <-.
    apply NS. apply (step_worker_dd st (S t) w st2); try assumption. lia.
Qed.

(* ---- MFinished is only reached at the end of the program *)
Definition fin_ok (st : state) : Prop := s_mst st = MFinished -> s_mops st = [].

Lemma fin_main_run : forall fuel st w woken st', s_mst st <> MFinished ->
  main_run fuel c st w woken = Some st' -> fin_ok st'.
Proof.
  induction fuel as [|f IH]; intros st w woken st' Hn Hrun; cbn [main_run] in Hrun.
  { injection Hrun as <-. intros H. exfalso. exact (Hn H). }
  assert (R : forall X rest, s_mst (set_main X rest MRunnable) <> MFinished) by (intros; cbn; discriminate).
  destruct (s_mops st) as [|op rest]; [injection Hrun as <-; intros _; reflexivity|].
  destruct op as [pp jj|kk|pp|pp|pp|tt].
  - destruct (submit_cs _ 0 pp jj w) as [[st2 []]|]; try discriminate; injection Hrun as <-; intros H; discriminate.
  - eapply IH; [|exact Hrun]. apply R.
  - destruct (jobs_pending _); injection Hrun as <-; intros H; discriminate.
  - injection Hrun as <-. intros H. discriminate.
  - eapply IH; [|exact Hrun]. apply R.
  - destruct (thread_done st tt); [eapply IH; [|exact Hrun]; apply R|injection Hrun as <-; intros H; discriminate].
Qed.

Lemma pstep_fin : forall st pk st', fin_ok st -> pstep c st pk = Some st' -> fin_ok st'.
Proof.
  intros st [t w] st' F H. unfold pstep in H. destruct t as [|t]; cbn [Nat.eqb] in H.
  - unfold main_step in H. destruct (s_mst st) eqn:Em; try discriminate;
      (destruct (main_run _ c st w _) as [st2|] eqn:E; [|discriminate]; injection H as <-;
       apply (fin_main_run _ _ _ _ _ ltac:(rewrite Em; discriminate)) in E; exact E).
  - destruct (worker_step c st (S t) w) as [st2|] eqn:E; [|discriminate]. injection H as <-.
    apply fo_worker_step in E. unfold fo in E. injection E as E1 E2. unfold fin_ok in *. cbn [next_step s_mst s_mops].
    intros Hf. rewrite Hf in E2. cbn in E2. rewrite E1. apply F. destruct (s_mst st); try discriminate. reflexivity.
Qed.

Lemma run_dd : forall sched st st', dinv c st -> dlinv c st -> fin_ok st -> run c st sched = Some st' ->
  dinv c st' /\ dlinv c st' /\ fin_ok st'.
Proof.
  induction sched as [|pk sched IH]; intros st st' Dd D F H; cbn [run] in H.
  - injection H as <-. auto.
  - destruct (pstep c st pk) as [st2|] eqn:E; [|discriminate].
    eapply IH; [| | |exact H].
    + eapply (pstep_dinv c Hdec HN HTQ HWQ Hin Hout_leg Hout_f); eassumption.
    + eapply pstep_dd; eassumption.
    + eapply pstep_fin; eassumption.
Qed.

Lemma init_dlinv_d : dlinv c (init_state c).
Proof.
  assert (Wg : forall t w0, wget (repeat WIdle (S (c_N c))) t = Some w0 -> w0 = WIdle).
  { intros t w0 H. apply nth_error_In in H. apply repeat_spec in H. exact H. }
  assert (Hi : forall op, In op dtail -> In op (main_program c)).
  { intros op H. rewrite (main_program_dec c Hdec HN). apply in_or_app. right. exact H. }
  eapply (dlinv_intro c _ (main_program c) MRunnable (repeat WIdle (S (c_N c))) (fun _ => []) (fun _ => []) (fun _ => 0) (fun _ => false));
    try reflexivity; try (intros []; reflexivity).
  constructor; try discriminate.
  - apply Forall_forall. intros x Hx. apply repeat_spec in Hx. subst. exact I.
  - intros t w0 _ Hg Hgo. apply Wg in Hg. subst. discriminate.
  - intros p t [].
  - intros t _ Hg. apply Wg in Hg. discriminate.
  - intros p. constructor.
  - intros p t [].
  - intros t j i _ Hg. apply Wg in Hg. discriminate.
  - intros p. constructor.
  - intros p. split; [intros []|discriminate].
  - intros p H. exfalso. apply H. reflexivity.
  - intros [t [[] _]].
  - intros t Ht. left. apply Hi. rewrite HN in Ht. assert (E : t = 1 \/ t = 2) by lia. destruct E as [-> | ->]; cbn; auto 10.
  - intros p. left. apply Hi. destruct p; cbn; auto 10.
  - intros p _. apply Hi. destruct p; cbn; auto 10.
Qed.

Lemma join_pos : forall pos t rest, pos_ok c pos -> ops_of c pos = MJoin t :: rest ->
  (pos = PTail 4 /\ t = 2) \/ (pos = PTail 7 /\ t = 1).
Proof.
  intros pos t rest Hp H. destruct pos as [m|m|q]; cbn [ops_of pos_ok] in *.
  - destruct (Nat.lt_ge_cases m (ndec c)) as [Hm|Hm]; [rewrite (loop_from_unfold c m Hm) in H|rewrite loop_from_end in H by lia]; discriminate.
  - discriminate.
  - destruct q as [|[|[|[|[|[|[|[|[|q]]]]]]]]]; cbn in H; try discriminate; injection H as <- _; auto.
Qed.

Lemma blocked_final_dd : forall st, dinv c st -> dlinv c st -> fin_ok st -> blocked_all st = true -> final st = true.
Proof.
  intros st Dd D Hfin Hb. unfold dlinv in D. fold (cPS st) (cPO st) (cLN st) (cSH st) in D. inv_d Dd.
  unfold blocked_all in Hb. apply andb_true_iff in Hb. destruct Hb as [Hm Hw]. rewrite Hws in Hw. cbn [forallb] in Hw.
  apply andb_true_iff in Hw. destruct Hw as [Hw1 Hw2]. rewrite andb_true_r in Hw2.
  assert (G1 : wget (s_ws st) 1 = Some w1) by (rewrite Hws; reflexivity).
  assert (G2 : wget (s_ws st) 2 = Some w2) by (rewrite Hws; reflexivity).
  assert (T1 : 1 <= 1) by lia. assert (T2 : 1 <= 2) by lia.
  assert (NI : forall p, nidle c (s_ws st) p = is_idle match p with PT => w1 | PW => w2 end).
  { intros p. rewrite Hws. unfold nidle, wof. rewrite HN. destruct p; cbn; lia. }
  assert (NP : npush c (s_ws st) = is_pusher c w1 + is_pusher c w2) by (rewrite Hws; unfold npush; cbn; lia).
  assert (NRn : forall p, nrun (wof c (s_ws st) p) = b2n (running match p with PT => w1 | PW => w2 end)) by (intros p; rewrite Hws; apply nrun_wof).
  (* a parked or ended worker of pool p with a non-empty queue is impossible unless p is shut down *)
  assert (PK : forall p, match p with PT => w1 | PW => w2 end = WWaitPop -> cLN st p = 0).
  { intros p Hp. assert (Hi : In match p with PT => 1 | PW => 2 end (cPO st p)).
    { destruct p; cbn beta iota in *.
      - pose proof (d_pop_c _ _ _ _ _ _ _ _ D 1 T1) as X. rewrite o1 in X. apply X. rewrite G1, Hp. reflexivity.
      - pose proof (d_pop_c _ _ _ _ _ _ _ _ D 2 T2) as X. rewrite o2 in X. apply X. rewrite G2, Hp. reflexivity. }
    assert (Hne : cPO st p <> []) by (intros E0; rewrite E0 in Hi; destruct Hi).
    pose proof (d_ip _ _ _ _ _ _ _ _ D p Hne) as H. rewrite NI, Hp in H. cbn in H. lia. }
  assert (GN : forall p, match p with PT => w1 | PW => w2 end = WDone -> cSH st p = true).
  { intros p Hp. destruct p; cbn beta iota in *.
    - pose proof (d_gone _ _ _ _ _ _ _ _ D 1 w1 T1 G1) as X. rewrite o1 in X. apply X. rewrite Hp. reflexivity.
    - pose proof (d_gone _ _ _ _ _ _ _ _ D 2 w2 T2 G2) as X. rewrite o2 in X. apply X. rewrite Hp. reflexivity. }
  (* 1. worker 1 is not parked in TPool_submitJob(wPool) *)
  assert (Hr1 : running w1 = false).
  { destruct w1 as [| |j i|j i|j i| |]; try discriminate; try reflexivity. exfalso.
    assert (Hex : exists t0, In t0 (cPS st PW) /\ t0 <> 0) by (exists 1; split; [eapply (d_psh_c _ _ _ _ _ _ _ _ D); [|exact G1]; lia|lia]).
    pose proof (d_iw _ _ _ _ _ _ _ _ D Hex) as I0. rewrite NP in I0. cbn [is_pusher] in I0.
    destruct w2 as [| |j2 i2|j2 i2|j2 i2| |]; try discriminate; try (exfalso; exact H2).
    - pose proof (PK PW eq_refl). cbn [is_pusher] in I0. lia.
    - pose proof (GN PW eq_refl) as Hs. destruct (S2 Hs) as [q [-> Hq]].
      destruct Q as [Q1 _]; [exists q; split; [reflexivity|lia]|]. discriminate. }
  assert (Hr2 : running w2 = false) by (destruct w2; try discriminate; try reflexivity; exfalso; exact H2).
  destruct (s_mst st) as [|pp| |tj|] eqn:Em; try discriminate.
  - exfalso. pose proof (d_im _ _ _ _ _ _ _ _ D pp eq_refl) as H. rewrite NRn in H.
    assert (Hrp : running match pp with PT => w1 | PW => w2 end = false) by (destruct pp; assumption). rewrite Hrp in H. cbn [b2n] in H.
    assert (Hc : match pp with PT => w1 | PW => w2 end = WWaitPop \/ match pp with PT => w1 | PW => w2 end = WDone).
    { destruct pp; [destruct w1|destruct w2]; try discriminate; auto. }
    destruct Hc as [Hc|Hc]; [rewrite (PK pp Hc) in H; lia|].
    pose proof (GN pp Hc) as Hs.
    assert (Hp3 : past pos 3) by (destruct pp; [destruct (S1 Hs) as [q [-> Hq]]; exists q; split; [reflexivity|lia]|exact (S2 Hs)]).
    destruct Hp3 as [q [-> Hq]]. cbn [ops_of] in Hops.
    destruct (d_hd _ _ _ _ _ _ _ _ D pp eq_refl) as [r [Hr|[_ [j Hr]]]]; rewrite Hops in Hr;
      destruct q as [|[|[|[|[|[|[|[|[|q]]]]]]]]]; cbn in Hr; try discriminate; lia.
  - exfalso. destruct (d_mj _ _ _ _ _ _ _ _ D tj eq_refl) as ([rest Hr] & Ht & ww & Hg & Hd).
    rewrite Hops in Hr. destruct (join_pos pos tj rest Hpos Hr) as [[-> ->]|[-> ->]]; cbn [ops_of skipn dtail] in Hops.
    + rewrite G2 in Hg. injection Hg as <-.
      assert (Hc : w2 = WWaitPop) by (destruct w2; try discriminate; try reflexivity; congruence).
      assert (Hi : In 2 (cPO st PW)) by (pose proof (d_pop_c _ _ _ _ _ _ _ _ D 2 T2) as X; rewrite o2 in X; apply X; rewrite G2, Hc; reflexivity).
      destruct (d_shd _ _ _ _ _ _ _ _ D PW) as [H|H]; [rewrite Hops in H; cbn in H; intuition discriminate|].
      rewrite (d_s _ _ _ _ _ _ _ _ D PW) in Hi; [destruct Hi| |exact H]. rewrite Hops. cbn. intuition discriminate.
    + rewrite G1 in Hg. injection Hg as <-.
      assert (Hc : w1 = WWaitPop) by (destruct w1; try discriminate; try reflexivity; congruence).
      assert (Hi : In 1 (cPO st PT)) by (pose proof (d_pop_c _ _ _ _ _ _ _ _ D 1 T1) as X; rewrite o1 in X; apply X; rewrite G1, Hc; reflexivity).
      destruct (d_shd _ _ _ _ _ _ _ _ D PT) as [H|H]; [rewrite Hops in H; cbn in H; intuition discriminate|].
      rewrite (d_s _ _ _ _ _ _ _ _ D PT) in Hi; [destruct Hi| |exact H]. rewrite Hops. cbn. intuition discriminate.
  - rewrite (Hfin Em) in D.
    assert (J : forall t, 1 <= t <= 2 -> wget (s_ws st) t = Some WDone).
    { intros t Ht. destruct (d_j _ _ _ _ _ _ _ _ D t) as [[]|H]; [rewrite HN; lia|exact H]. }
    pose proof (J 1 ltac:(lia)) as J1. pose proof (J 2 ltac:(lia)) as J2. rewrite G1 in J1. rewrite G2 in J2.
    injection J1 as ->. injection J2 as ->. unfold final. rewrite Em, Hws. reflexivity.
Qed.

(* ---- a thread that is not parked has an enabled pick *)
Lemma main_enabled_dd : forall st, dinv c st -> (s_mst st = MRunnable \/ s_mst st = MWokenPush) ->
  exists w st', main_step c st w = Some st'.
Proof.
  intros st Dd Hm. inv_d Dd. unfold main_step.
  assert (NS : forall q p j, ~ In (MSubmit p j) (skipn q dtail)) by (intros q p j Hi; apply In_skipn_ in Hi; cbn in Hi; intuition discriminate).
  assert (NR : forall q k, ~ In (MRefill k) (skipn q dtail)) by (intros q k Hi; apply In_skipn_ in Hi; cbn in Hi; intuition discriminate).
  assert (SB : forall woken X rest m f, s_mops X = MSubmit PT (JD c m) :: rest -> exists w st', main_run (S f) c X w woken = Some st').
  { intros woken X rest m f Eo. cbn [main_run]. rewrite Eo.
    destruct (submit_enabled (if woken then X else sub_effects c X 0 PT (JD c m)) 0 PT (JD c m)) as [w [[st2 b] E]]. exists w. rewrite E. destruct b; eauto. }
  assert (G : forall woken, exists w st', main_run (S (length (s_mops st))) c st w woken = Some st').
  { intros woken. destruct pos as [m|m|q]; cbn [ops_of pos_ok] in *.
    - destruct (Nat.lt_ge_cases m (ndec c)) as [Hlt|Hge].
      + rewrite (loop_from_unfold c m Hlt) in Hops. cbn [app] in Hops. rewrite Hops. cbn [length].
        set (X := set_main (or_viol st (refill_conflict c st m)) (MSubmit PT (JD c m) :: loop_from c (S m) ++ dtail) MRunnable).
        destruct (SB false X (loop_from c (S m) ++ dtail) m (length (loop_from c (S m) ++ dtail)) eq_refl) as [w [st' E]].
        exists w, st'. rewrite <- E. unfold X. cbn [main_run]. rewrite Hops. reflexivity.
      + rewrite loop_from_end in Hops by lia. cbn [app] in Hops. exists 0. apply main_run_nosub; rewrite Hops; [apply (NS 0)|apply (NR 0)].
    - eapply SB. exact Hops.
    - exists 0. apply main_run_nosub; rewrite Hops; [apply NS|apply NR]. }
  destruct Hm as [-> | ->]; apply G.
Qed.

Lemma not_blocked_enabled_dd : forall st, dinv c st -> blocked_all st = false -> exists pk st', pstep c st pk = Some st'.
Proof.
  intros st Dd Hb. unfold blocked_all in Hb. apply andb_false_iff in Hb. destruct Hb as [Hb|Hb].
  - destruct (main_enabled_dd st Dd) as [w [st' E]]; [destruct (s_mst st); try discriminate; auto|].
    exists (0, w). unfold pstep. cbn [Nat.eqb]. rewrite E. eauto.
  - assert (Hex : exists x, In x (s_ws st) /\ (match x with WWaitPop | WSubWait _ _ | WDone => true | _ => false end) = false).
    { clear -Hb. induction (s_ws st) as [|a l IH]; [discriminate|]. cbn [forallb] in Hb. apply andb_false_iff in Hb. destruct Hb as [Hb|Hb].
      - exists a. split; [left; reflexivity|exact Hb].
      - destruct (IH Hb) as [x [Hx Hx2]]. exists x. split; [right; exact Hx|exact Hx2]. }
    destruct Hex as [x [Hx Hx2]]. destruct (In_nth_error _ _ Hx) as [n Hn].
    destruct (worker_enabled c st (S n) x) as [w [st' E]].
    + cbn [Nat.sub]. rewrite Nat.sub_0_r. exact Hn.
    + destruct x; try discriminate; reflexivity.
    + exists (S n, w). unfold pstep. cbn [Nat.eqb]. rewrite E. eauto.
Qed.

Theorem dec_no_deadlock : forall sched st, run c (init_state c) sched = Some st -> final st = false ->
  exists pk st', pstep c st pk = Some st'.
Proof.
  intros sched st H Hf.
  assert (F0 : fin_ok (init_state c)) by (intros E; discriminate).
  destruct (run_dd sched _ _ (init_dinv c Hdec HN HTQ HWQ Hin Hout_leg Hout_f) init_dlinv_d F0 H) as (Dd & D & F).
  destruct (blocked_all st) eqn:Hb.
  - pose proof (blocked_final_dd st Dd D F Hb). congruence.
  - apply not_blocked_enabled_dd; assumption.
Qed.

Theorem dec_stuck_is_final : forall sched st, run c (init_state c) sched = Some st ->
  (forall pk, pstep c st pk = None) -> final st = true.
Proof.
  intros sched st H Hn. destruct (final st) eqn:Hf; [reflexivity|].
  destruct (dec_no_deadlock sched st H Hf) as [pk [st' E]]. rewrite Hn in E. discriminate.
Qed.
End DD.
