(* Termination of the multi-threaded pipelines of Model/Pipeline.v: a measure on states that strictly
   decreases on every pstep.

     Phi st = (N + 4) * W st + A st

   W st = remaining work: every operation the main thread still has to execute (a TPool_submitJob counts the
   whole future of the submitted job), the cost of every queued job (pop + every submit it will make, each with
   the cost of the submitted job + its end), what every running job still has to do, and the two exit steps of
   every worker.  A st = number of threads that are awake (not parked on a condition variable / in join, not ended).
   A step either consumes work (W decreases; A <= N + 2 always) or parks an awake thread without touching W.
   The only steps that would change neither are the model's error self-loops (popping a null job, resuming a
   submit that does not exist, running out of fuel); they are excluded by the hypothesis [tok], which the
   pipeline invariants provide. *)
From Coq Require Import ZArith List Bool Arith Lia.
From LZ4V Require Import Model.WriteReg Model.TPool Model.Pipeline
  Proofs.TPoolProofs Proofs.WriteRegProofs Proofs.DecodeRingProofs Proofs.CompressProofs Proofs.NeverFullProofs Proofs.DeadlockProofs.
Import ListNotations.

Section Term.
Variable c : cfg.

Definition cr (k : nat) : nat := 2 + 9 * (c_nfull c - k) + (if c_last c && (k <=? c_nfull c) then 6 else 0).
Definition cost (j : job) : nat := match j with JRead k => cr k | _ => 2 + 3 * length (job_subs c j) end.
Definition subcost (l : list (pid * job)) : nat := sum_list (map (fun pj => 1 + cost (snd pj)) l).
Definition wc (j : job) (i : nat) : nat := 1 + subcost (skipn i (job_subs c j)).

Lemma subcost_cons : forall a l, subcost (a :: l) = 1 + cost (snd a) + subcost l.
Proof. reflexivity. Qed.

Lemma subcost_leaves : forall l, (forall pj, In pj l -> cost (snd pj) = 2) -> subcost l = 3 * length l.
Proof.
  induction l as [|a l IH]; intros H; [reflexivity|]. rewrite subcost_cons, IH, (H a) by (intros; try apply H; cbn; auto). cbn [length]. lia.
Qed.

Lemma cost_unfold : forall j, cost j = 1 + wc j 0.
Proof.
  intros j. unfold wc. cbn [skipn]. destruct j as [k|k|k|k|k|k|k]; cbn [cost];
    try (rewrite subcost_leaves; [lia|]; intros pj Hin; cbn [job_subs] in Hin).
  - (* JRead *)
    unfold cr. cbn [job_subs]. destruct (k <? c_nfull c) eqn:E1.
    + apply Nat.ltb_lt in E1. rewrite !subcost_cons. cbn [snd cost subcost map sum_list fold_right job_subs length]. unfold cr.
      assert (L1 : (k <=? c_nfull c) = true) by (apply Nat.leb_le; lia).
      assert (L2 : (S k <=? c_nfull c) = true) by (apply Nat.leb_le; lia).
      rewrite L1, L2. destruct (c_last c); cbn [andb]; lia.
    + apply Nat.ltb_ge in E1. destruct ((k =? c_nfull c) && c_last c) eqn:E2.
      * apply andb_true_iff in E2. destruct E2 as [E2 E3]. apply Nat.eqb_eq in E2. subst k. rewrite E3, Nat.leb_refl.
        cbn [andb subcost map sum_list fold_right snd cost job_subs length]. lia.
      * cbn [subcost map sum_list fold_right]. apply andb_false_iff in E2. destruct E2 as [E2|E2].
        -- apply Nat.eqb_neq in E2. assert (L : (k <=? c_nfull c) = false) by (apply Nat.leb_gt; lia). rewrite L, andb_false_r. lia.
        -- rewrite E2. cbn [andb]. lia.
  - destruct Hin as [<-|[]]. reflexivity.
  - destruct Hin.
  - destruct Hin as [<-|[]]. reflexivity.
  - destruct Hin.
  - apply in_map_iff in Hin. destruct Hin as [i [<- _]]. reflexivity.
  - destruct Hin.
Qed.

Lemma wc_step : forall j i p j', nth_error (job_subs c j) i = Some (p, j') -> wc j i = 1 + cost j' + wc j (S i).
Proof.
  intros j i p j' H. unfold wc.
  assert (E : skipn i (job_subs c j) = (p, j') :: skipn (S i) (job_subs c j)).
  { revert i H. generalize (job_subs c j). induction l as [|a l IH]; intros i H; destruct i; cbn [nth_error] in H; try discriminate.
    - injection H as ->. reflexivity.
    - cbn [skipn]. apply IH. exact H. }
  rewrite E, subcost_cons. cbn [snd]. lia.
Qed.

Lemma wc_end : forall j i, nth_error (job_subs c j) i = None -> wc j i = 1.
Proof. intros j i H. unfold wc. apply nth_error_None in H. rewrite skipn_all2 by exact H. reflexivity. Qed.

Definition wcost (w : wstate) : nat :=
  match w with
  | WRun j i | WSubWait j i | WSubWoken j i => wc j i + 2
  | WIdle | WWaitPop => 2
  | WExit => 1
  | WDone => 0
  end.
Definition opw (op : mop) : nat := match op with MSubmit _ j => 1 + cost j | _ => 1 end.
Definition qcost (l : list job) : nat := sum_list (map cost l).
Definition aw (w : wstate) : nat := match w with WIdle | WRun _ _ | WSubWoken _ _ | WExit => 1 | _ => 0 end.
Definition awm (m : mstatus) : nat := match m with MRunnable | MWokenPush => 1 | _ => 0 end.

Definition Wst (st : state) : nat :=
  sum_list (map opw (s_mops st)) + qcost (queued (s_pt st)) + qcost (queued (s_pw st)) + sum_list (map wcost (s_ws st)).
Definition Ast (st : state) : nat := awm (s_mst st) + sum_list (map aw (s_ws st)).
Definition Phi (st : state) : nat := (c_N c + 4) * Wst st + Ast st.

(* progress of one step *)
Definition prog (st st' : state) : Prop := Wst st' < Wst st \/ (Wst st' = Wst st /\ Ast st' < Ast st).

Lemma Ast_bound : forall st, Ast st <= 1 + length (s_ws st).
Proof.
  intros st. unfold Ast. assert (awm (s_mst st) <= 1) by (destruct (s_mst st); cbn; lia).
  assert (sum_list (map aw (s_ws st)) <= length (s_ws st)).
  { induction (s_ws st) as [|a l IH]; [cbn; lia|]. cbn [map sum_list fold_right length]. unfold sum_list in IH. destruct a; cbn [aw]; lia. }
  lia.
Qed.

Lemma prog_Phi : forall st st', length (s_ws st') = S (c_N c) -> prog st st' -> Phi st' < Phi st.
Proof.
  intros st st' EL [H|[H1 H2]]; unfold Phi.
  - pose proof (Ast_bound st'). rewrite EL in H0. nia.
  - rewrite H1. lia.
Qed.

(* ---- how the primitives of the step function change W and A *)
Definition weq (a b : state) : Prop :=
  s_mops b = s_mops a /\ queued (s_pt b) = queued (s_pt a) /\ queued (s_pw b) = queued (s_pw a) /\ s_ws b = s_ws a.
Lemma weq_W : forall a b, weq a b -> Wst b = Wst a.
Proof. intros a b (E1&E2&E3&E4). unfold Wst. rewrite E1, E2, E3, E4. reflexivity. Qed.
Definition aeq (a b : state) : Prop := s_mst b = s_mst a /\ s_ws b = s_ws a.
Lemma aeq_A : forall a b, aeq a b -> Ast b = Ast a.
Proof. intros a b (E1&E2). unfold Ast. rewrite E1, E2. reflexivity. Qed.

Lemma wsum_wk : forall ws wk, sum_list (map wcost (wk_ws ws wk)) = sum_list (map wcost ws).
Proof.
  intros ws [[|t]|]; cbn [wk_ws]; try reflexivity.
  destruct (nth_error ws t) as [[]|] eqn:E; try reflexivity.
  - pose proof (sum_map_set_nth wcost ws t WIdle _ E) as H. change (wcost WWaitPop) with 2 in H. change (wcost WIdle) with 2 in H. lia.
  - pose proof (sum_map_set_nth wcost ws t (WSubWoken j i) _ E) as H.
    change (wcost (WSubWait j i)) with (wc j i + 2) in H. change (wcost (WSubWoken j i)) with (wc j i + 2) in H. lia.
Qed.

Lemma W_wake : forall st wk, Wst (wake_thread st wk) = Wst st.
Proof.
  intros st wk. destruct (wake_thread_comps st wk) as (A&_&B&C0&D). unfold Wst. rewrite A, B, C0, D, wsum_wk. reflexivity.
Qed.
Lemma W_wake_all : forall l st, Wst (wake_all st l) = Wst st.
Proof. unfold wake_all. induction l as [|t l IH]; intros st; cbn [fold_left]; [reflexivity|]. rewrite IH. apply W_wake. Qed.

Lemma W_signal_push : forall X p w st3, signal_push X p w = Some st3 -> Wst st3 = Wst X.
Proof.
  intros X p w st3 H. unfold signal_push in H. destruct (wake _ w) as [[l wk]|]; [|discriminate]. injection H as <-.
  rewrite W_wake. apply weq_W. destruct p; repeat split.
Qed.
Lemma W_signal_pop : forall X p w st3, signal_pop X p w = Some st3 -> Wst st3 = Wst X.
Proof.
  intros X p w st3 H. unfold signal_pop in H. destruct (wake _ w) as [[l wk]|]; [|discriminate]. injection H as <-.
  rewrite W_wake. apply weq_W. destruct p; repeat split.
Qed.

Lemma W_set_w : forall st t x old, nth_error (s_ws st) (t - 1) = Some old -> Wst (set_w st t x) + wcost old = Wst st + wcost x.
Proof.
  intros st t x old H. unfold Wst. cbn [s_mops s_pt s_pw s_ws set_w set_ws].
  pose proof (sum_map_set_nth wcost (s_ws st) (t - 1) x old H). lia.
Qed.
Lemma A_set_w : forall st t x old, nth_error (s_ws st) (t - 1) = Some old -> Ast (set_w st t x) + aw old = Ast st + aw x.
Proof.
  intros st t x old H. unfold Ast. cbn [s_mst s_ws set_w set_ws].
  pose proof (sum_map_set_nth aw (s_ws st) (t - 1) x old H). lia.
Qed.

Definition qof (st : state) (p : pid) : list job := queued (get_pool st p).
Lemma W_set_pool : forall st p pl', Wst (set_pool st p pl') + qcost (qof st p) = Wst st + qcost (queued pl').
Proof. intros st p pl'. unfold Wst, qof. destruct p; cbn [s_mops s_pt s_pw s_ws set_pool get_pool]; lia. Qed.

Lemma qcost_app : forall a b, qcost (a ++ b) = qcost a + qcost b.
Proof.
  intros a b. induction a as [|x a IH]; [reflexivity|].
  change (qcost ((x :: a) ++ b)) with (cost x + qcost (a ++ b)). change (qcost (x :: a)) with (cost x + qcost a). lia.
Qed.

Definition rings (st : state) : Prop := forall p, exists q, ring_ok (get_pool st p) q.

(* TPool_submitJob *)
Lemma W_submit : forall X t p j w st2 b, rings X -> submit_cs X t p j w = Some (st2, b) ->
  (b = false /\ weq X st2 /\ aeq X st2) \/ (b = true /\ s_mops st2 = s_mops X /\ Wst st2 <= Wst X + cost j).
Proof.
  intros X t p j w st2 b HR H. unfold submit_cs in H. destruct (HR p) as [q R].
  rewrite (ring_full job _ _ R) in H.
  destruct ((S (length q) =? q_size (get_pool X p)) && negb (shut (get_pool X p))) eqn:E.
  - injection H as <- <-. left. split; [reflexivity|]. split; destruct p; repeat split.
  - right. destruct (shut (get_pool X p)) eqn:Es.
    + injection H as <- <-. split; [reflexivity|]. split; [reflexivity|lia].
    + cbn [negb] in E. rewrite andb_true_r in E. apply Nat.eqb_neq in E.
      destruct (signal_pop _ p w) as [st3|] eqn:Esig; [|discriminate]. injection H as <- <-. split; [reflexivity|].
      split; [destruct (comps_signal_pop _ _ _ _ Esig) as (l' & wk & _ & _ & _ & C3 & _); rewrite C3; apply ops_set_pool|].
      rewrite (W_signal_pop _ _ _ _ Esig).
      pose proof (W_set_pool X p (pool_push (get_pool X p) j)) as HW.
      assert (Hroom : S (length q) < q_size (get_pool X p)) by (destruct R as [H0 [_ [_ [_ [_ [L _]]]]]]; lia).
      rewrite (queued_ring _ _ (ring_push job _ _ j R Hroom)) in HW. unfold qof in HW. rewrite (queued_ring _ _ R) in HW.
      rewrite qcost_app in HW. unfold qcost at 3 in HW. cbn [map sum_list fold_right] in HW. lia.
Qed.

Definition valid_sub (w : wstate) : Prop :=
  match w with WSubWait j i | WSubWoken j i => nth_error (job_subs c j) i <> None | _ => True end.

Lemma weq_trans : forall a b d, weq a b -> weq b d -> weq a d.
Proof. intros a b d (A1&A2&A3&A4) (B1&B2&B3&B4). repeat split; congruence. Qed.
Lemma weq_add_event : forall a e, weq a (add_event a e). Proof. intros. repeat split. Qed.
Lemma weq_start : forall st t j, weq st (start_effects c st t j) /\ aeq st (start_effects c st t j) /\ rings (start_effects c st t j) = rings (start_effects c st t j).
Proof. intros st t j. destruct j; repeat split. Qed.
Lemma weq_sub : forall st t p j, weq st (sub_effects c st t p j) /\ aeq st (sub_effects c st t p j).
Proof. intros st t p j. destruct j; repeat split. Qed.
Lemma gp_start : forall st t j p, get_pool (start_effects c st t j) p = get_pool st p.
Proof. intros st t j []; destruct j; reflexivity. Qed.
Lemma gp_sub : forall st t p0 j p, get_pool (sub_effects c st t p0 j) p = get_pool st p.
Proof. intros st t p0 j []; destruct j; reflexivity. Qed.

Lemma worker_prog : forall st t w st', 1 <= t -> rings st -> Forall valid_sub (s_ws st) ->
  worker_step c st t w = Some st' -> prog st st'.
Proof.
  intros st t w st' Ht HR HV Hstep. unfold worker_step in Hstep.
  destruct (nth_error (s_ws st) (t - 1)) as [w0|] eqn:Ew; [|discriminate].
  destruct w0 as [| |j i|j i|j i| |]; try discriminate.
  - (* WIdle *)
    destruct (worker_must_wait (get_pool st (own_pool c t))) eqn:Emw.
    + destruct (shut (get_pool st (own_pool c t))); injection Hstep as <-.
      * left. pose proof (W_set_w st t WExit _ Ew) as H. change (wcost WIdle) with 2 in H. change (wcost WExit) with 1 in H. lia.
      * right. set (X := set_pool st (own_pool c t) _).
        assert (EX : weq st X /\ aeq st X) by (unfold X; destruct (own_pool c t); repeat split). destruct EX as [E1 E2].
        assert (Ew' : nth_error (s_ws X) (t - 1) = Some WIdle) by (destruct E1 as (_&_&_&E); rewrite E; exact Ew).
        pose proof (W_set_w X t WWaitPop _ Ew') as H. pose proof (A_set_w X t WWaitPop _ Ew') as H2.
        rewrite (weq_W _ _ E1) in H. rewrite (aeq_A _ _ E2) in H2.
        change (wcost WIdle) with 2 in H. change (wcost WWaitPop) with 2 in H. change (aw WIdle) with 1 in H2. change (aw WWaitPop) with 0 in H2. lia.
    + unfold worker_must_wait in Emw. apply orb_false_iff in Emw. destruct Emw as [Eem _].
      destruct (HR (own_pool c t)) as [q R].
      destruct q as [|j rest]; [apply (ring_empty job _ _) in R; rewrite (proj2 R eq_refl) in Eem; discriminate|].
      destruct (ring_pop job _ _ _ R) as [pl' [Epop [R' _]]]. rewrite Epop in Hstep.
      destruct (signal_push _ (own_pool c t) w) as [st3|] eqn:Esig; [|discriminate]. injection Hstep as <-. left.
      pose proof (W_signal_push _ _ _ _ Esig) as H1.
      pose proof (W_set_pool st (own_pool c t) pl') as H2. unfold qof in H2. rewrite (queued_ring _ _ R), (queued_ring _ _ R') in H2.
      change (qcost (j :: rest)) with (cost j + qcost rest) in H2.
      assert (Ew3 : nth_error (s_ws st3) (t - 1) = Some WIdle \/ True) by (right; exact I).
      (* the acting thread is not parked, so the signal did not touch it *)
      destruct (comps_signal_push _ _ _ _ Esig) as (l' & wk & _ & C1 & _).
      assert (Ew4 : nth_error (s_ws st3) (t - 1) = Some WIdle).
      { rewrite C1, ws_set_pool. apply (wk_ws_other (s_ws st) wk t WIdle Ew eq_refl). }
      pose proof (W_set_w st3 t (WRun j 0) _ Ew4) as H3. change (wcost WIdle) with 2 in H3. change (wcost (WRun j 0)) with (wc j 0 + 2) in H3.
      pose proof (cost_unfold j). lia.
  - (* WRun j i *)
    set (st1 := if i =? 0 then start_effects c st t j else st) in Hstep.
    assert (E1 : weq st st1 /\ aeq st st1 /\ (forall p, get_pool st1 p = get_pool st p)).
    { unfold st1. destruct (i =? 0); [|repeat split]. destruct (weq_start st t j) as (A&B&_). split; [exact A|]. split; [exact B|]. intros p. apply gp_start. }
    clearbody st1. destruct E1 as (E1 & E1a & E1p).
    destruct (nth_error (job_subs c j) i) as [[p' j']|] eqn:Esub.
    + set (X := sub_effects c st1 t p' j') in Hstep.
      assert (E2 : weq st X /\ aeq st X /\ rings X).
      { unfold X. destruct (weq_sub st1 t p' j') as [A B]. split; [eapply weq_trans; eassumption|]. split.
        - destruct E1a as [a1 a2]. destruct B as [b1 b2]. split; congruence.
        - intros p. rewrite gp_sub, E1p. apply HR. }
      clearbody X. destruct E2 as (E2 & E2a & E2r).
      assert (EwX : nth_error (s_ws X) (t - 1) = Some (WRun j i)) by (destruct E2 as (_&_&_&E); rewrite E; exact Ew).
      destruct (submit_cs X t p' j' w) as [[st2 b]|] eqn:Hsub; [|discriminate].
      destruct (W_submit X t p' j' w st2 b E2r Hsub) as [(-> & F1 & F2)|(-> & _ & F1)]; injection Hstep as <-.
      * right. assert (Ew2 : nth_error (s_ws st2) (t - 1) = Some (WRun j i)) by (destruct F1 as (_&_&_&E); rewrite E; exact EwX).
        pose proof (W_set_w st2 t (WSubWait j i) _ Ew2) as H. pose proof (A_set_w st2 t (WSubWait j i) _ Ew2) as H2.
        rewrite (weq_W _ _ F1), (weq_W _ _ E2) in H. rewrite (aeq_A _ _ F2), (aeq_A _ _ E2a) in H2.
        change (wcost (WRun j i)) with (wc j i + 2) in H. change (wcost (WSubWait j i)) with (wc j i + 2) in H.
        change (aw (WRun j i)) with 1 in H2. change (aw (WSubWait j i)) with 0 in H2. lia.
      * left. rewrite (weq_W _ _ E2) in F1.
        assert (Ew2 : nth_error (s_ws st2) (t - 1) = Some (WRun j i)).
        { unfold submit_cs in Hsub. destruct (isQueueFull _ && _); [discriminate|]. destruct (shut _); [injection Hsub as <-; exact EwX|].
          destruct (signal_pop _ p' w) as [st3|] eqn:Es; [|discriminate]. injection Hsub as <-.
          destruct (comps_signal_pop _ _ _ _ Es) as (l' & wk & _ & C1 & _). rewrite C1, ws_set_pool.
          apply (wk_ws_other (s_ws X) wk t _ EwX eq_refl). }
        pose proof (W_set_w st2 t (WRun j (S i)) _ Ew2) as H.
        change (wcost (WRun j i)) with (wc j i + 2) in H. change (wcost (WRun j (S i))) with (wc j (S i) + 2) in H.
        pose proof (wc_step j i p' j' Esub). lia.
    + (* job function returns *)
      destruct (body_effects_comps c st1 t j) as (B1&B2&B3&B4&B5).
      set (Y := add_event (body_effects c st1 t j) _) in Hstep.
      assert (EY : weq st Y).
      { unfold Y. destruct E1 as (a1&a2&a3&a4). repeat split; cbn [add_event s_mops s_pt s_pw s_ws]; congruence. }
      assert (EwY : nth_error (s_ws Y) (t - 1) = Some (WRun j i)) by (destruct EY as (_&_&_&E); rewrite E; exact Ew).
      clearbody Y.
      destruct (signal_push _ (own_pool c t) w) as [st3|] eqn:Esig; [|discriminate]. injection Hstep as <-. left.
      pose proof (W_signal_push _ _ _ _ Esig) as H1.
      assert (H2 : Wst (set_pool Y (own_pool c t) (pool_job_done (get_pool Y (own_pool c t)))) = Wst Y).
      { apply weq_W. destruct (own_pool c t); repeat split. }
      destruct (comps_signal_push _ _ _ _ Esig) as (l' & wk & _ & C1 & _).
      assert (Ew3 : nth_error (s_ws st3) (t - 1) = Some (WRun j i)).
      { rewrite C1, ws_set_pool. apply (wk_ws_other (s_ws Y) wk t _ EwY eq_refl). }
      pose proof (W_set_w st3 t WIdle _ Ew3) as H3. change (wcost (WRun j i)) with (wc j i + 2) in H3. change (wcost WIdle) with 2 in H3.
      pose proof (wc_end j i Esub). rewrite (weq_W _ _ EY) in H2. lia.
  - (* WSubWoken j i *)
    pose proof (Forall_nth_error _ _ _ _ _ HV Ew) as V. cbn [valid_sub] in V.
    destruct (nth_error (job_subs c j) i) as [[p' j']|] eqn:Esub; [|congruence].
    destruct (submit_cs st t p' j' w) as [[st2 b]|] eqn:Hsub; [|discriminate].
    destruct (W_submit st t p' j' w st2 b HR Hsub) as [(-> & F1 & F2)|(-> & _ & F1)]; injection Hstep as <-.
    + right. assert (Ew2 : nth_error (s_ws st2) (t - 1) = Some (WSubWoken j i)) by (destruct F1 as (_&_&_&E); rewrite E; exact Ew).
      pose proof (W_set_w st2 t (WSubWait j i) _ Ew2) as H. pose proof (A_set_w st2 t (WSubWait j i) _ Ew2) as H2.
      rewrite (weq_W _ _ F1) in H. rewrite (aeq_A _ _ F2) in H2.
      change (wcost (WSubWoken j i)) with (wc j i + 2) in H. change (wcost (WSubWait j i)) with (wc j i + 2) in H.
      change (aw (WSubWoken j i)) with 1 in H2. change (aw (WSubWait j i)) with 0 in H2. lia.
    + left. assert (Ew2 : nth_error (s_ws st2) (t - 1) = Some (WSubWoken j i)).
      { unfold submit_cs in Hsub. destruct (isQueueFull _ && _); [discriminate|]. destruct (shut _); [injection Hsub as <-; exact Ew|].
        destruct (signal_pop _ p' w) as [st3|] eqn:Es; [|discriminate]. injection Hsub as <-.
        destruct (comps_signal_pop _ _ _ _ Es) as (l' & wk & _ & C1 & _). rewrite C1, ws_set_pool.
        apply (wk_ws_other (s_ws st) wk t _ Ew eq_refl). }
      pose proof (W_set_w st2 t (WRun j (S i)) _ Ew2) as H.
      change (wcost (WSubWoken j i)) with (wc j i + 2) in H. change (wcost (WRun j (S i))) with (wc j (S i) + 2) in H.
      pose proof (wc_step j i p' j' Esub). lia.
  - (* WExit *)
    injection Hstep as <-. left.
    assert (H : Wst (set_w st t WDone) + 1 = Wst st) by (pose proof (W_set_w st t WDone _ Ew) as H; change (wcost WExit) with 1 in H; change (wcost WDone) with 0 in H; lia).
    cbn [set_w set_ws s_mst]. destruct (s_mst st) as [|pp| |tj|]; try lia. destruct (tj =? t); [|lia].
    assert (E : Wst (set_main (set_w st t WDone) (s_mops st) MRunnable) = Wst (set_w st t WDone)) by (apply weq_W; repeat split). lia.
Qed.

Lemma prog_after : forall st X st', Wst X < Wst st -> prog X st' -> prog st st'.
Proof. intros st X st' H [H1|[H1 _]]; left; lia. Qed.

Lemma W_ops_tail : forall st op rest X m, s_mops st = op :: rest ->
  queued (s_pt X) = queued (s_pt st) -> queued (s_pw X) = queued (s_pw st) -> s_ws X = s_ws st ->
  Wst (set_main X rest m) + opw op = Wst st.
Proof.
  intros st op rest X m Eo E1 E2 E3. unfold Wst. cbn [s_mops s_pt s_pw s_ws set_main]. rewrite Eo, E1, E2, E3.
  change (sum_list (map opw (op :: rest))) with (opw op + sum_list (map opw rest)). lia.
Qed.

Lemma opw_pos : forall op, 1 <= opw op. Proof. intros []; cbn; lia. Qed.

Lemma rings_ext : forall a b, rings a -> (forall p, pool_eq (get_pool a p) (get_pool b p)) -> rings b.
Proof. intros a b H E p. destruct (H p) as [q R]. exists q. eapply ring_ok_eq; [apply E|exact R]. Qed.

Lemma wake_all_pools : forall l st p, get_pool (wake_all st l) p = get_pool st p.
Proof. intros l st p. destruct (wake_all_comps l st) as (_&A&B). destruct p; cbn [get_pool]; assumption. Qed.

Lemma wake_all_ops : forall l st, s_mops (wake_all st l) = s_mops st.
Proof.
  unfold wake_all. induction l as [|t l IH]; intros st; cbn [fold_left]; [reflexivity|].
  rewrite IH. destruct (wake_thread_comps st (Some t)) as (_&_&_&_&E). exact E.
Qed.

Lemma main_prog : forall fuel st w woken st',
  length (s_mops st) < fuel -> rings st -> awm (s_mst st) = 1 ->
  main_run fuel c st w woken = Some st' -> prog st st'.
Proof.
  induction fuel as [|f IH]; intros st w woken st' Hf HR Hm Hrun; [lia|].
  cbn [main_run] in Hrun. destruct (s_mops st) as [|op rest] eqn:Eo.
  { injection Hrun as <-. right. split; [apply weq_W; repeat split; cbn; auto|]. unfold Ast. cbn [s_mst s_ws set_main awm]. lia. }
  cbn [length] in Hf.
  assert (Park : forall X m, weq st X -> s_ws X = s_ws st -> awm m = 0 -> prog st (set_main X (s_mops st) m)).
  { intros X m E1 E2 Em. right. split.
    - rewrite <- (weq_W _ _ E1). apply weq_W. destruct E1 as (a1&a2&a3&a4). repeat split; cbn [set_main s_mops s_pt s_pw s_ws]; auto.
    - unfold Ast. cbn [s_mst s_ws set_main]. rewrite E2, Em. lia. }
  destruct op as [pp jj|kk|pp|pp|pp|tt].
  - (* MSubmit *)
    set (X := if woken then st else sub_effects c st 0 pp jj) in Hrun.
    assert (EX : weq st X /\ aeq st X /\ rings X).
    { unfold X. destruct woken; [repeat split; auto|]. destruct (weq_sub st 0 pp jj) as [A B]. split; [exact A|]. split; [exact B|].
      intros p. rewrite gp_sub. apply HR. }
    clearbody X. destruct EX as (E1 & E1a & E1r).
    destruct (submit_cs X 0 pp jj w) as [[st2 b]|] eqn:Hsub; [|discriminate].
    destruct (W_submit X 0 pp jj w st2 b E1r Hsub) as [(-> & F1 & F2)|(-> & F0 & F1)]; injection Hrun as <-.
    + rewrite <- Eo. apply Park; [eapply weq_trans; eassumption| |reflexivity].
      destruct F1 as (_&_&_&a). destruct E1 as (_&_&_&b). congruence.
    + left. rewrite (weq_W _ _ E1) in F1. destruct E1 as (E1o&_). unfold Wst in *. cbn [s_mops s_pt s_pw s_ws set_main]. rewrite F0, E1o, Eo in F1. rewrite Eo.
      change (sum_list (map opw (MSubmit pp jj :: rest))) with (1 + cost jj + sum_list (map opw rest)) in *. lia.
  - (* MRefill: continue *)
    eapply prog_after; [|eapply IH; [|..|exact Hrun]].
    + pose proof (W_ops_tail st _ rest (or_viol st (refill_conflict c st kk)) MRunnable Eo eq_refl eq_refl eq_refl). pose proof (opw_pos (MRefill kk)). lia.
    + cbn [s_mops set_main]. lia.
    + intros p. destruct (HR p) as [q R]. exists q. destruct p; exact R.
    + reflexivity.
  - (* MJobsCompleted *)
    destruct (jobs_pending (get_pool st pp)); injection Hrun as <-.
    + rewrite <- Eo. apply Park; [destruct pp; repeat split|destruct pp; reflexivity|reflexivity].
    + left. pose proof (W_ops_tail st _ rest st MRunnable Eo eq_refl eq_refl eq_refl). pose proof (opw_pos (MJobsCompleted pp)). lia.
  - (* MShutdown *)
    injection Hrun as <-. left.
    pose proof (W_ops_tail st _ rest (set_pool st pp (pool_set_shutdown (get_pool st pp))) MRunnable Eo) as H.
    pose proof (opw_pos (MShutdown pp)). destruct pp; specialize (H eq_refl eq_refl eq_refl); lia.
  - (* MBroadcast: continue *)
    set (X := wake_all (wake_all (set_pool st pp (set_pop_w (set_push_w (get_pool st pp) []) [])) (push_w (get_pool st pp))) (pop_w (get_pool st pp))) in Hrun.
    assert (WX : Wst X = Wst st) by (unfold X; rewrite !W_wake_all; apply weq_W; destruct pp; repeat split).
    eapply prog_after; [|eapply IH; [|..|exact Hrun]].
    + assert (EoX : s_mops X = s_mops st) by (unfold X; rewrite !wake_all_ops; apply ops_set_pool).
      unfold Wst in *. cbn [s_mops s_pt s_pw s_ws set_main]. rewrite EoX in WX. rewrite Eo in WX |- *.
      change (sum_list (map opw (MBroadcast pp :: rest))) with (1 + sum_list (map opw rest)) in *. lia.
    + cbn [s_mops set_main]. lia.
    + intros p. unfold X. destruct (HR p) as [q R]. exists q.
      assert (E : get_pool (set_main (wake_all (wake_all (set_pool st pp (set_pop_w (set_push_w (get_pool st pp) []) [])) (push_w (get_pool st pp))) (pop_w (get_pool st pp))) rest MRunnable) p
                  = get_pool (set_pool st pp (set_pop_w (set_push_w (get_pool st pp) []) [])) p).
      { rewrite gp_set_main, !wake_all_pools. reflexivity. }
      rewrite E, get_pool_set_pool. destruct (pid_eqb pp p) eqn:E2; [|exact R]. apply pid_eqb_eq in E2. subst p.
      eapply ring_ok_ext; [exact R|reflexivity..].
    + reflexivity.
  - (* MJoin *)
    destruct (thread_done st tt).
    + eapply prog_after; [|eapply IH; [|..|exact Hrun]].
      * pose proof (W_ops_tail st _ rest st MRunnable Eo eq_refl eq_refl eq_refl). pose proof (opw_pos (MJoin tt)). lia.
      * cbn [s_mops set_main]. lia.
      * intros p. destruct (HR p) as [q R]. exists q. destruct p; exact R.
      * reflexivity.
    + injection Hrun as <-. rewrite <- Eo. apply Park; [repeat split|reflexivity|reflexivity].
Qed.

(* ---- the step theorem *)
Definition tok (st : state) : Prop := rings st /\ Forall valid_sub (s_ws st) /\ length (s_ws st) = S (c_N c).

Theorem pstep_Phi : forall st pk st', tok st -> length (s_ws st') = S (c_N c) -> pstep c st pk = Some st' -> Phi st' < Phi st.
Proof.
  intros st [t w] st' (HR & HV & HL) HL' H. apply prog_Phi; [exact HL'|]. unfold pstep in H.
  assert (G : forall st2, prog st st2 -> prog st (next_step st2)).
  { intros st2 [P|[P1 P2]]; [left|right]; exact P || (split; [exact P1|exact P2]). }
  destruct t as [|t]; cbn [Nat.eqb] in H.
  - unfold main_step in H.
    destruct (s_mst st) eqn:Em; try discriminate;
      (destruct (main_run _ c st w _) as [st2|] eqn:E; [|discriminate]; injection H as <-; apply G;
       eapply main_prog; [| | |exact E]; [lia|exact HR|rewrite Em; reflexivity]).
  - destruct (worker_step c st (S t) w) as [st2|] eqn:E; [|discriminate]. injection H as <-. apply G.
    eapply worker_prog; [|exact HR|exact HV|exact E]. lia.
Qed.

Lemma run_Phi : forall (I : state -> Prop), (forall st, I st -> tok st) ->
  (forall st pk st', I st -> pstep c st pk = Some st' -> I st') ->
  forall sched st st', I st -> run c st sched = Some st' -> Phi st' + length sched <= Phi st.
Proof.
  intros I Ht Hs. induction sched as [|pk sched IH]; intros st st' Hi H; cbn [run] in H.
  - injection H as <-. cbn. lia.
  - destruct (pstep c st pk) as [st2|] eqn:E; [|discriminate].
    pose proof (Hs _ _ _ Hi E) as Hi2. pose proof (Ht _ Hi2) as (_ & _ & L2).
    pose proof (pstep_Phi st pk st2 (Ht _ Hi) L2 E). specialize (IH st2 st' Hi2 H). cbn [length]. lia.
Qed.
End Term.

(* ------------------------------------------------------------------ compression pipelines *)
Section TermComp.
Variable c : cfg.
Hypothesis Hcomp : is_comp c.
Hypothesis HN : 1 <= c_N c.
Hypothesis HTQ2 : 2 <= c_tdepth c.
Hypothesis HWQ : 1 <= c_wdepth c.

Definition cI (st : state) : Prop :=
  cinv c st /\ ninv c st /\ dlinv c st /\ q_size (s_pw st) = c_wdepth c + 1.

Lemma cI_tok : forall st, cI st -> tok c st.
Proof.
  intros st (Dc & _ & D & _). destruct Dc as [pos Q arrived Hops Hpos Hlen HR HB HL HT HW HC HI HQ HS HF].
  split; [|split; [|exact Hlen]].
  - intros p. exists (Q p). apply HR.
  - pose proof (d_sub _ _ _ _ _ _ _ _ D) as F. eapply Forall_impl; [|exact F].
    intros w Hw. destruct w; try exact I; cbn [sub_ok] in Hw; destruct Hw as [[k ->] ->]; cbn; discriminate.
Qed.

Lemma cI_step : forall st pk st', cI st -> pstep c st pk = Some st' -> cI st'.
Proof.
  intros st pk st' (Dc & Nv & D & Hq) E.
  destruct (pstep_d c Hcomp HN HTQ2 HWQ st pk st' Dc Nv D Hq E) as [D' Hq'].
  split; [eapply pstep_cinv; try eassumption; lia|]. split; [eapply pstep_ninv; eassumption|]. split; assumption.
Qed.

Lemma cI_init : cI (init_state c).
Proof.
  destruct (init_dlinv c Hcomp HN HTQ2 HWQ) as [D Q].
  split; [apply init_cinv; try assumption; lia|]. split; [apply init_ninv; assumption|]. split; assumption.
Qed.

(* every schedule of a compression run is at most Phi(initial state) steps long *)
Theorem comp_terminates : forall sched st, run c (init_state c) sched = Some st ->
  length sched <= Phi c (init_state c).
Proof.
  intros sched st H. pose proof (run_Phi c cI cI_tok cI_step sched _ _ cI_init H). lia.
Qed.
End TermComp.

(* ------------------------------------------------------------------ decoding pipelines *)
Section TermDec.
Variable c : cfg.
Hypothesis Hdec : is_dec c.
Hypothesis HN : c_N c = 1.
Hypothesis HTQ : 1 <= c_tdepth c.
Hypothesis HWQ : 1 <= c_wdepth c.
Hypothesis Hin : c_tdepth c + 2 <= c_NB c.
Hypothesis Hout_leg : c_kind c = DecLegacy -> c_wdepth c + 2 <= c_NB c.
Hypothesis Hout_f : c_kind c = DecLZ4F -> c_wdepth c + 2 <= c_PB c.

Lemma dinv_tok : forall st, dinv c st -> tok c st.
Proof.
  intros st [pos lo lw w1 w2 Hops Hpos Hws H1 H2 Hle1 R1 Hle2 R2 Sz1 Sz2 B1 B2 L1 L2 S1 S2 Q V].
  split; [|split].
  - intros []; cbn [get_pool]; eauto.
  - rewrite Hws. constructor; [|constructor; [|constructor]].
    + destruct w1; try exact I; cbn [w1_ok valid_sub] in *; destruct H1 as [-> Hi]; rewrite (subs_JD c lo i Hdec);
        (assert (E : (i <? cnt c lo) = true) by (apply Nat.ltb_lt; exact Hi)); rewrite E; discriminate.
    + destruct w2; try exact I; cbn [w2_ok] in H2; contradiction.
  - rewrite Hws, HN. reflexivity.
Qed.

Theorem dec_terminates : forall sched st, run c (init_state c) sched = Some st ->
  length sched <= Phi c (init_state c).
Proof.
  intros sched st H.
  pose proof (run_Phi c (dinv c) dinv_tok (pstep_dinv c Hdec HN HTQ HWQ Hin Hout_leg Hout_f) sched _ _
                (init_dinv c Hdec HN HTQ HWQ Hin Hout_leg Hout_f) H). lia.
Qed.
End TermDec.
