(* C20: the decoder side of the lz4file round trip, discharged.
   The decoder that lib/lz4file.c calls (LZ4F_getFrameInfo once, then LZ4F_decompress in the
   refill/decode loop of LZ4F_read) is instantiated with the model of lz4frame.c's decoder
   (Model/FrameD.v, block decoder = Spec.spec_decode, NULL options), and the contract that
   Proofs/FileProofs.v assumes of it is PROVED from the chunking simulation of
   Proofs/FrameDChunk.v.  See the comment at [dec_contract_open] for the one clause of the
   original [dec_contract] that no LZ4F decoder satisfies, and [fd_dec_contract_refuted]. *)
From Coq Require Import ZArith List Lia Bool Arith.
From LZ4V Require Import Spec.BlockSpec Spec.XXH32 Spec.FrameSpec Gen.Consts Model.FrameD.
From LZ4V Require Import Proofs.FrameDHeader Proofs.FrameDProofs Proofs.FrameDReuse Proofs.FrameDSound Proofs.FrameDBisim Proofs.FrameDChunk.
From LZ4V Require Import Proofs.BlockHistExt.
From LZ4V Require Import Model.FrameCSizes Model.File Proofs.FileProofs.
Import ListNotations.
Local Opaque xxh32.
Local Open Scope Z_scope.

(* ---- the instance: thin wrappers around Model.FrameD ---- *)
Definition fd_o : dopts := mkO false false false.            (* lz4file.c passes NULL options *)
(* LZ4F_getFrameInfo(dctx, &info, buf, &consumedSize): info.blockSizeID and consumedSize *)
Definition fd_info (d : dstate) (src : list byte) : fres (Z * nat) * dstate :=
  let '(d', r) := getFrameInfo spec_decode d src in
  if i_fuel r then (FOutOfFuel, d')
  else if (i_ret r <? 0)%Z then (FErr (- i_ret r)%Z, d')
  else match i_info r with
       | Some fi => (FOk (fi_blockSizeID fi, Z.to_nat (i_consumed r)), d')
       | None => (FErr C10_ERR_GENERIC, d')
       end.
(* LZ4F_decompress(dctx, dst, &dstSize = cap, src, &srcSize = |s|, NULL) *)
Definition fd_dec (d : dstate) (s : list byte) (cap : nat) : File.dres * dstate :=
  let '(d', r) := decompress spec_decode d s (Z.of_nat cap) fd_o in
  if r_fuel r then (DErr C10_ERR_GENERIC, d')
  else if (r_ret r <? 0)%Z then (DErr (- r_ret r)%Z, d')
  else (DOk (r_ret r) (Z.to_nat (r_consumed r)) (r_out r), d').

(* ---- facts about the specification ---- *)
(* bytes after a complete frame are left over *)
Lemma blocks_ext bdec sk d maxb dict x : forall F acc bs c r,
  blocks bdec sk F d maxb dict acc bs = Some (c, r) -> blocks bdec sk F d maxb dict acc (bs ++ x) = Some (c, r ++ x).
Proof.
  induction F as [|F IH]; intros acc bs c r H; [discriminate H|]. cbn [blocks] in *.
  destruct (take 4 bs) as [[szb r0]|] eqn:T; [|discriminate H]. rewrite (take_app_ext _ _ _ _ x T).
  destruct (le_val szb =? 0).
  - assert (G : forall rest, match f_csize d with
                             | Some n => if (n =? 0) || (n =? Z.of_nat (length acc)) then Some (acc, rest) else None
                             | None => Some (acc, rest) end = Some (c, r) ->
                match f_csize d with
                | Some n => if (n =? 0) || (n =? Z.of_nat (length acc)) then Some (acc, rest ++ x) else None
                | None => Some (acc, rest ++ x) end = Some (c, r ++ x)).
    { intros rest X. destruct (f_csize d) as [n|].
      - destruct ((n =? 0) || (n =? Z.of_nat (length acc)))%Z; [|discriminate X]. inversion X; reflexivity.
      - inversion X; reflexivity. }
    destruct (f_ccrc d); [|apply G; exact H].
    destruct (take 4 r0) as [[cb r1]|] eqn:T1; [|discriminate H]. rewrite (take_app_ext _ _ _ _ x T1).
    destruct (sk || (le_val cb =? xxh32 0 acc)); [|discriminate H]. apply G; exact H.
  - destruct (maxb <? le_val szb mod 2147483648)%Z; [discriminate H|].
    destruct (take (Z.to_nat (le_val szb mod 2147483648)) r0) as [[data r1]|] eqn:T1; [|discriminate H].
    rewrite (take_app_ext _ _ _ _ x T1).
    assert (G : forall rest,
       (let hist := if f_indep d then dict else lastn 65536 (dict ++ acc) in
        let content := if (2147483648 <=? le_val szb)%Z then Some data else bdec hist data in
        match content with
        | Some c0 => if (maxb <? Z.of_nat (length c0))%Z then None else blocks bdec sk F d maxb dict (acc ++ c0) rest
        | None => None end) = Some (c, r) ->
       (let hist := if f_indep d then dict else lastn 65536 (dict ++ acc) in
        let content := if (2147483648 <=? le_val szb)%Z then Some data else bdec hist data in
        match content with
        | Some c0 => if (maxb <? Z.of_nat (length c0))%Z then None else blocks bdec sk F d maxb dict (acc ++ c0) (rest ++ x)
        | None => None end) = Some (c, r ++ x)).
    { intros rest. cbv zeta.
      destruct (if (2147483648 <=? le_val szb)%Z then Some data else bdec (if f_indep d then dict else lastn 65536 (dict ++ acc)) data) as [c0|];
        [|discriminate].
      destruct (maxb <? Z.of_nat (length c0))%Z; [discriminate|]. apply IH. }
    destruct (f_bcrc d); [|apply G; exact H].
    destruct (take 4 r1) as [[cb r2]|] eqn:T2; [|discriminate H]. rewrite (take_app_ext _ _ _ _ x T2).
    destruct (sk || (le_val cb =? xxh32 0 data)); [|discriminate H]. apply G; exact H.
Qed.
Lemma frame_decode_ext bdec sk dict bs c r x :
  frame_decode bdec sk dict bs = Some (c, r) -> frame_decode bdec sk dict (bs ++ x) = Some (c, r ++ x).
Proof.
  unfold frame_decode. destruct (take 4 bs) as [[mg r0]|] eqn:T; [|discriminate]. rewrite (take_app_ext _ _ _ _ x T).
  destruct (le_val mg =? MAGIC)%Z; [|discriminate]. destruct (parse_desc r0) as [[d r1]|] eqn:PD; [|discriminate].
  rewrite (parse_desc_ext _ _ _ x PD). destruct (bsid_size (f_bsid d)); [|discriminate].
  intro H. apply (blocks_ext bdec sk d _ dict x) in H.
  eapply blocks_mono; [exact H|]. rewrite app_length. lia.
Qed.

(* a frame accepted with a stricter block decoder is accepted, with the same result, with a laxer one *)
Lemma blocks_bdec_mono (b1 b2 : list byte -> list byte -> option (list byte)) sk d maxb dict :
  (forall h blk c, b1 h blk = Some c -> b2 h blk = Some c) ->
  forall F acc bs res, blocks b1 sk F d maxb dict acc bs = Some res -> blocks b2 sk F d maxb dict acc bs = Some res.
Proof.
  intros Hb. induction F as [|F IH]; intros acc bs res H; [discriminate H|]. cbn [blocks] in *.
  destruct (take 4 bs) as [[szb r0]|]; [|discriminate H].
  destruct (le_val szb =? 0)%Z; [exact H|].
  destruct (maxb <? le_val szb mod 2147483648)%Z; [discriminate H|].
  destruct (take (Z.to_nat (le_val szb mod 2147483648)) r0) as [[data r1]|]; [|discriminate H].
  assert (G : forall rest,
       (let hist := if f_indep d then dict else lastn 65536 (dict ++ acc) in
        let content := if (2147483648 <=? le_val szb)%Z then Some data else b1 hist data in
        match content with
        | Some c0 => if (maxb <? Z.of_nat (length c0))%Z then None else blocks b1 sk F d maxb dict (acc ++ c0) rest
        | None => None end) = Some res ->
       (let hist := if f_indep d then dict else lastn 65536 (dict ++ acc) in
        let content := if (2147483648 <=? le_val szb)%Z then Some data else b2 hist data in
        match content with
        | Some c0 => if (maxb <? Z.of_nat (length c0))%Z then None else blocks b2 sk F d maxb dict (acc ++ c0) rest
        | None => None end) = Some res).
  { intros rest. cbv zeta. destruct (2147483648 <=? le_val szb)%Z.
    - destruct (maxb <? Z.of_nat (length data))%Z; [discriminate|]. apply IH.
    - destruct (b1 (if f_indep d then dict else lastn 65536 (dict ++ acc)) data) as [c0|] eqn:E; [|discriminate].
      rewrite (Hb _ _ _ E). destruct (maxb <? Z.of_nat (length c0))%Z; [discriminate|]. apply IH. }
  destruct (f_bcrc d); [|apply G; exact H].
  destruct (take 4 r1) as [[cb r2]|]; [|discriminate H].
  destruct (sk || (le_val cb =? xxh32 0 data)); [|discriminate H]. apply G; exact H.
Qed.
Lemma frame_decode_bdec_mono (b1 b2 : list byte -> list byte -> option (list byte)) sk dict bs res :
  (forall h blk c, b1 h blk = Some c -> b2 h blk = Some c) ->
  frame_decode b1 sk dict bs = Some res -> frame_decode b2 sk dict bs = Some res.
Proof.
  intros Hb. unfold frame_decode. destruct (take 4 bs) as [[mg r0]|]; [|discriminate].
  destruct (le_val mg =? MAGIC)%Z; [|discriminate]. destruct (parse_desc r0) as [[d r1]|]; [|discriminate].
  destruct (bsid_size (f_bsid d)); [|discriminate]. apply blocks_bdec_mono. exact Hb.
Qed.
Lemma frame_ok_spec F C : frame_ok F C -> frame_decode spec_decode false [] F = Some (C, []).
Proof. apply frame_decode_bdec_mono. exact strict_valid_spec_decode. Qed.

(* ---- the original contract is not satisfiable by an LZ4F decoder ---- *)
(* a 19-byte frame with a content-size field (header of 15 bytes) and empty content *)
Definition csize_frame : list byte :=
  [4; 34; 77; 24; 104; 64; 0; 0; 0; 0; 0; 0; 0; 0; header_checksum [104; 64; 0; 0; 0; 0; 0; 0; 0; 0]; 0; 0; 0; 0]%Z.
Lemma csize_frame_ok : frame_ok csize_frame [] /\ bytes_ok csize_frame = true /\ length csize_frame = 19%nat.
Proof. vm_compute. repeat split; reflexivity. Qed.
Lemma csize_frame_info11 : exists e d', fd_info dctx_init (firstn 11%nat csize_frame) = (FErr e, d') /\ e = FD_ERR_frameHeader_incomplete.
Proof. vm_compute. eexists _, _. split; reflexivity. Qed.

(* [dec_contract] asks LZ4F_getFrameInfo to succeed on the first k bytes for EVERY k >= 11; with a
   15- or 19-byte header and k = 11 .. 14/18 it must fail with frameHeader_incomplete (the model
   does, and so does the library): the clause is false of this - and of any faithful - instance.
   lz4file.c itself only ever passes min(19, file size) bytes. *)
Theorem fd_dec_contract_refuted : forall dpos, ~ dec_contract dstate dctx_init fd_info fd_dec dpos.
Proof.
  intros dpos H. destruct csize_frame_ok as (Hok & _ & _).
  destruct (H csize_frame [] Hok) as (_ & Hinfo & _).
  destruct (Hinfo 11%nat ltac:(vm_compute; lia)) as (bsid & h & d1 & Hg & _).
  destruct csize_frame_info11 as (e & d' & He & _). rewrite He in Hg. discriminate Hg.
Qed.

(* ---- the input is exhausted: the whole content has been produced and nothing is left over ---- *)
Lemma exhausted bdec skip dict q O s c r :
  CInv bdec skip dict q O s -> wf s -> SpecGoalF bdec dict q [] (c, r) -> c = O /\ r = [].
Proof.
  intros C Hwf G.
  destruct (empty_input _ _ _ _ _ _ _ C Hwf G) as (d0 & maxb0 & Hst0 & _).
  destruct C as [Hst -> -> Hrem Hh Hsk | Hst -> Hrem Hh Hsk Hp Hbp | d maxb Hst -> B HK | d maxb Hst B HK
                | d maxb t Hst B Ht Hbt HK | d maxb acc0 data1 Hst -> B Htg Hm Hx HK
                | d maxb acc0 data t Hst -> B EB Hd Hx Ht Hbt HK | d maxb n Hst B Htg Hn HK
                | d maxb n t Hst B Htg Hn Ht Hbt HK | d maxb acc0 Hst HOe B Hm HK | d maxb Hst B HK
                | d maxb t Hst B EC ER Ht Hbt HK | -> HS]; try (rewrite Hst in Hst0; discriminate Hst0).
  - apply (proj2 HK) in G. split; [eapply E_suffix_eq; exact G|].
    unfold E_suffix, fin_ok in G. destruct (f_ccrc d).
    + destruct G as (cb & r1 & T & _). simpl in T. discriminate T.
    + destruct G as (_ & G). inversion G; reflexivity.
  - destruct HS as (_ & _ & K). rewrite Hst0 in K. contradiction.
Qed.

(* how an input that agrees with the rest of the frame splits *)
Lemma agree_split (s rem x rest : list byte) :
  agree s rem -> s = x ++ rest ->
  ((length x <= length rem)%nat /\ x = firstn (length x) rem) \/ (exists e, e <> [] /\ x = rem ++ e).
Proof.
  unfold agree. intros A ->. rewrite app_length in A.
  destruct (le_lt_dec (length x) (length rem)) as [L|L].
  - left. split; [exact L|].
    apply (f_equal (firstn (length x))) in A. rewrite !firstn_firstn in A.
    replace (Nat.min (length x) (Nat.min (length x + length rest) (length rem))) with (length x) in A by lia.
    rewrite firstn_app, Nat.sub_diag, firstn_O, app_nil_r, firstn_all in A. exact A.
  - right. replace (Nat.min (length x + length rest) (length rem)) with (length rem) in A by lia.
    rewrite (firstn_all2 (n := length rem) rem) in A by lia.
    rewrite firstn_app in A. replace (length rem - length x)%nat with 0%nat in A by lia.
    rewrite firstn_O, app_nil_r in A.
    exists (skipn (length rem) x). split.
    + intro E. apply (f_equal (@length byte)) in E. rewrite skipn_length in E. simpl in E. lia.
    + rewrite <- (firstn_skipn (length rem) x) at 1. rewrite A. reflexivity.
Qed.

(* ---- where the decoder is in the file ---- *)
(* [fd_pos F d i j]: F is one frame (content C); the context has consumed the first i bytes of F and
   delivered the first j bytes of C; until the frame is over, d is related to that position by the
   chunking invariant of Proofs/FrameDChunk.v *)
Definition fd_pos (F : list byte) (d : dstate) (i j : nat) : Prop :=
  exists C, frame_decode spec_decode false [] F = Some (C, []) /\ bytes_ok F = true /\
    (i <= length F)%nat /\ (j <= length C)%nat /\ (i = length F -> j = length C) /\
    ((i < length F)%nat -> wf d /\ BInv spec_decode false [] (firstn i F) (firstn j C) d).

Lemma firstn_app_exact (a b : list byte) : firstn (length a) (a ++ b) = a.
Proof. rewrite firstn_app, Nat.sub_diag, firstn_O, app_nil_r. apply firstn_all. Qed.
Lemma skipn_app_exact' (a b : list byte) : skipn (length a) (a ++ b) = b.
Proof. rewrite skipn_app, Nat.sub_diag, skipn_all. reflexivity. Qed.
Lemma zlen_len (l : list byte) : zlen l = Z.of_nat (length l).
Proof. reflexivity. Qed.

(* one LZ4F_decompress call of LZ4F_read *)
Lemma fd_step F C d i j s cap :
  frame_decode spec_decode false [] F = Some (C, []) -> bytes_ok F = true ->
  (i < length F)%nat -> (j <= length C)%nat -> wf d -> BInv spec_decode false [] (firstn i F) (firstn j C) d ->
  s <> [] -> (1 <= cap)%nat -> agree s (skipn i F) -> bytes_ok s = true ->
  exists hint c out d',
    fd_dec d s cap = (DOk hint c out, d') /\
    (c <= Nat.min (length s) (length F - i))%nat /\ (length out <= cap)%nat /\
    out = firstn (length out) (skipn j C) /\ (1 <= c + length out)%nat /\
    fd_pos F d' (i + c) (j + length out).
Proof.
  intros HV HbF Hi Hj Hwf HB Hs Hcap Hag Hbs.
  set (p := firstn i F) in *. set (rem := skipn i F) in *.
  assert (HF : F = p ++ rem) by (symmetry; apply firstn_skipn).
  assert (Hlp : length p = i) by (unfold p; rewrite firstn_length; lia).
  assert (Hlr : length rem = (length F - i)%nat) by (unfold rem; apply skipn_length).
  assert (HlO : length (firstn j C) = j) by (rewrite firstn_length; lia).
  (* the input continues to an accepted frame *)
  assert (Hval : Valid spec_decode [] p s).
  { destruct (agree_split s rem s [] Hag ltac:(symmetry; apply app_nil_r)) as [[L E]|(e & _ & E)].
    - exists (skipn (length s) rem), (C, []). unfold SpecGoalF. rewrite E at 1. rewrite firstn_skipn, <- HF. exact HV.
    - exists [], (C, [] ++ e). unfold SpecGoalF. rewrite app_nil_r, E, app_assoc, <- HF. apply frame_decode_ext. exact HV. }
  assert (Hc0 : 0 <= Z.of_nat cap) by lia.
  pose proof (call_chunk spec_decode false [] d s (Z.of_nat cap) fd_o p (firstn j C) eq_refl Hwf HB Hbs Hc0) as CC.
  pose proof (decompress_ok spec_decode d s (Z.of_nat cap) fd_o Hwf Hc0) as (OKf & _ & OKc & _ & OKo & _ & PROG).
  pose proof (produced_out spec_decode d s (Z.of_nat cap) fd_o) as PO.
  unfold fd_dec.
  destruct (decompress spec_decode d s (Z.of_nat cap) fd_o) as [d' r]. cbn [fst snd] in *.
  destruct (CC (or_intror Hval)) as [CCn CCp]. clear CC.
  rewrite OKf.
  destruct (r_ret r <? 0) eqn:Eneg.
  { exfalso. apply Z.ltb_lt in Eneg. destruct Hval as (R & res & G). exact (CCn Eneg R res G). }
  apply Z.ltb_ge in Eneg.
  destruct (CCp Eneg) as (x & rest_s & Hsx & Hcx & Hwf' & Hend). clear CCp CCn.
  set (O' := firstn j C ++ r_out r) in *.
  (* no byte beyond the frame is consumed *)
  assert (Hx : (length x <= length rem)%nat /\ x = firstn (length x) rem).
  { destruct (agree_split s rem x rest_s Hag Hsx) as [H|(e & He & E)]; [exact H|exfalso].
    assert (G : SpecGoalF spec_decode [] (p ++ x) [] (C, [] ++ e)).
    { unfold SpecGoalF. rewrite app_nil_r, E, app_assoc, <- HF. apply frame_decode_ext. exact HV. }
    destruct (r_ret r =? 0).
    - destruct Hend as [D|(_ & _ & D7 & _)].
      + specialize (D []). unfold SpecGoal in D. unfold SpecGoalF in G. rewrite D in G. inversion G. apply He. symmetry. assumption.
      + pose proof (accepted_magic _ _ _ _ _ G) as M. rewrite app_nil_r in M. rewrite M in D7. exact (magic_not_skippable D7).
    - destruct Hend as [Cv|(Q & _)].
      + destruct (exhausted _ _ _ _ _ _ _ _ Cv Hwf' G) as [_ R]. apply He. exact R.
      + rewrite E in Q. apply (f_equal (@length byte)) in Q. rewrite !app_length in Q. simpl in Q. lia. }
  destruct Hx as [Hxl Hxe].
  set (c := length x) in *.
  assert (Hq : p ++ x = firstn (i + c) F).
  { rewrite HF at 1. rewrite <- Hlp at 1. rewrite firstn_app_2. f_equal. exact Hxe. }
  set (rem' := skipn (i + c) F).
  assert (HF' : F = (p ++ x) ++ rem') by (rewrite Hq; symmetry; apply firstn_skipn).
  assert (G' : SpecGoalF spec_decode [] (p ++ x) rem' (C, [])) by (unfold SpecGoalF; rewrite <- HF'; exact HV).
  assert (Hlr' : length rem' = (length F - (i + c))%nat) by (unfold rem'; apply skipn_length).
  assert (Hcn : Z.to_nat (r_consumed r) = c) by (rewrite Hcx, zlen_len; unfold c; lia).
  assert (Hsl : (c <= length s)%nat) by (rewrite Hsx, app_length; unfold c; lia).
  assert (Hol : (length (r_out r) <= cap)%nat) by (rewrite zlen_len in OKo; lia).
  rewrite Hcn.
  exists (r_ret r), c, (r_out r), d'. split; [reflexivity|]. split; [lia|]. split; [exact Hol|].
  (* what is delivered is the next part of the content *)
  assert (Hpre : exists y, C = O' ++ y /\ ((i + c = length F)%nat -> y = []) /\
                           ((i + c < length F)%nat -> r_ret r <> 0 /\ BInv spec_decode false [] (p ++ x) O' d')).
  { destruct (r_ret r =? 0) eqn:E0.
    - destruct Hend as [D|(_ & D6 & D7 & _)].
      + specialize (D rem'). unfold SpecGoal in D. unfold SpecGoalF in G'. rewrite D in G'. injection G' as HC Hr.
        exists []. rewrite app_nil_r. split; [symmetry; exact HC|]. split; [reflexivity|]. intro L. rewrite Hr in Hlr'. simpl in Hlr'. lia.
      + exfalso. pose proof (accepted_magic _ _ _ _ _ HV) as M. rewrite HF' in M.
        rewrite rd32_app in M by lia. rewrite M in D7. exact (magic_not_skippable D7).
    - apply Z.eqb_neq in E0. destruct Hend as [Cv|(Q1 & Q2 & Q3)].
      + destruct (CInv_prefix _ _ _ _ _ _ _ _ _ Cv G') as [y Hy]. exists y. split; [exact Hy|]. split.
        * intro L. assert (R0 : rem' = []) by (destruct rem'; [reflexivity|simpl in Hlr'; lia]).
          rewrite R0 in G'. destruct (exhausted _ _ _ _ _ _ _ _ Cv Hwf' G') as [HC _]. rewrite HC in Hy at 1.
          rewrite <- (app_nil_r O') in Hy at 1. apply app_inv_head in Hy. symmetry. exact Hy.
        * intros _. split; [exact E0|left; exact Cv].
      + exists C. unfold O'. fold O'. rewrite Q2. split; [reflexivity|]. split.
        * intro L. apply (f_equal (@length byte)) in Q1. rewrite app_length in Q1. simpl in Q1. lia.
        * intros _. split; [exact E0|]. right. auto. }
  destruct Hpre as (y & HCy & Hy0 & Hcont).
  assert (HO'len : length O' = (j + length (r_out r))%nat) by (unfold O'; rewrite app_length, HlO; reflexivity).
  assert (Hout : r_out r = firstn (length (r_out r)) (skipn j C)).
  { rewrite HCy at 1. unfold O'. rewrite <- app_assoc. rewrite <- HlO at 1. rewrite skipn_app_exact'.
    rewrite firstn_app_exact. reflexivity. }
  split; [exact Hout|].
  assert (HjC : (j + length (r_out r) <= length C)%nat).
  { rewrite HCy, app_length, HO'len. lia. }
  split.
  - (* progress *)
    destruct (Nat.eq_dec (i + c) (length F)) as [L|L]; [lia|].
    destruct (Hcont ltac:(lia)) as [E0 _].
    assert (Hs1 : 1 <= zlen s) by (rewrite zlen_len; destruct s; [contradiction|simpl length; lia]).
    destruct (PROG Hs1 ltac:(lia) eq_refl) as [P|[P|[P|P]]]; try lia.
    rewrite zlen_len in PO. lia.
  - exists C. split; [exact HV|]. split; [exact HbF|]. split; [lia|]. split; [exact HjC|]. split.
    + intro L. rewrite (Hy0 L), app_nil_r in HCy. rewrite <- HO'len. rewrite HCy. reflexivity.
    + intro L. destruct (Hcont L) as [_ HB']. split; [exact Hwf'|].
      rewrite <- Hq. replace (firstn (j + length (r_out r)) C) with O'; [exact HB'|].
      rewrite HCy, <- HO'len. symmetry. apply firstn_app_exact.
Qed.

(* ---- LZ4F_readOpen: LZ4F_getFrameInfo on the first min(19, file size) bytes ---- *)
Lemma parse_desc_consumes rest d tl :
  parse_desc rest = Some (d, tl) -> (length tl + 3 <= length rest <= length tl + 15)%nat.
Proof.
  intro H. destruct rest as [|flg [|bd r]]; try discriminate H.
  rewrite parse_desc_factor in H.
  destruct (spec_flags flg bd) as [[[[[[indep bcrc] csz] ccrc] did] bsid]|]; [|discriminate].
  destruct (take _ r) as [[cs r1]|] eqn:T1; [|discriminate].
  destruct (take _ r1) as [[di r2]|] eqn:T2; [|discriminate].
  destruct r2 as [|hc r3]; [discriminate|]. destruct (hc =? header_checksum _); [|discriminate]. inversion H; subst.
  destruct (take_length _ _ _ _ T1) as [_ L1]. destruct (take_length _ _ _ _ T2) as [_ L2].
  simpl length in *. destruct (csz =? 1); destruct (did =? 1); lia.
Qed.

Lemma bsid_buf id m : bsid_size id = Some m -> bufsize_of_bsid id <> None.
Proof.
  unfold bsid_size, bufsize_of_bsid, C10_bsid_default, C10_bsid_64KB, C10_bsid_256KB, C10_bsid_1MB, C10_bsid_4MB.
  destruct (id =? 4) eqn:E4; [apply Z.eqb_eq in E4; subst; discriminate|].
  destruct (id =? 5) eqn:E5; [apply Z.eqb_eq in E5; subst; discriminate|].
  destruct (id =? 6) eqn:E6; [apply Z.eqb_eq in E6; subst; discriminate|].
  destruct (id =? 7) eqn:E7; [apply Z.eqb_eq in E7; subst; discriminate|]. discriminate.
Qed.

Lemma fd_open F C :
  frame_decode spec_decode false [] F = Some (C, []) -> bytes_ok F = true ->
  (OPEN_MIN <= length F)%nat /\
  exists bsid h d1,
    fd_info dctx_init (firstn HEADER_MAX F) = (FOk (bsid, h), d1) /\
    (h <= Nat.min HEADER_MAX (length F))%nat /\ (h < length F)%nat /\
    bufsize_of_bsid bsid <> None /\ fd_pos F d1 h 0.
Proof.
  intros HV Hb. assert (HV0 := HV). unfold frame_decode in HV.
  destruct (take 4 F) as [[mg r0]|] eqn:T; [|discriminate HV].
  destruct (le_val mg =? MAGIC) eqn:EM; [|discriminate HV]. apply Z.eqb_eq in EM.
  destruct (parse_desc r0) as [[d r1]|] eqn:PD; [|discriminate HV].
  destruct (bsid_size (f_bsid d)) as [maxb|] eqn:EB; [|discriminate HV].
  destruct (take_length _ _ _ _ T) as [L4 _]. pose proof (take_app_split _ _ _ _ T) as HF.
  destruct mg as [|m0 [|m1 [|m2 [|m3 [|]]]]]; try (simpl in L4; lia). clear L4.
  assert (Hm : le_val [m0; m1; m2; m3] = FD_MAGICNUMBER) by (rewrite EM; reflexivity).
  destruct (parse_desc_repl _ _ _ PD) as (pre0 & Hr0 & Hrepl).
  pose proof (parse_desc_consumes _ _ _ PD) as Hlen. rewrite Hr0, app_length in Hlen.
  assert (H4 : 4 <= zlen r1) by (eapply (need_header spec_decode []); exists (S (length r1)); exact HV).
  rewrite zlen_len in H4.
  assert (HlF : length F = (4 + length pre0 + length r1)%nat) by (rewrite HF, Hr0; simpl; rewrite app_length; lia).
  assert (Hbr0 : bytes_ok r0 = true).
  { rewrite HF in Hb. unfold bytes_ok in *. simpl in Hb. do 4 (apply andb_prop in Hb; destruct Hb as [_ Hb]). exact Hb. }
  assert (Hbpre : bytes_ok pre0 = true) by (rewrite Hr0, bytes_ok_app in Hbr0; apply andb_prop in Hbr0; apply Hbr0).
  split; [unfold OPEN_MIN, LZ4F_HEADER_SIZE_MIN, C10_ENDMARK_SIZE; lia|].
  (* what LZ4F_readOpen hands to LZ4F_getFrameInfo *)
  set (g := firstn (15 - length pre0) r1).
  assert (Hsrc : firstn HEADER_MAX F = m0 :: m1 :: m2 :: m3 :: (pre0 ++ g)).
  { rewrite HF, Hr0. unfold HEADER_MAX, LZ4F_HEADER_SIZE_MAX. change (Z.to_nat 19) with 19%nat.
    change (firstn 19 ([m0; m1; m2; m3] ++ pre0 ++ r1)) with (m0 :: m1 :: m2 :: m3 :: firstn 15 (pre0 ++ r1)).
    rewrite firstn_app. rewrite (firstn_all2 (n := 15%nat) pre0) by lia. reflexivity. }
  assert (Hbg : bytes_ok (pre0 ++ g) = true).
  { rewrite bytes_ok_app, Hbpre. cbn [andb]. unfold g. apply bytes_ok_firstn.
    rewrite Hr0, bytes_ok_app in Hbr0. apply andb_prop in Hbr0. apply Hbr0. }
  destruct (getFrameInfo_header spec_decode dctx_init m0 m1 m2 m3 (pre0 ++ g) d g eq_refl Hbg Hm (Hrepl g)) as [GI HS].
  pose proof (getFrameInfo_ok spec_decode dctx_init (m0 :: m1 :: m2 :: m3 :: pre0 ++ g) wf_init) as GO.
  rewrite GI in GO. cbn [i_ret i_fuel i_consumed] in GO. destruct GO as (_ & _ & _ & GW).
  assert (Wd : wf (accept_state dctx_init d)) by (destruct GW as [GW|GW]; [unfold FD_BHSize in GW; lia|exact GW]).
  assert (Hh : headerSize false (m0 :: m1 :: m2 :: m3 :: pre0 ++ g) = Z.of_nat (4 + length pre0)).
  { rewrite HS. unfold zlen. simpl length. rewrite app_length. lia. }
  exists (f_bsid d), (4 + length pre0)%nat, (accept_state dctx_init d).
  split.
  { unfold fd_info. rewrite Hsrc, GI. cbn [i_fuel i_ret i_info i_consumed].
    replace (FD_BHSize <? 0) with false by reflexivity. rewrite Hh, Nat2Z.id.
    unfold fi_of_desc. cbn [fi_blockSizeID]. reflexivity. }
  split; [unfold HEADER_MAX, LZ4F_HEADER_SIZE_MAX; change (Z.to_nat 19) with 19%nat; lia|].
  split; [lia|]. split; [eapply bsid_buf; exact EB|].
  exists C. split; [exact HV0|]. split; [exact Hb|]. split; [lia|]. split; [lia|]. split; [intro; lia|].
  intros _. split; [exact Wd|]. left.
  (* the context is where LZ4F_decompress would be after the header *)
  set (hd := m0 :: m1 :: m2 :: m3 :: pre0).
  assert (Hhd : firstn (4 + length pre0) F = hd).
  { rewrite HF, Hr0. cbn [app Nat.add firstn]. unfold hd. do 4 f_equal. apply firstn_app_exact. }
  assert (Hbhd : bytes_ok hd = true).
  { unfold hd. rewrite HF in Hb. unfold bytes_ok in *. simpl in Hb. simpl.
    do 4 (apply andb_prop in Hb; let Hx := fresh in destruct Hb as [Hx Hb]; rewrite Hx; cbn [andb]). exact Hbpre. }
  assert (H7 : FD_minFHSize <= zlen hd) by (unfold hd, zlen, FD_minFHSize; simpl length; lia).
  pose proof (decodeHeader_iff dctx_init false m0 m1 m2 m3 pre0 Hbpre Hm H7) as DI.
  pose proof (Hrepl []) as P0. rewrite app_nil_r in P0. rewrite P0 in DI. destruct DI as [DI _].
  pose proof (accept_CInv spec_decode false [] false dctx_init hd _ _ Hbhd H7 DI) as AC.
  rewrite Hhd. rewrite <- (ztake_all (zlen hd - zlen []) hd) at 1 by (unfold zlen; simpl length; lia).
  apply AC; try reflexivity; try discriminate; try (unfold zlen; simpl length; lia); try apply accept_state_fields.
Qed.

Local Close Scope Z_scope.

(* ================================================================== the contract, as lz4file.c uses it *)
(* [dec_contract_open] is [FileProofs.dec_contract] with
   - the LZ4F_getFrameInfo clause for the one size LZ4F_readOpen passes, min(19, file size) bytes,
     instead of every k >= 11 (false of an LZ4F decoder: fd_dec_contract_refuted);
   - files and inputs that are byte strings (the model's [byte] is Z).
   It follows from [dec_contract] and is all that the read side of C20 needs (read_session_open). *)
Section OpenContract.
  Variable dst : Type.
  Variable dst0 : dst.
  Variable dGetFrameInfo : dst -> list byte -> fres (Z * nat) * dst.
  Variable dDecompress : dst -> list byte -> nat -> File.dres * dst.

  Definition dec_contract_open (dpos : list byte -> dst -> nat -> nat -> Prop) : Prop :=
    forall F C, frame_ok F C -> bytes_ok F = true ->
      (OPEN_MIN <= length F) /\
      (exists bsid h d1,
         dGetFrameInfo dst0 (firstn HEADER_MAX F) = (FOk (bsid, h), d1) /\
         h <= Nat.min HEADER_MAX (length F) /\ h < length F /\
         bufsize_of_bsid bsid <> None /\ dpos F d1 h 0) /\
      (forall d i j, dpos F d i j -> i <= length F /\ j <= length C /\ (i = length F -> j = length C)) /\
      (forall d i j s cap,
         dpos F d i j -> i < length F -> s <> [] -> 1 <= cap -> agree s (skipn i F) -> bytes_ok s = true ->
         exists hint c out d',
           dDecompress d s cap = (DOk hint c out, d') /\
           c <= Nat.min (length s) (length F - i) /\ length out <= cap /\
           out = firstn (length out) (skipn j C) /\ 1 <= c + length out /\
           dpos F d' (i + c) (j + length out)).

  Lemma dec_contract_open_of_dec_contract dpos :
    dec_contract dst dst0 dGetFrameInfo dDecompress dpos -> dec_contract_open dpos.
  Proof.
    intros H F C HF _. destruct (H F C HF) as (H1 & H2 & H3 & H4).
    split; [exact H1|]. split; [|split; [exact H3|]].
    - apply H2. unfold OPEN_MIN, HEADER_MAX. apply Z2Nat.inj_le; unfold LZ4F_HEADER_SIZE_MIN, C10_ENDMARK_SIZE, LZ4F_HEADER_SIZE_MAX; lia.
    - intros d i j s cap A B C0 D E _. exact (H4 d i j s cap A B C0 D E).
  Qed.

  (* ---- the read side of Proofs/FileProofs.v, from the contract above ---- *)
  Section ReadSideOpen.
    Variable dpos : list byte -> dst -> nat -> nat -> Prop.
    Hypothesis Hdec : dec_contract_open dpos.
    Variable F C : list byte.
    Hypothesis HF : frame_ok F C.
    Hypothesis HbF : bytes_ok F = true.

    Notation read_loop := (read_loop dst dDecompress).
    Notation fread_lz4 := (fread_lz4 dst dDecompress).
    Notation read_all := (read_all dst dDecompress).

    Definition RInvO (r : rfile dst) (i j : nat) : Prop :=
      dpos F (r_d dst r) i j /\ r_buf dst r ++ r_rest dst r = skipn i F /\ 1 <= r_max dst r.

    Lemma dpos_bounds_o : forall d i j, dpos F d i j -> i <= length F /\ j <= length C /\ (i = length F -> j = length C).
    Proof. destruct (Hdec F C HF HbF) as (_ & _ & H & _). exact H. Qed.

    Lemma refill_spec_o : forall r i j, RInvO r i j ->
      (refill dst r = None /\ i = length F) \/
      (exists r1, refill dst r = Some r1 /\ RInvO r1 i j /\ r_buf dst r1 <> [] /\ r_max dst r1 = r_max dst r /\ i < length F).
    Proof.
      intros r i j (Hd & Hb & Hm). destruct (dpos_bounds_o _ _ _ Hd) as (Hi & _).
      unfold refill. destruct (r_buf dst r) as [|x b] eqn:Eb.
      - cbn [app] in Hb. destruct (firstn (r_max dst r) (r_rest dst r)) as [|y g] eqn:Eg.
        + left. split; [reflexivity|].
          assert (Hl : length (skipn i F) = 0).
          { rewrite <- Hb. destruct (r_rest dst r) as [|z t]; [reflexivity|].
            destruct (r_max dst r); [lia|discriminate]. }
          rewrite skipn_length in Hl. lia.
        + right. eexists. split; [reflexivity|]. unfold RInvO. cbn [r_d r_buf r_rest r_max].
          rewrite <- Eg. rewrite firstn_skipn. repeat split; auto.
          * rewrite Eg. discriminate.
          * assert (Hl : 1 <= length (skipn i F)).
            { rewrite <- Hb. destruct (r_rest dst r); [rewrite firstn_nil in Eg; discriminate|cbn; lia]. }
            rewrite skipn_length in Hl. lia.
      - right. exists r. rewrite Eb. repeat split; auto; try discriminate.
        + unfold RInvO. rewrite Eb. auto.
        + assert (Hl : 1 <= length (skipn i F)) by (rewrite <- Hb; cbn; lia).
          rewrite skipn_length in Hl. lia.
    Qed.

    Lemma bytes_ok_skipn k (l : list byte) : bytes_ok l = true -> bytes_ok (skipn k l) = true.
    Proof.
      intro H. rewrite <- (firstn_skipn k l) in H. rewrite bytes_ok_app in H. apply andb_prop in H. apply H.
    Qed.

    Lemma read_loop_spec_o : forall fuel r size acc i j0,
      RInvO r i (j0 + length acc) ->
      acc = firstn (length acc) (skipn j0 C) -> length acc <= size ->
      (length F - i) + (size - length acc) <= fuel ->
      exists r' i',
        read_loop fuel r size acc = (FOk (firstn size (skipn j0 C)), r') /\
        RInvO r' i' (j0 + length (firstn size (skipn j0 C))) /\ r_max dst r' = r_max dst r.
    Proof.
      induction fuel as [|f IH]; intros r size acc i j0 Hinv Hacc Hle Hfuel.
      - cbn [File.read_loop]. destruct (Nat.ltb (length acc) size) eqn:E.
        + apply Nat.ltb_lt in E. lia.
        + apply Nat.ltb_ge in E. assert (length acc = size) by lia. subst size.
          exists r, i. rewrite <- Hacc. auto.
      - cbn [File.read_loop]. destruct (Nat.ltb (length acc) size) eqn:E.
        2:{ apply Nat.ltb_ge in E. assert (length acc = size) by lia. subst size.
            exists r, i. rewrite <- Hacc. auto. }
        apply Nat.ltb_lt in E.
        destruct (refill_spec_o r i _ Hinv) as [[Hr Hi]|(r1 & Hr & Hinv1 & Hne & Hmax & Hi)]; rewrite Hr.
        + pose proof Hinv as (Hd & _). destruct (dpos_bounds_o _ _ _ Hd) as (_ & _ & Hall). specialize (Hall Hi).
          assert (Hl : length (skipn j0 C) = length acc) by (rewrite skipn_length; lia).
          assert (Heq : firstn size (skipn j0 C) = acc).
          { rewrite (firstn_all2 (n := size)) by lia. rewrite Hacc.
            rewrite (firstn_all2 (n := length acc)) by lia. reflexivity. }
          rewrite Heq. exists r, i. auto.
        + destruct Hinv1 as (Hd1 & Hb1 & Hm1).
          destruct (Hdec F C HF HbF) as (_ & _ & _ & Hstep).
          assert (Hbb : bytes_ok (r_buf dst r1) = true).
          { pose proof (bytes_ok_skipn i F HbF) as B. rewrite <- Hb1, bytes_ok_app in B. apply andb_prop in B. apply B. }
          destruct (Hstep (r_d dst r1) i (j0 + length acc) (r_buf dst r1) (size - length acc) Hd1 Hi Hne ltac:(lia))
            as (hint & c & out & d' & Hdd & Hc & Ho & Hout & Hprog & Hd'); [|exact Hbb|].
          { unfold agree. assert (length (r_buf dst r1) <= length (skipn i F)) by (rewrite <- Hb1, app_length; lia).
            rewrite Nat.min_l by lia. rewrite <- Hb1. rewrite firstn_app, Nat.sub_diag, firstn_O, app_nil_r. reflexivity. }
          rewrite Hdd.
          destruct (IH (File.mkR dst d' (r_rest dst r1) (skipn c (r_buf dst r1)) (r_max dst r1)) size (acc ++ out) (i + c) j0)
            as (r' & i' & Hl & Hinv' & Hmax').
          * unfold RInvO. cbn [r_d r_buf r_rest r_max]. rewrite app_length. rewrite Nat.add_assoc.
            split; [exact Hd'|]. split; [|exact Hm1].
            rewrite <- skipn_skipn'. rewrite <- Hb1. rewrite skipn_app.
            replace (c - length (r_buf dst r1)) with 0 by lia. reflexivity.
          * rewrite app_length. rewrite firstn_add. rewrite <- Hacc.
            rewrite skipn_skipn'. rewrite <- Hout. reflexivity.
          * rewrite app_length. lia.
          * rewrite app_length. lia.
          * exists r', i'. split; [exact Hl|]. split; [exact Hinv'|]. cbn [r_max] in Hmax'. congruence.
    Qed.

    Lemma fread_spec_o : forall r i j size, RInvO r i j ->
      exists r' i',
        fread_lz4 r size = (FOk (firstn size (skipn j C)), r') /\
        RInvO r' i' (j + length (firstn size (skipn j C))).
    Proof.
      intros r i j size Hinv. unfold File.fread_lz4.
      destruct (read_loop_spec_o (length (r_rest dst r) + length (r_buf dst r) + size + 1) r size [] i j)
        as (r' & i' & H1 & H2 & _); cbn [length]; auto; try lia.
      - rewrite Nat.add_0_r. exact Hinv.
      - destruct Hinv as (_ & Hb & _).
        assert (length (skipn i F) = length (r_buf dst r) + length (r_rest dst r)) by (rewrite <- Hb, app_length; reflexivity).
        rewrite skipn_length in H. lia.
      - eauto.
    Qed.

    Lemma read_all_spec_o : forall sizes r i j, RInvO r i j ->
      read_all r sizes = chop (skipn j C) sizes.
    Proof.
      induction sizes as [|s rest IH]; intros r i j Hinv; [reflexivity|].
      cbn [File.read_all chop].
      destruct (fread_spec_o r i j s Hinv) as (r' & i' & Hf & Hinv').
      rewrite Hf. f_equal. rewrite (IH r' i' _ Hinv'). f_equal.
      rewrite firstn_length, <- skipn_skipn'.
      destruct (Nat.le_ge_cases s (length (skipn j C))) as [H|H].
      - rewrite Nat.min_l by lia. reflexivity.
      - rewrite Nat.min_r by lia. rewrite skipn_all. rewrite skipn_all2 by lia. reflexivity.
    Qed.

    Lemma readOpen_spec_o : forall junk,
      exists r h, readOpen dst dst0 dGetFrameInfo true junk F = FOk r /\ RInvO r h 0.
    Proof.
      intros junk. destruct (Hdec F C HF HbF) as (Hlen & Hinfo & _).
      destruct Hinfo as (bsid & h & d1 & Hg & Hh & Hhl & Hbs & Hd).
      unfold readOpen. rewrite firstn_length.
      destruct (Nat.ltb (Nat.min HEADER_MAX (length F)) OPEN_MIN) eqn:E.
      { apply Nat.ltb_lt in E.
        assert (Hmm : OPEN_MIN <= HEADER_MAX).
        { unfold OPEN_MIN, HEADER_MAX. apply Z2Nat.inj_le; unfold LZ4F_HEADER_SIZE_MIN, C10_ENDMARK_SIZE, LZ4F_HEADER_SIZE_MAX; lia. }
        lia. }
      rewrite Hg. destruct (bufsize_of_bsid bsid) as [m|] eqn:Em; [|congruence].
      eexists _, h. split; [reflexivity|]. unfold RInvO. cbn [r_d r_buf r_rest r_max].
      split; [exact Hd|]. split; [apply skipn_firstn_rest; exact Hh|]. eapply bufsize_pos; eauto.
    Qed.

    Lemma read_session_open : forall junk sizes,
      read_session dst dst0 dGetFrameInfo dDecompress true junk F sizes = FOk (chop C sizes).
    Proof.
      intros junk sizes. unfold read_session. destruct (readOpen_spec_o junk) as (r & h & Ho & Hinv).
      rewrite Ho. rewrite (read_all_spec_o sizes r h 0 Hinv). reflexivity.
    Qed.
  End ReadSideOpen.
End OpenContract.

(* ================================================================== the FrameD instance satisfies it *)
Theorem fd_dec_contract_open : dec_contract_open dstate dctx_init fd_info fd_dec fd_pos.
Proof.
  intros F C HF HbF. pose proof (frame_ok_spec F C HF) as HV.
  destruct (fd_open F C HV HbF) as (Hmin & Hinfo).
  split; [exact Hmin|]. split; [exact Hinfo|]. split.
  - intros d i j (C' & HV' & _ & Hi & Hj & Hend & _). rewrite HV in HV'. inversion HV'; subst C'. auto.
  - intros d i j s cap (C' & HV' & _ & Hi & Hj & Hend & Hrun) Hlt Hs Hcap Hag Hbs.
    rewrite HV in HV'. inversion HV'; subst C'. destruct (Hrun Hlt) as [Hwf HB].
    exact (fd_step F C d i j s cap HV HbF Hlt Hj Hwf HB Hs Hcap Hag Hbs).
Qed.

(* ================================================================== round trip, decoder side discharged *)
Section RoundTrip.
  Variable cst : Type.
  Variable cst0 : cst.
  Variable cBegin : cst -> option prefs -> Z -> fres (list byte) * cst.
  Variable cUpdate : cst -> list byte -> Z -> fres (list byte) * cst.
  Variable cEnd : cst -> Z -> fres (list byte) * cst.

  (* the compressor hands byte strings to fwrite when it is given byte strings (a typing fact of the
     C code; in the models a byte is a Z) *)
  Definition comp_writes_bytes : Prop :=
    forall po bufs file,
      write_session cst cst0 cBegin cUpdate cEnd po bufs = (FOk (map (fun b => FOk (length b)) bufs), file) ->
      bytes_ok (concat bufs) = true -> bytes_ok file = true.

  (* C20_roundtrip for ANY decoder meeting the contract as lz4file.c uses it *)
  Theorem roundtrip_open : forall dst dst0 dGetFrameInfo dDecompress dpos,
    comp_contract cst cst0 cBegin cUpdate cEnd -> comp_writes_bytes ->
    dec_contract_open dst dst0 dGetFrameInfo dDecompress dpos ->
    forall po mw bufs sizes junk,
      maxWrite_of po = Some mw -> FileProofs.csize_ok po (concat bufs) -> bytes_ok (concat bufs) = true ->
      exists file,
        write_session cst cst0 cBegin cUpdate cEnd po bufs = (FOk (map (fun b => FOk (length b)) bufs), file) /\
        frame_ok file (concat bufs) /\
        read_session dst dst0 dGetFrameInfo dDecompress true junk file sizes = FOk (chop (concat bufs) sizes).
  Proof.
    intros dst dst0 dGetFrameInfo dDecompress dpos Hc Hcb Hd po mw bufs sizes junk Hmw Hcs Hbb.
    destruct (write_session_ok cst cst0 cBegin cUpdate cEnd Hc po mw bufs Hmw Hcs) as (file & Hw & Hf).
    exists file. split; [exact Hw|]. split; [exact Hf|].
    apply (read_session_open dst dst0 dGetFrameInfo dDecompress dpos Hd file (concat bufs) Hf).
    exact (Hcb po bufs file Hw Hbb).
  Qed.

  (* ... and for the decoder of lz4frame.c (Model/FrameD.v): no assumption on the decoder left *)
  Theorem roundtrip_dec_discharged :
    comp_contract cst cst0 cBegin cUpdate cEnd -> comp_writes_bytes ->
    forall po mw bufs sizes junk,
      maxWrite_of po = Some mw -> FileProofs.csize_ok po (concat bufs) -> bytes_ok (concat bufs) = true ->
      exists file,
        write_session cst cst0 cBegin cUpdate cEnd po bufs = (FOk (map (fun b => FOk (length b)) bufs), file) /\
        frame_ok file (concat bufs) /\
        read_session dstate dctx_init fd_info fd_dec true junk file sizes = FOk (chop (concat bufs) sizes).
  Proof.
    intros Hc Hcb. exact (roundtrip_open dstate dctx_init fd_info fd_dec fd_pos Hc Hcb fd_dec_contract_open).
  Qed.
End RoundTrip.

(* the read side alone: ANY file that is one frame (of bytes) is read back through the model of
   lz4frame.c's decoder exactly as [chop] says, for all read sizes and whatever LZ4F_readOpen's
   stack holds *)
Theorem read_session_framed : forall F C junk sizes,
  frame_ok F C -> bytes_ok F = true ->
  read_session dstate dctx_init fd_info fd_dec true junk F sizes = FOk (chop C sizes).
Proof.
  intros F C junk sizes HF Hb.
  exact (read_session_open dstate dctx_init fd_info fd_dec fd_pos fd_dec_contract_open F C HF Hb junk sizes).
Qed.
