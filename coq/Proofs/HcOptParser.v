(* Soundness, capacity and fuel adequacy of the optimal parser model (Model.HcOpt.opt_compress, HC levels 10-12).
   Optimality of the parse is irrelevant here.  What matters:
   - every opt[k] (k <= last_match_pos + TRAILING_LITERALS) is a literal (mlen == 1) or describes a VERIFIED
     match ENDING at k (a prefix of a match returned by LZ4HC_FindLongerMatch at position k - mlen);
   - the backward traversal turns the chain of "ending at" entries from last_match_pos down to 0 into "starting at"
     entries, and stops exactly at position 0;
   - the forward emission loop therefore only encodes verified matches (or sub-ranges), at increasing positions;
   - the table never holds more than LZ4_OPT_NUM positions, every loop ends within its fuel, and the main loop
     advances.
   The three epilogues and the emitter are shared with the hash-chain parser (Proofs.HcChainSound / HcChainCap). *)
From Coq Require Import ZArith List Lia Bool ZifyBool.
From LZ4V Require Import Gen.Consts Spec.BlockSpec Model.Mem Model.Fast Model.HcEmit Model.HcMid Model.HcChain Model.HcOpt.
From LZ4V Require Import Proofs.BlockSpecProofs Proofs.FactorSpec Proofs.FastBasics Proofs.FastCap Proofs.HcEmitProofs.
From LZ4V Require Import Proofs.HcMidSound Proofs.HcMidCap Proofs.HcChainSearch Proofs.HcChainSound Proofs.HcChainCap Proofs.HcChainFill Proofs.HcChainParser.
Import ListNotations.
Local Open Scope Z_scope.

(* ---- reading the table after a write ---- *)
Lemma omlen_oset o k p f m l j : omlen (oset o k p f m l) j = if k =? j then m else omlen o j.
Proof. unfold omlen, oset. cbn [o_mlen]. apply get_set. Qed.
Lemma ooff_oset o k p f m l j : ooff (oset o k p f m l) j = if k =? j then f else ooff o j.
Proof. unfold ooff, oset. cbn [o_off]. apply get_set. Qed.
Lemma omlen_oset_mo o k m f j : omlen (oset_mo o k m f) j = if k =? j then m else omlen o j.
Proof. unfold omlen, oset_mo. cbn [o_mlen]. apply get_set. Qed.
Lemma ooff_oset_mo o k m f j : ooff (oset_mo o k m f) j = if k =? j then f else ooff o j.
Proof. unfold ooff, oset_mo. cbn [o_off]. apply get_set. Qed.

Section OptProof.
  Variable vrd : Z -> Z.
  Variable lim : outdir.
  Variables prefixIdx dictIdx s0 srcSize maxOut nb suff0 : Z.
  Variables full fav : bool.
  Hypothesis Hb : forall a, 0 <= vrd a < 256.
  Hypothesis Hidx : 65536 <= dictIdx /\ dictIdx <= prefixIdx /\ prefixIdx <= s0 /\ s0 + srcSize < M32 - 65536.
  Hypothesis Hsz : 0 <= srcSize.
  Hypothesis Hmo : 0 <= maxOut.
  Hypothesis Hfill : lim = FillOutput -> 1 <= maxOut.

  Notation iend := (hc_iend s0 srcSize).
  Notation mflimit := (hc_mflimit s0 srcSize).
  Notation matchlimit := (hc_matchlimit s0 srcSize).
  Notation lo := dictIdx.
  Notation oes := (coe lim maxOut).
  Notation Base := (Base vrd dictIdx s0 srcSize).
  Notation CInv := (CInv lim s0 srcSize maxOut).
  Notation ROK := (ROK vrd lim dictIdx s0 srcSize maxOut).
  Notation suff := (sufficient_len suff0).

  Lemma olimits : mflimit = iend - 12 /\ matchlimit = iend - 5 /\ iend = s0 + srcSize.
  Proof. unfold hc_mflimit, hc_matchlimit, hc_iend, MFLIMIT, LASTLITERALS. lia. Qed.

  Lemma Hidx2' : 65536 <= dictIdx /\ dictIdx <= prefixIdx.
  Proof. lia. Qed.

  (* wrappers of the shared lemmas *)
  Lemma oenc_ok s ml off :
    Base s -> CInv s -> c_ip s <= mflimit -> match_ok vrd lo (c_ip s) off ml -> c_ip s + ml <= matchlimit ->
    TB (c_tabs s) iend ->
    match c_encode vrd lim s0 srcSize s ml off oes with
    | inl s' => Base s' /\ CInv s' /\ c_ip s' = c_ip s + ml /\ c_anchor s' = c_ip s + ml /\ c_tabs s' = c_tabs s
    | inr r => ROK r
    end.
  Proof. intros. apply (enc_ok vrd lim prefixIdx dictIdx s0 srcSize maxOut); assumption. Qed.

  Lemma oll_ok s : Base s -> CInv s -> TB (c_tabs s) iend ->
    ROK (c_last_literals vrd lim s0 srcSize s maxOut).
  Proof. intros. apply (ll_ok vrd lim prefixIdx dictIdx s0 srcSize maxOut); assumption. Qed.

  (* ---- LZ4HC_FindLongerMatch ---- *)
  Lemma findLongerMatch_spec t B q minLen :
    TB t B -> B <= q -> prefixIdx <= q -> q <= mflimit -> 1 <= minLen ->
    exists m t', findLongerMatch vrd prefixIdx dictIdx nb fav t q matchlimit minLen = Some (m, t') /\
      TB t' q /\
      (hm_len m = 0 \/ (4 <= hm_len m /\ match_ok vrd lo q (hm_off m) (hm_len m) /\ q + hm_len m <= matchlimit)).
  Proof.
    intros HT HB Hp Hq Hm. pose proof olimits as (L1 & L2 & L3). unfold findLongerMatch.
    destruct (wider_sound_gen vrd Hb prefixIdx dictIdx Hidx2' t B q q matchlimit minLen nb true true fav HT HB Hp
                ltac:(lia) ltac:(lia) ltac:(unfold M32 in *; lia)) as (m & t' & Hs & HT' & Hn & Hl & Hv).
    rewrite Hs.
    destruct (hm_len m <=? minLen) eqn:E.
    - exists nomatch, t'. split; [reflexivity|]. split; [exact HT'|]. left. reflexivity.
    - destruct (Hv ltac:(lia)) as (V1 & V2 & V3 & V4 & V5).
      assert (Hb0 : hm_back m = 0) by lia. rewrite Hb0, Z.add_0_r in *.
      destruct (fav && (hm_len m >? 18) && (hm_len m <=? 36)) eqn:E2.
      + exists (set_len m 18), t'. split; [reflexivity|]. split; [exact HT'|]. right.
        unfold set_len. cbn [hm_len hm_off]. split; [lia|]. split; [|lia].
        eapply match_ok_shorten; [exact V1 | lia].
      + exists m, t'. split; [reflexivity|]. split; [exact HT'|]. right.
        split; [lia|]. split; [exact V1 | lia].
  Qed.

  (* ---- the table: entries describe segments ENDING at their index ---- *)
  Definition EndOK (o : otab) (ip0 k : Z) : Prop :=
    omlen o k = 1 \/
    (4 <= omlen o k <= k /\ match_ok vrd lo (ip0 + k - omlen o k) (ooff o k) (omlen o k) /\
     ip0 + k <= matchlimit /\ ip0 + k - omlen o k <= mflimit).
  Definition OInv (o : otab) (ip0 hi : Z) : Prop := forall k, 0 <= k <= hi -> EndOK o ip0 k.

  Lemma EndOK_oset_other o ip0 k pos p f m l : pos <> k -> EndOK o ip0 k -> EndOK (oset o pos p f m l) ip0 k.
  Proof.
    intros Hne H. unfold EndOK in *. rewrite omlen_oset, ooff_oset.
    destruct (pos =? k) eqn:E; [lia | exact H].
  Qed.

  Lemma EndOK_oset_lit o ip0 pos p l : EndOK (oset o pos p 0 1 l) ip0 pos.
  Proof. left. rewrite omlen_oset, Z.eqb_refl. reflexivity. Qed.

  Lemma EndOK_oset_match o ip0 pos p f m l :
    4 <= m <= pos -> match_ok vrd lo (ip0 + pos - m) f m -> ip0 + pos <= matchlimit -> ip0 + pos - m <= mflimit ->
    EndOK (oset o pos p f m l) ip0 pos.
  Proof.
    intros H1 H2 H3 H4. right. rewrite omlen_oset, ooff_oset, Z.eqb_refl.
    split; [exact H1|]. split; [exact H2|]. split; assumption.
  Qed.

  (* writing a literal anywhere keeps the invariant on any range *)
  Lemma OInv_oset_lit o ip0 hi pos p l : OInv o ip0 hi -> OInv (oset o pos p 0 1 l) ip0 hi.
  Proof.
    intros H k Hk. destruct (Z.eq_dec pos k) as [->|Hne]; [apply EndOK_oset_lit | apply EndOK_oset_other; [exact Hne | apply H; exact Hk]].
  Qed.

  (* entries a <= k < b are fine *)
  Definition RG (o : otab) (ip0 a b : Z) : Prop := forall k, a <= k < b -> EndOK o ip0 k.

  Lemma RG_oset_lit o ip0 a b pos p l : RG o ip0 a b -> RG (oset o pos p 0 1 l) ip0 a b.
  Proof.
    intros H k Hk. destruct (Z.eq_dec pos k) as [->|Hne]; [apply EndOK_oset_lit | apply EndOK_oset_other; [exact Hne | apply H; exact Hk]].
  Qed.

  Lemma RG_snoc_lit o ip0 a b p l : RG o ip0 a b -> RG (oset o b p 0 1 l) ip0 a (b + 1).
  Proof.
    intros H k Hk. destruct (Z.eq_dec b k) as [->|Hne]; [apply EndOK_oset_lit | apply EndOK_oset_other; [exact Hne | apply H; lia]].
  Qed.

  Lemma opt_init_lits_spec : forall n o llen r ip0, RG o ip0 0 r ->
    RG (opt_init_lits n o llen r) ip0 0 (r + Z.of_nat n).
  Proof.
    induction n as [|n IH]; intros o llen r ip0 HR; cbn [opt_init_lits].
    - replace (r + Z.of_nat 0) with r by lia. exact HR.
    - replace (r + Z.of_nat (S n)) with (r + 1 + Z.of_nat n) by lia. apply IH. apply RG_snoc_lit. exact HR.
  Qed.

  Lemma opt_init_match_spec ip0 off ML : match_ok vrd lo ip0 off ML -> ip0 + ML <= matchlimit -> ip0 <= mflimit ->
    forall n o llen mlen, 4 <= mlen -> mlen + Z.of_nat n - 1 <= ML -> RG o ip0 0 mlen ->
    RG (opt_init_match n o llen off mlen) ip0 0 (mlen + Z.of_nat n).
  Proof.
    intros Hm Hml Hip. induction n as [|n IH]; intros o llen mlen H4 Hle HR; cbn [opt_init_match].
    - replace (mlen + Z.of_nat 0) with mlen by lia. exact HR.
    - replace (mlen + Z.of_nat (S n)) with (mlen + 1 + Z.of_nat n) by lia. apply IH; [lia | lia|].
      intros k Hk. destruct (Z.eq_dec mlen k) as [<-|Hne]; [|apply EndOK_oset_other; [exact Hne | apply HR; lia]].
      apply EndOK_oset_match; [lia | | lia | lia].
      replace (ip0 + mlen - mlen) with ip0 by lia. eapply match_ok_shorten; [exact Hm | lia].
  Qed.

  Lemma opt_trailing_spec : forall n o lmp a ip0, RG o ip0 0 (lmp + a) ->
    RG (opt_trailing n o lmp a) ip0 0 (lmp + a + Z.of_nat n).
  Proof.
    induction n as [|n IH]; intros o lmp a ip0 HR; cbn [opt_trailing].
    - replace (lmp + a + Z.of_nat 0) with (lmp + a) by lia. exact HR.
    - replace (lmp + a + Z.of_nat (S n)) with (lmp + (a + 1) + Z.of_nat n) by lia. apply IH.
      replace (lmp + (a + 1)) with (lmp + a + 1) by lia. apply RG_snoc_lit. exact HR.
  Qed.

  Lemma dp_lits_spec : forall n o cur base litlen ip0 b, RG o ip0 0 b -> RG (dp_lits n o cur base litlen) ip0 0 b.
  Proof.
    induction n as [|n IH]; intros o cur base litlen ip0 b HR; cbn [dp_lits]; cbv zeta; [exact HR|].
    apply IH. destruct (_ <? _); [apply RG_oset_lit; exact HR | exact HR].
  Qed.

  (* "set prices using match at position = cur" *)
  Lemma dp_match_spec ip0 cur off ML : 1 <= cur -> match_ok vrd lo (ip0 + cur) off ML -> ip0 + cur + ML <= matchlimit ->
    ip0 + cur <= mflimit ->
    forall n o lmp ml, 4 <= ml -> ml + Z.of_nat n - 1 = ML -> RG o ip0 0 (Z.max (lmp + 4) (cur + ml)) ->
    let r := dp_match fav n o cur lmp ML off ml in
    RG (fst r) ip0 0 (Z.max (lmp + 4) (cur + ML + 1)) /\ (snd r = lmp \/ (snd r = cur + ML /\ lmp < cur + ML)).
  Proof.
    intros Hc Hm Hml Hip. induction n as [|n IH]; intros o lmp ml H4 Hn HR; cbn [dp_match]; cbv zeta.
    - cbn [fst snd]. split; [|left; reflexivity]. replace (cur + ML + 1) with (cur + ml) by lia. exact HR.
    - set (pos := cur + ml).
      destruct (if omlen o cur =? 1 then _ else _) as [ll pr].
      destruct ((pos >? lmp + HC_TRAILING_LITERALS) || (pr <=? price o pos - favZ fav)) eqn:Ew.
      + (* written *)
        assert (HR1 : RG (oset o pos pr off ml ll) ip0 0 (Z.max (lmp + 4) (cur + (ml + 1)))).
        { intros k Hk. destruct (Z.eq_dec pos k) as [<-|Hne]; [|apply EndOK_oset_other; [exact Hne | apply HR; subst pos; lia]].
          apply EndOK_oset_match; [subst pos; lia | | subst pos; lia | subst pos; lia].
          replace (ip0 + pos - ml) with (ip0 + cur) by (subst pos; lia). eapply match_ok_shorten; [exact Hm | lia]. }
        destruct n as [|n'].
        * (* last position of the match *)
          cbn [dp_match fst snd]. assert (Eml : ml = ML) by lia.
          split; [replace (cur + ML + 1) with (cur + (ml + 1)) by lia; exact HR1|].
          destruct ((ml =? ML) && (lmp <? pos)) eqn:E2; [right; subst pos; lia | left; reflexivity].
        * replace ((ml =? ML) && (lmp <? pos)) with false by lia.
          apply IH; [lia | lia | exact HR1].
      + (* not written: pos <= lmp + TRAILING_LITERALS *)
        assert (Hpos : pos <= lmp + 3) by (unfold HC_TRAILING_LITERALS in Ew; lia).
        assert (HR1 : RG o ip0 0 (Z.max (lmp + 4) (cur + (ml + 1)))).
        { intros k Hk. apply HR. subst pos. lia. }
        destruct n as [|n'].
        * cbn [dp_match fst snd]. split; [replace (cur + ML + 1) with (cur + (ml + 1)) by lia; exact HR1 | left; reflexivity].
        * apply IH; [lia | lia | exact HR1].
  Qed.

  Lemma suff_lt : suff < HC_OPT_NUM.
  Proof. unfold sufficient_len. destruct (suff0 >=? HC_OPT_NUM) eqn:E; lia. Qed.

  (* ---- one iteration of the `for (cur ...)` loop ---- *)
  Lemma dp_body_spec o t ip0 cur lmp :
    RG o ip0 0 (lmp + 4) -> 1 <= cur < lmp -> lmp < HC_OPT_NUM -> TB t (ip0 + cur) -> ip0 + lmp <= matchlimit -> prefixIdx <= ip0 ->
    match dp_body vrd prefixIdx dictIdx s0 srcSize nb suff0 full fav o t ip0 cur lmp with
    | DCont o' lmp' t' => RG o' ip0 0 (lmp' + 4) /\ lmp <= lmp' < HC_OPT_NUM /\ TB t' (ip0 + cur + 1) /\ ip0 + lmp' <= matchlimit
    | DBreak => True
    | DEncode t' bm bo => TB t' (ip0 + cur + 1) /\ 4 <= bm /\ match_ok vrd lo (ip0 + cur) bo bm /\
                          ip0 + cur + bm <= matchlimit /\ ip0 + cur <= mflimit
    | DUndef => False
    end.
  Proof.
    intros HR Hc Hl HT Hml Hp. unfold dp_body. cbv zeta.
    destruct (ip0 + cur >? mflimit) eqn:Emf; [exact I|].
    assert (Same : forall t', TB t' (ip0 + cur) -> RG o ip0 0 (lmp + 4) /\ lmp <= lmp < HC_OPT_NUM /\ TB t' (ip0 + cur + 1) /\ ip0 + lmp <= matchlimit).
    { intros t' Ht'. split; [exact HR|]. split; [lia|]. split; [eapply TB_mono; eauto; lia | exact Hml]. }
    destruct (if full then _ else _); [apply Same; exact HT|].
    destruct (findLongerMatch_spec t (ip0 + cur) (ip0 + cur) (if full then MINMATCH - 1 else lmp - cur) HT ltac:(lia) ltac:(lia) ltac:(lia)
                ltac:(unfold MINMATCH; destruct full; lia)) as (nm & t' & Hs & HT' & Hnm).
    rewrite Hs. destruct (hm_len nm =? 0) eqn:E0; [apply Same; exact HT'|].
    destruct Hnm as [Hz|(N4 & Nm & Nl)]; [lia|].
    destruct ((hm_len nm >? suff) || (hm_len nm + cur >=? HC_OPT_NUM)) eqn:Eenc.
    - split; [eapply TB_mono; eauto; lia|]. split; [exact N4|]. split; [exact Nm|]. split; lia.
    - pose proof (dp_lits_spec (Z.to_nat (MINMATCH - 1)) o cur (olitlen o cur) 1 ip0 (lmp + 4) HR) as H1.
      set (o1 := dp_lits (Z.to_nat (MINMATCH - 1)) o cur (olitlen o cur) 1) in *.
      pose proof (dp_match_spec ip0 cur (hm_off nm) (hm_len nm) ltac:(lia) Nm ltac:(lia) ltac:(lia)
                    (Z.to_nat (hm_len nm - MINMATCH + 1)) o1 lmp MINMATCH ltac:(unfold MINMATCH; lia) ltac:(unfold MINMATCH; lia)) as H2.
      cbv zeta in H2.
      assert (HR1 : RG o1 ip0 0 (Z.max (lmp + 4) (cur + MINMATCH))).
      { intros k Hk. apply H1. unfold MINMATCH in *. lia. }
      specialize (H2 HR1).
      destruct (dp_match fav (Z.to_nat (hm_len nm - MINMATCH + 1)) o1 cur lmp (hm_len nm) (hm_off nm) MINMATCH) as [o2 lmp2].
      cbn [fst snd] in H2. destruct H2 as (H2a & H2b).
      assert (Hl2 : lmp <= lmp2 < HC_OPT_NUM /\ ip0 + lmp2 <= matchlimit /\ lmp2 + 1 <= Z.max (lmp + 4) (cur + hm_len nm + 1)) by lia.
      destruct Hl2 as (La & Lb & Lc).
      split; [|split; [exact La | split; [eapply TB_mono; eauto; lia | exact Lb]]].
      unfold HC_TRAILING_LITERALS. change (Z.to_nat 3) with 3%nat.
      replace (lmp2 + 4) with (lmp2 + 1 + Z.of_nat 3) by lia.
      apply opt_trailing_spec. intros k Hk. apply H2a. lia.
  Qed.

  Lemma dp_loop_spec ip0 : prefixIdx <= ip0 -> forall fuel o t cur lmp,
    RG o ip0 0 (lmp + 4) -> 1 <= cur <= lmp -> lmp < HC_OPT_NUM -> TB t (ip0 + cur) -> ip0 + lmp <= matchlimit ->
    HC_OPT_NUM - cur <= Z.of_nat fuel ->
    match dp_loop vrd prefixIdx dictIdx s0 srcSize nb suff0 full fav fuel o t ip0 cur lmp with
    | FDone o' t' lmp' => RG o' ip0 0 (lmp' + 4) /\ 1 <= lmp' < HC_OPT_NUM /\ TB t' (ip0 + lmp') /\ ip0 + lmp' <= matchlimit
    | FEncode o' t' cur' bm bo => RG o' ip0 0 (cur' + 1) /\ 1 <= cur' /\ ip0 + cur' + 1 <= matchlimit /\
                                  TB t' (ip0 + cur' + 1) /\ 4 <= bm /\ match_ok vrd lo (ip0 + cur') bo bm /\
                                  ip0 + cur' + bm <= matchlimit /\ ip0 + cur' <= mflimit
    | FUndef => False
    end.
  Proof.
    intros Hp. induction fuel as [|f IH]; intros o t cur lmp HR Hc Hl HT Hml Hf; [lia|].
    cbn [dp_loop]. destruct (cur <? lmp) eqn:E.
    - pose proof (dp_body_spec o t ip0 cur lmp HR ltac:(lia) Hl HT Hml Hp) as HB.
      destruct (dp_body vrd prefixIdx dictIdx s0 srcSize nb suff0 full fav o t ip0 cur lmp) as [o' lmp' t'| |t' bm bo|].
      + destruct HB as (B1 & B2 & B3 & B4). apply IH; try assumption; try lia.
        replace (ip0 + (cur + 1)) with (ip0 + cur + 1) by lia. exact B3.
      + split; [exact HR|]. split; [lia|]. split; [eapply TB_mono; eauto; lia | exact Hml].
      + destruct HB as (B1 & B2 & B3 & B4 & B5).
        split; [intros k Hk; apply HR; lia|]. split; [lia|]. split; [lia|].
        split; [exact B1|]. split; [exact B2|]. split; [exact B3|]. split; assumption.
      + contradiction.
    - split; [exact HR|]. split; [lia|]. split; [eapply TB_mono; eauto; lia | exact Hml].
  Qed.

  (* ---- backward traversal and forward emission ---- *)
  (* a segment STARTING at position p *)
  Definition SegOK (ip0 p ml off : Z) : Prop :=
    ml = 1 \/ (4 <= ml /\ match_ok vrd lo (ip0 + p) off ml /\ ip0 + p + ml <= matchlimit /\ ip0 + p <= mflimit).

  (* from position p on, the table describes segments starting at their index, up to lmp *)
  Inductive Good (o : otab) (ip0 lmp : Z) : Z -> Prop :=
  | G_end p : lmp <= p -> Good o ip0 lmp p
  | G_seg p : p < lmp -> SegOK ip0 p (omlen o p) (ooff o p) -> Good o ip0 lmp (p + omlen o p) -> Good o ip0 lmp p.

  Lemma SegOK_pos ip0 p ml off : SegOK ip0 p ml off -> 1 <= ml.
  Proof. intros [->|(H & _)]; lia. Qed.

  Lemma Good_frame o o' ip0 lmp p : Good o ip0 lmp p ->
    (forall k, p <= k -> omlen o' k = omlen o k /\ ooff o' k = ooff o k) -> Good o' ip0 lmp p.
  Proof.
    intros HG. induction HG as [p Hp | p Hp Hs HG IH]; intros Hf.
    - apply G_end. exact Hp.
    - destruct (Hf p ltac:(lia)) as (F1 & F2). pose proof (SegOK_pos _ _ _ _ Hs) as H1.
      apply G_seg; [exact Hp | rewrite F1, F2; exact Hs|].
      rewrite F1. apply IH. intros k Hk. apply Hf. lia.
  Qed.

  Lemma traverse_spec ip0 lmp : forall fuel o cand selML selOff,
    0 <= cand < lmp -> cand < Z.of_nat fuel -> RG o ip0 0 (cand + 1) ->
    SegOK ip0 cand selML selOff -> Good o ip0 lmp (cand + selML) ->
    exists o', traverse fuel o cand selML selOff = Some o' /\ Good o' ip0 lmp 0.
  Proof.
    induction fuel as [|f IH]; intros o cand selML selOff Hc Hf HR Hsel HG; [lia|].
    cbn [traverse]. cbv zeta.
    pose proof (SegOK_pos _ _ _ _ Hsel) as Hs1.
    set (o' := oset_mo o cand selML selOff).
    assert (Hom : forall k, omlen o' k = if cand =? k then selML else omlen o k) by (intros; apply omlen_oset_mo).
    assert (Hof : forall k, ooff o' k = if cand =? k then selOff else ooff o k) by (intros; apply ooff_oset_mo).
    assert (HG' : Good o' ip0 lmp cand).
    { apply G_seg; [lia | rewrite Hom, Hof, Z.eqb_refl; exact Hsel|].
      rewrite Hom, Z.eqb_refl.
      apply (Good_frame o o' ip0 lmp (cand + selML) HG).
      intros k Hk. rewrite Hom, Hof. destruct (cand =? k) eqn:E; [lia | split; reflexivity]. }
    pose proof (HR cand ltac:(lia)) as He.
    destruct (omlen o cand >? cand) eqn:Eb.
    - (* position 0 reached *)
      assert (Hc0 : cand = 0) by (destruct He as [He|(He & _)]; lia).
      exists o'. split; [reflexivity|]. subst cand. exact HG'.
    - assert (Hn1 : 1 <= omlen o cand <= cand) by (destruct He as [He|(He & _)]; lia).
      destruct (IH o' (cand - omlen o cand) (omlen o cand) (ooff o cand)) as (o'' & Ht & Hg); try lia.
      + intros k Hk. unfold EndOK. rewrite Hom, Hof. destruct (cand =? k) eqn:E; [lia | apply HR; lia].
      + destruct He as [He|(He1 & He2 & He3 & He4)]; [left; exact He | right].
        split; [lia|]. split; [replace (ip0 + (cand - omlen o cand)) with (ip0 + cand - omlen o cand) by lia; exact He2|].
        split; lia.
      + replace (cand - omlen o cand + omlen o cand) with cand by lia. exact HG'.
      + exists o''. split; [exact Ht | exact Hg].
  Qed.

  Lemma emit_spec ip0 lmp o : ip0 + lmp <= iend -> forall fuel s rPos,
    Good o ip0 lmp rPos -> 0 <= rPos -> c_ip s = ip0 + rPos -> Base s -> CInv s -> TB (c_tabs s) iend ->
    Z.max 0 (lmp - rPos) < Z.of_nat fuel ->
    match emit vrd lim s0 srcSize fuel o s rPos lmp oes with
    | None => False
    | Some (inl s') => Base s' /\ CInv s' /\ c_tabs s' = c_tabs s /\ ip0 + lmp <= c_ip s' /\ ip0 + rPos <= c_ip s'
    | Some (inr r) => ROK r
    end.
  Proof.
    intros Hle. induction fuel as [|f IH]; intros s rPos HG Hr Hip HB HC HT Hf; [lia|].
    cbn [emit]. cbv zeta. pose proof olimits as (L1 & L2 & L3).
    destruct HG as [p Hp | p Hp Hs HG].
    - replace (p <? lmp) with false by lia. split; [exact HB|]. split; [exact HC|]. split; [reflexivity|]. lia.
    - replace (p <? lmp) with true by lia.
      destruct Hs as [H1|(S1 & S2 & S3 & S4)].
      + rewrite H1 in *. cbn [Z.eqb Pos.eqb].
        pose proof (IH (with_ip s (c_ip s + 1)) (p + 1) HG ltac:(lia) ltac:(cbn [with_ip c_ip]; lia)
                      ltac:(apply Base_with_ip; [exact HB | destruct HB as (_ & B2 & _); lia]) HC HT ltac:(lia)) as H.
        destruct (emit vrd lim s0 srcSize f o (with_ip s (c_ip s + 1)) (p + 1) lmp oes) as [[s'|r]|]; [|exact H | exact H].
        destruct H as (A1 & A2 & A3 & A4 & A5). split; [exact A1|]. split; [exact A2|]. split; [exact A3|]. lia.
      + replace (omlen o p =? 1) with false by lia.
        pose proof (oenc_ok s (omlen o p) (ooff o p) HB HC ltac:(lia) ltac:(rewrite Hip; exact S2) ltac:(lia) HT) as HE.
        destruct (c_encode vrd lim s0 srcSize s (omlen o p) (ooff o p) oes) as [s1|r]; [|exact HE].
        destruct HE as (E1 & E2 & E3 & E4 & E5).
        pose proof (IH s1 (p + omlen o p) HG ltac:(lia) ltac:(lia) E1 E2 ltac:(rewrite E5; exact HT) ltac:(lia)) as H.
        destruct (emit vrd lim s0 srcSize f o s1 (p + omlen o p) lmp oes) as [[s'|r]|]; [|exact H | exact H].
        destruct H as (A1 & A2 & A3 & A4 & A5). split; [exact A1|]. split; [exact A2|]. split; [congruence|]. lia.
  Qed.

  (* everything from `encode:` to the end of the loop body *)
  Lemma opt_encode_spec ip0 o s cur lmp bm bo :
    0 <= cur < lmp -> RG o ip0 0 (cur + 1) -> SegOK ip0 cur bm bo -> lmp <= cur + bm -> ip0 + lmp <= iend ->
    c_ip s = ip0 -> Base s -> CInv s -> TB (c_tabs s) iend ->
    match opt_encode vrd lim s0 srcSize o s cur lmp bm bo oes with
    | None => False
    | Some (o', inl s') => Base s' /\ CInv s' /\ c_tabs s' = c_tabs s /\ ip0 + lmp <= c_ip s'
    | Some (o', inr r) => ROK r
    end.
  Proof.
    intros Hc HR Hsel Hend Hle Hip HB HC HT. unfold opt_encode.
    destruct (traverse_spec ip0 lmp (S (Z.to_nat cur)) o cur bm bo Hc ltac:(lia) HR Hsel ltac:(apply G_end; lia)) as (o' & Ht & Hg).
    rewrite Ht.
    pose proof (emit_spec ip0 lmp o' Hle (S (Z.to_nat lmp)) s 0 Hg ltac:(lia) ltac:(lia) HB HC HT ltac:(lia)) as HE.
    destruct (emit vrd lim s0 srcSize (S (Z.to_nat lmp)) o' s 0 lmp oes) as [[s'|r]|]; [|exact HE | exact HE].
    destruct HE as (A1 & A2 & A3 & A4 & A5). split; [exact A1|]. split; [exact A2|]. split; [exact A3 | exact A4].
  Qed.

  (* ---- one iteration of the main loop ---- *)
  Lemma opt_step_spec s o :
    Base s -> CInv s -> TB (c_tabs s) (c_ip s) -> c_ip s <= mflimit ->
    match opt_step vrd prefixIdx dictIdx lim s0 srcSize nb suff0 full fav s o oes with
    | inl (s', o') => Base s' /\ CInv s' /\ TB (c_tabs s') (c_ip s') /\ c_ip s < c_ip s'
    | inr r => ROK r
    end.
  Proof.
    intros HB HC HT Hip. pose proof olimits as (L1 & L2 & L3). pose proof HB as (B1 & B2 & B3 & B4 & B5).
    pose proof suff_lt as Hsl.
    unfold opt_step. cbv zeta. set (ip0 := c_ip s) in *.
    destruct (findLongerMatch_spec (c_tabs s) ip0 ip0 (MINMATCH - 1) HT ltac:(lia) ltac:(lia) Hip ltac:(unfold MINMATCH; lia))
      as (fm & t & Hs & HT1 & Hfm).
    rewrite Hs.
    destruct (hm_len fm =? 0) eqn:E0.
    { split; [apply Base_with_ip; [exact HB | cbn [with_tabs c_anchor]; lia]|]. split; [exact HC|].
      cbn [with_ip with_tabs c_tabs c_ip]. split; [eapply TB_mono; eauto; lia | lia]. }
    destruct Hfm as [Hz|(F4 & Fm & Fl)]; [lia|].
    assert (HTe : TB t iend) by (eapply TB_mono; eauto; lia).
    destruct (hm_len fm >? suff) eqn:Es.
    { pose proof (oenc_ok (with_tabs s t) (hm_len fm) (hm_off fm) HB HC Hip Fm Fl HTe) as HE.
      destruct (c_encode vrd lim s0 srcSize (with_tabs s t) (hm_len fm) (hm_off fm) oes) as [s'|r]; [|exact HE].
      destruct HE as (E1 & E2 & E3 & E4 & E5). cbn [with_tabs c_ip c_tabs] in *.
      split; [exact E1|]. split; [exact E2|]. split; [rewrite E5, E3; apply (TB_mono t ip0); [exact HT1 | lia] | fold ip0 in E3; lia]. }
    (* the table after the initial setup *)
    unfold MINMATCH, HC_TRAILING_LITERALS. change (Z.to_nat 4) with 4%nat. change (Z.to_nat 3) with 3%nat.
    set (llen := ip0 - c_anchor s).
    assert (R1 : RG (opt_init_lits 4 o llen 0) ip0 0 4).
    { apply (opt_init_lits_spec 4 o llen 0 ip0). intros k Hk. lia. }
    set (o1 := opt_init_lits 4 o llen 0) in *.
    assert (R2 : RG (opt_init_match (Z.to_nat (hm_len fm - 4 + 1)) o1 llen (hm_off fm) 4) ip0 0 (hm_len fm + 1)).
    { replace (hm_len fm + 1) with (4 + Z.of_nat (Z.to_nat (hm_len fm - 4 + 1))) by lia.
      apply (opt_init_match_spec ip0 (hm_off fm) (hm_len fm) Fm Fl Hip); [lia | lia | exact R1]. }
    set (o2 := opt_init_match (Z.to_nat (hm_len fm - 4 + 1)) o1 llen (hm_off fm) 4) in *.
    assert (R3 : RG (opt_trailing 3 o2 (hm_len fm) 1) ip0 0 (hm_len fm + 4)).
    { replace (hm_len fm + 4) with (hm_len fm + 1 + Z.of_nat 3) by lia. apply opt_trailing_spec. exact R2. }
    set (o3 := opt_trailing 3 o2 (hm_len fm) 1) in *.
    pose proof (dp_loop_spec ip0 ltac:(lia) (Z.to_nat HC_OPT_NUM) o3 t 1 (hm_len fm) R3 ltac:(lia) ltac:(lia)
                  ltac:(apply (TB_mono t ip0); [exact HT1 | lia]) ltac:(lia) ltac:(unfold HC_OPT_NUM; lia)) as HD.
    destruct (dp_loop vrd prefixIdx dictIdx s0 srcSize nb suff0 full fav (Z.to_nat HC_OPT_NUM) o3 t ip0 1 (hm_len fm))
      as [o' t' lmp' | o' t' cur' bm bo | ]; [| | contradiction].
    - destruct HD as (D1 & D2 & D3 & D4).
      pose proof (D1 lmp' ltac:(lia)) as He.
      assert (Hseg : 0 <= lmp' - omlen o' lmp' < lmp' /\ SegOK ip0 (lmp' - omlen o' lmp') (omlen o' lmp') (ooff o' lmp')).
      { destruct He as [He|(He1 & He2 & He3 & He4)].
        - rewrite He. split; [lia | left; reflexivity].
        - split; [lia|]. right. split; [lia|].
          split; [replace (ip0 + (lmp' - omlen o' lmp')) with (ip0 + lmp' - omlen o' lmp') by lia; exact He2|]. split; lia. }
      destruct Hseg as (Hc & Hsg).
      pose proof (opt_encode_spec ip0 o' (with_tabs (with_tabs s t) t') (lmp' - omlen o' lmp') lmp' (omlen o' lmp') (ooff o' lmp')
                    Hc ltac:(intros k Hk; apply D1; lia) Hsg ltac:(lia) ltac:(lia) eq_refl HB HC
                    ltac:(cbn [with_tabs c_tabs]; apply (TB_mono t' (ip0 + lmp')); [exact D3 | lia])) as HE.
      destruct (opt_encode vrd lim s0 srcSize o' (with_tabs (with_tabs s t) t') (lmp' - omlen o' lmp') lmp' (omlen o' lmp') (ooff o' lmp') oes)
        as [[o'' [s'|r]]|]; [| exact HE | contradiction].
      destruct HE as (A1 & A2 & A3 & A4). cbn [with_tabs c_tabs] in A3.
      split; [exact A1|]. split; [exact A2|]. split; [rewrite A3; apply (TB_mono t' (ip0 + lmp')); [exact D3 | lia] | lia].
    - destruct HD as (D1 & D2 & D3 & D4 & D5 & D6 & D7 & D8).
      pose proof (opt_encode_spec ip0 o' (with_tabs (with_tabs s t) t') cur' (cur' + 1) bm bo
                    ltac:(lia) D1 ltac:(right; split; [lia | split; [exact D6 | split; lia]]) ltac:(lia) ltac:(lia) eq_refl HB HC
                    ltac:(cbn [with_tabs c_tabs]; apply (TB_mono t' (ip0 + cur' + 1)); [exact D4 | lia])) as HE.
      destruct (opt_encode vrd lim s0 srcSize o' (with_tabs (with_tabs s t) t') cur' (cur' + 1) bm bo oes)
        as [[o'' [s'|r]]|]; [| exact HE | contradiction].
      destruct HE as (A1 & A2 & A3 & A4). cbn [with_tabs c_tabs] in A3.
      split; [exact A1|]. split; [exact A2|]. split; [rewrite A3; apply (TB_mono t' (ip0 + cur' + 1)); [exact D4 | lia] | lia].
  Qed.

  Lemma opt_main_spec : forall fuel s o,
    Base s -> CInv s -> TB (c_tabs s) (c_ip s) -> Z.max 0 (iend - c_ip s) < Z.of_nat fuel ->
    ROK (opt_main vrd prefixIdx dictIdx lim s0 srcSize nb suff0 full fav fuel s o oes).
  Proof.
    induction fuel as [|f IH]; intros s o HB HC HT Hf; [lia|]. cbn [opt_main].
    pose proof olimits as (L1 & L2 & L3).
    destruct (c_ip s <=? mflimit) eqn:E.
    - pose proof (opt_step_spec s o HB HC HT ltac:(lia)) as HS.
      destruct (opt_step vrd prefixIdx dictIdx lim s0 srcSize nb suff0 full fav s o oes) as [[s' o']|r]; [|exact HS].
      destruct HS as (S1 & S2 & S3 & S4). apply IH; try assumption. lia.
    - rewrite (oes_restore lim maxOut). apply oll_ok; [exact HB | exact HC|].
      destruct HB as (_ & _ & B3 & _). eapply TB_mono; eauto; lia.
  Qed.

  (* LZ4HC_compress_optimal: for any tables whose hash entries are indices below the block and whose chain entries are
     16-bit, the result is a valid block for the consumed input, within the capacity contract, never out of fuel *)
  Theorem opt_compress_ok t : TB t s0 ->
    ROK (opt_compress vrd prefixIdx dictIdx lim s0 srcSize maxOut nb suff0 full fav t).
  Proof.
    intros HT. pose proof olimits as (L1 & L2 & L3). unfold opt_compress. cbv zeta. rewrite (oes_def lim maxOut).
    apply opt_main_spec.
    - unfold HcChainSound.Base. cbn [c_ip c_anchor c_op c_rout].
      split; [lia|]. split; [lia|]. split; [lia|]. split; [|reflexivity].
      exists []. cbn. split; [reflexivity|]. split; [exact I|]. split; [reflexivity | exact I].
    - unfold HcChainCap.CInv. cbn [c_hw c_op c_anchor]. assert (0 <= chw lim srcSize maxOut) by (eapply chw_nonneg; eassumption).
      split; [lia|]. split; [lia|]. split; [intros; lia | intros; lia].
    - cbn [c_tabs c_ip]. exact HT.
    - cbn [c_ip]. lia.
  Qed.

  (* ================= fillOutput: strict end-of-block conditions (appended; nothing above is changed) ================= *)
  Notation FInv := (cFInv vrd dictIdx s0 srcSize maxOut).
  Notation RFill := (cRFill vrd dictIdx s0).

  Lemma oenc_both s ml off : lim = FillOutput ->
    Base s -> CInv s -> FInv s -> c_ip s <= mflimit -> match_ok vrd lo (c_ip s) off ml -> c_ip s + ml <= matchlimit ->
    TB (c_tabs s) iend ->
    match c_encode vrd lim s0 srcSize s ml off oes with
    | inl s' => (Base s' /\ CInv s' /\ c_ip s' = c_ip s + ml /\ c_anchor s' = c_ip s + ml /\ c_tabs s' = c_tabs s) /\ FInv s'
    | inr r => RFill r
    end.
  Proof. intros. eapply (enc_both vrd lim prefixIdx dictIdx s0 srcSize maxOut); eassumption. Qed.

  Lemma oFInv_ip s x : FInv s -> FInv (with_ip s x).
  Proof. intros H. apply (cFInv_same vrd dictIdx s0 srcSize maxOut s); [exact H | reflexivity | reflexivity | reflexivity]. Qed.
  Lemma oFInv_tabs s t : FInv s -> FInv (with_tabs s t).
  Proof. intros H. apply (cFInv_same vrd dictIdx s0 srcSize maxOut s); [exact H | reflexivity | reflexivity | reflexivity]. Qed.

  Lemma emit_fill (Hfo : lim = FillOutput) ip0 lmp o : ip0 + lmp <= iend -> forall fuel s rPos,
    Good o ip0 lmp rPos -> 0 <= rPos -> c_ip s = ip0 + rPos -> Base s -> CInv s -> FInv s -> TB (c_tabs s) iend ->
    match emit vrd lim s0 srcSize fuel o s rPos lmp oes with
    | None => True
    | Some (inl s') => FInv s'
    | Some (inr r) => RFill r
    end.
  Proof.
    intros Hle. induction fuel as [|f IH]; intros s rPos HG Hr Hip HB HC HF HT; [exact I|].
    cbn [emit]. cbv zeta. pose proof olimits as (L1 & L2 & L3).
    destruct HG as [p Hp | p Hp Hs HG].
    - replace (p <? lmp) with false by lia. exact HF.
    - replace (p <? lmp) with true by lia.
      destruct Hs as [H1|(S1 & S2 & S3 & S4)].
      + rewrite H1 in *. cbn [Z.eqb Pos.eqb].
        apply (IH (with_ip s (c_ip s + 1)) (p + 1) HG ltac:(lia) ltac:(cbn [with_ip c_ip]; lia)
                 ltac:(apply Base_with_ip; [exact HB | destruct HB as (_ & B2 & _); lia]) HC (oFInv_ip s _ HF) HT).
      + replace (omlen o p =? 1) with false by lia.
        pose proof (oenc_both s (omlen o p) (ooff o p) Hfo HB HC HF ltac:(lia) ltac:(rewrite Hip; exact S2) ltac:(lia) HT) as HE.
        destruct (c_encode vrd lim s0 srcSize s (omlen o p) (ooff o p) oes) as [s1|r]; [|exact HE].
        destruct HE as ((E1 & E2 & E3 & E4 & E5) & EF).
        apply (IH s1 (p + omlen o p) HG ltac:(lia) ltac:(lia) E1 E2 EF ltac:(rewrite E5; exact HT)).
  Qed.

  Lemma opt_encode_fill (Hfo : lim = FillOutput) ip0 o s cur lmp bm bo :
    0 <= cur < lmp -> RG o ip0 0 (cur + 1) -> SegOK ip0 cur bm bo -> lmp <= cur + bm -> ip0 + lmp <= iend ->
    c_ip s = ip0 -> Base s -> CInv s -> FInv s -> TB (c_tabs s) iend ->
    match opt_encode vrd lim s0 srcSize o s cur lmp bm bo oes with
    | None => True
    | Some (o', inl s') => FInv s'
    | Some (o', inr r) => RFill r
    end.
  Proof.
    intros Hc HR Hsel Hend Hle Hip HB HC HF HT. unfold opt_encode.
    destruct (traverse_spec ip0 lmp (S (Z.to_nat cur)) o cur bm bo Hc ltac:(lia) HR Hsel ltac:(apply G_end; lia)) as (o' & Ht & Hg).
    rewrite Ht.
    pose proof (emit_fill Hfo ip0 lmp o' Hle (S (Z.to_nat lmp)) s 0 Hg ltac:(lia) ltac:(lia) HB HC HF HT) as HE.
    destruct (emit vrd lim s0 srcSize (S (Z.to_nat lmp)) o' s 0 lmp oes) as [[s'|r]|]; [exact HE | exact HE | exact I].
  Qed.

  Lemma opt_step_fill (Hfo : lim = FillOutput) s o :
    Base s -> CInv s -> FInv s -> TB (c_tabs s) (c_ip s) -> c_ip s <= mflimit ->
    match opt_step vrd prefixIdx dictIdx lim s0 srcSize nb suff0 full fav s o oes with
    | inl (s', o') => FInv s'
    | inr r => RFill r
    end.
  Proof.
    intros HB HC HF HT Hip. pose proof olimits as (L1 & L2 & L3). pose proof HB as (B1 & B2 & B3 & B4 & B5).
    pose proof suff_lt as Hsl.
    unfold opt_step. cbv zeta. set (ip0 := c_ip s) in *.
    destruct (findLongerMatch_spec (c_tabs s) ip0 ip0 (MINMATCH - 1) HT ltac:(lia) ltac:(lia) Hip ltac:(unfold MINMATCH; lia))
      as (fm & t & Hs & HT1 & Hfm).
    rewrite Hs.
    destruct (hm_len fm =? 0) eqn:E0; [apply oFInv_ip; apply oFInv_tabs; exact HF|].
    destruct Hfm as [Hz|(F4 & Fm & Fl)]; [lia|].
    assert (HTe : TB t iend) by (eapply TB_mono; eauto; lia).
    destruct (hm_len fm >? suff) eqn:Es.
    { pose proof (oenc_both (with_tabs s t) (hm_len fm) (hm_off fm) Hfo HB HC (oFInv_tabs s t HF) Hip Fm Fl HTe) as HE.
      destruct (c_encode vrd lim s0 srcSize (with_tabs s t) (hm_len fm) (hm_off fm) oes) as [s'|r]; [|exact HE].
      destruct HE as (_ & EF). exact EF. }
    unfold MINMATCH, HC_TRAILING_LITERALS. change (Z.to_nat 4) with 4%nat. change (Z.to_nat 3) with 3%nat.
    set (llen := ip0 - c_anchor s).
    assert (R1 : RG (opt_init_lits 4 o llen 0) ip0 0 4).
    { apply (opt_init_lits_spec 4 o llen 0 ip0). intros k Hk. lia. }
    set (o1 := opt_init_lits 4 o llen 0) in *.
    assert (R2 : RG (opt_init_match (Z.to_nat (hm_len fm - 4 + 1)) o1 llen (hm_off fm) 4) ip0 0 (hm_len fm + 1)).
    { replace (hm_len fm + 1) with (4 + Z.of_nat (Z.to_nat (hm_len fm - 4 + 1))) by lia.
      apply (opt_init_match_spec ip0 (hm_off fm) (hm_len fm) Fm Fl Hip); [lia | lia | exact R1]. }
    set (o2 := opt_init_match (Z.to_nat (hm_len fm - 4 + 1)) o1 llen (hm_off fm) 4) in *.
    assert (R3 : RG (opt_trailing 3 o2 (hm_len fm) 1) ip0 0 (hm_len fm + 4)).
    { replace (hm_len fm + 4) with (hm_len fm + 1 + Z.of_nat 3) by lia. apply opt_trailing_spec. exact R2. }
    set (o3 := opt_trailing 3 o2 (hm_len fm) 1) in *.
    pose proof (dp_loop_spec ip0 ltac:(lia) (Z.to_nat HC_OPT_NUM) o3 t 1 (hm_len fm) R3 ltac:(lia) ltac:(lia)
                  ltac:(apply (TB_mono t ip0); [exact HT1 | lia]) ltac:(lia) ltac:(unfold HC_OPT_NUM; lia)) as HD.
    destruct (dp_loop vrd prefixIdx dictIdx s0 srcSize nb suff0 full fav (Z.to_nat HC_OPT_NUM) o3 t ip0 1 (hm_len fm))
      as [o' t' lmp' | o' t' cur' bm bo | ]; [| | contradiction].
    - destruct HD as (D1 & D2 & D3 & D4).
      pose proof (D1 lmp' ltac:(lia)) as He.
      assert (Hseg : 0 <= lmp' - omlen o' lmp' < lmp' /\ SegOK ip0 (lmp' - omlen o' lmp') (omlen o' lmp') (ooff o' lmp')).
      { destruct He as [He|(He1 & He2 & He3 & He4)].
        - rewrite He. split; [lia | left; reflexivity].
        - split; [lia|]. right. split; [lia|].
          split; [replace (ip0 + (lmp' - omlen o' lmp')) with (ip0 + lmp' - omlen o' lmp') by lia; exact He2|]. split; lia. }
      destruct Hseg as (Hc & Hsg).
      pose proof (opt_encode_fill Hfo ip0 o' (with_tabs (with_tabs s t) t') (lmp' - omlen o' lmp') lmp' (omlen o' lmp') (ooff o' lmp')
                    Hc ltac:(intros k Hk; apply D1; lia) Hsg ltac:(lia) ltac:(lia) eq_refl HB HC (oFInv_tabs _ t' (oFInv_tabs s t HF))
                    ltac:(cbn [with_tabs c_tabs]; apply (TB_mono t' (ip0 + lmp')); [exact D3 | lia])) as HE.
      destruct (opt_encode vrd lim s0 srcSize o' (with_tabs (with_tabs s t) t') (lmp' - omlen o' lmp') lmp' (omlen o' lmp') (ooff o' lmp') oes)
        as [[o'' [s'|r]]|]; [exact HE | exact HE | exact I].
    - destruct HD as (D1 & D2 & D3 & D4 & D5 & D6 & D7 & D8).
      pose proof (opt_encode_fill Hfo ip0 o' (with_tabs (with_tabs s t) t') cur' (cur' + 1) bm bo
                    ltac:(lia) D1 ltac:(right; split; [lia | split; [exact D6 | split; lia]]) ltac:(lia) ltac:(lia) eq_refl HB HC
                    (oFInv_tabs _ t' (oFInv_tabs s t HF))
                    ltac:(cbn [with_tabs c_tabs]; apply (TB_mono t' (ip0 + cur' + 1)); [exact D4 | lia])) as HE.
      destruct (opt_encode vrd lim s0 srcSize o' (with_tabs (with_tabs s t) t') cur' (cur' + 1) bm bo oes)
        as [[o'' [s'|r]]|]; [exact HE | exact HE | exact I].
  Qed.

  Lemma opt_main_fill (Hfo : lim = FillOutput) : forall fuel s o,
    Base s -> CInv s -> FInv s -> TB (c_tabs s) (c_ip s) ->
    RFill (opt_main vrd prefixIdx dictIdx lim s0 srcSize nb suff0 full fav fuel s o oes).
  Proof.
    induction fuel as [|f IH]; intros s o HB HC HF HT; [exact I|]. cbn [opt_main].
    pose proof olimits as (L1 & L2 & L3).
    destruct (c_ip s <=? mflimit) eqn:E.
    - pose proof (opt_step_spec s o HB HC HT ltac:(lia)) as HS.
      pose proof (opt_step_fill Hfo s o HB HC HF HT ltac:(lia)) as HS2.
      destruct (opt_step vrd prefixIdx dictIdx lim s0 srcSize nb suff0 full fav s o oes) as [[s' o']|r]; [|exact HS2].
      destruct HS as (S1 & S2 & S3 & S4). apply IH; assumption.
    - rewrite (oes_restore lim maxOut). rewrite Hfo.
      destruct HB as (B1 & B2 & B3 & _). eapply c_ll_fill; try eassumption; lia.
  Qed.

  (* LZ4HC_compress_optimal with limit == fillOutput: the block is STRICTLY valid for the consumed prefix *)
  Theorem opt_compress_fill_strict t : lim = FillOutput -> TB t s0 ->
    RFill (opt_compress vrd prefixIdx dictIdx lim s0 srcSize maxOut nb suff0 full fav t).
  Proof.
    intros Hfo HT. pose proof olimits as (L1 & L2 & L3). unfold opt_compress. cbv zeta. rewrite (oes_def lim maxOut).
    apply (opt_main_fill Hfo).
    - unfold HcChainSound.Base. cbn [c_ip c_anchor c_op c_rout].
      split; [lia|]. split; [lia|]. split; [lia|]. split; [|reflexivity].
      exists []. cbn. split; [reflexivity|]. split; [exact I|]. split; [reflexivity | exact I].
    - unfold HcChainCap.CInv. cbn [c_hw c_op c_anchor]. assert (0 <= chw lim srcSize maxOut) by (eapply chw_nonneg; eassumption).
      split; [lia|]. split; [lia|]. split; [intros; lia | intros; lia].
    - apply cFInv_init.
    - cbn [c_tabs c_ip]. exact HT.
  Qed.
End OptProof.

Print Assumptions opt_compress_ok.
Print Assumptions opt_compress_fill_strict.
