(* The documented minimal decoding ring buffer is too small for the fast decoding loop.
   lz4.h: LZ4_DECODER_RING_BUFFER_SIZE(maxBlockSize) = 65536 + 14 + maxBlockSize.  Ring of
   65536 + 14 + 1024 = 66574 bytes, maxBlock 1024; the first lap ends at 65551 (1023 bytes remain:
   the caller wraps).  The wrap block - 33 literals, a match of 8 bytes at offset 65535, 40 literals -
   is strictly valid w.r.t. the last 64 KB of the lap.  In the model of the wrap call with the
   dictionary in the SAME memory as the destination (Model.DecRingWrap) the call succeeds with 81
   bytes, all accesses in bounds, but the 8 matched bytes are WRONG when LZ4_FAST_DEC_LOOP is on:
   LZ4_wildCopy32 stores 64 bytes for the 33 literals, i.e. [33, 64), and the match then loads
   lap bytes [49, 57) from there.  With the safe loop (over-copy of LZ4_wildCopy8: 7 bytes) the
   content is right.  The real decoder behaves identically (harness family `ringmin`). *)
From Coq Require Import ZArith List Lia Bool.
From LZ4V Require Import Gen.Consts Spec.BlockSpec Spec.BlockFast Model.Mem Model.Dec Model.DecRingWrap.
From LZ4V Require Import Proofs.DecRefineTop.
Import ListNotations.
Local Open Scope Z_scope.

Fixpoint rm_gen (n : nat) (i : Z) : list Z := match n with O => [] | S n' => (i mod 251) :: rm_gen n' (i + 1) end.
Definition rm_lap : list Z := rm_gen (Z.to_nat 65551) 0.
Definition rm_lits (a n : nat) : list Z := map (fun i => 160 + Z.of_nat i mod 16) (List.seq a n).
Definition rm_block : list Z := [244; 18] ++ rm_lits 0 33 ++ [255; 255] ++ [240; 25] ++ rm_lits 33 40.
Definition rm_expected : list Z := rm_lits 0 33 ++ [49; 50; 51; 52; 53; 54; 55; 56] ++ rm_lits 33 40.
Definition rm_run (fastloop : bool) :=
  let '(r, m, k) := decompress_ring_wrap fastloop (mem_of_list 0 rm_block) (Z.of_nat (length rm_block)) 1024 65551
                                         (mem_of_list 0 rm_lap) in
  (r, k, load_list m 33 8).

Lemma ring_min_refuted :
  65536 + 14 + 1024 - 65551 < 1024                                        (* the caller must wrap *)
  /\ strict_valid (lastn (Z.to_nat 65536) rm_lap) rm_block = Some rm_expected
  /\ rm_run false = (81, true, [49; 50; 51; 52; 53; 54; 55; 56])
  /\ rm_run true = (81, true, [173; 174; 175; 160; 161; 162; 163; 164]).
Proof.
  split; [lia|]. split; [rewrite <- strict_valid_fast_ok; vm_compute; reflexivity|]. split; vm_compute; reflexivity.
Qed.

(* the margin of the working tree's lz4.h (generated constant: LZ4_DECODER_RING_BUFFER_SIZE(0) - 65536) is at
   least the 29 bytes the wrap needs: a match at op can reach ring positions >= op + margin + 2 only, and
   LZ4_wildCopy32 has stored at most [op, op + 31) *)
Lemma ring_margin_const : 29 <= DECODER_RING_MARGIN.
Proof. unfold DECODER_RING_MARGIN. lia. Qed.
