(* C03, both halves composed: every frame produced by a session of the compressor model
   (Model.FrameC) is returned unchanged by the decoder model (Model.FrameD, all 15 stages of
   LZ4F_decompress) under EVERY way of feeding it: any piece sizes >= 1, any capacities >= 1,
   any decompress options, any dctx at the start of a frame.

   Ingredients: FrameCTheorems.c03_roundtrip (the frame is accepted by the decoder of the format
   document with content = input), FrameDChunk.chunked_complete/_reaches(_usingDict) (on such input the
   staged decoder never errs, ends within |frame| + |input| + 1 calls and returns the document's
   verdict).  The decoder theorems want the frame to be a string of BYTES (values 0..255): shown here
   from the frame structure (session_structure), given that the input bytes are bytes and that the block
   compressor emits bytes ([blk_bytes]; folded into the block judgment so that the chain of blocks
   remembers it).  Block decoder on both sides: Spec.BlockSpec.spec_decode. *)
From Coq Require Import ZArith List Lia Bool.
From LZ4V Require Import Spec.BlockSpec Spec.XXH32 Spec.FrameSpec Gen.Consts Model.FrameD Model.FrameC.
From LZ4V Require Proofs.FrameDProofs Proofs.FrameDChunk.
From LZ4V Require Import Proofs.BlockSpecProofs Proofs.BlockHistExt Proofs.FrameCBytes Proofs.FrameCBlocks
     Proofs.FrameCProofs Proofs.FrameCTheorems.
Import ListNotations.
Local Open Scope Z_scope.
Set Warnings "-abstract-large-number".
Local Ltac zlia := Z.div_mod_to_equations; lia.

(* the block compressor writes bytes *)
Definition blk_bytes (blk : nat -> list byte -> list byte -> option (list byte)) : Prop :=
  forall n h x c, blk n h x = Some c -> bytes_ok c = true.

(* spec_decode restricted to byte strings: lets the chain of blocks carry "stored bytes are bytes" *)
Definition bdecB (h c : list byte) : option (list byte) := if bytes_ok c then spec_decode h c else None.

Lemma bdecB_ext : forall h' h c x, bdecB h c = Some x -> bdecB (h' ++ h) c = Some x.
Proof. intros h' h c x H. unfold bdecB in *. destruct (bytes_ok c); [apply spec_decode_ext; exact H|discriminate]. Qed.
Lemma bdecB_contract : forall blk, blk_contract spec_decode blk -> blk_bytes blk -> blk_contract bdecB blk.
Proof. intros blk H1 H2 n h x c E. unfold bdecB. rewrite (H2 _ _ _ _ E). eapply H1. exact E. Qed.

(* ---- the produced frame is a string of bytes ---- *)
Lemma byte_ok_mod : forall v, byte_ok (v mod 256) = true.
Proof. intros v. unfold byte_ok. assert (0 <= v mod 256 < 256) by (apply Z.mod_pos_bound; lia). lia. Qed.

Lemma bytes_ok_le_bytes : forall n v, bytes_ok (le_bytes n v) = true.
Proof.
  induction n as [|n IH]; intros v; cbn [le_bytes]; [reflexivity|].
  rewrite bytes_ok_cons, byte_ok_mod, IH. reflexivity.
Qed.

Lemma bytes_ok_header : forall d, desc_wf d -> bytes_ok (header_bytes d) = true.
Proof.
  intros d [Hb _]. unfold header_bytes, descriptor_bytes.
  rewrite !bytes_ok_app, bytes_ok_le_bytes. cbn [andb].
  assert (Hf : byte_ok (flg_of d) = true).
  { unfold flg_of, b2z, byte_ok. destruct (f_indep d), (f_bcrc d), (f_csize d), (f_ccrc d), (f_dictid d); reflexivity. }
  assert (Hbd : byte_ok (bd_of d) = true) by (unfold bd_of, byte_ok; lia).
  rewrite !bytes_ok_cons, Hf, Hbd. cbn [andb bytes_ok forallb].
  assert (Hc : bytes_ok (match f_csize d with Some n => le_bytes 8 n | None => [] end) = true)
    by (destruct (f_csize d); [apply bytes_ok_le_bytes|reflexivity]).
  assert (Hd : bytes_ok (match f_dictid d with Some n => le_bytes 4 n | None => [] end) = true)
    by (destruct (f_dictid d); [apply bytes_ok_le_bytes|reflexivity]).
  rewrite Hc, Hd. unfold header_checksum. rewrite byte_ok_mod. reflexivity.
Qed.

Lemma bytes_ok_chain : forall indep dict maxb bl acc,
  chain bdecB indep dict maxb acc bl -> bytes_ok (contents bl) = true ->
  forall bcrc, bytes_ok (enc_blocks bcrc bl) = true.
Proof.
  induction bl as [|b bl IH]; intros acc Hc Hx bcrc; [reflexivity|].
  destruct Hc as [[_ [_ Hk]] Hc].
  unfold contents in Hx. cbn [map concat] in Hx. fold (contents bl) in Hx.
  rewrite bytes_ok_app in Hx. apply andb_prop in Hx. destruct Hx as [Hx1 Hx2].
  unfold enc_blocks. cbn [map concat]. fold (enc_blocks bcrc bl).
  rewrite bytes_ok_app, (IH _ Hc Hx2 bcrc), andb_true_r.
  unfold enc_block. rewrite !bytes_ok_app, bytes_ok_le_bytes. cbn [andb].
  assert (Hs : bytes_ok (b_stored b) = true).
  { destruct (b_raw b).
    - rewrite Hk. exact Hx1.
    - destruct Hk as [Hk _]. unfold bdecB in Hk. destruct (bytes_ok (b_stored b)); [reflexivity|discriminate]. }
  rewrite Hs. destruct bcrc; [apply bytes_ok_le_bytes|reflexivity].
Qed.

Theorem session_bytes : forall blk, blk_contract spec_decode blk -> blk_bytes blk ->
  forall c0 po dk ms F X,
  prefs_opt_ok po -> uncompressed_only_if_independent po ms -> len X < U64 ->
  bytes_ok X = true ->
  session blk c0 po dk ms = Some (F, X) ->
  bytes_ok F = true.
Proof.
  intros blk Hblk Hbytes c0 po dk ms F X Hpo Hunc HX HbX H.
  destruct (session_structure blk bdecB (bdecB_contract blk Hblk Hbytes) bdecB_ext c0 po dk ms F X Hpo Hunc HX H)
    as [maxb [bl Hs]].
  cbv zeta in Hs. destruct Hs as [Hp [_ [HF [HXc [Hch _]]]]].
  rewrite HF, !bytes_ok_app.
  rewrite (bytes_ok_header _ (desc_of_wf _ Hp)).
  rewrite HXc in HbX. rewrite (bytes_ok_chain _ _ _ _ _ Hch HbX).
  rewrite bytes_ok_le_bytes. cbn [andb].
  destruct (p_ccrc (eff_prefs po) =? 1); [apply bytes_ok_le_bytes|reflexivity].
Qed.

(* ---- compressor model, then decoder model ---- *)
(* a decompression context at the start of a frame: fresh, reset, or after a completed frame *)
Definition dctx_at_frame_start (s : dstate) : Prop :=
  FrameDProofs.wf s /\ d_stage s = GetFrameHeader /\ d_remaining s = 0 /\ d_skip s = false.

Lemma len_zlen : forall l, len l = zlen l.
Proof. reflexivity. Qed.

Theorem c03_lossless : forall blk, blk_contract spec_decode blk -> blk_bytes blk ->
  forall c0 po dk ms F X,
  prefs_opt_ok po -> uncompressed_only_if_independent po ms -> len X < U64 ->
  bytes_ok X = true ->
  session blk c0 po dk ms = Some (F, X) ->
  forall o s ns caps,
  dctx_at_frame_start s ->
  (* any number of calls: no call fails, and a run that ends, ends with the input and the whole frame consumed *)
  (forall k, Forall (fun c => 0 <= c) caps ->
     FrameDChunk.drive_usingDict spec_decode (dict_of dk) o k s F ns caps [] 0 <> FrameDChunk.VError /\
     (FrameDChunk.drive_usingDict spec_decode (dict_of dk) o k s F ns caps [] 0 <> FrameDChunk.VMore ->
      FrameDChunk.drive_usingDict spec_decode (dict_of dk) o k s F ns caps [] 0 = FrameDChunk.VComplete X (zlen F))) /\
  (* enough calls with real pieces and real capacities: it does end *)
  (o_dstnull o = false -> Forall (fun n => 1 <= n) ns -> Forall (fun c => 1 <= c) caps ->
   let K := Z.to_nat (zlen F + zlen X + 1) in
   (K <= length ns)%nat -> (K <= length caps)%nat ->
   FrameDChunk.drive_usingDict spec_decode (dict_of dk) o K s F ns caps [] 0 = FrameDChunk.VComplete X (zlen F)).
Proof.
  intros blk Hblk Hbytes c0 po dk ms F X Hpo Hunc HX HbX H o s ns caps [Hwf [H1 [H2 H4]]].
  pose proof (c03_roundtrip blk Hblk c0 po dk ms F X Hpo Hunc HX H) as HD.
  pose proof (session_bytes blk Hblk Hbytes c0 po dk ms F X Hpo Hunc HX HbX H) as HbF.
  assert (Ez : zlen F - zlen (@nil byte) = zlen F) by (unfold zlen; cbn; lia).
  split.
  - intros k Hcaps.
    pose proof (FrameDChunk.chunked_complete_usingDict spec_decode o (dict_of dk) k s F ns caps X [] Hwf H1 H2 H4 HbF Hcaps HD) as T.
    rewrite Ez in T. exact T.
  - intros Hnull Hns Hcaps K L1 L2.
    pose proof (FrameDChunk.chunked_reaches_usingDict spec_decode o (dict_of dk) s F ns caps X [] Hnull Hwf H1 H2 H4 HbF Hns Hcaps HD L1 L2) as T.
    rewrite Ez in T. exact T.
Qed.

(* plain LZ4F_decompress on a frame made without dictionary, from a context whose history is empty *)
Theorem c03_lossless_nodict : forall blk, blk_contract spec_decode blk -> blk_bytes blk ->
  forall c0 po ms F X,
  prefs_opt_ok po -> uncompressed_only_if_independent po ms -> len X < U64 ->
  bytes_ok X = true ->
  session blk c0 po NoDict ms = Some (F, X) ->
  forall o s ns caps,
  dctx_at_frame_start s -> d_hist s = [] ->
  o_dstnull o = false -> Forall (fun n => 1 <= n) ns -> Forall (fun c => 1 <= c) caps ->
  let K := Z.to_nat (zlen F + zlen X + 1) in
  (K <= length ns)%nat -> (K <= length caps)%nat ->
  FrameDChunk.drive spec_decode o K s F ns caps [] 0 = FrameDChunk.VComplete X (zlen F).
Proof.
  intros blk Hblk Hbytes c0 po ms F X Hpo Hunc HX HbX H o s ns caps [Hwf [H1 [H2 H4]]] H3 Hnull Hns Hcaps K L1 L2.
  pose proof (c03_roundtrip blk Hblk c0 po NoDict ms F X Hpo Hunc HX H) as HD. cbn [dict_of] in HD.
  pose proof (session_bytes blk Hblk Hbytes c0 po NoDict ms F X Hpo Hunc HX HbX H) as HbF.
  pose proof (FrameDChunk.chunked_reaches spec_decode o [] s F ns caps X [] Hnull Hwf H1 H2 H3 H4 HbF Hns Hcaps HD L1 L2) as T.
  assert (Ez : zlen F - zlen (@nil byte) = zlen F) by (unfold zlen; cbn; lia).
  rewrite Ez in T. exact T.
Qed.

(* the same for the one-shot entry points *)
Theorem c03_compressFrame_lossless : forall blk, blk_contract spec_decode blk -> blk_bytes blk ->
  forall c src cd po F c',
  prefs_opt_ok po -> len src < U64 -> bytes_ok src = true ->
  compressFrame_usingCDict blk c src (match cd with Some d => Some (createCDict d) | None => None end) po = (Out F, c') ->
  forall o s ns caps,
  dctx_at_frame_start s ->
  o_dstnull o = false -> Forall (fun n => 1 <= n) ns -> Forall (fun c => 1 <= c) caps ->
  let K := Z.to_nat (zlen F + zlen src + 1) in
  (K <= length ns)%nat -> (K <= length caps)%nat ->
  FrameDChunk.drive_usingDict spec_decode (match cd with Some d => d | None => [] end) o K s F ns caps [] 0
  = FrameDChunk.VComplete src (zlen F).
Proof.
  intros blk Hblk Hbytes c src cd po F c' Hpo Hn Hb H o s ns caps Hs Hnull Hns Hcaps K L1 L2.
  apply compressFrame_session in H. rewrite app_nil_r in H.
  assert (Hpo' : prefs_opt_ok (Some (compressFrame_prefs po (len src)))).
  { apply compressFrame_prefs_ok; [exact Hpo|]. pose proof (len_nonneg src). lia. }
  destruct (c03_lossless blk Hblk Hbytes c _ _ _ F src Hpo' (no_uncompressed_update _ src) Hn Hb H o s ns caps Hs) as [_ T].
  replace (dict_of (match cd with Some d => UsingCDict d | None => NoDict end))
    with (match cd with Some d => d | None => [] end) in T by (destruct cd; reflexivity).
  exact (T Hnull Hns Hcaps L1 L2).
Qed.
