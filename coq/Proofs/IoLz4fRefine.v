(* The concrete single-thread LZ4F decode loop of lz4io.c (Model/IoLz4f.v, over the decoder model
   Model/FrameD.v) against the abstract step Io.lz4f_st (one ERead of the frame, one EWrite of its content,
   library decoder = Spec.FrameSpec.frame_decode).

   Proved (no assumption on the hints of the decoder):
     lz4f_st_c_sound - whenever the concrete loop RETURNS (no END_PROCESS), the bytes it took from the source,
       preceded by the magic number, begin with a frame that the format specification accepts with every
       checksum verified; what it handed to fwrite is exactly that frame's content (nothing in test mode); it
       consumed the frame's bytes, plus possibly [lost] bytes that it read after the end of the frame and dropped.
   Stated, not proved here (IoLz4f_reads_exactly_full_statement): [lost] = [] - the loop never reads past the
   frame because LZ4F's hints never exceed what is left of the frame.  That is a property of every stage's hint
   computation in Model/FrameD.v (no theorem about hint VALUES exists yet); it is checked on every run by the
   tie of c14.py (sequence of fread request sizes of the real binary = ERead events of this model, bytes left
   in the pipe after the frame).  Under it, and a valid frame not crossed by a read/write limit, the concrete
   loop returns the state of Io.lz4f_st up to the chunking of the trace. *)
From Coq Require Import ZArith List Lia Bool.
From LZ4V Require Import Spec.BlockSpec Spec.XXH32 Spec.FrameSpec Gen.Consts Model.FrameD Model.Io Model.IoLz4f.
From LZ4V Require Import Proofs.FrameDProofs Proofs.FrameDChunk.
Import ListNotations.
Local Open Scope Z_scope.

Lemma zdrop_app_exact : forall (x rest : list byte), zdrop (zlen x) (x ++ rest) = rest.
Proof.
  intros x rest. unfold zdrop, zlen. rewrite Nat2Z.id.
  induction x as [|a x IH]; [reflexivity|exact IH].
Qed.
Lemma zlen0_nil' : forall l : list byte, zlen l <= 0 -> l = [].
Proof. intros [|a l] H; [reflexivity|]. unfold zlen in H. cbn [length] in H. lia. Qed.
Lemma zlen_app' : forall a b : list byte, zlen (a ++ b) = zlen a + zlen b.
Proof. intros. unfold zlen. rewrite app_length. lia. Qed.
Lemma bytes_ok_app' : forall a b, bytes_ok (a ++ b) = bytes_ok a && bytes_ok b.
Proof. intros. unfold bytes_ok. apply forallb_app. Qed.

(* ---- stdio of Model/Io.v ---- *)
Lemma fwrite_ok : forall fl data s s', fwrite fl data s = (true, s') ->
  s_in s' = s_in s /\ s_rerr s' = s_rerr s /\ s_out s' = s_out s ++ data.
Proof.
  intros fl data s s' H. unfold fwrite in H. cbv zeta in H.
  destruct (f_wlimit fl) as [lim|].
  - destruct (lim - s_wpos s <? Io.len data); inversion H; subst; cbn; auto.
  - inversion H; subst; cbn; auto.
Qed.
Lemma fread_split : forall fl n s got s1, fread fl n s = (got, s1) ->
  s_in s = got ++ s_in s1 /\ s_out s1 = s_out s.
Proof.
  intros fl n s got s1 H. unfold fread, read_plain in H. cbv zeta in H.
  destruct (f_rlimit fl) as [lim|].
  - destruct (lim - s_rpos s <=? 0).
    + inversion H; subst; cbn; auto.
    + destruct (lim - s_rpos s <? n); inversion H; subst; cbn; split; try reflexivity; symmetry; apply firstn_skipn.
  - inversion H; subst; cbn. split; [symmetry; apply firstn_skipn|reflexivity].
Qed.

Section Sound.
  Variable bdec : list byte -> list byte -> option (list byte).
  Notation BU := (BInvU bdec false [] (Some [])).
  Notation FIN := (Fin bdec false []).
  Definition M64 : Z := 18446744073709551616.

  (* one LZ4F_decompress_usingDict(..., dict = NULL) call made by the loop *)
  Lemma step_call : forall d buf cap o p O,
    o_skip o = false -> wf d -> BU p O d -> bytes_ok buf = true -> 0 <= cap -> zlen O + cap < M64 ->
    let d' := fst (decompress_usingDict bdec d buf cap [] o) in
    let r := snd (decompress_usingDict bdec d buf cap [] o) in
    zlen (r_out r) <= cap /\
    (0 <= r_ret r ->
     exists x rest, buf = x ++ rest /\ r_consumed r = zlen x /\ zdrop (r_consumed r) buf = rest /\ wf d' /\
                    if r_ret r =? 0 then FIN (p ++ x) (O ++ r_out r) else BU (p ++ x) (O ++ r_out r) d').
  Proof.
    intros d buf cap o p O Ho Hwf HB Hb Hc Hsz.
    change (decompress_usingDict bdec d buf cap [] o) with (decompress bdec (pre_ud (Some []) d) buf cap o).
    pose proof (wf_pre (Some []) d Hwf) as Hwf1.
    assert (HB1 : BInv bdec false [] p O (pre_ud (Some []) d)).
    { apply BInvU_pre; [|exact HB]. intros d0 E. inversion E. reflexivity. }
    pose proof (decompress_ok bdec (pre_ud (Some []) d) buf cap o Hwf1 Hc) as (_ & _ & _ & _ & OKo & _).
    pose proof (call_chunk bdec false [] (pre_ud (Some []) d) buf cap o p O Ho Hwf1 HB1 Hb Hc) as CC.
    cbv zeta in *.
    destruct (decompress bdec (pre_ud (Some []) d) buf cap o) as [d' r]. cbn [fst snd] in *.
    split; [exact OKo|]. intros Hr.
    destruct (CC ltac:(left; unfold M64 in Hsz; lia)) as [_ CCp].
    destruct (CCp Hr) as (x & rest & E1 & E2 & Hwf' & HH).
    exists x, rest. split; [exact E1|]. split; [exact E2|]. split; [rewrite E2, E1; apply zdrop_app_exact|].
    split; [exact Hwf'|]. destruct (r_ret r =? 0); [exact HH|apply BInv_BInvU; exact HH].
  Qed.

  Definition wrote (test : bool) (w : list byte) : list byte := if test then [] else w.

  Lemma inner_sound : forall fuel test fl d buf next full s p O K,
    wf d -> BU p O d -> bytes_ok buf = true -> next <> 0 -> 0 <= K ->
    zlen O + IOL_dBufferSize * Z.of_nat fuel + K < M64 ->
    match inner bdec fuel test fl d buf next full s with
    | IDone d' s' => exists x rest w, buf = x ++ rest /\ FIN (p ++ x) (O ++ w) /\
                       s_in s' = s_in s /\ s_rerr s' = s_rerr s /\ s_out s' = s_out s ++ wrote test w
    | IMore next' d' s' => exists w, next' <> 0 /\ wf d' /\ BU (p ++ buf) (O ++ w) d' /\
                       s_in s' = s_in s /\ s_rerr s' = s_rerr s /\ s_out s' = s_out s ++ wrote test w /\
                       zlen (O ++ w) + K < M64
    | IDie _ _ => True
    end.
  Proof.
    induction fuel as [|f IH]; intros test fl d buf next full s p O K Hwf HB Hb Hn HK Hsz; [exact I|].
    cbn [inner].
    destruct (negb (0 <? zlen buf) && negb full) eqn:Estop.
    - assert (buf = []) by (apply zlen0_nil'; lia). subst buf.
      exists []. rewrite !app_nil_r. unfold wrote.
      destruct test; rewrite ?app_nil_r;
        (split; [exact Hn|]; split; [exact Hwf|]; split; [exact HB|]; split; [reflexivity|]; split; [reflexivity|];
         split; [reflexivity|]; unfold IOL_dBufferSize in Hsz; lia).
    - assert (Hcap : 0 <= IOL_dBufferSize) by (unfold IOL_dBufferSize; lia).
      assert (Hsz1 : zlen O + IOL_dBufferSize < M64) by (unfold IOL_dBufferSize in *; lia).
      pose proof (step_call d buf IOL_dBufferSize o_null p O eq_refl Hwf HB Hb Hcap Hsz1) as ST. cbv zeta in ST.
      destruct (decompress_usingDict bdec d buf IOL_dBufferSize [] o_null) as [d1 r]. cbn [fst snd] in ST.
      destruct ST as [Hout ST].
      destruct (r_ret r <? 0) eqn:Eneg; [exact I|].
      destruct (ST ltac:(lia)) as (x & rest & E1 & E2 & E3 & Hwf1 & HH). clear ST.
      rewrite E3.
      (* the write *)
      assert (HW : forall b s2, (if (0 <? zlen (r_out r)) && negb test then fwrite fl (r_out r) s else (true, s)) = (b, s2) ->
                   b = true -> s_in s2 = s_in s /\ s_rerr s2 = s_rerr s /\ s_out s2 = s_out s ++ wrote test (r_out r)).
      { intros b s2 E Hb2. subst b. destruct ((0 <? zlen (r_out r)) && negb test) eqn:Ew.
        - apply fwrite_ok in E. destruct test; [rewrite andb_false_r in Ew; discriminate|]. exact E.
        - inversion E; subst s2. unfold wrote. destruct test; [rewrite app_nil_r; auto|].
          rewrite andb_true_r in Ew. assert (r_out r = []) by (apply zlen0_nil'; lia).
          rewrite H, app_nil_r. auto. }
      destruct (if (0 <? zlen (r_out r)) && negb test then fwrite fl (r_out r) s else (true, s)) as [b s2] eqn:Ewr.
      cbn [fst snd].
      destruct b; cbn [negb]; [|exact I].
      destruct (HW true s2 eq_refl eq_refl) as (W1 & W2 & W3).
      destruct (r_ret r =? 0) eqn:Ez.
      + exists x, rest, (r_out r). repeat split; auto.
      + assert (Hsz2 : zlen (O ++ r_out r) + IOL_dBufferSize * Z.of_nat f + K < M64).
        { rewrite zlen_app'. unfold IOL_dBufferSize in *. lia. }
        assert (Hbr : bytes_ok rest = true).
        { rewrite E1, bytes_ok_app' in Hb. apply andb_prop in Hb. tauto. }
        specialize (IH test fl d1 rest (r_ret r) (zlen (r_out r) =? IOL_dBufferSize) s2 (p ++ x) (O ++ r_out r) K
                       Hwf1 HH Hbr ltac:(lia) HK Hsz2).
        destruct (inner bdec f test fl d1 rest (r_ret r) (zlen (r_out r) =? IOL_dBufferSize) s2) as [d' s'|next' d' s'|c s'].
        * destruct IH as (x' & rest' & w' & F1 & F2 & F3 & F4 & F5).
          exists (x ++ x'), rest', (r_out r ++ w').
          split; [rewrite E1, F1, app_assoc; reflexivity|].
          split; [rewrite !app_assoc in *; exact F2|].
          split; [congruence|]. split; [congruence|].
          rewrite F5, W3, <- app_assoc. f_equal. unfold wrote. destruct test; reflexivity.
        * destruct IH as (w' & G0 & G1 & G2 & G3 & G4 & G5 & G6).
          exists (r_out r ++ w').
          split; [exact G0|]. split; [exact G1|].
          split; [rewrite E1; rewrite !app_assoc in *; exact G2|].
          split; [congruence|]. split; [congruence|].
          split; [rewrite G5, W3, <- app_assoc; f_equal; unfold wrote; destruct test; reflexivity|].
          rewrite app_assoc. exact G6.
        * exact I.
  Qed.

  Lemma finish_ret : forall next s s', finish next s = Ret tt s' -> next = 0 /\ s' = s.
  Proof.
    intros next s s' H. unfold finish in H. destruct (s_rerr s); [discriminate|].
    destruct (next =? 0) eqn:E; cbn in H; [|discriminate]. inversion H. split; [lia|reflexivity].
  Qed.

  Lemma outer_sound : forall fuel ifuel test fl d next s p O s',
    (next = 0 -> FIN p O) -> (next <> 0 -> wf d /\ BU p O d) ->
    bytes_ok (s_in s) = true ->
    zlen O + IOL_dBufferSize * Z.of_nat ifuel * Z.of_nat fuel < M64 ->
    outer bdec fuel ifuel test fl d next s = Ret tt s' ->
    exists consumed lost w,
      s_in s = consumed ++ lost ++ s_in s' /\ FIN (p ++ consumed) (O ++ w) /\ s_out s' = s_out s ++ wrote test w.
  Proof.
    induction fuel as [|f IH]; intros ifuel test fl d next s p O s' H0 H1 Hb Hsz H; [discriminate|].
    cbn [outer] in H.
    destruct (next =? 0) eqn:En.
    - apply finish_ret in H. destruct H as [_ ->].
      exists [], [], []. rewrite !app_nil_r. unfold wrote. destruct test; rewrite ?app_nil_r; repeat split; auto; apply H0; lia.
    - destruct (H1 ltac:(lia)) as [Hwf HB].
      destruct (fread fl (if IOL_dBufferSize <? next then IOL_dBufferSize else next) s) as [got s1] eqn:Er.
      destruct (fread_split _ _ _ _ _ Er) as [R1 R2].
      destruct (zlen got =? 0) eqn:Eg.
      + apply finish_ret in H. lia.
      + assert (Hbg : bytes_ok got = true /\ bytes_ok (s_in s1) = true).
        { rewrite R1, bytes_ok_app' in Hb. apply andb_prop in Hb. exact Hb. }
        assert (HK : 0 <= IOL_dBufferSize * Z.of_nat ifuel * Z.of_nat f) by (unfold IOL_dBufferSize; lia).
        pose proof (inner_sound ifuel test fl d got next true s1 p O _ Hwf HB (proj1 Hbg) ltac:(lia) HK
                                ltac:(unfold IOL_dBufferSize in *; lia)) as IS.
        destruct (inner bdec ifuel test fl d got next true s1) as [d' s2|next' d' s2|c s2]; [| |discriminate].
        * destruct IS as (x & rest & w & F1 & F2 & F3 & F4 & F5).
          apply finish_ret in H. destruct H as [_ ->].
          exists x, rest, w. split; [rewrite R1, F1, F3, <- app_assoc; reflexivity|].
          split; [exact F2|]. rewrite F5, R2. reflexivity.
        * destruct IS as (w & G0 & G1 & G2 & G3 & G4 & G5 & G6).
          assert (Hb2 : bytes_ok (s_in s2) = true) by (rewrite G3; tauto).
          destruct (IH ifuel test fl d' next' s2 (p ++ got) (O ++ w) s' ltac:(intros; lia) ltac:(intros; auto) Hb2 G6 H)
            as (c' & lost & w' & I1 & I2 & I3).
          exists (got ++ c'), lost, (w ++ w').
          split; [rewrite R1, <- G3, I1, <- app_assoc; reflexivity|].
          split; [rewrite !app_assoc in *; exact I2|].
          rewrite I3, G5, R2, <- app_assoc. f_equal. unfold wrote. destruct test; reflexivity.
  Qed.

  Definition magic4 : list byte := le_bytes 4 LZ4IO_MAGICNUMBER.

  Lemma not_skippable : forall l, Z.land (rd32 (magic4 ++ l)) SKIP_MASK <> FD_MAGIC_SKIPPABLE_START.
  Proof. intros l. vm_compute. discriminate. Qed.

  (* a decompression context at the start of a frame *)
  Definition dctx_fresh (d : dstate) : Prop :=
    wf d /\ d_stage d = GetFrameHeader /\ d_remaining d = 0 /\ d_skip d = false.

  Theorem lz4f_st_c_sound : forall fuel ifuel test fl d0 s s',
    dctx_fresh d0 ->
    (* the header call takes the four magic bytes (the C code does not look at inSize afterwards) *)
    r_consumed (snd (decompress_usingDict bdec d0 magic4 0 [] (o_first false))) = 4 ->
    bytes_ok (s_in s) = true ->
    IOL_dBufferSize * Z.of_nat ifuel * Z.of_nat fuel < M64 ->
    lz4f_st_c bdec fuel ifuel false test fl d0 s = Ret tt s' ->
    exists content lost,
      frame_decode bdec false [] (magic4 ++ s_in s) = Some (content, lost ++ s_in s') /\
      s_out s' = s_out s ++ wrote test content.
  Proof.
    intros fuel ifuel test fl d0 s s' (Hwf & S1 & S2 & S3) H4 Hb Hsz H.
    unfold lz4f_st_c in H. fold magic4 in H.
    assert (HB0 : BU [] [] d0) by (right; repeat split; auto; discriminate).
    pose proof (step_call d0 magic4 0 (o_first false) [] [] eq_refl Hwf HB0 eq_refl ltac:(lia) ltac:(unfold M64; cbn; lia)) as ST.
    cbv zeta in ST.
    destruct (decompress_usingDict bdec d0 magic4 0 [] (o_first false)) as [d1 r]. cbn [fst snd] in *.
    destruct ST as [Hout ST].
    destruct (r_ret r <? 0) eqn:Eneg; [discriminate|].
    destruct (ST ltac:(lia)) as (x & rest & E1 & E2 & _ & Hwf1 & HH). clear ST.
    assert (Ho : r_out r = []) by (apply zlen0_nil'; exact Hout).
    rewrite Ho in HH. cbn [app] in HH.
    assert (x = magic4).
    { assert (length x = 4%nat) by (unfold zlen in E2; lia).
      assert (length magic4 = 4%nat) by reflexivity.
      assert (rest = []).
      { apply (f_equal (@length byte)) in E1. rewrite app_length in E1. destruct rest; [reflexivity|cbn in E1; lia]. }
      subst rest. rewrite app_nil_r in E1. auto. }
    subst x.
    destruct (outer_sound fuel ifuel test fl d1 (r_ret r) s magic4 [] s') as (consumed & lost & w & C1 & C2 & C3).
    - intros E. rewrite E in HH. cbn in HH. exact HH.
    - intros E. split; [exact Hwf1|]. destruct (r_ret r =? 0) eqn:Ez; [lia|exact HH].
    - exact Hb.
    - cbn. exact Hsz.
    - exact H.
    - exists w, lost. cbn [app] in C2. split; [|exact C3].
      destruct C2 as [D|(_ & _ & K & _)].
      + specialize (D (lost ++ s_in s')). unfold SpecGoal in D.
        rewrite <- app_assoc in D. rewrite <- C1 in D. exact D.
      + exfalso. exact (not_skippable _ K).
  Qed.

  (* a calloc'ed context (LZ4F_createDecompressionContext): the header call takes the 4 bytes *)
  Lemma first_call_init : r_consumed (snd (decompress_usingDict bdec dctx_init magic4 0 [] (o_first false))) = 4.
  Proof. vm_compute. reflexivity. Qed.

  (* the fuels that Model.IoLz4f.lz4f_st_run passes (|input| + 1 outer iterations, dBufferSize + 4096 inner ones),
     on a calloc'ed decompression context *)
  Theorem lz4f_st_fresh_sound : forall fuel ifuel test fl s s',
    Z.of_nat ifuel = IOL_dBufferSize + 4096 -> Z.of_nat fuel = Z.of_nat (length (s_in s)) + 1 ->
    bytes_ok (s_in s) = true -> Z.of_nat (length (s_in s)) < 4000000000 ->
    lz4f_st_c bdec fuel ifuel false test fl dctx_init s = Ret tt s' ->
    exists content lost,
      frame_decode bdec false [] (magic4 ++ s_in s) = Some (content, lost ++ s_in s') /\
      s_out s' = s_out s ++ wrote test content.
  Proof.
    intros fuel ifuel test fl s s' Hi Hf Hb Hl H.
    apply (lz4f_st_c_sound fuel ifuel test fl dctx_init s s').
    - split; [exact wf_init|]. repeat split; reflexivity.
    - exact first_call_init.
    - exact Hb.
    - rewrite Hi, Hf. unfold M64, IOL_dBufferSize. lia.
    - exact H.
  Qed.
End Sound.
