(* Soundness of the LZ4MID parser model (Model.HcMid.mid_compress): whatever the two hash tables
   contain (subject to "every entry is an index below the block", which LZ4HC_init_internal
   establishes), the bytes it returns are the specification's encoding of a factorisation of the
   consumed input, hence the specification's decoder restores the input from them.

   Matches are never trusted from the tables: each candidate is verified by LZ4_count on the real
   bytes, and the only facts needed from the tables are that a candidate index is below the current
   position (distance >= 1) and, after the explicit tests of the code, not below the start of the
   history and within 65535. *)
From Coq Require Import ZArith List Lia Bool ZifyBool.
From LZ4V Require Import Gen.Consts Spec.BlockSpec Model.Mem Model.Fast Model.HcEmit Model.HcMid.
From LZ4V Require Import Proofs.BlockSpecProofs Proofs.FactorSpec Proofs.FastBasics Proofs.FastCap Proofs.HcEmitProofs.
Import ListNotations.
Local Open Scope Z_scope.

Lemma u32_id x : 0 <= x < M32 -> u32 x = x.
Proof. intros H. unfold u32. apply Z.mod_small. exact H. Qed.

Lemma src_bytes_bytes src n a : src_bytes src n a = bytes src n a.
Proof. revert a; induction n as [|n IH]; intros a; cbn [src_bytes bytes]; [reflexivity | rewrite IH; reflexivity]. Qed.

Lemma src_bytes_seg src a n : 0 <= n -> src_bytes src (Z.to_nat n) a = seg src a (a + n).
Proof. intros H. rewrite src_bytes_bytes. unfold seg. f_equal. f_equal. lia. Qed.

Definition tab_lt (T : mem) (b : Z) : Prop := forall k, 0 <= get T k < b.

Lemma tab_lt_set T b k v : tab_lt T b -> 0 <= v < b -> tab_lt (set T k v) b.
Proof. intros H Hv j. rewrite get_set. destruct (k =? j); [exact Hv | apply H]. Qed.

Lemma tab_lt_mono T a b : tab_lt T a -> a <= b -> tab_lt T b.
Proof. intros H Hab k. specialize (H k). lia. Qed.

Lemma match_ok_shorten vrd lo pos off len len' :
  match_ok vrd lo pos off len -> 4 <= len' <= len -> match_ok vrd lo pos off len'.
Proof.
  intros (H1 & H2 & H3 & H4) Hl. split; [exact H1|]. split; [lia|]. split; [exact H3|].
  intros i Hi. apply H4. lia.
Qed.

Section MidSound.
  Variable vrd : Z -> Z.
  Variable lim : outdir.
  Variables prefixIdx dictIdx s0 srcSize maxOut : Z.
  Hypothesis Hb : forall a, 0 <= vrd a < 256.
  Hypothesis Hidx : 0 <= dictIdx /\ dictIdx <= prefixIdx /\ prefixIdx <= s0 /\ s0 + srcSize < M32.
  Hypothesis Hsz : 0 <= srcSize.
  (* start of the history the decoder has: dictIdx, or lower when a dictionary context is attached (its content then
     occupies the indices just below lowLimit) *)
  Variable lo : Z.
  Hypothesis Hlo : 0 <= lo <= dictIdx.

  Notation iend := (mi_iend s0 srcSize).
  Notation mflimit := (mi_mflimit s0 srcSize).
  Notation matchlimit := (mi_matchlimit s0 srcSize).

  Lemma limits : mflimit = iend - 12 /\ matchlimit = iend - 5 /\ iend = s0 + srcSize.
  Proof. unfold mi_mflimit, mi_matchlimit, mi_iend, MFLIMIT, LASTLITERALS. lia. Qed.

  (* a verified candidate inside the prefix *)
  Lemma prefix_candidate q pos :
    s0 <= q -> q <= matchlimit -> 0 <= pos < q -> q - pos <= 65535 -> prefixIdx <= pos ->
    4 <= count vrd q pos matchlimit ->
    match_ok vrd lo q (q - pos) (count vrd q pos matchlimit) /\ q + count vrd q pos matchlimit <= matchlimit.
  Proof.
    intros Hq Hql Hpos Hd Hp H4.
    pose proof (count_spec vrd q pos matchlimit Hql) as Hc. cbv zeta in Hc.
    set (n := count vrd q pos matchlimit) in *. destruct Hc as (Hn & Heq & _).
    split; [|lia].
    split; [lia|]. split; [lia|]. split; [lia|].
    intros i Hi. rewrite Heq by lia. f_equal. lia.
  Qed.

  (* a verified candidate inside the external dictionary segment *)
  Lemma ext_candidate q pos :
    s0 <= q -> q <= matchlimit -> 0 <= pos < q -> q - pos <= 65535 -> dictIdx <= pos -> pos < prefixIdx ->
    4 <= ext_count vrd prefixIdx s0 srcSize q pos ->
    match_ok vrd lo q (q - pos) (ext_count vrd prefixIdx s0 srcSize q pos)
    /\ q + ext_count vrd prefixIdx s0 srcSize q pos <= matchlimit.
  Proof.
    intros Hq Hql Hpos Hd Hp Hpp H4. unfold ext_count in *. cbv zeta in *.
    rewrite (u32_id (prefixIdx - pos)) in * by (unfold M32 in *; lia).
    set (sl := Z.min (prefixIdx - pos) (matchlimit - q)) in *.
    assert (Hsl : 0 <= sl <= matchlimit - q) by (subst sl; lia).
    pose proof (count_spec vrd q pos (q + sl) ltac:(lia)) as Hc. cbv zeta in Hc.
    set (n := count vrd q pos (q + sl)) in *. destruct Hc as (Hn & Heq & _).
    split; [|lia].
    split; [lia|]. split; [lia|]. split; [lia|].
    intros i Hi. rewrite Heq by lia. f_equal. lia.
  Qed.

  Definition found_ok (ip : Z) (f : found) : Prop :=
    (f_ip f = ip \/ (f_ip f = ip + 1 /\ ip < mflimit)) /\
    match_ok vrd lo (f_ip f) (f_dist f) (f_ml f) /\ f_ip f + f_ml f <= matchlimit.

  (* the search into an attached dictionary context (constant None without one) only returns verified matches *)
  Variable dsrch : Z -> option found.
  Hypothesis Hdsrch : forall ip f, s0 <= ip <= mflimit -> dsrch ip = Some f -> found_ok ip f.

  Lemma search_sound ip h4 h8 :
    s0 <= ip <= mflimit -> tab_lt h4 ip -> tab_lt h8 ip ->
    match search vrd prefixIdx dictIdx s0 srcSize ip h4 h8 with
    | (None, h4', h8') => tab_lt h4' (ip + 1) /\ tab_lt h8' (ip + 1)
    | (Some f, h4', h8') => found_ok ip f /\ tab_lt h4' (ip + 1) /\ tab_lt h8' (ip + 2)
    end.
  Proof.
    intros Hip T4 T8. pose proof limits as (L1 & L2 & L3).
    assert (Hu : u32 ip = ip) by (apply u32_id; unfold M32 in *; lia).
    unfold search. cbv zeta. rewrite Hu.
    set (k8 := hash8p vrd ip). set (pos8 := get h8 k8).
    assert (P8 : 0 <= pos8 < ip) by (subst pos8; apply T8).
    assert (T8a : tab_lt (set h8 k8 ip) (ip + 1)) by (apply tab_lt_set; [eapply tab_lt_mono; eauto; lia | lia]).
    assert (D8 : u32 (ip - pos8) = ip - pos8) by (apply u32_id; unfold M32 in *; lia).
    (* the long-match lookup *)
    assert (R8 : forall f,
      (if dist_ok ip pos8 then
        if pos8 >=? prefixIdx then
          (if count vrd ip pos8 matchlimit >=? MINMATCH then Some (mkF ip (count vrd ip pos8 matchlimit) (u32 (ip - pos8))) else None)
        else if pos8 >=? dictIdx then
          (if ext_count vrd prefixIdx s0 srcSize ip pos8 >=? MINMATCH then Some (mkF ip (ext_count vrd prefixIdx s0 srcSize ip pos8) (u32 (ip - pos8))) else None)
        else None
      else None) = Some f -> found_ok ip f).
    { intros f. unfold dist_ok. rewrite D8. unfold LZ4_DISTANCE_MAX, MINMATCH.
      destruct (ip - pos8 <=? 65535) eqn:E1; [|discriminate].
      destruct (pos8 >=? prefixIdx) eqn:E2.
      - destruct (count vrd ip pos8 matchlimit >=? 4) eqn:E3; [|discriminate].
        intros Hf. inversion Hf; subst f; clear Hf.
        destruct (prefix_candidate ip pos8) as (M1 & M2); try lia.
        split; [left; reflexivity|]. cbn [f_ip f_dist f_ml]. split; assumption.
      - destruct (pos8 >=? dictIdx) eqn:E4; [|discriminate].
        destruct (ext_count vrd prefixIdx s0 srcSize ip pos8 >=? 4) eqn:E3; [|discriminate].
        intros Hf. inversion Hf; subst f; clear Hf.
        destruct (ext_candidate ip pos8) as (M1 & M2); try lia.
        split; [left; reflexivity|]. cbn [f_ip f_dist f_ml]. split; assumption. }
    match goal with |- match (match ?r with Some _ => _ | None => _ end) with _ => _ end => destruct r as [f8|] eqn:ER8 end.
    { split; [apply R8; reflexivity|]. split; [eapply tab_lt_mono; eauto; lia | eapply tab_lt_mono; eauto; lia]. }
    clear R8 ER8.
    (* the short-match lookup *)
    set (k4 := hash4p vrd ip). set (pos4 := get h4 k4).
    assert (P4 : 0 <= pos4 < ip) by (subst pos4; apply T4).
    assert (T4a : tab_lt (set h4 k4 ip) (ip + 1)) by (apply tab_lt_set; [eapply tab_lt_mono; eauto; lia | lia]).
    assert (D4 : u32 (ip - pos4) = ip - pos4) by (apply u32_id; unfold M32 in *; lia).
    unfold dist_ok. rewrite D4. unfold LZ4_DISTANCE_MAX, MINMATCH.
    destruct (ip - pos4 <=? 65535) eqn:E1; [|split; assumption].
    destruct (pos4 >=? prefixIdx) eqn:E2.
    - destruct (count vrd ip pos4 matchlimit >=? 4) eqn:E3; [|split; assumption].
      destruct (prefix_candidate ip pos4) as (M1 & M2); try lia.
      assert (Fd : found_ok ip (mkF ip (count vrd ip pos4 matchlimit) (ip - pos4))).
      { split; [left; reflexivity|]. cbn [f_ip f_dist f_ml]. split; assumption. }
      assert (T8b : tab_lt (set h8 k8 ip) (ip + 2)) by (eapply tab_lt_mono; eauto; lia).
      set (k8' := hash8p vrd (ip + 1)). set (pos8' := get (set h8 k8 ip) k8').
      assert (P8' : 0 <= pos8' < ip + 1) by (subst pos8'; apply T8a).
      assert (D8' : u32 (ip + 1 - pos8') = ip + 1 - pos8') by (apply u32_id; unfold M32 in *; lia).
      rewrite D8'.
      destruct ((ip + 1 - pos8' <=? 65535) && (pos8' >=? prefixIdx) && (ip <? mflimit)) eqn:E5;
        [|split; [exact Fd | split; assumption]].
      destruct (count vrd (ip + 1) pos8' matchlimit >? count vrd ip pos4 matchlimit) eqn:E6;
        [|split; [exact Fd | split; assumption]].
      destruct (prefix_candidate (ip + 1) pos8') as (N1 & N2); try lia.
      split; [|split; [assumption | apply tab_lt_set; [assumption | rewrite u32_id by (unfold M32 in *; lia); lia]]].
      split; [right; cbn [f_ip]; lia|]. cbn [f_ip f_dist f_ml].
      replace (ip + 1 - pos8') with (ip + 1 - pos8') by lia. split; assumption.
    - destruct (pos4 >=? dictIdx) eqn:E4; [|split; assumption].
      destruct (ext_count vrd prefixIdx s0 srcSize ip pos4 >=? 4) eqn:E3; [|split; assumption].
      destruct (ext_candidate ip pos4) as (M1 & M2); try lia.
      split; [|split; [assumption | eapply tab_lt_mono; eauto; lia]].
      split; [left; reflexivity|]. cbn [f_ip f_dist f_ml]. split; assumption.
  Qed.

  (* ---- catch back ---- *)
  Lemma catchback_spec : forall fuel ip ml anchor dist,
    prefixIdx <= anchor -> anchor <= ip -> ip < M32 -> 1 <= dist ->
    let r := catchback vrd prefixIdx fuel ip ml anchor dist in
    anchor <= fst r <= ip /\ snd r = ml + (ip - fst r) /\
    (forall k, 1 <= k <= ip - fst r -> vrd (ip - k) = vrd (ip - dist - k)) /\
    (fst r < ip -> prefixIdx <= fst r - dist).
  Proof.
    induction fuel as [|f IH]; intros ip ml anchor dist Hpa Hai Him Hd; cbn [catchback]; cbv zeta.
    - cbn [fst snd]. repeat split; intros; lia.
    - rewrite (u32_id (ip - prefixIdx)) by lia.
      destruct ((ip >? anchor) && (ip - prefixIdx >? dist) && (vrd (ip - 1) =? vrd (ip - dist - 1))) eqn:E.
      + specialize (IH (ip - 1) (ml + 1) anchor dist Hpa ltac:(lia) ltac:(lia) Hd). cbv zeta in IH.
        set (r := catchback vrd prefixIdx f (ip - 1) (ml + 1) anchor dist) in *.
        destruct IH as (H1 & H2 & H3 & H4).
        split; [lia|]. split; [lia|]. split.
        * intros k Hk. destruct (Z.eq_dec k 1) as [->|Hk1]; [lia|].
          replace (ip - k) with (ip - 1 - (k - 1)) by lia.
          replace (ip - dist - k) with (ip - 1 - dist - (k - 1)) by lia. apply H3. lia.
        * intros _. destruct (Z_lt_le_dec (fst r) (ip - 1)) as [Hlt|Hge]; [specialize (H4 Hlt); lia | lia].
      + cbn [fst snd]. repeat split; intros; lia.
  Qed.

  Lemma catchback_match fuel ip ml anchor dist :
    prefixIdx <= anchor -> anchor <= ip -> ip < M32 ->
    match_ok vrd lo ip dist ml ->
    let r := catchback vrd prefixIdx fuel ip ml anchor dist in
    anchor <= fst r <= ip /\ fst r + snd r = ip + ml /\ match_ok vrd lo (fst r) dist (snd r).
  Proof.
    intros Hpa Hai Him (M1 & M2 & M3 & M4).
    pose proof (catchback_spec fuel ip ml anchor dist Hpa Hai Him ltac:(lia)) as H. cbv zeta in *.
    set (r := catchback vrd prefixIdx fuel ip ml anchor dist) in *. destruct H as (H1 & H2 & H3 & H4).
    split; [lia|]. split; [lia|].
    split; [lia|]. split; [lia|]. split.
    - destruct (Z_lt_le_dec (fst r) ip) as [Hlt|Hge]; [specialize (H4 Hlt); lia|].
      replace (fst r) with ip by lia. lia.
    - intros i Hi. destruct (Z_lt_le_dec i (ip - fst r)) as [Hlt|Hge].
      + replace (fst r + i) with (ip - (ip - fst r - i)) by lia.
        replace (ip - (ip - fst r - i) - dist) with (ip - dist - (ip - fst r - i)) by lia. apply H3. lia.
      + replace (fst r + i) with (ip + (i - (ip - fst r))) by lia.
        replace (ip + (i - (ip - fst r)) - dist) with (ip + (i - (ip - fst r)) - dist) by lia. apply M4. lia.
  Qed.

  (* ---- what has been written so far ---- *)
  (* the end-of-block restrictions of the format: the last match ends at least LASTLITERALS and starts
     at least MFLIMIT bytes before the end of the input *)
  Definition end_inv (ss : list seq) (anchor : Z) : Prop :=
    match rev ss with [] => True | q :: _ => anchor <= matchlimit /\ anchor - s_mlen q <= mflimit end.
  Definition out_ss (rout : list Z) (anchor : Z) (ss : list seq) : Prop :=
    rev rout = concat (map encode_seq ss) /\ seqs_valid vrd lo s0 ss /\ seqs_end s0 ss = anchor /\ end_inv ss anchor.
  Definition out_ok (rout : list Z) (anchor : Z) : Prop := exists ss, out_ss rout anchor ss.

  Definition RSpec (r : mres) : Prop :=
    match r with
    | MOk ret consumed out h4 h8 hw =>
      0 <= consumed <= srcSize /\ (lim <> FillOutput -> consumed = srcSize) /\
      spec_decode (seg vrd lo s0) out = Some (seg vrd s0 (s0 + consumed)) /\
      (lim <> FillOutput -> strict_valid (seg vrd lo s0) out = Some (seg vrd s0 (s0 + consumed))) /\
      ret = Z.of_nat (length out) /\ tab_lt h4 iend /\ tab_lt h8 iend /\ bytes_ok out = true
    | _ => True
    end.

  Lemma encodeSequence_notlimited ip anchor op ml dist oend :
    e_ret (encodeSequence vrd ip anchor op ml dist false oend) = 0.
  Proof.
    unfold encodeSequence. cbv zeta. cbn [andb].
    destruct (ip - anchor >=? RUN_MASK); destruct (ml - MINMATCH >=? ML_MASK); reflexivity.
  Qed.

  (* appending one verified sequence *)
  Lemma out_ss_snoc rout anchor ss ip ml dist op limit oend :
    out_ss rout anchor ss -> anchor <= ip -> match_ok vrd lo ip dist ml ->
    ip <= mflimit -> ip + ml <= matchlimit ->
    let e := encodeSequence vrd ip anchor op ml dist limit oend in
    e_ret e = 0 ->
    out_ss (rev_append (e_bytes e) rout) (ip + ml)
           (ss ++ [{| s_lits := src_bytes vrd (Z.to_nat (ip - anchor)) anchor; s_off := dist; s_mlen := ml |}]).
  Proof.
    intros (Hr & Hv & He & _) Hai Hm Hipm Himl e Hret.
    destruct Hm as (M1 & M2 & M3 & M4).
    pose proof (encodeSequence_encoding vrd ip anchor op ml dist limit oend Hai ltac:(unfold MINMATCH; lia) ltac:(lia)) as HE.
    cbv zeta in HE. specialize (HE Hret). destruct HE as (HE & _). fold e in HE.
    set (q := {| s_lits := src_bytes vrd (Z.to_nat (ip - anchor)) anchor; s_off := dist; s_mlen := ml |}) in *.
    assert (Hl : s_lits q = seg vrd anchor ip).
    { subst q. cbn [s_lits]. rewrite src_bytes_seg by lia. f_equal. lia. }
    assert (Hll : Z.of_nat (length (s_lits q)) = ip - anchor).
    { rewrite Hl, seg_length. lia. }
    split; [|split; [|split]].
    - rewrite rev_append_rev, rev_app_distr, rev_involutive, Hr, HE.
      rewrite map_app, concat_app. cbn [map concat]. rewrite app_nil_r. reflexivity.
    - apply seqs_valid_app; [exact Hv|]. cbv zeta. rewrite He, Hll.
      replace (anchor + (ip - anchor)) with ip by lia.
      split; [exact Hl|]. subst q. cbn [s_off s_mlen]. repeat split; try lia. exact M4.
    - rewrite seqs_end_app, He, Hll. subst q. cbn [s_mlen]. lia.
    - unfold end_inv. rewrite rev_app_distr. cbn [rev app]. subst q. cbn [s_mlen]. lia.
  Qed.

  Lemma out_ok_snoc rout anchor ip ml dist op limit oend :
    out_ok rout anchor -> anchor <= ip -> match_ok vrd lo ip dist ml ->
    ip <= mflimit -> ip + ml <= matchlimit ->
    let e := encodeSequence vrd ip anchor op ml dist limit oend in
    e_ret e = 0 -> out_ok (rev_append (e_bytes e) rout) (ip + ml).
  Proof.
    intros (ss & Hss) Hai Hm Hipm Himl e Hret.
    eexists. apply (out_ss_snoc rout anchor ss ip ml dist op limit oend Hss Hai Hm Hipm Himl Hret).
  Qed.

  (* ---- _lz4mid_last_literals ---- *)
  Lemma last_literals_sound s oend :
    out_ok (m_rout s) (m_anchor s) -> s0 <= m_anchor s <= iend ->
    m_op s = Z.of_nat (length (m_rout s)) ->
    tab_lt (m_h4 s) iend -> tab_lt (m_h8 s) iend ->
    RSpec (last_literals vrd lim s0 srcSize s oend).
  Proof.
    intros (ss & Hr & Hv & He & Hend) Ha Hop T4 T8. pose proof limits as (L1 & L2 & L3).
    unfold last_literals. cbv zeta.
    set (lastRun := iend - m_anchor s).
    assert (Emit : forall lr, 0 <= lr <= lastRun -> (lim <> FillOutput -> lr = lastRun) ->
      RSpec (let hdr := if lr >=? RUN_MASK then RUN_MASK * 16 :: lit_ext (Z.to_nat lr) (lr - RUN_MASK) else [lr * 16] in
             let bytes := hdr ++ src_bytes vrd (Z.to_nat lr) (m_anchor s) in
             let op' := m_op s + Z.of_nat (length bytes) in
             MOk op' (m_anchor s + lr - s0) (rev_append (m_rout s) bytes) (m_h4 s) (m_h8 s) (Z.max (m_hw s) op'))).
    { intros lr Hlr Hfull. cbv zeta. cbn [RSpec].
      set (last := seg vrd (m_anchor s) (m_anchor s + lr)).
      assert (Hlen : Z.of_nat (length last) = lr) by (subst last; rewrite seg_length; lia).
      assert (Henc : (if lr >=? RUN_MASK then RUN_MASK * 16 :: lit_ext (Z.to_nat lr) (lr - RUN_MASK) else [lr * 16])
                     ++ src_bytes vrd (Z.to_nat lr) (m_anchor s) = encode_last last).
      { unfold encode_last. cbv zeta. unfold byte in *. rewrite Hlen. rewrite src_bytes_seg by lia. fold last.
        unfold enc_nib, enc_ext, RUN_MASK.
        destruct (lr >=? 15) eqn:E; destruct (lr <? 15) eqn:E'; try lia.
        - rewrite lit_ext_spec; [reflexivity | lia |]. left. Z.div_mod_to_equations. lia.
        - reflexivity. }
      rewrite Henc.
      split; [subst lastRun; lia|]. split; [intros Hn; specialize (Hfull Hn); subst lastRun; lia|].
      assert (Hout : rev_append (m_rout s) (encode_last last) = encode_block ss last).
      { rewrite rev_append_rev, Hr. reflexivity. }
      replace (s0 + (m_anchor s + lr - s0)) with (m_anchor s + lr) by lia.
      split; [|split; [|split; [|split; [assumption | split; [assumption|]]]]].
      - rewrite Hout. apply factor_block_decodes; try assumption; try lia.
        subst last. rewrite He. reflexivity.
      - intros Hn. specialize (Hfull Hn). rewrite Hout.
        rewrite strict_valid_encode; [| eapply seqs_valid_wf; eauto | subst last; apply seg_bytes_ok; exact Hb].
        assert (Eo : end_ok ss last = true).
        { unfold end_ok. unfold end_inv in Hend. destruct (rev ss) as [|q r]; [reflexivity|].
          destruct Hend as [E1 E2]. unfold byte in *. rewrite Hlen. subst lastRun. lia. }
        rewrite Eo. apply (factor_decodes vrd lo s0 (m_anchor s + lr) ss last); try assumption; try lia.
        subst last. rewrite He. reflexivity.
      - rewrite rev_append_rev, app_length, rev_length, Nat2Z.inj_add, Hop. rewrite <- Henc. reflexivity.
      - rewrite Hout. apply encode_block_bytes; [eapply seqs_valid_wf; eauto | subst last; apply seg_bytes_ok; exact Hb]. }
    destruct (limited lim && (m_op s + (1 + (lastRun + 255 - RUN_MASK) / 255 + lastRun) >? oend)) eqn:E.
    - destruct lim eqn:El; try exact I.
      destruct (oend - m_op s <? 1) eqn:E1; [exact I|].
      apply Emit; [|intros Hn; congruence].
      cbn [limited andb] in E. unfold RUN_MASK in *. subst lastRun.
      set (lr := iend - m_anchor s) in *. assert (0 <= lr) by (subst lr; lia). clearbody lr.
      assert (E' : m_op s + (1 + (lr + 255 - 15) / 255 + lr) > oend) by lia.
      assert (Hx : 0 <= oend - m_op s - 1) by lia.
      set (x := oend - m_op s - 1) in *.
      replace oend with (x + m_op s + 1) in E' by (subst x; lia). clearbody x. clear E E1.
      Z.div_mod_to_equations. lia.
    - apply Emit; [subst lastRun; lia | reflexivity].
  Qed.

  Lemma u32_bound x b : 0 <= x < b -> b <= M32 -> 0 <= u32 x < b.
  Proof. intros H Hb'. rewrite u32_id by lia. exact H. Qed.

  (* ---- _lz4mid_dest_overflow ---- *)
  Lemma dest_overflow_sound s ml dist oend :
    out_ok (m_rout s) (m_anchor s) -> s0 <= m_anchor s <= m_ip s ->
    m_op s = Z.of_nat (length (m_rout s)) ->
    match_ok vrd lo (m_ip s) dist ml -> m_ip s + ml <= matchlimit -> m_ip s <= mflimit ->
    tab_lt (m_h4 s) iend -> tab_lt (m_h8 s) iend ->
    RSpec (dest_overflow vrd lim s0 srcSize s ml dist oend).
  Proof.
    intros Ho Ha Hop Hm Hml Hipm T4 T8. pose proof limits as (L1 & L2 & L3).
    unfold dest_overflow. remember lim as l eqn:El. destruct l; try exact I. rewrite El. cbv zeta.
    assert (Hai : m_anchor s <= iend) by (destruct Hm as (_ & ? & _); lia).
    match goal with |- RSpec (last_literals _ _ _ _ ?st _) => set (s' := st) end.
    assert (Hs' : out_ok (m_rout s') (m_anchor s') /\ s0 <= m_anchor s' <= iend /\
                  m_op s' = Z.of_nat (length (m_rout s')) /\ m_h4 s' = m_h4 s /\ m_h8 s' = m_h8 s).
    { subst s'.
      destruct (m_op s + (1 + (m_ip s - m_anchor s + 240) / 255 + (m_ip s - m_anchor s)) <=? oend - 3) eqn:E1;
        [|repeat split; try assumption; lia].
      set (mx := MINMATCH + (ML_MASK - 1) + (oend - 3 - (m_op s + (1 + (m_ip s - m_anchor s + 240) / 255 + (m_ip s - m_anchor s)))) * 255).
      set (ml' := if ml >? mx then mx else ml).
      destruct (oend + LASTLITERALS - (m_op s + (1 + (m_ip s - m_anchor s + 240) / 255 + (m_ip s - m_anchor s)) + 2) - 1 + ml' >=? MFLIMIT) eqn:E2;
        [|repeat split; try assumption; lia].
      assert (Hml' : 4 <= ml' <= ml).
      { destruct Hm as (_ & H4 & _). subst ml' mx. unfold MINMATCH, ML_MASK in *. destruct (ml >? _) eqn:E3; lia. }
      pose proof (match_ok_shorten vrd lo (m_ip s) dist ml ml' Hm Hml') as Hm'.
      pose proof (encodeSequence_notlimited (m_ip s) (m_anchor s) (m_op s) ml' dist oend) as Hret.
      cbn [m_rout m_anchor m_op m_h4 m_h8].
      split; [apply out_ok_snoc; try assumption; lia|].
      split; [lia|]. split; [|split; reflexivity].
      destruct Hm' as (M1 & M2 & _).
      pose proof (encodeSequence_encoding vrd (m_ip s) (m_anchor s) (m_op s) ml' dist false oend ltac:(lia) ltac:(unfold MINMATCH; lia) ltac:(lia)) as HE.
      cbv zeta in HE. specialize (HE Hret). destruct HE as (_ & HE). rewrite HE.
      rewrite rev_append_rev, app_length, rev_length, Nat2Z.inj_add, Hop. lia. }
    destruct Hs' as (A1 & A2 & A3 & A4 & A5).
    apply last_literals_sound; try assumption; [rewrite A4 | rewrite A5]; assumption.
  Qed.

  (* ---- loop states ---- *)
  Definition MInv (s : mst) : Prop :=
    s0 <= m_anchor s <= m_ip s /\ m_anchor s <= iend /\ out_ok (m_rout s) (m_anchor s) /\
    m_op s = Z.of_nat (length (m_rout s)) /\
    tab_lt (m_h4 s) (m_ip s) /\ tab_lt (m_h8 s) (m_ip s) /\
    tab_lt (m_h4 s) iend /\ tab_lt (m_h8 s) iend.

  Lemma encode_step_sound s f h4 h8 oend :
    MInv s -> m_ip s <= mflimit -> found_ok (m_ip s) f ->
    tab_lt h4 (m_ip s + 1) -> tab_lt h8 (m_ip s + 2) ->
    match encode_step vrd lim prefixIdx s0 srcSize s (u32 (m_ip s)) f h4 h8 oend with
    | inl s' => MInv s'
    | inr r => RSpec r
    end.
  Proof.
    intros (Ha & Hae & Ho & Hop & _ & _ & _ & _) Hip (Hfi & Hfm & Hfl) T4 T8.
    pose proof limits as (L1 & L2 & L3).
    assert (Hu : u32 (m_ip s) = m_ip s) by (apply u32_id; unfold M32 in *; lia).
    unfold encode_step. rewrite Hu.
    assert (Hfa : m_anchor s <= f_ip f) by lia.
    pose proof (catchback_match (Z.to_nat (f_ip f - m_anchor s)) (f_ip f) (f_ml f) (m_anchor s) (f_dist f)
                  ltac:(lia) Hfa ltac:(unfold M32 in *; lia) Hfm) as Hcb. cbv zeta in Hcb.
    destruct (catchback vrd prefixIdx (Z.to_nat (f_ip f - m_anchor s)) (f_ip f) (f_ml f) (m_anchor s) (f_dist f)) as [ip ml].
    cbn [fst snd] in Hcb. destruct Hcb as (C1 & C2 & C3). cbv zeta.
    assert (Hml4 : 4 <= f_ml f) by (destruct Hfm as (_ & ? & _); assumption).
    assert (Hnext : m_ip s + 4 <= ip + ml <= matchlimit) by lia.
    set (ip0 := m_ip s) in *.
    set (h8b := set (set h8 (hash8p vrd (ip + 1)) (u32 (ip0 + 1))) (hash8p vrd (ip + 2)) (u32 (ip0 + 2))).
    set (h4b := set h4 (hash4p vrd (ip + 1)) (u32 (ip0 + 1))).
    assert (T4b : tab_lt h4b (ip0 + 3)).
    { subst h4b. apply tab_lt_set; [eapply tab_lt_mono; eauto; lia | apply u32_bound; unfold M32 in *; lia]. }
    assert (T8b : tab_lt h8b (ip0 + 3)).
    { subst h8b. repeat apply tab_lt_set; try (apply u32_bound; unfold M32 in *; lia). eapply tab_lt_mono; eauto; lia. }
    set (e := encodeSequence vrd ip (m_anchor s) (m_op s) ml (f_dist f) (limited lim) oend).
    destruct (e_ret e =? 0) eqn:Er.
    - (* the sequence was written *)
      assert (Hret : e_ret e = 0) by lia.
      pose proof (out_ok_snoc (m_rout s) (m_anchor s) ip ml (f_dist f) (m_op s) (limited lim) oend Ho ltac:(lia) C3 ltac:(lia) ltac:(lia)) as Hsn.
      cbv zeta in Hsn. specialize (Hsn Hret). fold e in Hsn.
      destruct C3 as (M1 & M2 & _).
      pose proof (encodeSequence_encoding vrd ip (m_anchor s) (m_op s) ml (f_dist f) (limited lim) oend ltac:(lia) ltac:(unfold MINMATCH; lia) ltac:(lia)) as HE.
      cbv zeta in HE. specialize (HE Hret). destruct HE as (_ & HE). fold e in HE.
      set (ip' := ip + ml) in *.
      assert (Hu' : u32 ip' = ip') by (apply u32_id; unfold M32 in *; lia).
      rewrite Hu'.
      assert (Tend : forall T4' T8', tab_lt T4' ip' -> tab_lt T8' ip' ->
                MInv (mkM ip' ip' (e_op e) (rev_append (e_bytes e) (m_rout s)) T4' T8' (Z.max (m_hw s) (e_hw e)))).
      { intros T4' T8' A4 A8. unfold MInv. cbn [m_ip m_anchor m_op m_rout m_h4 m_h8].
        split; [lia|]. split; [lia|]. split; [exact Hsn|].
        split; [rewrite HE, rev_append_rev, app_length, rev_length, Nat2Z.inj_add, Hop; lia|].
        split; [exact A4|]. split; [exact A8|].
        split; eapply tab_lt_mono; eauto; lia. }
      destruct (u32 (ip' - 2) <? mi_ilimitIdx prefixIdx s0 srcSize) eqn:Em.
      + apply Tend.
        * repeat apply tab_lt_set; try (apply u32_bound; unfold M32 in *; lia). eapply tab_lt_mono; eauto; lia.
        * repeat apply tab_lt_set; try (apply u32_bound; unfold M32 in *; lia).
          destruct (ip' - prefixIdx >? 5) eqn:E5.
          -- apply tab_lt_set; [eapply tab_lt_mono; eauto; lia | apply u32_bound; unfold M32 in *; lia].
          -- eapply tab_lt_mono; eauto; lia.
      + apply Tend; eapply tab_lt_mono; eauto; lia.
    - (* no room: the overflow epilogue *)
      apply dest_overflow_sound; cbn [m_ip m_anchor m_op m_rout m_h4 m_h8]; try assumption; try lia.
      + eapply tab_lt_mono; eauto; lia.
      + eapply tab_lt_mono; eauto; lia.
  Qed.

  Lemma main_loop_sound : forall fuel s oend, MInv s -> RSpec (main_loop vrd lim prefixIdx dictIdx s0 srcSize dsrch fuel s oend).
  Proof.
    induction fuel as [|fuel IH]; intros s oend HI; cbn [main_loop]; [exact I|]. cbv zeta.
    pose proof limits as (L1 & L2 & L3).
    destruct HI as (Ha & Hae & Ho & Hop & T4 & T8 & T4e & T8e).
    destruct (m_ip s <=? mflimit) eqn:Eip.
    - pose proof (search_sound (m_ip s) (m_h4 s) (m_h8 s) ltac:(lia) T4 T8) as Hs.
      destruct (search vrd prefixIdx dictIdx s0 srcSize (m_ip s) (m_h4 s) (m_h8 s)) as [[[fd|] h4'] h8'].
      + destruct Hs as (Hf & A4 & A8).
        pose proof (encode_step_sound s fd h4' h8' oend (conj Ha (conj Hae (conj Ho (conj Hop (conj T4 (conj T8 (conj T4e T8e))))))) ltac:(lia) Hf A4 A8) as He.
        destruct (encode_step vrd lim prefixIdx s0 srcSize s (u32 (m_ip s)) fd h4' h8' oend) as [s'|r]; [apply IH; exact He | exact He].
      + destruct Hs as (A4 & A8).
        destruct (dsrch (m_ip s)) as [fd|] eqn:Ed.
        { pose proof (Hdsrch (m_ip s) fd ltac:(lia) Ed) as Hf.
          pose proof (encode_step_sound s fd h4' h8' oend (conj Ha (conj Hae (conj Ho (conj Hop (conj T4 (conj T8 (conj T4e T8e))))))) ltac:(lia) Hf A4
                        ltac:(eapply tab_lt_mono; eauto; lia)) as He.
          destruct (encode_step vrd lim prefixIdx s0 srcSize s (u32 (m_ip s)) fd h4' h8' oend) as [s'|r]; [apply IH; exact He | exact He]. }
        apply IH.
        assert (Hq : 0 <= (m_ip s - m_anchor s) / 512) by (Z.div_mod_to_equations; lia).
        unfold MInv. cbn [m_ip m_anchor m_op m_rout m_h4 m_h8].
        split; [lia|]. split; [lia|]. split; [exact Ho|]. split; [exact Hop|].
        split; [eapply tab_lt_mono; eauto; lia|]. split; [eapply tab_lt_mono; eauto; lia|].
        split; eapply tab_lt_mono; eauto; lia.
    - apply last_literals_sound; try assumption. lia.
  Qed.

  Theorem mid_compress_sound h4 h8 :
    tab_lt h4 s0 -> tab_lt h8 s0 ->
    RSpec (mid_compress vrd lim prefixIdx dictIdx s0 srcSize maxOut dsrch h4 h8).
  Proof.
    intros T4 T8. pose proof limits as (L1 & L2 & L3). unfold mid_compress.
    destruct ((srcSize <? 0) || (maxOut <? 0) || (srcSize >? LZ4_MAX_INPUT_SIZE)); [exact I|]. cbv zeta.
    assert (Ho : out_ok [] s0) by (exists []; cbn; repeat split; reflexivity).
    destruct (srcSize <? LZ4_minLength).
    - apply last_literals_sound; cbn [m_rout m_anchor m_op m_h4 m_h8 length]; try assumption; try lia;
        eapply tab_lt_mono; eauto; lia.
    - apply main_loop_sound. unfold MInv. cbn [m_ip m_anchor m_op m_rout m_h4 m_h8 length].
      split; [lia|]. split; [lia|]. split; [exact Ho|]. split; [reflexivity|].
      split; [exact T4|]. split; [exact T8|]. split; eapply tab_lt_mono; eauto; lia.
  Qed.
End MidSound.
