(* LZ4_loadDictHC at a hash-chain / optimal level: LZ4_initStreamHC, LZ4HC_init_internal(dict), end = dict + n,
   LZ4HC_Insert(end - 3).  The tables it leaves satisfy the consistency invariant [dgood] that
   Proofs.HcChainDictSound.wider_dict_sound asks of an attached dictionary context (n <= 64 KB, which LZ4_loadDictHC
   enforces by keeping only the last 64 KB). *)
From Coq Require Import ZArith List Lia Bool ZifyBool FMapPositive.
From LZ4V Require Import Gen.Consts Spec.BlockSpec Model.Mem Model.Fast Model.HcEmit Model.HcMid Model.HcChain Model.HcChainDict.
From LZ4V Require Import Proofs.HcMidSound Proofs.HcChainSearch Proofs.HcChainDictSound.
Import ListNotations.
Local Open Scope Z_scope.

Section Load.
  Variable vrd : Z -> Z.
  Variables P n : Z.                      (* dictLimit of the dictionary context (64 KB for a fresh one), dictionary size *)
  Hypothesis HP : 65536 <= P /\ P + n < M32.
  Hypothesis Hn : 0 <= n <= 65536.
  Notation E := (P + n).

  (* after inserting the positions [P, idx): *)
  Definition LInv (idx : Z) (ht : mem) (ct : ctab) : Prop :=
    (forall k, get ht k = 0 \/ P <= get ht k < idx) /\
    (forall x, P <= x < idx -> 0 <= delta_next ct x <= x /\ dgood P E (x - delta_next ct x)) .

  Lemma mod_inj x y : P <= x -> x < y -> y < P + 65536 -> x mod 65536 <> y mod 65536.
  Proof. intros H1 H2 H3 Heq. Z.div_mod_to_equations. lia. Qed.

  Lemma insert_loop_load : forall fuel idx target ht ct,
    P <= idx -> target <= E - 3 -> LInv idx ht ct ->
    (idx <= target -> Z.of_nat fuel = target - idx) ->
    let r := insert_loop vrd fuel idx target ht ct in
    LInv (Z.max idx target) (fst r) (snd r).
  Proof.
    induction fuel as [|f IH]; intros idx target ht ct Hi Ht (Hh & Hc) Hf; cbn [insert_loop]; cbv zeta.
    - cbn [fst snd]. assert (target <= idx) by lia. replace (Z.max idx target) with idx by lia. split; assumption.
    - destruct (idx <? target) eqn:El.
      2:{ cbn [fst snd]. replace (Z.max idx target) with idx by lia. split; assumption. }
      rewrite (u32_id (idx + 1)) by (unfold M32 in *; lia).
      set (h := hashPtr vrd idx). set (prev := get ht h).
      set (d0 := u32 (idx - prev)).
      set (d := if d0 >? LZ4_DISTANCE_MAX then LZ4_DISTANCE_MAX else d0).
      assert (Hprev : prev = 0 \/ P <= prev < idx) by (subst prev; apply Hh).
      assert (Hd0 : d0 = idx - prev) by (subst d0; apply u32_id; unfold M32 in *; lia).
      assert (Hd : 0 <= d <= 65535 /\ 0 <= d <= idx /\ dgood P E (idx - d)).
      { subst d. unfold LZ4_DISTANCE_MAX. rewrite Hd0. unfold dgood.
        destruct (idx - prev >? 65535) eqn:Eg.
        - split; [lia|]. split; [lia|]. split; [lia|]. left. lia.
        - split; [lia|]. split; [lia|]. split; [lia|]. destruct Hprev as [->|Hp]; [lia|]. right. lia. }
      destruct Hd as (Hd1 & Hd2 & Hd3).
      rewrite (Z.mod_small d 65536) by lia.
      replace (Z.max idx target) with (Z.max (idx + 1) target) by lia.
      apply IH; try lia.
      split.
      + intros k. rewrite get_set. destruct (h =? k); [right; lia|]. destruct (Hh k) as [H0|H1]; [left; exact H0 | right; lia].
      + intros x Hx. unfold delta_next. rewrite ctget_ctset.
        destruct (idx mod 65536 =? x mod 65536) eqn:Em.
        * assert (x = idx).
          { destruct (Z.eq_dec x idx) as [->|Hne]; [reflexivity|]. exfalso.
            apply (mod_inj x idx); [lia | lia | lia | lia]. }
          subst x. split; [lia | exact Hd3].
        * assert (x <> idx) by (intros ->; rewrite Z.eqb_refl in Em; discriminate Em). apply (Hc x). lia.
  Qed.

  (* the dictionary context after LZ4_loadDictHC (fresh state: hashTable and chainTable zero, nextToUpdate = P) *)
  Theorem loadDict_tables_good :
    let t := insert vrd P (mkHT empty (mkCT empty 0) P) (E - 3) in
    4 <= n ->
    (forall k, dgood P E (get (t_hash t) k)) /\
    (forall x, P <= x <= E - 4 -> 0 <= delta_next (t_chain t) x <= x /\ dgood P E (x - delta_next (t_chain t) x)).
  Proof.
    cbv zeta. intros H4. unfold insert. cbn [t_ntu t_hash t_chain].
    assert (Eid : idx_of P (E - 3) = E - 3).
    { unfold idx_of. rewrite (u32_id (E - 3 - P)) by (unfold M32 in *; lia). rewrite u32_id by (unfold M32 in *; lia). lia. }
    rewrite Eid.
    pose proof (insert_loop_load (Z.to_nat (E - 3 - P)) P (E - 3) empty (mkCT empty 0) ltac:(lia) ltac:(lia)) as HL.
    assert (H0 : LInv P empty (mkCT empty 0)).
    { split; [intros k; left; unfold get, empty; rewrite PositiveMap.gempty; reflexivity | intros x Hx; lia]. }
    specialize (HL H0 ltac:(intros; lia)). cbv zeta in HL.
    destruct (insert_loop vrd (Z.to_nat (E - 3 - P)) P (E - 3) empty (mkCT empty 0)) as [ht ct]. cbn [fst snd] in HL.
    cbn [t_hash t_chain]. replace (Z.max P (E - 3)) with (E - 3) in HL by lia. destruct HL as (Hh & Hc).
    split.
    - intros k. unfold dgood. destruct (Hh k) as [->|Hk]; [split; [lia | left; lia] | split; [lia | right; lia]].
    - intros x Hx. apply Hc. lia.
  Qed.
End Load.

Print Assumptions loadDict_tables_good.
