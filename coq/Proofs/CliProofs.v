(* C04: block-size option map, MT assembly determinism, ST / MT / legacy pipelines round-trip
   through the frame specification (conditional on the library compressors' contracts). *)
From Coq Require Import ZArith List Lia Bool Permutation.
From LZ4V Require Import Gen.Consts Spec.BlockSpec Spec.XXH32 Spec.FrameSpec.
From LZ4V Require Import Model.Sparse Model.CliOpts Model.CompressPipe.
From LZ4V Require Import Proofs.BlockSpecProofs Proofs.SparseProofs.
Import ListNotations.
Local Open Scope Z_scope.

(* ================================================================ LZ4IO_setBlockSize *)
Lemma pow4_succ n : 4 ^ Z.of_nat (S n) = 4 * 4 ^ Z.of_nat n.
Proof. rewrite Nat2Z.inj_succ, Z.pow_succ_r by lia. reflexivity. Qed.

Lemma shift_loop_spec : forall fuel x b,
  0 <= x < 4 ^ Z.of_nat (S fuel) ->
  exists k, shift_loop (S fuel) x b = Some (b + k) /\ 0 <= k /\ x < 4 ^ (k + 1) /\ (0 < k -> 4 ^ k <= x).
Proof.
  induction fuel as [|fuel IH]; intros x b Hx.
  - exists 0. change (4 ^ Z.of_nat 1) with 4 in Hx.
    cbn [shift_loop]. rewrite Z.shiftr_div_pow2 by lia. change (2 ^ 2) with 4.
    replace (x / 4) with 0 by (symmetry; apply Z.div_small; lia).
    cbn [Z.eqb]. rewrite Z.add_0_r. repeat split; try lia.
  - rewrite pow4_succ in Hx.
    remember (S fuel) as sf. cbn [shift_loop].
    rewrite Z.shiftr_div_pow2 by lia. change (2 ^ 2) with 4.
    assert (Hd : x = 4 * (x / 4) + x mod 4) by (apply Z.div_mod; lia).
    assert (Hm : 0 <= x mod 4 < 4) by (apply Z.mod_pos_bound; lia).
    assert (Hq : 0 <= x / 4) by (apply Z.div_pos; lia).
    set (q := x / 4) in *. set (m := x mod 4) in *.
    destruct (q =? 0) eqn:E.
    + apply Z.eqb_eq in E. exists 0. rewrite Z.add_0_r. change (4 ^ (0 + 1)) with 4. repeat split; lia.
    + apply Z.eqb_neq in E.
      destruct (IH q (b + 1)) as [k [Hk [Hk0 [Hlt Hge]]]]; [subst sf; lia|].
      exists (k + 1). rewrite Hk. split; [f_equal; lia|]. split; [lia|].
      assert (Hp : 4 ^ (k + 1 + 1) = 4 * 4 ^ (k + 1)) by (rewrite <- Z.pow_succ_r by lia; f_equal; lia).
      assert (Hp2 : 4 ^ (k + 1) = 4 * 4 ^ k) by (rewrite <- Z.pow_succ_r by lia; f_equal; lia).
      split; [lia|]. intros _.
      destruct (Z.eq_dec k 0) as [K0|K0].
      * subst k. change (4 ^ (0 + 1)) with 4. lia.
      * specialize (Hge ltac:(lia)). lia.
Qed.

Definition clamp_block_size (n : Z) : Z :=
  Z.min (Z.max n CLI_MIN_BLOCKSIZE) CLI_MAX_BLOCKSIZE.

(* what LZ4IO_setBlockSize guarantees, for every requested size (a size_t) *)
Theorem blocksize_map (p : io_prefs) (n : Z) :
  0 <= n ->
  exists p',
    set_block_size p n = Some (clamp_block_size n, p') /\
    io_blockSize p' = clamp_block_size n /\
    Z.min n CLI_MAX_BLOCKSIZE <= io_blockSize p' /\
    4 <= io_blockSizeId p' <= 7 /\
    io_blockSize p' <= block_size_table (io_blockSizeId p') /\
    (io_blockSizeId p' = 4 \/ block_size_table (io_blockSizeId p' - 1) < io_blockSize p') /\
    bsid_size (io_blockSizeId p') = Some (block_size_table (io_blockSizeId p')).
Proof.
  intros Hn. unfold set_block_size.
  set (bs1 := if n <? CLI_MIN_BLOCKSIZE then CLI_MIN_BLOCKSIZE else n).
  set (bs2 := if bs1 >? CLI_MAX_BLOCKSIZE then CLI_MAX_BLOCKSIZE else bs1).
  assert (Hmin : CLI_MIN_BLOCKSIZE = 32) by reflexivity.
  assert (Hmax : CLI_MAX_BLOCKSIZE = 4194304) by reflexivity.
  assert (Hbs : bs2 = clamp_block_size n /\ 32 <= bs2 <= 4194304 /\ Z.min n CLI_MAX_BLOCKSIZE <= bs2).
  { unfold bs2, bs1, clamp_block_size. rewrite Hmin, Hmax.
    destruct (n <? 32) eqn:E1; [destruct (32 >? 4194304) eqn:E2|destruct (n >? 4194304) eqn:E2]; lia. }
  destruct Hbs as [Hcl [Hr Hmn]]. rewrite <- Hcl.
  destruct (shift_loop_spec 63 (bs2 - 1) 0) as [k [Hk [Hk0 [Hlt Hge]]]].
  { split; [lia|]. apply Z.lt_trans with (4 ^ 11); [change (4 ^ 11) with 4194304; lia|].
    apply Z.pow_lt_mono_r; lia. }
  change (S 63) with 64%nat in Hk. rewrite Hk. rewrite Z.add_0_l.
  assert (Hk10 : k <= 10).
  { destruct (Z_le_gt_dec k 10) as [H|H]; [exact H|exfalso].
    specialize (Hge ltac:(lia)).
    assert (4 ^ 11 <= 4 ^ k) by (apply Z.pow_le_mono_r; lia).
    change (4 ^ 11) with 4194304 in *. lia. }
  eexists. split; [reflexivity|]. cbn [io_blockSize io_blockSizeId with_block].
  split; [reflexivity|]. split; [exact Hmn|].
  unfold block_size_table, bsid_size.
  assert (HK : k <= 7 \/ k = 8 \/ k = 9 \/ k = 10) by lia.
  destruct HK as [HK|[HK|[HK|HK]]].
  - assert (H7 : (k <? 7) = true \/ k = 7) by lia.
    assert (Hle : 4 ^ (k + 1) <= 4 ^ 8) by (apply Z.pow_le_mono_r; lia).
    change (4 ^ 8) with 65536 in Hle.
    replace ((if k <? 7 then 7 else k) - 3) with 4 by (destruct H7 as [H7|H7]; [rewrite H7|subst k]; reflexivity).
    cbn. unfold CLI_BSID4_SIZE, CLI_BSID5_SIZE, CLI_BSID6_SIZE, CLI_BSID7_SIZE.
    split; [lia|]. split; [lia|]. split; [left; reflexivity|reflexivity].
  - subst k. change (4 ^ (8 + 1)) with 262144 in Hlt. specialize (Hge ltac:(lia)).
    change (4 ^ 8) with 65536 in Hge. cbn. unfold CLI_BSID4_SIZE, CLI_BSID5_SIZE, CLI_BSID6_SIZE, CLI_BSID7_SIZE.
    split; [lia|]. split; [lia|]. split; [right; lia|reflexivity].
  - subst k. change (4 ^ (9 + 1)) with 1048576 in Hlt. specialize (Hge ltac:(lia)).
    change (4 ^ 9) with 262144 in Hge. cbn. unfold CLI_BSID4_SIZE, CLI_BSID5_SIZE, CLI_BSID6_SIZE, CLI_BSID7_SIZE.
    split; [lia|]. split; [lia|]. split; [right; lia|reflexivity].
  - subst k. change (4 ^ (10 + 1)) with 4194304 in Hlt. specialize (Hge ltac:(lia)).
    change (4 ^ 10) with 1048576 in Hge. cbn. unfold CLI_BSID4_SIZE, CLI_BSID5_SIZE, CLI_BSID6_SIZE, CLI_BSID7_SIZE.
    split; [lia|]. split; [lia|]. split; [right; lia|reflexivity].
Qed.

(* -B4 .. -B7 : LZ4IO_setBlockSizeID selects the documented sizes, which are the frame format's *)
Theorem blocksize_id_map (p : io_prefs) (id : Z) :
  4 <= id <= 7 ->
  set_block_size_id p id = (block_size_table id, with_block p id (block_size_table id)) /\
  bsid_size id = Some (block_size_table id) /\
  block_size_table 4 = 65536 /\ block_size_table 5 = 262144 /\
  block_size_table 6 = 1048576 /\ block_size_table 7 = 4194304.
Proof.
  intros H. assert (HI : id = 4 \/ id = 5 \/ id = 6 \/ id = 7) by lia.
  destruct HI as [E|[E|[E|E]]]; subst id; repeat split; reflexivity.
Qed.
Theorem blocksize_id_reject (p : io_prefs) (id : Z) :
  id < 4 \/ 7 < id -> set_block_size_id p id = (0, p).
Proof.
  intros H. unfold set_block_size_id. change CLI_BSID_MIN with 4. change CLI_BSID_MAX with 7.
  destruct (id <? 4) eqn:E1; [reflexivity|]. destruct (id >? 7) eqn:E2; [reflexivity|]. lia.
Qed.

(* ================================================================ reading a file in pieces *)
Lemma chunks_concat : forall fuel sz l, 1 <= sz -> (length l < fuel)%nat -> concat (chunks fuel sz l) = l.
Proof.
  induction fuel as [|fuel IH]; intros sz l Hsz Hf; [lia|].
  destruct l as [|x r]; [reflexivity|]. cbn [chunks concat].
  rewrite IH; [apply takeZ_dropZ|exact Hsz|].
  unfold dropZ. rewrite skipn_length. cbn [length] in *. lia.
Qed.
Lemma chunks_of_concat sz l : 1 <= sz -> concat (chunks_of sz l) = l.
Proof. intros H. apply chunks_concat; [exact H|lia]. Qed.

Lemma chunks_le : forall fuel sz l, 0 <= sz -> Forall (fun c => lenZ c <= sz) (chunks fuel sz l).
Proof.
  induction fuel as [|fuel IH]; intros sz l Hsz; [constructor|].
  destruct l as [|x r]; [constructor|]. cbn [chunks]. constructor; [|apply IH; exact Hsz].
  unfold lenZ, takeZ. rewrite firstn_length. lia.
Qed.

Lemma chunks_nil_inv : forall fuel sz l, (length l < fuel)%nat -> chunks fuel sz l = [] -> l = [].
Proof. intros [|fuel] sz [|x r] Hf H; try reflexivity; [cbn in Hf; lia|discriminate]. Qed.

(* every read but the last one is full *)
Lemma chunks_nth_full : forall fuel sz l k, 1 <= sz -> (length l < fuel)%nat ->
  (S k < length (chunks fuel sz l))%nat -> lenZ (nth k (chunks fuel sz l) []) = sz.
Proof.
  induction fuel as [|fuel IH]; intros sz l k Hsz Hf Hk; [lia|].
  destruct l as [|x r]; [cbn in Hk; lia|].
  change (chunks (S fuel) sz (x :: r)) with (takeZ sz (x :: r) :: chunks fuel sz (dropZ sz (x :: r))) in *.
  assert (Hd : (length (dropZ sz (x :: r)) < fuel)%nat).
  { unfold dropZ. rewrite skipn_length. cbn [length] in *. lia. }
  set (l := x :: r) in *.
  destruct k as [|k].
  - cbn [nth]. cbn [length] in Hk.
    destruct (chunks fuel sz (dropZ sz l)) as [|c cs] eqn:E; [cbn in Hk; lia|].
    assert (Hne : dropZ sz l <> []) by (intros E2; rewrite E2 in E; destruct fuel; discriminate).
    assert (Hl : sz < lenZ l).
    { destruct (Z_lt_le_dec sz (lenZ l)) as [H|H]; [exact H|exfalso; apply Hne].
      unfold dropZ, lenZ in *. apply skipn_all2. lia. }
    apply lenZ_takeZ. lia.
  - cbn [nth]. apply IH; [exact Hsz|exact Hd|]. cbn [length] in Hk. lia.
Qed.

(* ================================================================ little-endian fields, xxh32 range *)
Lemma le_bytes_length n : forall v, length (le_bytes n v) = n.
Proof. induction n as [|n IH]; intros v; cbn [le_bytes length]; [reflexivity|f_equal; apply IH]. Qed.
Lemma le_val_le_bytes n : forall v, 0 <= v < 256 ^ Z.of_nat n -> le_val (le_bytes n v) = v.
Proof.
  induction n as [|n IH]; intros v Hv.
  - change (256 ^ Z.of_nat 0) with 1 in Hv. cbn. lia.
  - rewrite Nat2Z.inj_succ, Z.pow_succ_r in Hv by lia.
    cbn [le_bytes le_val]. rewrite IH.
    + pose proof (Z.div_mod v 256 ltac:(lia)). lia.
    + split; [apply Z.div_pos; lia|apply Z.div_lt_upper_bound; lia].
Qed.
Lemma le_val_le_bytes4 v : 0 <= v < 4294967296 -> le_val (le_bytes 4 v) = v.
Proof. intros H. apply le_val_le_bytes. change (256 ^ Z.of_nat 4) with 4294967296. exact H. Qed.

Lemma lxor_range a b n : 0 <= n -> 0 <= a < 2 ^ n -> 0 <= b < 2 ^ n -> 0 <= Z.lxor a b < 2 ^ n.
Proof.
  intros Hn Ha Hb.
  assert (H0 : 0 <= Z.lxor a b) by (apply Z.lxor_nonneg; lia).
  split; [exact H0|].
  destruct (Z.eq_dec (Z.lxor a b) 0) as [E|E]; [rewrite E; apply Z.pow_pos_nonneg; lia|].
  apply Z.log2_lt_pow2; [lia|].
  pose proof (Z.log2_lxor a b ltac:(lia) ltac:(lia)) as Hl.
  assert (La : Z.log2 a < n \/ a = 0) by (destruct (Z.eq_dec a 0); [right; assumption|left; apply Z.log2_lt_pow2; lia]).
  assert (Lb : Z.log2 b < n \/ b = 0) by (destruct (Z.eq_dec b 0); [right; assumption|left; apply Z.log2_lt_pow2; lia]).
  assert (Hn0 : 0 < n).
  { destruct (Z.eq_dec n 0) as [N|N]; [|lia]. subst n. change (2 ^ 0) with 1 in *.
    assert (a = 0) by lia. assert (b = 0) by lia. subst. cbn in E. congruence. }
  assert (La' : Z.log2 a < n) by (destruct La as [La|La]; [exact La|rewrite La; change (Z.log2 0) with 0; lia]).
  assert (Lb' : Z.log2 b < n) by (destruct Lb as [Lb|Lb]; [exact Lb|rewrite Lb; change (Z.log2 0) with 0; lia]).
  lia.
Qed.

Lemma avalanche_range h : 0 <= avalanche h < 4294967296.
Proof.
  unfold avalanche.
  set (h4 := u32 _).
  assert (H4 : 0 <= h4 < 4294967296) by (unfold h4, u32, M32; apply Z.mod_pos_bound; lia).
  change 4294967296 with (2 ^ 32). apply lxor_range; [lia|exact H4|].
  rewrite Z.shiftr_div_pow2 by lia. split; [apply Z.div_pos; lia|].
  apply Z.div_lt_upper_bound; [lia|]. change (2 ^ 32) with 4294967296 in *. lia.
Qed.
Lemma xxh32_range seed bs : 0 <= xxh32 seed bs < 4294967296.
Proof.
  unfold xxh32.
  destruct (16 <=? Z.of_nat (length bs)).
  - destruct (stripes _ _ _ _ _ _) as [[[[v1 v2] v3] v4] rest].
    destruct (tail4 _ _ _) as [h r]. apply avalanche_range.
  - destruct (tail4 _ _ _) as [h r]. apply avalanche_range.
Qed.

(* history window *)
Lemma lastn_app_ge n (a b : list Z) : (n <= length b)%nat -> lastn n (a ++ b) = lastn n b.
Proof.
  intros H. unfold lastn. rewrite app_length.
  replace (length a + length b - n)%nat with (length a + (length b - n))%nat by lia.
  rewrite skipn_app. rewrite skipn_all2 by lia.
  replace (length a + (length b - n) - length a)%nat with (length b - n)%nat by lia. reflexivity.
Qed.
Lemma lastn_lastn n (l : list Z) : lastn n (lastn n l) = lastn n l.
Proof.
  unfold lastn, byte. rewrite skipn_length.
  destruct (Nat.le_gt_cases n (length l)) as [H|H].
  - replace (length l - (length l - n) - n)%nat with 0%nat by lia. reflexivity.
  - replace (length l - n)%nat with 0%nat by lia. cbn [skipn].
    replace (length l - 0 - n)%nat with 0%nat by lia. reflexivity.
Qed.

(* ================================================================ option parsing keeps the block fields valid *)
Definition opts_inv (s : cli_state) : Prop :=
  4 <= fp_blockSizeID (prefs_of s 0) <= 7 /\ 1 <= io_blockSize (c_prefs s).

Lemma cli_init_inv : opts_inv cli_init.
Proof. unfold opts_inv. vm_compute. repeat split; discriminate. Qed.

Lemma parse_arg_inv s a s' : opts_inv s -> parse_arg s a = Some s' -> opts_inv s'.
Proof.
  unfold opts_inv. cbn [prefs_of fp_blockSizeID]. intros [Hid Hbs] H.
  destruct a; cbn [parse_arg] in H;
    try (inversion H; subst; cbn; split; assumption).
  - (* --fast[=n] *)
    destruct n as [n|]; [destruct (n =? 0); [discriminate|]|]; inversion H; subst; cbn; split; assumption.
  - (* -B# *)
    rename n into b.
    destruct (b <? 4) eqn:E4; [discriminate|].
    destruct (b <=? 7) eqn:E7.
    + inversion H; subst. destruct (blocksize_id_map (c_prefs s) b ltac:(lia)) as [E _].
      rewrite E. cbn. split; [lia|].
      assert (HI : b = 4 \/ b = 5 \/ b = 6 \/ b = 7) by lia.
      destruct HI as [ E1 | [ E1 | [ E1 | E1 ] ] ]; rewrite E1; vm_compute; discriminate.
    + destruct (b <? 32) eqn:E32; [discriminate|].
      destruct (blocksize_map (c_prefs s) b ltac:(lia)) as [p' [E [Hs [_ [Hi _]]]]].
      rewrite E in H. inversion H; subst. cbn. split; [exact Hi|].
      rewrite Hs. unfold clamp_block_size. change CLI_MIN_BLOCKSIZE with 32. change CLI_MAX_BLOCKSIZE with 4194304. lia.
Qed.

Lemma parse_args_inv : forall args s s', opts_inv s -> parse_args s args = Some s' -> opts_inv s'.
Proof.
  induction args as [|a r IH]; intros s s' Hi H; cbn [parse_args] in H.
  - inversion H; subst; exact Hi.
  - destruct (parse_arg s a) as [s1|] eqn:E; [|discriminate].
    apply (IH s1 s'); [apply (parse_arg_inv s a s1 Hi E)|exact H].
Qed.

(* ================================================================ the pipelines *)
Lemma take4_app (a r : list byte) : length a = 4%nat -> take 4 (a ++ r) = Some (a, r).
Proof. intros H. rewrite <- H. apply take_app. Qed.
Lemma window_is_prefix : Z.to_nat PREFIX = 65536%nat.
Proof. reflexivity. Qed.

(* ---- vocabulary of the contracts ---- *)
(* [B] is a sequence of data blocks that takes a decoder which has produced [acc] to [acc ++ c] *)
Definition extends (bdec : list byte -> list byte -> option (list byte)) (skipcrc : bool)
           (D : fdesc) (maxb : Z) (dict acc B c : list Z) : Prop :=
  exists nb : nat, (nb <= length B)%nat /\
    forall fuel rest, blocks bdec skipcrc (nb + fuel) D maxb dict acc (B ++ rest)
                    = blocks bdec skipcrc fuel D maxb dict (acc ++ c) rest.

(* the frame descriptor the preferences ask for *)
Definition desc_of (p : lz4f_prefs) : fdesc :=
  mkDesc (negb (linked p)) (negb (fp_blockChecksum p =? 0))
         (if fp_contentSize p =? 0 then None else Some (fp_contentSize p))
         (negb (fp_contentChecksum p =? 0)) None (fp_blockSizeID p).
(* what the CLI guarantees about the preferences it hands over (theorem cli_prefs_valid) *)
Definition U64_MAX1 : Z := 18446744073709551616.
Definition valid_prefs (p : lz4f_prefs) (content : list Z) : Prop :=
  4 <= fp_blockSizeID p <= 7 /\ (fp_contentSize p = 0 \/ fp_contentSize p = lenZ content) /\
  0 <= fp_contentSize p < U64_MAX1.

Definition header_ok (hdr : list Z) (D : fdesc) (maxb : Z) : Prop :=
  bsid_size (f_bsid D) = Some maxb /\
  forall rest, exists mg r, take 4 (hdr ++ rest) = Some (mg, r) /\ le_val mg = MAGIC /\
                            parse_desc r = Some (D, rest).
Definition frame_tail (D : fdesc) (content : list Z) : list Z :=
  le_bytes 4 0 ++ (if f_ccrc D then le_bytes 4 (xxh32 0 content) else []).

(* ---- contracts of the library operations (they are properties C07, C03, C01) ---- *)
(* C07: LZ4F_compressBegin writes a header the specification parses back to the requested descriptor *)
Definition header_contract (LZ4F_header : lz4f_prefs -> list Z) : Prop :=
  forall p, 4 <= fp_blockSizeID p <= 7 -> 0 <= fp_contentSize p < U64_MAX1 ->
            exists maxb, header_ok (LZ4F_header p) (desc_of p) maxb.
(* C03 at block granularity: the blocks produced by one LZ4F_compressUpdate of a session begun with
   dictionary/prefix [d] that already consumed [prev] are decoded to the input by a decoder whose
   descriptor agrees on block mode / block checksum / block size and whose 64 KB history window is the
   compressor's (linked blocks), resp. whose dictionary is the compressor's (independent blocks) *)
Definition update_contract bdec skipcrc (LZ4F_update : lz4f_prefs -> list Z -> list (list Z) -> list Z -> list Z) : Prop :=
  forall p D maxb d prev c dict acc,
    f_indep D = negb (linked p) -> f_bcrc D = negb (fp_blockChecksum p =? 0) ->
    f_bsid D = fp_blockSizeID p -> bsid_size (f_bsid D) = Some maxb ->
    (if linked p then lastn 65536 (d ++ concat prev) = lastn 65536 (dict ++ acc) else d = dict) ->
    extends bdec skipcrc D maxb dict acc (LZ4F_update p d prev c) c.
(* C07: LZ4F_compressEnd = end mark ++ optional content checksum of everything consumed *)
Definition end_contract (LZ4F_end : lz4f_prefs -> list Z -> list Z) : Prop :=
  forall p content, LZ4F_end p content = frame_tail (desc_of p) content.
(* C03: one-shot frames decode to their input *)
Definition frame_contract bdec skipcrc (LZ4F_frame : lz4f_prefs -> list Z -> list Z -> list Z) : Prop :=
  forall p dict content, valid_prefs p content ->
    frame_decode bdec skipcrc dict (LZ4F_frame p dict content) = Some (content, []).
(* C01: block compressors round-trip and respect LZ4_compressBound *)
Definition block_contract (bdec : list byte -> list byte -> option (list byte)) (LZ4_block : Z -> list Z -> list Z) : Prop :=
  forall level c, lenZ c <= LEGACY_BLOCKSIZE ->
    bdec [] (LZ4_block level c) = Some c /\ lenZ (LZ4_block level c) <= LZ4IO_LEGACY_BOUND.
(* C13 (theorem C13_write_order = Proofs/WriteRegProofs.v write_order): whatever the order in which the
   jobs' results reach the write register, the buffers handed to fwrite are the results in rank order *)
Definition write_order_contract (wr : list (Z * list Z) -> list (list Z)) : Prop :=
  forall (blks : list (list Z)) (perm : list nat),
    Permutation perm (List.seq 0 (length blks)) ->
    wr (map (fun i => (Z.of_nat i, nth i blks [])) perm) = blks.

Section PipelineProofs.
  (* the block decoder and checksum switch of the frame specification (any instance) *)
  Variable bdec : list byte -> list byte -> option (list byte).
  Variable skipcrc : bool.
  (* the library operations the CLI calls *)
  Variable LZ4F_header : lz4f_prefs -> list Z.
  Variable LZ4F_frame : lz4f_prefs -> list Z -> list Z -> list Z.
  Variable LZ4F_update : lz4f_prefs -> list Z -> list (list Z) -> list Z -> list Z.
  Variable LZ4F_end : lz4f_prefs -> list Z -> list Z.
  Variable LZ4_block : Z -> list Z -> list Z.

  Hypothesis H_header : header_contract LZ4F_header.
  Hypothesis H_update : update_contract bdec skipcrc LZ4F_update.
  Hypothesis H_end : end_contract LZ4F_end.
  Hypothesis H_frame : frame_contract bdec skipcrc LZ4F_frame.
  Hypothesis H_block : block_contract bdec LZ4_block.

  Notation extends := (extends bdec skipcrc).

  Lemma extends_nil D maxb dict acc : extends D maxb dict acc [] [].
  Proof. exists 0%nat. split; [cbn; lia|]. intros fuel rest. cbn [Nat.add app]. rewrite app_nil_r. reflexivity. Qed.

  Lemma extends_app D maxb dict acc B1 c1 B2 c2 :
    extends D maxb dict acc B1 c1 -> extends D maxb dict (acc ++ c1) B2 c2 ->
    extends D maxb dict acc (B1 ++ B2) (c1 ++ c2).
  Proof.
    intros [n1 [L1 E1]] [n2 [L2 E2]]. exists (n1 + n2)%nat. split; [rewrite app_length; lia|].
    intros fuel rest. rewrite <- app_assoc, <- Nat.add_assoc, E1, E2, app_assoc. reflexivity.
  Qed.

  (* end mark and content checksum *)
  Lemma blocks_tail D maxb dict acc fuel :
    (f_csize D = None \/ f_csize D = Some 0 \/ f_csize D = Some (lenZ acc)) ->
    blocks bdec skipcrc (S fuel) D maxb dict acc (frame_tail D acc) = Some (acc, []).
  Proof.
    intros Hcs. unfold frame_tail. cbn [blocks].
    rewrite take4_app by apply le_bytes_length.
    change (le_val (le_bytes 4 0)) with 0. cbn [Z.eqb].
    assert (Hfin : match f_csize D with
                   | Some n => if (n =? 0) || (n =? Z.of_nat (length acc)) then Some (acc, @nil byte) else None
                   | None => Some (acc, [])
                   end = Some (acc, [])).
    { destruct Hcs as [E|[E|E]]; rewrite E; [reflexivity|reflexivity|].
      fold (lenZ acc). rewrite Z.eqb_refl, orb_true_r. reflexivity. }
    destruct (f_ccrc D).
    - rewrite <- (app_nil_r (le_bytes 4 (xxh32 0 acc))). rewrite take4_app by apply le_bytes_length.
      rewrite le_val_le_bytes4 by apply xxh32_range. rewrite Z.eqb_refl, orb_true_r. exact Hfin.
    - exact Hfin.
  Qed.

  Lemma frame_assemble D maxb hdr dict body content :
    header_ok hdr D maxb -> extends D maxb dict [] body content ->
    (f_csize D = None \/ f_csize D = Some 0 \/ f_csize D = Some (lenZ content)) ->
    frame_decode bdec skipcrc dict (hdr ++ body ++ frame_tail D content) = Some (content, []).
  Proof.
    intros [Hb Hh] [nb [Lnb E]] Hcs. unfold frame_decode.
    destruct (Hh (body ++ frame_tail D content)) as [mg [r [Ht [Hm Hp]]]].
    rewrite Ht, Hm, Z.eqb_refl, Hp, Hb.
    rewrite app_length.
    replace (S (length body + length (frame_tail D content)))
      with (nb + S (length body - nb + length (frame_tail D content)))%nat by lia.
    rewrite E. cbn [app]. apply blocks_tail. exact Hcs.
  Qed.

  Lemma stream_of_frame dict F c :
    frame_decode bdec skipcrc dict F = Some (c, []) ->
    stream_decode bdec skipcrc (S (length F)) dict [] F = Some c.
  Proof.
    intros H. destruct F as [|b F'].
    - unfold frame_decode in H. cbn in H. discriminate.
    - set (F := b :: F') in *. cbn [stream_decode]. fold F.
      assert (Hm : exists mg r, take 4 F = Some (mg, r) /\ (le_val mg =? MAGIC) = true).
      { unfold frame_decode in H. destruct (take 4 F) as [[mg r]|]; [|discriminate].
        exists mg, r. split; [reflexivity|]. destruct (le_val mg =? MAGIC); [reflexivity|discriminate]. }
      destruct Hm as [mg [r [Ht Hm]]]. unfold F at 1. rewrite Ht, Hm, H.
      unfold F. cbn [length stream_decode app]. reflexivity.
  Qed.

  (* ---------------------------------------------------------------- ST *)
  Lemma st_updates_extends p dict D maxb :
    f_indep D = negb (linked p) -> f_bcrc D = negb (fp_blockChecksum p =? 0) ->
    f_bsid D = fp_blockSizeID p -> bsid_size (f_bsid D) = Some maxb ->
    forall cs prev, extends D maxb dict (concat prev) (st_updates LZ4F_update p dict prev cs) (concat cs).
  Proof.
    intros H1 H2 H3 H4. induction cs as [|c r IH]; intros prev.
    - apply extends_nil.
    - cbn [st_updates concat]. apply extends_app.
      + apply H_update; try assumption. destruct (linked p); reflexivity.
      + replace (concat prev ++ c) with (concat (prev ++ [c])); [apply IH|].
        rewrite concat_app. cbn [concat]. rewrite app_nil_r. reflexivity.
  Qed.

  Theorem st_roundtrip (p : lz4f_prefs) (blockSize : Z) (dict content : list Z) :
    1 <= blockSize -> valid_prefs p content ->
    let F := st_output LZ4F_header LZ4F_frame LZ4F_update LZ4F_end p blockSize dict content in
    stream_decode bdec skipcrc (S (length F)) dict [] F = Some content.
  Proof.
    intros Hbs Hv. cbv zeta. apply stream_of_frame. unfold st_output.
    destruct (lenZ content <? blockSize); [apply H_frame; exact Hv|].
    destruct Hv as [Hid [Hcs Hu]].
    destruct (H_header p Hid Hu) as [maxb Hh].
    rewrite H_end.
    apply frame_assemble with (maxb := maxb); [exact Hh| |].
    - rewrite <- (chunks_of_concat blockSize content Hbs) at 2.
      apply (st_updates_extends p dict (desc_of p) maxb); try reflexivity. apply Hh.
    - cbn [desc_of f_csize]. destruct Hcs as [E|E]; rewrite E.
      + left. reflexivity.
      + destruct (lenZ content =? 0) eqn:E0; [left; reflexivity|right; right; reflexivity].
  Qed.

  (* ---------------------------------------------------------------- MT *)
  Lemma linked_no_ccrc p : linked (no_ccrc p) = linked p.
  Proof. reflexivity. Qed.

  Lemma mt_chunks_extends p dict cs D maxb :
    f_indep D = negb (linked p) -> f_bcrc D = negb (fp_blockChecksum p =? 0) ->
    f_bsid D = fp_blockSizeID p -> bsid_size (f_bsid D) = Some maxb ->
    (forall k, (S k < length cs)%nat -> lenZ (nth k cs []) = CHUNK) ->
    forall suf pre, cs = pre ++ suf ->
      extends D maxb dict (concat pre)
              (concat (map (mt_chunk LZ4F_update p dict cs) (List.seq (length pre) (length suf))))
              (concat suf).
  Proof.
    intros H1 H2 H3 H4 Hfull. induction suf as [|c suf IH]; intros pre Hcs.
    - apply extends_nil.
    - cbn [length List.seq map concat]. apply extends_app.
      + unfold mt_chunk. rewrite Hcs at 2. rewrite nth_middle.
        apply H_update; try assumption. rewrite linked_no_ccrc.
        destruct (linked p) eqn:El; cbn [andb]; [|reflexivity].
        destruct pre as [|x pre0] using rev_ind.
        * cbn [length Nat.eqb negb concat]. reflexivity.
        * clear IHpre0. rewrite app_length. cbn [length]. rewrite Nat.add_1_r. cbn [Nat.eqb negb].
          unfold prefix_of. rewrite Hcs at 1. rewrite <- app_assoc. cbn [app]. rewrite nth_middle.
          assert (Hx : lenZ x = CHUNK).
          { specialize (Hfull (length pre0)).
            rewrite Hcs in Hfull at 2. rewrite <- app_assoc in Hfull. cbn [app] in Hfull. rewrite nth_middle in Hfull.
            apply Hfull. rewrite Hcs, !app_length. cbn [length]. lia. }
          rewrite window_is_prefix. cbn [concat]. rewrite app_nil_r, lastn_lastn.
          rewrite concat_app. cbn [concat]. rewrite app_nil_r, app_assoc.
          symmetry. apply lastn_app_ge.
          unfold lenZ, CHUNK in Hx. change CLI_CHUNK_SIZE with 4194304 in Hx.
          assert (Z.of_nat 65536 = 65536) by reflexivity. lia.
      + replace (concat pre ++ c) with (concat (pre ++ [c])) by (rewrite concat_app; cbn [concat]; rewrite app_nil_r; reflexivity).
        replace (S (length pre)) with (length (pre ++ [c])) by (rewrite app_length; cbn [length]; lia).
        apply IH. rewrite <- app_assoc. exact Hcs.
  Qed.

  Theorem mt_roundtrip (p : lz4f_prefs) (dict content : list Z) :
    valid_prefs p content ->
    let F := mt_output LZ4F_header LZ4F_frame LZ4F_update p dict content in
    stream_decode bdec skipcrc (S (length F)) dict [] F = Some content.
  Proof.
    intros Hv. cbv zeta. apply stream_of_frame. unfold mt_output.
    destruct (lenZ content <? CHUNK); [apply H_frame; exact Hv|].
    destruct Hv as [Hid [Hcs Hu]].
    destruct (H_header p Hid Hu) as [maxb Hh].
    assert (HC : 1 <= CHUNK) by (apply Z.leb_le; reflexivity).
    replace (mt_tail p content) with (frame_tail (desc_of p) content)
      by (unfold mt_tail, frame_tail, desc_of; cbn [f_ccrc]; destruct (fp_contentChecksum p =? 0); reflexivity).
    apply frame_assemble with (maxb := maxb); [exact Hh| |].
    - rewrite <- (chunks_of_concat CHUNK content HC) at 3.
      apply (mt_chunks_extends p dict (chunks_of CHUNK content) (desc_of p) maxb) with (pre := []);
        try reflexivity; [apply Hh|].
      intros k Hk. apply chunks_nth_full; [exact HC|lia|exact Hk].
    - cbn [desc_of f_csize]. destruct Hcs as [E|E]; rewrite E.
      + left. reflexivity.
      + destruct (lenZ content =? 0) eqn:E0; [left; reflexivity|right; right; reflexivity].
  Qed.

  (* the file assembled at run time from the jobs' results, whatever order they complete in.
     [wr] is the write register; its in-order property is property C13 (theorem C13_write_order,
     Proofs/WriteRegProofs.v write_order, of the MT pipeline model), taken here as hypothesis. *)
  Variable wr : list (Z * list Z) -> list (list Z).
  Hypothesis C13_write_order : write_order_contract wr.

  Theorem mt_deterministic (p : lz4f_prefs) (dict content : list Z) (nbWorkers : Z) (order : list nat) :
    1 <= nbWorkers ->
    CHUNK <= lenZ content ->
    let cs := chunks_of CHUNK content in
    let results := map (mt_chunk LZ4F_update p dict cs) (List.seq 0 (length cs)) in
    Permutation order (List.seq 0 (length cs)) ->        (* completion order of the compression jobs *)
    mt_assembled LZ4F_header wr p content (map (fun i => (Z.of_nat i, nth i results [])) order)
    = mt_output LZ4F_header LZ4F_frame LZ4F_update p dict content.
  Proof.
    intros _ Hbig cs results Hperm. unfold mt_assembled, mt_output.
    destruct (lenZ content <? CHUNK) eqn:E; [apply Z.ltb_lt in E; lia|].
    fold cs. fold results. rewrite C13_write_order; [reflexivity|].
    unfold results. rewrite map_length, seq_length. exact Hperm.
  Qed.

  (* ---------------------------------------------------------------- legacy *)
  Lemma legacy_blocks_step fuel acc x y :
    legacy_blocks bdec (S fuel) acc (x :: y) =
    match take 4 (x :: y) with
    | None => None
    | Some (szb, r) =>
      let w := le_val szb in
      if is_magic w then Some (acc, x :: y) else
      match take (Z.to_nat w) r with
      | None => None
      | Some (data, r1) =>
        match bdec [] data with
        | None => None
        | Some c => if LEGACY_BLOCK <? Z.of_nat (length c) then None
                    else legacy_blocks bdec fuel (acc ++ c) r1
        end
      end
    end.
  Proof. reflexivity. Qed.

  Lemma legacy_blocks_ok level : forall cs acc fuel,
    Forall (fun c => lenZ c <= LEGACY_BLOCKSIZE) cs ->
    (length (concat (map (legacy_block LZ4_block level) cs)) < fuel)%nat ->
    legacy_blocks bdec fuel acc (concat (map (legacy_block LZ4_block level) cs)) = Some (acc ++ concat cs, []).
  Proof.
    induction cs as [|c r IH]; intros acc fuel Hall Hf.
    - destruct fuel; [lia|]. cbn. rewrite app_nil_r. reflexivity.
    - inversion Hall as [|? ? Hc Hr]; subst.
      destruct (H_block level c Hc) as [Hdec Hbound].
      destruct fuel as [|fuel]; [lia|].
      cbn [map concat] in *. unfold legacy_block at 1. unfold legacy_block at 1 in Hf.
      set (b := LZ4_block level c) in *.
      set (rest := concat (map (legacy_block LZ4_block level) r)) in *.
      assert (Hb0 : 0 <= lenZ b) by apply lenZ_nonneg.
      assert (HB : LZ4IO_LEGACY_BOUND = 8421520) by reflexivity.
      rewrite <- !app_assoc. unfold byte in *.
      assert (Hcons : exists x y, le_bytes 4 (lenZ b) ++ b ++ rest = x :: y) by (cbn [le_bytes app]; eauto).
      destruct Hcons as [x [y Hxy]]. unfold byte in *.
      rewrite Hxy, legacy_blocks_step. unfold byte in *. rewrite <- Hxy. cbv zeta.
      rewrite take4_app by apply le_bytes_length.
      rewrite le_val_le_bytes4 by lia.
      assert (Hmg : is_magic (lenZ b) = false).
      { unfold is_magic, MAGIC, MAGIC_LEGACY, MAGIC_SKIP_LO, MAGIC_SKIP_HI.
        destruct (lenZ b =? 407708164) eqn:E1; [apply Z.eqb_eq in E1; lia|].
        destruct (lenZ b =? 407642370) eqn:E2; [apply Z.eqb_eq in E2; lia|].
        destruct (407710288 <=? lenZ b) eqn:E3; [apply Z.leb_le in E3; lia|]. reflexivity. }
      rewrite Hmg.
      replace (Z.to_nat (lenZ b)) with (length b) by (unfold lenZ; lia).
      rewrite take_app, Hdec.
      assert (HL : LEGACY_BLOCK = LEGACY_BLOCKSIZE) by reflexivity.
      destruct (LEGACY_BLOCK <? Z.of_nat (length c)) eqn:E; [apply Z.ltb_lt in E; unfold lenZ in Hc; lia|].
      rewrite IH; [rewrite <- app_assoc; reflexivity|exact Hr|].
      rewrite !app_length, le_bytes_length in Hf. lia.
  Qed.

  Lemma stream_decode_step fuel dict acc x y :
    stream_decode bdec skipcrc (S fuel) dict acc (x :: y) =
    match take 4 (x :: y) with
    | None => None
    | Some (mg, r) =>
      let w := le_val mg in
      if w =? MAGIC then
        match frame_decode bdec skipcrc dict (x :: y) with
        | Some (c, rest) => stream_decode bdec skipcrc fuel dict (acc ++ c) rest
        | None => None
        end
      else if w =? MAGIC_LEGACY then
        match legacy_blocks bdec (S (length r)) [] r with
        | Some (c, rest) => stream_decode bdec skipcrc fuel dict (acc ++ c) rest
        | None => None
        end
      else if (MAGIC_SKIP_LO <=? w) && (w <=? MAGIC_SKIP_HI) then
        match take 4 r with
        | None => None
        | Some (szb, r1) =>
          match take (Z.to_nat (le_val szb)) r1 with
          | Some (_, rest) => stream_decode bdec skipcrc fuel dict acc rest
          | None => None
          end
        end
      else None
    end.
  Proof. reflexivity. Qed.

  Theorem legacy_roundtrip (level : Z) (dict content : list Z) :
    let F := legacy_output LZ4_block level content in
    stream_decode bdec skipcrc (S (length F)) dict [] F = Some content.
  Proof.
    cbv zeta. unfold legacy_output.
    set (body := concat (map (legacy_block LZ4_block level) (chunks_of LEGACY_BLOCKSIZE content))).
    assert (Hm : le_bytes 4 LEGACY_MAGICNUMBER = [2; 33; 76; 24]) by reflexivity.
    rewrite Hm. change ([2; 33; 76; 24] ++ body) with (2 :: ([33; 76; 24] ++ body)).
    rewrite stream_decode_step.
    change (take 4 (2 :: [33; 76; 24] ++ body)) with (Some ([2; 33; 76; 24], body)).
    cbv zeta.
    assert (E1 : (le_val [2; 33; 76; 24] =? MAGIC) = false) by reflexivity.
    assert (E2 : (le_val [2; 33; 76; 24] =? MAGIC_LEGACY) = true) by reflexivity.
    unfold byte in *. rewrite E1, E2.
    assert (HL : 1 <= LEGACY_BLOCKSIZE) by (apply Z.leb_le; reflexivity).
    pose proof (legacy_blocks_ok level (chunks_of LEGACY_BLOCKSIZE content) [] (S (length body))) as HLB.
    fold body in HLB. unfold byte in *. rewrite HLB.
    - cbn [app]. rewrite chunks_of_concat by exact HL.
      cbn [length]. reflexivity.
    - apply chunks_le. lia.
    - lia.
  Qed.

  (* ---------------------------------------------------------------- the whole CLI, every option list *)
  Theorem cli_roundtrip (mt : bool) (args : list arg) (s : cli_state) (fileSize : Z) (dict content : list Z) :
    parse_args cli_init args = Some s ->                 (* any accepted list of modelled switches *)
    (fileSize = 0 \/ fileSize = lenZ content) ->         (* size unknown (pipe) or the real size *)
    lenZ content < U64_MAX1 ->                           (* file sizes are 64-bit *)
    let F := cli_compress LZ4F_header LZ4F_frame LZ4F_update LZ4F_end LZ4_block mt s fileSize dict content in
    stream_decode bdec skipcrc (S (length F)) dict [] F = Some content.
  Proof.
    intros Hp Hsz H64. cbv zeta. unfold cli_compress.
    pose proof (parse_args_inv args cli_init s cli_init_inv Hp) as [Hid Hbs].
    destruct (c_legacy s); [apply legacy_roundtrip|].
    assert (Hv : valid_prefs (prefs_of s fileSize) content).
    { split; [exact Hid|]. cbn [prefs_of fp_contentSize]. pose proof (lenZ_nonneg content) as H0.
      unfold U64_MAX1 in *.
      destruct (io_contentSizeFlag (c_prefs s) =? 0); [split; [left; reflexivity|lia]|].
      destruct Hsz as [E|E]; (split; [first [left; exact E|right; exact E]|lia]). }
    destruct mt; [apply mt_roundtrip; exact Hv|apply st_roundtrip; [exact Hbs|exact Hv]].
  Qed.
End PipelineProofs.

(* ================================================================ satisfiability of the C13 hypothesis *)
(* a reference write register: look every rank up among the arrivals *)
Definition wr_ref (arr : list (Z * list Z)) : list (list Z) :=
  map (fun i => match find (fun x => fst x =? Z.of_nat i) arr with Some x => snd x | None => [] end)
      (List.seq 0 (length arr)).

Lemma find_rank (blks : list (list Z)) i : forall perm, In i perm ->
  find (fun x => fst x =? Z.of_nat i) (map (fun j => (Z.of_nat j, nth j blks [])) perm)
  = Some (Z.of_nat i, nth i blks []).
Proof.
  induction perm as [|j r IH]; intros Hin; [destruct Hin|].
  cbn [map find fst]. destruct (Z.of_nat j =? Z.of_nat i) eqn:E.
  - apply Z.eqb_eq in E. apply Nat2Z.inj in E. subst j. reflexivity.
  - apply IH. destruct Hin as [H|H]; [subst j; rewrite Z.eqb_refl in E; discriminate|exact H].
Qed.

Lemma wr_ref_in_order : write_order_contract wr_ref.
Proof.
  intros blks perm HP. unfold wr_ref. rewrite map_length.
  assert (Hl : length perm = length blks) by (rewrite (Permutation_length HP); apply seq_length).
  rewrite Hl.
  apply nth_ext with (d := []) (d' := []); [rewrite map_length, seq_length; reflexivity|].
  intros i Hi. rewrite map_length, seq_length in Hi.
  set (f := fun i0 : nat => match find _ _ with Some x => snd x | None => [] end).
  rewrite (nth_indep _ [] (f 0%nat)) by (rewrite map_length, seq_length; exact Hi).
  rewrite map_nth, seq_nth by exact Hi. cbn [Nat.add]. unfold f.
  rewrite find_rank; [reflexivity|].
  apply (Permutation_in i (Permutation_sym HP)). apply in_seq. lia.
Qed.

(* ================================================================ layout functions vs chunking *)
(* the layout functions compared with the real outputs compute the sizes of the very chunks the theorems speak about *)
Lemma chunks_pieces sz : 1 <= sz -> forall f1 f2 l,
  (length l < f1)%nat -> (Z.to_nat (lenZ l / sz) < f2)%nat ->
  map lenZ (chunks f1 sz l) = piece_sizes f2 (lenZ l) sz.
Proof.
  intros Hsz. induction f1 as [|f1 IH]; intros f2 l H1 H2; [lia|].
  destruct f2 as [|f2]; [lia|].
  destruct l as [|x r].
  - cbn [chunks map piece_sizes]. reflexivity.
  - change (chunks (S f1) sz (x :: r)) with (takeZ sz (x :: r) :: chunks f1 sz (dropZ sz (x :: r))).
    set (l := x :: r) in *.
    assert (Hn : 0 < lenZ l) by (unfold l; rewrite lenZ_cons; pose proof (lenZ_nonneg r); lia).
    cbn [map piece_sizes].
    destruct (lenZ l <=? 0) eqn:E0; [apply Z.leb_le in E0; lia|].
    f_equal.
    + destruct (lenZ l <? sz) eqn:E.
      * apply Z.ltb_lt in E. rewrite takeZ_all by lia. reflexivity.
      * apply Z.ltb_ge in E. apply lenZ_takeZ. lia.
    + destruct (Z_le_gt_dec (lenZ l) sz) as [Hle|Hgt].
      * assert (Hd : dropZ sz l = []) by (unfold dropZ, lenZ in *; apply skipn_all2; lia).
        rewrite Hd. replace (chunks f1 sz []) with (@nil (list Z)) by (destruct f1; reflexivity).
        destruct f2; cbn [map piece_sizes]; [reflexivity|].
        destruct (lenZ l - sz <=? 0) eqn:E1; [reflexivity|apply Z.leb_gt in E1; lia].
      * assert (Hdl : lenZ (dropZ sz l) = lenZ l - sz) by (apply lenZ_dropZ; lia).
        rewrite <- Hdl. apply IH.
        -- unfold dropZ. rewrite skipn_length. unfold l in *. cbn [length] in *. lia.
        -- rewrite Hdl.
           assert (Hq : (lenZ l - sz) / sz = lenZ l / sz - 1).
           { replace (lenZ l - sz) with (lenZ l + (-1) * sz) by lia. rewrite Z.div_add by lia. lia. }
           rewrite Hq. assert (1 <= lenZ l / sz) by (apply Z.div_le_lower_bound; lia). lia.
Qed.

Theorem layout_link (sz : Z) (l : list Z) : 1 <= sz ->
  map lenZ (chunks_of sz l) = pieces (lenZ l) sz.
Proof. intros H. apply chunks_pieces; [exact H|lia|lia]. Qed.
