(* "The parsers emit bytes": every element of the output of the HC parsers (LZ4MID, hash chain, optimal) is in [0,256),
   under the hypotheses of their soundness theorems (byte-valued memory, index ranges).

   Derivation: the soundness proofs establish that the output is the SPECIFICATION'S ENCODING [encode_block ss last] of a
   factorisation [ss] of the byte-valued source (the [out_ok] invariant of Proofs.HcMidSound / HcChainSound, every emitted
   sequence = [encode_seq] by HcEmitProofs.encodeSequence_encoding); [seqs_valid] sequences over a byte memory are
   [seq_wf] (literals are bytes, 1 <= offset <= 65535, 4 <= match length), and BlockSpecProofs.encode_block_bytes says
   that the encoding of well-formed sequences is a byte string (token = nibbles, 255-runs and remainder, offset mod / div
   256).  That fact is now the last conjunct of HcMidSound.RSpec and HcChainSound.RSpec (proved where the block is
   finished: last_literals / c_last_literals, the only producers of MOk / COk), so the parser walks carry it unchanged.

   This file exports it at every level where a guard used to stand in for it: the parsers, the one-shot entry points
   (LZ4_compress_HC_extStateHC_fastReset at LZ4MID and at levels 3..12). *)
From Coq Require Import ZArith List Lia Bool ZifyBool.
From LZ4V Require Import Gen.Consts Spec.BlockSpec Model.Mem Model.Fast Model.FastApi Model.HcEmit Model.HcMid Model.HcMidApi
     Model.HcChain Model.HcChainApi Model.HcOpt Model.HcOptApi.
From LZ4V Require Import Proofs.BlockSpecProofs Proofs.FactorSpec Proofs.FastBasics Proofs.FastSound Proofs.FastCap Proofs.FastApiSound.
From LZ4V Require Import Proofs.HcMidSound Proofs.HcMidCap Proofs.HcMidApiSound.
From LZ4V Require Import Proofs.HcChainSearch Proofs.HcChainSound Proofs.HcChainCap Proofs.HcChainParser Proofs.HcChainApiSound
     Proofs.HcOptParser Proofs.HcOptApiSound.
Import ListNotations.
Local Open Scope Z_scope.

(* ---- the parsers ---- *)
Definition mres_bytes (r : mres) : Prop := match r with MOk _ _ out _ _ _ => bytes_ok out = true | _ => True end.
Definition cres_bytes (r : cres) : Prop := match r with COk _ _ out _ _ => bytes_ok out = true | _ => True end.

Lemma mres_bytes_of_RSpec vrd lim s0 srcSize lo r : HcMidSound.RSpec vrd lim s0 srcSize lo r -> mres_bytes r.
Proof. destruct r; cbn; [trivial | | trivial]. intros (_ & _ & _ & _ & _ & _ & _ & H). exact H. Qed.

Lemma cres_bytes_of_RSpec vrd lim dictIdx s0 srcSize r : HcChainSound.RSpec vrd lim dictIdx s0 srcSize r -> cres_bytes r.
Proof. destruct r; cbn; [trivial | | trivial]. intros (_ & _ & _ & _ & _ & _ & H). exact H. Qed.

(* LZ4MID (LZ4MID_compress), any tables below the block, any verified dictionary-context search *)
Theorem mid_compress_bytes :
  forall vrd lim prefixIdx dictIdx s0 srcSize maxOut lo dsrch h4 h8,
    (forall a, 0 <= vrd a < 256) ->
    0 <= dictIdx /\ dictIdx <= prefixIdx /\ prefixIdx <= s0 /\ s0 + srcSize < M32 -> 0 <= srcSize ->
    0 <= lo <= dictIdx ->
    (forall ip f, s0 <= ip <= HcMid.mi_mflimit s0 srcSize -> dsrch ip = Some f -> HcMidSound.found_ok vrd s0 srcSize lo ip f) ->
    HcMidSound.tab_lt h4 s0 -> HcMidSound.tab_lt h8 s0 ->
    mres_bytes (HcMid.mid_compress vrd lim prefixIdx dictIdx s0 srcSize maxOut dsrch h4 h8).
Proof. intros. eapply mres_bytes_of_RSpec. apply HcMidSound.mid_compress_sound; eassumption. Qed.

(* hash chain (LZ4HC_compress_hashChain), any tables *)
Theorem hc_compress_bytes :
  forall vrd lim prefixIdx dictIdx s0 srcSize maxOut nb,
    (forall a, 0 <= vrd a < 256) ->
    65536 <= dictIdx /\ dictIdx <= prefixIdx /\ prefixIdx <= s0 /\ s0 + srcSize < M32 - 65536 ->
    0 <= srcSize -> 0 <= maxOut -> (lim = FillOutput -> 1 <= maxOut) ->
    forall t, HcChainSearch.TB t s0 ->
    cres_bytes (HcChain.hc_compress vrd prefixIdx dictIdx lim s0 srcSize maxOut nb t).
Proof. intros. eapply cres_bytes_of_RSpec. apply HcChainParser.hc_compress_ok; assumption. Qed.

(* optimal parser (LZ4HC_compress_optimal), any tables / nbSearches / targetLength / ultra / favorDecSpeed *)
Theorem opt_compress_bytes :
  forall vrd lim prefixIdx dictIdx s0 srcSize maxOut nb targetLength ultra fav,
    (forall a, 0 <= vrd a < 256) ->
    65536 <= dictIdx /\ dictIdx <= prefixIdx /\ prefixIdx <= s0 /\ s0 + srcSize < M32 - 65536 ->
    0 <= srcSize -> 0 <= maxOut -> (lim = FillOutput -> 1 <= maxOut) ->
    forall t, HcChainSearch.TB t s0 ->
    cres_bytes (HcOpt.opt_compress vrd prefixIdx dictIdx lim s0 srcSize maxOut nb targetLength ultra fav t).
Proof. intros. eapply cres_bytes_of_RSpec. apply HcOptParser.opt_compress_ok; assumption. Qed.

(* ---- the one-shot entry points ---- *)
Theorem hc_generic_mid_bytes c start src srcSize cap lim :
  src_ok src -> 65536 <= start <= 1073741824 + 65536 -> tab_lt (hc_h4 c) start -> tab_lt (hc_h8 c) start ->
  0 <= srcSize < 2147483648 -> 0 <= cap ->
  bytes_ok (hr_out (hc_generic_mid c start src srcSize cap lim)) = true.
Proof.
  intros Hsrc Hst T4 T8 [Hsz Hint] Hcap. unfold hc_generic_mid.
  destruct (match lim with FillOutput => cap <? 1 | _ => false end) eqn:E0; [reflexivity|].
  destruct (u32 srcSize >? LZ4_MAX_INPUT_SIZE) eqn:E1; [reflexivity|].
  assert (Hmax : srcSize <= LZ4_MAX_INPUT_SIZE).
  { rewrite u32_id in E1 by (unfold M32; lia). lia. }
  cbv zeta.
  set (vrd := fun p => get src (p - start)).
  assert (Hb : forall a, 0 <= vrd a < 256) by (intros a; apply Hsrc).
  assert (Hidx : 0 <= start /\ start <= start /\ start <= start /\ start + srcSize < M32)
    by (unfold M32, LZ4_MAX_INPUT_SIZE in *; lia).
  assert (Hlo : 0 <= start <= start) by lia.
  assert (Hnd : forall ip f, start <= ip <= mi_mflimit start srcSize -> (fun _ : Z => @None found) ip = Some f -> found_ok vrd start srcSize start ip f)
    by (intros ip f _ Hx; discriminate Hx).
  pose proof (mid_compress_bytes vrd lim start start start srcSize cap start (fun _ => None) (hc_h4 c) (hc_h8 c) Hb Hidx Hsz Hlo Hnd T4 T8) as HB.
  destruct (mid_compress vrd lim start start start srcSize cap (fun _ => None) (hc_h4 c) (hc_h8 c)) as [h4 h8 hw | ret consumed out h4 h8 hw | ];
    [reflexivity | exact HB | reflexivity].
Qed.

(* LZ4_compress_HC_extStateHC_fastReset at LZ4MID levels, any prior state of the context *)
Theorem compress_HC_fastReset_mid_bytes c src srcSize cap :
  hc_ok c -> src_ok src -> 0 <= srcSize < 2147483648 -> 0 <= cap ->
  bytes_ok (hr_out (compress_HC_fastReset_mid c src srcSize cap)) = true.
Proof.
  intros Hc Hsrc Hsz Hcap. unfold compress_HC_fastReset_mid.
  pose proof (hc_reset_fast_ok c Hc) as HR. cbv zeta in HR. destruct HR as (R0 & R1 & R2 & R3).
  pose proof (hc_init_internal_ok (hc_reset_fast c) R1 R2 R3) as HI.
  destruct (hc_init_internal (hc_reset_fast c)) as [c1 start]. destruct HI as (I1 & I2 & I3 & I4).
  apply hc_generic_mid_bytes; assumption.
Qed.

Theorem cc_generic_bytes c src srcSize cap cLevel lim :
  src_ok src -> 65536 <= cc_endIdx c <= 1073741824 + 65536 -> TB (cc_tabs c) (cc_endIdx c) ->
  0 <= srcSize < 2147483648 -> 0 <= cap ->
  bytes_ok (cr_out (cc_generic c src srcSize cap cLevel lim)) = true.
Proof.
  intros Hsrc Hst HT [Hsz Hint] Hcap. unfold cc_generic. cbv zeta.
  set (start := cc_endIdx c) in *.
  destruct (match lim with FillOutput => cap <? 1 | _ => false end) eqn:E0; [reflexivity|].
  destruct (u32 srcSize >? LZ4_MAX_INPUT_SIZE) eqn:E1; [reflexivity|].
  assert (Hmax : srcSize <= LZ4_MAX_INPUT_SIZE).
  { rewrite u32_id in E1 by (unfold M32; lia). lia. }
  destruct (negb (chain_level cLevel)); [reflexivity|].
  set (vrd := fun p => get src (p - start)).
  assert (Hb : forall a, 0 <= vrd a < 256) by (intros a; apply Hsrc).
  assert (Hidx : 65536 <= start /\ start <= start /\ start <= start /\ start + srcSize < M32 - 65536)
    by (unfold M32, LZ4_MAX_INPUT_SIZE in *; lia).
  assert (Hfill : lim = FillOutput -> 1 <= cap) by (intros ->; lia).
  pose proof (hc_compress_bytes vrd lim start start start srcSize cap (snd (cl_params cLevel)) Hb Hidx Hsz Hcap Hfill
                (mkHT (cc_hash c) (cc_chain c) (cc_ntu c)) HT) as HB.
  destruct (hc_compress vrd start start lim start srcSize cap (snd (cl_params cLevel)) (mkHT (cc_hash c) (cc_chain c) (cc_ntu c)))
    as [t hw | ret consumed out t hw | ]; [reflexivity | exact HB | reflexivity].
Qed.

Theorem cc_generic_opt_bytes c src srcSize cap cLevel lim :
  src_ok src -> 65536 <= cc_endIdx c <= 1073741824 + 65536 -> TB (cc_tabs c) (cc_endIdx c) ->
  0 <= srcSize < 2147483648 -> 0 <= cap ->
  bytes_ok (cr_out (cc_generic_opt c src srcSize cap cLevel lim)) = true.
Proof.
  intros Hsrc Hst HT [Hsz Hint] Hcap. unfold cc_generic_opt. cbv zeta.
  set (start := cc_endIdx c) in *.
  destruct (match lim with FillOutput => cap <? 1 | _ => false end) eqn:E0; [reflexivity|].
  destruct (u32 srcSize >? LZ4_MAX_INPUT_SIZE) eqn:E1; [reflexivity|].
  assert (Hmax : srcSize <= LZ4_MAX_INPUT_SIZE).
  { rewrite u32_id in E1 by (unfold M32; lia). lia. }
  destruct (negb (opt_level cLevel)); [reflexivity|].
  set (vrd := fun p => get src (p - start)).
  assert (Hb : forall a, 0 <= vrd a < 256) by (intros a; apply Hsrc).
  assert (Hidx : 65536 <= start /\ start <= start /\ start <= start /\ start + srcSize < M32 - 65536)
    by (unfold M32, LZ4_MAX_INPUT_SIZE in *; lia).
  assert (Hfill : lim = FillOutput -> 1 <= cap) by (intros ->; lia).
  pose proof (opt_compress_bytes vrd lim start start start srcSize cap (snd (cl_params cLevel)) (cl_target cLevel) (cLevel >=? LZ4HC_CLEVEL_MAX) (cc_fav c)
                Hb Hidx Hsz Hcap Hfill (mkHT (cc_hash c) (cc_chain c) (cc_ntu c)) HT) as HB.
  destruct (opt_compress vrd start start lim start srcSize cap (snd (cl_params cLevel)) (cl_target cLevel) (cLevel >=? LZ4HC_CLEVEL_MAX) (cc_fav c) (mkHT (cc_hash c) (cc_chain c) (cc_ntu c)))
    as [t hw | ret consumed out t hw | ]; [reflexivity | exact HB | reflexivity].
Qed.

Theorem cc_generic_all_bytes c src srcSize cap cLevel lim :
  src_ok src -> 65536 <= cc_endIdx c <= 1073741824 + 65536 -> TB (cc_tabs c) (cc_endIdx c) ->
  0 <= srcSize < 2147483648 -> 0 <= cap ->
  bytes_ok (cr_out (cc_generic_all c src srcSize cap cLevel lim)) = true.
Proof.
  intros Hsrc Hst HT Hsz Hcap. unfold cc_generic_all.
  destruct (chain_level cLevel); [apply cc_generic_bytes | apply cc_generic_opt_bytes]; assumption.
Qed.

(* LZ4_compress_HC_extStateHC_fastReset at the levels 3..12, any prior state of the context *)
Theorem compress_HC_fastReset_all_bytes c src srcSize cap cLevel :
  cc_ok c -> src_ok src -> 0 <= srcSize < 2147483648 -> 0 <= cap ->
  bytes_ok (cr_out (compress_HC_fastReset_all c src srcSize cap cLevel)) = true.
Proof.
  intros Hc Hsrc Hsz Hcap. unfold compress_HC_fastReset_all.
  pose proof (cc_reset_fast_ok c Hc) as HR. cbv zeta in HR. destruct HR as (R0 & R1 & R2).
  pose proof (cc_init_internal_ok (cc_reset_fast c) R1 R2) as HI. cbv zeta in HI. destruct HI as (I1 & I2 & I3 & I4).
  cbv zeta. apply cc_generic_all_bytes; assumption.
Qed.

(* ---- LZ4_compress_fast_extState_fastReset: the byte fact of FastApiSound.compress_generic_nodict_sound at the entry point ---- *)
Theorem compress_fast_extState_fastReset_bytes c src srcSize cap accel :
  src_ok src -> ctx_ok c ->
  let a := compress_fast_extState_fastReset c src srcSize cap accel in
  0 < a_ret a -> bytes_ok (a_out a) = true.
Proof.
  intros Hsrc Hc. unfold compress_fast_extState_fastReset. cbv zeta.
  pose proof (clamp_accel_ge accel) as Hacc.
  pose proof (prepareTable_cases c srcSize (ttype_for srcSize) Hc) as P. cbv zeta in P.
  destruct P as (P0 & P1 & P3 & P4).
  set (c1 := prepareTable c srcSize (ttype_for srcSize)) in *.
  assert (P3' : tab_ok (ttype_for srcSize) CNoDict
                  (match ttype_for srcSize with ByU16 => negb (f_cur c1 =? 0) | ByU32 => false end)
                  (f_cur c1) (f_dictSize c1) 0 (f_cur c1 + 1) (f_tab c1)) by (rewrite P1; exact P3).
  destruct P0 as (Q1 & Q2 & Q3 & Q4 & Q5 & Q6).
  assert (Hix : ttype_for srcSize = ByU16 -> 0 <= srcSize ->
                f_cur c1 + srcSize - MFLIMIT + 1 <= 65536
                \/ (match ttype_for srcSize with ByU16 => negb (f_cur c1 =? 0) | ByU32 => false end = true
                    /\ 65536 <= f_cur c1 - f_dictSize c1)).
  { intros Et Hn0. left. pose proof (ttype_for_u16 _ Et) as Hlt.
    destruct (P4 Et Hn0) as [A|A]; [exact A|]. unfold LZ4_64Klimit, MFLIMIT in *. lia. }
  destruct (cap >=? compressBound srcSize);
    (match goal with |- 0 < a_ret (compress_generic_nodict ?c ?s ?n ?cp ?od ?t ?sm ?ac) -> _ =>
       pose proof (compress_generic_nodict_sound c s n cp od t sm ac Hsrc ltac:(discriminate) Hacc
                     ltac:(lia) Q1 P3' (ttype_for_u16 n) Hix) as H
     end; cbv zeta in H; destruct H as (_ & _ & A3);
     intros Hr; destruct (A3 Hr) as (_ & _ & _ & B); exact B).
Qed.

Print Assumptions mid_compress_bytes.
Print Assumptions hc_compress_bytes.
Print Assumptions opt_compress_bytes.
Print Assumptions compress_HC_fastReset_mid_bytes.
Print Assumptions compress_HC_fastReset_all_bytes.
Print Assumptions compress_fast_extState_fastReset_bytes.
