(* C03 / C07 with the block compressor instantiated for level 2 (LZ4MID) linked blocks and dictionaries / CDict:
   LZ4_compress_HC_continue on the LZ4MID stream model (Proofs.BlkInstMidLinked). *)
From Coq Require Import ZArith List Lia Bool.
From LZ4V Require Import Gen.Consts Spec.BlockSpec Spec.XXH32 Spec.FrameSpec Model.Mem Model.FrameD Model.FrameC Model.FrameAudit.
From LZ4V Require Proofs.FrameDProofs Proofs.FrameDChunk.
From LZ4V Require Import Proofs.FrameCBytes Proofs.FrameCBlocks Proofs.FrameCProofs Proofs.FrameCTheorems Proofs.FrameRoundTrip.
From LZ4V Require Import Proofs.BlkInst Proofs.BlkInstMidLinked.
Import ListNotations.
Local Open Scope Z_scope.

Theorem c03_roundtrip_mid_stream : forall st, (forall n, morc_ok (st n)) ->
  forall c0 po dk ms F X,
  prefs_opt_ok po -> uncompressed_only_if_independent po ms -> len X < U64 ->
  p_level (eff_prefs po) = 2 ->
  session (blk_mid_linked st) c0 po dk ms = Some (F, X) ->
  frame_decode spec_decode false (dict_of dk) F = Some (X, []).
Proof.
  intros st Hst c0 po dk ms F X Hpo Hunc HX _ H.
  exact (c03_roundtrip _ (strict_contract_spec _ (blk_mid_linked_contract st Hst)) c0 po dk ms F X Hpo Hunc HX H).
Qed.

Theorem c07_conformant_mid_stream : forall st, (forall n, morc_ok (st n)) ->
  forall c0 po dk ms F X,
  prefs_opt_ok po -> uncompressed_only_if_independent po ms -> len X < U64 ->
  p_level (eff_prefs po) = 2 ->
  session (blk_mid_linked st) c0 po dk ms = Some (F, X) ->
  frame_decode strict_valid false (dict_of dk) F = Some (X, []) /\
  exists maxb bl, bsid_size (p_bsid (eff_prefs po)) = Some maxb /\ X = contents bl /\
    chain strict_valid (p_blockMode (eff_prefs po) =? 1) (dict_of dk) maxb [] bl.
Proof.
  intros st Hst c0 po dk ms F X Hpo Hunc HX _ H.
  destruct (c07_conformant _ (blk_mid_linked_contract st Hst) c0 po dk ms F X Hpo Hunc HX H) as (maxb & bl & Hc).
  cbv zeta in Hc. destruct Hc as (_ & C2 & _ & C4 & C5 & _ & _ & C8).
  split; [exact C8|]. exists maxb, bl. split; [exact C2 | split; [exact C4 | exact C5]].
Qed.

Print Assumptions c03_roundtrip_mid_stream.
Print Assumptions c07_conformant_mid_stream.
