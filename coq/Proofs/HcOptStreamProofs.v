(* HC streaming at levels 3..12 (Model/HcOptStream.v): the block compressor selected by the level meets the contract of
   Proofs/HcTabStreamProofs.v (HcChainParser.hc_compress_ok for the hash-chain levels, HcOptParser.opt_compress_ok for the
   optimal parser with any nbSearches / targetLength / ultra / favorDecSpeed), so every statement of the parametric
   development holds for it - including histories that change the strategy chain <-> opt on the same tables. *)
From Coq Require Import ZArith List Lia Bool.
From LZ4V Require Import Gen.Consts Spec.BlockSpec Model.Mem Model.Fast Model.FastApi Model.HcEmit Model.HcMid Model.HcMidStream.
From LZ4V Require Import Model.HcChain Model.HcChainApi Model.HcOpt Model.HcOptApi Model.HcChainStream Model.HcTabStream Model.HcOptStream.
From LZ4V Require Import Proofs.FastStreamMem Proofs.HcMidStreamProofs Proofs.HcMidStreamHist Proofs.HcChainStreamProofs Proofs.HcTabStreamProofs.
From LZ4V Require Proofs.HcChainParser Proofs.HcOptParser.
Import ListNotations.
Local Open Scope Z_scope.

Lemma lvl_all_range l : lvl_all l = true -> lvl_all (clamp_level l) = true /\ is_mid (clamp_level l) = false.
Proof.
  unfold lvl_all, chain_level, opt_level, cl_params, clamp_level, is_mid, LZ4HC_CLEVEL_DEFAULT, LZ4HC_CLEVEL_MAX.
  destruct (l <? 1) eqn:E1.
  - intros _. vm_compute. split; reflexivity.
  - destruct (l >? 12) eqn:E2.
    + intros _. vm_compute. split; reflexivity.
    + replace (Z.min 12 l) with l by lia.
      assert (Hl : l = 1 \/ l = 2 \/ l = 3 \/ l = 4 \/ l = 5 \/ l = 6 \/ l = 7 \/ l = 8 \/ l = 9 \/ l = 10 \/ l = 11 \/ l = 12) by lia.
      destruct Hl as [->|[->|[->|[->|[->|[->|[->|[->|[->|[->|[->| ->]]]]]]]]]]]; vm_compute; intros H;
        first [discriminate H | (split; reflexivity)].
Qed.

Lemma blk_all_ok vrd lim prefixIdx dictIdx s0 srcSize maxOut level fav :
  (forall a, 0 <= vrd a < 256) ->
  65536 <= dictIdx /\ dictIdx <= prefixIdx /\ prefixIdx <= s0 /\ s0 + srcSize < M32 - 65536 ->
  0 <= srcSize -> 0 <= maxOut -> (lim = FillOutput -> 1 <= maxOut) ->
  forall t, HcChainSearch.TB t s0 ->
  HcChainParser.ROK vrd lim dictIdx s0 srcSize maxOut (blk_all vrd prefixIdx dictIdx lim s0 srcSize maxOut level fav t).
Proof.
  intros Hb Hidx Hsz Hmo Hf t HT. unfold blk_all. destruct (chain_level level).
  - apply HcChainParser.hc_compress_ok; assumption.
  - apply HcOptParser.opt_compress_ok; assumption.
Qed.

Ltac inst L :=
  first [ exact (L blk_all lvl_all lvl_all_range blk_all_ok) | exact (L blk_all lvl_all blk_all_ok) | exact (L lvl_all lvl_all_range)
        | exact (L blk_all lvl_all) | exact (L lvl_all) | exact L ].

Notation os_effective := (ts_effective lvl_all).
Notation os_pre_inv := (tpre_inv lvl_all).
Notation os_stream_pre := (tstream_pre blk_all lvl_all).
Notation os_stream_claim := (tstream_claim blk_all lvl_all).
Notation os_run := (trun blk_all lvl_all).
Notation os_ops_pre := (tops_pre blk_all lvl_all).
Notation os_continue_generic := (ts_continue_generic blk_all lvl_all).

Theorem os_stream_roundtrip : forall ops st H, tstate_inv st -> os_stream_pre st H ops -> os_stream_claim st H ops.
Proof. inst tstream_roundtrip. Qed.

Theorem os_continue_generic_sound :
  forall m c src n cap lim ret consumed out hw c',
  hmem_ok m -> ts_ok c -> k_dirty (ts_core c) = false -> 0 < src -> 0 <= n < 2147483648 -> 0 <= cap ->
  os_continue_generic m c src n cap lim = Some (TRes ret consumed out hw c') ->
  exists ke cte, os_effective m c src n = Some (ke, cte) /\ k_ready ke src /\ kc_ok ke cte /\ lvl_all (k_level (ts_core c)) = true /\
                 tcall_post m ke src n cap lim ret consumed out hw c'.
Proof. inst ts_continue_generic_sound. Qed.

Theorem os_write_block_hist :
  forall m c src bs ke cte H,
  os_pre_inv c -> hs_dctx (ts_hs c) = None -> 0 < src ->
  os_effective (store_list m src bs) c src (Z.of_nat (length bs)) = Some (ke, cte) ->
  hhist_inv m (ts_core c) H ->
  hhist_inv (store_list m src bs) ke H.
Proof. inst ts_write_block_hist. Qed.

Theorem os_loadDict_ok :
  forall m c a n c' r,
  0 <= n -> 0 <= a -> os_loadDict m c a n = Some (c', r) ->
  ts_ok c' /\ d_ok (ts_core c') /\ kc_ok (ts_core c') (ts_chain c') /\ hs_dctx (ts_hs c') = None /\ r = Z.min n K64 /\
  k_prefixStart (ts_core c') = a + n - r /\ k_end (ts_core c') = a + n /\
  k_dictLimit (ts_core c') = K64 /\ k_lowLimit (ts_core c') = K64 /\ k_dirty (ts_core c') = false /\
  lvl_all (k_level (ts_core c')) = true.
Proof. inst ts_loadDict_ok. Qed.

Theorem os_loadDict_roundtrip :
  forall m c a n c' r src k cap ret consumed out hw c'',
  hmem_ok m -> 0 <= n -> 0 <= a -> 0 < src -> 0 <= k < 2147483648 -> 0 <= cap ->
  os_loadDict m c a n = Some (c', r) ->
  os_continue m c' src k cap = Some (TRes ret consumed out hw c'') ->
  (compressBound k <= cap -> k <= LZ4_MAX_INPUT_SIZE -> 0 < ret) /\
  (0 < ret -> ret = Z.of_nat (length out) /\ ret <= Z.max cap (compressBound k) /\ consumed = k /\
              win_strict (load_list m a (Z.to_nat n)) out (load_list m src (Z.to_nat k))).
Proof. inst tab_loadDict_roundtrip. Qed.

Theorem os_attach_roundtrip :
  forall m c0 d a n dc r src k cap ret consumed out hw c'',
  hmem_ok m -> ts_ok c0 -> k_dirty (ts_core c0) = false -> k_prefixStart (ts_core c0) = 0 ->
  0 <= n -> 0 <= a -> 0 < src -> 0 <= k < 2147483648 -> 0 <= cap ->
  os_loadDict m d a n = Some (dc, r) ->
  os_continue m (ts_attach c0 (Some dc)) src k cap = Some (TRes ret consumed out hw c'') ->
  (compressBound k <= cap -> k <= LZ4_MAX_INPUT_SIZE -> 0 < ret) /\
  (0 < ret -> ret = Z.of_nat (length out) /\ ret <= Z.max cap (compressBound k) /\ consumed = k /\
              win_strict (load_list m a (Z.to_nat n)) out (load_list m src (Z.to_nat k))).
Proof. inst tab_attach_roundtrip. Qed.

Theorem os_inv_run : forall ops st st', tstate_inv st -> os_ops_pre st ops -> os_run st ops = Some st' -> tstate_inv st'.
Proof. inst ts_inv_run. Qed.

Theorem ostep_inv : forall st o st' x, tstate_inv st -> top_pre st o -> ostep st o = Some (st', x) -> tstate_inv st'.
Proof. inst tstep_inv. Qed.

Theorem os_fastReset_sound :
  forall m c src n cap level ret consumed out hw c',
  hmem_ok m -> ts_ok c -> 0 < src -> 0 <= n < 2147483648 -> 0 <= cap ->
  os_fastReset m c src n cap level = Some (TRes ret consumed out hw c') ->
  let lim := if cap <? compressBound n then LimitedOutput else NotLimited in
  let ke := k_init_internal (ts_core (ts_resetFast c level)) src in
  k_ready ke src /\ k_lowLimit ke = k_dictLimit ke /\ k_endIdx ke = k_dictLimit ke /\
  tcall_post m ke src n cap lim ret consumed out hw c'.
Proof. inst ts_fastReset_sound. Qed.
