(* The single-thread LZ4IO_decompressLZ4F loop (Model/IoLz4f.v) reads exactly the frame: on an input
   [frame ++ tail] whose frame the specification accepts, a loop that returns leaves exactly [tail] in the source.
   Every fread asks for min(hint, 64 KB) bytes and the hint of a call at a position of a valid frame never
   exceeds the frame bytes still to come (Proofs/FrameDHintProofs.v), so the loop never holds bytes from beyond
   the frame when the decoder reports the end of the frame. *)
From Coq Require Import ZArith List Lia Bool.
From LZ4V Require Import Spec.BlockSpec Spec.XXH32 Spec.FrameSpec Gen.Consts Model.FrameD Model.Io Model.IoLz4f.
From LZ4V Require Import Proofs.FrameDProofs Proofs.FrameDChunk Proofs.FrameDHint Proofs.FrameDHintProofs Proofs.IoLz4fRefine.
From LZ4V Require Proofs.FileDecInst.
Import ListNotations.
Local Open Scope Z_scope.

Lemma fread_le : forall fl n s got s1, fread fl n s = (got, s1) -> 0 <= n -> zlen got <= n.
Proof.
  intros fl n s got s1 H Hn. unfold fread, read_plain in H. cbv zeta in H.
  assert (F : forall k, 0 <= k -> zlen (firstn (Z.to_nat k) (s_in s)) <= k).
  { intros k Hk. unfold zlen. rewrite firstn_length. lia. }
  destruct (f_rlimit fl) as [lim|].
  - destruct (lim - s_rpos s <=? 0) eqn:E0.
    + inversion H; subst. cbn. lia.
    + destruct (lim - s_rpos s <? n) eqn:E1; inversion H; subst.
      * pose proof (F (lim - s_rpos s) ltac:(lia)). lia.
      * apply F. exact Hn.
  - inversion H; subst. apply F. exact Hn.
Qed.

Lemma app_prefix_split : forall (a b c d : list byte),
  a ++ b = c ++ d -> (length c <= length a)%nat -> exists e, a = c ++ e /\ d = e ++ b.
Proof.
  intros a b c d H L. destruct (app_eq_app _ _ _ _ H) as [k [[Ha Hb] | [Hc Hd]]].
  - exists k. split; [exact Ha|exact Hb].
  - assert (k = []).
    { apply (f_equal (@length byte)) in Hc. rewrite app_length in Hc. destruct k; [reflexivity|cbn in Hc; lia]. }
    subst k. rewrite app_nil_r in Hc. cbn in Hd. subst. exists []. rewrite app_nil_r. split; reflexivity.
Qed.

Section Exact.
  Variable bdec : list byte -> list byte -> option (list byte).
  Notation BU := (BInvU bdec false [] (Some [])).
  Notation FIN := (Fin bdec false []).

  (* the end of a frame reached inside a valid frame: nothing of the frame is left *)
  Lemma fin_exact : forall q x (rest g : list byte) O' content,
    FIN ((magic4 ++ q) ++ x) O' ->
    frame_decode bdec false [] ((magic4 ++ q) ++ (x ++ rest) ++ g) = Some (content, []) ->
    rest = [] /\ g = [].
  Proof.
    intros q x rest g O' content F V.
    destruct F as [D | (_ & _ & K & _)].
    - specialize (D (rest ++ g)). unfold SpecGoal in D.
      replace (((magic4 ++ q) ++ x) ++ rest ++ g) with ((magic4 ++ q) ++ (x ++ rest) ++ g) in D
        by (rewrite <- !app_assoc; reflexivity).
      rewrite V in D. inversion D as [[E1 E2]]. symmetry in E2. apply app_eq_nil in E2. exact E2.
    - exfalso. rewrite <- !app_assoc in K. exact (not_skippable _ K).
  Qed.

  (* one call of the loop at a position inside a valid frame *)
  Lemma step_exact : forall d buf cap o q O g content,
    o_skip o = false -> wf d -> BU (magic4 ++ q) O d -> bytes_ok buf = true -> bytes_ok g = true -> 0 <= cap ->
    frame_decode bdec false [] ((magic4 ++ q) ++ buf ++ g) = Some (content, []) ->
    let d' := fst (decompress_usingDict bdec d buf cap [] o) in
    let r := snd (decompress_usingDict bdec d buf cap [] o) in
    0 <= r_ret r /\
    exists x rest, buf = x ++ rest /\ zdrop (r_consumed r) buf = rest /\ wf d' /\
      if r_ret r =? 0 then FIN ((magic4 ++ q) ++ x) (O ++ r_out r)
      else BU ((magic4 ++ q) ++ x) (O ++ r_out r) d' /\ r_ret r <= zlen rest + zlen g.
  Proof.
    intros d buf cap o q O g content Ho Hwf HB Hb Hbg Hc V.
    set (p := magic4 ++ q) in *.
    change (decompress_usingDict bdec d buf cap [] o) with (decompress bdec (pre_ud (Some []) d) buf cap o).
    set (s1 := pre_ud (Some []) d).
    pose proof (wf_pre (Some []) d Hwf) as Hwf1. fold s1 in Hwf1.
    assert (HB1 : BInv bdec false [] p O s1).
    { apply BInvU_pre; [|exact HB]. intros d0 E. inversion E. reflexivity. }
    assert (Hval : Valid bdec [] p buf) by (exists g, (content, []); exact V).
    pose proof (decompress_ok bdec s1 buf cap o Hwf1 Hc) as (OKf & _).
    pose proof (call_chunk bdec false [] s1 buf cap o p O Ho Hwf1 HB1 Hb Hc) as CC. cbv zeta in CC.
    specialize (CC (or_intror Hval)). destruct CC as [CCn CCp].
    assert (Hnn : 0 <= r_ret (snd (decompress bdec s1 buf cap o))).
    { destruct (Z_lt_ge_dec (r_ret (snd (decompress bdec s1 buf cap o))) 0) as [Lt|Ge]; [|lia].
      exfalso. destruct Hval as (R & res & G). exact (CCn Lt R res G). }
    cbv zeta. split; [exact Hnn|].
    destruct (CCp Hnn) as (x & rest & E1 & E2 & Hwf' & HH).
    exists x, rest. split; [exact E1|]. split; [rewrite E2, E1; apply zdrop_app_exact|]. split; [exact Hwf'|].
    destruct (r_ret (snd (decompress bdec s1 buf cap o)) =? 0) eqn:Ez; [exact HH|].
    split; [apply BInv_BInvU; exact HH|].
    (* the hint *)
    unfold decompress in *.
    destruct (run bdec (call_fuel buf) o (mkL (set_skip s1 (d_skip s1 || o_skip o)) buf 0 [] cap)) as [l' f] eqn:HR.
    destruct f as [h|v|]; cbn [snd fst r_ret r_consumed r_fuel] in *.
    - destruct (call_hint_within_frame bdec false [] s1 buf cap o p O g (content, []) l' h Ho Hwf1 HB1 Hb Hc V HR ltac:(lia) Hbg)
        as [_ B].
      rewrite E1, zlen_app in B. lia.
    - (* `return v` from inside the loop with v >= 0 happens only at the very start of a frame *)
      exfalso.
      pose proof (run_post bdec o (call_fuel buf) (mkL (set_skip s1 (d_skip s1 || o_skip o)) buf 0 [] cap) l' (FRet v)
                           ltac:(cbn [l_s]; apply wf_set_skip; exact Hwf1) ltac:(cbn [l_cap]; exact Hc) HR) as (_ & _ & _ & R0).
      cbn [l_src l_s] in R0. destruct R0 as [R0 | (_ & St & _)]; [lia|].
      assert (St1 : d_stage s1 = GetFrameHeader) by exact St.
      destruct HB1 as [C | (Pn & _)].
      + destruct C as [Hs Pn _ _ _ _ | Hs _ _ _ _ _ _ | d2 maxb Hs _ _ _ | d2 maxb Hs _ _
                      | d2 maxb t Hs _ _ _ _ | d2 maxb acc0 data1 Hs _ _ _ _ _ _
                      | d2 maxb acc0 data t Hs _ _ _ _ _ _ _ _ | d2 maxb n Hs _ _ _ _
                      | d2 maxb n t Hs _ _ _ _ _ _ | d2 maxb acc0 Hs _ _ _ _ | d2 maxb Hs _ _
                      | d2 maxb t Hs _ _ _ _ _ _ | _ HS]; try (rewrite Hs in St1; discriminate).
        all: try (destruct HS as (_ & _ & K); rewrite St1 in K; exact K).
        all: unfold p in *; match goal with H : _ ++ _ = [] |- _ => destruct q; discriminate H end.
      + unfold p in Pn. destruct q; discriminate Pn.
    - discriminate OKf.
  Qed.

  Lemma inner_exact : forall fuel test fl d buf next full s q O g content,
    wf d -> BU (magic4 ++ q) O d -> bytes_ok buf = true -> bytes_ok g = true -> 0 < next ->
    (full = false -> next <= zlen buf + zlen g) ->
    frame_decode bdec false [] ((magic4 ++ q) ++ buf ++ g) = Some (content, []) ->
    match inner bdec fuel test fl d buf next full s with
    | IDone d' s' => g = [] /\ s_in s' = s_in s
    | IMore next' d' s' => exists w, 0 < next' /\ wf d' /\ BU ((magic4 ++ q) ++ buf) (O ++ w) d' /\
                                     s_in s' = s_in s /\ next' <= zlen g
    | IDie _ _ => True
    end.
  Proof.
    induction fuel as [|f IH]; intros test fl d buf next full s q O g content Hwf HB Hb Hbg Hn Hfull V; [exact I|].
    cbn [inner].
    destruct (negb (0 <? zlen buf) && negb full) eqn:Estop.
    - assert (buf = []) by (apply zlen0_nil'; lia). subst buf.
      assert (full = false) by (destruct full; [rewrite andb_false_r in Estop; discriminate|reflexivity]).
      exists []. rewrite !app_nil_r.
      split; [exact Hn|]. split; [exact Hwf|]. split; [exact HB|]. split; [reflexivity|].
      specialize (Hfull H). change (zlen (@nil byte)) with 0 in Hfull. lia.
    - assert (Hcap : 0 <= IOL_dBufferSize) by (unfold IOL_dBufferSize; lia).
      pose proof (step_exact d buf IOL_dBufferSize o_null q O g content eq_refl Hwf HB Hb Hbg Hcap V) as ST. cbv zeta in ST.
      destruct (decompress_usingDict bdec d buf IOL_dBufferSize [] o_null) as [d1 r]. cbn [fst snd] in ST.
      destruct ST as (Hnn & x & rest & E1 & E3 & Hwf1 & HH).
      replace (r_ret r <? 0) with false by lia.
      rewrite E3.
      destruct (if (0 <? zlen (r_out r)) && negb test then fwrite fl (r_out r) s else (true, s)) as [b s2] eqn:Ewr.
      cbn [fst snd]. destruct b; cbn [negb]; [|exact I].
      assert (W1 : s_in s2 = s_in s).
      { destruct ((0 <? zlen (r_out r)) && negb test).
        - apply fwrite_ok in Ewr. tauto.
        - inversion Ewr. reflexivity. }
      destruct (r_ret r =? 0) eqn:Ez.
      + rewrite E1 in V. destruct (fin_exact q x rest g _ content HH V) as [_ Hg]. split; [exact Hg|exact W1].
      + destruct HH as [HB2 Hh].
        assert (Hbr : bytes_ok rest = true).
        { rewrite E1, bytes_ok_app' in Hb. apply andb_prop in Hb. tauto. }
        assert (V2 : frame_decode bdec false [] ((magic4 ++ (q ++ x)) ++ rest ++ g) = Some (content, [])).
        { rewrite E1 in V. rewrite <- V. f_equal. rewrite <- !app_assoc. reflexivity. }
        assert (HB3 : BU (magic4 ++ (q ++ x)) (O ++ r_out r) d1) by (rewrite app_assoc; exact HB2).
        specialize (IH test fl d1 rest (r_ret r) (zlen (r_out r) =? IOL_dBufferSize) s2 (q ++ x) (O ++ r_out r) g content
                       Hwf1 HB3 Hbr Hbg ltac:(lia) ltac:(intros _; exact Hh) V2).
        destruct (inner bdec f test fl d1 rest (r_ret r) (zlen (r_out r) =? IOL_dBufferSize) s2) as [d' s'|next' d' s'|c s'].
        * destruct IH as [G1 G2]. split; [exact G1|congruence].
        * destruct IH as (w & G0 & G1 & G2 & G3 & G4).
          exists (r_out r ++ w). split; [exact G0|]. split; [exact G1|].
          split; [rewrite E1; rewrite !app_assoc in *; exact G2|]. split; [congruence|exact G4].
        * exact I.
  Qed.

  Lemma outer_exact : forall fuel ifuel test fl d next s q O fr tail content s',
    wf d -> BU (magic4 ++ q) O d -> s_in s = fr ++ tail -> bytes_ok (s_in s) = true ->
    frame_decode bdec false [] ((magic4 ++ q) ++ fr) = Some (content, []) -> 0 < next <= zlen fr ->
    outer bdec fuel ifuel test fl d next s = Ret tt s' -> s_in s' = tail.
  Proof.
    induction fuel as [|f IH]; intros ifuel test fl d next s q O fr tail content s' Hwf HB Hs Hb V Hnx H; [discriminate|].
    cbn [outer] in H. replace (next =? 0) with false in H by lia.
    set (n := if IOL_dBufferSize <? next then IOL_dBufferSize else next) in *.
    assert (Hn0 : 0 <= n <= next) by (unfold n, IOL_dBufferSize; destruct (65536 <? next) eqn:E; lia).
    destruct (fread fl n s) as [got s1] eqn:Er.
    destruct (fread_split _ _ _ _ _ Er) as [R1 _].
    pose proof (fread_le _ _ _ _ _ Er (proj1 Hn0)) as Lg.
    destruct (zlen got =? 0) eqn:Eg.
    { apply finish_ret in H. lia. }
    rewrite Hs in R1.
    destruct (app_prefix_split fr tail got (s_in s1) R1 ltac:(unfold zlen in *; lia)) as (fr' & F1 & F2).
    assert (Hbs : bytes_ok got = true /\ bytes_ok fr' = true).
    { rewrite Hs, F1, !bytes_ok_app' in Hb. apply andb_prop in Hb. destruct Hb as [Hb _]. apply andb_prop in Hb. exact Hb. }
    assert (V1 : frame_decode bdec false [] ((magic4 ++ q) ++ got ++ fr') = Some (content, [])) by (rewrite <- F1; exact V).
    pose proof (inner_exact ifuel test fl d got next true s1 q O fr' content Hwf HB (proj1 Hbs) (proj2 Hbs) (proj1 Hnx)
                            ltac:(discriminate) V1) as IE.
    destruct (inner bdec ifuel test fl d got next true s1) as [d' s2|next' d' s2|c s2]; [| |discriminate].
    - destruct IE as [G1 G2]. apply finish_ret in H. destruct H as [_ ->]. rewrite G2, F2, G1. reflexivity.
    - destruct IE as (w & G0 & G1 & G2 & G3 & G4).
      assert (HB2 : BU (magic4 ++ (q ++ got)) (O ++ w) d') by (rewrite app_assoc; exact G2).
      assert (V2 : frame_decode bdec false [] ((magic4 ++ (q ++ got)) ++ fr') = Some (content, [])).
      { rewrite <- V1. f_equal. rewrite <- !app_assoc. reflexivity. }
      assert (Hb2 : bytes_ok (s_in s2) = true).
      { rewrite G3, F2, bytes_ok_app'. rewrite (proj2 Hbs). rewrite Hs, bytes_ok_app' in Hb. apply andb_prop in Hb. tauto. }
      pose proof (zlen_nonneg fr').
      exact (IH ifuel test fl d' next' s2 (q ++ got) (O ++ w) fr' tail content s' G1 HB2 ltac:(rewrite G3; exact F2) Hb2 V2
                (conj G0 G4) H).
  Qed.

  (* LZ4IO_decompressLZ4F on [frame ++ tail]: a loop that returns has consumed exactly the frame *)
  Theorem lz4f_st_c_reads_exactly : forall fuel ifuel test fl d0 s s' fr tail content,
    dctx_fresh d0 ->
    r_consumed (snd (decompress_usingDict bdec d0 magic4 0 [] (o_first false))) = 4 ->
    s_in s = fr ++ tail -> bytes_ok (s_in s) = true ->
    frame_decode bdec false [] (magic4 ++ fr) = Some (content, []) ->
    lz4f_st_c bdec fuel ifuel false test fl d0 s = Ret tt s' ->
    s_in s' = tail.
  Proof.
    intros fuel ifuel test fl d0 s s' fr tail content (Hwf & S1 & S2 & S3) H4 Hs Hb V H.
    unfold lz4f_st_c in H. fold magic4 in H.
    change (decompress_usingDict bdec d0 magic4 0 [] (o_first false)) with (decompress bdec (pre_ud (Some []) d0) magic4 0 (o_first false)) in *.
    set (s1 := pre_ud (Some []) d0) in *.
    pose proof (wf_pre (Some []) d0 Hwf) as Hwf1. fold s1 in Hwf1.
    assert (HB1 : BInv bdec false [] [] [] s1).
    { apply BInvU_pre; [intros d1 E; inversion E; reflexivity|]. right. repeat split; auto. discriminate. }
    assert (V0 : frame_decode bdec false [] ([] ++ magic4 ++ fr) = Some (content, [])) by exact V.
    assert (Hval : Valid bdec [] [] magic4) by (exists fr, (content, []); exact V).
    assert (Hbf : bytes_ok fr = true).
    { rewrite Hs, bytes_ok_app' in Hb. apply andb_prop in Hb. tauto. }
    pose proof (call_chunk bdec false [] s1 magic4 0 (o_first false) [] [] eq_refl Hwf1 HB1 eq_refl ltac:(lia)) as CC. cbv zeta in CC.
    specialize (CC (or_intror Hval)). destruct CC as [CCn CCp].
    remember (decompress bdec s1 magic4 0 (o_first false)) as dr eqn:ED. destruct dr as [d1 r]. cbn [fst snd] in *.
    destruct (r_ret r <? 0) eqn:Eneg; [discriminate|].
    destruct (CCp ltac:(lia)) as (x & rest & E1 & E2 & Hwf' & HH). clear CCp CCn.
    assert (x = magic4 /\ rest = []) as [-> ->].
    { assert (length x = 4%nat) by (unfold zlen in E2; lia).
      assert (length magic4 = 4%nat) by reflexivity.
      assert (rest = []).
      { apply (f_equal (@length byte)) in E1. rewrite app_length in E1. destruct rest; [reflexivity|cbn in E1; lia]. }
      subst rest. rewrite app_nil_r in E1. split; [symmetry; exact E1|reflexivity]. }
    cbn [app] in HH.
    destruct (r_ret r =? 0) eqn:Ez.
    - (* the frame is over after the magic number: impossible unless nothing follows; then nothing is read *)
      destruct fuel as [|f]; [discriminate|]. cbn [outer] in H. rewrite Ez in H.
      apply finish_ret in H. destruct H as [_ ->].
      destruct HH as [D | (_ & _ & K & _)].
      + specialize (D fr). unfold SpecGoal in D. rewrite V in D. inversion D as [[Ec Ef]].
        rewrite Hs, <- Ef. reflexivity.
      + exfalso. rewrite <- (app_nil_r magic4) in K. exact (not_skippable _ K).
    - (* the hint of the header call *)
      assert (Hh : 0 < r_ret r <= zlen fr).
      { split; [lia|].
        unfold decompress in ED.
        destruct (run bdec (call_fuel magic4) (o_first false) (mkL (set_skip s1 (d_skip s1 || o_skip (o_first false))) magic4 0 [] 0)) as [l' f] eqn:HR.
        destruct f as [h|v|]; apply pair_equal_spec in ED; destruct ED as [_ Er]; subst r; cbn [r_ret r_consumed] in *.
        - destruct (call_hint_within_frame bdec false [] s1 magic4 0 (o_first false) [] [] fr (content, []) l' h
                      eq_refl Hwf1 HB1 eq_refl ltac:(lia) V0 HR ltac:(lia) Hbf) as [_ B].
          change (zlen magic4) with 4 in B. lia.
        - lia.
        - lia. }
      eapply (outer_exact fuel ifuel test fl d1 (r_ret r) s [] ([] ++ r_out r) fr tail content s').
      + exact Hwf'.
      + rewrite app_nil_r. apply BInv_BInvU. exact HH.
      + exact Hs.
      + exact Hb.
      + rewrite app_nil_r. exact V.
      + exact Hh.
      + exact H.
  Qed.

  (* on a calloc'ed dctx *)
  Theorem lz4f_st_fresh_reads_exactly : forall fuel ifuel test fl s s' fr tail content,
    s_in s = fr ++ tail -> bytes_ok (s_in s) = true ->
    frame_decode bdec false [] (magic4 ++ fr) = Some (content, []) ->
    lz4f_st_c bdec fuel ifuel false test fl dctx_init s = Ret tt s' ->
    s_in s' = tail.
  Proof.
    intros fuel ifuel test fl s s' fr tail content Hs Hb V H.
    apply (lz4f_st_c_reads_exactly fuel ifuel test fl dctx_init s s' fr tail content);
      [ | | exact Hs | exact Hb | exact V | exact H ].
    - split; [exact wf_init|]. repeat split; reflexivity.
    - exact (first_call_init bdec).
  Qed.

  (* what a returning loop leaves behind on [frame ++ tail]: the final source and destination of the abstract step
     Io.lz4f_st (which reads the frame in one ERead and writes its content in one EWrite) *)
  Theorem lz4f_st_c_return_state : forall fuel ifuel test fl d0 s s' fr tail content,
    dctx_fresh d0 ->
    r_consumed (snd (decompress_usingDict bdec d0 magic4 0 [] (o_first false))) = 4 ->
    s_in s = fr ++ tail -> bytes_ok (s_in s) = true ->
    frame_decode bdec false [] (magic4 ++ fr) = Some (content, []) ->
    IOL_dBufferSize * Z.of_nat ifuel * Z.of_nat fuel < M64 ->
    lz4f_st_c bdec fuel ifuel false test fl d0 s = Ret tt s' ->
    s_in s' = tail /\ s_out s' = s_out s ++ wrote test content.
  Proof.
    intros fuel ifuel test fl d0 s s' fr tail content Hd H4 Hs Hb V Hsz H.
    split; [exact (lz4f_st_c_reads_exactly fuel ifuel test fl d0 s s' fr tail content Hd H4 Hs Hb V H)|].
    destruct (lz4f_st_c_sound bdec fuel ifuel test fl d0 s s' Hd H4 Hb Hsz H) as (c & lost & D & W).
    pose proof (FileDecInst.frame_decode_ext bdec false [] (magic4 ++ fr) content [] tail V) as E.
    rewrite <- app_assoc, <- Hs in E. rewrite E in D. inversion D. subst c. exact W.
  Qed.
End Exact.
