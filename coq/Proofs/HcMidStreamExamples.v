(* Concrete, non-trivial instances of the lz4mid streaming theorems (memory, dictionary and blocks of
   Proofs/FastStreamExamples.v: an 81-byte dictionary at 1000, two blocks sharing content with it back to back at 3000). *)
From Coq Require Import ZArith List Lia Bool.
From LZ4V Require Import Gen.Consts Spec.BlockSpec Model.Mem Model.Fast Model.FastApi Model.HcEmit Model.HcMid Model.HcMidStream.
From LZ4V Require Import Proofs.FastStreamMem Proofs.FastStreamExamples Proofs.HcMidStreamProofs Proofs.HcMidStreamHist.
Import ListNotations.
Local Open Scope Z_scope.

Lemma ex_hmem : hmem_ok ex_m.
Proof. exact ex_m_ok. Qed.

Definition ex_hc0 : hsctx := hs_setLevel hs_init 2.
Lemma ex_hstate : hstate_inv (ex_m, ex_hc0).
Proof. split; [exact ex_hmem | apply hs_setLevel_ok; exact hs_init_ok]. Qed.

(* loadDictHC, a block elsewhere (external segment = the dictionary), a contiguous block, saveDictHC, a block against the
   saved bytes, and a destSize call with a 12-byte budget (partial consumption: the stream is re-anchored) *)
Definition ex_hops : list hop :=
  [HLoadDict 1000 81; HContinue 3000 78 200; HContinue 3078 63 200; HSaveDict 5000 100; HContinue 3000 78 200;
   HContinueDestSize 3078 63 12; HContinue 3000 78 10; HResetFast 1; HContinue 3000 78 200].

(* a dictionary stream prepared by LZ4_loadDictHC at level 2, to be attached *)
Definition ex_hd : hsctx := match hs_loadDict ex_m ex_hc0 1000 81 with Some (c, _) => c | None => ex_hc0 end.
Lemma ex_hd_eq : hs_loadDict ex_m ex_hc0 1000 81 = Some (ex_hd, 81).
Proof. vm_compute. reflexivity. Qed.
Lemma ex_hd_ok : d_ok (hs_core ex_hd).
Proof. apply (hs_loadDict_ok ex_m ex_hc0 1000 81 ex_hd 81 ltac:(lia) ltac:(lia) ex_hd_eq). Qed.
(* LZ4_attach_HC_dictionary, a 78-byte block (<= 4 KB: the dictionary context is searched in place), a contiguous block
   (still attached: position 78 < 64 KB) *)
Definition ex_hops_attach : list hop := [HAttach (Some ex_hd); HContinue 3000 78 200; HContinue 3078 63 200].

(* the same, then LZ4_saveDictHC of 40 of the 78 prefix bytes (fewer than the prefix holds: the dictionary context is detached,
   fix F18), the next block written right after the saved bytes and compressed there *)
Definition ex_hops_f18 : list hop :=
  [HAttach (Some ex_hd); HContinue 3000 78 200; HSaveDict 5000 40; HWrite 5040 ex_b2; HContinue 5040 63 200].
Lemma list_ok_dec l : forallb (fun b => (0 <=? b) && (b <? 256)) l = true -> list_ok l.
Proof.
  induction l as [|x l IH]; cbn [forallb]; intros H; [constructor|].
  apply andb_prop in H. destruct H as (H1 & H2). constructor; [lia | apply IH; exact H2].
Qed.

Lemma hstream_pre_cons st H o r st' ret out consumed :
  hop_pre st o ->
  match o with
  | HContinue src n _ | HContinueDestSize src n _ =>
    forall ke dc, hs_effective (fst st) (snd st) src n = Some (ke, dc) -> hhist_invd (fst st) ke dc H
  | _ => True
  end ->
  hstep st o = Some (st', (ret, out, consumed)) ->
  hstream_pre st' (hhist_next st H o ret consumed) r ->
  hstream_pre st H (o :: r).
Proof. intros P1 P2 E P3. cbn [hstream_pre]. rewrite E. split; [exact P1 | split; [exact P2 | exact P3]]. Qed.

Ltac num := vm_compute; first [reflexivity | exact I | (intro; discriminate)].
Ltac hist_tac :=
  first [exact I |
    (intros ke dc He; vm_compute in He; injection He as <- <-; unfold hhist_invd;
     match goal with |- is_suffix ?v ?H =>
       let vv := eval vm_compute in v in let hh := eval vm_compute in H in
       exists (firstn (length hh - length vv) hh) end;
     vm_compute; reflexivity)].
Ltac hstep_tac :=
  match goal with |- hstream_pre ?st ?H (?o :: ?r) =>
    let v := eval vm_compute in (hstep st o) in
    match v with Some (?st', (?ret, ?out, ?consumed)) =>
      apply (hstream_pre_cons st H o r st' ret out consumed);
      [ first [exact I | exact ex_hd_ok | (apply list_ok_dec; vm_compute; reflexivity) | repeat split; num] | hist_tac | vm_compute; reflexivity | ]
    end
  end.

Lemma ex_hstream_pre : hstream_pre (ex_m, ex_hc0) [] ex_hops.
Proof. unfold ex_hops. repeat hstep_tac. exact I. Qed.

Lemma ex_hstream_pre_attach : hstream_pre (ex_m, ex_hc0) [] ex_hops_attach.
Proof. unfold ex_hops_attach. repeat hstep_tac. exact I. Qed.

Lemma ex_hstream_pre_f18 : hstream_pre (ex_m, ex_hc0) [] ex_hops_f18.
Proof. unfold ex_hops_f18. repeat hstep_tac. exact I. Qed.

(* what the run returns: (return value, consumed) of every call; the 7th call fails (capacity 10), the stream is dirty and
   LZ4_resetStreamHC_fast re-initialises it *)
Fixpoint htrace (st : mem * hsctx) (ops : list hop) : list (option (Z * Z)) :=
  match ops with
  | [] => []
  | o :: r => match hstep st o with Some (st', (ret, _, consumed)) => Some (ret, consumed) :: htrace st' r | None => [None] end
  end.
Lemma ex_htrace :
  htrace (ex_m, ex_hc0) ex_hops =
  [Some (81, 0); Some (20, 78); Some (18, 63); Some (100, 0); Some (28, 78); Some (12, 34); Some (0, 78); Some (0, 0); Some (73, 78)].
Proof. vm_compute. reflexivity. Qed.

(* the first block needs the dictionary *)
Definition ex_hout (st : mem * hsctx) (o : hop) : list Z := match hstep st o with Some (_, (_, out, _)) => out | None => [] end.
Definition ex_hst1 : mem * hsctx := match hstep (ex_m, ex_hc0) (HLoadDict 1000 81) with Some (st, _) => st | None => (ex_m, ex_hc0) end.
Lemma ex_hresults :
  strict_valid ex_dict (ex_hout ex_hst1 (HContinue 3000 78 200)) = Some ex_b1 /\
  strict_valid [] (ex_hout ex_hst1 (HContinue 3000 78 200)) = None.
Proof. vm_compute. split; reflexivity. Qed.

(* the attached dictionary is used by the in-place search: the first block does not decode without it *)
Definition ex_hst1a : mem * hsctx := match hstep (ex_m, ex_hc0) (HAttach (Some ex_hd)) with Some (st, _) => st | None => (ex_m, ex_hc0) end.
Lemma ex_htrace_attach : htrace (ex_m, ex_hc0) ex_hops_attach = [Some (0, 0); Some (20, 78); Some (18, 63)].
Proof. vm_compute. reflexivity. Qed.
Lemma ex_hresults_attach :
  hs_effective ex_m (snd ex_hst1a) 3000 78 = Some (k_init_internal (hs_core ex_hc0) 3000, Some (hs_core ex_hd)) /\
  strict_valid ex_dict (ex_hout ex_hst1a (HContinue 3000 78 200)) = Some ex_b1 /\
  strict_valid [] (ex_hout ex_hst1a (HContinue 3000 78 200)) = None.
Proof. vm_compute. repeat split; reflexivity. Qed.

Lemma ex_htrace_f18 : htrace (ex_m, ex_hc0) ex_hops_f18 = [Some (0, 0); Some (20, 78); Some (40, 0); Some (0, 0); Some (49, 63)].
Proof. vm_compute. reflexivity. Qed.
(* the state before the last call: the dictionary context is gone, and the block decodes with what the decoder has *)
Definition ex_hst4_f18 : mem * hsctx := match hrun (ex_m, ex_hc0) (firstn 4 ex_hops_f18) with Some st => st | None => (ex_m, ex_hc0) end.
Lemma ex_hresults_f18 :
  hs_dctx (snd ex_hst4_f18) = None /\
  strict_valid (ex_dict ++ ex_b1) (ex_hout ex_hst4_f18 (HContinue 5040 63 200)) = Some ex_b2.
Proof. vm_compute. split; reflexivity. Qed.
