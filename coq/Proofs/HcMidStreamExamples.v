(* Concrete, non-trivial instances of the lz4mid streaming theorems (memory, dictionary and blocks of
   Proofs/FastStreamExamples.v: an 81-byte dictionary at 1000, two blocks sharing content with it back to back at 3000). *)
From Coq Require Import ZArith List Lia Bool.
From LZ4V Require Import Gen.Consts Spec.BlockSpec Model.Mem Model.Fast Model.FastApi Model.HcEmit Model.HcMid Model.HcMidStream.
From LZ4V Require Import Proofs.FastStreamMem Proofs.FastStreamExamples Proofs.HcMidStreamProofs Proofs.HcMidStreamHist.
Import ListNotations.
Local Open Scope Z_scope.

Lemma ex_hmem : hmem_ok ex_m.
Proof. exact ex_m_ok. Qed.

Definition ex_hc0 : hsctx := hs_setLevel hs_init 2.
Lemma ex_hstate : hstate_inv (ex_m, ex_hc0).
Proof. split; [exact ex_hmem | apply hs_setLevel_ok; exact hs_init_ok]. Qed.

(* loadDictHC, a block elsewhere (external segment = the dictionary), a contiguous block, saveDictHC, a block against the
   saved bytes, and a destSize call with a 12-byte budget (partial consumption: the stream is re-anchored) *)
Definition ex_hops : list hop :=
  [HLoadDict 1000 81; HContinue 3000 78 200; HContinue 3078 63 200; HSaveDict 5000 100; HContinue 3000 78 200;
   HContinueDestSize 3078 63 12; HContinue 3000 78 10; HResetFast 1; HContinue 3000 78 200].

Lemma hstream_pre_cons st H o r st' ret out consumed :
  hop_pre st o ->
  match o with
  | HContinue src n _ | HContinueDestSize src n _ =>
    forall ke, hs_effective (fst st) (snd st) src n = Some ke -> hhist_inv (fst st) ke H
  | _ => True
  end ->
  hstep st o = Some (st', (ret, out, consumed)) ->
  hstream_pre st' (hhist_next st H o ret consumed) r ->
  hstream_pre st H (o :: r).
Proof. intros P1 P2 E P3. cbn [hstream_pre]. rewrite E. split; [exact P1 | split; [exact P2 | exact P3]]. Qed.

Ltac num := vm_compute; first [reflexivity | exact I | (intro; discriminate)].
Ltac hist_tac :=
  first [exact I |
    (intros ke He; vm_compute in He; injection He as <-; unfold hhist_inv;
     match goal with |- is_suffix ?v ?H =>
       let vv := eval vm_compute in v in let hh := eval vm_compute in H in
       exists (firstn (length hh - length vv) hh) end;
     vm_compute; reflexivity)].
Ltac hstep_tac :=
  match goal with |- hstream_pre ?st ?H (?o :: ?r) =>
    let v := eval vm_compute in (hstep st o) in
    match v with Some (?st', (?ret, ?out, ?consumed)) =>
      apply (hstream_pre_cons st H o r st' ret out consumed);
      [ first [exact I | repeat split; num] | hist_tac | vm_compute; reflexivity | ]
    end
  end.

Lemma ex_hstream_pre : hstream_pre (ex_m, ex_hc0) [] ex_hops.
Proof. unfold ex_hops. repeat hstep_tac. exact I. Qed.

(* what the run returns: (return value, consumed) of every call; the 7th call fails (capacity 10), the stream is dirty and
   LZ4_resetStreamHC_fast re-initialises it *)
Fixpoint htrace (st : mem * hsctx) (ops : list hop) : list (option (Z * Z)) :=
  match ops with
  | [] => []
  | o :: r => match hstep st o with Some (st', (ret, _, consumed)) => Some (ret, consumed) :: htrace st' r | None => [None] end
  end.
Lemma ex_htrace :
  htrace (ex_m, ex_hc0) ex_hops =
  [Some (81, 0); Some (20, 78); Some (18, 63); Some (100, 0); Some (28, 78); Some (12, 34); Some (0, 78); Some (0, 0); Some (73, 78)].
Proof. vm_compute. reflexivity. Qed.

(* the first block needs the dictionary *)
Definition ex_hout (st : mem * hsctx) (o : hop) : list Z := match hstep st o with Some (_, (_, out, _)) => out | None => [] end.
Definition ex_hst1 : mem * hsctx := match hstep (ex_m, ex_hc0) (HLoadDict 1000 81) with Some (st, _) => st | None => (ex_m, ex_hc0) end.
Lemma ex_hresults :
  strict_valid ex_dict (ex_hout ex_hst1 (HContinue 3000 78 200)) = Some ex_b1 /\
  strict_valid [] (ex_hout ex_hst1 (HContinue 3000 78 200)) = None.
Proof. vm_compute. split; reflexivity. Qed.
