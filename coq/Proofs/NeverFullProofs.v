(* Compression pipelines: the tPool queue never holds more than 2 jobs, so with a queue depth >= 2 nobody ever
   blocks in TPool_submitJob(tPool, ...) and the only thread that can wait on tPool's queuePushCond is the main
   thread inside TPool_jobsCompleted (tpool_compress_never_full); and when the main thread waits on wPool's
   queuePushCond (TPool_jobsCompleted(wPool)) the tPool is quiescent, so no submitter waits there with it
   (waiters_homogeneous).  Depth 1 breaks this: C13_depth1_deadlock. *)
From Coq Require Import ZArith List Bool Arith Lia.
From LZ4V Require Import Model.WriteReg Model.TPool Model.Pipeline
  Proofs.TPoolProofs Proofs.WriteRegProofs Proofs.DecodeRingProofs Proofs.CompressProofs.
Import ListNotations.

Definition is_read (j : job) : bool := match j with JRead _ => true | _ => false end.
Definition is_msub (op : mop) : bool := match op with MSubmit _ _ => true | _ => false end.
Definition nsub (ops : list mop) : nat := length (filter is_msub ops).
Definition nreadq (q : list job) : nat := length (filter is_read q).
Definition rem_w (c : cfg) (w : wstate) : nat :=
  match w with
  | WRun (JRead k) i | WSubWait (JRead k) i | WSubWoken (JRead k) i => length (job_subs c (JRead k)) - i
  | _ => 0
  end.
Definition pos1 (n : nat) : nat := if 0 <? n then 1 else 0.
Definition sum_rem (c : cfg) (ws : list wstate) : nat := sum_list (map (rem_w c) ws).
Definition sum_ent (c : cfg) (ws : list wstate) : nat := sum_list (map (fun w => pos1 (rem_w c w)) ws).

Record NI (c : cfg) (q : list job) (ops : list mop) (ws : list wstate) (pT pW : list tid) (sz : nat) : Prop := {
  ni_ent : pos1 (nsub ops) + nreadq q + sum_ent c ws <= 1;
  ni_last : forall pre j post, q = pre ++ j :: post -> is_read j = true -> post = [];
  ni_cnt : length q + nsub ops + sum_rem c ws <= 2;
  ni_pT : forall t, In t pT -> t = 0;
  ni_pW : In 0 pW -> nsub ops = 0 /\ ~ In (MJobsCompleted PT) ops;
  ni_sz : sz = c_tdepth c + 1
}.

Definition ninv (c : cfg) (st : state) : Prop :=
  NI c (queued (s_pt st)) (s_mops st) (s_ws st) (push_w (s_pt st)) (push_w (s_pw st)) (q_size (s_pt st)).

(* ---- sums over worker lists *)
Lemma sum_map_set_nth : forall (g : wstate -> nat) l i x old, nth_error l i = Some old ->
  sum_list (map g (set_nth i x l)) + g old = sum_list (map g l) + g x.
Proof.
  induction l as [|a l IH]; intros i x old H; destruct i; cbn [nth_error] in H; try discriminate.
  - injection H as ->. cbn [set_nth map sum_list fold_right]. lia.
  - cbn [set_nth map sum_list fold_right]. specialize (IH i x old H). unfold sum_list in IH. lia.
Qed.

Lemma sum_ge_elem : forall (g : wstate -> nat) l i x, nth_error l i = Some x -> g x <= sum_list (map g l).
Proof.
  induction l as [|a l IH]; intros i x H; destruct i; cbn [nth_error] in H; try discriminate; cbn [map sum_list fold_right].
  - injection H as ->. lia.
  - specialize (IH i x H). unfold sum_list in IH. lia.
Qed.

Lemma wsim_rem : forall c w w', wsim w w' -> rem_w c w' = rem_w c w.
Proof. intros c w w' [->|[[-> ->]|[j [i [-> ->]]]]]; reflexivity. Qed.

Lemma Forall2_wsim_sum : forall (g : wstate -> nat) l l', (forall w w', wsim w w' -> g w' = g w) ->
  Forall2 wsim l l' -> sum_list (map g l') = sum_list (map g l).
Proof.
  intros g l l' Hg. induction 1; [reflexivity|]. cbn [map sum_list fold_right]. rewrite (Hg _ _ H).
  unfold sum_list in IHForall2. rewrite IHForall2. reflexivity.
Qed.

Lemma NI_transfer : forall c q ops ws ws' pT pT' pW pW' sz,
  NI c q ops ws pT pW sz -> Forall2 wsim ws ws' -> incl pT' pT -> incl pW' pW -> NI c q ops ws' pT' pW' sz.
Proof.
  intros c q ops ws ws' pT pT' pW pW' sz [A B C0 D E F] Hw HT HW.
  constructor; try assumption.
  - unfold sum_ent in *. rewrite (Forall2_wsim_sum _ _ _ (fun w w' H => f_equal pos1 (wsim_rem c w w' H)) Hw). exact A.
  - unfold sum_rem in *. rewrite (Forall2_wsim_sum _ _ _ (wsim_rem c) Hw). exact C0.
  - intros t Ht. apply D, HT, Ht.
  - intros H0. apply E, HW, H0.
Qed.

Lemma queued_pool_eq : forall (p p' : pool job), pool_eq p p' -> queued p' = queued p.
Proof.
  intros p p' (A1&A2&A3&A4&A5&_). unfold queued, q_list, q_len. rewrite A1, A2, A3, A4, A5. reflexivity.
Qed.

Lemma remove_tid_incl : forall w ws, incl (remove_tid w ws) ws.
Proof.
  induction ws as [|a ws IH]; cbn [remove_tid]; [apply incl_refl|].
  destruct (a =? w); [apply incl_tl, incl_refl|]. apply incl_cons; [left; reflexivity|apply incl_tl; exact IH].
Qed.

Lemma wake_incl : forall ws w ws' t, wake ws w = Some (ws', t) -> incl ws' ws.
Proof.
  intros ws w ws' t H. unfold wake in H. destruct ws as [|a l]; [inversion H; subst; apply incl_refl|].
  destruct (mem_tid w (a :: l)); [|discriminate]. inversion H; subst. apply (remove_tid_incl w (a :: l)).
Qed.

(* what a state transformation may do as far as ninv is concerned *)
Record nsim (st st' : state) : Prop := {
  ns_sim : sim st st';
  ns_pT : incl (push_w (s_pt st')) (push_w (s_pt st));
  ns_pW : incl (push_w (s_pw st')) (push_w (s_pw st))
}.

Lemma nsim_refl : forall st, nsim st st.
Proof. intros st. constructor; [apply sim_refl|apply incl_refl|apply incl_refl]. Qed.
Lemma nsim_trans : forall a b d, nsim a b -> nsim b d -> nsim a d.
Proof.
  intros a b d [A1 A2 A3] [B1 B2 B3]. constructor; [eapply sim_trans; eassumption| |]; eapply incl_tran; eassumption.
Qed.

Lemma ninv_nsim : forall c st st', ninv c st -> nsim st st' -> ninv c st'.
Proof.
  intros c st st' H [S HT HW]. unfold ninv in *. pose proof S as [Eops Ept _ Ews _].
  rewrite (queued_pool_eq _ _ Ept), Eops. destruct Ept as (_&_&_&Esz&_). rewrite Esz.
  eapply NI_transfer; eassumption.
Qed.

Lemma wake_thread_nsim : forall st t, nsim st (wake_thread st t).
Proof.
  intros st t. constructor; [apply wake_thread_sim| |];
    (destruct t as [[|t]|]; unfold wake_thread; [destruct (s_mst st)| destruct (nth_error (s_ws st) (S t - 1)) as [[]|] |]; apply incl_refl).
Qed.
Lemma wake_all_nsim : forall ts st, nsim st (wake_all st ts).
Proof.
  unfold wake_all. induction ts as [|t ts IH]; intros st; cbn [fold_left]; [apply nsim_refl|].
  eapply nsim_trans; [apply wake_thread_nsim|apply IH].
Qed.
Lemma signal_push_nsim : forall st p w st', signal_push st p w = Some st' -> nsim st st'.
Proof.
  intros st p w st' H. pose proof (signal_push_sim _ _ _ _ H) as S. unfold signal_push in H.
  destruct (wake (push_w (get_pool st p)) w) as [[ws' woken]|] eqn:E; [|discriminate]. injection H as <-.
  pose proof (wake_incl _ _ _ _ E) as I.
  eapply nsim_trans; [|apply wake_thread_nsim].
  constructor; [apply sim_set_pool_waiters; repeat split| |]; destruct p; cbn; try apply incl_refl; exact I.
Qed.
Lemma signal_pop_nsim : forall st p w st', signal_pop st p w = Some st' -> nsim st st'.
Proof.
  intros st p w st' H. unfold signal_pop in H.
  destruct (wake (pop_w (get_pool st p)) w) as [[ws' woken]|] eqn:E; [|discriminate]. injection H as <-.
  eapply nsim_trans; [|apply wake_thread_nsim].
  constructor; [apply sim_set_pool_waiters; repeat split| |]; destruct p; cbn; apply incl_refl.
Qed.

(* ------------------------------------------------------------------ job_subs of the two job kinds that run on tPool *)
Lemma subs_read_len : forall c k, length (job_subs c (JRead k)) <= 2.
Proof. intros c k. cbn [job_subs]. destruct (k <? c_nfull c); [cbn; lia|]. destruct ((k =? c_nfull c) && c_last c); cbn; lia. Qed.

Lemma subs_read_nth : forall c k i p' j', nth_error (job_subs c (JRead k)) i = Some (p', j') ->
  p' = PT /\ i < length (job_subs c (JRead k)) /\ (is_read j' = true -> S i = length (job_subs c (JRead k))).
Proof.
  intros c k i p' j' H. cbn [job_subs] in *. destruct (k <? c_nfull c).
  - destruct i as [|[|i]]; cbn in *; try discriminate; [| |destruct i; discriminate];
      inversion H; subst; repeat split; cbn; try lia; try discriminate.
  - destruct ((k =? c_nfull c) && c_last c); destruct i as [|i]; cbn in *; try discriminate.
    + inversion H; subst. repeat split; cbn; try lia; discriminate.
    + destruct i; discriminate.
Qed.

Lemma pos1_le : forall n, pos1 n <= n. Proof. intros [|n]; cbn; lia. Qed.
Lemma pos1_S : forall n, pos1 (S n) = 1. Proof. reflexivity. Qed.

Lemma sum_ent_le_rem : forall c ws, sum_ent c ws <= sum_rem c ws.
Proof.
  intros c ws. unfold sum_ent, sum_rem. induction ws as [|a l IH]; [cbn; lia|].
  cbn [map sum_list fold_right]. unfold sum_list in IH. pose proof (pos1_le (rem_w c a)). lia.
Qed.

Lemma nreadq_app : forall a b, nreadq (a ++ b) = nreadq a + nreadq b.
Proof. intros a b. unfold nreadq. rewrite filter_app, app_length. reflexivity. Qed.

(* entity in the queue => it is the only one; so when someone still has pushes to make, the queue holds no JRead *)
Lemma no_read_in_queue : forall q j, nreadq q = 0 -> In j q -> is_read j = false.
Proof.
  unfold nreadq. induction q as [|a q IH]; intros j H Hin; [destruct Hin|]. cbn [filter] in H.
  destruct (is_read a) eqn:E; [cbn in H; lia|]. destruct Hin as [<-|Hin]; [exact E|apply IH; assumption].
Qed.

Lemma last_snoc_read : forall q j, nreadq q = 0 ->
  forall pre x post, q ++ [j] = pre ++ x :: post -> is_read x = true -> post = [].
Proof.
  intros q j H pre x post E Hx.
  destruct post as [|y post]; [reflexivity|exfalso].
  assert (Hin : In x q).
  { assert (E2 : q ++ [j] = (pre ++ [x]) ++ (y :: post)) by (rewrite <- app_assoc; exact E).
    assert (L : length q = length (pre ++ [x]) + length post).
    { apply (f_equal (@length job)) in E2. rewrite !app_length in E2. cbn [length] in *. rewrite app_length. cbn [length]. lia. }
    assert (Eq : q = firstn (length q) ((pre ++ [x]) ++ (y :: post))) by (rewrite <- E2, firstn_app, Nat.sub_diag, firstn_all; cbn; rewrite app_nil_r; reflexivity).
    rewrite Eq. rewrite firstn_app. apply in_or_app. left.
    rewrite firstn_all2 by (rewrite L; lia). apply in_or_app. right. left. reflexivity. }
  pose proof (no_read_in_queue q x H Hin). congruence.
Qed.

Lemma last_tail : forall (j : job) rest,
  (forall pre x post, j :: rest = pre ++ x :: post -> is_read x = true -> post = []) ->
  forall pre x post, rest = pre ++ x :: post -> is_read x = true -> post = [].
Proof. intros j rest H pre x post E Hx. apply (H (j :: pre) x post); [rewrite E; reflexivity|exact Hx]. Qed.

(* ------------------------------------------------------------------ how the invariant evolves *)
Lemma sum_ent_zero : forall c ws, sum_ent c ws = 0 -> sum_rem c ws = 0.
Proof.
  intros c ws. unfold sum_ent, sum_rem. induction ws as [|a l IH]; [reflexivity|].
  cbn [map sum_list fold_right]. unfold sum_list in IH. intros H.
  assert (pos1 (rem_w c a) = 0) by lia. destruct (rem_w c a); [|cbn in *; lia]. rewrite IH; lia.
Qed.

Section Upd.
Variable c : cfg.

Lemma U_worker : forall q ops ws pT pW sz i old x,
  NI c q ops ws pT pW sz -> nth_error ws i = Some old -> rem_w c x = rem_w c old ->
  NI c q ops (set_nth i x ws) pT pW sz.
Proof.
  intros q ops ws pT pW sz i old x [A B C0 D E F] Hn Hr.
  pose proof (sum_map_set_nth (rem_w c) ws i x old Hn) as S1.
  pose proof (sum_map_set_nth (fun w => pos1 (rem_w c w)) ws i x old Hn) as S2. cbn beta in S2. rewrite Hr in S1, S2.
  constructor; try assumption; unfold sum_ent, sum_rem in *; lia.
Qed.

Lemma U_popT : forall j rest ops ws pT pW sz i old,
  NI c (j :: rest) ops ws pT pW sz -> nth_error ws i = Some old -> rem_w c old = 0 ->
  NI c rest ops (set_nth i (WRun j 0) ws) pT pW sz.
Proof.
  intros j rest ops ws pT pW sz i old [A B C0 D E F] Hn Hr.
  pose proof (sum_map_set_nth (rem_w c) ws i (WRun j 0) old Hn) as S1.
  pose proof (sum_map_set_nth (fun w => pos1 (rem_w c w)) ws i (WRun j 0) old Hn) as S2. cbn beta in S2. rewrite Hr in S1, S2.
  change (pos1 0) with 0 in S2. unfold nreadq in A. cbn [filter length] in A, C0.
  destruct (is_read j) eqn:Ej.
  - (* the reader job: it was alone in the queue *)
    assert (rest = []) by (apply (B [] j rest eq_refl Ej)). subst rest.
    cbn [length] in A. assert (Hent : sum_ent c ws = 0) by lia. pose proof (sum_ent_zero c ws Hent) as Hrem.
    destruct j as [k| | | | | |]; try discriminate. cbn [rem_w] in S1, S2. rewrite Nat.sub_0_r in S1, S2.
    pose proof (subs_read_len c k). pose proof (pos1_le (length (job_subs c (JRead k)))).
    assert (Hn0 : nsub ops = 0) by (unfold sum_ent in *; destruct (nsub ops); [reflexivity|cbn in A; lia]).
    assert (pos1 (length (job_subs c (JRead k))) <= 1) by (destruct (length (job_subs c (JRead k))); cbn; lia).
    assert (Hp0 : pos1 (nsub ops) = 0) by (rewrite Hn0; reflexivity).
    constructor; try assumption; unfold sum_ent, sum_rem, nreadq in *; cbn [filter length]; try lia.
    intros pre x post Hq. destruct pre; discriminate.
  - assert (Hr0 : rem_w c (WRun j 0) = 0) by (destruct j; try reflexivity; discriminate).
    rewrite Hr0 in S1, S2. change (pos1 0) with 0 in S2.
    constructor; try assumption; unfold sum_ent, sum_rem, nreadq in *; try lia.
    apply (last_tail j rest B).
Qed.

Lemma U_pushT_w : forall q ops ws pT pW sz idx old x k i j',
  NI c q ops ws pT pW sz -> nth_error ws idx = Some old ->
  rem_w c old = length (job_subs c (JRead k)) - i -> rem_w c x = length (job_subs c (JRead k)) - S i ->
  nth_error (job_subs c (JRead k)) i = Some (PT, j') ->
  NI c (q ++ [j']) ops (set_nth idx x ws) pT pW sz.
Proof.
  intros q ops ws pT pW sz idx old x k i j' [A B C0 D E F] Hn Ho Hx Hs.
  destruct (subs_read_nth c k i PT j' Hs) as (_ & Hi & Hrd).
  pose proof (sum_map_set_nth (rem_w c) ws idx x old Hn) as S1.
  pose proof (sum_map_set_nth (fun w => pos1 (rem_w c w)) ws idx x old Hn) as S2. cbn beta in S2. rewrite Ho, Hx in S1, S2.
  assert (P1 : pos1 (length (job_subs c (JRead k)) - i) = 1) by (destruct (length (job_subs c (JRead k)) - i) eqn:E9; [lia|reflexivity]).
  rewrite P1 in S2.
  pose proof (sum_ge_elem (fun w => pos1 (rem_w c w)) ws idx old Hn) as G1. cbn beta in G1. rewrite Ho, P1 in G1.
  assert (Hq0 : nreadq q = 0) by (unfold sum_ent in *; lia).
  constructor; try assumption.
  - rewrite nreadq_app. unfold nreadq at 2. cbn [filter]. unfold sum_ent in *.
    destruct (is_read j') eqn:Ej; cbn [length].
    + specialize (Hrd eq_refl). replace (length (job_subs c (JRead k)) - S i) with 0 in S2 by lia. change (pos1 0) with 0 in S2. lia.
    + pose proof (pos1_le (length (job_subs c (JRead k)) - S i)).
      assert (pos1 (length (job_subs c (JRead k)) - S i) <= 1) by (destruct (length (job_subs c (JRead k)) - S i); cbn; lia). lia.
  - apply last_snoc_read. exact Hq0.
  - rewrite app_length. cbn [length]. unfold sum_rem in *. lia.
Qed.

Lemma nsub_cons_sub : forall p j rest, nsub (MSubmit p j :: rest) = S (nsub rest).
Proof. reflexivity. Qed.

Lemma U_pushT_m : forall q p j rest ws pT pW sz,
  NI c q (MSubmit p j :: rest) ws pT pW sz -> (is_read j = true -> nsub rest = 0) ->
  NI c (q ++ [j]) rest ws pT pW sz.
Proof.
  intros q p j rest ws pT pW sz [A B C0 D E F] Hj. rewrite nsub_cons_sub in *. rewrite pos1_S in A.
  assert (Hq0 : nreadq q = 0) by lia.
  constructor; try assumption.
  - rewrite nreadq_app. unfold nreadq at 2. cbn [filter]. destruct (is_read j) eqn:Ej; cbn [length].
    + rewrite (Hj eq_refl). cbn. lia.
    + assert (pos1 (nsub rest) <= 1) by (destruct (nsub rest); cbn; lia). lia.
  - apply last_snoc_read. exact Hq0.
  - rewrite app_length. cbn [length]. lia.
  - intros H0. destruct (E H0) as [E1 _]. discriminate.
Qed.

Lemma U_ops : forall q op rest ws pT pW sz,
  NI c q (op :: rest) ws pT pW sz -> is_msub op = false -> NI c q rest ws pT pW sz.
Proof.
  intros q op rest ws pT pW sz [A B C0 D E F] Ho.
  assert (En : nsub (op :: rest) = nsub rest) by (unfold nsub; cbn [filter]; rewrite Ho; reflexivity).
  rewrite En in *. constructor; try assumption.
  intros H0. destruct (E H0) as [E1 E2]. split; [exact E1|]. intros Hin. apply E2. right. exact Hin.
Qed.

Lemma U_pT0 : forall q ops ws pT pW sz, NI c q ops ws pT pW sz -> NI c q ops ws (pT ++ [0]) pW sz.
Proof.
  intros q ops ws pT pW sz [A B C0 D E F]. constructor; try assumption.
  intros t Ht. apply in_app_or in Ht. destruct Ht as [Ht|[<-|[]]]; [apply D; exact Ht|reflexivity].
Qed.

Lemma U_pW0 : forall q ops ws pT pW sz, NI c q ops ws pT pW sz ->
  nsub ops = 0 -> ~ In (MJobsCompleted PT) ops -> NI c q ops ws pT (pW ++ [0]) sz.
Proof. intros q ops ws pT pW sz [A B C0 D E F] H1 H2. constructor; try assumption. intros _. auto. Qed.

Lemma U_pWt : forall q ops ws pT pW sz t, NI c q ops ws pT pW sz -> t <> 0 -> NI c q ops ws pT (pW ++ [t]) sz.
Proof.
  intros q ops ws pT pW sz t [A B C0 D E F] Ht. constructor; try assumption.
  intros H0. apply E. apply in_app_or in H0. destruct H0 as [H0|[H0|[]]]; [exact H0|congruence].
Qed.
End Upd.

(* ------------------------------------------------------------------ state transformations that matter to ninv *)
Record neq (st st' : state) : Prop := {
  ne_q : queued (s_pt st') = queued (s_pt st);
  ne_sz : q_size (s_pt st') = q_size (s_pt st);
  ne_ops : s_mops st' = s_mops st;
  ne_ws : Forall2 wsim (s_ws st) (s_ws st');
  ne_pT : incl (push_w (s_pt st')) (push_w (s_pt st));
  ne_pW : incl (push_w (s_pw st')) (push_w (s_pw st))
}.

Lemma neq_refl : forall st, neq st st.
Proof. intros st. constructor; try reflexivity; try apply incl_refl. apply Forall2_wsim_refl. Qed.
Lemma neq_trans : forall a b d, neq a b -> neq b d -> neq a d.
Proof.
  intros a b d [A1 A2 A3 A4 A5 A6] [B1 B2 B3 B4 B5 B6]. constructor; try congruence.
  - eapply Forall2_wsim_trans; eassumption.
  - eapply incl_tran; eassumption.
  - eapply incl_tran; eassumption.
Qed.
Lemma nsim_neq : forall a b, nsim a b -> neq a b.
Proof.
  intros a b [S HT HW]. pose proof S as [Eops Ept _ Ews _]. constructor; try assumption.
  - apply queued_pool_eq. exact Ept.
  - destruct Ept as (_&_&_&E&_). exact E.
Qed.
Lemma ninv_neq : forall c st st', ninv c st -> neq st st' -> ninv c st'.
Proof.
  intros c st st' H [E1 E2 E3 E4 E5 E6]. unfold ninv in *. rewrite E1, E2, E3. eapply NI_transfer; eassumption.
Qed.
Lemma neq_set_w : forall a b t x, neq a b -> neq (set_w a t x) (set_w b t x).
Proof.
  intros a b t x [E1 E2 E3 E4 E5 E6]. constructor; cbn; try assumption.
  revert E4. generalize (s_ws a) (s_ws b) (t - 1). intros l l' n H. revert n.
  induction H; intros n; destruct n; cbn [set_nth]; constructor; auto using wsim_refl.
Qed.
Lemma neq_set_main : forall a b o m m', neq a b -> neq (set_main a o m) (set_main b o m').
Proof. intros a b o m m' [E1 E2 E3 E4 E5 E6]. constructor; cbn; assumption || reflexivity. Qed.

(* same pools, workers and main program (events, counters, write register may differ) *)
Definition nt_eq (a b : state) : Prop := s_pt b = s_pt a /\ s_pw b = s_pw a /\ s_ws b = s_ws a /\ s_mops b = s_mops a.
Lemma nt_eq_neq : forall a b, nt_eq a b -> neq a b.
Proof. intros a b (E1&E2&E3&E4). constructor; rewrite ?E1, ?E2, ?E3, ?E4; try reflexivity; try apply incl_refl. apply Forall2_wsim_refl. Qed.
Lemma tr_eq_nt : forall a b, tr_eq a b -> nt_eq a b.
Proof. intros a b (E1&E2&E3&E4&_). repeat split; assumption. Qed.

Lemma ninv_set_w : forall c st t x old, ninv c st -> nth_error (s_ws st) (t - 1) = Some old -> rem_w c x = rem_w c old ->
  ninv c (set_w st t x).
Proof. intros c st t x old H Hn Hr. unfold ninv in *. cbn [s_pt s_pw s_ws s_mops set_w set_ws]. eapply U_worker; eassumption. Qed.

Section NF.
Variable c : cfg.
Hypothesis Hcomp : is_comp c.
Hypothesis HN : 1 <= c_N c.
Hypothesis HTQ2 : 2 <= c_tdepth c.

Ltac inv_c D := destruct D as [pos Q arrived Hops Hpos Hlen HR HB HL HT HW HC HI HQ HS HF].

Lemma body_effects_nt : forall st t j, nt_eq st (body_effects c st t j).
Proof.
  intros st t j. destruct j; try (repeat split; reflexivity). cbn [body_effects].
  destruct (arrive (s_wr st) (Z.of_nat k) [Z.of_nat k]) as [[w' o] ok].
  destruct (wr_events_core (set_wr st w' o ok) t o) as (W1&W2&W3&_).
  repeat split; try assumption.
  - pose proof (W1 PT) as E. cbn [get_pool] in E. rewrite E. reflexivity.
  - pose proof (W1 PW) as E. cbn [get_pool] in E. rewrite E. reflexivity.
Qed.

Lemma worker_submit_n : forall st t w j i w0 p' j' st2 b,
  1 <= t -> cinv c st -> ninv c st -> nth_error (s_ws st) (t - 1) = Some w0 ->
  (w0 = WRun j i \/ w0 = WSubWoken j i) ->
  nth_error (job_subs c j) i = Some (p', j') ->
  submit_cs st t p' j' w = Some (st2, b) ->
  ninv c (set_w st2 t (if b then WRun j (S i) else WSubWait j i)).
Proof.
  intros st t w j i w0 p' j' st2 b Ht D Nv Ew Hw0 Esub Hsub. inv_c D.
  pose proof (wof_nth c (s_ws st) t Ht) as Ewp. rewrite Ew in Ewp.
  pose proof (Forall_nth_error _ _ _ _ _ (HW (own_pool c t)) Ewp) as Tw0.
  assert (Tj : jtype (own_pool c t) j) by (destruct Hw0 as [->| ->]; exact Tw0).
  assert (Hr : running w0 = true) by (destruct Hw0 as [->| ->]; reflexivity).
  assert (Hrem : rem_w c w0 = rem_w c (WRun j i)) by (destruct Hw0 as [->| ->]; reflexivity).
  destruct (running_facts c HN st t w0 pos Q HB HQ Ht Ew Hr) as [Hnq Hbusy].
  destruct (subs_type c _ j i p' j' Tj Esub) as [EpT Tj'].
  rewrite EpT in Hnq, Tj. cbn [qlevel] in Hnq.
  assert (Hsh : forall p0, shut (get_pool st p0) = false).
  { intros p0. destruct (shut (get_pool st p0)) eqn:E; [|reflexivity]. specialize (HS p0 E). lia. }
  assert (Ht0 : t <> 0) by lia.
  pose proof (queued_ring _ _ (HR PT)) as Eq. cbn [get_pool] in Eq.
  destruct j as [k|k| | | | |]; try contradiction.
  - (* the reader job submits to tPool: the queue is never full *)
    destruct (subs_read_nth c k i p' j' Esub) as (-> & Hi & _).
    pose proof Nv as [A B C0 D E F].
    pose proof (sum_ge_elem (rem_w c) _ _ _ Ew) as G1. rewrite Hrem in G1. cbn [rem_w] in G1. fold (sum_rem c (s_ws st)) in G1.
    unfold submit_cs in Hsub. rewrite (ring_full job _ _ (HR PT)), (Hsh PT) in Hsub. cbn [get_pool] in Hsub.
    rewrite <- Eq in Hsub.
    assert (Enf : (S (length (queued (s_pt st))) =? q_size (s_pt st)) = false) by (apply Nat.eqb_neq; lia).
    rewrite Enf in Hsub. cbn [andb] in Hsub.
    destruct (signal_pop _ PT w) as [st3|] eqn:Es; [|discriminate]. injection Hsub as <- <-.
    eapply ninv_neq; [|apply neq_set_w, nsim_neq; eapply signal_pop_nsim; exact Es].
    unfold ninv. cbn [s_pt s_pw s_ws s_mops set_w set_ws set_pool pool_push q_size push_w].
    assert (Eq' : queued (pool_push (s_pt st) j') = queued (s_pt st) ++ [j']).
    { apply queued_ring. rewrite Eq. apply (ring_push job (s_pt st)); [apply (HR PT)|]. rewrite <- Eq. lia. }
    change (mkPool (set_nth (q_tail (s_pt st)) (Some j') (q_arr (s_pt st))) (q_head (s_pt st)) ((q_tail (s_pt st) + 1) mod q_size (s_pt st))
              (q_size (s_pt st)) (n_busy (s_pt st)) false (t_limit (s_pt st)) (shut (s_pt st)) (push_w (s_pt st)) (pop_w (s_pt st)))
      with (pool_push (s_pt st) j').
    rewrite Eq'. eapply (U_pushT_w c); [exact Nv|exact Ew|rewrite Hrem; reflexivity|reflexivity|exact Esub].
  - (* a compression job submits its result to wPool *)
    assert (Ep' : p' = PW).
    { apply nth_error_In in Esub. cbn [job_subs] in Esub. destruct Esub as [E|[]]. injection E as <- _. reflexivity. }
    subst p'. unfold submit_cs in Hsub. rewrite (Hsh PW) in Hsub. cbn [negb get_pool] in Hsub. rewrite andb_true_r in Hsub.
    destruct (isQueueFull (s_pw st)).
    + injection Hsub as <- <-.
      eapply (ninv_set_w c _ t _ w0); [|exact Ew|rewrite Hrem; reflexivity].
      unfold ninv in *. cbn [s_pt s_pw s_ws s_mops set_pool set_push_w push_w]. apply U_pWt; assumption.
    + destruct (signal_pop _ PW w) as [st3|] eqn:Es; [|discriminate]. injection Hsub as <- <-.
      eapply ninv_neq; [|apply neq_set_w, nsim_neq; eapply signal_pop_nsim; exact Es].
      eapply (ninv_set_w c _ t _ w0); [|exact Ew|rewrite Hrem; reflexivity].
      exact Nv.
Qed.

Lemma worker_finish_n : forall st t w j i e st3,
  1 <= t -> ninv c st -> nth_error (s_ws st) (t - 1) = Some (WRun j i) ->
  nth_error (job_subs c j) i = None ->
  signal_push (set_pool (add_event (body_effects c st t j) e) (own_pool c t)
                 (pool_job_done (get_pool (add_event (body_effects c st t j) e) (own_pool c t)))) (own_pool c t) w = Some st3 ->
  ninv c (set_w st3 t WIdle).
Proof.
  intros st t w j i e st3 Ht Nv Ew Esub Hsig.
  eapply ninv_neq; [|apply neq_set_w, nsim_neq; eapply signal_push_nsim; exact Hsig].
  assert (Hr0 : rem_w c (WRun j i) = 0).
  { destruct j; try reflexivity. cbn [rem_w]. apply nth_error_None in Esub. lia. }
  pose proof (body_effects_nt st t j) as (E1&E2&E3&E4).
  set (X := add_event (body_effects c st t j) e) in *.
  assert (NX : ninv c (set_pool X (own_pool c t) (pool_job_done (get_pool X (own_pool c t))))).
  { eapply ninv_neq; [exact Nv|]. unfold X. destruct (own_pool c t); constructor;
      cbn [s_pt s_pw s_ws s_mops set_pool add_event get_pool pool_job_done q_size push_w]; rewrite ?E1, ?E2, ?E3, ?E4;
      try reflexivity; try apply incl_refl; try apply Forall2_wsim_refl. }
  eapply (ninv_set_w c _ t _ (WRun j i)); [exact NX| |rewrite Hr0; reflexivity].
  unfold X. destruct (own_pool c t); cbn [s_ws set_pool add_event]; rewrite E3; exact Ew.
Qed.

Lemma step_worker_n : forall st t w st', 1 <= t -> cinv c st -> ninv c st -> worker_step c st t w = Some st' -> ninv c st'.
Proof.
  intros st t w st' Ht D Nv Hstep. pose proof D as D0. inv_c D.
  unfold worker_step in Hstep.
  destruct (nth_error (s_ws st) (t - 1)) as [w0|] eqn:Ew; [|discriminate].
  pose proof (wof_nth c (s_ws st) t Ht) as Ewp. rewrite Ew in Ewp.
  pose proof (Forall_nth_error _ _ _ _ _ (HW (own_pool c t)) Ewp) as Tw0.
  pose proof (queued_ring _ _ (HR PT)) as Eq. cbn [get_pool] in Eq.
  destruct w0 as [| |j i|j i|j i| |].
  - (* WIdle *)
    destruct (worker_must_wait (get_pool st (own_pool c t))) eqn:Emw.
    + destruct (shut (get_pool st (own_pool c t))); injection Hstep as <-.
      * eapply (ninv_set_w c _ t _ WIdle); [exact Nv|exact Ew|reflexivity].
      * eapply (ninv_set_w c _ t _ WIdle); [|destruct (own_pool c t); exact Ew|reflexivity].
        eapply ninv_neq; [exact Nv|]. destruct (own_pool c t); constructor; cbn; try reflexivity; try apply incl_refl; apply Forall2_wsim_refl.
    + destruct (Q (own_pool c t)) as [|j rest] eqn:EQ.
      { exfalso. pose proof (HR (own_pool c t)) as R. rewrite EQ in R.
        apply (ring_empty job _ _) in R. destruct R as [_ R]. unfold worker_must_wait in Emw.
        rewrite (R eq_refl) in Emw. discriminate. }
      pose proof (HR (own_pool c t)) as R. rewrite EQ in R.
      destruct (ring_pop job _ _ _ R) as [pl' [Epop [R' [Eb [El [Es [Epw [Eqw Esz]]]]]]]].
      rewrite Epop in Hstep.
      destruct (signal_push _ (own_pool c t) w) as [st3|] eqn:Esig; [|discriminate]. injection Hstep as <-.
      eapply ninv_neq; [|apply neq_set_w, nsim_neq; eapply signal_push_nsim; exact Esig].
      assert (Tj : jtype (own_pool c t) j) by (pose proof (HT (own_pool c t)) as F; rewrite EQ in F; inversion F; assumption).
      destruct (own_pool c t) eqn:Eown.
      * (* a tPool worker pops *)
        unfold ninv. cbn [s_pt s_pw s_ws s_mops set_w set_ws set_pool].
        cbn [get_pool] in R', Epw, Esz. rewrite (queued_ring _ _ R'), Epw, Esz.
        unfold ninv in Nv. rewrite Eq, EQ in Nv.
        eapply (U_popT c); [exact Nv|exact Ew|reflexivity].
      * eapply (ninv_set_w c _ t _ WIdle); [|exact Ew|destruct j; try contradiction; reflexivity].
        eapply ninv_neq; [exact Nv|]. cbn [get_pool] in *. constructor; cbn; try reflexivity; try apply incl_refl; try apply Forall2_wsim_refl.
        rewrite Epw. apply incl_refl.
  - discriminate.
  - (* WRun j i *)
    cbn [wjob_ok] in Tw0.
    set (st1 := if i =? 0 then start_effects c st t j else st) in Hstep.
    assert (E1 : tr_eq st st1).
    { unfold st1. destruct (i =? 0); [rewrite (start_effects_comp c st t _ j Tw0); apply tr_eq_add_event|apply tr_eq_refl]. }
    clearbody st1.
    destruct (nth_error (job_subs c j) i) as [[p' j']|] eqn:Esub.
    + destruct (subs_type c _ j i p' j' Tw0 Esub) as [_ Tj'].
      rewrite (sub_effects_comp c st1 t p' p' j' Tj') in Hstep.
      set (st1' := add_event st1 _) in Hstep.
      assert (E2 : tr_eq st st1') by (eapply tr_eq_trans; [exact E1|apply tr_eq_add_event]).
      clearbody st1'.
      destruct (submit_cs st1' t p' j' w) as [[st2 b]|] eqn:Hsub; [|discriminate].
      pose proof (worker_submit_n st1' t w j i (WRun j i) p' j' st2 b Ht (cinv_core c _ _ D0 E2)
                    (ninv_neq c _ _ Nv (nt_eq_neq _ _ (tr_eq_nt _ _ E2)))) as G.
      destruct E2 as (_&_&E2&_). rewrite E2 in G. specialize (G Ew (or_introl eq_refl) Esub Hsub).
      destruct b; injection Hstep as <-; exact G.
    + destruct (signal_push _ (own_pool c t) w) as [st3|] eqn:Hsig; [|discriminate]. injection Hstep as <-.
      pose proof E1 as (_&_&E2&_).
      eapply (worker_finish_n st1 t w j i _ st3 Ht (ninv_neq c _ _ Nv (nt_eq_neq _ _ (tr_eq_nt _ _ E1)))); [rewrite E2; exact Ew|exact Esub|exact Hsig].
  - discriminate.
  - (* WSubWoken j i *)
    destruct (nth_error (job_subs c j) i) as [[p' j']|] eqn:Esub.
    + destruct (submit_cs st t p' j' w) as [[st2 b]|] eqn:Hsub; [|discriminate].
      pose proof (worker_submit_n st t w j i (WSubWoken j i) p' j' st2 b Ht D0 Nv Ew (or_intror eq_refl) Esub Hsub) as G.
      destruct b; injection Hstep as <-; exact G.
    + injection Hstep as <-. eapply ninv_neq; [exact Nv|]. apply nsim_neq. constructor; [apply sim_set_err| |]; apply incl_refl.
  - (* WExit *)
    injection Hstep as <-.
    assert (G : ninv c (set_w st t WDone)) by (eapply (ninv_set_w c _ t _ WExit); [exact Nv|exact Ew|reflexivity]).
    cbn [set_w set_ws s_mst]. destruct (s_mst st) as [|pp| |tj|]; try exact G. destruct (tj =? t); [|exact G].
    eapply ninv_neq; [exact G|]. constructor; cbn; try reflexivity; try apply incl_refl; apply Forall2_wsim_refl.
  - discriminate.
Qed.

Lemma free_not_msub : forall op, is_free op -> is_msub op = false.
Proof. intros [] H; try contradiction; reflexivity. Qed.

Lemma ninv_ops_shrink : forall st X op rest m, ninv c st -> neq st X -> s_mops st = op :: rest -> is_msub op = false ->
  ninv c (set_main X rest m).
Proof.
  intros st X op rest m Nv [E1 E2 E3 E4 E5 E6] Eo Hm. unfold ninv in *. cbn [s_pt s_pw s_ws s_mops set_main].
  rewrite E1, E2. rewrite Eo in Nv. eapply NI_transfer; [eapply U_ops; eassumption|eassumption..].
Qed.

Lemma main_run_free_n : forall fuel st w woken st',
  Forall is_free (s_mops st) -> ninv c st -> main_run fuel c st w woken = Some st' -> ninv c st'.
Proof.
  induction fuel as [|f IH]; intros st w woken st' Hf Nv Hrun.
  { cbn in Hrun. injection Hrun as <-. eapply ninv_neq; [exact Nv|]. apply nsim_neq. constructor; [apply sim_set_err| |]; apply incl_refl. }
  cbn [main_run] in Hrun. destruct (s_mops st) as [|op rest] eqn:Eo.
  { injection Hrun as <-. eapply ninv_neq; [exact Nv|]. constructor; cbn; try reflexivity; try apply incl_refl; try apply Forall2_wsim_refl. symmetry; exact Eo. }
  inversion Hf as [|? ? Hop Hrest]; subst.
  destruct op as [pp jj|kk|pp|pp|pp|tt]; try contradiction.
  - (* MShutdown *)
    injection Hrun as <-. eapply (ninv_ops_shrink st); [exact Nv| |exact Eo|reflexivity].
    destruct pp; constructor; cbn; try reflexivity; try apply incl_refl; apply Forall2_wsim_refl.
  - (* MBroadcast *)
    apply IH in Hrun; [exact Hrun|cbn; exact Hrest|].
    eapply (ninv_ops_shrink st); [exact Nv| |exact Eo|reflexivity].
    eapply neq_trans; [|eapply neq_trans; apply nsim_neq, wake_all_nsim].
    destruct pp; constructor; cbn; try reflexivity; try apply incl_refl; try apply Forall2_wsim_refl; apply incl_nil_l.
  - (* MJoin *)
    destruct (thread_done st tt).
    + apply IH in Hrun; [exact Hrun|cbn; exact Hrest|].
      eapply (ninv_ops_shrink st); [exact Nv|apply neq_refl|exact Eo|reflexivity].
    + injection Hrun as <-. eapply ninv_neq; [exact Nv|]. constructor; cbn; try reflexivity; try apply incl_refl; try apply Forall2_wsim_refl.
      symmetry; exact Eo.
Qed.

Lemma nsub_ctl : forall n, nsub (skipn n (ctl c)) = 0.
Proof.
  intros n. unfold nsub. apply length_zero_iff_nil. destruct (filter is_msub (skipn n (ctl c))) as [|op l] eqn:E; [reflexivity|exfalso].
  assert (Hin : In op (filter is_msub (skipn n (ctl c)))) by (rewrite E; left; reflexivity).
  apply filter_In in Hin. destruct Hin as [Hin Hm]. apply In_skipn_ in Hin.
  destruct Hin as [<-|[<-|Hin]]; try discriminate.
  pose proof (cfrees_free c) as F. rewrite Forall_forall in F. specialize (F op Hin). rewrite (free_not_msub op F) in Hm. discriminate.
Qed.

Lemma no_jcpt_after : forall n, 1 <= n -> ~ In (MJobsCompleted PT) (skipn n (ctl c)).
Proof.
  intros n Hn Hin. destruct n as [|n]; [lia|]. cbn [skipn ctl] in Hin. apply In_skipn_ in Hin.
  destruct Hin as [Hin|Hin]; [discriminate|].
  pose proof (cfrees_free c) as F. rewrite Forall_forall in F. specialize (F _ Hin). contradiction.
Qed.

Lemma main_run_n : forall fuel st w woken st',
  cinv c st -> ninv c st -> main_run fuel c st w woken = Some st' -> ninv c st'.
Proof.
  intros fuel st w woken st' D Nv Hrun. destruct fuel as [|f].
  { cbn in Hrun. injection Hrun as <-. eapply ninv_neq; [exact Nv|]. apply nsim_neq. constructor; [apply sim_set_err| |]; apply incl_refl. }
  pose proof D as D0. inv_c D.
  pose proof (queued_ring _ _ (HR PT)) as Eq. cbn [get_pool] in Eq.
  destruct pos as [i|q]; cbn [cops_of cpos_ok] in *.
  - (* an initial TPool_submitJob(tPool, .) : never full *)
    cbn [main_run] in Hrun. rewrite Hops in Hrun.
    destruct (csubs_head c Hcomp HN i Hpos) as [j [Hhd Tj]]. rewrite Hhd in Hrun. cbn [app] in Hrun.
    set (st1 := if woken then st else sub_effects c st 0 PT j) in Hrun.
    assert (E1 : tr_eq st st1).
    { unfold st1. destruct woken; [apply tr_eq_refl|rewrite (sub_effects_comp c st 0 PT PT j Tj); apply tr_eq_add_event]. }
    clearbody st1. pose proof E1 as (Ept&Epw&Ews&Eops&_).
    assert (Hrd : is_read j = true -> nsub (skipn (S i) (csubs c) ++ ctl c) = 0).
    { intros Hj. unfold nsub. rewrite filter_app, app_length. pose proof (nsub_ctl 0) as Z. unfold nsub in Z. cbn [skipn] in Z. rewrite Z.
      revert Hhd Hj. unfold csubs. destruct Hcomp as [E|[E _]]; rewrite E; destruct i as [|[|i]]; cbn; intros Hhd Hj; try discriminate; try reflexivity;
        injection Hhd as <-; discriminate. }
    pose proof Nv as [A B C0 D1 E F]. rewrite Hops in A, C0. cbn [cops_of] in A, C0. rewrite Hhd in A, C0. cbn [app] in A, C0. rewrite nsub_cons_sub in A, C0.
    assert (Hsh : shut (s_pt st) = false).
    { destruct (shut (s_pt st)) eqn:Es; [|reflexivity]. specialize (HS PT Es). cbn in HS. lia. }
    unfold submit_cs in Hrun. cbn [get_pool] in Hrun. rewrite Ept in Hrun.
    pose proof (ring_full job _ _ (HR PT)) as RF. cbn [get_pool] in RF.
    rewrite RF, Hsh in Hrun. rewrite <- Eq in Hrun.
    assert (Enf : (S (length (queued (s_pt st))) =? q_size (s_pt st)) = false) by (apply Nat.eqb_neq; lia).
    rewrite Enf in Hrun. cbn [andb] in Hrun.
    destruct (signal_pop _ PT w) as [st3|] eqn:Es; [|discriminate]. injection Hrun as <-.
    eapply ninv_neq; [|apply neq_set_main with (m := MRunnable), nsim_neq; eapply signal_pop_nsim; exact Es].
    unfold ninv. cbn [s_pt s_pw s_ws s_mops set_main set_pool]. rewrite Epw, Ews.
    assert (Eq' : queued (pool_push (s_pt st) j) = queued (s_pt st) ++ [j]).
    { apply queued_ring. rewrite Eq. apply (ring_push job (s_pt st)); [apply (HR PT)|]. rewrite <- Eq. lia. }
    rewrite Eq'. cbn [pool_push q_size push_w].
    unfold ninv in Nv. rewrite Hops in Nv. cbn [cops_of] in Nv. rewrite Hhd in Nv. cbn [app] in Nv.
    eapply (U_pushT_m c); [exact Nv|exact Hrd].
  - destruct q as [|[|q]].
    + (* TPool_jobsCompleted(tPool) *)
      cbn [main_run] in Hrun. rewrite Hops in Hrun. cbn [skipn ctl] in Hrun.
      destruct (jobs_pending (get_pool st PT)); injection Hrun as <-.
      * eapply ninv_neq with (st := set_pool st PT (set_push_w (s_pt st) (push_w (s_pt st) ++ [0]))).
        -- unfold ninv in *. cbn [s_pt s_pw s_ws s_mops set_pool set_push_w push_w q_size]. apply U_pT0. exact Nv.
        -- constructor; cbn; try reflexivity; try apply incl_refl; try apply Forall2_wsim_refl. rewrite Hops. reflexivity.
      * eapply (ninv_ops_shrink st); [exact Nv|apply neq_refl|rewrite Hops; reflexivity|reflexivity].
    + (* TPool_jobsCompleted(wPool) *)
      cbn [main_run] in Hrun. rewrite Hops in Hrun. cbn [skipn ctl] in Hrun.
      destruct (jobs_pending (get_pool st PW)); injection Hrun as <-.
      * eapply ninv_neq with (st := set_pool st PW (set_push_w (s_pw st) (push_w (s_pw st) ++ [0]))).
        -- unfold ninv in *. cbn [s_pt s_pw s_ws s_mops set_pool set_push_w push_w q_size]. apply U_pW0; [exact Nv| |].
           ++ rewrite Hops. apply (nsub_ctl 1).
           ++ rewrite Hops. apply (no_jcpt_after 1). lia.
        -- constructor; cbn; try reflexivity; try apply incl_refl; try apply Forall2_wsim_refl. rewrite Hops. reflexivity.
      * eapply (ninv_ops_shrink st); [exact Nv|apply neq_refl|rewrite Hops; reflexivity|reflexivity].
    + (* the TPool_free operations *)
      eapply main_run_free_n; [|exact Nv|exact Hrun].
      rewrite Hops. cbn [skipn ctl]. apply Forall_skipn_. apply cfrees_free.
Qed.

Lemma pstep_ninv : forall st pk st', cinv c st -> ninv c st -> pstep c st pk = Some st' -> ninv c st'.
Proof.
  intros st [t w] st' D Nv H. unfold pstep in H.
  assert (NS : forall x, ninv c x -> ninv c (next_step x)).
  { intros x Nx. eapply ninv_neq; [exact Nx|]. apply nt_eq_neq. repeat split. }
  destruct t as [|t]; cbn [Nat.eqb] in H.
  - unfold main_step in H.
    destruct (s_mst st); try discriminate;
      (destruct (main_run _ c st w _) as [st2|] eqn:E; [|discriminate]; injection H as <-;
       apply NS; eapply main_run_n; eassumption).
  - destruct (worker_step c st (S t) w) as [st2|] eqn:E; [|discriminate]. injection H as <-.
    apply NS. eapply step_worker_n; [|exact D|exact Nv|exact E]. lia.
Qed.

Lemma init_ninv : ninv c (init_state c).
Proof.
  unfold ninv, init_state. cbn [s_pt s_pw s_ws s_mops pool_create push_w q_size].
  assert (Eq : queued (pool_create (c_N c) (c_tdepth c)) = ([] : list job)).
  { apply queued_ring. apply ring_create. lia. }
  rewrite Eq.
  assert (W : forall g : wstate -> nat, g WIdle = 0 -> sum_list (map g (repeat WIdle (S (c_N c)))) = 0).
  { intros g Hg. generalize (S (c_N c)). intros n. induction n as [|n IHn]; [reflexivity|]. cbn [repeat map sum_list fold_right]. unfold sum_list in IHn. lia. }
  assert (Hns : 1 <= nsub (main_program c) <= 2).
  { rewrite (main_program_comp c Hcomp). unfold nsub. rewrite filter_app, app_length.
    pose proof (nsub_ctl 0) as Z. unfold nsub in Z. cbn [skipn] in Z. rewrite Z.
    unfold csubs. destruct (c_kind c); cbn; lia. }
  constructor.
  - unfold sum_ent. rewrite (W (fun w => pos1 (rem_w c w)) eq_refl). unfold nreadq. cbn.
    assert (pos1 (nsub (main_program c)) <= 1) by (destruct (nsub (main_program c)); cbn; lia). lia.
  - intros pre j post H. destruct pre; discriminate.
  - unfold sum_rem. rewrite (W (rem_w c) eq_refl). cbn [length]. lia.
  - intros t [].
  - intros [].
  - reflexivity.
Qed.

Hypothesis HWQ : 1 <= c_wdepth c.

Lemma run_both : forall sched st st', cinv c st -> ninv c st -> run c st sched = Some st' -> cinv c st' /\ ninv c st'.
Proof.
  induction sched as [|pk sched IH]; intros st st' D Nv H; cbn [run] in H.
  - injection H as <-. auto.
  - destruct (pstep c st pk) as [st2|] eqn:E; [|discriminate]. eapply IH; [| |exact H].
    + eapply pstep_cinv; try eassumption; lia.
    + eapply pstep_ninv; eassumption.
Qed.

(* tpool_compress_never_full: with a tPool queue depth >= 2, in every reachable state of a compression run the queue
   holds at most 2 jobs, it is not full, and only the main thread (in TPool_jobsCompleted) can be waiting on its queuePushCond *)
Theorem never_full : forall sched st, run c (init_state c) sched = Some st ->
  length (queued (s_pt st)) <= 2 /\ q_len (s_pt st) <= 2 /\
  (forall t, In t (push_w (s_pt st)) -> t = 0).
Proof.
  intros sched st H.
  destruct (run_both sched _ _ (init_cinv c Hcomp HN ltac:(lia) HWQ) init_ninv H) as [D Nv].
  destruct Nv as [A B C0 D1 E F]. inv_c D.
  assert (L : length (queued (s_pt st)) <= 2) by lia.
  repeat split; try assumption.
  pose proof (ring_q_len job _ _ (HR PT)) as E1. pose proof (queued_ring _ _ (HR PT)) as E2. cbn [get_pool] in E1, E2.
  rewrite E1, <- E2. exact L.
Qed.

(* waiters_homogeneous: when the main thread waits on wPool's queuePushCond, tPool is quiescent, hence no compression
   job (the only other kind of waiter on that condition) exists *)
Theorem waiters_homogeneous : forall sched st, run c (init_state c) sched = Some st ->
  In 0 (push_w (s_pw st)) -> queued (s_pt st) = [] /\ n_busy (s_pt st) = 0.
Proof.
  intros sched st H H0.
  destruct (run_both sched _ _ (init_cinv c Hcomp HN ltac:(lia) HWQ) init_ninv H) as [D Nv].
  destruct Nv as [A B C0 D1 E F]. inv_c D. destruct (E H0) as [E1 E2].
  pose proof (queued_ring _ _ (HR PT)) as EQ. cbn [get_pool] in EQ. rewrite EQ.
  destruct pos as [i|q]; cbn [cops_of cpos_ok] in *.
  - exfalso. destruct (csubs_head c Hcomp HN i Hpos) as [j [Hhd _]]. rewrite Hops, Hhd in E1. cbn [app] in E1. rewrite nsub_cons_sub in E1. discriminate.
  - destruct q as [|q]; [exfalso; apply E2; rewrite Hops; left; reflexivity|].
    apply (HQ PT). cbn. lia.
Qed.
End NF.
