(* C03 / C07 with the block compressor INSTANTIATED (Proofs.BlkInst): LZ4F sessions with independent blocks and no
   dictionary, any compression level: no hypothesis about block compressors is left.  What remains: the context
   invariants of the oracle states (satisfied by the states a session actually reaches: BlkInst.*_run_ok), the
   premises on preferences / sizes of the original theorems, and the ties of the models to the code. *)
From Coq Require Import ZArith List Lia Bool.
From LZ4V Require Import Gen.Consts Spec.BlockSpec Spec.XXH32 Spec.FrameSpec Model.Mem Model.FastApi Model.HcMidApi Model.HcChainApi Model.HcOptApi Model.FrameD Model.FrameC Model.FrameAudit.
From LZ4V Require Proofs.FrameDProofs Proofs.FrameDChunk.
From LZ4V Require Import Proofs.FastApiSound Proofs.HcMidApiSound Proofs.HcChainApiSound Proofs.HcOptApiSound.
From LZ4V Require Import Proofs.FrameCBytes Proofs.FrameCBlocks Proofs.FrameCProofs Proofs.FrameCTheorems Proofs.FrameRoundTrip Proofs.BlkInst.
Import ListNotations.
Local Open Scope Z_scope.

Definition states_ok (sf : nat -> fctx) (sm : nat -> hcctx) (sh : nat -> hcc) : Prop :=
  (forall n, ctx_ok (sf n)) /\ (forall n, hc_ok (sm n)) /\ (forall n, cc_ok (sh n)).

Lemma indep_contract level sf sm sh : states_ok sf sm sh -> blk_contract strict_valid (blk_indep level sf sm sh).
Proof. intros (H1 & H2 & H3). apply blk_indep_contract; assumption. Qed.
Lemma indep_bytes level sf sm sh : states_ok sf sm sh -> blk_bytes (blk_indep level sf sm sh).
Proof. intros (H1 & H2 & H3). apply blk_indep_bytes; assumption. Qed.

Theorem c03_roundtrip_indep : forall level sf sm sh, states_ok sf sm sh ->
  forall c0 po ms F X,
  prefs_opt_ok po -> uncompressed_only_if_independent po ms -> len X < U64 ->
  p_level (eff_prefs po) = level -> p_blockMode (eff_prefs po) = FC_blockIndependent ->
  session (blk_indep level sf sm sh) c0 po NoDict ms = Some (F, X) ->
  frame_decode spec_decode false (dict_of NoDict) F = Some (X, []).
Proof.
  intros level sf sm sh Hst c0 po ms F X Hpo Hunc HX _ _ H.
  exact (c03_roundtrip _ (strict_contract_spec _ (indep_contract level sf sm sh Hst)) c0 po NoDict ms F X Hpo Hunc HX H).
Qed.

Theorem c07_conformant_indep : forall level sf sm sh, states_ok sf sm sh ->
  forall c0 po ms F X,
  prefs_opt_ok po -> uncompressed_only_if_independent po ms -> len X < U64 ->
  p_level (eff_prefs po) = level -> p_blockMode (eff_prefs po) = FC_blockIndependent ->
  session (blk_indep level sf sm sh) c0 po NoDict ms = Some (F, X) ->
  exists maxb bl,
    let p := eff_prefs po in
    4 <= p_bsid p <= 7 /\ bsid_size (p_bsid p) = Some maxb /\
    F = header_bytes (desc_of p) ++ enc_blocks (p_bcrc p =? 1) bl ++ le_bytes 4 0
        ++ (if p_ccrc p =? 1 then le_bytes 4 (xxh32 0 X) else []) /\
    X = contents bl /\
    chain strict_valid (p_blockMode p =? 1) (dict_of NoDict) maxb [] bl /\
    (p_contentSize p <> 0 -> p_contentSize p = len X) /\
    frame_audit strict_valid (dict_of NoDict) F = Some (desc_of p, X, [], Z.of_nat (length bl)) /\
    frame_decode strict_valid false (dict_of NoDict) F = Some (X, []).
Proof.
  intros level sf sm sh Hst c0 po ms F X Hpo Hunc HX _ _ H.
  exact (c07_conformant _ (indep_contract level sf sm sh Hst) c0 po NoDict ms F X Hpo Hunc HX H).
Qed.

(* the full C03 statement (the real, chunked decoder driven with any pieces and capacities) *)
Theorem c03_lossless_indep : forall level sf sm sh, states_ok sf sm sh ->
  forall c0 po ms F X,
  prefs_opt_ok po -> uncompressed_only_if_independent po ms -> len X < U64 ->
  bytes_ok X = true ->
  p_level (eff_prefs po) = level -> p_blockMode (eff_prefs po) = FC_blockIndependent ->
  session (blk_indep level sf sm sh) c0 po NoDict ms = Some (F, X) ->
  forall o s ns caps,
  dctx_at_frame_start s ->
  (forall k, Forall (fun c => 0 <= c) caps ->
     FrameDChunk.drive_usingDict spec_decode (dict_of NoDict) o k s F ns caps [] 0 <> FrameDChunk.VError /\
     (FrameDChunk.drive_usingDict spec_decode (dict_of NoDict) o k s F ns caps [] 0 <> FrameDChunk.VMore ->
      FrameDChunk.drive_usingDict spec_decode (dict_of NoDict) o k s F ns caps [] 0 = FrameDChunk.VComplete X (zlen F))) /\
  (o_dstnull o = false -> Forall (fun n => 1 <= n) ns -> Forall (fun c => 1 <= c) caps ->
   let K := Z.to_nat (zlen F + zlen X + 1) in
   (K <= length ns)%nat -> (K <= length caps)%nat ->
   FrameDChunk.drive_usingDict spec_decode (dict_of NoDict) o K s F ns caps [] 0 = FrameDChunk.VComplete X (zlen F)).
Proof.
  intros level sf sm sh Hst c0 po ms F X Hpo Hunc HX HbX _ _ H.
  exact (c03_lossless _ (strict_contract_spec _ (indep_contract level sf sm sh Hst)) (indep_bytes level sf sm sh Hst)
           c0 po NoDict ms F X Hpo Hunc HX HbX H).
Qed.

(* the oracle of a session that starts from fresh lz4 / lz4hc contexts: [xs n] = the n-th block compressed *)
Lemma fresh_run_states_ok level xs : (forall n, blk_guard (xs n) = true) ->
  states_ok (fast_run ctx_init level xs) (mid_run hc_init xs) (hc_run_states cc_init (Z.max 3 level) xs).
Proof.
  intros Hx. destruct fresh_states_ok as (F1 & F2 & F3).
  split; [apply fast_run_ok; assumption | split; [apply mid_run_ok; assumption | apply hc_run_states_ok; [lia | assumption | assumption]]].
Qed.

Print Assumptions c03_roundtrip_indep.
Print Assumptions c07_conformant_indep.
Print Assumptions c03_lossless_indep.
