(* Proofs about the size model of the LZ4F streaming compressor, part 3:
   statements over whole histories, exported as property C10. *)
From Coq Require Import ZArith List Lia Bool ZifyBool.
From LZ4V Require Import Gen.Consts Model.FrameCSizes Proofs.FrameCSizesProofs Proofs.FrameCSizesOps.
Import ListNotations.
Local Open Scope Z_scope.

(* ------------------------------------------------------------------ (d) statements over whole histories *)
Lemma never_overflows : forall ops tape, Forall op_wf ops ->
  let '(xs, c, t) := run true cctx0 tape ops in
  Forall2 (fun x o =>
             o_ret x <> OutOfModel /\ 0 <= o_ext x <= cap_of o /\
             (forall w, o_ret x = Ok w -> 0 <= w <= o_ext x)) xs ops.
Proof.
  intros ops tape Hwf. pose proof (run_inv ops cctx0 tape Inv0 Hwf) as H.
  destruct (run true cctx0 tape ops) as [[xs c] t]. destruct H as [_ H]. exact H.
Qed.

Lemma tmpIn_invariant : forall ops tape, Forall op_wf ops ->
  let '(xs, c, t) := run true cctx0 tape ops in
  0 <= c_tmpInSize c /\
  (0 < c_tmpInSize c -> c_stage c = 1) /\
  (c_stage c = 1 ->
   c_tmpInSize c < c_maxBlockSize c /\
   c_maxBlockSize c = getBlockSize (p_bsid (c_prefs c)) /\
   In (c_maxBlockSize c) blockSizes /\
   (p_af (c_prefs c) = true -> c_tmpInSize c = 0)).
Proof.
  intros ops tape Hwf. pose proof (run_inv ops cctx0 tape Inv0 Hwf) as H.
  destruct (run true cctx0 tape ops) as [[xs c] t]. destruct H as [Hinv _].
  pose proof Hinv as (H0 & Hv & Hp & Hs). split; [exact H0|]. split; [exact Hp|].
  intros Hst. destruct (Hs Hst) as (Hb & Hlt & Haf). destruct (Inv_bs c Hinv Hst) as (Hvbs & _).
  repeat split; auto. unfold blockSizes. unfold vbs in Hvbs. cbn [In].
  destruct Hvbs as [H|[H|[H|H]]]; rewrite H; auto 10.
Qed.

Lemma compress_update_fits : forall c n cap tape,
  reachable c -> c_stage c = 1 -> 0 <= n ->
  (c_unc c = false \/ c_tmpInSize c = 0) ->
  compressBound n (Some (c_prefs c)) <= cap ->
  let '(x, c', t') := updateImpl true c false n cap tape in
  exists w, o_ret x = Ok w /\ 0 <= w <= o_ext x /\
    o_ext x <= compressBound_internal n (Some (c_prefs c)) (c_tmpInSize c) - frameEnd (c_prefs c) /\
    compressBound_internal n (Some (c_prefs c)) (c_tmpInSize c) <= compressBound n (Some (c_prefs c)) /\
    compressBound n (Some (c_prefs c)) <= cap.
Proof. intros c. exact (update_fits c false). Qed.

Lemma uncompressed_update_fits : forall c n cap tape,
  reachable c -> c_stage c = 1 -> 0 <= n ->
  (c_unc c = true \/ c_tmpInSize c = 0) ->
  compressBound n (Some (c_prefs c)) <= cap ->
  let '(x, c', t') := updateImpl true c true n cap tape in
  exists w, o_ret x = Ok w /\ 0 <= w <= o_ext x /\
    o_ext x <= compressBound_internal n (Some (c_prefs c)) (c_tmpInSize c) - frameEnd (c_prefs c) /\
    compressBound_internal n (Some (c_prefs c)) (c_tmpInSize c) <= compressBound n (Some (c_prefs c)) /\
    compressBound n (Some (c_prefs c)) <= cap.
Proof. intros c. exact (update_fits c true). Qed.

(* every buffered amount 0..blockSize-1 is reached by compressUpdate calls alone *)
Lemma update_buffers : forall c n cap tape,
  c_stage c = 1 -> c_tmpInSize c = 0 -> c_unc c = false -> p_af (c_prefs c) = false ->
  0 <= n < c_maxBlockSize c ->
  compressBound_internal n (Some (c_prefs c)) 0 <= cap ->
  c_tmpInSize (snd (fst (updateImpl true c false n cap tape))) = n /\
  c_stage (snd (fst (updateImpl true c false n cap tape))) = 1 /\
  c_unc (snd (fst (updateImpl true c false n cap tape))) = false /\
  c_prefs (snd (fst (updateImpl true c false n cap tape))) = c_prefs c.
Proof.
  intros c n cap tape Hst Ht Hu Haf Hn Hcap.
  assert (E : updateImpl true c false n cap tape =
              (mkOut (Ok 0) 0 [], mkCctx (c_prefs c) 1 (c_maxBlockSize c) n (c_totalIn c + n) false, tape)).
  { unfold updateImpl. rewrite Hst, Ht. change (negb (1 =? 1)) with false. cbv beta iota.
    destruct (cap <? compressBound_internal n (Some (c_prefs c)) 0) eqn:E1; [clear - E1 Hcap; lia|].
    cbn [andb]. rewrite Hu. cbn [Bool.eqb]. cbv beta iota.
    unfold update_body. rewrite Ht, Haf. change (0 <? 0) with false. cbv beta iota.
    rewrite Z.div_small by (clear - Hn; lia). change (Z.to_nat 0) with 0%nat. cbn [full_blocks].
    destruct (c_maxBlockSize c <=? n) eqn:E3; [clear - E3 Hn; lia|].
    cbn [andb]. unfold out_of, wr0. cbn [w_pos w_ext w_log w_tape rev].
    rewrite Hst, Hu. destruct (0 <? n) eqn:E4; [reflexivity|].
    assert (n = 0) by (clear - E4 Hn; lia). subst n. reflexivity. }
  rewrite E. cbn [fst snd c_tmpInSize c_stage c_unc c_prefs]. auto.
Qed.

Lemma buffered_amounts_reachable : forall p t,
  valid_bsid0 (p_bsid p) = true -> p_af p = false -> 0 <= t < getBlockSize (p_bsid p) ->
  exists c, reachable c /\ c_stage c = 1 /\ c_tmpInSize c = t /\ c_unc c = false /\
            c_prefs c = begin_prefs (Some p).
Proof.
  intros p t Hv Haf Ht.
  assert (Ht0 : 0 <= t) by (clear - Ht; lia).
  set (cap2 := compressBound t (Some p)).
  assert (Hcap2 : 0 <= cap2) by (pose proof (cb_ge_n p t Hv Ht0); unfold cap2; lia).
  assert (Hfh : 0 <= maxFHSize) by (unfold maxFHSize; lia).
  destruct (begin_prefs_some p) as (Hg & Ha & Hc & Hcc & Hcs).
  pose proof (begin_spec cctx0 (Some p) maxFHSize Inv0 Hv Hfh) as Hb.
  destruct (compressBegin cctx0 (Some p) maxFHSize) as [x1 c1] eqn:E1.
  destruct Hb as (Hi1 & _ & Hb). destruct (Hb (Z.le_refl _)) as (_ & _ & Hpr1 & Hst1 & Ht1 & Hu1 & _). clear Hb.
  assert (Hr1 : reachable c1).
  { exists [OpBegin (Some p) maxFHSize], []. split; [repeat constructor; cbn; auto|].
    cbn [run step]. rewrite E1. reflexivity. }
  pose proof Hi1 as (_ & _ & _ & Hs). destruct (Hs Hst1) as (Hmb & _ & _).
  assert (Hcbe : compressBound t (Some (c_prefs c1)) = cap2).
  { unfold cap2. rewrite Hpr1.
    rewrite (cb_eq t (begin_prefs (Some p)) (bsid_in_range_valid0 _ (begin_prefs_range (Some p) Hv)) Ht0).
    rewrite (cb_eq t p Hv Ht0).
    rewrite Hg, Ha, Hc. unfold frameEnd. rewrite Hcc. reflexivity. }
  pose proof (cbi_le_cb c1 t Hi1 Hst1 Ht0) as Hle. rewrite Hcbe, Ht1 in Hle.
  assert (P3 : c_unc c1 = false) by (rewrite Hu1; reflexivity).
  assert (P4 : p_af (c_prefs c1) = false) by (rewrite Hpr1, Ha; exact Haf).
  assert (P5 : 0 <= t < c_maxBlockSize c1) by (rewrite Hmb, Hpr1, Hg; exact Ht).
  destruct (update_buffers c1 t cap2 [] Hst1 Ht1 P3 P4 P5 Hle) as (R1 & R2 & R3 & R4).
  exists (snd (fst (updateImpl true c1 false t cap2 []))).
  split.
  { exists [OpBegin (Some p) maxFHSize; OpUpdate t cap2], [].
    split; [repeat constructor; cbn [op_wf prefs_ok]; auto|].
    cbn [run step]. rewrite E1.
    destruct (updateImpl true c1 false t cap2 []) as [[x2 c2] t2]. reflexivity. }
  rewrite R1, R2, R3, R4. auto.
Qed.

(* the bound computed from the caller's preferences is the bound for the preferences the
   context keeps (blockSizeID 0 replaced by the default) *)
Lemma cb_begin_prefs : forall p n, valid_bsid0 (p_bsid p) = true -> 0 <= n ->
  compressBound n (Some (begin_prefs (Some p))) = compressBound n (Some p) /\
  compressBound_internal n (Some (begin_prefs (Some p))) 0 = compressBound_internal n (Some p) 0.
Proof.
  intros p n Hv Hn. destruct (begin_prefs_some p) as (Hg & Ha & Hc & Hcc & Hcs).
  pose proof (bsid_in_range_valid0 _ (begin_prefs_range (Some p) Hv)) as Hv'.
  pose proof (getBlockSize_vbs _ Hv) as Hb. apply vbs_pos in Hb.
  split.
  - rewrite (cb_eq n (begin_prefs (Some p)) Hv' Hn), (cb_eq n p Hv Hn).
    rewrite Hg, Ha, Hc. unfold frameEnd. rewrite Hcc. reflexivity.
  - rewrite (cbi_t n (begin_prefs (Some p)) 0 Hv' Hn) by (rewrite Hg; lia).
    rewrite (cbi_t n p 0 Hv Hn) by lia.
    rewrite Hg, Ha, Hc. unfold frameEnd. rewrite Hcc. reflexivity.
Qed.
