(* Soundness of the fast compressor model (Model.Fast.compress_validated, i.e.
   LZ4_compress_generic_validated) for the notLimited and limitedOutput
   directives: whatever the table held on entry (subject to [tab_ok], which the
   API layer establishes), whatever the dictionary directive, table type,
   acceleration and capacity, a successful run emits a FACTORISATION of the input
   (Proofs.FactorSpec): every literal run is the next input bytes, every match
   designates equal bytes at a distance in 1..65535 that does not reach before
   the visible history.  Hence (FactorSpec.factor_block_decodes) the emitted
   block is decoded by the specification's decoder to exactly the input. *)
From Coq Require Import ZArith List Lia Bool ZifyBool.
From LZ4V Require Import Gen.Consts Spec.BlockSpec Model.Mem Model.Fast Proofs.BlockSpecProofs Proofs.FactorSpec Proofs.FastBasics.
Import ListNotations.
Local Open Scope Z_scope.

Section Sound.
  Variable vrd : Z -> Z.
  Variables (tt : ttype) (od : outdir) (dd : cdict) (dictSmall : bool).
  Variables (startIndex dictSize : Z) (dtable : mem) (dictDelta inputSize maxOutputSize acceleration : Z).

  Hypothesis Hb : forall a, 0 <= vrd a < 256.
  Hypothesis Hds : 0 <= dictSize.
  Hypothesis Hod : od <> FillOutput.

  (* lowest index a match may refer to: the history the decoder will have *)
  Definition hist_lo : Z := match dd with CNoDict => startIndex | _ => startIndex - dictSize end.
  (* is the distance test of the search loop compiled in for this table type? *)
  Definition dist_active : bool :=
    match tt with ByU16 => LZ4_DISTANCE_MAX <? LZ4_DISTANCE_ABSOLUTE_MAX | ByU32 => true end.
  (* a table entry is harmless: inside the history, or rejected by one of the two filters
     at every position of this block *)
  Definition good3 (e : Z) : Prop :=
    hist_lo <= e \/ (dictSmall = true /\ e < startIndex - dictSize)
    \/ (dist_active = true /\ e + LZ4_DISTANCE_MAX <= startIndex).
  (* an entry of the working table below startIndex is never used with a dictionary context
     (the dictionary's table is consulted instead) *)
  Definition good (e : Z) : Prop := good3 e \/ (dd = CUsingDictCtx /\ e < startIndex).
  (* [L]: any lower bound of the table's content the caller wants to keep track of *)
  Variable L : Z.
  Hypothesis HL : L <= startIndex.
  Definition tab_ok (c : Z) (tab : mem) : Prop := forall h, L <= get tab h < c /\ good (get tab h).

  Hypothesis Hdt : dd = CUsingDictCtx ->
                   forall h, get dtable h + dictDelta < startIndex /\ good3 (get dtable h + dictDelta).
  Hypothesis Hu16 : dist_active = false -> startIndex + inputSize - MFLIMIT - hist_lo <= 65535.

  Let iend_ := iend startIndex inputSize.
  Let mfl := mflimitPlusOne startIndex inputSize.
  Let mlim := matchlimit startIndex inputSize.

  Lemma hist_lo_le : hist_lo <= startIndex.
  Proof. unfold hist_lo. destruct dd; lia. Qed.

  Lemma tab_ok_mono c c' tab : tab_ok c tab -> c <= c' -> tab_ok c' tab.
  Proof. intros H Hc h. destruct (H h). split; [lia | assumption]. Qed.

  (* bound on the table content when the call returns, successful or not *)
  Definition endB : Z := Z.max (startIndex + 1) (startIndex + inputSize).

  Lemma tab_ok_set c c' tab h p :
    tab_ok c tab -> c <= c' -> startIndex <= p < c' -> tab_ok c' (set tab h p).
  Proof.
    intros H Hc Hp h'. rewrite get_set. destruct (h =? h').
    - split; [lia|]. left. left. pose proof hist_lo_le. lia.
    - destruct (H h'). split; [lia | assumption].
  Qed.

  Hypothesis Hs0 : 0 <= startIndex.
  (* truncated (16-bit) indices are only stored when they cannot be mistaken for a usable position *)
  Hypothesis Hidx : tt = ByU16 ->
                    mflimitPlusOne startIndex inputSize <= 65536
                    \/ (dictSmall = true /\ 65536 <= startIndex - dictSize /\ L <= 0).

  (* storing a position the way LZ4_putIndexOnHash does *)
  Lemma tab_ok_put c c' tab h p :
    tab_ok c tab -> c <= c' -> startIndex <= p < c' -> p < mfl -> tab_ok c' (set tab h (idx tt p)).
  Proof.
    intros H Hc Hp Hm. unfold idx.
    assert (Hcase : tt = ByU32 \/ tt = ByU16) by (destruct tt; auto).
    destruct Hcase as [Et|Et]; rewrite Et; [apply (tab_ok_set c); assumption|].
    destruct (Hidx Et) as [Hs|(Hs1 & Hs2 & Hs3)].
    - rewrite Z.mod_small by (fold mfl in Hs; lia). apply (tab_ok_set c); assumption.
    - intros h'. rewrite get_set. destruct (h =? h').
      + pose proof (Z.mod_pos_bound p 65536 ltac:(lia)).
        assert (p mod 65536 <= p) by (apply Z.mod_le; lia).
        split; [lia|]. left. right. left. split; [exact Hs1 | lia].
      + destruct (H h'). split; [lia | assumption].
  Qed.

  Lemma candidate_spec c tab h :
    tab_ok c tab -> startIndex + 1 <= c ->
    let '(mi, low) := candidate dd startIndex dictSize dtable dictDelta tab h in
    mi < c /\
    (~ (dictSmall = true /\ mi < startIndex - dictSize) ->
     ~ (dist_active = true /\ mi + LZ4_DISTANCE_MAX < c) -> hist_lo <= low <= mi).
  Proof.
    intros Ht Hc. unfold candidate, lowLimit0.
    destruct (Ht h) as [[_ Hlt] Hg].
    assert (G : forall e, good3 e -> e < c ->
              ~ (dictSmall = true /\ e < startIndex - dictSize) ->
              ~ (dist_active = true /\ e + LZ4_DISTANCE_MAX < c) -> hist_lo <= e).
    { intros e [He|[He|He]] Hec N1 N2; [assumption | exfalso; apply N1; assumption |].
      exfalso. apply N2. split; [apply He | lia]. }
    assert (G' : dd <> CUsingDictCtx -> good3 (get tab h)).
    { intros Hd. destruct Hg as [Hg|[Hg _]]; [exact Hg | contradiction]. }
    pose proof hist_lo_le as Hle.
    assert (Hh : hist_lo = match dd with CNoDict => startIndex | _ => startIndex - dictSize end) by reflexivity.
    destruct dd eqn:Edd.
    - split; [exact Hlt|]. intros N1 N2. pose proof (G _ (G' ltac:(discriminate)) Hlt N1 N2). lia.
    - split; [exact Hlt|]. intros N1 N2. pose proof (G _ (G' ltac:(discriminate)) Hlt N1 N2). lia.
    - destruct (get tab h <? startIndex) eqn:E.
      + split; [exact Hlt|]. intros N1 N2. pose proof (G _ (G' ltac:(discriminate)) Hlt N1 N2). lia.
      + split; [exact Hlt|]. intros _ _. lia.
    - destruct (get tab h <? startIndex) eqn:E.
      + destruct (Hdt eq_refl h) as [Hd1 Hd2].
        split; [lia|]. intros N1 N2.
        assert (get dtable h + dictDelta < c) by lia.
        pose proof (G _ Hd2 H N1 N2). lia.
      + split; [exact Hlt|]. intros _ _. lia.
  Qed.

  (* ---- invariants ---- *)
  (* the end-of-block restrictions of the format: the last match ends at least LASTLITERALS
     and starts at least MFLIMIT bytes before the end of the input *)
  Definition end_inv (s : cstate) : Prop :=
    match c_seqs s with
    | [] => True
    | q :: _ => c_anchor s <= mlim /\ c_anchor s - s_mlen q <= iend_ - MFLIMIT
    end.
  Definition SInv (s : cstate) : Prop :=
    startIndex <= c_anchor s /\
    seqs_valid vrd hist_lo startIndex (rev (c_seqs s)) /\
    seqs_end startIndex (rev (c_seqs s)) = c_anchor s /\
    end_inv s.

  Definition MPre (s : cstate) (litLength mi low filledIp : Z) : Prop :=
    SInv s /\ c_anchor s <= c_ip s /\ litLength = c_ip s - c_anchor s /\
    hist_lo <= low <= mi /\ mi < c_ip s /\ c_ip s - mi <= 65535 /\
    c_ip s < mfl /\ filledIp < mfl /\
    (forall k, 0 <= k < Z.max 4 (filledIp - c_ip s + 4) -> vrd (c_ip s + k) = vrd (mi + k)) /\
    tab_ok (Z.max filledIp (c_ip s) + 1) (c_tab s).

  Definition NPost (n : next) : Prop :=
    match n with
    | NLast s => SInv s /\ c_anchor s <= iend_ /\ tab_ok endB (c_tab s)
    | NFail tab => tab_ok endB tab
    | NLoop s _ => SInv s /\ c_anchor s <= c_ip s /\ startIndex + 1 <= c_ip s <= mfl /\ tab_ok (c_ip s) (c_tab s)
    | NMatch s _ l mi low fi => MPre s l mi low fi
    end.

  Definition RPost (r : cres) : Prop :=
    match r with
    | RFail tab => tab_ok endB tab
    | ROk ss last consumed tab _ =>
      tab_ok endB tab /\
      end_ok ss last = true /\
      consumed = inputSize /\ seqs_valid vrd hist_lo startIndex ss /\
      seqs_end startIndex ss <= startIndex + inputSize /\
      last = seg vrd (seqs_end startIndex ss) (startIndex + inputSize)
    end.

  Lemma dmax_le : LZ4_DISTANCE_MAX <= 65535.
  Proof. unfold LZ4_DISTANCE_MAX. lia. Qed.

  (* the distance bound that both filters (or the 64K limit) give *)
  Lemma offset_bound mi c :
    hist_lo <= mi -> c < mfl ->
    ~ (dist_active = true /\ mi + LZ4_DISTANCE_MAX < c) -> c - mi <= 65535.
  Proof.
    intros Hmi Hc N. pose proof dmax_le.
    destruct dist_active eqn:E.
    - destruct (Z_lt_le_dec (mi + LZ4_DISTANCE_MAX) c) as [Hlt|]; [exfalso; apply N; auto | lia].
    - pose proof (Hu16 eq_refl). unfold mfl, mflimitPlusOne, iend in Hc. lia.
  Qed.

  (* ---- the search loop ---- *)
  Lemma search_ok : forall fuel s forwardIp step smn fh tab,
    SInv s -> c_anchor s <= forwardIp -> startIndex + 1 <= forwardIp <= mfl ->
    tab_ok forwardIp tab -> 1 <= step -> 2 ^ LZ4_skipTrigger <= smn ->
    NPost (search vrd tt od dd dictSmall startIndex dictSize dtable dictDelta inputSize maxOutputSize
                  fuel s forwardIp step smn fh tab).
  Proof.
    induction fuel as [|f IH]; intros s forwardIp step smn fh tab HS Ha Hf Ht Hstep Hsmn;
      cbn [search].
    { cbn [NPost]. eapply tab_ok_mono; [exact Ht|]. unfold endB, mfl, mflimitPlusOne, iend, MFLIMIT in *. lia. }
    pose proof (candidate_spec forwardIp tab fh Ht ltac:(lia)) as Hc.
    destruct (candidate dd startIndex dictSize dtable dictDelta tab fh) as [mi low].
    destruct Hc as [Hmi Hlow].
    cbv zeta.
    fold mfl.
    destruct (forwardIp + step >? mfl) eqn:E1.
    { cbn [NPost c_anchor c_seqs c_tab]. split; [exact HS|].
      split; [unfold mfl, mflimitPlusOne, iend_, iend, MFLIMIT in *; lia|].
      eapply tab_ok_mono; [exact Ht|]. unfold endB, mfl, mflimitPlusOne, iend, MFLIMIT in *. lia. }
    assert (Ht' : tab_ok (forwardIp + 1) (set tab fh (idx tt forwardIp))) by (apply (tab_ok_put forwardIp); [assumption | lia | lia | lia]).
    assert (Hrec : NPost (search vrd tt od dd dictSmall startIndex dictSize dtable dictDelta inputSize maxOutputSize
                            f s (forwardIp + step) (smn / 2 ^ LZ4_skipTrigger) (smn + 1)
                            (hashPosition vrd tt (forwardIp + step)) (set tab fh (idx tt forwardIp)))).
    { apply IH; try assumption; try lia.
      - eapply tab_ok_mono; [exact Ht' | lia].
      - assert (0 < 2 ^ LZ4_skipTrigger) by (unfold LZ4_skipTrigger; lia).
        apply Z.div_le_lower_bound; lia. }
    destruct (dictSmall && (mi <? prefixIdxLimit startIndex dictSize)) eqn:E2; [exact Hrec|].
    destruct ((match tt with ByU16 => LZ4_DISTANCE_MAX <? LZ4_DISTANCE_ABSOLUTE_MAX | ByU32 => true end)
              && (mi + LZ4_DISTANCE_MAX <? forwardIp)) eqn:E3; [exact Hrec|].
    destruct (read32 vrd mi =? read32 vrd forwardIp) eqn:E4; [|exact Hrec].
    (* a match *)
    assert (N1 : ~ (dictSmall = true /\ mi < startIndex - dictSize)).
    { intros [A B]. unfold prefixIdxLimit in E2. rewrite A in E2. lia. }
    assert (N2 : ~ (dist_active = true /\ mi + LZ4_DISTANCE_MAX < forwardIp)).
    { intros [A B]. unfold dist_active in A. rewrite A in E3. lia. }
    specialize (Hlow N1 N2).
    pose proof (catchup_spec vrd (Z.to_nat (forwardIp - c_anchor s)) forwardIp mi (c_anchor s) low 0) as Hcu.
    cbv zeta in Hcu.
    set (back := catchup vrd (Z.to_nat (forwardIp - c_anchor s)) forwardIp mi (c_anchor s) low 0) in *.
    destruct Hcu as (Hb1 & Hb2 & Hb3 & Hb4).
    assert (Hfm : forwardIp < mfl) by lia.
    assert (Hpre : forall o hw, MPre (mkC (forwardIp - back) (c_anchor s) o (c_seqs s) (set tab fh (idx tt forwardIp)) hw)
                                     (forwardIp - back - c_anchor s) (mi - back) low forwardIp).
    { intros o hw. unfold MPre. cbn [c_ip c_anchor c_seqs c_tab].
      split; [exact HS|]. split; [lia|]. split; [reflexivity|]. split; [lia|]. split; [lia|].
      split; [pose proof (offset_bound mi forwardIp ltac:(lia) Hfm N2); lia|].
      split; [lia|]. split; [lia|]. split.
      - intros k Hk.
        assert (Hk' : 0 <= k < back + 4) by lia.
        destruct (Z_lt_le_dec k back) as [Hkb|Hkb].
        + replace (forwardIp - back + k) with (forwardIp - (back - k)) by lia.
          replace (mi - back + k) with (mi - (back - k)) by lia. apply Hb4. lia.
        + replace (forwardIp - back + k) with (forwardIp + (k - back)) by lia.
          replace (mi - back + k) with (mi + (k - back)) by lia.
          apply (read32_eq vrd Hb); [symmetry; apply Z.eqb_eq; exact E4 | lia].
      - replace (Z.max forwardIp (forwardIp - back) + 1) with (forwardIp + 1) by lia. exact Ht'. }
    destruct od; try (exfalso; apply Hod; reflexivity); cbn [andb].
    - apply Hpre.
    - match goal with |- NPost (if ?c then _ else _) => destruct c end; [|apply Hpre].
      cbn [NPost]. eapply tab_ok_mono; [exact Ht'|]. unfold endB, mfl, mflimitPlusOne, iend, MFLIMIT in *. lia.
  Qed.

  (* ---- _next_match ---- *)
  Lemma next_match_ok s t l mi low fi :
    MPre s l mi low fi ->
    NPost (next_match vrd tt od dd dictSmall startIndex dictSize dtable dictDelta inputSize maxOutputSize
                      s t l mi low fi).
  Proof.
    intros (HS & Hai & Hl & Hlow & Hmi & Hoff & Hip & Hfi & Heq & Ht).
    destruct HS as (HS1 & HS2 & HS3 & _).
    unfold next_match. cbv zeta.
    set (i := c_ip s) in *.
    assert (Hi4 : i + MINMATCH <= mlim) by (unfold mlim, matchlimit, mfl, mflimitPlusOne, iend, MFLIMIT, LASTLITERALS, MINMATCH in *; lia).
    pose proof (count_spec vrd (i + MINMATCH) (mi + MINMATCH) mlim Hi4) as Hc. cbv zeta in Hc.
    fold mlim.
    set (mc := count vrd (i + MINMATCH) (mi + MINMATCH) mlim) in *.
    destruct Hc as (Hc1 & Hc2 & _).
    (* the match extends beyond everything already inserted in the table *)
    assert (Hge : Z.max 0 (fi - i) <= mc).
    { apply (count_ge vrd (i + MINMATCH) (mi + MINMATCH) mlim (Z.max 0 (fi - i)) Hi4); [lia| |].
      - unfold mlim, matchlimit, mfl, mflimitPlusOne, iend, MFLIMIT, LASTLITERALS, MINMATCH in *. lia.
      - intros k Hk. unfold MINMATCH.
        replace (i + 4 + k) with (i + (k + 4)) by lia. replace (mi + 4 + k) with (mi + (k + 4)) by lia.
        apply Heq. lia. }
    set (i1 := i + mc + MINMATCH) in *.
    set (sq := mkSeq (lits vrd (Z.to_nat l) (c_anchor s)) (i - mi) (mc + MINMATCH)).
    assert (Hl0 : 0 <= l) by lia.
    assert (HSq : forall ip o tab hw,
               SInv (mkC ip i1 o (sq :: c_seqs s) tab hw)).
    { intros ip o tab hw. unfold SInv. cbn [c_anchor c_seqs rev].
      assert (Hll : Z.of_nat (length (s_lits sq)) = l).
      { unfold sq. cbn [s_lits]. rewrite lits_length. lia. }
      split; [unfold i1, MINMATCH; lia|]. split; [|split].
      - apply seqs_valid_app; [exact HS2|]. cbv zeta. rewrite HS3, Hll. split.
        + unfold sq. cbn [s_lits]. apply lits_seg. exact Hl0.
        + unfold sq. cbn [s_off s_mlen]. unfold match_ok.
          replace (c_anchor s + l) with i by lia.
          split; [lia|]. split; [unfold MINMATCH; lia|]. split; [lia|].
          intros k Hk. replace (i + k - (i - mi)) with (mi + k) by lia.
          destruct (Z_lt_le_dec k 4) as [Hk4|Hk4]; [apply Heq; lia|].
          unfold MINMATCH in *.
          replace (i + k) with (i + 4 + (k - 4)) by lia. replace (mi + k) with (mi + 4 + (k - 4)) by lia.
          apply Hc2. lia.
      - rewrite seqs_end_app, HS3, Hll. unfold sq. cbn [s_mlen]. unfold i1. lia.
      - unfold end_inv. cbn [c_seqs c_anchor]. unfold sq. cbn [s_mlen].
        unfold i1, mfl, mflimitPlusOne, iend_ in *. lia. }
    assert (Hi1 : Z.max fi i < i1) by (unfold i1, MINMATCH; lia).
    assert (Hi1m : i1 <= mlim) by (unfold i1; lia).
    (* shape of the rest, independent of op / hw bookkeeping *)
    assert (Rest : forall o hw,
      NPost (if i1 >=? mfl then NLast (mkC i1 i1 o (sq :: c_seqs s) (c_tab s) (Z.max hw o))
             else
               let tab := set (c_tab s) (hashPosition vrd tt (i1 - 2)) (idx tt (i1 - 2)) in
               let h := hashPosition vrd tt i1 in
               let '(mi2, low2) := candidate dd startIndex dictSize dtable dictDelta tab h in
               let tab0 := set tab h (idx tt i1) in
               if (if dictSmall then mi2 >=? prefixIdxLimit startIndex dictSize else true)
                  && match tt with
                     | ByU16 => if LZ4_DISTANCE_MAX =? LZ4_DISTANCE_ABSOLUTE_MAX then true else mi2 + LZ4_DISTANCE_MAX >=? i1
                     | ByU32 => mi2 + LZ4_DISTANCE_MAX >=? i1
                     end
                  && (read32 vrd mi2 =? read32 vrd i1)
               then NMatch (mkC i1 i1 (o + 1) (sq :: c_seqs s) tab0 (Z.max hw (o + 1))) o 0 mi2 low2 fi
               else NLoop (mkC (i1 + 1) i1 o (sq :: c_seqs s) tab0 (Z.max hw o)) (hashPosition vrd tt (i1 + 1)))).
    { intros o hw.
      destruct (i1 >=? mfl) eqn:E1.
      { cbn [NPost c_anchor c_tab]. split; [apply HSq|].
        split; [unfold mlim, matchlimit, iend_, LASTLITERALS in *; lia|].
        eapply tab_ok_mono; [exact Ht|]. unfold endB, mfl, mflimitPlusOne, iend, MFLIMIT in *. lia. }
      cbv zeta.
      assert (Ht1 : tab_ok i1 (set (c_tab s) (hashPosition vrd tt (i1 - 2)) (idx tt (i1 - 2)))).
      { apply (tab_ok_put (Z.max fi i + 1)); [exact Ht | lia | unfold i1, MINMATCH in *; lia | lia]. }
      pose proof (candidate_spec i1 _ (hashPosition vrd tt i1) Ht1 ltac:(unfold i1, MINMATCH; lia)) as Hc.
      destruct (candidate dd startIndex dictSize dtable dictDelta
                  (set (c_tab s) (hashPosition vrd tt (i1 - 2)) (idx tt (i1 - 2))) (hashPosition vrd tt i1)) as [mi2 low2].
      destruct Hc as [Hm2 Hlow2].
      assert (Ht2 : tab_ok (i1 + 1) (set (set (c_tab s) (hashPosition vrd tt (i1 - 2)) (idx tt (i1 - 2))) (hashPosition vrd tt i1) (idx tt i1))).
      { apply (tab_ok_put i1); [exact Ht1 | lia | unfold i1, MINMATCH in *; lia | lia]. }
      match goal with |- NPost (if ?c then _ else _) => destruct c eqn:E2 end.
      - (* immediate re-match *)
        apply andb_prop in E2. destruct E2 as [E2 E4]. apply andb_prop in E2. destruct E2 as [E2 E3].
        assert (N1 : ~ (dictSmall = true /\ mi2 < startIndex - dictSize)).
        { intros [A B]. rewrite A in E2. unfold prefixIdxLimit in E2. lia. }
        assert (N2 : ~ (dist_active = true /\ mi2 + LZ4_DISTANCE_MAX < i1)).
        { intros [A B]. unfold dist_active in A. destruct tt.
          - lia.
          - destruct (LZ4_DISTANCE_MAX =? LZ4_DISTANCE_ABSOLUTE_MAX) eqn:E5; lia. }
        specialize (Hlow2 N1 N2).
        cbn [NPost]. unfold MPre. cbn [c_ip c_anchor c_tab].
        split; [apply HSq|]. split; [lia|]. split; [lia|]. split; [lia|]. split; [lia|].
        split; [apply offset_bound; [lia | lia | exact N2]|].
        split; [lia|]. split; [lia|]. split.
        + intros k Hk. apply (read32_eq vrd Hb); [symmetry; apply Z.eqb_eq; exact E4 | lia].
        + replace (Z.max fi i1 + 1) with (i1 + 1) by lia. exact Ht2.
      - cbn [NPost c_ip c_anchor c_tab]. split; [apply HSq|]. split; [lia|]. split; [|exact Ht2].
        unfold i1, MINMATCH in *. lia. }
    fold mfl.
    destruct od; try (exfalso; apply Hod; reflexivity); cbn [andb].
    - (* notLimited *) apply Rest.
    - (* limitedOutput *)
      match goal with |- context [?a >? olimit maxOutputSize] => destruct (a >? olimit maxOutputSize) eqn:Eover end;
        cbn [andb]; [|apply Rest].
      cbn [NPost]. eapply tab_ok_mono; [exact Ht|]. unfold endB, mfl, mflimitPlusOne, iend, MFLIMIT in *. lia.
  Qed.

  Lemma chain_ok : forall fuel n, NPost n ->
    NPost (chain vrd tt od dd dictSmall startIndex dictSize dtable dictDelta inputSize maxOutputSize fuel n).
  Proof.
    induction fuel as [|f IH]; intros n Hn; cbn [chain]; [exact Hn|].
    destruct n as [s|tab|s fh|s t l mi low fi]; try exact Hn.
    apply IH. apply next_match_ok. exact Hn.
  Qed.

  Lemma last_literals_ok s :
    SInv s -> c_anchor s <= iend_ -> tab_ok endB (c_tab s) ->
    RPost (last_literals vrd od startIndex inputSize maxOutputSize s).
  Proof.
    intros (H1 & H2 & H3 & H5) Ha Htb. unfold last_literals. cbv zeta. fold iend_.
    assert (G : forall hw, RPost (ROk (rev (c_seqs s)) (lits vrd (Z.to_nat (iend_ - c_anchor s)) (c_anchor s))
                                       (c_anchor s + (iend_ - c_anchor s) - startIndex) (c_tab s) hw)).
    { intros hw. cbn [RPost]. rewrite H3. split; [exact Htb|].
      split.
      { unfold end_ok. rewrite rev_involutive. unfold end_inv in H5.
        destruct (c_seqs s) as [|q r]; [reflexivity|]. destruct H5 as [H5a H5b].
        rewrite lits_length.
        unfold mlim, matchlimit, iend_, iend, LASTLITERALS, MFLIMIT in *. lia. }
      split; [unfold iend_, iend; lia|]. split; [exact H2|]. split; [unfold iend_, iend in *; lia|].
      rewrite lits_seg by lia. f_equal. unfold iend_, iend. lia. }
    destruct od; try (exfalso; apply Hod; reflexivity).
    - apply G.
    - match goal with |- RPost (if ?c then _ else _) => destruct c end; [exact Htb | apply G].
  Qed.

  Hypothesis Hacc : 1 <= acceleration.

  Lemma main_loop_ok : forall fuel s fh,
    SInv s -> c_anchor s <= c_ip s -> startIndex + 1 <= c_ip s <= mfl -> tab_ok (c_ip s) (c_tab s) ->
    RPost (main_loop vrd tt od dd dictSmall startIndex dictSize dtable dictDelta inputSize maxOutputSize acceleration
                     fuel s fh).
  Proof.
    assert (Hmfl : mfl <= endB) by (unfold endB, mfl, mflimitPlusOne, iend, MFLIMIT; lia).
    induction fuel as [|f IH]; intros s fh HS Ha Hip Ht; cbn [main_loop].
    { cbn [RPost]. eapply tab_ok_mono; [exact Ht | lia]. }
    cbv zeta.
    assert (Hn : NPost (chain vrd tt od dd dictSmall startIndex dictSize dtable dictDelta inputSize maxOutputSize
                          (Z.to_nat inputSize + 1)
                          (search vrd tt od dd dictSmall startIndex dictSize dtable dictDelta inputSize maxOutputSize
                                  (Z.to_nat inputSize + 1) s (c_ip s) 1 (acceleration * 2 ^ LZ4_skipTrigger) fh (c_tab s)))).
    { apply chain_ok. apply search_ok; try assumption; try lia.
      assert (0 < 2 ^ LZ4_skipTrigger) by (unfold LZ4_skipTrigger; lia). nia. }
    destruct (chain vrd tt od dd dictSmall startIndex dictSize dtable dictDelta inputSize maxOutputSize
                (Z.to_nat inputSize + 1)
                (search vrd tt od dd dictSmall startIndex dictSize dtable dictDelta inputSize maxOutputSize
                        (Z.to_nat inputSize + 1) s (c_ip s) 1 (acceleration * 2 ^ LZ4_skipTrigger) fh (c_tab s)))
      as [s'|tab|s' fh'|s' t l mi low fi]; cbn [NPost] in Hn.
    - destruct Hn as (A & B & C). apply last_literals_ok; assumption.
    - exact Hn.
    - destruct Hn as (A & B & C & D). apply IH; assumption.
    - destruct Hn as (_ & _ & _ & _ & _ & _ & A & B & _ & C). cbn [RPost]. eapply tab_ok_mono; [exact C | lia].
  Qed.

  (* LZ4_compress_generic_validated *)
  Theorem compress_validated_factor tab :
    0 <= inputSize -> tab_ok (startIndex + 1) tab ->
    RPost (compress_validated vrd tt od dd dictSmall startIndex dictSize dtable dictDelta inputSize maxOutputSize
                              acceleration tab).
  Proof.
    intros Hn Ht. unfold compress_validated.
    assert (HS0 : forall ip o t hw, SInv (mkC ip startIndex o [] t hw)).
    { intros. unfold SInv, end_inv. cbn [c_anchor c_seqs rev seqs_valid seqs_end]. repeat split; lia. }
    assert (Ef : (match od with FillOutput => true | _ => false end) = false).
    { destruct od; try reflexivity. exfalso; apply Hod; reflexivity. }
    rewrite Ef. cbn [andb]. cbv zeta.
    destruct (inputSize <? LZ4_minLength) eqn:E.
    + apply last_literals_ok; [apply HS0 | cbn [c_anchor]; unfold iend_, iend; lia |].
      cbn [c_tab]. eapply tab_ok_mono; [exact Ht | unfold endB; lia].
    + apply main_loop_ok; cbn [c_anchor c_ip c_tab]; [apply HS0 | lia | | ].
      * unfold mfl, mflimitPlusOne, iend, MFLIMIT, LZ4_minLength in *. lia.
      * apply (tab_ok_put (startIndex + 1)); [exact Ht | lia | lia|].
        unfold mfl, mflimitPlusOne, iend, MFLIMIT, LZ4_minLength in *. lia.
  Qed.

  (* ... hence the specification's decoder, given the visible history, decodes the emitted block
     to exactly the input. *)
  Theorem compress_validated_roundtrip tab ss last consumed tab' hw :
    0 <= inputSize -> tab_ok (startIndex + 1) tab ->
    compress_validated vrd tt od dd dictSmall startIndex dictSize dtable dictDelta inputSize maxOutputSize
                       acceleration tab = ROk ss last consumed tab' hw ->
    consumed = inputSize /\
    spec_decode (seg vrd hist_lo startIndex) (encode_block ss last)
      = Some (seg vrd startIndex (startIndex + inputSize)).
  Proof.
    intros Hn Ht E. pose proof (compress_validated_factor tab Hn Ht) as H. rewrite E in H.
    cbn [RPost] in H. destruct H as (_ & _ & H1 & H2 & H3 & H4).
    split; [exact H1|].
    apply (factor_block_decodes vrd hist_lo startIndex (startIndex + inputSize) ss last Hb hist_lo_le H2 H3 H4).
  Qed.

  (* ... and the block also satisfies the end-of-block restrictions of the format *)
  Theorem compress_validated_strict tab ss last consumed tab' hw :
    0 <= inputSize -> tab_ok (startIndex + 1) tab ->
    compress_validated vrd tt od dd dictSmall startIndex dictSize dtable dictDelta inputSize maxOutputSize
                       acceleration tab = ROk ss last consumed tab' hw ->
    strict_valid (seg vrd hist_lo startIndex) (encode_block ss last)
      = Some (seg vrd startIndex (startIndex + inputSize)).
  Proof.
    intros Hn Ht E. pose proof (compress_validated_factor tab Hn Ht) as H. rewrite E in H.
    cbn [RPost] in H. destruct H as (_ & He & H1 & H2 & H3 & H4).
    rewrite strict_valid_encode.
    - rewrite He. apply (factor_decodes vrd hist_lo startIndex (startIndex + inputSize) ss last hist_lo_le H2 H3 H4).
    - eapply seqs_valid_wf; eauto.
    - subst last. apply seg_bytes_ok. exact Hb.
  Qed.
End Sound.

Print Assumptions compress_validated_roundtrip.
Print Assumptions compress_validated_strict.
