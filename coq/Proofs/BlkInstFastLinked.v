(* FrameC's block compressor instantiated with the model of LZ4_compress_fast_continue (Model.FastStream), i.e. what
   lz4frame.c calls below level 2 for LINKED blocks (LZ4F_compressBlock_continue) and for independent blocks with a CDict
   (LZ4F_compressBlock: LZ4_resetStream_fast + LZ4_attach_dictionary + LZ4_compress_fast_continue), with the capacity
   srcSize-1.

   Memory-model glue, explicit: FrameC keeps the BYTES of the history it offers ([history c f]: the last 64 KB of
   dictionary ++ blocks so far, or the CDict content), the stream model keeps ADDRESSES in a flat memory.  The oracle
   gives, for the n-th call, the memory, the stream context, the address of the block and the byte history H designated by
   the context (Proofs.FastStreamHist.hist_inv).  The instance compresses only if the oracle is CONSISTENT with what FrameC
   passes: the block at that address is x, and the last 64 KB of H are exactly the history h offered; otherwise it returns
   None (block stored raw).  For the real code the two views agree by construction (tmpBuff / LZ4F_localSaveDict keep
   exactly those bytes addressable); that agreement is not derived here - FrameC does not model where the bytes live.
   The invariants asked of the oracle states are those that every legal stream session maintains (C11_fast_stream). *)
From Coq Require Import ZArith List Lia Bool.
From LZ4V Require Import Gen.Consts Spec.BlockSpec Model.Mem Model.Fast Model.FastApi Model.FastStream Model.FrameC.
From LZ4V Require Import Proofs.FastStreamMem Proofs.FastStreamProofs Proofs.FastStreamHist Proofs.FrameCExamples
     Proofs.FrameCTheorems Proofs.FrameRoundTrip Proofs.BlkInst Proofs.ParserBytesStream.
Import ListNotations.
Local Open Scope Z_scope.

Record lorc := mkLO { lo_m : mem; lo_c : sctx; lo_src : Z; lo_H : list Z }.

Definition lorc_ok (o : lorc) : Prop :=
  mem_ok (lo_m o) /\ table_inv (lo_c o) /\ tt_inv (lo_c o) /\ stream_ready (lo_c o) /\ 0 < lo_src o /\
  list_ok (lo_H o) /\ hist_inv (lo_m o) (lo_c o) (lo_H o).

Definition lorc_consistent (o : lorc) (h x : list byte) : bool :=
  list_eqb x (load_list (lo_m o) (lo_src o) (length x)) && list_eqb h (lastZ FC_64KB (lo_H o)).

Definition blk_fast_linked (st : nat -> lorc) (level : Z) (n : nat) (h x : list byte) : option (list byte) :=
  let o := st n in
  if blk_guard x && (len x <=? LZ4_MAX_INPUT_SIZE) && lorc_consistent o h x then
    let r := fast_continue (lo_m o) (lo_c o) (lo_src o) (len x) (len x - 1) (fast_accel level) in
    blk_out (r_ret r) (r_out r)
  else None.

Theorem blk_fast_linked_contract st level : (forall n, lorc_ok (st n)) -> blk_contract strict_valid (blk_fast_linked st level).
Proof.
  intros Hst n h x c. unfold blk_fast_linked. cbv zeta.
  destruct (blk_guard x && (len x <=? LZ4_MAX_INPUT_SIZE) && lorc_consistent (st n) h x) eqn:G; [|discriminate].
  apply andb_true_iff in G. destruct G as [G Gc]. apply andb_true_iff in G. destruct G as [G Gm].
  destruct (guard_facts x G) as (Gb & Gn). apply Z.leb_le in Gm.
  unfold lorc_consistent in Gc. apply andb_true_iff in Gc. destruct Gc as [Gx Gh].
  apply list_eqb_eq in Gx. apply list_eqb_eq in Gh.
  destruct (Hst n) as (O1 & O2 & O3 & O4 & O5 & O6 & O7).
  intros H. destruct (blk_out_some _ _ _ H) as (Hp & ->).
  pose proof (continue_decodes (lo_m (st n)) (lo_c (st n)) (lo_src (st n)) (len x) (len x - 1) (fast_accel level) (lo_H (st n))
                O1 O2 O3 O4 ltac:(lia) O5 O6
                (prelude_hist (lo_m (st n)) (lo_c (st n)) (lo_src (st n)) (len x) (lo_H (st n)) O2 O4 ltac:(lia) ltac:(lia) O7)) as HD.
  cbv zeta in HD. destruct (HD Hp) as (_ & HV & _).
  specialize (HV 65536 ltac:(lia)).
  unfold len in HV. rewrite Nat2Z.id in HV. rewrite <- Gx in HV.
  rewrite Gh. unfold lastZ, FC_64KB. exact HV.
Qed.

Theorem blk_fast_linked_bytes st level : (forall n, lorc_ok (st n)) -> blk_bytes (blk_fast_linked st level).
Proof.
  intros Hst n h x c. unfold blk_fast_linked. cbv zeta.
  destruct (blk_guard x && (len x <=? LZ4_MAX_INPUT_SIZE) && lorc_consistent (st n) h x) eqn:G; [|discriminate].
  apply andb_true_iff in G. destruct G as [G Gc]. apply andb_true_iff in G. destruct G as [G Gm].
  destruct (guard_facts x G) as (Gb & Gn). apply Z.leb_le in Gm.
  destruct (Hst n) as (O1 & O2 & O3 & O4 & O5 & O6 & O7).
  intros H. destruct (blk_out_some _ _ _ H) as (Hp & ->).
  apply fast_continue_bytes; try assumption. lia.
Qed.

Print Assumptions blk_fast_linked_contract.
