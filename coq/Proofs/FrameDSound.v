(* C08, "never falsely succeeds" at model level: when ONE call of LZ4F_decompress(_usingDict)
   on a context at the start of a frame returns 0 (frame complete), the bytes it consumed are
   a frame that Spec.FrameSpec.frame_decode accepts, the bytes it produced are that frame's
   specified content, and it consumed exactly that frame. *)
From Coq Require Import ZArith List Lia Bool.
From LZ4V Require Import Spec.BlockSpec Spec.XXH32 Spec.FrameSpec Gen.Consts Model.FrameD.
From LZ4V Require Import Proofs.FrameDHeader Proofs.FrameDProofs Proofs.FrameDReuse.
Import ListNotations.
Local Open Scope Z_scope.
Local Opaque xxh32.

(* ---- bits of the block header word ---- *)
Lemma land_pow2 a n : 0 <= n -> Z.land a (2 ^ n) = if Z.testbit a n then 2 ^ n else 0.
Proof.
  intro Hn. apply Z.bits_inj'. intros m Hm. rewrite Z.land_spec, Z.pow2_bits_eqb by lia.
  destruct (Z.testbit a n) eqn:E.
  - rewrite Z.pow2_bits_eqb by lia. destruct (Z.eqb_spec n m); [subst; rewrite E; reflexivity|apply andb_false_r].
  - rewrite Z.bits_0. destruct (Z.eqb_spec n m); [subst; rewrite E; reflexivity|apply andb_false_r].
Qed.
Lemma top_bit bh : 0 <= bh < 4294967296 ->
  (Z.land bh 2147483648 =? 0) = negb (2147483648 <=? bh) /\ Z.land bh 2147483647 = bh mod 2147483648.
Proof.
  intro H. split.
  - change 2147483648 with (2 ^ 31). rewrite land_pow2 by lia.
    destruct (Z.testbit bh 31) eqn:E.
    + apply Z.testbit_true in E; [|lia]. change (2 ^ 31) with 2147483648 in *.
      assert (bh / 2147483648 <> 0) by (intro X; rewrite X in E; discriminate E).
      assert (2147483648 <= bh). { destruct (Z_lt_ge_dec bh 2147483648) as [L|L]; [|lia]. rewrite Z.div_small in H0 by lia. lia. }
      replace (2147483648 <=? bh) with true by (symmetry; apply Z.leb_le; lia). reflexivity.
    + assert (N : Z.testbit bh 31 <> true) by congruence. rewrite Z.testbit_true in N by lia. change (2 ^ 31) with 2147483648 in *.
      assert (bh < 2147483648).
      { destruct (Z_lt_ge_dec bh 2147483648) as [L|L]; [lia|]. exfalso. apply N.
        assert (bh / 2147483648 = 1) by (symmetry; apply Z.div_unique with (r := bh - 2147483648); lia). rewrite H0. reflexivity. }
      replace (2147483648 <=? bh) with false by (symmetry; apply Z.leb_gt; lia). reflexivity.
  - change 2147483647 with (Z.ones 31). rewrite Z.land_ones by lia. reflexivity.
Qed.

(* ---- lists ---- *)
Lemma take_app (l r : list byte) : take (length l) (l ++ r) = Some (l, r).
Proof. induction l as [|x l IH]; [reflexivity|]. simpl. rewrite IH. reflexivity. Qed.
Lemma take_ztake n (l : list byte) : 0 <= n <= zlen l -> take (Z.to_nat n) l = Some (ztake n l, zdrop n l).
Proof.
  intro H. unfold ztake, zdrop, zlen in *. assert (Hn : (Z.to_nat n <= length l)%nat) by lia. clear H.
  revert l Hn. generalize (Z.to_nat n) as k. induction k as [|k IH]; intros l Hn; [reflexivity|].
  destruct l as [|x l]; [simpl in Hn; lia|]. simpl. rewrite IH by (simpl in Hn; lia). reflexivity.
Qed.
Lemma bytes_ok_app a b : bytes_ok (a ++ b) = bytes_ok a && bytes_ok b.
Proof. unfold bytes_ok. apply forallb_app. Qed.
Lemma bytes_ok_split n (l : list byte) : bytes_ok l = true -> bytes_ok (ztake n l) = true /\ bytes_ok (zdrop n l) = true.
Proof.
  intro H. unfold ztake, zdrop. rewrite <- (firstn_skipn (Z.to_nat n) l) in H. rewrite bytes_ok_app in H.
  apply andb_prop in H. exact H.
Qed.
Lemma le_val_bound (l : list byte) : bytes_ok l = true -> 0 <= le_val l < 256 ^ zlen l.
Proof.
  unfold zlen. induction l as [|x l IH]; intro H; [simpl; lia|].
  simpl in H. apply andb_prop in H. destruct H as [Hx Hl]. apply byte_range in Hx. specialize (IH Hl).
  cbn [le_val]. replace (Z.of_nat (length (x :: l))) with (Z.of_nat (length l) + 1) by (simpl length; lia).
  rewrite Z.pow_add_r by lia. change (256 ^ 1) with 256. nia.
Qed.
Lemma rd32_le_val (l : list byte) : bytes_ok l = true -> rd32 l = le_val (ztake 4 l).
Proof.
  intro H. unfold rd32, u32, M32. apply Z.mod_small.
  destruct (bytes_ok_split 4 l H) as [H4 _]. pose proof (le_val_bound _ H4) as B.
  pose proof (zlen_ztake_le 4 l) as L1. pose proof (zlen_nonneg (ztake 4 l)) as L0.
  assert (L4 : zlen (ztake 4 l) <= 4).
  { unfold zlen, ztake. rewrite firstn_length. lia. }
  assert (256 ^ zlen (ztake 4 l) <= 256 ^ 4) by (apply Z.pow_le_mono_r; lia).
  change (256 ^ 4) with 4294967296 in *. lia.
Qed.

Definition N64 : nat := Z.to_nat FD_64KB.
Lemma lastn_all n (l : list byte) : (length l <= n)%nat -> lastn n l = l.
Proof. intro H. unfold lastn. replace (length l - n)%nat with 0%nat by lia. reflexivity. Qed.
Lemma skipn_app_exact (b x : list byte) m : skipn (length b + m) (b ++ x) = skipn m x.
Proof. induction b as [|y b IH]; [reflexivity|]. simpl. exact IH. Qed.
Lemma lastn_app_lastn n (a p : list byte) : lastn n (lastn n a ++ p) = lastn n (a ++ p).
Proof.
  unfold lastn. rewrite !app_length, skipn_length.
  destruct (Nat.le_gt_cases (length a) n) as [H|H].
  - replace (length a - n)%nat with 0%nat by lia. simpl. rewrite Nat.sub_0_r. reflexivity.
  - set (k := (length a - n)%nat).
    replace (length a - k + length p - n)%nat with (length p) by lia.
    rewrite <- (firstn_skipn k a) at 3. rewrite <- app_assoc.
    replace (length a + length p - n)%nat with (length (firstn k a) + length p)%nat
      by (rewrite firstn_length; lia).
    rewrite skipn_app_exact. reflexivity.
Qed.

Lemma N64_eq : N64 = 65536%nat.
Proof. unfold N64. apply Nat2Z.inj. rewrite Z2Nat.id by (unfold FD_64KB; lia). lazy. reflexivity. Qed.
Lemma lastn_length_le n (l : list byte) : (length (lastn n l) <= n)%nat.
Proof. unfold lastn. rewrite skipn_length. lia. Qed.
Lemma lastn_idem n (l : list byte) : lastn n (lastn n l) = lastn n l.
Proof. apply lastn_all. apply lastn_length_le. Qed.

(* ---- what the bookkeeping updates do to the fields the refinement looks at ---- *)
Lemma upd_link_fields s p :
  d_hist (upd_link s p) = (if linked s then upd_hist (d_hist s) p else d_hist s) /\
  d_xxh (upd_link s p) = d_xxh s /\ d_remaining (upd_link s p) = d_remaining s /\ d_bxxh (upd_link s p) = d_bxxh s.
Proof. unfold upd_link. destruct (linked s); ss; auto. Qed.
Lemma upd_decoded_fields s c :
  d_hist (upd_decoded s c) = d_hist s /\
  d_xxh (upd_decoded s c) = (if negb (fi_ccFlag (d_fi s) =? 0) && negb (d_skip s) then d_xxh s ++ c else d_xxh s) /\
  d_remaining (upd_decoded s c) = (if fi_contentSize (d_fi s) =? 0 then d_remaining s else u64 (d_remaining s - zlen c)).
Proof. unfold upd_decoded. destruct (negb _ && negb _); destruct (fi_contentSize (d_fi s) =? 0) eqn:E; ss; rewrite ?E; auto. Qed.
Lemma upd_copy_fields s p n :
  d_hist (upd_copy s p n) = (if linked s then upd_hist (d_hist s) p else d_hist s) /\
  d_xxh (upd_copy s p n) = (if d_skip s then d_xxh s else if fi_ccFlag (d_fi s) =? 0 then d_xxh s else d_xxh s ++ p) /\
  d_remaining (upd_copy s p n) = (if fi_contentSize (d_fi s) =? 0 then d_remaining s else u64 (d_remaining s - n)) /\
  d_bxxh (upd_copy s p n) = (if d_skip s then d_bxxh s else if fi_bcFlag (d_fi s) =? 0 then d_bxxh s else d_bxxh s ++ p).
Proof.
  unfold upd_copy, upd_link, linked.
  destruct (d_skip s); [|destruct (fi_bcFlag (d_fi s) =? 0); destruct (fi_ccFlag (d_fi s) =? 0)];
    destruct (fi_contentSize (d_fi s) =? 0); ss; destruct (fi_blockMode (d_fi s) =? FD_blockLinked); ss; auto.
Qed.

Section Blocks.
Variable bdec : list byte -> list byte -> option (list byte).
Variable skip : bool.
Variable d : fdesc.
Variable maxb : Z.
Variable dict : list byte.
Variable o : dopts.

(* the context agrees with the descriptor and with the content [acc] decoded so far *)
Definition binv (acc : list byte) (s : dstate) : Prop :=
  d_fi s = fi_of_desc d /\ d_maxBlock s = maxb /\ d_skip s = skip /\
  (if f_indep d then d_hist s = dict else lastn N64 (d_hist s) = lastn N64 (dict ++ acc)) /\
  (f_ccrc d = true -> skip = false -> d_xxh s = acc) /\
  d_remaining s = match f_csize d with Some n => if n =? 0 then 0 else u64 (n - zlen acc) | None => 0 end /\
  match f_csize d with Some n => 0 <= n < 18446744073709551616 | None => True end.

Lemma binv_eq acc s s' :
  d_fi s' = d_fi s -> d_maxBlock s' = d_maxBlock s -> d_skip s' = d_skip s -> d_hist s' = d_hist s ->
  d_xxh s' = d_xxh s -> d_remaining s' = d_remaining s -> binv acc s -> binv acc s'.
Proof. unfold binv. intros -> -> -> -> -> ->. auto. Qed.

Lemma binv_linked acc s : binv acc s -> linked s = negb (f_indep d).
Proof. intros (H & _). unfold linked. rewrite H. unfold fi_of_desc; ss. destruct (f_indep d); reflexivity. Qed.
Lemma binv_flags acc s : binv acc s ->
  (fi_bcFlag (d_fi s) =? 0) = negb (f_bcrc d) /\ (fi_ccFlag (d_fi s) =? 0) = negb (f_ccrc d) /\
  fi_contentSize (d_fi s) = match f_csize d with Some n => n | None => 0 end.
Proof. intros (H & _). rewrite H. unfold fi_of_desc; ss. destruct (f_bcrc d), (f_ccrc d); auto. Qed.

Lemma u64_sub a b c : u64 (u64 (a - b) - c) = u64 (a - (b + c)).
Proof. unfold u64. rewrite Zminus_mod_idemp_l. f_equal. lia. Qed.

(* appending [p] to the content through the three bookkeeping paths *)
Lemma binv_append acc s s' p :
  binv acc s ->
  d_fi s' = d_fi s -> d_maxBlock s' = d_maxBlock s -> d_skip s' = d_skip s ->
  (if linked s then lastn N64 (d_hist s') = lastn N64 (upd_hist (d_hist s) p) else d_hist s' = d_hist s) ->
  d_xxh s' = (if negb (fi_ccFlag (d_fi s) =? 0) && negb (d_skip s) then d_xxh s ++ p else d_xxh s) ->
  d_remaining s' = (if fi_contentSize (d_fi s) =? 0 then d_remaining s else u64 (d_remaining s - zlen p)) ->
  binv (acc ++ p) s'.
Proof.
  intros B E1 E2 E3 E4 E5 E6.
  pose proof (binv_linked _ _ B) as HL. pose proof (binv_flags _ _ B) as (F1 & F2 & F3).
  destruct B as (B1 & B2 & B3 & B4 & B5 & B6 & B7).
  unfold binv. rewrite E1, E2, E3, E5, E6, F2, F3, B3. rewrite HL in E4.
  split; [exact B1|]. split; [exact B2|]. split; [reflexivity|]. split; [|split; [|split; [|exact B7]]].
  - destruct (f_indep d); cbn [negb] in *; [rewrite E4; exact B4|].
    rewrite E4. unfold upd_hist. fold N64. rewrite lastn_idem. rewrite <- lastn_app_lastn. rewrite B4.
    rewrite lastn_app_lastn. rewrite app_assoc. reflexivity.
  - intros C K. rewrite C, K. cbn [negb andb]. rewrite (B5 C K). reflexivity.
  - rewrite B6. destruct (f_csize d) as [n|]; [|reflexivity].
    destruct (n =? 0) eqn:E0; [reflexivity|]. rewrite u64_sub, zlen_app. reflexivity.
Qed.
Lemma hist_eq_case (lk : bool) (h' h : list byte) p :
  h' = (if lk then upd_hist h p else h) -> if lk then lastn N64 h' = lastn N64 (upd_hist h p) else h' = h.
Proof. intros ->. destruct lk; reflexivity. Qed.

(* ---- the specification, unfolded at the points where the decoder can be ---- *)
Definition fin_ok (acc rest : list byte) (res : list byte * list byte) : Prop :=
  match f_csize d with
  | Some n => (n =? 0) || (n =? Z.of_nat (length acc)) = true
  | None => True
  end /\ res = (acc, rest).
Definition E_suffix (acc bs : list byte) res : Prop :=
  if f_ccrc d
  then exists cb r1, take 4 bs = Some (cb, r1) /\ (skip || (le_val cb =? xxh32 0 acc)) = true /\ fin_ok acc r1 res
  else fin_ok acc bs res.
Definition E_header (acc bs : list byte) res : Prop :=
  exists F, blocks bdec skip F d maxb dict acc bs = Some res.
Definition E_after (acc c rest : list byte) res : Prop :=
  zlen c <= maxb /\ E_header (acc ++ c) rest res.
Definition E_bcrc (acc data c bs : list byte) res : Prop :=
  if f_bcrc d
  then exists cb r2, take 4 bs = Some (cb, r2) /\ (skip || (le_val cb =? xxh32 0 data)) = true /\ E_after acc c r2 res
  else E_after acc c bs res.
Definition spec_hist (acc : list byte) : list byte := if f_indep d then dict else lastn 65536 (dict ++ acc).
Definition X_raw (acc : list byte) (n : Z) (bs : list byte) res : Prop :=
  exists data r1, take (Z.to_nat n) bs = Some (data, r1) /\ E_bcrc acc data data r1 res.
Definition X_comp (acc : list byte) (n : Z) (bs : list byte) res : Prop :=
  exists data r1 c, take (Z.to_nat n) bs = Some (data, r1) /\ bdec (spec_hist acc) data = Some c /\ E_bcrc acc data c r1 res.

Lemma L_end acc bs szb r res :
  take 4 bs = Some (szb, r) -> le_val szb = 0 -> E_suffix acc r res -> E_header acc bs res.
Proof.
  intros T W E. exists 1%nat. cbn [blocks]. rewrite T, W. cbn [Z.eqb]. unfold E_suffix, fin_ok in E.
  destruct (f_ccrc d).
  - destruct E as (cb & r1 & T1 & C & F & ->). rewrite T1, C.
    destruct (f_csize d); [rewrite F|]; reflexivity.
  - destruct E as (F & ->). destruct (f_csize d); [rewrite F|]; reflexivity.
Qed.

Lemma L_block acc bs szb r res (raw : bool) data r1 c :
  take 4 bs = Some (szb, r) -> le_val szb <> 0 ->
  raw = (2147483648 <=? le_val szb) -> le_val szb mod 2147483648 <= maxb ->
  take (Z.to_nat (le_val szb mod 2147483648)) r = Some (data, r1) ->
  (if raw then Some data else bdec (spec_hist acc) data) = Some c ->
  E_bcrc acc data c r1 res -> E_header acc bs res.
Proof.
  intros T W R M T1 C E.
  assert (G : forall rest, E_after acc c rest res -> exists F,
             (let hist := if f_indep d then dict else lastn 65536 (dict ++ acc) in
              let content := if 2147483648 <=? le_val szb then Some data else bdec hist data in
              match content with
              | Some c0 => if maxb <? Z.of_nat (length c0) then None else blocks bdec skip F d maxb dict (acc ++ c0) rest
              | None => None
              end) = Some res).
  { intros rest (Hc & F & HF). exists F. cbv zeta. rewrite <- R. fold (spec_hist acc). rewrite C.
    replace (maxb <? Z.of_nat (length c)) with false by (symmetry; apply Z.ltb_ge; exact Hc). exact HF. }
  unfold E_bcrc in E.
  destruct (f_bcrc d) eqn:EB.
  - destruct E as (cb & r2 & T2 & K & A). destruct (G r2 A) as (F & HF).
    exists (S F). cbn [blocks]. rewrite T. apply Z.eqb_neq in W. rewrite W.
    replace (maxb <? le_val szb mod 2147483648) with false by (symmetry; apply Z.ltb_ge; exact M).
    rewrite T1, EB, T2, K. exact HF.
  - destruct (G r1 E) as (F & HF).
    exists (S F). cbn [blocks]. rewrite T. apply Z.eqb_neq in W. rewrite W.
    replace (maxb <? le_val szb mod 2147483648) with false by (symmetry; apply Z.ltb_ge; exact M).
    rewrite T1, EB. exact HF.
Qed.

(* ---- where the decoder is, and what the specification must still do from there ---- *)
Definition crc4 (b : bool) : Z := if b then 4 else 0.

Inductive Inv (K : list byte * list byte -> Prop) : lst -> Prop :=
  | I_header l acc :
      d_stage (l_s l) = GetBlockHeader -> binv acc (l_s l) -> bytes_ok (l_src l) = true -> l_out l = acc ->
      (forall res, E_header acc (l_src l) res -> K res) -> Inv K l
  | I_copy l acc n :
      d_stage (l_s l) = CopyDirect -> binv acc (l_s l) -> bytes_ok (l_src l) = true -> l_out l = acc ->
      d_tmpInTarget (l_s l) = n -> 0 <= n <= maxb ->
      (f_bcrc d = true -> skip = false -> d_bxxh (l_s l) = []) ->
      (forall res, X_raw acc n (l_src l) res -> K res) -> Inv K l
  | I_bcrc l acc data :
      d_stage (l_s l) = GetBlockChecksum -> binv (acc ++ data) (l_s l) -> bytes_ok (l_src l) = true ->
      l_out l = acc ++ data -> d_tmpInSize (l_s l) = 0 -> f_bcrc d = true ->
      (skip = false -> d_bxxh (l_s l) = data) -> zlen data <= maxb ->
      (forall res, (exists cb r2, take 4 (l_src l) = Some (cb, r2) /\ (skip || (le_val cb =? xxh32 0 data)) = true /\
                                  E_after acc data r2 res) -> K res) -> Inv K l
  | I_cblock l acc n :
      d_stage (l_s l) = GetCBlock -> binv acc (l_s l) -> bytes_ok (l_src l) = true -> l_out l = acc ->
      d_tmpInTarget (l_s l) = n + crc4 (f_bcrc d) -> 0 <= n <= maxb ->
      (forall res, X_comp acc n (l_src l) res -> K res) -> Inv K l
  | I_suffix l acc :
      d_stage (l_s l) = GetSuffix -> binv acc (l_s l) -> bytes_ok (l_src l) = true -> l_out l = acc ->
      (forall res, E_suffix acc (l_src l) res -> K res) -> Inv K l
  | I_dead l :
      d_stage (l_s l) = StoreCBlock -> d_tmpInSize (l_s l) = 0 -> zlen (l_src l) < d_tmpInTarget (l_s l) -> Inv K l
  | I_init l :
      d_stage (l_s l) = Init -> binv [] (do_init (l_s l)) -> bytes_ok (l_src l) = true -> l_out l = [] ->
      (forall res, E_header [] (l_src l) res -> K res) -> Inv K l.

Definition step_goal (K : list byte * list byte -> Prop) (r : lst * outcome) : Prop :=
  match snd r with
  | Continue => Inv K (fst r)
  | Stop h => h = 0 -> K (l_out (fst r), l_src (fst r))
  | Ret _ => True
  end.

Lemma ztake4_self (l : list byte) : zlen l = 4 -> ztake 4 l = l.
Proof. intro H. apply ztake_all. lia. Qed.

(* dstage_getBlockHeader *)
Lemma step_header (K : list byte * list byte -> Prop) l acc :
  d_stage (l_s l) = GetBlockHeader -> binv acc (l_s l) -> bytes_ok (l_src l) = true -> l_out l = acc ->
  (forall res, E_header acc (l_src l) res -> K res) ->
  step_goal K (do_getBlockHeader l).
Proof.
  intros Hst B Hb Ho HK. unfold do_getBlockHeader, step_goal.
  pose proof (zlen_nonneg (l_src l)) as Hl.
  destruct (FD_BHSize <=? zlen (l_src l)) eqn:E4.
  2:{ (* fewer than 4 bytes: the store path stops with a positive hint *)
    apply Z.leb_gt in E4. unfold FD_BHSize in E4. unfold do_storeBlockHeader. ss.
    unfold tmpin_write. ss.
    replace (0 + Z.min (FD_BHSize - 0) (zlen (l_src l)) <? FD_BHSize) with true
      by (symmetry; apply Z.ltb_lt; unfold FD_BHSize; lia).
    ss. unfold FD_BHSize. lia. }
  apply Z.leb_le in E4. unfold FD_BHSize in E4 |- *.
  set (sel := ztake 4 (l_src l)).
  assert (Hsel : zlen sel = 4) by (unfold sel; rewrite zlen_ztake; lia).
  destruct (bytes_ok_split 4 _ Hb) as [Hb1 Hb2]. fold sel in Hb1.
  assert (T : take 4 (l_src l) = Some (sel, zdrop 4 (l_src l))) by (apply (take_ztake 4); lia).
  assert (Hbh : rd32 sel = le_val sel) by (rewrite rd32_le_val by exact Hb1; rewrite ztake4_self by exact Hsel; reflexivity).
  assert (Hrange : 0 <= le_val sel < 4294967296).
  { pose proof (le_val_bound _ Hb1) as X. rewrite Hsel in X. change (256 ^ 4) with 4294967296 in X. exact X. }
  destruct (top_bit _ Hrange) as [TB1 TB2].
  pose proof (binv_flags _ _ B) as (F1 & F2 & F3).
  destruct B as (B1 & B2 & B3 & B4 & B5 & B6 & B7).
  unfold do_blockHeader. ss. rewrite Hbh.
  destruct (le_val sel =? 0) eqn:E0.
  { (* EndMark *)
    apply Z.eqb_eq in E0. ss. eapply I_suffix with (acc := acc); ss; auto.
    - unfold binv; ss. repeat split; auto.
    - intros res E. apply HK. eapply L_end; eauto. }
  apply Z.eqb_neq in E0. rewrite B2, TB2.
  destruct (maxb <? le_val sel mod 2147483648) eqn:EM; [ss; exact I|].
  apply Z.ltb_ge in EM.
  assert (Hn0 : 0 <= le_val sel mod 2147483648) by (apply Z.mod_pos_bound; lia).
  unfold FD_BLOCKUNCOMPRESSED_FLAG. rewrite TB1. rewrite negb_involutive.
  destruct (2147483648 <=? le_val sel) eqn:ER.
  - (* uncompressed block *)
    ss. rewrite F1.
    assert (G : forall s1, d_fi s1 = d_fi (l_s l) -> d_maxBlock s1 = d_maxBlock (l_s l) -> d_skip s1 = d_skip (l_s l) ->
                d_hist s1 = d_hist (l_s l) -> d_xxh s1 = d_xxh (l_s l) -> d_remaining s1 = d_remaining (l_s l) ->
                d_stage s1 = CopyDirect -> d_tmpInTarget s1 = le_val sel mod 2147483648 ->
                (f_bcrc d = true -> skip = false -> d_bxxh s1 = []) ->
                Inv K (mkL s1 (zdrop 4 (l_src l)) (l_used l + 4) (l_out l) (l_cap l))).
    { intros s1 G1 G2 G3 G4 G5 G6 G7 G8 G9.
      eapply I_copy with (acc := acc) (n := le_val sel mod 2147483648); ss; auto.
      - unfold binv. rewrite G1, G2, G3, G4, G5, G6. repeat split; auto.
      - intros res (data & r1 & T1 & E). apply HK.
        eapply (L_block acc (l_src l) sel _ res true data r1 data); eauto. }
    destruct (negb (f_bcrc d)) eqn:EB; ss; apply G; ss; auto.
    + intros C. rewrite C in EB. discriminate EB.
  - (* compressed block *)
    set (n := le_val sel mod 2147483648) in *.
    assert (Hcrc : fi_bcFlag (d_fi (l_s l)) * FD_BFSize = crc4 (f_bcrc d)).
    { rewrite B1. unfold fi_of_desc; ss. unfold crc4, FD_BFSize. destruct (f_bcrc d); reflexivity. }
    rewrite Hcrc.
    assert (G : Inv K (mkL (set_stage (set_tmpInTarget (l_s l) (n + crc4 (f_bcrc d))) GetCBlock)
                           (zdrop 4 (l_src l)) (l_used l + 4) (l_out l) (l_cap l))).
    { eapply I_cblock with (acc := acc) (n := n); ss; auto.
      - unfold binv; ss. repeat split; auto.
      - intros res (data & r1 & c & T1 & C & E). apply HK.
        eapply (L_block acc (l_src l) sel _ res false data r1 c); eauto. }
    destruct ((l_cap l =? 0) || (zlen (zdrop 4 (l_src l)) =? 0)); ss.
    + intro H. exfalso. unfold crc4, FD_BHSize in H. destruct (f_bcrc d); lia.
    + exact G.
Qed.

(* dstage_copyDirect *)
Lemma step_copy (K : list byte * list byte -> Prop) l acc n :
  d_stage (l_s l) = CopyDirect -> binv acc (l_s l) -> bytes_ok (l_src l) = true -> l_out l = acc ->
  d_tmpInTarget (l_s l) = n -> 0 <= n <= maxb -> 0 <= l_cap l ->
  (f_bcrc d = true -> skip = false -> d_bxxh (l_s l) = []) ->
  (forall res, X_raw acc n (l_src l) res -> K res) ->
  step_goal K (do_copyDirect o l).
Proof.
  intros Hst B Hb Ho Ht Hn Hc Hx HK. unfold do_copyDirect, step_goal.
  pose proof (zlen_nonneg (l_src l)) as Hl.
  pose proof (binv_flags _ _ B) as (F1 & F2 & F3).
  assert (Bk := B). destruct B as (B1 & B2 & B3 & B4 & B5 & B6 & B7).
  set (data := ztake n (l_src l)).
  assert (Main : forall l2,
      l_src l2 = zdrop n (l_src l) -> l_out l2 = acc ++ data -> binv (acc ++ data) (l_s l2) ->
      n <= zlen (l_src l) ->
      (f_bcrc d = true -> skip = false -> d_bxxh (l_s l2) = data) ->
      fi_bcFlag (d_fi (l_s l2)) = fi_bcFlag (d_fi (l_s l)) ->
      step_goal K (if fi_bcFlag (d_fi (l_s l2)) =? 0
                   then (with_s l2 (set_stage (l_s l2) GetBlockHeader), Continue)
                   else (with_s l2 (set_stage (set_tmpInSize (l_s l2) 0) GetBlockChecksum), Continue))).
  { intros l2 S2 O2 Bn Hlen X2 FB. unfold step_goal.
    assert (Hdl : zlen data = n) by (unfold data; rewrite zlen_ztake; lia).
    destruct (bytes_ok_split n _ Hb) as [Hbd Hbr].
    assert (T : take (Z.to_nat n) (l_src l) = Some (data, zdrop n (l_src l))) by (apply take_ztake; lia).
    rewrite FB, F1. destruct (f_bcrc d) eqn:EB; cbn [negb]; ss.
    - eapply I_bcrc with (acc := acc) (data := data); ss; auto; try lia;
        try (eapply binv_eq; [| | | | | |exact Bn]; reflexivity); try (rewrite S2; exact Hbr).
      intros res E. apply HK. exists data, (zdrop n (l_src l)). split; [exact T|].
      unfold E_bcrc. rewrite EB. rewrite S2 in E. exact E.
    - eapply I_header with (acc := acc ++ data); ss; auto; try lia;
        try (eapply binv_eq; [| | | | | |exact Bn]; reflexivity); try (rewrite S2; exact Hbr).
      intros res E. apply HK. exists data, (zdrop n (l_src l)). split; [exact T|].
      unfold E_bcrc. rewrite EB. split; [lia|]. rewrite S2 in E. exact E. }
  destruct (o_dstnull o) eqn:Hnull; cbv iota beta.
  - (* NULL destination: nothing is copied; the stage is left only if the block is empty *)
    rewrite Ht. destruct (0 =? n) eqn:E0.
    + apply Z.eqb_eq in E0.
      assert (D0 : data = []) by (unfold data; rewrite <- E0; reflexivity).
      apply (Main l); auto; try lia.
      * rewrite <- E0. reflexivity.
      * rewrite D0, app_nil_r. exact Ho.
      * rewrite D0, app_nil_r. exact Bk.
      * rewrite D0. exact Hx.
    + ss. intro H. exfalso. apply Z.eqb_neq in E0. unfold bcsize, FD_BFSize, FD_BHSize in H. ss.
      destruct (fi_bcFlag (d_fi (l_s l)) =? 0); lia.
  - set (k := Z.min (d_tmpInTarget (l_s l)) (Z.min (zlen (l_src l)) (l_cap l))).
    set (piece := ztake k (l_src l)).
    assert (Hk : 0 <= k <= n /\ k <= zlen (l_src l)) by (unfold k; rewrite Ht; lia).
    pose proof (upd_copy_core (l_s l) piece k) as C.
    pose proof (upd_copy_fields (l_s l) piece k) as (U1 & U2 & U3 & U4).
    set (s1 := upd_copy (l_s l) piece k) in *.
    destruct C as (C1 & C2 & C3 & C4 & C5 & C6 & C7 & C8 & C9 & C10 & C11).
    ss. rewrite C7, Ht, C1.
    destruct (k =? n) eqn:E.
    + apply Z.eqb_eq in E.
      assert (Hpd : piece = data) by (unfold piece, data; rewrite E; reflexivity).
      assert (Bn : binv (acc ++ data) s1).
      { rewrite <- Hpd. eapply (binv_append acc (l_s l) s1 piece Bk); auto.
        - apply hist_eq_case. exact U1.
        - rewrite U2, B3, F2. destruct skip, (f_ccrc d); reflexivity.
        - rewrite U3. unfold piece. rewrite zlen_ztake by lia. reflexivity. }
      pose proof (Main (adv (emit (with_s l s1) piece k) k)) as M. unfold step_goal in M.
      ss. rewrite C1 in M. apply M; auto; try lia.
      * rewrite E. reflexivity.
      * rewrite Ho, Hpd. reflexivity.
      * intros X1 X2. rewrite U4, B3, X2, F1, X1. cbn [negb]. rewrite (Hx X1 X2). rewrite <- Hpd. reflexivity.
    + ss. intro H. exfalso. apply Z.eqb_neq in E. unfold bcsize, FD_BFSize, FD_BHSize in H. ss.
      rewrite C1 in H. destruct (fi_bcFlag (d_fi (l_s l)) =? 0); lia.
Qed.

(* dstage_getBlockChecksum *)
Lemma step_bcrc (K : list byte * list byte -> Prop) l acc data :
  d_stage (l_s l) = GetBlockChecksum -> binv (acc ++ data) (l_s l) -> bytes_ok (l_src l) = true ->
  l_out l = acc ++ data -> d_tmpInSize (l_s l) = 0 -> f_bcrc d = true ->
  (skip = false -> d_bxxh (l_s l) = data) -> zlen data <= maxb ->
  (forall res, (exists cb r2, take 4 (l_src l) = Some (cb, r2) /\ (skip || (le_val cb =? xxh32 0 data)) = true /\
                              E_after acc data r2 res) -> K res) ->
  step_goal K (do_getBlockChecksum l).
Proof.
  intros Hst B Hb Ho Hsz EB Hx Hd HK. unfold do_getBlockChecksum, step_goal.
  pose proof (zlen_nonneg (l_src l)) as Hl. rewrite Hsz.
  destruct (4 <=? zlen (l_src l)) eqn:E4; cbn [andb Z.eqb].
  - apply Z.leb_le in E4.
    set (crc := ztake 4 (l_src l)).
    assert (Hcl : zlen crc = 4) by (unfold crc; rewrite zlen_ztake; lia).
    destruct (bytes_ok_split 4 _ Hb) as [Hb1 Hb2]. fold crc in Hb1.
    assert (T : take 4 (l_src l) = Some (crc, zdrop 4 (l_src l))) by (apply (take_ztake 4); lia).
    assert (Hrd : rd32 crc = le_val crc) by (rewrite rd32_le_val by exact Hb1; rewrite ztake4_self by exact Hcl; reflexivity).
    unfold do_blockChecksum_check. ss. rewrite Hrd.
    destruct B as (B1 & B2 & B3 & B4 & B5 & B6 & B7). rewrite B3.
    destruct (negb skip && negb (le_val crc =? xxh32 0 (d_bxxh (l_s l)))) eqn:EC; ss; [exact I|].
    eapply I_header with (acc := acc ++ data); ss; auto.
    + unfold binv; ss. repeat split; auto.
    + intros res E. apply HK. exists crc, (zdrop 4 (l_src l)). split; [exact T|]. split.
      * destruct skip; [reflexivity|]. cbn [negb andb orb] in *. rewrite (Hx eq_refl) in EC.
        apply negb_false_iff in EC. exact EC.
      * split; [exact Hd|exact E].
  - apply Z.leb_gt in E4. unfold hdr_write. ss. rewrite Hsz.
    replace (0 + Z.min (4 - 0) (zlen (l_src l)) <? 4) with true by (symmetry; apply Z.ltb_lt; lia).
    ss. discriminate.
Qed.

(* a complete compressed block *)
Lemma step_cblock (K : list byte * list byte -> Prop) l acc n sel rest :
  binv acc (l_s l) -> bytes_ok sel = true -> bytes_ok rest = true -> l_src l = rest -> l_out l = acc ->
  d_tmpInTarget (l_s l) = n + crc4 (f_bcrc d) -> 0 <= n <= maxb -> zlen sel = n + crc4 (f_bcrc d) -> 0 <= l_cap l ->
  (forall res, X_comp acc n (sel ++ rest) res -> K res) ->
  step_goal K (do_cblock bdec o l sel).
Proof.
  intros B Hbs Hbr Hsrc Ho Ht Hn Hsl Hc HK. unfold do_cblock, step_goal.
  pose proof (binv_flags _ _ B) as (F1 & F2 & F3). pose proof (binv_linked _ _ B) as HL.
  assert (Bk := B). destruct B as (B1 & B2 & B3 & B4 & B5 & B6 & B7).
  set (data := ztake n sel).
  assert (Hsl' : n <= zlen sel) by (unfold crc4 in Hsl; destruct (f_bcrc d); lia).
  assert (Hsl'' : (Z.to_nat n - length sel)%nat = 0%nat) by (unfold zlen in Hsl'; lia).
  assert (Hdl : zlen data = n) by (unfold data; rewrite zlen_ztake; lia).
  assert (Tk : take (Z.to_nat n) (sel ++ rest) = Some (data, zdrop n sel ++ rest)).
  { rewrite (take_ztake n) by (rewrite zlen_app; pose proof (zlen_nonneg rest); lia).
    unfold data, ztake, zdrop. f_equal. f_equal.
    - rewrite firstn_app, Hsl''. simpl. apply app_nil_r.
    - rewrite skipn_app, Hsl''. reflexivity. }
  (* the checksum part *)
  rewrite F1.
  assert (CRC : forall s0 crcok,
     (if negb (f_bcrc d) then (l_s l, true)
      else (set_tmpInTarget (l_s l) (d_tmpInTarget (l_s l) - 4),
            rd32 (zdrop (d_tmpInTarget (set_tmpInTarget (l_s l) (d_tmpInTarget (l_s l) - 4))) sel) =?
            xxh32 0 (ztake (d_tmpInTarget (set_tmpInTarget (l_s l) (d_tmpInTarget (l_s l) - 4))) sel))) = (s0, crcok) ->
     d_tmpInTarget s0 = n /\ binv acc s0 /\
     (crcok = true -> forall c res, E_after acc c rest res -> E_bcrc acc data c (zdrop n sel ++ rest) res)).
  { intros s0 crcok H. destruct (f_bcrc d) eqn:EB; cbn [negb] in H; injection H as <- <-.
    - ss. unfold crc4 in *. rewrite Ht. split; [lia|]. split.
      + eapply binv_eq; [| | | | | |exact Bk]; reflexivity.
      + replace (n + 4 - 4) with n by lia. intros C c res E. unfold E_bcrc. rewrite EB.
        set (cb := zdrop n sel) in *.
        assert (Hcb : zlen cb = 4) by (unfold cb; rewrite zlen_zdrop; lia).
        destruct (bytes_ok_split n _ Hbs) as [_ Hbc]. fold cb in Hbc.
        exists cb, rest. split.
        * replace 4%nat with (length cb) by (unfold zlen in Hcb; lia). apply take_app.
        * split; [|exact E]. apply Z.eqb_eq in C. rewrite rd32_le_val in C by exact Hbc.
          rewrite ztake4_self in C by exact Hcb. rewrite C. fold data. rewrite Z.eqb_refl. apply orb_true_r.
    - unfold crc4 in *. split; [lia|]. split; [exact Bk|]. intros _ c res E. unfold E_bcrc. rewrite EB.
      replace (zdrop n sel) with (@nil byte); [exact E|].
      unfold zdrop. symmetry. apply skipn_all2. unfold zlen in Hsl. lia. }
  match goal with |- context [let '(_, _) := ?x in _] => destruct x as [s0 crcok] eqn:EX end.
  destruct (CRC s0 crcok eq_refl) as (T0 & B0 & C0). clear CRC EX.
  destruct (negb crcok) eqn:EN; [ss; exact I|].
  apply negb_false_iff in EN. specialize (C0 EN).
  assert (HL0 : linked s0 = negb (f_indep d)) by (eapply binv_linked; exact B0).
  rewrite T0, HL0. fold data.
  assert (Hh : (if negb (f_indep d) then lastn (Z.to_nat FD_64KB) (d_hist s0) else d_hist s0) = spec_hist acc).
  { destruct B0 as (_ & _ & _ & X & _). unfold spec_hist. fold N64. destruct (f_indep d); cbn [negb]; [exact X|].
    rewrite X, N64_eq. reflexivity. }
  rewrite Hh.
  destruct (bdec (spec_hist acc) data) as [c|] eqn:ED; [|ss; exact I].
  destruct B0 as (D1 & D2 & D3 & D4 & D5 & D6 & D7). rewrite D2.
  destruct (zlen c <=? maxb) eqn:EL; [|ss; exact I]. apply Z.leb_le in EL.
  assert (Bd : binv acc s0) by (unfold binv; repeat split; auto).
  pose proof (upd_decoded_core s0 c) as C. pose proof (upd_decoded_fields s0 c) as (U1 & U2 & U3).
  set (s1 := upd_decoded s0 c) in *.
  destruct C as (C1 & C2 & C3 & C4 & C5 & C6 & C7 & C8 & C9 & C10 & C11).
  (* whichever way the block reaches dst, afterwards: *)
  assert (Fin : forall l2, l_src l2 = rest -> l_out l2 = acc ++ c -> d_stage (l_s l2) = GetBlockHeader ->
                d_fi (l_s l2) = d_fi s0 -> d_maxBlock (l_s l2) = d_maxBlock s0 -> d_skip (l_s l2) = d_skip s0 ->
                (if linked s0 then lastn N64 (d_hist (l_s l2)) = lastn N64 (upd_hist (d_hist s0) c) else d_hist (l_s l2) = d_hist s0) ->
                d_xxh (l_s l2) = d_xxh s1 -> d_remaining (l_s l2) = d_remaining s1 -> Inv K l2).
  { intros l2 S2 O2 St2 G1 G2 G3 G4 G5 G6.
    eapply I_header with (acc := acc ++ c); auto.
    - eapply (binv_append acc s0 (l_s l2) c Bd); auto; congruence.
    - rewrite S2. exact Hbr.
    - intros res E. apply HK. exists data, (zdrop n sel ++ rest), c. split; [exact Tk|]. split; [exact ED|].
      apply C0. split; [exact EL|]. rewrite S2 in E. exact E. }
  pose proof (zlen_nonneg c) as Hc0.
  rewrite C3, D2.
  destruct (maxb <=? l_cap l) eqn:EC.
  - (* straight into dst *)
    pose proof (upd_link_core s1 c) as L. pose proof (upd_link_fields s1 c) as (V1 & V2 & V3 & V4).
    set (s2 := upd_link s1 c) in *.
    destruct L as (L1 & L2 & L3 & L4 & L5 & L6 & L7 & L8 & L9 & L10 & L11).
    ss. apply Fin; ss; auto; try congruence.
    + apply hist_eq_case. rewrite V1. unfold linked. rewrite C1, U1. reflexivity.
  - (* through tmpOut *)
    unfold do_flushOut.
    destruct (o_dstnull o) eqn:Hnull.
    + ss. destruct (0 =? zlen c) eqn:E0; ss; [|discriminate].
      apply Z.eqb_eq in E0. assert (c = []) by (destruct c; [reflexivity|unfold zlen in E0; simpl in E0; lia]). subst c.
      apply Fin; ss; auto; try congruence.
      * rewrite app_nil_r. exact Ho.
      * (* an empty piece does not change the last 64 KB seen by the next block *)
        rewrite U1. destruct (linked s0); [|reflexivity].
        unfold upd_hist. fold N64. rewrite app_nil_r, lastn_idem. reflexivity.
    + ss.
      set (k := Z.min (zlen c - 0) (l_cap l)).
      assert (Hk : 0 <= k <= zlen c /\ k <= l_cap l) by (unfold k; lia).
      pose proof (upd_link_core (set_stage (set_tmpOutStart (set_tmpOut s1 c) 0) FlushOut) (ztake k (zdrop 0 c))) as L.
      pose proof (upd_link_fields (set_stage (set_tmpOutStart (set_tmpOut s1 c) 0) FlushOut) (ztake k (zdrop 0 c))) as (V1 & V2 & V3 & V4).
      set (s2 := upd_link (set_stage (set_tmpOutStart (set_tmpOut s1 c) 0) FlushOut) (ztake k (zdrop 0 c))) in *.
      destruct L as (L1 & L2 & L3 & L4 & L5 & L6 & L7 & L8 & L9 & L10 & L11). ss.
      rewrite L9, L8. ss.
      destruct (0 + k =? zlen c) eqn:EK; ss; [|unfold FD_BHSize; discriminate].
      apply Z.eqb_eq in EK.
      assert (Hp : ztake k (zdrop 0 c) = c) by (apply ztake_all; unfold zdrop; simpl; lia).
      rewrite Hp in *.
      apply Fin; ss; auto; try congruence.
      * apply hist_eq_case. rewrite V1. unfold linked. ss. rewrite C1, U1. reflexivity.
Qed.

Lemma ztake_zdrop_app n (l : list byte) : ztake n l ++ zdrop n l = l.
Proof. unfold ztake, zdrop. apply firstn_skipn. Qed.

(* dstage_getCBlock *)
Lemma step_getCBlock (K : list byte * list byte -> Prop) l acc n :
  d_stage (l_s l) = GetCBlock -> binv acc (l_s l) -> bytes_ok (l_src l) = true -> l_out l = acc ->
  d_tmpInTarget (l_s l) = n + crc4 (f_bcrc d) -> 0 <= n <= maxb -> 0 <= l_cap l ->
  (forall res, X_comp acc n (l_src l) res -> K res) ->
  step_goal K (do_getCBlock bdec o l).
Proof.
  intros Hst B Hb Ho Ht Hn Hc HK. unfold do_getCBlock.
  pose proof (zlen_nonneg (l_src l)) as Hl.
  assert (Hcr : 0 <= crc4 (f_bcrc d)) by (unfold crc4; destruct (f_bcrc d); lia).
  destruct (zlen (l_src l) <? d_tmpInTarget (l_s l)) eqn:E.
  - apply Z.ltb_lt in E. unfold step_goal. ss. apply I_dead; ss; auto.
  - apply Z.ltb_ge in E. rewrite Ht in *.
    destruct (bytes_ok_split (n + crc4 (f_bcrc d)) _ Hb) as [Hb1 Hb2].
    apply (step_cblock K (adv l (n + crc4 (f_bcrc d))) acc n (ztake (n + crc4 (f_bcrc d)) (l_src l)) (zdrop (n + crc4 (f_bcrc d)) (l_src l))); ss; auto.
    + rewrite zlen_ztake by lia. reflexivity.
    + rewrite ztake_zdrop_app. exact HK.
Qed.

(* dstage_storeCBlock entered with nothing staged and not enough input: it can only stop *)
Lemma step_dead (K : list byte * list byte -> Prop) l :
  d_stage (l_s l) = StoreCBlock -> d_tmpInSize (l_s l) = 0 -> zlen (l_src l) < d_tmpInTarget (l_s l) ->
  step_goal K (do_storeCBlock bdec o l).
Proof.
  intros Hst Hs Hlt. unfold do_storeCBlock, step_goal. pose proof (zlen_nonneg (l_src l)) as Hl.
  unfold tmpin_write. ss. rewrite Hs.
  replace (0 + Z.min (d_tmpInTarget (l_s l) - 0) (zlen (l_src l)) <? d_tmpInTarget (l_s l)) with true
    by (symmetry; apply Z.ltb_lt; lia).
  ss. intro H. exfalso. unfold bcsize, FD_BFSize, FD_BHSize in H. ss.
  destruct (fi_bcFlag (d_fi (l_s l)) =? 0); lia.
Qed.

(* dstage_getSuffix *)
Lemma step_suffix (K : list byte * list byte -> Prop) l acc :
  d_stage (l_s l) = GetSuffix -> binv acc (l_s l) -> bytes_ok (l_src l) = true -> l_out l = acc ->
  zlen acc < 18446744073709551616 ->
  (forall res, E_suffix acc (l_src l) res -> K res) ->
  step_goal K (do_getSuffix l).
Proof.
  intros Hst B Hb Ho Hacc HK. unfold do_getSuffix, step_goal.
  pose proof (zlen_nonneg (l_src l)) as Hl. pose proof (zlen_nonneg acc) as Ha.
  pose proof (binv_flags _ _ B) as (F1 & F2 & F3).
  destruct B as (B1 & B2 & B3 & B4 & B5 & B6 & B7).
  destruct (negb (d_remaining (l_s l) =? 0)) eqn:ER; [ss; exact I|].
  apply negb_false_iff in ER. apply Z.eqb_eq in ER.
  (* the declared content size is met *)
  assert (FIN : forall rest, fin_ok acc rest (acc, rest)).
  { intro rest. unfold fin_ok. split; [|reflexivity].
    destruct (f_csize d) as [n|]; [|exact I].
    rewrite B6 in ER. destruct (n =? 0) eqn:E0; [reflexivity|]. cbn [orb].
    apply Z.eqb_eq. unfold u64 in ER. fold (zlen acc).
    assert (X : (n - zlen acc) mod 18446744073709551616 = 0) by exact ER.
    apply Z.mod_divide in X; [|lia]. destruct X as [q Hq].
    assert (q = 0) by nia. subst q. lia. }
  rewrite F2.
  destruct (f_ccrc d) eqn:EC; cbn [negb].
  2:{ ss. intros _. rewrite Ho. apply HK. unfold E_suffix. rewrite EC. apply FIN. }
  destruct (zlen (l_src l) <? 4) eqn:E4.
  - apply Z.ltb_lt in E4. unfold do_storeSuffix, tmpin_write. ss.
    replace (0 + Z.min (4 - 0) (zlen (l_src l)) <? 4) with true by (symmetry; apply Z.ltb_lt; lia).
    ss. lia.
  - apply Z.ltb_ge in E4.
    set (crc := ztake 4 (l_src l)).
    assert (Hcl : zlen crc = 4) by (unfold crc; rewrite zlen_ztake; lia).
    destruct (bytes_ok_split 4 _ Hb) as [Hb1 Hb2]. fold crc in Hb1.
    assert (T : take 4 (l_src l) = Some (crc, zdrop 4 (l_src l))) by (apply (take_ztake 4); lia).
    assert (Hrd : rd32 crc = le_val crc) by (rewrite rd32_le_val by exact Hb1; rewrite ztake4_self by exact Hcl; reflexivity).
    unfold do_checkSuffix. ss. rewrite Hrd, B3.
    destruct (negb skip && negb (le_val crc =? xxh32 0 (d_xxh (l_s l)))) eqn:EK; ss; [exact I|].
    intros _. rewrite Ho. apply HK. unfold E_suffix. rewrite EC.
    exists crc, (zdrop 4 (l_src l)). split; [exact T|]. split; [|apply FIN].
    destruct skip; [reflexivity|]. cbn [negb andb orb] in *. rewrite (B5 eq_refl eq_refl) in EK.
    apply negb_false_iff in EK. exact EK.
Qed.

(* ---- one iteration, then the whole loop ---- *)
Lemma step_iter (K : list byte * list byte -> Prop) l :
  Inv K l -> 0 <= l_cap l -> zlen (l_out l) < 18446744073709551616 -> step_goal K (iter bdec o l).
Proof.
  intros I Hc Hlen. unfold iter. destruct I.
  - rewrite H. apply (step_header K l acc); auto.
  - rewrite H. apply (step_copy K l acc n); auto.
  - rewrite H. apply (step_bcrc K l acc data); auto.
  - rewrite H. apply (step_getCBlock K l acc n); auto.
  - rewrite H. apply (step_suffix K l acc); auto. rewrite <- H2. exact Hlen.
  - rewrite H. apply step_dead; auto.
  - rewrite H. apply (step_header K (with_s l (do_init (l_s l))) []); auto.
Qed.

Lemma run_sound (K : list byte * list byte -> Prop) : forall fuel l l',
  Inv K l -> wf (l_s l) -> 0 <= l_cap l -> run bdec fuel o l = (l', FStop 0) ->
  zlen (l_out l') < 18446744073709551616 -> K (l_out l', l_src l').
Proof.
  induction fuel as [|fuel IH]; intros l l' I Hwf Hc Hr Hlen; [discriminate Hr|].
  cbn [run] in Hr.
  pose proof (iter_post bdec o l Hwf Hc) as P.
  assert (Hlen0 : forall l1, acct l l1 -> acct l1 l' -> zlen (l_out l) < 18446744073709551616).
  { intros l1 A1 A2. unfold acct in *. lia. }
  destruct (iter bdec o l) as [l1 oc] eqn:EI. cbn [fst snd] in P. destruct P as [A P].
  destruct oc as [|h|v].
  - destruct P as [W _].
    assert (Hc1 : 0 <= l_cap l1) by (unfold acct in A; lia).
    pose proof (run_post bdec o fuel l1 l' (FStop 0) W Hc1 Hr) as (A2 & _).
    pose proof (step_iter K l I Hc (Hlen0 l1 A A2)) as S. rewrite EI in S. unfold step_goal in S. cbn [fst snd] in S.
    eapply IH; eauto.
  - inversion Hr; subst.
    assert (Hl0 : zlen (l_out l) < 18446744073709551616) by (unfold acct in A; lia).
    pose proof (step_iter K l I Hc Hl0) as S. rewrite EI in S. unfold step_goal in S. cbn [fst snd] in S.
    apply S. reflexivity.
  - discriminate Hr.
Qed.
End Blocks.

(* ---- the frame header, then the blocks: one call on a whole frame ---- *)
Lemma take_app_split : forall n (r a b : list byte), take n r = Some (a, b) -> r = a ++ b.
Proof.
  induction n as [|n IH]; intros r a b H; simpl in H.
  - inversion H; reflexivity.
  - destruct r as [|x r]; [discriminate|]. destruct (take n r) as [[a' b']|] eqn:E; [|discriminate].
    inversion H; subst. simpl. f_equal. apply IH. exact E.
Qed.

Lemma parse_desc_suffix rest d tl :
  parse_desc rest = Some (d, tl) -> exists pre, rest = pre ++ tl.
Proof.
  intro H. destruct rest as [|flg [|bd r]]; try discriminate H.
  rewrite parse_desc_factor in H.
  destruct (spec_flags flg bd) as [[[[[[indep bcrc] csz] ccrc] did] bsid]|]; [|discriminate].
  destruct (take _ r) as [[cs r1]|] eqn:T1; [|discriminate].
  destruct (take _ r1) as [[di r2]|] eqn:T2; [|discriminate].
  destruct r2 as [|hc r3]; [discriminate|]. destruct (hc =? header_checksum _); [|discriminate]. inversion H; subst.
  apply take_app_split in T1. apply take_app_split in T2. subst.
  exists (flg :: bd :: cs ++ di ++ [hc]). simpl. rewrite <- !app_assoc. reflexivity.
Qed.

Lemma parse_desc_csize_bound rest d tl n :
  bytes_ok rest = true -> parse_desc rest = Some (d, tl) -> f_csize d = Some n -> 0 <= n < 18446744073709551616.
Proof.
  intros Hb H Hn. destruct rest as [|flg [|bd r]]; try discriminate H.
  rewrite parse_desc_factor in H.
  destruct (spec_flags flg bd) as [[[[[[indep bcrc] csz] ccrc] did] bsid]|]; [|discriminate].
  destruct (take _ r) as [[cs r1]|] eqn:T1; [|discriminate].
  destruct (take _ r1) as [[di r2]|] eqn:T2; [|discriminate].
  destruct r2 as [|hc r3]; [discriminate|]. destruct (hc =? header_checksum _); [|discriminate]. inversion H; subst. clear H.
  simpl in Hn. destruct (csz =? 1); [|discriminate]. inversion Hn; subst.
  destruct (take_length _ _ _ _ T1) as [L1 _]. pose proof (take_app_split _ _ _ _ T1) as S1.
  simpl in Hb. apply andb_prop in Hb. destruct Hb as [_ Hb]. apply andb_prop in Hb. destruct Hb as [_ Hb].
  change (forallb byte_ok r) with (bytes_ok r) in Hb. rewrite S1, bytes_ok_app in Hb. apply andb_prop in Hb.
  pose proof (le_val_bound cs (proj1 Hb)) as B. unfold zlen in B. rewrite L1 in B.
  change (256 ^ Z.of_nat 8) with 18446744073709551616 in B. exact B.
Qed.

Section OneShot.
Variable bdec : list byte -> list byte -> option (list byte).

(* a successful decodeHeader on bytes that begin with the frame magic means parse_desc succeeds *)
Lemma decode_accept s b m0 m1 m2 m3 rest s' r :
  bytes_ok rest = true -> le_val [m0; m1; m2; m3] = FD_MAGICNUMBER ->
  FD_minFHSize <= zlen (m0 :: m1 :: m2 :: m3 :: rest) ->
  decodeHeader s b (m0 :: m1 :: m2 :: m3 :: rest) = (s', r) -> 0 <= r -> d_stage s' = Init ->
  exists d tl, parse_desc rest = Some (d, tl) /\ s' = accept_state s d /\
               r = zlen (m0 :: m1 :: m2 :: m3 :: rest) - zlen tl /\
               bsid_size (f_bsid d) = Some (blockSize_of_id (f_bsid d)).
Proof.
  intros Hb Hm H7 HD Hr Hst.
  pose proof (decodeHeader_iff s b m0 m1 m2 m3 rest Hb Hm H7) as I.
  destruct (parse_desc rest) as [[d tl]|].
  - destruct I as [I1 I2]. rewrite HD in I1. inversion I1; subst. exists d, tl. auto.
  - rewrite HD in I. destruct I as [I|[I _]]; [lia|]. rewrite Hst in I. discriminate I.
Qed.

(* the state in which the block loop starts satisfies the refinement invariant for [] *)
Lemma do_init_fields s :
  d_fi (do_init s) = d_fi s /\ d_maxBlock (do_init s) = d_maxBlock s /\ d_skip (do_init s) = d_skip s /\
  d_hist (do_init s) = d_hist s /\ d_remaining (do_init s) = d_remaining s /\
  d_xxh (do_init s) = (if fi_ccFlag (d_fi s) =? 0 then d_xxh s else []).
Proof.
  unfold do_init. destruct (fi_ccFlag (d_fi s) =? 0) eqn:E.
  - destruct (d_maxBuf s <? _); ss; rewrite ?E; auto 10.
  - destruct (d_maxBuf (set_xxh s []) <? _); ss; rewrite ?E; auto 10.
Qed.
Lemma accept_state_fields s d :
  d_fi (accept_state s d) = fi_of_desc d /\ d_maxBlock (accept_state s d) = blockSize_of_id (f_bsid d) /\
  d_skip (accept_state s d) = d_skip s /\ d_hist (accept_state s d) = d_hist s /\
  d_remaining (accept_state s d) = (match f_csize d with Some n => n | None => d_remaining s end) /\
  d_stage (accept_state s d) = Init.
Proof. unfold accept_state. destruct (f_csize d); ss; auto 10. Qed.

Lemma binv_after_init skip d maxb dict s :
  bsid_size (f_bsid d) = Some maxb -> blockSize_of_id (f_bsid d) = maxb ->
  d_skip s = skip -> d_hist s = dict -> d_remaining s = 0 ->
  (match f_csize d with Some n => 0 <= n < 18446744073709551616 | None => True end) ->
  binv skip d maxb dict [] (do_init (accept_state s d)).
Proof.
  intros Hm1 Hm2 Hs Hh Hr Hcs. unfold binv.
  destruct (do_init_fields (accept_state s d)) as (I1 & I2 & I3 & I4 & I5 & I6).
  destruct (accept_state_fields s d) as (A1 & A2 & A3 & A4 & A5 & A6).
  rewrite I1, I2, I3, I4, I5, I6, A1, A2, A3, A4, A5, Hs, Hh, Hr, Hm2.
  split; [reflexivity|]. split; [reflexivity|]. split; [reflexivity|]. split; [|split; [|split; [|exact Hcs]]].
  - destruct (f_indep d); [reflexivity|]. rewrite app_nil_r. reflexivity.
  - intros C _. unfold fi_of_desc; ss. rewrite C. reflexivity.
  - destruct (f_csize d) as [n|]; [|reflexivity]. destruct (n =? 0) eqn:E0; [apply Z.eqb_eq in E0; exact E0|].
    unfold u64. rewrite zlen_nil, Z.sub_0_r. symmetry. apply Z.mod_small. exact Hcs.
Qed.

(* the fuel of the specification's block loop: any value above the input length will do *)
Lemma blocks_mono skip d maxb dict : forall F acc bs res,
  blocks bdec skip F d maxb dict acc bs = Some res ->
  forall F', (length bs < F')%nat -> blocks bdec skip F' d maxb dict acc bs = Some res.
Proof.
  induction F as [|F IH]; intros acc bs res H F' HF; [discriminate H|].
  destruct F' as [|F']; [lia|]. cbn [blocks] in *.
  destruct (take 4 bs) as [[szb r]|] eqn:T; [|discriminate H].
  destruct (take_length _ _ _ _ T) as [_ L4].
  destruct (le_val szb =? 0); [exact H|].
  destruct (maxb <? le_val szb mod 2147483648); [discriminate H|].
  destruct (take (Z.to_nat (le_val szb mod 2147483648)) r) as [[data r1]|] eqn:T1; [|discriminate H].
  destruct (take_length _ _ _ _ T1) as [_ L1].
  assert (G : forall rest, (length rest <= length r1)%nat ->
     (let hist := if f_indep d then dict else lastn 65536 (dict ++ acc) in
      let content := if 2147483648 <=? le_val szb then Some data else bdec hist data in
      match content with
      | Some c => if maxb <? Z.of_nat (length c) then None else blocks bdec skip F d maxb dict (acc ++ c) rest
      | None => None end) = Some res ->
     (let hist := if f_indep d then dict else lastn 65536 (dict ++ acc) in
      let content := if 2147483648 <=? le_val szb then Some data else bdec hist data in
      match content with
      | Some c => if maxb <? Z.of_nat (length c) then None else blocks bdec skip F' d maxb dict (acc ++ c) rest
      | None => None end) = Some res).
  { intros rest Hr. cbv zeta.
    destruct (if 2147483648 <=? le_val szb then Some data else bdec (if f_indep d then dict else lastn 65536 (dict ++ acc)) data) as [c|];
      [|discriminate].
    destruct (maxb <? Z.of_nat (length c)); [discriminate|]. intro X. apply IH; [exact X|lia]. }
  destruct (f_bcrc d).
  - destruct (take 4 r1) as [[cb r2]|] eqn:T2; [|discriminate H].
    destruct (take_length _ _ _ _ T2) as [_ L2].
    destruct (skip || (le_val cb =? xxh32 0 data)); [|discriminate H]. apply G; [lia|exact H].
  - apply G; [lia|exact H].
Qed.

Lemma take_app_ext : forall n (r a b x : list byte), take n r = Some (a, b) -> take n (r ++ x) = Some (a, b ++ x).
Proof.
  induction n as [|n IH]; intros r a b x H; simpl in H.
  - inversion H; subst. reflexivity.
  - destruct r as [|y r]; [discriminate|]. destruct (take n r) as [[a' b']|] eqn:E; [|discriminate].
    inversion H; subst. simpl. rewrite (IH _ _ _ x E). reflexivity.
Qed.
Lemma parse_desc_ext pre d t x : parse_desc pre = Some (d, t) -> parse_desc (pre ++ x) = Some (d, t ++ x).
Proof.
  intro H. destruct pre as [|flg [|bd r]]; try discriminate H.
  simpl app. rewrite parse_desc_factor in *.
  destruct (spec_flags flg bd) as [[[[[[indep bcrc] csz] ccrc] did] bsid]|]; [|discriminate].
  destruct (take _ r) as [[cs r1]|] eqn:T1; [|discriminate].
  destruct (take _ r1) as [[di r2]|] eqn:T2; [|discriminate].
  destruct r2 as [|hc r3]; [discriminate|].
  rewrite (take_app_ext _ _ _ _ x T1), (take_app_ext _ _ _ _ x T2). simpl app.
  destruct (hc =? header_checksum (flg :: bd :: cs ++ di)) eqn:EH; [|discriminate]. inversion H; subst.
  cbn [app]. rewrite EH. reflexivity.
Qed.

(* after the header: the rest of the call is the block loop *)
Lemma after_header s0 o (data rest : list byte) m0 m1 m2 m3 d tl sX fuel l1 l' :
  data = m0 :: m1 :: m2 :: m3 :: rest -> le_val [m0; m1; m2; m3] = FD_MAGICNUMBER -> bytes_ok rest = true ->
  parse_desc rest = Some (d, tl) ->
  l_s l1 = accept_state sX d -> d_skip sX = o_skip o -> d_hist sX = d_hist s0 -> d_remaining sX = 0 ->
  l_src l1 = tl -> l_out l1 = [] -> wf (l_s l1) -> 0 <= l_cap l1 ->
  run bdec fuel o l1 = (l', FStop 0) -> zlen (l_out l') < 18446744073709551616 ->
  frame_decode bdec (o_skip o) (d_hist s0) data = Some (l_out l', l_src l').
Proof.
  intros Hd Hm Hbr PD Hs1 Hsk Hh Hrem Hsrc Hout W Hc ER Hlen.
  assert (HB : bsid_size (f_bsid d) = Some (blockSize_of_id (f_bsid d))).
  { assert (H7 : FD_minFHSize <= zlen (m0 :: m1 :: m2 :: m3 :: rest)).
    { destruct rest as [|f [|b [|c r]]]; try discriminate PD.
      - exfalso. unfold parse_desc in PD. simpl in PD.
        repeat (match type of PD with (if ?c then _ else _) = _ => destruct c; try discriminate PD end).
        destruct ((f / 8) mod 2 =? 1); simpl in PD; try discriminate PD.
        destruct (f mod 2 =? 1); simpl in PD; discriminate PD.
      - unfold zlen, FD_minFHSize. simpl length. lia. }
    pose proof (decodeHeader_iff dctx_init false m0 m1 m2 m3 rest Hbr Hm H7) as I. rewrite PD in I. apply I. }
  set (maxb := blockSize_of_id (f_bsid d)) in *.
  destruct (parse_desc_suffix _ _ _ PD) as [pre Hpre].
  set (K := fun res : list byte * list byte => frame_decode bdec (o_skip o) (d_hist s0) data = Some res).
  assert (I1 : Inv bdec (o_skip o) d maxb (d_hist s0) K l1).
  { apply I_init; auto.
    - rewrite Hs1. apply accept_state_fields.
    - rewrite Hs1. apply binv_after_init; auto.
      destruct (f_csize d) as [n|] eqn:EN; [|exact I]. eapply parse_desc_csize_bound; eauto.
    - rewrite Hsrc. rewrite Hpre in Hbr. rewrite bytes_ok_app in Hbr. apply andb_prop in Hbr. apply Hbr.
    - intros res (F & HF). unfold K, frame_decode. rewrite Hd.
      change (take 4 (m0 :: m1 :: m2 :: m3 :: rest)) with (Some ([m0; m1; m2; m3], rest)). cbv iota beta. rewrite Hm.
      replace (FD_MAGICNUMBER =? MAGIC) with true by (vm_compute; reflexivity). rewrite PD, HB.
      rewrite Hsrc in HF. eapply blocks_mono; [exact HF|lia]. }
  exact (run_sound bdec (o_skip o) d maxb (d_hist s0) o K fuel l1 l' I1 W Hc ER Hlen).
Qed.

(* One call of LZ4F_decompress on a context that is at the start of a frame (fresh, or after
   LZ4F_resetDecompressionContext / a completed frame), given at least maxFHSize bytes that
   start with the LZ4 frame magic number.  If the call returns 0:
   - the bytes are a frame accepted by the specification (header valid, every block decodable,
     every block checksum, the content checksum and a declared content size verified -
     checksums modulo skipChecksums exactly as Spec.frame_decode's skip flag),
   - the produced bytes are the specified content,
   - the number of consumed bytes is the length of that frame. *)
Theorem oneshot_sound_long : forall s0 data cap o,
  wf s0 -> d_stage s0 = GetFrameHeader -> d_remaining s0 = 0 -> d_skip s0 = false ->
  bytes_ok data = true -> 0 <= cap -> FD_maxFHSize <= zlen data ->
  le_val (ztake 4 data) = FD_MAGICNUMBER ->
  let r := snd (decompress bdec s0 data cap o) in
  r_ret r = 0 -> zlen (r_out r) < 18446744073709551616 ->
  exists rest, frame_decode bdec (o_skip o) (d_hist s0) data = Some (r_out r, rest) /\
               r_consumed r = zlen data - zlen rest.
Proof.
  intros s0 data cap o Hwf Hst Hrem Hsk Hb Hc H19 Hmagic. unfold decompress.
  set (s1 := set_skip s0 (d_skip s0 || o_skip o)).
  assert (W1 : wf s1) by (apply wf_set_skip; exact Hwf).
  set (l0 := mkL s1 data 0 [] cap).
  destruct (run bdec (call_fuel data) o l0) as [l' f] eqn:ER.
  pose proof (run_post bdec o _ l0 l' f W1 Hc ER) as (A0 & _ & NF & R0).
  pose proof (zlen_nonneg data) as Hl.
  destruct f as [h|v|]; ss.
  2:{ intros Hv. subst v. destruct R0 as [R0|(_ & _ & _ & R0)]; lia. }
  2:{ intros _ _. exfalso. apply NF; [|reflexivity]. unfold mu, call_fuel, l0; ss. pose proof (rank_range (d_stage s1)). lia. }
  intros Hh Hlen. subst h.
  (* first iteration: the header, straight from the input *)
  unfold FD_maxFHSize in H19.
  destruct data as [|m0 [|m1 [|m2 [|m3 rest]]]]; try (unfold zlen in H19; simpl in H19; lia).
  assert (Hm : le_val [m0; m1; m2; m3] = FD_MAGICNUMBER) by exact Hmagic.
  assert (Hbr : bytes_ok rest = true).
  { unfold bytes_ok in *. simpl in Hb. repeat (apply andb_prop in Hb; destruct Hb as [_ Hb]). exact Hb. }
  set (data := m0 :: m1 :: m2 :: m3 :: rest) in *.
  assert (Hfuel : exists fuel, call_fuel data = S fuel).
  { unfold call_fuel. exists (Z.to_nat (4 * zlen data + 15)). lia. }
  destruct Hfuel as [fuel Hfuel]. rewrite Hfuel in ER. cbn [run] in ER.
  pose proof (iter_post bdec o l0 W1 Hc) as P0.
  unfold iter in ER, P0. replace (d_stage (l_s l0)) with GetFrameHeader in * by (unfold l0, s1; ss; auto).
  unfold do_getFrameHeader in ER, P0.
  replace (FD_maxFHSize <=? zlen (l_src l0)) with true in * by (symmetry; apply Z.leb_le; unfold l0, FD_maxFHSize; ss; lia).
  replace (l_src l0) with data in * by reflexivity. replace (l_s l0) with s1 in * by reflexivity.
  destruct (decodeHeader s1 false data) as [s2 r] eqn:ED.
  destruct (r <? 0) eqn:Er; [discriminate ER|]. apply Z.ltb_ge in Er.
  cbn [fst snd] in P0. destruct P0 as [A1 [W2 _]].
  pose proof (decodeHeader_cases _ _ _ _ _ ED) as (_ & _ & _ & D).
  assert (Hrd : rd32 data = FD_MAGICNUMBER).
  { change (rd32 data) with (u32 (le_val [m0; m1; m2; m3])). rewrite Hm. reflexivity. }
  assert (Hinit : d_stage s2 = Init).
  { destruct D as [D|[D|[D|[D|D]]]].
    - exfalso. lia.
    - destruct D as (D & _). discriminate D.
    - destruct D as (_ & _ & _ & _ & D). rewrite Hrd in D. exfalso. exact (magic_not_skippable D).
    - destruct D as (_ & _ & D & _). unfold FD_header_array_size in D. exfalso. lia.
    - apply D. }
  assert (H7 : FD_minFHSize <= zlen data) by (unfold FD_minFHSize; lia).
  destruct (decode_accept s1 false m0 m1 m2 m3 rest s2 r Hbr Hm H7 ED Er Hinit) as (d & tl & PD & -> & Hr & HB).
  set (maxb := blockSize_of_id (f_bsid d)) in *.
  destruct (parse_desc_suffix _ _ _ PD) as [pre Hpre].
  assert (Hsrc1 : zdrop r data = tl).
  { rewrite Hr. unfold data, zdrop, zlen. rewrite Hpre. simpl length. rewrite app_length.
    replace (Z.to_nat (Z.of_nat (S (S (S (S (length pre + length tl))))) - Z.of_nat (length tl))) with (4 + length pre)%nat by lia.
    cbn [Nat.add skipn]. rewrite skipn_app, Nat.sub_diag, skipn_all. reflexivity. }
  (* from here on: the block loop *)
  set (K := fun res : list byte * list byte => frame_decode bdec (o_skip o) (d_hist s0) data = Some res).
  set (l1 := adv (with_s l0 (accept_state s1 d)) r) in *.
  assert (I1 : Inv bdec (o_skip o) d maxb (d_hist s0) K l1).
  { apply I_init; unfold l1, l0; ss; try reflexivity; try apply accept_state_fields.
    - apply binv_after_init; auto; unfold s1; ss.
      + rewrite Hsk. reflexivity.
      + destruct (f_csize d) as [n|] eqn:EN; [|exact I]. eapply parse_desc_csize_bound; eauto.
    - rewrite Hsrc1. rewrite Hpre in Hbr. rewrite bytes_ok_app in Hbr. apply andb_prop in Hbr. apply Hbr.
    - intros res (F & HF). unfold K, frame_decode.
      change (take 4 data) with (Some ([m0; m1; m2; m3], rest)). cbv iota beta. rewrite Hm.
      replace (FD_MAGICNUMBER =? MAGIC) with true by (vm_compute; reflexivity). rewrite PD, HB.
      rewrite Hsrc1 in HF. eapply blocks_mono; [exact HF|lia]. }
  assert (Hc1 : 0 <= l_cap l1) by (unfold l1, l0; ss; exact Hc).
  pose proof (run_sound bdec (o_skip o) d maxb (d_hist s0) o K fuel l1 l' I1 W2 Hc1 ER Hlen) as KK.
  unfold K in KK. exists (l_src l'). split; [exact KK|].
  unfold acct, l0 in A0; ss. lia.
Qed.

(* ---- the same for inputs shorter than maxFHSize: the header is staged in dctx->header ---- *)
Lemma ztake_cons4 k (m0 m1 m2 m3 : byte) rest : 4 <= k ->
  ztake k (m0 :: m1 :: m2 :: m3 :: rest) = m0 :: m1 :: m2 :: m3 :: ztake (k - 4) rest.
Proof. intro H. unfold ztake. replace (Z.to_nat k) with (S (S (S (S (Z.to_nat (k - 4)))))) by lia. reflexivity. Qed.
Lemma zdrop_cons4 k (m0 m1 m2 m3 : byte) rest : 4 <= k ->
  zdrop k (m0 :: m1 :: m2 :: m3 :: rest) = zdrop (k - 4) rest.
Proof. intro H. unfold zdrop. replace (Z.to_nat k) with (S (S (S (S (Z.to_nat (k - 4)))))) by lia. reflexivity. Qed.
Lemma firstn_split_add : forall a b (l : list byte), firstn a l ++ firstn b (skipn a l) = firstn (a + b) l.
Proof.
  induction a as [|a IH]; intros b l; [reflexivity|]. destruct l as [|x l]; [simpl; rewrite firstn_nil; reflexivity|].
  simpl. f_equal. apply IH.
Qed.
Lemma ztake_split a b (l : list byte) : 0 <= a -> 0 <= b -> ztake a l ++ ztake b (zdrop a l) = ztake (a + b) l.
Proof. intros Ha Hb. unfold ztake, zdrop. rewrite firstn_split_add. f_equal. lia. Qed.
Lemma skipn_skipn_add : forall a b (l : list byte), skipn b (skipn a l) = skipn (a + b) l.
Proof.
  induction a as [|a IH]; intros b l; [reflexivity|]. destruct l as [|x l]; [simpl; rewrite skipn_nil; reflexivity|].
  simpl. apply IH.
Qed.
Lemma zdrop_zdrop a b (l : list byte) : 0 <= a -> 0 <= b -> zdrop b (zdrop a l) = zdrop (a + b) l.
Proof. intros Ha Hb. unfold zdrop. rewrite skipn_skipn_add. f_equal. lia. Qed.
Lemma wr0 (h p : list byte) : wr h 0 p = p.
Proof. reflexivity. Qed.
Lemma zlen0_nil (l : list byte) : zlen l = 0 -> l = [].
Proof. destruct l; [reflexivity|]. unfold zlen. simpl. lia. Qed.

Lemma pair_stop_inj (a b : lst) x y : (a, Stop x) = (b, Stop y) -> x = y.
Proof. intro H. inversion H. reflexivity. Qed.

Lemma decodeHeader_keeps s b src s' r :
  decodeHeader s b src = (s', r) ->
  d_skip s' = d_skip s /\ d_hist s' = d_hist s /\ (d_stage s' = StoreFrameHeader -> d_remaining s' = d_remaining s).
Proof.
  unfold decodeHeader. intro H.
  destruct (zlen src <? FD_minFHSize); [inversion H; subst; auto|].
  destruct (Z.land (rd32 src) SKIP_MASK =? FD_MAGIC_SKIPPABLE_START); [destruct b; inversion H; subst; ss; auto|].
  destruct (negb (rd32 src =? FD_MAGICNUMBER)); [inversion H; subst; ss; auto|].
  destruct (nth_error src 4); [|inversion H; subst; ss; auto].
  destruct (nth_error src 5); [|inversion H; subst; ss; auto].
  destruct (flg_decode _) as [e|[[[[bm bc] cs] cc] di]]; [inversion H; subst; ss; auto|].
  destruct (zlen src <? fh_size cs di); [destruct b; inversion H; subst; ss; auto|].
  destruct (bd_decode _); [inversion H; subst; ss; auto|].
  destruct (nth_error src _); [|inversion H; subst; ss; auto].
  destruct (negb _); [inversion H; subst; ss; auto|].
  inversion H; subst. destruct (cs =? 0); ss; repeat split; auto; discriminate.
Qed.

(* dstage_storeFrameHeader continues only when the header has been completed to its target *)
Definition sfh_n (l : lst) : Z := d_tmpInTarget (l_s l) - d_tmpInSize (l_s l).
Definition sfh_hdr (l : lst) : list byte := wr (d_header (l_s l)) (d_tmpInSize (l_s l)) (ztake (sfh_n l) (l_src l)).
Definition sfh_state (l : lst) : dstate :=
  set_tmpInSize (set_oob (set_header (l_s l) (sfh_hdr l)) false) (d_tmpInTarget (l_s l)).
Lemma storeFrameHeader_continue l l1 :
  d_oob (l_s l) = false -> 0 <= d_tmpInSize (l_s l) < d_tmpInTarget (l_s l) ->
  d_tmpInTarget (l_s l) <= FD_header_array_size ->
  do_storeFrameHeader l = (l1, Continue) ->
  sfh_n l <= zlen (l_src l) /\
  exists r, decodeHeader (sfh_state l) true (ztake (d_tmpInTarget (l_s l)) (sfh_hdr l)) = (l_s l1, r) /\ 0 <= r /\
            l_src l1 = zdrop (sfh_n l) (l_src l) /\ l_out l1 = l_out l /\ l_cap l1 = l_cap l.
Proof.
  intros Ho Hs Ht H. unfold sfh_state, sfh_hdr, sfh_n. unfold do_storeFrameHeader in H.
  pose proof (zlen_nonneg (l_src l)) as Hl.
  set (k := Z.min (d_tmpInTarget (l_s l) - d_tmpInSize (l_s l)) (zlen (l_src l))) in *.
  assert (Hk : 0 <= k <= zlen (l_src l) /\ k <= d_tmpInTarget (l_s l) - d_tmpInSize (l_s l)) by (unfold k; lia).
  rewrite (hdr_write_eq (l_s l) _ k) in H by (auto; lia). ss.
  destruct (d_tmpInSize (l_s l) + k <? d_tmpInTarget (l_s l)) eqn:E; [discriminate H|].
  apply Z.ltb_ge in E.
  assert (Hkn : k = d_tmpInTarget (l_s l) - d_tmpInSize (l_s l)) by lia.
  rewrite Hkn in *. replace (d_tmpInSize (l_s l) + (d_tmpInTarget (l_s l) - d_tmpInSize (l_s l))) with (d_tmpInTarget (l_s l)) in H by lia.
  split; [lia|].
  match type of H with (let '(s', r) := decodeHeader ?sb true ?hh in _) = _ =>
    destruct (decodeHeader sb true hh) as [s' r] eqn:ED end.
  destruct (r <? 0) eqn:Er; [discriminate H|]. apply Z.ltb_ge in Er.
  inversion H; subst. exists r. ss. auto.
Qed.

Theorem oneshot_sound_short : forall s0 data cap o,
  wf s0 -> d_stage s0 = GetFrameHeader -> d_remaining s0 = 0 -> d_skip s0 = false ->
  bytes_ok data = true -> 0 <= cap -> zlen data < FD_maxFHSize ->
  le_val (ztake 4 data) = FD_MAGICNUMBER ->
  let r := snd (decompress bdec s0 data cap o) in
  r_ret r = 0 -> zlen (r_out r) < 18446744073709551616 ->
  exists rest, frame_decode bdec (o_skip o) (d_hist s0) data = Some (r_out r, rest) /\
               r_consumed r = zlen data - zlen rest.
Proof.
  intros s0 data cap o Hwf Hst Hrem Hsk Hb Hc H19 Hmagic. unfold decompress.
  set (s1 := set_skip s0 (d_skip s0 || o_skip o)).
  assert (W1 : wf s1) by (apply wf_set_skip; exact Hwf).
  set (l0 := mkL s1 data 0 [] cap).
  destruct (run bdec (call_fuel data) o l0) as [l' f] eqn:ER.
  pose proof (run_post bdec o _ l0 l' f W1 Hc ER) as (A0 & _ & NF & R0).
  pose proof (zlen_nonneg data) as Hl.
  destruct f as [h|v|]; ss.
  2:{ intros Hv. subst v. destruct R0 as [R0|(_ & _ & _ & R0)]; lia. }
  2:{ intros _ _. exfalso. apply NF; [|reflexivity]. unfold mu, call_fuel, l0; ss. pose proof (rank_range (d_stage s1)). lia. }
  intros Hh Hlen. subst h.
  assert (Hres : forall rest, frame_decode bdec (o_skip o) (d_hist s0) data = Some (l_out l', rest) -> rest = l_src l' ->
                 exists rest0, frame_decode bdec (o_skip o) (d_hist s0) data = Some (l_out l', rest0) /\
                               l_used l' = zlen data - zlen rest0).
  { intros rest HF ->. exists (l_src l'). split; [exact HF|]. unfold acct, l0 in A0; ss. lia. }
  unfold FD_maxFHSize in H19.
  assert (Hfuel : exists fuel, call_fuel data = S (S fuel)).
  { unfold call_fuel. exists (Z.to_nat (4 * zlen data + 14)). lia. }
  destruct Hfuel as [fuel Hfuel]. rewrite Hfuel in ER. cbn [run] in ER.
  pose proof (iter_post bdec o l0 W1 Hc) as P0.
  unfold iter in ER, P0. replace (d_stage (l_s l0)) with GetFrameHeader in * by (unfold l0, s1; ss; auto).
  unfold do_getFrameHeader in ER, P0.
  replace (FD_maxFHSize <=? zlen (l_src l0)) with false in * by (symmetry; apply Z.leb_gt; unfold l0, FD_maxFHSize; ss; lia).
  destruct (zlen (l_src l0) =? 0) eqn:E0; [discriminate ER|].
  set (sA := set_stage (set_tmpInTarget (set_tmpInSize (l_s l0) 0) FD_minFHSize) StoreFrameHeader) in *.
  destruct (do_storeFrameHeader (with_s l0 sA)) as [l1 oc] eqn:ES.
  destruct oc as [|h|v]; [| |discriminate ER].
  2:{ (* a stop in the header stage has a positive hint *)
      exfalso. inversion ER; subst. clear ER. revert ES. unfold do_storeFrameHeader.
      match goal with |- context [hdr_write ?s ?p ?n] => set (sw := hdr_write s p n) end.
      destruct (d_tmpInSize sw <? d_tmpInTarget sw) eqn:E.
      - intro H. apply pair_stop_inj in H. apply Z.ltb_lt in E. unfold FD_BHSize in H. lia.
      - destruct (decodeHeader _ _ _) as [s' r]. destruct (r <? 0); discriminate. }
  cbn [fst snd] in P0. destruct P0 as [A1 [W2 _]].
  (* the first seven bytes *)
  assert (HoA : d_oob sA = false) by (unfold sA, l0; ss; apply W1).
  assert (HsA : d_tmpInSize sA = 0 /\ d_tmpInTarget sA = 7) by (unfold sA; ss; auto).
  destruct (storeFrameHeader_continue (with_s l0 sA) l1) as (Hn7 & r & ED & Hr & Hs1 & Ho1 & Hc1);
    [ss; exact HoA | ss; lia | ss; unfold FD_header_array_size; lia | exact ES |].
  unfold sfh_state, sfh_hdr, sfh_n in ED, Hn7, Hs1. unfold sA in ED, Hn7, Hs1; ss. unfold l0 in ED, Hn7, Hs1, Ho1, Hc1; ss.
  replace (FD_minFHSize - 0) with 7 in * by reflexivity. rewrite wr0 in ED.
  assert (Hz7 : zlen (ztake 7 data) = 7) by (rewrite zlen_ztake; lia).
  change FD_minFHSize with 7 in ED. rewrite (ztake_all 7 (ztake 7 data)) in ED by lia.
  destruct data as [|m0 [|m1 [|m2 [|m3 rest]]]]; try (unfold zlen in Hn7; simpl in Hn7; lia).
  assert (Hm : le_val [m0; m1; m2; m3] = FD_MAGICNUMBER) by exact Hmagic.
  assert (Hbr : bytes_ok rest = true).
  { unfold bytes_ok in *. simpl in Hb. repeat (apply andb_prop in Hb; destruct Hb as [_ Hb]). exact Hb. }
  set (data := m0 :: m1 :: m2 :: m3 :: rest) in *.
  unfold data in ED, Hz7. rewrite (ztake_cons4 7) in ED, Hz7 by lia. replace (7 - 4) with 3 in * by reflexivity.
  destruct (bytes_ok_split 3 rest Hbr) as [Hb3 Hb3'].
  match type of ED with decodeHeader ?sb true _ = _ => set (sB := sb) in * end.
  assert (HsB : d_skip sB = o_skip o /\ d_hist sB = d_hist s0 /\ d_remaining sB = 0 /\ d_oob sB = false /\ d_stage sB = StoreFrameHeader).
  { unfold sB, s1; ss. rewrite Hsk. auto. }
  destruct HsB as (Q1 & Q2 & Q3 & Q4 & Q5).
  assert (H7 : FD_minFHSize <= zlen (m0 :: m1 :: m2 :: m3 :: ztake 3 rest)) by (rewrite Hz7; unfold FD_minFHSize; lia).
  pose proof (decodeHeader_cases _ _ _ _ _ ED) as (D1 & D2 & D3 & D).
  assert (Hrd : forall x, rd32 (m0 :: m1 :: m2 :: m3 :: x) = FD_MAGICNUMBER).
  { intro x. change (rd32 (m0 :: m1 :: m2 :: m3 :: x)) with (u32 (le_val [m0; m1; m2; m3])). rewrite Hm. reflexivity. }
  destruct D as [D|[D|[D|[D|D]]]].
  - exfalso. lia.
  - destruct D as (_ & _ & _ & _ & D). rewrite Hrd in D. exfalso. exact (magic_not_skippable D).
  - destruct D as (D & _). discriminate D.
  - (* the header is longer than 7 bytes: a second round of staging *)
    destruct D as (Dst & Dsz & Dt & _ & _ & Dh & _ & FLG & bm & bc & cs & cc & di & N4 & EF & FS).
    specialize (Dh eq_refl). rewrite Hz7 in Dsz, Dt.
    set (T := d_tmpInTarget (l_s l1)) in *.
    cbn [run] in ER.
    pose proof (iter_post bdec o l1 W2 ltac:(lia)) as P1.
    unfold iter in ER, P1. rewrite Dst in ER, P1.
    destruct (do_storeFrameHeader l1) as [l2 oc] eqn:ES2.
    destruct oc as [|h|v]; [| |discriminate ER].
    2:{ exfalso. inversion ER; subst. clear ER. revert ES2. unfold do_storeFrameHeader.
        match goal with |- context [hdr_write ?s ?p ?n] => set (sw := hdr_write s p n) end.
        destruct (d_tmpInSize sw <? d_tmpInTarget sw) eqn:E.
        - intro H. apply pair_stop_inj in H. apply Z.ltb_lt in E. unfold FD_BHSize in H. lia.
        - match goal with |- context [decodeHeader ?a ?b ?c] => destruct (decodeHeader a b c) as [s' r'] end.
          destruct (r' <? 0); discriminate. }
    cbn [fst snd] in P1. destruct P1 as [A2 [W3 _]].
    destruct (storeFrameHeader_continue l1 l2) as (Hn2 & r2 & ED2 & Hr2 & Hs2 & Ho2 & Hc2); auto; try lia; try congruence.
    unfold sfh_state, sfh_hdr, sfh_n in ED2, Hn2, Hs2.
    fold T in ED2, Hn2, Hs2. rewrite Dsz in ED2, Hn2, Hs2. rewrite Dh in ED2. rewrite Hs1 in ED2, Hn2, Hs2.
    unfold sB in ED2. ss.
    assert (HT : zlen data - 7 >= T - 7) by (rewrite zlen_zdrop in Hn2 by lia; lia).
    rewrite wr_app in ED2 by exact Hz7.
    change (m0 :: m1 :: m2 :: m3 :: ztake 3 rest) with (ztake 7 data) in ED2.
    rewrite (ztake_split 7 (T - 7) data) in ED2 by lia. replace (7 + (T - 7)) with T in ED2 by lia.
    assert (HzT : zlen (ztake T data) = T) by (rewrite zlen_ztake; lia).
    rewrite (ztake_all T (ztake T data)) in ED2 by lia.
    unfold data in ED2, HzT. rewrite (ztake_cons4 T) in ED2, HzT by lia. fold data in ED2.
    match type of ED2 with decodeHeader ?sc true _ = _ => set (sC := sc) in * end.
    assert (HsC : d_skip sC = o_skip o /\ d_hist sC = d_hist s0 /\ d_remaining sC = 0 /\ d_stage sC = StoreFrameHeader).
    { destruct (decodeHeader_keeps _ _ _ _ _ ED) as (X1 & X2 & X3). unfold sC; ss.
      rewrite X1, X2, (X3 Dst), Q1, Q2, Q3. auto. }
    destruct HsC as (V1 & V2 & V3 & V5).
    destruct (bytes_ok_split (T - 4) rest Hbr) as [HbT HbT'].
    assert (H7T : FD_minFHSize <= zlen (m0 :: m1 :: m2 :: m3 :: ztake (T - 4) rest)) by (rewrite HzT; unfold FD_minFHSize; lia).
    pose proof (decodeHeader_cases _ _ _ _ _ ED2) as (_ & _ & _ & D').
    assert (N4' : nth_error (m0 :: m1 :: m2 :: m3 :: ztake (T - 4) rest) 4 = Some FLG).
    { rewrite <- (ztake_cons4 T) by lia. rewrite <- (ztake_cons4 7) in N4 by lia.
      rewrite nth_error_ztake in * by lia. exact N4. }
    destruct D' as [D'|[D'|[D'|[D'|D']]]].
    + exfalso. lia.
    + destruct D' as (_ & _ & _ & _ & D'). rewrite Hrd in D'. exfalso. exact (magic_not_skippable D').
    + destruct D' as (D' & _). discriminate D'.
    + exfalso. destruct D' as (_ & _ & Dt' & _ & _ & _ & _ & FLG' & bm' & bc' & cs' & cc' & di' & N4'' & EF' & FS').
      rewrite N4' in N4''. inversion N4''; subst FLG'. rewrite EF in EF'. inversion EF'; subst. rewrite HzT in Dt'. lia.
    + destruct D' as (Dr' & Dst' & _).
      destruct (decode_accept sC true m0 m1 m2 m3 (ztake (T - 4) rest) (l_s l2) r2 HbT Hm H7T ED2 Hr2 Dst')
        as (d & tl & PD & Hacc & Hr2' & HB).
      (* the header size returned is the target: nothing of the staged bytes is left over *)
      assert (Htl : tl = []).
      { apply zlen0_nil. pose proof (zlen_nonneg tl).
        destruct (decodeHeader_ret_size _ _ _ _ _ ED2 Dst') as [X|X]; [|rewrite V5 in X; discriminate X].
        assert (HS : headerSize false (m0 :: m1 :: m2 :: m3 :: ztake (T - 4) rest) = fh_size cs di).
        { apply (headerSize_fh _ FLG bm bc cs cc di); auto. rewrite <- X. lia. }
        rewrite HzT in Hr2'. lia. }
      subst tl.
      assert (PDfull : parse_desc rest = Some (d, zdrop (T - 4) rest)).
      { rewrite <- (ztake_zdrop_app (T - 4) rest) at 1. apply (parse_desc_ext _ d [] _ PD). }
      apply (Hres (l_src l')); [|reflexivity].
      apply (after_header s0 o data rest m0 m1 m2 m3 d (zdrop (T - 4) rest) sC fuel l2 l'); auto.
      * rewrite Hs2. rewrite zdrop_zdrop by lia. replace (7 + (T - 7)) with T by lia. unfold data. apply zdrop_cons4. lia.
      * rewrite Ho2, Ho1. reflexivity.
      * lia.
  - (* the header is 7 bytes long *)
    destruct D as (Dr & Dst & _).
    destruct (decode_accept sB true m0 m1 m2 m3 (ztake 3 rest) (l_s l1) r Hb3 Hm H7 ED Hr Dst)
      as (d & tl & PD & Hacc & Hr' & HB).
    assert (Htl : tl = []).
    { apply zlen0_nil. pose proof (zlen_nonneg tl). rewrite Hz7 in Hr', Dr. unfold FD_minFHSize in Dr. lia. }
    subst tl.
    assert (PDfull : parse_desc rest = Some (d, zdrop 3 rest)).
    { rewrite <- (ztake_zdrop_app 3 rest) at 1. apply (parse_desc_ext _ d [] _ PD). }
    apply (Hres (l_src l')); [|reflexivity].
    assert (ER' : run bdec (S fuel) o l1 = (l', FStop 0)) by exact ER.
    apply (after_header s0 o data rest m0 m1 m2 m3 d (zdrop 3 rest) sB (S fuel) l1 l'); auto; try lia.
Qed.

(* both cases together *)
Theorem oneshot_sound : forall s0 data cap o,
  wf s0 -> d_stage s0 = GetFrameHeader -> d_remaining s0 = 0 -> d_skip s0 = false ->
  bytes_ok data = true -> 0 <= cap -> le_val (ztake 4 data) = FD_MAGICNUMBER ->
  let r := snd (decompress bdec s0 data cap o) in
  r_ret r = 0 -> zlen (r_out r) < 18446744073709551616 ->
  exists rest, frame_decode bdec (o_skip o) (d_hist s0) data = Some (r_out r, rest) /\
               r_consumed r = zlen data - zlen rest.
Proof.
  intros s0 data cap o H1 H2 H3 H4 H5 H6 H7.
  destruct (Z_lt_ge_dec (zlen data) FD_maxFHSize) as [L|L].
  - apply oneshot_sound_short; auto.
  - apply oneshot_sound_long; auto. lia.
Qed.
End OneShot.

(* LZ4F_decompress_usingDict on a context at the start of a frame *)
Theorem oneshot_sound_usingDict bdec : forall s0 data cap dict o,
  wf s0 -> d_stage s0 = GetFrameHeader -> d_remaining s0 = 0 -> d_skip s0 = false ->
  bytes_ok data = true -> 0 <= cap -> le_val (ztake 4 data) = FD_MAGICNUMBER ->
  let r := snd (decompress_usingDict bdec s0 data cap dict o) in
  r_ret r = 0 -> zlen (r_out r) < 18446744073709551616 ->
  exists rest, frame_decode bdec (o_skip o) dict data = Some (r_out r, rest) /\
               r_consumed r = zlen data - zlen rest.
Proof.
  intros s0 data cap dict o Hwf Hst Hrem Hsk Hb Hc Hm. unfold decompress_usingDict. rewrite Hst.
  replace (stage_num GetFrameHeader <=? FD_dstage_init) with true by (vm_compute; reflexivity).
  apply (oneshot_sound bdec (set_hist s0 dict) data cap o); auto using wf_set_hist.
Qed.

Theorem stops_at_frame_end bdec : forall s0 data cap o,
  wf s0 -> d_stage s0 = GetFrameHeader -> d_remaining s0 = 0 -> d_skip s0 = false ->
  bytes_ok data = true -> 0 <= cap -> le_val (ztake 4 data) = FD_MAGICNUMBER ->
  let r := snd (decompress bdec s0 data cap o) in
  r_ret r = 0 -> zlen (r_out r) < 18446744073709551616 ->
  exists content rest, frame_decode bdec (o_skip o) (d_hist s0) data = Some (content, rest) /\
                       r_consumed r = zlen data - zlen rest.
Proof.
  intros s0 data cap o H1 H2 H3 H4 H5 H6 H7 r H8 H9.
  destruct (oneshot_sound bdec s0 data cap o H1 H2 H3 H4 H5 H6 H7 H8 H9) as (rest & E1 & E2). eauto.
Qed.
