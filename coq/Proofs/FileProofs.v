(* Proofs about the model of lib/lz4file.c (Model/File.v): content written through
   writeOpen/write/writeClose is read back by readOpen/read for every content, every
   sequence of write sizes and every sequence of read sizes - given the contracts of the
   LZ4F streaming compressor and decompressor stated below (trusted here; they are the
   subject of properties C03/C07/C08/C10). *)
From Coq Require Import ZArith List Lia Bool Arith.
From LZ4V Require Import Gen.Consts Spec.BlockSpec Spec.XXH32 Spec.FrameSpec Model.FrameCSizes Model.File.
Import ListNotations.

(* ------------------------------------------------------------------ contracts (the trusted base) *)
(* F is exactly one LZ4 frame, by the format specification, and decodes to C *)
Definition frame_ok (F C : list byte) : Prop :=
  frame_decode strict_valid false [] F = Some (C, []).

Definition maxWrite_of (po : option prefs) : option nat :=
  match po with
  | Some p => bufsize_of_bsid (p_bsid p)
  | None => Some (Z.to_nat (64 * 1024))
  end.

(* a declared content size must be the real one (otherwise LZ4F_compressEnd reports frameSize_wrong) *)
Definition csize_ok (po : option prefs) (content : list byte) : Prop :=
  match po with
  | Some p => p_csize p = 0%Z \/ p_csize p = Z.of_nat (length content)
  | None => True
  end.

Section Contracts.
  Variable cst : Type.
  Variable cst0 : cst.
  Variable cBegin : cst -> option prefs -> Z -> fres (list byte) * cst.
  Variable cUpdate : cst -> list byte -> Z -> fres (list byte) * cst.
  Variable cEnd : cst -> Z -> fres (list byte) * cst.
  Variable dst : Type.
  Variable dst0 : dst.
  Variable dGetFrameInfo : dst -> list byte -> fres (Z * nat) * dst.
  Variable dDecompress : dst -> list byte -> nat -> dres * dst.

  (* successive LZ4F_compressUpdate calls, all with the same capacity *)
  Fixpoint run_updates (s : cst) (chunks : list (list byte)) (cap : Z) : option (list (list byte)) * cst :=
    match chunks with
    | [] => (Some [], s)
    | ch :: r =>
      match cUpdate s ch cap with
      | (FOk o, s1) =>
        let '(os, s2) := run_updates s1 r cap in
        (match os with Some l => Some (o :: l) | None => None end, s2)
      | (_, s1) => (None, s1)
      end
    end.

  (* Compressor: compressBegin with LZ4F_HEADER_SIZE_MAX bytes, then any sequence of
     compressUpdate calls of at most maxWriteSize bytes each with a destination of
     LZ4F_compressBound(maxWriteSize, prefs) bytes, then compressEnd with the same
     destination, all succeed (C10) and their outputs concatenate to one frame that
     decodes to the concatenated input (C03/C07). *)
  Definition comp_contract : Prop :=
    forall po mw chunks,
      maxWrite_of po = Some mw ->
      Forall (fun ch => 1 <= length ch <= mw) chunks ->
      csize_ok po (concat chunks) ->
      let cap := compressBound (Z.of_nat mw) po in
      exists hdr s1 outs s2 tail s3,
        cBegin cst0 po LZ4F_HEADER_SIZE_MAX = (FOk hdr, s1) /\
        run_updates s1 chunks cap = (Some outs, s2) /\
        cEnd s2 cap = (FOk tail, s3) /\
        frame_ok (hdr ++ concat outs ++ tail) (concat chunks).

  (* [s] agrees with the rest of the frame as far as that goes (s may continue beyond it) *)
  Definition agree (s rem : list byte) : Prop :=
    firstn (Nat.min (length s) (length rem)) s = firstn (Nat.min (length s) (length rem)) rem.

  (* Decompressor, for a file F holding exactly one frame with content C.  [dpos F d i j]:
     context d has consumed the first i bytes of F and delivered the first j bytes of C.
     - LZ4F_getFrameInfo on the first k >= 11 bytes consumes exactly the frame header;
     - LZ4F_decompress fed more bytes of the frame (whatever the chunking) with room for
       at least one byte never fails, never consumes beyond the frame, delivers the next
       bytes of C, makes progress, and does not consume the last byte of the frame before
       all of C is delivered (C03/C08). *)
  Definition dec_contract (dpos : list byte -> dst -> nat -> nat -> Prop) : Prop :=
    forall F C, frame_ok F C ->
      (OPEN_MIN <= length F) /\
      (forall k, OPEN_MIN <= k ->
         exists bsid h d1,
           dGetFrameInfo dst0 (firstn k F) = (FOk (bsid, h), d1) /\
           h <= Nat.min k (length F) /\ h < length F /\
           bufsize_of_bsid bsid <> None /\ dpos F d1 h 0) /\
      (forall d i j, dpos F d i j -> i <= length F /\ j <= length C /\ (i = length F -> j = length C)) /\
      (forall d i j s cap,
         dpos F d i j -> i < length F -> s <> [] -> 1 <= cap -> agree s (skipn i F) ->
         exists hint c out d',
           dDecompress d s cap = (DOk hint c out, d') /\
           c <= Nat.min (length s) (length F - i) /\ length out <= cap /\
           out = firstn (length out) (skipn j C) /\ 1 <= c + length out /\
           dpos F d' (i + c) (j + length out)).

  (* ================================================================== write side *)
  Notation write_loop := (write_loop cst cUpdate).
  Notation fwrite_lz4 := (fwrite_lz4 cst cUpdate).
  Notation write_all := (write_all cst cUpdate).

  (* the chunks LZ4F_write cuts a buffer into *)
  Fixpoint chunks_of (fuel : nat) (mw : nat) (p : list byte) : list (list byte) :=
    match p with
    | [] => []
    | _ =>
      match fuel with
      | O => []
      | S f =>
        let chunk := if Nat.ltb mw (length p) then mw else length p in
        firstn chunk p :: chunks_of f mw (skipn chunk p)
      end
    end.

  Lemma chunks_of_spec : forall fuel mw p, 1 <= mw -> length p <= fuel ->
    concat (chunks_of fuel mw p) = p /\
    Forall (fun ch => 1 <= length ch <= mw) (chunks_of fuel mw p).
  Proof.
    induction fuel as [|f IH]; intros mw p Hmw Hlen.
    - destruct p; [split; [reflexivity|constructor]|cbn in Hlen; lia].
    - destruct p as [|b p']; [split; [reflexivity|constructor]|].
      cbn [chunks_of]. set (p := b :: p') in *.
      set (chunk := if Nat.ltb mw (length p) then mw else length p).
      assert (Hc : 1 <= chunk <= mw /\ chunk <= length p).
      { unfold chunk. destruct (Nat.ltb mw (length p)) eqn:E.
        - apply Nat.ltb_lt in E. lia.
        - apply Nat.ltb_ge in E. unfold p in *. cbn [length] in *. lia. }
      destruct (IH mw (skipn chunk p) Hmw) as [Hcat Hall].
      { rewrite skipn_length. lia. }
      split.
      + cbn [concat]. rewrite Hcat. apply firstn_skipn.
      + constructor; [rewrite firstn_length; lia|exact Hall].
  Qed.

  Lemma write_loop_run : forall fuel w file p outs s2,
    1 <= w_maxWrite cst w -> length p <= fuel ->
    run_updates (w_c cst w) (chunks_of fuel (w_maxWrite cst w) p) (w_dstMax cst w) = (Some outs, s2) ->
    write_loop fuel w file p =
    (FOk tt, mkW cst s2 (w_maxWrite cst w) (w_dstMax cst w) (w_err cst w), file ++ concat outs).
  Proof.
    induction fuel as [|f IH]; intros w file p outs s2 Hmw Hlen Hrun.
    - destruct p; [|cbn in Hlen; lia]. cbn in Hrun. inversion Hrun; subst.
      cbn. rewrite app_nil_r. destruct w; reflexivity.
    - destruct p as [|b p'].
      { cbn in Hrun. inversion Hrun; subst. cbn. rewrite app_nil_r. destruct w; reflexivity. }
      cbn [chunks_of] in Hrun. cbn [write_loop]. set (p := b :: p') in *.
      set (chunk := if Nat.ltb (w_maxWrite cst w) (length p) then w_maxWrite cst w else length p) in *.
      assert (Hc : 1 <= chunk).
      { unfold chunk. destruct (Nat.ltb (w_maxWrite cst w) (length p)); [lia|unfold p; cbn [length]; lia]. }
      cbn [run_updates] in Hrun.
      destruct (cUpdate (w_c cst w) (firstn chunk p) (w_dstMax cst w)) as [[o| e|] s1] eqn:Eu; try discriminate.
      destruct (run_updates s1 (chunks_of f (w_maxWrite cst w) (skipn chunk p)) (w_dstMax cst w)) as [[os|] s2'] eqn:Er;
        try discriminate.
      inversion Hrun; subst.
      rewrite (IH (mkW cst s1 (w_maxWrite cst w) (w_dstMax cst w) (w_err cst w)) (file ++ o) (skipn chunk p) os s2).
      + cbn [w_maxWrite w_dstMax w_err concat]. rewrite app_assoc. reflexivity.
      + exact Hmw.
      + rewrite skipn_length. unfold p in *. cbn [length] in *. lia.
      + exact Er.
  Qed.

  Lemma run_updates_app : forall a b s cap outs s2,
    run_updates s (a ++ b) cap = (Some outs, s2) ->
    exists oa ob s1, run_updates s a cap = (Some oa, s1) /\ run_updates s1 b cap = (Some ob, s2) /\ outs = oa ++ ob.
  Proof.
    induction a as [|x a IH]; intros b s cap outs s2 H.
    - exists [], outs, s. cbn in *. auto.
    - cbn [app run_updates] in H. cbn [run_updates].
      destruct (cUpdate s x cap) as [[o|e|] s1]; try discriminate.
      destruct (run_updates s1 (a ++ b) cap) as [[os|] s2'] eqn:E; try discriminate.
      inversion H; subst.
      destruct (IH b s1 cap os s2 E) as (oa & ob & s1' & Ha & Hb & Ho).
      rewrite Ha. exists (o :: oa), ob, s1'. subst os. auto.
  Qed.

  Definition all_chunks (mw : nat) (bufs : list (list byte)) : list (list byte) :=
    flat_map (fun b => chunks_of (length b) mw b) bufs.

  Lemma all_chunks_spec : forall mw bufs, 1 <= mw ->
    concat (all_chunks mw bufs) = concat bufs /\
    Forall (fun ch => 1 <= length ch <= mw) (all_chunks mw bufs).
  Proof.
    induction bufs as [|b r IH]; intros Hmw; [split; [reflexivity|constructor]|].
    destruct (IH Hmw) as [Hc Hf]. destruct (chunks_of_spec (length b) mw b Hmw (le_n _)) as [Hc1 Hf1].
    unfold all_chunks in *. cbn [flat_map concat]. rewrite concat_app, Hc, Hc1. split; [reflexivity|].
    apply Forall_app. auto.
  Qed.

  Lemma write_all_run : forall bufs w file outs s2,
    1 <= w_maxWrite cst w ->
    run_updates (w_c cst w) (all_chunks (w_maxWrite cst w) bufs) (w_dstMax cst w) = (Some outs, s2) ->
    write_all w file bufs =
    (map (fun b => FOk (length b)) bufs,
     mkW cst s2 (w_maxWrite cst w) (w_dstMax cst w) (w_err cst w), file ++ concat outs).
  Proof.
    induction bufs as [|b r IH]; intros w file outs s2 Hmw Hrun.
    - cbn in Hrun. inversion Hrun; subst. cbn. rewrite app_nil_r. destruct w; reflexivity.
    - unfold all_chunks in Hrun. cbn [flat_map] in Hrun.
      destruct (run_updates_app _ _ _ _ _ _ Hrun) as (oa & ob & s1 & Ha & Hb & Ho).
      cbn [write_all]. unfold fwrite_lz4, File.fwrite_lz4.
      rewrite (write_loop_run (length b) w file b oa s1 Hmw (le_n _) Ha).
      rewrite (IH (mkW cst s1 (w_maxWrite cst w) (w_dstMax cst w) (w_err cst w)) (file ++ concat oa) ob s2).
      + cbn [map w_maxWrite w_dstMax w_err]. subst outs. rewrite concat_app, app_assoc. reflexivity.
      + exact Hmw.
      + exact Hb.
  Qed.

  Lemma to_nat_pos : forall z, (1 <= z)%Z -> 1 <= Z.to_nat z.
  Proof. intros z H. change 1 with (Z.to_nat 1). apply Z2Nat.inj_le; lia. Qed.

  Lemma some_to_nat_pos : forall z m, Some (Z.to_nat z) = Some m -> (1 <= z)%Z -> 1 <= m.
  Proof. intros z m H Hz. assert (m = Z.to_nat z) by congruence. subst m. apply to_nat_pos. exact Hz. Qed.

  Lemma bufsize_pos : forall id m, bufsize_of_bsid id = Some m -> 1 <= m.
  Proof.
    intros id m. unfold bufsize_of_bsid.
    destruct ((id =? C10_bsid_default)%Z || (id =? C10_bsid_64KB)%Z); [intros H; apply some_to_nat_pos in H; [exact H|lia]|].
    destruct (id =? C10_bsid_256KB)%Z; [intros H; apply some_to_nat_pos in H; [exact H|lia]|].
    destruct (id =? C10_bsid_1MB)%Z; [intros H; apply some_to_nat_pos in H; [exact H|lia]|].
    destruct (id =? C10_bsid_4MB)%Z; [intros H; apply some_to_nat_pos in H; [exact H|lia]|]. discriminate.
  Qed.

  Lemma maxWrite_pos : forall po mw, maxWrite_of po = Some mw -> 1 <= mw.
  Proof.
    intros [p|] mw H; cbn [maxWrite_of] in H.
    - eapply bufsize_pos; eauto.
    - apply some_to_nat_pos in H; [exact H|lia].
  Qed.

  (* the whole write session *)
  Lemma write_session_ok : comp_contract ->
    forall po mw bufs, maxWrite_of po = Some mw -> csize_ok po (concat bufs) ->
    exists file,
      write_session cst cst0 cBegin cUpdate cEnd po bufs = (FOk (map (fun b => FOk (length b)) bufs), file) /\
      frame_ok file (concat bufs).
  Proof.
    intros Hc po mw bufs Hmw Hcs.
    pose proof (maxWrite_pos po mw Hmw) as Hpos.
    destruct (all_chunks_spec mw bufs Hpos) as [Hcat Hall].
    destruct (Hc po mw (all_chunks mw bufs) Hmw Hall) as (hdr & s1 & outs & s2 & tail & s3 & Hb & Hu & He & Hf).
    { rewrite Hcat. exact Hcs. }
    exists (hdr ++ concat outs ++ tail). rewrite Hcat in Hf. split; [|exact Hf].
    unfold write_session, writeOpen. fold (maxWrite_of po). rewrite Hmw, Hb.
    rewrite (write_all_run bufs _ ([] ++ hdr) outs s2); cbn [w_maxWrite w_dstMax w_err w_c]; auto.
    unfold writeClose. cbn [w_err w_c w_dstMax]. rewrite He. rewrite app_nil_l, app_assoc. reflexivity.
  Qed.

  (* ================================================================== read side *)
  Lemma skipn_skipn' : forall (A : Type) (b a : nat) (l : list A), skipn a (skipn b l) = skipn (b + a) l.
  Proof.
    induction b as [|b IH]; intros a l; [reflexivity|].
    destruct l; [rewrite !skipn_nil; reflexivity|]. cbn [skipn plus]. apply IH.
  Qed.

  Lemma firstn_add : forall (A : Type) (a b : nat) (l : list A),
    firstn (a + b) l = firstn a l ++ firstn b (skipn a l).
  Proof.
    induction a as [|a IH]; intros b l; [reflexivity|].
    destruct l; [rewrite !firstn_nil; reflexivity|]. cbn [plus firstn skipn app]. rewrite IH. reflexivity.
  Qed.

  Lemma skipn_firstn_rest : forall (A : Type) (h n : nat) (l : list A), h <= Nat.min n (length l) ->
    skipn h (firstn n l) ++ skipn n l = skipn h l.
  Proof.
    intros A h n l H. rewrite <- (firstn_skipn n l) at 3. rewrite skipn_app.
    rewrite firstn_length. replace (h - Nat.min n (length l)) with 0 by lia. reflexivity.
  Qed.

  Section ReadSide.
    Variable dpos : list byte -> dst -> nat -> nat -> Prop.
    Hypothesis Hdec : dec_contract dpos.
    Variable F C : list byte.
    Hypothesis HF : frame_ok F C.

    Notation read_loop := (read_loop dst dDecompress).
    Notation fread_lz4 := (fread_lz4 dst dDecompress).
    Notation read_all := (read_all dst dDecompress).

    Definition RInv (r : rfile dst) (i j : nat) : Prop :=
      dpos F (r_d dst r) i j /\ r_buf dst r ++ r_rest dst r = skipn i F /\ 1 <= r_max dst r.

    Lemma dpos_bounds : forall d i j, dpos F d i j -> i <= length F /\ j <= length C /\ (i = length F -> j = length C).
    Proof. destruct (Hdec F C HF) as (_ & _ & H & _). exact H. Qed.

    Lemma refill_spec : forall r i j, RInv r i j ->
      (refill dst r = None /\ i = length F) \/
      (exists r1, refill dst r = Some r1 /\ RInv r1 i j /\ r_buf dst r1 <> [] /\ r_max dst r1 = r_max dst r /\ i < length F).
    Proof.
      intros r i j (Hd & Hb & Hm). destruct (dpos_bounds _ _ _ Hd) as (Hi & _).
      unfold refill. destruct (r_buf dst r) as [|x b] eqn:Eb.
      - cbn [app] in Hb. destruct (firstn (r_max dst r) (r_rest dst r)) as [|y g] eqn:Eg.
        + left. split; [reflexivity|].
          assert (Hl : length (skipn i F) = 0).
          { rewrite <- Hb. destruct (r_rest dst r) as [|z t]; [reflexivity|].
            destruct (r_max dst r); [lia|discriminate]. }
          rewrite skipn_length in Hl. lia.
        + right. eexists. split; [reflexivity|]. unfold RInv. cbn [r_d r_buf r_rest r_max].
          rewrite <- Eg. rewrite firstn_skipn. repeat split; auto.
          * rewrite Eg. discriminate.
          * assert (Hl : 1 <= length (skipn i F)).
            { rewrite <- Hb. destruct (r_rest dst r); [rewrite firstn_nil in Eg; discriminate|cbn; lia]. }
            rewrite skipn_length in Hl. lia.
      - right. exists r. rewrite Eb. repeat split; auto; try discriminate.
        + unfold RInv. rewrite Eb. auto.
        + assert (Hl : 1 <= length (skipn i F)) by (rewrite <- Hb; cbn; lia).
          rewrite skipn_length in Hl. lia.
    Qed.

    Lemma read_loop_spec : forall fuel r size acc i j0,
      RInv r i (j0 + length acc) ->
      acc = firstn (length acc) (skipn j0 C) -> length acc <= size ->
      (length F - i) + (size - length acc) <= fuel ->
      exists r' i',
        read_loop fuel r size acc = (FOk (firstn size (skipn j0 C)), r') /\
        RInv r' i' (j0 + length (firstn size (skipn j0 C))) /\ r_max dst r' = r_max dst r.
    Proof.
      induction fuel as [|f IH]; intros r size acc i j0 Hinv Hacc Hle Hfuel.
      - cbn [read_loop]. destruct (Nat.ltb (length acc) size) eqn:E.
        + apply Nat.ltb_lt in E. lia.
        + apply Nat.ltb_ge in E. assert (length acc = size) by lia. subst size.
          exists r, i. rewrite <- Hacc. auto.
      - cbn [read_loop]. destruct (Nat.ltb (length acc) size) eqn:E.
        2:{ apply Nat.ltb_ge in E. assert (length acc = size) by lia. subst size.
            exists r, i. rewrite <- Hacc. auto. }
        apply Nat.ltb_lt in E.
        destruct (refill_spec r i _ Hinv) as [[Hr Hi]|(r1 & Hr & Hinv1 & Hne & Hmax & Hi)]; rewrite Hr.
        + (* end of file: everything has been delivered *)
          pose proof Hinv as (Hd & _). destruct (dpos_bounds _ _ _ Hd) as (_ & _ & Hall). specialize (Hall Hi).
          assert (Hl : length (skipn j0 C) = length acc) by (rewrite skipn_length; lia).
          assert (Heq : firstn size (skipn j0 C) = acc).
          { rewrite (firstn_all2 (n := size)) by lia. rewrite Hacc.
            rewrite (firstn_all2 (n := length acc)) by lia. reflexivity. }
          rewrite Heq. exists r, i. auto.
        + destruct Hinv1 as (Hd1 & Hb1 & Hm1).
          destruct (Hdec F C HF) as (_ & _ & _ & Hstep).
          destruct (Hstep (r_d dst r1) i (j0 + length acc) (r_buf dst r1) (size - length acc) Hd1 Hi Hne ltac:(lia))
            as (hint & c & out & d' & Hdd & Hc & Ho & Hout & Hprog & Hd').
          { unfold agree. assert (length (r_buf dst r1) <= length (skipn i F)) by (rewrite <- Hb1, app_length; lia).
            rewrite Nat.min_l by lia. rewrite <- Hb1. rewrite firstn_app, Nat.sub_diag, firstn_O, app_nil_r. reflexivity. }
          rewrite Hdd.
          destruct (IH (mkR dst d' (r_rest dst r1) (skipn c (r_buf dst r1)) (r_max dst r1)) size (acc ++ out) (i + c) j0)
            as (r' & i' & Hl & Hinv' & Hmax').
          * unfold RInv. cbn [r_d r_buf r_rest r_max]. rewrite app_length. rewrite Nat.add_assoc.
            split; [exact Hd'|]. split; [|exact Hm1].
            rewrite <- skipn_skipn'. rewrite <- Hb1. rewrite skipn_app.
            replace (c - length (r_buf dst r1)) with 0 by lia. reflexivity.
          * rewrite app_length. rewrite firstn_add. rewrite <- Hacc.
            rewrite skipn_skipn'. rewrite <- Hout. reflexivity.
          * rewrite app_length. lia.
          * rewrite app_length. lia.
          * exists r', i'. split; [exact Hl|]. split; [exact Hinv'|]. cbn [r_max] in Hmax'. congruence.
    Qed.

    Lemma fread_spec : forall r i j size, RInv r i j ->
      exists r' i',
        fread_lz4 r size = (FOk (firstn size (skipn j C)), r') /\
        RInv r' i' (j + length (firstn size (skipn j C))).
    Proof.
      intros r i j size Hinv. unfold fread_lz4, File.fread_lz4.
      destruct (read_loop_spec (length (r_rest dst r) + length (r_buf dst r) + size + 1) r size [] i j)
        as (r' & i' & H1 & H2 & _); cbn [length]; auto; try lia.
      - rewrite Nat.add_0_r. exact Hinv.
      - destruct Hinv as (_ & Hb & _).
        assert (length (skipn i F) = length (r_buf dst r) + length (r_rest dst r)) by (rewrite <- Hb, app_length; reflexivity).
        rewrite skipn_length in H. lia.
      - eauto.
    Qed.

    (* what a sequence of reads of the given sizes must return *)
    Fixpoint chop (content : list byte) (sizes : list nat) : list (fres (list byte)) :=
      match sizes with
      | [] => []
      | s :: r => FOk (firstn s content) :: chop (skipn s content) r
      end.

    Lemma read_all_spec : forall sizes r i j, RInv r i j ->
      read_all r sizes = chop (skipn j C) sizes.
    Proof.
      induction sizes as [|s rest IH]; intros r i j Hinv; [reflexivity|].
      cbn [read_all File.read_all chop].
      destruct (fread_spec r i j s Hinv) as (r' & i' & Hf & Hinv').
      rewrite Hf. f_equal. rewrite (IH r' i' _ Hinv'). f_equal.
      rewrite firstn_length, <- skipn_skipn'.
      destruct (Nat.le_ge_cases s (length (skipn j C))) as [H|H].
      - rewrite Nat.min_l by lia. reflexivity.
      - rewrite Nat.min_r by lia. rewrite skipn_all. rewrite skipn_all2 by lia. reflexivity.
    Qed.

    Lemma readOpen_spec : forall junk,
      exists r h, readOpen dst dst0 dGetFrameInfo true junk F = FOk r /\ RInv r h 0.
    Proof.
      intros junk. destruct (Hdec F C HF) as (Hlen & Hinfo & _).
      assert (Hmm : OPEN_MIN <= HEADER_MAX).
      { unfold OPEN_MIN, HEADER_MAX. apply Z2Nat.inj_le; unfold LZ4F_HEADER_SIZE_MIN, C10_ENDMARK_SIZE, LZ4F_HEADER_SIZE_MAX; lia. }
      destruct (Hinfo HEADER_MAX Hmm) as (bsid & h & d1 & Hg & Hh & Hhl & Hbs & Hd).
      unfold readOpen. rewrite firstn_length.
      destruct (Nat.ltb (Nat.min HEADER_MAX (length F)) OPEN_MIN) eqn:E.
      { apply Nat.ltb_lt in E. lia. }
      rewrite Hg. destruct (bufsize_of_bsid bsid) as [m|] eqn:Em; [|congruence].
      eexists _, h. split; [reflexivity|]. unfold RInv. cbn [r_d r_buf r_rest r_max].
      split; [exact Hd|]. split; [apply skipn_firstn_rest; exact Hh|]. eapply bufsize_pos; eauto.
    Qed.

    Lemma read_session_ok : forall junk sizes,
      read_session dst dst0 dGetFrameInfo dDecompress true junk F sizes = FOk (chop C sizes).
    Proof.
      intros junk sizes. unfold read_session. destruct (readOpen_spec junk) as (r & h & Ho & Hinv).
      rewrite Ho. rewrite (read_all_spec sizes r h 0 Hinv). reflexivity.
    Qed.
  End ReadSide.

  (* ================================================================== round trip *)
  Theorem roundtrip : forall dpos,
    comp_contract -> dec_contract dpos ->
    forall po mw bufs sizes junk,
      maxWrite_of po = Some mw -> csize_ok po (concat bufs) ->
      exists file,
        write_session cst cst0 cBegin cUpdate cEnd po bufs = (FOk (map (fun b => FOk (length b)) bufs), file) /\
        frame_ok file (concat bufs) /\
        read_session dst dst0 dGetFrameInfo dDecompress true junk file sizes = FOk (chop (concat bufs) sizes).
  Proof.
    intros dpos Hc Hd po mw bufs sizes junk Hmw Hcs.
    destruct (write_session_ok Hc po mw bufs Hmw Hcs) as (file & Hw & Hf).
    exists file. split; [exact Hw|]. split; [exact Hf|].
    apply (read_session_ok dpos Hd file (concat bufs) Hf).
  Qed.
End Contracts.

(* ------------------------------------------------------------------ what [chop] means *)
Definition payload (x : fres (list byte)) : list byte := match x with FOk l => l | _ => [] end.

(* the reads deliver the content in order, nothing else ... *)
Lemma chop_concat : forall sizes content,
  concat (map payload (chop content sizes)) = firstn (fold_right plus 0 sizes) content.
Proof.
  induction sizes as [|s r IH]; intros content; [reflexivity|].
  cbn [chop map concat payload fold_right]. rewrite IH. symmetry. apply firstn_add.
Qed.

(* ... every read succeeds with min(size, what is left) bytes ... *)
Lemma chop_lengths : forall sizes content,
  Forall2 (fun x s => exists l, x = FOk l /\ length l <= s) (chop content sizes) sizes.
Proof.
  induction sizes as [|s r IH]; intros content; [constructor|].
  cbn [chop]. constructor; [|apply IH]. eexists. split; [reflexivity|]. apply firstn_le_length.
Qed.

(* ... and once the content is exhausted every further read returns 0 bytes *)
Lemma chop_after_end : forall sizes, Forall (fun x => x = FOk []) (chop [] sizes).
Proof.
  induction sizes as [|s r IH]; [constructor|]. cbn [chop]. rewrite firstn_nil, skipn_nil.
  constructor; [reflexivity|exact IH].
Qed.

Lemma chop_app : forall a b content, chop content (a ++ b) = chop content a ++ chop (skipn (fold_right plus 0 a) content) b.
Proof.
  induction a as [|s r IH]; intros b content; [reflexivity|].
  cbn [app chop fold_right]. rewrite IH. rewrite skipn_skipn'. reflexivity.
Qed.

Lemma chop_then_zero : forall a b content,
  length content <= fold_right plus 0 a ->
  chop content (a ++ b) = chop content a ++ chop [] b /\ Forall (fun x => x = FOk []) (chop [] b).
Proof.
  intros a b content H. rewrite chop_app. rewrite skipn_all2 by exact H.
  split; [reflexivity|apply chop_after_end].
Qed.
