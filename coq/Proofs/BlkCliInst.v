(* C04 with the block compressor INSTANTIATED (Proofs.BlkInst): the single-threaded and multi-threaded lz4 CLI
   compression pipelines with independent blocks and no dictionary, at the
   compression level of the preferences: the frame the model writes decodes to the content with no hypothesis about
   block compressors. *)
From Coq Require Import ZArith List Lia Bool Permutation.
From LZ4V Require Import Spec.BlockSpec Spec.XXH32 Spec.FrameSpec Gen.Consts.
From LZ4V Require Import Model.FrameC Proofs.FrameCTheorems.
From LZ4V Require Import Model.Sparse Model.CliOpts Model.CompressPipe Proofs.SparseProofs Proofs.CliProofs Proofs.CliCompInst.
From LZ4V Require Import Proofs.BlkInst Proofs.BlkFrameInst Proofs.BlkInstFastLinked Proofs.BlkInstHcLinked.
Import ListNotations.
Local Open Scope Z_scope.

Theorem st_roundtrip_indep_unconditional : forall sf sm sh, states_ok sf sm sh ->
  forall (skipcrc : bool) (p : lz4f_prefs) (blockSize : Z) (content : list Z),
  fp_blockMode p = 1 ->
  1 <= blockSize -> valid_prefs p content -> fp_autoFlush p <> 0 -> lenZ content < U64_MAX1 ->
  let blk := blk_indep (fp_level p) sf sm sh in
  let F := st_output c4_header (c4_frame blk) (c4_update blk) (c4_end blk) p blockSize [] content in
  stream_decode strict_valid skipcrc (S (length F)) [] [] F = Some content.
Proof.
  intros sf sm sh Hst skipcrc p blockSize content _.
  exact (st_roundtrip_discharged (blk_indep (fp_level p) sf sm sh) (indep_contract (fp_level p) sf sm sh Hst) skipcrc p blockSize [] content).
Qed.

Theorem mt_roundtrip_indep_unconditional : forall sf sm sh, states_ok sf sm sh ->
  forall (skipcrc : bool) (p : lz4f_prefs) (content : list Z),
  fp_blockMode p = 1 ->
  valid_prefs p content -> fp_autoFlush p <> 0 -> lenZ content < U64_MAX1 ->
  let blk := blk_indep (fp_level p) sf sm sh in
  let F := mt_output c4_header (c4_frame blk) (c4_update blk) p [] content in
  stream_decode strict_valid skipcrc (S (length F)) [] [] F = Some content.
Proof.
  intros sf sm sh Hst skipcrc p content _.
  exact (mt_roundtrip_discharged (blk_indep (fp_level p) sf sm sh) (indep_contract (fp_level p) sf sm sh Hst) skipcrc p [] content).
Qed.

(* level < 2, any block mode, with or without -D dictionary (a CDict): LZ4_compress_fast_continue, Proofs.BlkInstFastLinked *)
Theorem st_roundtrip_fast_stream_unconditional : forall st, (forall n, lorc_ok (st n)) ->
  forall (skipcrc : bool) (p : lz4f_prefs) (blockSize : Z) (dict content : list Z),
  fp_level p < LZ4HC_CLEVEL_MIN ->
  1 <= blockSize -> valid_prefs p content -> fp_autoFlush p <> 0 -> lenZ content < U64_MAX1 ->
  let blk := blk_fast_linked st (fp_level p) in
  let F := st_output c4_header (c4_frame blk) (c4_update blk) (c4_end blk) p blockSize dict content in
  stream_decode strict_valid skipcrc (S (length F)) dict [] F = Some content.
Proof.
  intros st Hst skipcrc p blockSize dict content _.
  exact (st_roundtrip_discharged (blk_fast_linked st (fp_level p)) (blk_fast_linked_contract st (fp_level p) Hst) skipcrc p blockSize dict content).
Qed.

(* level >= 3, linked blocks, no dictionary: LZ4_compress_HC_continue (hash chain / optimal), Proofs.BlkInstHcLinked *)
Theorem st_roundtrip_hc_stream_unconditional : forall st, (forall n, horc_ok (st n)) ->
  forall (skipcrc : bool) (p : lz4f_prefs) (blockSize : Z) (content : list Z),
  3 <= fp_level p -> fp_blockMode p = 0 ->
  1 <= blockSize -> valid_prefs p content -> fp_autoFlush p <> 0 -> lenZ content < U64_MAX1 ->
  let blk := blk_hc_linked st in
  let F := st_output c4_header (c4_frame blk) (c4_update blk) (c4_end blk) p blockSize [] content in
  stream_decode strict_valid skipcrc (S (length F)) [] [] F = Some content.
Proof.
  intros st Hst skipcrc p blockSize content _ _.
  exact (st_roundtrip_discharged (blk_hc_linked st) (blk_hc_linked_contract st Hst) skipcrc p blockSize [] content).
Qed.

Print Assumptions st_roundtrip_indep_unconditional.
Print Assumptions st_roundtrip_fast_stream_unconditional.
Print Assumptions st_roundtrip_hc_stream_unconditional.
Print Assumptions mt_roundtrip_indep_unconditional.
