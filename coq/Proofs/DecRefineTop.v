(* C05/C16: from the loop simulation to the public entry points of Model.DecApi. *)
From Coq Require Import ZArith List Lia Bool ZifyBool.
From LZ4V Require Import Gen.Consts Spec.BlockSpec Model.Mem Model.Dec Model.DecApi.
From LZ4V Require Import Proofs.DecRefineBase Proofs.DecRefineSafe.
Import ListNotations.
Local Open Scope Z_scope.

(* the last [k] elements *)
Definition lastn {A} (k : nat) (l : list A) : list A := skipn (length l - k) l.

Lemma nth_skipn_Z : forall (l : list Z) h i, nth i (skipn h l) 0 = nth (h + i) l 0.
Proof.
  induction l as [|x l IH]; intros h i.
  - rewrite skipn_nil. destruct i, h; reflexivity.
  - destruct h as [|h]; [reflexivity|]. cbn [skipn Nat.add nth]. apply IH.
Qed.

Lemma apply_seqs_length : forall ss rout rout',
  apply_seqs rout ss = Some rout' ->
  Z.of_nat (length rout') = Z.of_nat (length rout) + (total_len ss [] ).
Proof.
  induction ss as [|x ss IH]; intros rout rout' H; cbn [apply_seqs] in H.
  - inversion H; subst. cbn. lia.
  - destruct (apply_seq rout x) as [r1|] eqn:E; [|discriminate].
    apply IH in H. cbn [total_len fold_right] in *. unfold total_len in H.
    unfold apply_seq in E. destruct (off_ok (s_off x) && (4 <=? s_mlen x)) eqn:E2; [|discriminate].
    apply copy_match_length in E. rewrite app_length, rev_length in E. unfold byte in *. lia.
Qed.

(* the decoded content has the length the sequences announce *)
Lemma run_seqs_length hist ss last D :
  run_seqs hist ss last = Some D -> Z.of_nat (length D) = total_len ss last.
Proof.
  unfold run_seqs. destruct (apply_seqs (rev hist) ss) as [rout|] eqn:E; [|discriminate].
  intros H. inversion H; subst.
  pose proof (total_len_ge ss [] (apply_seqs_mlen _ _ _ E)) as Hge. cbn [length] in Hge.
  apply apply_seqs_length in E. rewrite rev_length in E.
  rewrite skipn_length, rev_length, app_length, rev_length.
  rewrite total_len_last. unfold byte in *. lia.
Qed.

(* reading the content off the final image *)
Lemma content_of_image (f : Z -> Z) (hist last rout' : list Z) n :
  out_at f n (rev last ++ rout') ->
  Z.of_nat (length (rev last ++ rout')) = Z.of_nat (length hist) + n ->
  forall i, 0 <= i < n -> f i = nth (Z.to_nat i) (skipn (length hist) (rev (rev last ++ rout'))) 0.
Proof.
  intros O Hl i Hi. rewrite nth_skipn_Z.
  set (R := rev last ++ rout') in *.
  rewrite rev_nth by lia.
  rewrite <- (O (length R - S (length hist + Z.to_nat i))%nat) by lia.
  f_equal. lia.
Qed.

(* the same for a decode that was cut [c] bytes before the end of the content *)
Lemma content_of_image_cut (f : Z -> Z) (hist R : list Z) r c :
  out_at f r (skipn c R) ->
  Z.of_nat (length R) = Z.of_nat (length hist) + r + Z.of_nat c -> 0 <= r ->
  forall i, 0 <= i < r -> f i = nth (Z.to_nat i) (skipn (length hist) (rev R)) 0.
Proof.
  intros O Hl Hr i Hi. rewrite nth_skipn_Z.
  rewrite rev_nth by lia.
  assert (E : f i = nth (Z.to_nat (r - 1 - i)) (skipn c R) 0).
  { rewrite <- (O (Z.to_nat (r - 1 - i))) by (rewrite skipn_length; lia). f_equal. lia. }
  rewrite E, nth_skipn_Z. f_equal. lia.
Qed.

Section Top.
  Variables (dict : ddict) (srcm : mem) (dictm : mem) (dictSize : Z).
  Variables (lowPrefix rlow : Z).
  Hypothesis HlowP : lowPrefix <= 0.
  Hypothesis Hds : 0 <= dictSize.

  (* Full-block decoding of a strictly valid block (fast loop on or off); the history the block may
     reference lies in the prefix region [lowPrefix, 0) of the destination memory, preceded (in
     external-dictionary mode) by the dictionary: this is the memory view [vget]. *)
  Theorem dec_generic_valid (fastloop : bool) (B hist D : list Z) cap m0 :
    strict_valid hist B = Some D -> bytes B -> src_at srcm 0 B ->
    out_at (vget lowPrefix dictm dictSize m0) 0 (rev hist) -> Z.of_nat (length hist) <= - lowPrefix + hroom dict dictSize ->
    Z.of_nat (length D) <= cap ->
    let '(r, m, k) := dec_generic fastloop false dict srcm (Z.of_nat (length B)) cap lowPrefix rlow dictm dictSize m0 in
    r = Z.of_nat (length D) /\ forall i, 0 <= i < Z.of_nat (length D) -> get m i = nth (Z.to_nat i) D 0.
  Proof.
    intros Hv Hb Hs Hh Hhl Hcap.
    unfold strict_valid in Hv.
    destruct (parse_block B) as [[ss last]|] eqn:Ep; [|discriminate].
    destruct (end_ok ss last) eqn:Eend; [|discriminate].
    pose proof (run_seqs_length _ _ _ _ Hv) as HlenD.
    unfold run_seqs in Hv. unfold byte in *. destruct (apply_seqs (rev hist) ss) as [rout'|] eqn:Eapp; [|discriminate].
    injection Hv as HD.
    pose proof (apply_seqs_mlen _ _ _ Eapp) as Fml.
    unfold parse_block in Ep.
    pose proof (parse_seqs_len _ _ _ _ Ep) as HlenB.
    unfold dec_generic.
    assert (E1 : (cap <? 0) = false) by lia. rewrite E1.
    destruct (cap =? 0) eqn:E0.
    - (* capacity 0: the block is a single token with literal length 0 *)
      assert (Hn : length D = 0%nat) by lia.
      assert (Htl : total_len ss last = 0) by lia.
      cbn [negb].
      destruct B as [|tok r]; [cbn in Ep; discriminate|].
      rewrite parse_seqs_S in Ep.
      destruct (read_len (tok / 16) r) as [[ll r1]|] eqn:El; [|discriminate].
      destruct (take (Z.to_nat ll) r1) as [[lits r2]|] eqn:Et; [|discriminate].
      destruct (bytes_cons _ _ Hb) as [Htok Hbr].
      destruct (nibbles tok Htok) as [Hn1 _].
      destruct (src_at_cons _ _ _ _ Hs) as [Htokm Hsr].
      destruct (read_len_suffix srcm 0 _ _ _ _ _ Hn1 El Hbr Hsr) as (_ & Hll & Hnoext & _ & _).
      destruct (take_spec _ _ _ _ Et) as [Er1 Hlits].
      destruct r2 as [|o1 [|o2 r3]]; [| discriminate |].
      + assert (Hss : ss = []) by congruence. assert (Hla : last = lits) by congruence. subst ss last.
        cbn [total_len fold_right] in Htl.
        assert (ll = 0) by (unfold byte in *; lia).
        assert (Hlt : tok / 16 < 15) by lia.
        destruct (Hnoext Hlt) as [_ Er]. rewrite app_nil_r in Er1.
        assert (Hrl : r = lits) by congruence.
        assert (Hr : r = []).
        { rewrite Hrl. destruct lits; [reflexivity | unfold byte in *; cbn [length] in *; lia]. }
        clear Er Er1 Hrl El Et. subst r. cbn [length]. cbn [Z.of_nat Pos.of_succ_nat]. cbn [Z.eqb Pos.eqb].
        rewrite Htokm. change (2 ^ ML_BITS) with 16.
        assert (E16 : (tok / 16 =? 0) = true) by lia. rewrite E16.
        split; [lia|]. intros i Hi. lia.
      + exfalso.
        destruct (read_len (tok mod 16) r3) as [[ml r4]|]; [|discriminate].
        destruct (parse_seqs _ r4) as [[ss' last']|]; [|discriminate].
        assert (Hss : mkSeq lits (o1 + 256 * o2) (ml + 4) :: ss' = ss) by congruence. subst ss.
        inversion Fml as [|? ? F1 F2]; subst. cbn [s_mlen] in F1.
        pose proof (total_len_ge ss' last F2).
        cbn [apply_seqs] in Eapp.
        destruct (apply_seq (rev hist) (mkSeq lits (o1 + 256 * o2) (ml + 4))) as [x|] eqn:Ea; [|discriminate].
        unfold apply_seq in Ea. cbn [s_off s_mlen] in Ea.
        destruct (off_ok (o1 + 256 * o2) && (4 <=? ml + 4)) eqn:E4; [|discriminate].
        cbn [total_len fold_right s_lits s_mlen] in Htl. unfold total_len in *. lia.
    - assert (E2 : (Z.of_nat (length B) =? 0) = false) by (unfold byte in *; lia). rewrite E2.
      pose proof (run_sim_fast false dict srcm (Z.of_nat (length B)) cap lowPrefix rlow dictm dictSize HlowP Hds
                    _ _ _ _ Ep (rev hist) rout' (mkD 0 0 m0 true) (Z.to_nat (Z.of_nat (length B)) + 2)
                    (fastloop && negb (cap <? FASTLOOP_SAFE_DISTANCE)) eq_refl Eapp Eend Hb) as HR.
      cbn [ip op dm] in HR.
      destruct HR as (s' & Hrun & Hout); try lia.
      + exact Hs.
      + exact Hh.
      + rewrite rev_length. lia.
      + rewrite Hrun. cbn [fst snd]. split; [lia|].
        intros i Hi. rewrite <- HD.
        rewrite <- (vget_hi lowPrefix dictm dictSize (dm s') i) by lia.
        apply content_of_image with (n := 0 + total_len ss last).
        * exact Hout.
        * apply apply_seqs_length in Eapp. rewrite rev_length in Eapp. rewrite app_length, rev_length.
          rewrite total_len_last. unfold byte in *. lia.
        * lia.
  Qed.
  (* Partial decoding (fast loop on or off): output end [oend] = min(target, capacity), [k] bytes of
     anything may follow the block in the source when the decode stops inside the content. *)
  Theorem dec_generic_partial (fastloop : bool) (B hist D : list Z) oend k m0 :
    strict_valid hist B = Some D -> bytes B -> src_at srcm 0 B ->
    out_at (vget lowPrefix dictm dictSize m0) 0 (rev hist) -> Z.of_nat (length hist) <= - lowPrefix + hroom dict dictSize ->
    0 <= oend -> 0 <= k -> (k = 0 \/ oend <= Z.of_nat (length D)) ->
    let '(r, m, _) := dec_generic fastloop true dict srcm (Z.of_nat (length B) + k) oend lowPrefix rlow dictm dictSize m0 in
    r = Z.min oend (Z.of_nat (length D)) /\ forall i, 0 <= i < r -> get m i = nth (Z.to_nat i) D 0.
  Proof.
    intros Hv Hb Hs Hh Hhl Hoe Hk Htr.
    unfold strict_valid in Hv.
    destruct (parse_block B) as [[ss last]|] eqn:Ep; [|discriminate].
    destruct (end_ok ss last) eqn:Eend; [|discriminate].
    pose proof (run_seqs_length _ _ _ _ Hv) as HlenD.
    unfold run_seqs in Hv. unfold byte in *. destruct (apply_seqs (rev hist) ss) as [rout'|] eqn:Eapp; [|discriminate].
    injection Hv as HD.
    unfold parse_block in Ep.
    pose proof (parse_seqs_len _ _ _ _ Ep) as HlenB.
    unfold dec_generic.
    assert (E1 : (oend <? 0) = false) by lia. rewrite E1.
    destruct (oend =? 0) eqn:E0.
    - split; [lia|]. intros i Hi. lia.
    - assert (E2 : (Z.of_nat (length B) + k =? 0) = false) by (unfold byte in *; lia). rewrite E2.
      pose proof (run_sim_part_fast true dict srcm (Z.of_nat (length B) + k) oend lowPrefix rlow dictm dictSize HlowP Hds
                    _ _ _ _ Ep (rev hist) rout' (mkD 0 0 m0 true) (Z.to_nat (Z.of_nat (length B) + k) + 2)
                    (fastloop && negb (oend <? FASTLOOP_SAFE_DISTANCE)) eq_refl Eapp Eend Hb) as HR.
      cbn [ip op dm] in HR.
      destruct HR as (s' & Hrun & Hout); try lia.
      + exact Hs.
      + exact Hh.
      + rewrite rev_length. lia.
      + unfold FASTLOOP_SAFE_DISTANCE. lia.
      + rewrite Hrun. rewrite <- HlenD. split; [lia|].
        intros i Hi. rewrite <- HD.
        rewrite <- (vget_hi lowPrefix dictm dictSize (dm s') i) by lia.
        apply content_of_image_cut with (r := Z.min oend (0 + total_len ss last))
                                        (c := Z.to_nat (0 + total_len ss last - Z.min oend (0 + total_len ss last))).
        * exact Hout.
        * apply apply_seqs_length in Eapp. rewrite rev_length in Eapp. rewrite app_length, rev_length.
          pose proof (total_len_last ss last) as Htl. unfold byte in *. lia.
        * lia.
        * lia.
  Qed.
End Top.
