(* The one-shot HC entry points at the levels 3..12 (Model.HcOptApi: hash-chain levels and optimal-parser levels on one
   context model), for any prior state of the context and any mix of levels in the history: a positive result is a
   block that the specification decodes to the input (strictly valid in the non-destSize entry points); nothing is
   written beyond the capacity in the limited modes; with a capacity of at least LZ4_compressBound the call succeeds. *)
From Coq Require Import ZArith List Lia Bool ZifyBool FMapPositive.
From LZ4V Require Import Gen.Consts Spec.BlockSpec Model.Mem Model.Fast Model.FastApi Model.HcEmit Model.HcMid Model.HcChain Model.HcChainApi Model.HcOpt Model.HcOptApi.
From LZ4V Require Import Proofs.BlockSpecProofs Proofs.FactorSpec Proofs.FastBasics Proofs.FastCap Proofs.FastApiSound.
From LZ4V Require Import Proofs.HcMidSound Proofs.HcMidCap Proofs.HcMidApiSound.
From LZ4V Require Import Proofs.HcChainSearch Proofs.HcChainSound Proofs.HcChainCap Proofs.HcChainParser Proofs.HcChainApiSound Proofs.HcOptParser.
Import ListNotations.
Local Open Scope Z_scope.

Theorem cc_generic_opt_sound c src srcSize cap cLevel lim :
  src_ok src -> 65536 <= cc_endIdx c <= 1073741824 + 65536 -> TB (cc_tabs c) (cc_endIdx c) ->
  0 <= srcSize < 2147483648 -> 0 <= cap ->            (* srcSize is an int *)
  opt_level cLevel = true ->
  let r := cc_generic_opt c src srcSize cap cLevel lim in
  cc_ok (cr_ctx r) /\
  cr_hw r <= hwlim_of lim srcSize cap /\
  (lim = NotLimited -> srcSize <= LZ4_MAX_INPUT_SIZE -> 0 < cr_ret r) /\
  (0 < cr_ret r ->
     cr_ret r = Z.of_nat (length (cr_out r)) /\ cr_ret r <= hwlim_of lim srcSize cap /\
     0 <= cr_consumed r <= srcSize /\
     spec_decode [] (cr_out r) = Some (load_list src 0 (Z.to_nat (cr_consumed r))) /\
     (lim <> FillOutput -> cr_consumed r = srcSize /\
                           strict_valid [] (cr_out r) = Some (load_list src 0 (Z.to_nat srcSize)))).
Proof.
  intros Hsrc Hst HT [Hsz Hint] Hcap Hlvl. unfold cc_generic_opt. cbv zeta.
  set (start := cc_endIdx c) in *.
  change (hwlim_of lim srcSize cap) with (chw lim srcSize cap).
  assert (Hh0 : 0 <= chw lim srcSize cap).
  { unfold chw, hwlim. destruct lim; try lia. assert (0 <= srcSize / 255) by (Z.div_mod_to_equations; lia). lia. }
  assert (OkSame : cc_ok c).
  { right. fold start. split; [lia|]. eapply TB_mono; eauto. lia. }
  destruct (match lim with FillOutput => cap <? 1 | _ => false end) eqn:E0.
  { cbn. split; [exact OkSame|]. split; [lia|]. split; [destruct lim; try discriminate; intros; congruence | lia]. }
  destruct (u32 srcSize >? LZ4_MAX_INPUT_SIZE) eqn:E1.
  { cbn. split; [exact OkSame|]. split; [lia|]. split; [|lia].
    intros _ Hm. rewrite u32_id in E1 by (unfold M32, LZ4_MAX_INPUT_SIZE in *; lia). lia. }
  assert (Hmax : srcSize <= LZ4_MAX_INPUT_SIZE).
  { rewrite u32_id in E1 by (unfold M32; lia). lia. }
  rewrite Hlvl. cbn [negb].
  set (vrd := fun p => get src (p - start)).
  assert (Hb : forall a, 0 <= vrd a < 256) by (intros a; apply Hsrc).
  assert (Hidx : 65536 <= start /\ start <= start /\ start <= start /\ start + srcSize < M32 - 65536)
    by (unfold M32, LZ4_MAX_INPUT_SIZE in *; lia).
  assert (Hfill : lim = FillOutput -> 1 <= cap) by (intros ->; lia).
  pose proof (opt_compress_ok vrd lim start start start srcSize cap (snd (cl_params cLevel)) (cl_target cLevel) (cLevel >=? LZ4HC_CLEVEL_MAX) (cc_fav c) Hb Hidx Hsz Hcap Hfill
                (mkHT (cc_hash c) (cc_chain c) (cc_ntu c)) HT) as (HS & HC).
  destruct (opt_compress vrd start start lim start srcSize cap (snd (cl_params cLevel)) (cl_target cLevel) (cLevel >=? LZ4HC_CLEVEL_MAX) (cc_fav c) (mkHT (cc_hash c) (cc_chain c) (cc_ntu c)))
    as [t hw | ret consumed out t hw | ].
  - cbn [HcChainCap.RCap] in HC. destruct HC as (HC1 & HC2). cbn.
    split; [left; reflexivity|]. split; [exact HC1|]. split; [intros; congruence | lia].
  - cbn [HcChainSound.RSpec] in HS. cbn [HcChainCap.RCap] in HC.
    destruct HS as (S1 & S2 & S3 & S4 & S5 & S6 & SB). destruct HC as (C1 & C2).
    unfold hc_iend in *.
    assert (Ok1 : cc_ok (cc_with c t (start + srcSize) (if ret <=? 0 then true else cc_dirty c))).
    { right. unfold cc_with, cc_tabs. cbn [cc_endIdx cc_hash cc_chain cc_ntu]. split; [lia|].
      destruct S6 as (T1 & T2 & T3). split; [intros k; specialize (T1 k); cbn [t_hash] in *; lia | split; [exact T2 | exact T3]]. }
    cbn [cr_ctx cr_hw cr_ret cr_out cr_consumed].
    split.
    { destruct lim; try exact Ok1.
      destruct ((0 <? ret) && (consumed <? srcSize)); [|exact Ok1].
      destruct Ok1 as [Od|(O1 & O2)].
      - left. unfold cc_init_internal. destruct (cc_endIdx _ >? 1073741824); cbn [cc_dirty]; exact Od.
      - pose proof (cc_init_internal_ok _ O1 O2) as HI. cbv zeta in HI. destruct HI as (I1 & I2 & I3 & I4).
        right. split; [lia|]. eapply TB_mono; eauto. lia. }
    split; [exact C1|]. split; [intros; lia|].
    intros Hpos. split; [exact S5|]. split; [lia|]. split; [exact S1|].
    unfold vrd in S3, S4. rewrite (seg_nil _ start start) in * by lia.
    rewrite seg_load in S3 by lia. split; [exact S3|].
    intros Hn. specialize (S2 Hn). specialize (S4 Hn). subst consumed.
    rewrite seg_load in S4 by lia. split; [reflexivity | exact S4].
  - cbn [HcChainCap.RCap] in HC. contradiction.
Qed.


(* levels 3..12 (and 0 / negative = default 9, > 12 = 12) *)
Definition all_level (cLevel : Z) : bool := chain_level cLevel || opt_level cLevel.

Theorem cc_generic_all_sound c src srcSize cap cLevel lim :
  src_ok src -> 65536 <= cc_endIdx c <= 1073741824 + 65536 -> TB (cc_tabs c) (cc_endIdx c) ->
  0 <= srcSize < 2147483648 -> 0 <= cap -> all_level cLevel = true ->
  let r := cc_generic_all c src srcSize cap cLevel lim in
  cc_ok (cr_ctx r) /\
  cr_hw r <= hwlim_of lim srcSize cap /\
  (lim = NotLimited -> srcSize <= LZ4_MAX_INPUT_SIZE -> 0 < cr_ret r) /\
  (0 < cr_ret r ->
     cr_ret r = Z.of_nat (length (cr_out r)) /\ cr_ret r <= hwlim_of lim srcSize cap /\
     0 <= cr_consumed r <= srcSize /\
     spec_decode [] (cr_out r) = Some (load_list src 0 (Z.to_nat (cr_consumed r))) /\
     (lim <> FillOutput -> cr_consumed r = srcSize /\
                           strict_valid [] (cr_out r) = Some (load_list src 0 (Z.to_nat srcSize)))).
Proof.
  intros Hsrc Hst HT Hsz Hcap Hl. unfold cc_generic_all, all_level in *.
  destruct (chain_level cLevel) eqn:E.
  - apply cc_generic_sound; assumption.
  - apply cc_generic_opt_sound; assumption.
Qed.

(* LZ4_compress_HC_extStateHC_fastReset at levels 3-12, on a context with ANY history *)
Theorem compress_HC_fastReset_all_sound c src srcSize cap cLevel :
  cc_ok c -> src_ok src -> 0 <= srcSize < 2147483648 -> 0 <= cap -> all_level cLevel = true ->
  let r := compress_HC_fastReset_all c src srcSize cap cLevel in
  let lim := if cap <? compressBound srcSize then LimitedOutput else NotLimited in
  chain_call_ok src srcSize cap lim r /\
  (compressBound srcSize <= cap -> srcSize <= LZ4_MAX_INPUT_SIZE -> 0 < cr_ret r /\ cr_hw r <= compressBound srcSize).
Proof.
  intros Hc Hsrc Hsz Hcap Hl. unfold compress_HC_fastReset_all.
  pose proof (cc_reset_fast_ok c Hc) as HR. cbv zeta in HR. destruct HR as (R0 & R1 & R2).
  pose proof (cc_init_internal_ok (cc_reset_fast c) R1 R2) as HI. cbv zeta in HI. destruct HI as (I1 & I2 & I3 & I4).
  cbv zeta.
  pose proof (cc_generic_all_sound (cc_init_internal (cc_reset_fast c)) src srcSize cap cLevel
                (if cap <? compressBound srcSize then LimitedOutput else NotLimited) Hsrc I1 I2 Hsz Hcap Hl) as H.
  cbv zeta in H. destruct H as (H1 & H2 & H3 & H4).
  split; [split; [exact H1 | split; [exact H2 | exact H4]]|].
  intros Hbd Hm. destruct (cap <? compressBound srcSize) eqn:E; [lia|].
  split; [apply H3; [reflexivity | exact Hm]|].
  unfold hwlim_of in H2. unfold compressBound.
  replace ((srcSize <? 0) || (srcSize >? LZ4_MAX_INPUT_SIZE)) with false by lia. exact H2.
Qed.

(* LZ4_compress_HC_destSize at levels 3-12 *)
Theorem compress_HC_destSize_all_sound src srcSize target cLevel :
  src_ok src -> 0 <= srcSize < 2147483648 -> 0 <= target -> all_level cLevel = true ->
  chain_call_ok src srcSize target FillOutput (compress_HC_destSize_all src srcSize target cLevel).
Proof.
  intros Hsrc Hsz Ht Hl. unfold compress_HC_destSize_all.
  pose proof cc_ok_init as [Hd|(A1 & A2)]; [discriminate Hd|].
  pose proof (cc_init_internal_ok cc_init A1 A2) as HI. cbv zeta in HI. destruct HI as (I1 & I2 & I3 & I4).
  pose proof (cc_generic_all_sound (cc_init_internal cc_init) src srcSize target cLevel FillOutput Hsrc I1 I2 Hsz Ht Hl) as H.
  cbv zeta in H. destruct H as (H1 & H2 & H3 & H4).
  split; [exact H1 | split; [exact H2 | exact H4]].
Qed.

(* ---- any history of calls on one LZ4_streamHC_t, levels 3..12 mixed ---- *)
Definition acall_valid (k : hcall) : Prop :=
  match k with
  | CFr src n cap l | CDs src n cap l => src_ok src /\ 0 <= n < 2147483648 /\ 0 <= cap /\ all_level l = true
  | CFav _ => True
  end.

Definition run_acall (c : hcc) (k : hcall) : cres_api :=
  match k with
  | CFr src n cap l => compress_HC_fastReset_all c src n cap l
  | CDs src n target l => compress_HC_destSize_all src n target l
  | CFav f => mkCR 0 0 [] 0 (cc_set_fav c f)
  end.

Fixpoint run_all_history (c : hcc) (calls : list hcall) : list (hcall * cres_api) :=
  match calls with
  | [] => []
  | k :: r => let a := run_acall c k in (k, a) :: run_all_history (cr_ctx a) r
  end.

Lemma run_acall_ok c k : cc_ok c -> acall_valid k -> cc_ok (cr_ctx (run_acall c k)) /\ hcall_post k (run_acall c k).
Proof.
  intros Hc Hk. destruct k as [src n cap l | src n target l | f]; cbn [run_acall hcall_post acall_valid] in *.
  - destruct Hk as (K1 & K2 & K3 & K4).
    pose proof (compress_HC_fastReset_all_sound c src n cap l Hc K1 K2 K3 K4) as H. cbv zeta in H.
    destruct H as ((H1 & H2 & H3) & _). split; [exact H1|]. split.
    + intros Hlt. replace (cap <? compressBound n) with true in H2 by lia. exact H2.
    + intros Hpos. specialize (H3 Hpos). destruct H3 as (A & _ & _ & _ & B).
      split; [exact A|]. apply B. destruct (cap <? compressBound n); discriminate.
  - destruct Hk as (K1 & K2 & K3 & K4).
    pose proof (compress_HC_destSize_all_sound src n target l K1 K2 K3 K4) as (H1 & H2 & H3).
    split; [exact H1|]. split; [exact H2|].
    intros Hpos. destruct (H3 Hpos) as (A & B & C & D & _). split; [exact A|]. split; [exact B|]. split; [exact C | exact D].
  - split; [apply cc_set_fav_ok; exact Hc | exact I].
Qed.

Theorem all_history_sound : forall calls c,
  cc_ok c -> Forall acall_valid calls ->
  Forall (fun ka => hcall_post (fst ka) (snd ka)) (run_all_history c calls).
Proof.
  induction calls as [|k r IH]; intros c Hc Hs; cbn [run_all_history]; [constructor|].
  inversion Hs as [|k' r' Hk Hr]; subst.
  destruct (run_acall_ok c k Hc Hk) as (H1 & H2).
  constructor; [exact H2 | apply IH; assumption].
Qed.

(* ---- the statements registered in Properties_C06 / C09 / C17 ---- *)
Theorem opt_strict c src srcSize cap cLevel :
  cc_ok c -> src_ok src -> 0 <= srcSize < 2147483648 -> 0 <= cap -> all_level cLevel = true ->
  let r := compress_HC_fastReset_all c src srcSize cap cLevel in
  0 < cr_ret r ->
  cr_ret r = Z.of_nat (length (cr_out r)) /\
  strict_valid [] (cr_out r) = Some (load_list src 0 (Z.to_nat srcSize)).
Proof.
  intros Hc Hs Hz Hcap Hl r Hpos.
  destruct (compress_HC_fastReset_all_sound c src srcSize cap cLevel Hc Hs Hz Hcap Hl) as ((_ & _ & H) & _).
  destruct (H Hpos) as (A & _ & _ & _ & B). split; [exact A|]. apply B.
  destruct (cap <? compressBound srcSize); discriminate.
Qed.

Theorem opt_capacity c src srcSize cap cLevel :
  cc_ok c -> src_ok src -> 0 <= srcSize < 2147483648 -> 0 <= cap -> all_level cLevel = true ->
  let r := compress_HC_fastReset_all c src srcSize cap cLevel in
  (cap < compressBound srcSize -> cr_hw r <= cap /\ cr_ret r <= cap) /\
  (compressBound srcSize <= cap -> srcSize <= LZ4_MAX_INPUT_SIZE -> 0 < cr_ret r /\ cr_hw r <= compressBound srcSize).
Proof.
  intros Hc Hs Hz Hcap Hl r. subst r.
  destruct (compress_HC_fastReset_all_sound c src srcSize cap cLevel Hc Hs Hz Hcap Hl) as ((_ & H2 & H3) & H4).
  split; [|exact H4].
  intros Hlt. replace (cap <? compressBound srcSize) with true in * by lia. cbn [hwlim_of] in *.
  split; [exact H2|].
  destruct (Z_lt_le_dec 0 (cr_ret (compress_HC_fastReset_all c src srcSize cap cLevel))) as [Hp|Hn]; [|lia].
  destruct (H3 Hp) as (_ & B & _). exact B.
Qed.

Theorem opt_destSize src srcSize target cLevel :
  src_ok src -> 0 <= srcSize < 2147483648 -> 0 <= target -> all_level cLevel = true ->
  let r := compress_HC_destSize_all src srcSize target cLevel in
  cr_hw r <= target /\
  (0 < cr_ret r ->
     cr_ret r = Z.of_nat (length (cr_out r)) /\ cr_ret r <= target /\ 0 <= cr_consumed r <= srcSize /\
     spec_decode [] (cr_out r) = Some (load_list src 0 (Z.to_nat (cr_consumed r)))).
Proof.
  intros Hs Hz Ht Hl r. subst r.
  destruct (compress_HC_destSize_all_sound src srcSize target cLevel Hs Hz Ht Hl) as (_ & H2 & H3).
  split; [exact H2|]. intros Hp. destruct (H3 Hp) as (A & B & C & D & _).
  split; [exact A|]. split; [exact B|]. split; [exact C | exact D].
Qed.

Lemma all_levels : forall l, In l [3; 4; 5; 6; 7; 8; 9; 10; 11; 12; 13; 0; -1] -> all_level l = true.
Proof. intros l H. repeat (destruct H as [<-|H]; [vm_compute; reflexivity|]). destruct H. Qed.
Lemma opt_levels : forall l, In l [10; 11; 12; 13; 100] -> opt_level l = true.
Proof. intros l H. repeat (destruct H as [<-|H]; [vm_compute; reflexivity|]). destruct H. Qed.

Print Assumptions all_history_sound.
Print Assumptions opt_strict.
Print Assumptions opt_capacity.
Print Assumptions opt_destSize.
