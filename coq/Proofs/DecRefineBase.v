(* C05/C16, layer 1: what the copy primitives of Model.Mem / Model.Dec do to the
   destination image, in a form that needs no modular arithmetic.

   An LZ77 match copy of [n] bytes at distance [off] into [d, d+n) is characterised
   by the recurrence it establishes in the RESULT memory,
       lzrec m' off d (d+n) :  forall a in [d,d+n), m'(a) = m'(a - off),
   together with [same_below m m' d] (nothing below d changes).  Bytes at or above
   d+n are unconstrained: this absorbs wild-copy slack.  For off >= 1 the two facts
   determine m' on (-inf, d+n), and they are exactly what the byte-by-byte
   [Spec.copy_match] computes (lemma [copy_match_out]).  The closed periodic form
   [lzcopy] of DESIGN section 3 is derived at the end ([lzrec_lzcopy]). *)
From Coq Require Import ZArith List Lia Bool ZifyBool.
From LZ4V Require Import Gen.Consts Spec.BlockSpec Model.Mem Model.Dec.
Import ListNotations.
Local Open Scope Z_scope.

(* the recurrence on an arbitrary memory view (a function from addresses to bytes) *)
Definition frec (f : Z -> Z) (off lo hi : Z) : Prop :=
  forall a, lo <= a < hi -> f a = f (a - off).
Definition lzrec (m : mem) (off lo hi : Z) : Prop := frec (get m) off lo hi.
Definition same_below (m m' : mem) (d : Z) : Prop :=
  forall a, a < d -> get m' a = get m a.

Lemma same_below_refl m d : same_below m m d.
Proof. intros a _. reflexivity. Qed.
Lemma same_below_trans m1 m2 m3 d1 d2 :
  same_below m1 m2 d1 -> same_below m2 m3 d2 -> d1 <= d2 -> same_below m1 m3 d1.
Proof. intros H1 H2 Hd a Ha. rewrite H2 by lia. apply H1. exact Ha. Qed.
Lemma same_below_weaken m m' d d' : same_below m m' d -> d' <= d -> same_below m m' d'.
Proof. intros H Hd a Ha. apply H. lia. Qed.

Lemma lzrec_weaken m off lo hi lo' hi' :
  lzrec m off lo hi -> lo <= lo' -> hi' <= hi -> lzrec m off lo' hi'.
Proof. intros H H1 H2 a Ha. apply H. lia. Qed.
Lemma lzrec_empty m off lo hi : hi <= lo -> lzrec m off lo hi.
Proof. intros H a Ha. lia. Qed.

(* the recurrence survives later writes that stay at or above its range *)
Lemma lzrec_same_below m m' off lo hi :
  lzrec m off lo hi -> same_below m m' hi -> 0 <= off -> lzrec m' off lo hi.
Proof. intros H S Ho a Ha. rewrite !S by lia. apply H. exact Ha. Qed.

Lemma lzrec_join m off lo mid hi :
  lzrec m off lo mid -> lzrec m off mid hi -> lzrec m off lo hi.
Proof.
  intros H1 H2 a Ha. destruct (Z_lt_ge_dec a mid); [apply H1 | apply H2]; lia.
Qed.

(* two consecutive copies at the same distance *)
Lemma lz_compose m1 m2 off lo mid hi :
  lzrec m1 off lo mid -> same_below m1 m2 mid -> lzrec m2 off mid hi -> 0 <= off ->
  lzrec m2 off lo hi.
Proof.
  intros H1 S H2 Ho. eapply lzrec_join; [|exact H2].
  eapply lzrec_same_below; eauto.
Qed.

(* ---------- stores and loads ---------- *)
Lemma get_store_list : forall l m a x,
  get (store_list m a l) x =
  if (a <=? x) && (x <? a + Z.of_nat (length l)) then nth (Z.to_nat (x - a)) l 0 else get m x.
Proof.
  induction l as [|b l IH]; intros m a x.
  - cbn [store_list length]. destruct ((a <=? x) && (x <? a + Z.of_nat 0)) eqn:E; [lia | reflexivity].
  - cbn [store_list]. rewrite IH. cbn [length]. rewrite Nat2Z.inj_succ.
    destruct ((a + 1 <=? x) && (x <? a + 1 + Z.of_nat (length l))) eqn:E1.
    + assert (E2 : (a <=? x) && (x <? a + Z.succ (Z.of_nat (length l))) = true) by lia.
      rewrite E2. replace (Z.to_nat (x - a)) with (S (Z.to_nat (x - (a + 1)))) by lia. reflexivity.
    + rewrite get_set. destruct (Z.eqb_spec a x) as [->|Hne].
      * assert (E2 : (x <=? x) && (x <? x + Z.succ (Z.of_nat (length l))) = true) by lia.
        rewrite E2. replace (x - x) with 0 by lia. reflexivity.
      * assert (E2 : (a <=? x) && (x <? a + Z.succ (Z.of_nat (length l))) = false) by lia.
        rewrite E2. reflexivity.
Qed.

Lemma load_list_length : forall n m a, length (load_list m a n) = n.
Proof. induction n; intros; cbn [load_list length]; [reflexivity | rewrite IHn; reflexivity]. Qed.

Lemma load_list_nth : forall n m a j, (j < n)%nat -> nth j (load_list m a n) 0 = get m (a + Z.of_nat j).
Proof.
  induction n as [|n IH]; intros m a j Hj; [lia|].
  cbn [load_list]. destruct j as [|j].
  - cbn [nth]. f_equal. lia.
  - cbn [nth]. rewrite IH by lia. f_equal. lia.
Qed.

Lemma get_blit sm s m d n x :
  get (blit sm s m d n) x =
  if (d <=? x) && (x <? d + Z.of_nat n) then get sm (s + (x - d)) else get m x.
Proof.
  unfold blit. rewrite get_store_list, load_list_length.
  destruct ((d <=? x) && (x <? d + Z.of_nat n)) eqn:E; [|reflexivity].
  rewrite load_list_nth by lia. f_equal. lia.
Qed.

Lemma blit_same_below sm s m d n : same_below m (blit sm s m d n) d.
Proof. intros a Ha. rewrite get_blit. destruct ((d <=? a) && (a <? d + Z.of_nat n)) eqn:E; [lia | reflexivity]. Qed.

(* a chunk copy inside one memory at distance off >= chunk *)
Lemma memcpy_lz m d off k :
  Z.of_nat k <= off ->
  let m' := memcpy_k m d (d - off) k in
  same_below m m' d /\ lzrec m' off d (d + Z.of_nat k).
Proof.
  intros Hk. cbv zeta. unfold memcpy_k. split; [apply blit_same_below|].
  intros a Ha. rewrite !get_blit.
  assert (E1 : (d <=? a) && (a <? d + Z.of_nat k) = true) by lia. rewrite E1.
  assert (E2 : (d <=? a - off) && (a - off <? d + Z.of_nat k) = false) by lia. rewrite E2.
  f_equal. lia.
Qed.

(* `while (n--) *d++ = *s++` at distance off >= 1 *)
Lemma copy_fwd_lz : forall n m d off,
  1 <= off ->
  let m' := copy_fwd m d (d - off) n in
  same_below m m' d /\ lzrec m' off d (d + Z.of_nat n).
Proof.
  induction n as [|n IH]; intros m d off Ho; cbv zeta.
  - cbn [copy_fwd]. split; [apply same_below_refl | apply lzrec_empty; lia].
  - cbn [copy_fwd].
    specialize (IH (set m d (get m (d - off))) (d + 1) off Ho). cbv zeta in IH.
    replace (d + 1 - off) with (d - off + 1) in IH by lia.
    destruct IH as [S R].
    set (m1 := set m d (get m (d - off))) in *.
    set (m' := copy_fwd m1 (d + 1) (d - off + 1) n) in *.
    assert (S0 : same_below m m1 d).
    { intros a Ha. unfold m1. rewrite get_set_other by lia. reflexivity. }
    split.
    + eapply same_below_trans; [exact S0 | exact S | lia].
    + rewrite Nat2Z.inj_succ.
      apply lzrec_join with (mid := d + 1).
      * intros a Ha. assert (a = d) by lia. subst a.
        rewrite !S by lia. unfold m1. rewrite get_set_same. rewrite get_set_other by lia. reflexivity.
      * eapply lzrec_weaken; [exact R | lia | lia].
Qed.

(* LZ4_wildCopy8 / 32 inside one memory at distance >= chunk *)
Lemma wild8_it_lz : forall k m d off,
  8 <= off ->
  let m' := wild8_it k m d (d - off) in
  same_below m m' d /\ lzrec m' off d (d + 8 * Z.of_nat k).
Proof.
  induction k as [|k IH]; intros m d off Ho; cbv zeta.
  - cbn [wild8_it]. split; [apply same_below_refl | apply lzrec_empty; lia].
  - cbn [wild8_it].
    destruct (memcpy_lz m d off 8) as [S0 R0]; [lia|].
    specialize (IH (memcpy_k m d (d - off) 8) (d + 8) off Ho). cbv zeta in IH.
    replace (d + 8 - off) with (d - off + 8) in IH by lia.
    destruct IH as [S R].
    split.
    + eapply same_below_trans; [exact S0 | exact S | lia].
    + rewrite Nat2Z.inj_succ.
      eapply lzrec_weaken; [|apply Z.le_refl|].
      * eapply lz_compose; [exact R0 | exact S | exact R | lia].
      * lia.
Qed.

Lemma wild_iters_cover chunk d e : 0 < chunk -> e - d <= chunk * Z.of_nat (wild_iters chunk d e).
Proof. intros Hc. unfold wild_iters. Z.div_mod_to_equations. nia. Qed.

Lemma wild8_lz m d off e :
  8 <= off ->
  let m' := wild8 m d (d - off) e in
  same_below m m' d /\ lzrec m' off d e.
Proof.
  intros Ho. cbv zeta. unfold wild8.
  destruct (wild8_it_lz (wild_iters 8 d e) m d off Ho) as [S R].
  split; [exact S|].
  eapply lzrec_weaken; [exact R | lia|].
  pose proof (wild_iters_cover 8 d e). lia.
Qed.

Lemma wild32_it_lz : forall k m d off,
  16 <= off ->
  let m' := wild32_it k m d (d - off) in
  same_below m m' d /\ lzrec m' off d (d + 32 * Z.of_nat k).
Proof.
  induction k as [|k IH]; intros m d off Ho; cbv zeta.
  - cbn [wild32_it]. split; [apply same_below_refl | apply lzrec_empty; lia].
  - cbn [wild32_it].
    destruct (memcpy_lz m d off 16) as [S0 R0]; [lia|].
    set (m1 := memcpy_k m d (d - off) 16) in *.
    destruct (memcpy_lz m1 (d + 16) off 16) as [S1 R1]; [lia|].
    replace (d + 16 - off) with (d - off + 16) in * by lia.
    set (m2 := memcpy_k m1 (d + 16) (d - off + 16) 16) in *.
    specialize (IH m2 (d + 32) off Ho). cbv zeta in IH.
    replace (d + 32 - off) with (d - off + 32) in IH by lia.
    destruct IH as [S R].
    split.
    + eapply same_below_trans; [|exact S | lia].
      eapply same_below_trans; [exact S0 | exact S1 | lia].
    + rewrite Nat2Z.inj_succ.
      eapply lzrec_weaken; [|apply Z.le_refl|].
      * eapply lz_compose; [|exact S | exact R | lia].
        replace (d + 32) with (d + 16 + Z.of_nat 16) by lia.
        eapply lz_compose; [exact R0 | exact S1 | exact R1 | lia].
      * lia.
Qed.

Lemma wild32_lz m d off e :
  16 <= off ->
  let m' := wild32 m d (d - off) e in
  same_below m m' d /\ lzrec m' off d e.
Proof.
  intros Ho. cbv zeta. unfold wild32.
  destruct (wild32_it_lz (wild_iters 32 d e) m d off Ho) as [S R].
  split; [exact S|].
  eapply lzrec_weaken; [exact R | lia|].
  pose proof (wild_iters_cover 32 d e). lia.
Qed.

(* ---------- multiplying the period ---------- *)
(* inside a region where the recurrence holds, one may step back k periods *)
Lemma lzrec_steps m off lo hi : forall (k : nat) a,
  lzrec m off lo hi -> 0 <= off ->
  lo <= a - (Z.of_nat k - 1) * off -> a < hi -> (1 <= k)%nat ->
  get m a = get m (a - Z.of_nat k * off).
Proof.
  induction k as [|k IH]; intros a R Ho Hlo Hhi Hk; [lia|].
  destruct k as [|k].
  - replace (a - Z.of_nat 1 * off) with (a - off) by lia. apply R. lia.
  - rewrite (IH a R Ho) by nia.
    rewrite (R (a - Z.of_nat (S k) * off)) by nia.
    f_equal. nia.
Qed.

(* a copy at distance D = k*off whose source window starts inside an off-periodic region
   continues the off-periodicity *)
Lemma period_extend m off (k : nat) lo hi hi2 :
  1 <= off -> (1 <= k)%nat ->
  lzrec m off (lo + off) hi ->
  lzrec m (Z.of_nat k * off) hi hi2 ->
  lo <= hi - Z.of_nat k * off -> lo + off <= hi ->
  lzrec m off (lo + off) hi2.
Proof.
  intros Ho Hk R RD Hlo Hne.
  remember (Z.of_nat k * off) as D eqn:ED.
  assert (HD1 : off <= D) by nia.
  assert (forall n : nat, lzrec m off (lo + off) (Z.min hi2 (hi + Z.of_nat n))) as G.
  { induction n as [|n IHn].
    - eapply lzrec_weaken; [exact R | lia | lia].
    - intros a Ha.
      destruct (Z_lt_ge_dec a (Z.min hi2 (hi + Z.of_nat n))) as [Hlt|Hge]; [apply IHn; lia|].
      assert (a = hi + Z.of_nat n) by lia.
      assert (Ha2 : hi <= a < hi2) by lia.
      rewrite (RD a Ha2).
      destruct (Z_lt_ge_dec (a - off) hi) as [Hin|Hout].
      + (* a - off still in the old region: walk k-1 periods up from a - k*off *)
        destruct k as [|k]; [lia|].
        destruct k as [|k]; [f_equal; lia|].
        assert (E : get m (a - off) = get m (a - off - Z.of_nat (S k) * off)).
        { apply (lzrec_steps m off (lo + off) hi (S k) (a - off) R); lia. }
        rewrite E. f_equal. lia.
      + (* a - off is itself a fresh position *)
        assert (Hb : hi <= a - off < hi2) by lia.
        rewrite (RD (a - off) Hb).
        assert (Hc : lo + off <= a - D < Z.min hi2 (hi + Z.of_nat n)) by lia.
        rewrite (IHn _ Hc). f_equal. lia. }
  intros a Ha.
  apply (G (Z.to_nat (hi2 - hi))). lia.
Qed.

(* ---------- first 8 bytes of an overlapping match (inc32table / dec64table) ---------- *)
Lemma store4_same_below m d : same_below m (store_list m d [0; 0; 0; 0]) d.
Proof.
  intros a Ha. rewrite get_store_list. cbn [length].
  destruct ((d <=? a) && (a <? d + Z.of_nat 4)) eqn:E; [lia | reflexivity].
Qed.

Lemma first8_lz m d off :
  1 <= off ->
  let '(m1, mat2) := first8 m d (d - off) off in
  same_below m m1 d /\ lzrec m1 off d (d + 8) /\
  exists k : nat, (1 <= k)%nat /\ d + 8 - mat2 = Z.of_nat k * off /\ 8 <= d + 8 - mat2 <= 8 + off.
Proof.
  intros Ho. unfold first8.
  destruct (off <? 8) eqn:E8.
  - (* table path *)
    set (ma := store_list m d [0; 0; 0; 0]).
    pose proof (store4_same_below m d) as Sa. fold ma in Sa.
    destruct (copy_fwd_lz 4 ma d off Ho) as [Sb Rb].
    set (mb := copy_fwd ma d (d - off) 4) in *.
    assert (Hcases : off = 1 \/ off = 2 \/ off = 3 \/ off = 4 \/ off = 5 \/ off = 6 \/ off = 7) by lia.
    (* distance of the second 4-byte copy, and the new match distance, per offset *)
    assert (exists (g : Z) (kg kd : nat),
              d + 4 - (d - off + tbl inc32table off) = g /\ g = Z.of_nat kg * off /\ (1 <= kg)%nat /\ 4 <= g <= 4 + off /\
              d + 8 - (d - off + tbl inc32table off - tbl dec64table off) = Z.of_nat kd * off /\ (1 <= kd)%nat /\
              8 <= Z.of_nat kd * off <= 8 + off) as (g & kg & kd & Hg & Hgk & Hkg & Hgr & Hd & Hkd & Hdr).
    { destruct Hcases as [->|[->|[->|[->|[->|[->| ->]]]]]].
      - exists 4, 4%nat, 8%nat.
        replace (tbl inc32table 1) with (1) by reflexivity. replace (tbl dec64table 1) with (0) by reflexivity.
        repeat split; lia.
      - exists 4, 2%nat, 4%nat.
        replace (tbl inc32table 2) with (2) by reflexivity. replace (tbl dec64table 2) with (0) by reflexivity.
        repeat split; lia.
      - exists 6, 2%nat, 3%nat.
        replace (tbl inc32table 3) with (1) by reflexivity. replace (tbl dec64table 3) with (-1) by reflexivity.
        repeat split; lia.
      - exists 8, 2%nat, 2%nat.
        replace (tbl inc32table 4) with (0) by reflexivity. replace (tbl dec64table 4) with (-4) by reflexivity.
        repeat split; lia.
      - exists 5, 1%nat, 2%nat.
        replace (tbl inc32table 5) with (4) by reflexivity. replace (tbl dec64table 5) with (1) by reflexivity.
        repeat split; lia.
      - exists 6, 1%nat, 2%nat.
        replace (tbl inc32table 6) with (4) by reflexivity. replace (tbl dec64table 6) with (2) by reflexivity.
        repeat split; lia.
      - exists 7, 1%nat, 2%nat.
        replace (tbl inc32table 7) with (4) by reflexivity. replace (tbl dec64table 7) with (3) by reflexivity.
        repeat split; lia.
    }
    set (s1 := d - off + tbl inc32table off) in *.
    assert (Es1 : s1 = d + 4 - g) by lia.
    destruct (memcpy_lz mb (d + 4) g 4) as [Sc Rc]; [lia|].
    rewrite <- Es1 in Sc, Rc.
    set (mc := memcpy_k mb (d + 4) s1 4) in *.
    split; [|split].
    + eapply same_below_trans; [|exact Sc | lia].
      eapply same_below_trans; [exact Sa | exact Sb | lia].
    + replace (d + 8) with (d + 4 + Z.of_nat 4) by lia.
      replace d with ((d - off) + off) at 1 by lia.
      apply period_extend with (k := kg) (hi := d + 4).
      * exact Ho.
      * exact Hkg.
      * replace (d - off + off) with d by lia.
        eapply lzrec_same_below; [exact Rb | exact Sc | lia].
      * rewrite <- Hgk. exact Rc.
      * lia.
      * lia.
    + exists kd. split; [exact Hkd|]. split; [lia | lia].
  - (* offset >= 8: one 8-byte copy *)
    destruct (memcpy_lz m d off 8) as [S R]; [lia|].
    split; [exact S|]. split; [exact R|].
    exists 1%nat. split; [lia|]. split; [lia | lia].
Qed.

(* everything copied after [first8] uses distance D = k*off from [d+8] on *)
Lemma after_first8 m1 m2 d off D (k : nat) e :
  1 <= off -> (1 <= k)%nat -> D = Z.of_nat k * off -> 8 <= D <= 8 + off ->
  lzrec m1 off d (d + 8) -> same_below m1 m2 (d + 8) -> lzrec m2 D (d + 8) e ->
  lzrec m2 off d (Z.max e (d + 8)).
Proof.
  intros Ho Hk HD HDr R1 S R2.
  destruct (Z_lt_ge_dec e (d + 8)).
  { eapply lzrec_weaken; [eapply lzrec_same_below; [exact R1 | exact S | lia] | lia | lia]. }
  replace (Z.max e (d + 8)) with e by lia.
  replace d with ((d - off) + off) by lia.
  apply period_extend with (k := k) (hi := d + 8).
  - exact Ho.
  - exact Hk.
  - replace (d - off + off) with d by lia. eapply lzrec_same_below; [exact R1 | exact S | lia].
  - rewrite <- HD. exact R2.
  - lia.
  - lia.
Qed.

(* the 18-byte copy of the shortcuts, distance >= 8 *)
Lemma copy18_lz m d off :
  8 <= off ->
  let m' := copy18 m d (d - off) in
  same_below m m' d /\ lzrec m' off d (d + 18).
Proof.
  intros Ho. cbv zeta. unfold copy18.
  destruct (memcpy_lz m d off 8) as [S0 R0]; [lia|].
  set (m1 := memcpy_k m d (d - off) 8) in *.
  destruct (memcpy_lz m1 (d + 8) off 8) as [S1 R1]; [lia|].
  replace (d + 8 - off) with (d - off + 8) in * by lia.
  set (m2 := memcpy_k m1 (d + 8) (d - off + 8) 8) in *.
  destruct (memcpy_lz m2 (d + 16) off 2) as [S2 R2]; [lia|].
  replace (d + 16 - off) with (d - off + 16) in * by lia.
  set (m3 := memcpy_k m2 (d + 16) (d - off + 16) 2) in *.
  split.
  - eapply same_below_trans; [|exact S2 | lia].
    eapply same_below_trans; [exact S0 | exact S1 | lia].
  - replace (d + 18) with (d + 16 + Z.of_nat 2) by lia.
    eapply lz_compose; [|exact S2 | exact R2 | lia].
    replace (d + 16) with (d + 8 + Z.of_nat 8) by lia.
    eapply lz_compose; [exact R0 | exact S1 | exact R1 | lia].
Qed.

(* ---------- LZ4_memcpy_using_offset: the pattern stores for offsets 1, 2, 4 ---------- *)
Lemma get_store_rep : forall k m d v x,
  length v = 8%nat ->
  get (store_rep k m d v) x =
  if (d <=? x) && (x <? d + 8 * Z.of_nat k) then nth (Z.to_nat ((x - d) mod 8)) v 0 else get m x.
Proof.
  induction k as [|k IH]; intros m d v x Hv.
  - cbn [store_rep]. destruct ((d <=? x) && (x <? d + 8 * Z.of_nat 0)) eqn:E; [lia | reflexivity].
  - cbn [store_rep]. rewrite IH by exact Hv. rewrite get_store_list, Hv.
    destruct ((d + 8 <=? x) && (x <? d + 8 + 8 * Z.of_nat k)) eqn:E1.
    + assert (E2 : (d <=? x) && (x <? d + 8 * Z.of_nat (S k)) = true) by lia. rewrite E2.
      f_equal. f_equal. Z.div_mod_to_equations. lia.
    + destruct ((d <=? x) && (x <? d + Z.of_nat 8)) eqn:E3.
      * assert (E2 : (d <=? x) && (x <? d + 8 * Z.of_nat (S k)) = true) by lia. rewrite E2.
        f_equal. f_equal. Z.div_mod_to_equations. lia.
      * assert (E2 : (d <=? x) && (x <? d + 8 * Z.of_nat (S k)) = false) by lia. rewrite E2. reflexivity.
Qed.

(* an 8-byte pattern that repeats with period [off] (off divides 8), taken from the bytes before d *)
Lemma store_rep_lz k m d off v :
  length v = 8%nat -> (off = 1 \/ off = 2 \/ off = 4) ->
  (forall j, 0 <= j < 8 -> nth (Z.to_nat j) v 0 = get m (d - off + j mod off)) ->
  let m' := store_rep k m d v in
  same_below m m' d /\ lzrec m' off d (d + 8 * Z.of_nat k).
Proof.
  intros Hv Hoff Hpat. cbv zeta. split.
  - intros a Ha. rewrite get_store_rep by exact Hv.
    destruct ((d <=? a) && (a <? d + 8 * Z.of_nat k)) eqn:E; [lia | reflexivity].
  - intros x Hx. rewrite !get_store_rep by exact Hv.
    assert (E1 : (d <=? x) && (x <? d + 8 * Z.of_nat k) = true) by lia. rewrite E1.
    pose proof (Z.mod_pos_bound (x - d) 8 ltac:(lia)) as Hr.
    rewrite (Hpat ((x - d) mod 8)) by lia.
    destruct ((d <=? x - off) && (x - off <? d + 8 * Z.of_nat k)) eqn:E2.
    + pose proof (Z.mod_pos_bound (x - off - d) 8 ltac:(lia)) as Hr2.
      rewrite (Hpat ((x - off - d) mod 8)) by lia.
      f_equal. f_equal.
      destruct Hoff as [->|[->| ->]]; Z.div_mod_to_equations; lia.
    + f_equal.
      assert (Hsmall : x - d < off) by lia.
      destruct Hoff as [->|[->| ->]]; Z.div_mod_to_equations; lia.
Qed.

Lemma using_offset_base_lz m d off e :
  1 <= off ->
  let m' := using_offset_base m d (d - off) e off in
  same_below m m' d /\ lzrec m' off d (Z.max e (d + 8)).
Proof.
  intros Ho. cbv zeta. unfold using_offset_base.
  pose proof (first8_lz m d off Ho) as F.
  destruct (first8 m d (d - off) off) as [m1 mat2].
  destruct F as (S1 & R1 & k & Hk & HD & HDr).
  set (D := d + 8 - mat2) in *.
  destruct (wild8_lz m1 (d + 8) D e) as [S2 R2]; [lia|].
  replace (d + 8 - D) with mat2 in S2, R2 by (unfold D; lia).
  split.
  - eapply same_below_trans; [exact S1 | exact S2 | lia].
  - apply (after_first8 m1 _ d off D k e Ho Hk HD HDr R1 S2 R2).
Qed.

Ltac conc :=
  repeat match goal with
  | |- context [Z.to_nat ?c] => let v := eval vm_compute in (Z.to_nat c) in change (Z.to_nat c) with v
  | |- context [?a mod ?b] => let v := eval vm_compute in (a mod b) in change (a mod b) with v
  end; cbn [nth].

Lemma using_offset_lz m d off e :
  1 <= off ->
  let m' := using_offset m d (d - off) e off in
  same_below m m' d /\ lzrec m' off d e.
Proof.
  intros Ho. cbv zeta. unfold using_offset.
  pose proof (wild_iters_cover 8 d e ltac:(lia)) as Hc.
  assert (Hj : forall j, 0 <= j < 8 -> j = 0 \/ j = 1 \/ j = 2 \/ j = 3 \/ j = 4 \/ j = 5 \/ j = 6 \/ j = 7) by (intros; lia).
  destruct (off =? 1) eqn:E1.
  - assert (off = 1) by lia. subst off.
    destruct (store_rep_lz (wild_iters 8 d e) m d 1
                [get m (d - 1); get m (d - 1); get m (d - 1); get m (d - 1); get m (d - 1); get m (d - 1); get m (d - 1); get m (d - 1)]) as [S R].
    + reflexivity.
    + left; reflexivity.
    + intros j Hjr. rewrite Z.mod_1_r. replace (d - 1 + 0) with (d - 1) by lia.
      destruct (Hj j Hjr) as [->|[->|[->|[->|[->|[->|[->| ->]]]]]]]; reflexivity.
    + split; [exact S|]. eapply lzrec_weaken; [exact R | lia | lia].
  - destruct (off =? 2) eqn:E2.
    + assert (off = 2) by lia. subst off.
      destruct (store_rep_lz (wild_iters 8 d e) m d 2
                  [get m (d - 2); get m (d - 2 + 1); get m (d - 2); get m (d - 2 + 1); get m (d - 2); get m (d - 2 + 1); get m (d - 2); get m (d - 2 + 1)]) as [S R].
      * reflexivity.
      * right; left; reflexivity.
      * intros j Hjr.
        destruct (Hj j Hjr) as [->|[->|[->|[->|[->|[->|[->| ->]]]]]]]; conc; f_equal; lia.
      * split; [exact S|]. eapply lzrec_weaken; [exact R | lia | lia].
    + destruct (off =? 4) eqn:E4.
      * assert (off = 4) by lia. subst off.
        destruct (store_rep_lz (wild_iters 8 d e) m d 4
                    [get m (d - 4); get m (d - 4 + 1); get m (d - 4 + 2); get m (d - 4 + 3); get m (d - 4); get m (d - 4 + 1); get m (d - 4 + 2); get m (d - 4 + 3)]) as [S R].
        -- reflexivity.
        -- right; right; reflexivity.
        -- intros j Hjr.
           destruct (Hj j Hjr) as [->|[->|[->|[->|[->|[->|[->| ->]]]]]]]; conc; f_equal; lia.
        -- split; [exact S|]. eapply lzrec_weaken; [exact R | lia | lia].
      * destruct (using_offset_base_lz m d off e Ho) as [S R].
        split; [exact S|]. eapply lzrec_weaken; [exact R | lia | lia].
Qed.

(* ---------- link with the specification's byte-by-byte copy ---------- *)
(* [rout] is the output so far, most recent byte first; it sits just below [op] *)
Definition out_at (f : Z -> Z) (op : Z) (rout : list Z) : Prop :=
  forall j, (j < length rout)%nat -> f (op - 1 - Z.of_nat j) = nth j rout 0.

Lemma out_at_ext (f g : Z -> Z) op rout :
  out_at f op rout -> (forall a, a < op -> g a = f a) -> out_at g op rout.
Proof. intros H S j Hj. rewrite S by lia. apply H. exact Hj. Qed.

Lemma out_at_same_below m m' op rout : out_at (get m) op rout -> same_below m m' op -> out_at (get m') op rout.
Proof. intros H S. eapply out_at_ext; [exact H | exact S]. Qed.

Lemma copy_match_length : forall n rout off rout',
  copy_match rout off n = Some rout' -> length rout' = (length rout + n)%nat.
Proof.
  induction n as [|n IH]; intros rout off rout' H; cbn [copy_match] in H.
  - inversion H. lia.
  - destruct (nth_error rout (off - 1)) as [b|]; [|discriminate].
    apply IH in H. cbn [length] in H. lia.
Qed.

Lemma copy_match_off : forall n rout off rout',
  copy_match rout off (S n) = Some rout' -> (off - 1 < length rout)%nat.
Proof.
  intros n rout off rout' H. cbn [copy_match] in H.
  destruct (nth_error rout (off - 1)) as [b|] eqn:E; [|discriminate].
  apply nth_error_Some. rewrite E. discriminate.
Qed.

Lemma copy_match_out : forall n (f : Z -> Z) op rout off rout',
  (1 <= off)%nat ->
  copy_match rout off n = Some rout' ->
  out_at f op rout -> frec f (Z.of_nat off) op (op + Z.of_nat n) ->
  out_at f (op + Z.of_nat n) rout'.
Proof.
  induction n as [|n IH]; intros f op rout off rout' Ho H O R.
  - cbn [copy_match] in H. inversion H; subst. replace (op + Z.of_nat 0) with op by lia. exact O.
  - cbn [copy_match] in H.
    destruct (nth_error rout (off - 1)) as [b|] eqn:E; [|discriminate].
    assert (Hlt : (off - 1 < length rout)%nat) by (apply nth_error_Some; rewrite E; discriminate).
    assert (Hb : f op = b).
    { rewrite (R op) by lia.
      replace (op - Z.of_nat off) with (op - 1 - Z.of_nat (off - 1)) by lia.
      rewrite O by exact Hlt. apply nth_error_nth. exact E. }
    replace (op + Z.of_nat (S n)) with (op + 1 + Z.of_nat n) by lia.
    apply (IH f (op + 1) (b :: rout) off rout' Ho H).
    + intros j Hj. destruct j as [|j].
      * cbn [nth]. replace (op + 1 - 1 - Z.of_nat 0) with op by lia. exact Hb.
      * cbn [nth]. cbn [length] in Hj.
        replace (op + 1 - 1 - Z.of_nat (S j)) with (op - 1 - Z.of_nat j) by lia. apply O. lia.
    + intros a Ha. apply R. lia.
Qed.

(* a prefix of the copy: the first [n] bytes of a longer match *)
Lemma copy_match_prefix : forall n k rout off rout',
  copy_match rout off (n + k) = Some rout' ->
  exists r1, copy_match rout off n = Some r1 /\ copy_match r1 off k = Some rout'.
Proof.
  induction n as [|n IH]; intros k rout off rout' H.
  - exists rout. split; [reflexivity | exact H].
  - cbn [Nat.add copy_match] in H |- *.
    destruct (nth_error rout (off - 1)) as [b|]; [|discriminate].
    apply IH. exact H.
Qed.

(* literals: the bytes [lits] placed at [op, op+|lits|) *)
Lemma lits_out (f : Z -> Z) op rout lits :
  out_at f op rout ->
  (forall j, (j < length lits)%nat -> f (op + Z.of_nat j) = nth j lits 0) ->
  out_at f (op + Z.of_nat (length lits)) (rev lits ++ rout).
Proof.
  intros O L j Hj. rewrite app_length, rev_length in Hj.
  destruct (Nat.lt_ge_cases j (length lits)) as [Hlt|Hge].
  - rewrite app_nth1 by (rewrite rev_length; exact Hlt).
    rewrite rev_nth by exact Hlt.
    replace (op + Z.of_nat (length lits) - 1 - Z.of_nat j) with (op + Z.of_nat (length lits - S j)) by lia.
    apply L. lia.
  - rewrite app_nth2 by (rewrite rev_length; exact Hge). rewrite rev_length.
    replace (op + Z.of_nat (length lits) - 1 - Z.of_nat j) with (op - 1 - Z.of_nat (j - length lits)) by lia.
    apply O. lia.
Qed.

(* ---------- the closed periodic form of DESIGN section 3 ---------- *)
Definition lzcopy (m : mem) (d off n a : Z) : Z :=
  if (d <=? a) && (a <? d + n) then get m (d - off + (a - d) mod off) else get m a.

Lemma lzrec_lzcopy m m' d off n :
  1 <= off -> same_below m m' d -> lzrec m' off d (d + n) ->
  forall a, a < d + n -> get m' a = lzcopy m d off n a.
Proof.
  intros Ho S R a Ha. unfold lzcopy.
  destruct ((d <=? a) && (a <? d + n)) eqn:E; [|apply S; lia].
  assert (Hq : 0 <= (a - d) / off) by (apply Z.div_pos; lia).
  pose proof (Z.div_mod (a - d) off ltac:(lia)) as Hdm.
  pose proof (Z.mod_pos_bound (a - d) off ltac:(lia)) as Hmb.
  set (q := (a - d) / off) in *. set (r := (a - d) mod off) in *. clearbody q r.
  assert (G : forall k : nat, forall x, d - off <= x - Z.of_nat k * off -> x < d + n ->
              x - Z.of_nat k * off < d -> get m' x = get m (x - Z.of_nat k * off)).
  { induction k as [|k IHk]; intros x H1 H2 H3.
    - replace (x - Z.of_nat 0 * off) with x in * by lia. apply S. lia.
    - destruct (Z_lt_ge_dec x d) as [Hx|Hx]; [nia|].
      rewrite (R x) by lia. rewrite (IHk (x - off)) by nia. f_equal. nia. }
  rewrite (G (Z.to_nat (q + 1)) a) by nia.
  f_equal. nia.
Qed.
