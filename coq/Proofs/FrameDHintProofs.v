(* The hint of LZ4F_decompress against the frame bytes not yet consumed, stage by stage.
   [stop_hint s] is the value the stage machine of Model/FrameD.v returns when it stops (doAnotherStage = 0)
   in state s - the nextSrcSizeHint formulas of lz4frame.c read off the post-state.
   hint_state_bound: at every CInv position (Proofs/FrameDChunk.v) of a specification-valid frame, in every
   stage except the two header-staging ones, stop_hint s <= number of frame bytes still to come. *)
From Coq Require Import ZArith List Lia Bool.
From LZ4V Require Import Spec.BlockSpec Spec.XXH32 Spec.FrameSpec Gen.Consts Model.FrameD.
From LZ4V Require Import Proofs.FrameDHeader Proofs.FrameDProofs Proofs.FrameDSound Proofs.FrameDBisim Proofs.FrameDChunk Proofs.FrameDHint.
Import ListNotations.
Local Open Scope Z_scope.

Definition stop_hint (s : dstate) : Z :=
  match d_stage s with
  | StoreFrameHeader => (d_tmpInTarget s - d_tmpInSize s) + FD_BHSize
  | GetCBlock => FD_BHSize + d_tmpInTarget s
  | StoreBlockHeader => FD_BHSize - d_tmpInSize s
  | CopyDirect => d_tmpInTarget s + bcsize s + FD_BHSize
  | GetBlockChecksum => 1
  | FlushOut => FD_BHSize
  | StoreCBlock => (d_tmpInTarget s - d_tmpInSize s) + FD_BHSize
  | StoreSuffix => 4 - d_tmpInSize s
  | _ => 0
  end.

(* ---- the header-staging stage ---- *)
Lemma hdr_stage_bound bdec dict p s g res :
  d_stage s = StoreFrameHeader -> wf s -> pre (d_header s) (d_tmpInSize s) = p ->
  bytes_ok p = true -> bytes_ok g = true ->
  frame_decode bdec false dict (p ++ g) = Some res ->
  (d_tmpInTarget s - d_tmpInSize s) + FD_BHSize <= zlen g.
Proof.
  intros Hs (_ & _ & SI) Hp Hbp Hbg G. unfold stage_inv in SI. rewrite Hs in SI. destruct SI as (Sz & Tg & HE).
  assert (Lp : zlen p = d_tmpInSize s) by (rewrite <- Hp; apply pre_length; lia).
  assert (Hall : bytes_ok (p ++ g) = true) by (rewrite bytes_ok_app, Hbp, Hbg; reflexivity).
  remember (p ++ g) as all eqn:Eall.
  assert (La : zlen all = zlen p + zlen g) by (rewrite Eall; apply zlen_app).
  unfold frame_decode in G.
  destruct (take 4 all) as [[mg r]|] eqn:T; [|discriminate].
  destruct (le_val mg =? MAGIC) eqn:EM; [|discriminate]. apply Z.eqb_eq in EM.
  destruct (parse_desc r) as [[d r1]|] eqn:PD; [|discriminate].
  destruct (bsid_size (f_bsid d)) as [maxb|]; [|discriminate].
  assert (L1 : 4 <= zlen r1).
  { cbn [blocks] in G. destruct (take 4 r1) as [[szb r2]|] eqn:T1; [|discriminate].
    apply take_zlen in T1. pose proof (zlen_nonneg r2). lia. }
  destruct all as [|m0 [|m1 [|m2 [|m3 rest]]]]; try discriminate T.
  cbn in T. inversion T; subst mg r. clear T.
  assert (Hbr : bytes_ok rest = true).
  { unfold bytes_ok in *. cbn [forallb] in Hall. repeat (apply andb_prop in Hall; destruct Hall as [_ Hall]). exact Hall. }
  pose proof (headerSize_spec m0 m1 m2 m3 rest d r1 Hbr EM PD) as HS.
  destruct rest as [|FLG rest']; [cbn in PD; discriminate PD|].
  unfold headerSize in HS.
  replace (zlen (m0 :: m1 :: m2 :: m3 :: FLG :: rest') <? FD_MIN_SIZE_TO_KNOW_HEADER_LENGTH) with false in HS
    by (symmetry; apply Z.ltb_ge; unfold zlen; cbn [length]; unfold FD_MIN_SIZE_TO_KNOW_HEADER_LENGTH; lia).
  assert (Erd : rd32 (m0 :: m1 :: m2 :: m3 :: FLG :: rest') = FD_MAGICNUMBER).
  { unfold rd32, ztake. change (firstn (Z.to_nat 4) (m0 :: m1 :: m2 :: m3 :: FLG :: rest')) with [m0; m1; m2; m3].
    rewrite EM. reflexivity. }
  rewrite Erd in HS. cbn [negb nth_error] in HS.
  change (Z.land FD_MAGICNUMBER SKIP_MASK =? FD_MAGIC_SKIPPABLE_START) with false in HS.
  change (FD_MAGICNUMBER =? FD_MAGICNUMBER) with true in HS. cbn [negb] in HS.
  assert (Hfh : forall a b, FD_minFHSize <= fh_size a b).
  { intros a b. unfold fh_size. destruct (a =? 0), (b =? 0); lia. }
  unfold FD_BHSize.
  destruct HE as [E7 | (Zh & L7 & _ & FLG' & bm & bc & cs & cc & di & Hn & Hf & Ht)].
  - pose proof (Hfh (Z.land (Z.shiftr FLG 3) 1) (Z.land FLG 1)). lia.
  - assert (Ep : p = d_header s) by (rewrite <- Hp; apply pre_full; exact Zh).
    assert (FLG' = FLG).
    { assert (N : nth_error (p ++ g) 4 = Some FLG').
      { rewrite nth_error_app1; [rewrite Ep; exact Hn|]. unfold zlen in Lp. unfold FD_minFHSize in L7. lia. }
      rewrite <- Eall in N. cbn in N. congruence. }
    subst FLG'. unfold flg_decode in Hf. cbv zeta in Hf.
    destruct (negb _); [discriminate|]. destruct (negb _); [discriminate|].
    inversion Hf; subst. lia.
Qed.

Section Bound.
Variable bdec : list byte -> list byte -> option (list byte).
Variable skip : bool.
Variable dict : list byte.

Lemma take_zlen' n (l a b : list byte) : take n l = Some (a, b) -> zlen l = Z.of_nat n + zlen b.
Proof. apply take_zlen. Qed.

Lemma E_header_len d maxb acc bs res : E_header bdec false d maxb dict acc bs res -> 4 <= zlen bs.
Proof.
  intros [F H]. destruct F as [|F]; [discriminate|]. cbn [blocks] in H.
  destruct (take 4 bs) as [[szb r]|] eqn:T; [|discriminate].
  apply take_zlen' in T. pose proof (zlen_nonneg r). lia.
Qed.
Lemma E_after_len d maxb acc c rest res : E_after bdec false d maxb dict acc c rest res -> 4 <= zlen rest.
Proof. intros [_ H]. eapply E_header_len. exact H. Qed.
Lemma E_bcrc_len d maxb acc data c bs res :
  E_bcrc bdec false d maxb dict acc data c bs res -> crc4 (f_bcrc d) + 4 <= zlen bs.
Proof.
  unfold E_bcrc, crc4. destruct (f_bcrc d).
  - intros (cb & r2 & T & _ & H). apply take_zlen' in T. apply E_after_len in H. lia.
  - intros H. apply E_after_len in H. lia.
Qed.
Lemma X_comp_len d maxb acc n bs res : 0 <= n ->
  X_comp bdec false d maxb dict acc n bs res -> n + crc4 (f_bcrc d) + 4 <= zlen bs.
Proof.
  intros Hn (data & r1 & c & T & _ & H). apply take_zlen' in T. apply E_bcrc_len in H. lia.
Qed.
Lemma E_C_len d maxb acc0 data1 m g res : 0 <= m ->
  E_C bdec dict false d maxb acc0 data1 m g res -> m + crc4 (f_bcrc d) + 4 <= zlen g.
Proof.
  intros Hm (data2 & r1 & T & H). apply take_zlen' in T. apply E_bcrc_len in H. lia.
Qed.

Lemma bcsize_binv sk d maxb acc s : binv sk d maxb dict acc s -> bcsize s = crc4 (f_bcrc d).
Proof.
  intros (B1 & _). unfold bcsize. rewrite B1. unfold fi_of_desc. cbn [fi_bcFlag]. unfold crc4, FD_BFSize.
  destruct (f_bcrc d); reflexivity.
Qed.

Theorem hint_state_bound : forall p O s g res,
  CInv bdec skip dict p O s -> wf s ->
  frame_decode bdec false dict (p ++ g) = Some res -> bytes_ok g = true ->
  stop_hint s <= zlen g.
Proof.
  intros p O s g res C Hwf G Hbg.
  pose proof (zlen_nonneg g) as Hg.
  unfold stop_hint.
  destruct C as [Hs -> -> Hrem Hh Hsk | Hs -> Hrem Hh Hsk Hp Hbp | d maxb Hs -> B HK | d maxb Hs B HK
                | d maxb t Hs B Ht Hbt HK | d maxb acc0 data1 Hs -> B Htg Hm Hx HK
                | d maxb acc0 data t Hs -> B EB Hd Hx Ht Hbt HK | d maxb n Hs B Htg Hn HK
                | d maxb n t Hs B Htg Hn Ht Hbt HK | d maxb acc0 Hs HOe B Hm HK | d maxb Hs B HK
                | d maxb t Hs B EC ER Ht Hbt HK | -> HS]; try (rewrite Hs); try lia.
  - (* StoreFrameHeader *)
    exact (hdr_stage_bound bdec dict p s g res Hs Hwf Hp Hbp Hbg G).
  - (* StoreBlockHeader *)
    destruct Hwf as (_ & _ & SI). unfold stage_inv in SI. rewrite Hs in SI. destruct SI as [_ SI].
    apply (proj2 HK) in G. apply E_header_len in G. rewrite zlen_app in G.
    rewrite <- Ht, pre_length in G by lia. unfold FD_BHSize. lia.
  - (* CopyDirect *)
    apply (proj2 HK) in G. apply E_C_len in G; [|exact Htg].
    rewrite (bcsize_binv _ _ _ _ _ B). unfold FD_BHSize. lia.
  - (* GetBlockChecksum *)
    destruct Hwf as (_ & _ & SI). unfold stage_inv in SI. rewrite Hs in SI. destruct SI as [_ SI].
    apply (proj2 HK) in G. destruct G as (cb & r2 & T & _ & A).
    apply take_zlen' in T. apply E_after_len in A. rewrite zlen_app in T.
    rewrite <- Ht, pre_length in T by lia. lia.
  - (* GetCBlock *)
    apply (proj2 HK) in G. apply X_comp_len in G; [|lia]. rewrite Htg. unfold FD_BHSize. lia.
  - (* StoreCBlock *)
    destruct Hwf as (_ & _ & SI). unfold stage_inv in SI. rewrite Hs in SI. destruct SI as [_ [SI _]].
    apply (proj2 HK) in G. apply X_comp_len in G; [|lia]. rewrite zlen_app in G.
    rewrite <- Ht, pre_length in G by lia. rewrite Htg. unfold FD_BHSize. lia.
  - (* FlushOut *)
    apply (proj2 HK) in G. apply E_header_len in G. unfold FD_BHSize. lia.
  - (* StoreSuffix *)
    destruct Hwf as (_ & _ & SI). unfold stage_inv in SI. rewrite Hs in SI. destruct SI as [_ SI].
    apply (proj2 HK) in G. unfold E_suffix in G. rewrite EC in G. destruct G as (cb & r1 & T & _).
    apply take_zlen' in T. rewrite zlen_app in T. rewrite <- Ht, pre_length in T by lia.
    pose proof (zlen_nonneg r1). lia.
  - (* inside a skippable frame: not a frame the specification accepts *)
    destruct HS as (_ & _ & K). destruct (d_stage s); try contradiction; lia.
Qed.
End Bound.

(* ---- the value returned by a stopping stage IS stop_hint of the state it leaves ---- *)
Section Ret.
Variable bdec : list byte -> list byte -> option (list byte).

Definition hint_ok (r : lst * outcome) : Prop :=
  forall h, snd r = Stop h -> h = 0 \/ in_skip (d_stage (l_s (fst r))) = true \/ h = stop_hint (l_s (fst r)).

Lemma ho_checkSuffix l sel : hint_ok (do_checkSuffix l sel).
Proof. unfold hint_ok, do_checkSuffix. destruct (_ && _); cbn [snd]; intros h H; inversion H; auto. Qed.
Lemma ho_storeSuffix l : d_stage (l_s l) = StoreSuffix -> hint_ok (do_storeSuffix l).
Proof.
  intros St. unfold do_storeSuffix. cbv zeta. destruct (_ <? _) eqn:E; [|apply ho_checkSuffix].
  intros h H. cbn [snd] in H. inversion H. right. right. unfold stop_hint. ss. rewrite St. reflexivity.
Qed.
Lemma ho_getSuffix l : hint_ok (do_getSuffix l).
Proof.
  unfold do_getSuffix. cbv zeta. destruct (negb _); [intros h H; discriminate|].
  destruct (_ =? 0); [intros h H; inversion H; auto|].
  destruct (_ <? 4); [apply ho_storeSuffix; reflexivity|apply ho_checkSuffix].
Qed.
Lemma ho_bcc l crc : hint_ok (do_blockChecksum_check l crc).
Proof. unfold hint_ok, do_blockChecksum_check. destruct (_ && _); cbn [snd]; intros h H; discriminate. Qed.
Lemma ho_getBlockChecksum l : d_stage (l_s l) = GetBlockChecksum -> hint_ok (do_getBlockChecksum l).
Proof.
  intros St. unfold do_getBlockChecksum. cbv zeta. destruct (_ && _); [apply ho_bcc|].
  destruct (_ <? 4); [|apply ho_bcc].
  intros h H. cbn [snd] in H. inversion H. right. right. unfold stop_hint. ss. rewrite St. reflexivity.
Qed.

Lemma ho_flushOut o l : d_stage (l_s l) = FlushOut -> hint_ok (do_flushOut o l).
Proof.
  intros St. unfold hint_ok, do_flushOut. cbv zeta.
  destruct (o_dstnull o).
  - destruct (_ =? _); cbn [snd fst]; intros h H; inversion H. right. right. unfold stop_hint. rewrite St. reflexivity.
  - match goal with |- context [upd_link ?s0 ?p0] => pose proof (upd_link_core s0 p0) as (_ & CS & _) end.
    destruct (_ =? _); cbn [snd fst]; intros h H; inversion H. right. right. unfold stop_hint. ss. rewrite CS, St. reflexivity.
Qed.

Lemma ho_cblock o l sel : hint_ok (do_cblock bdec o l sel).
Proof.
  unfold do_cblock. cbv zeta.
  destruct (fi_bcFlag (d_fi (l_s l)) =? 0).
  - cbv iota beta. cbn [negb]. cbv iota.
    destruct (match bdec _ _ with Some c => _ | None => None end) as [c|]; [|intros h H; discriminate].
    destruct (_ <=? _); [intros h H; discriminate|]. apply ho_flushOut. reflexivity.
  - cbv iota beta.
    destruct (negb _); [intros h H; discriminate|].
    destruct (match bdec _ _ with Some c => _ | None => None end) as [c|]; [|intros h H; discriminate].
    destruct (_ <=? _); [intros h H; discriminate|]. apply ho_flushOut. reflexivity.
Qed.

Lemma ho_getCBlock o l : hint_ok (do_getCBlock bdec o l).
Proof. unfold do_getCBlock. cbv zeta. destruct (_ <? _); [intros h H; discriminate|apply ho_cblock]. Qed.

Lemma ho_storeCBlock o l : d_stage (l_s l) = StoreCBlock -> hint_ok (do_storeCBlock bdec o l).
Proof.
  intros St. unfold do_storeCBlock. cbv zeta. destruct (_ <? _); [|apply ho_cblock].
  intros h H. cbn [snd] in H. inversion H. right. right. unfold stop_hint. ss. rewrite St. reflexivity.
Qed.

Lemma ho_copyDirect o l : d_stage (l_s l) = CopyDirect -> hint_ok (do_copyDirect o l).
Proof.
  intros St. unfold hint_ok, do_copyDirect. cbv zeta.
  destruct (o_dstnull o); cbv iota beta.
  - destruct (_ =? _); [destruct (_ =? 0); cbn [snd]; intros h H; discriminate|].
    cbn [snd fst]. intros h H. inversion H. right. right. unfold stop_hint, bcsize. ss. rewrite St. reflexivity.
  - match goal with |- context [upd_copy ?s0 ?p0 ?n0] => pose proof (upd_copy_core s0 p0 n0) as (CF & CS & _) end.
    ss. destruct (_ =? _); [destruct (_ =? 0); cbn [snd]; intros h H; discriminate|].
    cbn [snd fst]. intros h H. inversion H. right. right. unfold stop_hint, bcsize. ss. rewrite CS, St. reflexivity.
Qed.

Lemma Stop_inj a b : Stop a = Stop b -> a = b.
Proof. congruence. Qed.
Lemma ho_blockHeader l sel : hint_ok (do_blockHeader l sel).
Proof.
  unfold hint_ok, do_blockHeader. cbv zeta.
  destruct (_ =? 0); [intros h H; discriminate|]. destruct (_ <? _); [intros h H; discriminate|].
  destruct (negb _); [intros h H; discriminate|].
  destruct (_ || _); cbn [snd fst]; intros h H; [|discriminate].
  apply Stop_inj in H. right. right. unfold stop_hint. cbn [d_stage set_stage set_tmpInTarget d_tmpInTarget l_s with_s fst d_fi]. lia.
Qed.
Lemma ho_storeBlockHeader l : d_stage (l_s l) = StoreBlockHeader -> hint_ok (do_storeBlockHeader l).
Proof.
  intros St. unfold do_storeBlockHeader. cbv zeta. destruct (_ <? _); [|apply ho_blockHeader].
  intros h H. cbn [snd] in H. inversion H. right. right. unfold stop_hint. ss. rewrite St. reflexivity.
Qed.
Lemma ho_getBlockHeader l : hint_ok (do_getBlockHeader l).
Proof. unfold do_getBlockHeader. destruct (_ <=? _); [apply ho_blockHeader|apply ho_storeBlockHeader; reflexivity]. Qed.

Lemma ho_storeFrameHeader l : d_stage (l_s l) = StoreFrameHeader -> hint_ok (do_storeFrameHeader l).
Proof.
  intros St. unfold hint_ok, do_storeFrameHeader. cbv zeta. destruct (_ <? _).
  - cbn [snd fst]. intros h H. apply Stop_inj in H. right. right. unfold stop_hint. ss. rewrite St. lia.
  - destruct (decodeHeader _ _ _) as [s' r]. destruct (r <? 0); cbn [snd]; intros h H; discriminate.
Qed.
Lemma ho_getFrameHeader l : hint_ok (do_getFrameHeader l).
Proof.
  unfold do_getFrameHeader. cbv zeta. destruct (_ <=? _).
  - destruct (decodeHeader _ _ _) as [s' r]. destruct (r <? 0); cbn [snd]; intros h H; discriminate.
  - destruct (_ =? 0); [intros h H; discriminate|]. apply ho_storeFrameHeader. reflexivity.
Qed.
Lemma ho_sframeSize l sel : hint_ok (do_sframeSize l sel).
Proof. unfold hint_ok, do_sframeSize. cbv zeta. cbn [snd]. intros h H; discriminate. Qed.
Lemma ho_storeSFrameSize l : d_stage (l_s l) = StoreSFrameSize -> hint_ok (do_storeSFrameSize l).
Proof.
  intros St. unfold do_storeSFrameSize. cbv zeta. destruct (_ <? _); [|apply ho_sframeSize].
  intros h H. right. left. ss. rewrite St. reflexivity.
Qed.
Lemma ho_getSFrameSize l : hint_ok (do_getSFrameSize l).
Proof. unfold do_getSFrameSize. destruct (_ <=? _); [apply ho_sframeSize|apply ho_storeSFrameSize; reflexivity]. Qed.
Lemma ho_skipSkippable l : d_stage (l_s l) = SkipSkippable -> hint_ok (do_skipSkippable l).
Proof.
  intros St. unfold hint_ok, do_skipSkippable. cbv zeta. destruct (negb _); cbn [snd fst]; intros h H.
  - right. left. ss. rewrite St. reflexivity.
  - apply Stop_inj in H. auto.
Qed.

Lemma ho_iter o l : hint_ok (iter bdec o l).
Proof.
  unfold iter. destruct (d_stage (l_s l)) eqn:St.
  - apply ho_getFrameHeader.
  - apply ho_storeFrameHeader; exact St.
  - apply ho_getBlockHeader.
  - apply ho_getBlockHeader.
  - apply ho_storeBlockHeader; exact St.
  - apply ho_copyDirect; exact St.
  - apply ho_getBlockChecksum; exact St.
  - apply ho_getCBlock.
  - apply ho_storeCBlock; exact St.
  - apply ho_flushOut; exact St.
  - apply ho_getSuffix.
  - apply ho_storeSuffix; exact St.
  - apply ho_getSFrameSize.
  - apply ho_storeSFrameSize; exact St.
  - apply ho_skipSkippable; exact St.
Qed.

Lemma run_hint : forall fuel o l l' h,
  run bdec fuel o l = (l', FStop h) -> h = 0 \/ in_skip (d_stage (l_s l')) = true \/ h = stop_hint (l_s l').
Proof.
  induction fuel as [|f IH]; intros o l l' h H; [discriminate|].
  cbn [run] in H. pose proof (ho_iter o l) as HO. unfold hint_ok in HO.
  destruct (iter bdec o l) as [l1 oc]. cbn [fst snd] in HO.
  destruct oc as [|h1|v].
  - eapply IH. exact H.
  - inversion H; subst. apply HO. reflexivity.
  - discriminate.
Qed.
End Ret.

(* a skippable frame is not an LZ4 frame of the specification *)
Lemma skinv_not_valid bdec dict p s g res :
  skinv p s -> frame_decode bdec false dict (p ++ g) = Some res -> False.
Proof.
  intros (L4 & M & _) G. unfold frame_decode in G.
  destruct (take 4 (p ++ g)) as [[mg r]|] eqn:T; [|discriminate].
  destruct (le_val mg =? MAGIC) eqn:E; [|discriminate]. apply Z.eqb_eq in E.
  destruct p as [|a [|b [|c [|d p']]]]; try (unfold zlen in L4; cbn in L4; lia).
  cbn in T. inversion T; subst mg r. clear T G.
  unfold rd32, ztake in M. change (firstn (Z.to_nat 4) (a :: b :: c :: d :: p')) with [a; b; c; d] in M.
  rewrite E in M. vm_compute in M. discriminate.
Qed.

(* ---- one call at a CInv position of a valid frame ---- *)
Section Call.
Variable bdec : list byte -> list byte -> option (list byte).
Variable skip : bool.
Variable dict : list byte.

Theorem call_hint_within_frame : forall s src cap o p O g res l' h,
  o_skip o = skip -> wf s -> BInv bdec skip dict p O s -> bytes_ok src = true -> 0 <= cap ->
  frame_decode bdec false dict (p ++ src ++ g) = Some res ->
  run bdec (call_fuel src) o (mkL (set_skip s (d_skip s || o_skip o)) src 0 [] cap) = (l', FStop h) ->
  0 < h -> bytes_ok g = true ->
  snd (decompress bdec s src cap o) = mkR (l_used l') (zlen (l_out l')) (l_out l') h false /\
  h <= zlen src + zlen g - l_used l'.
Proof.
  intros s src cap o p O g res l' h Ho Hwf HB Hb Hc G HR Hh Hbg.
  pose proof (call_chunk bdec skip dict s src cap o p O Ho Hwf HB Hb Hc) as CC. cbv zeta in CC.
  unfold decompress in *. rewrite HR in *. cbn [fst snd r_ret r_out r_consumed] in CC.
  split; [reflexivity|].
  destruct (CC ltac:(right; exists g, res; exact G)) as [_ CCp].
  destruct (CCp ltac:(lia)) as (x & rest & E1 & E2 & Hwf' & HH).
  replace (h =? 0) with false in HH by lia.
  assert (G' : frame_decode bdec false dict ((p ++ x) ++ rest ++ g) = Some res).
  { rewrite <- app_assoc. rewrite (app_assoc x rest g), <- E1. exact G. }
  destruct (run_hint bdec _ _ _ _ _ HR) as [Z0 | [Sk | Eh]]; [lia| |].
  { (* a skippable-frame stage: impossible on a frame the specification accepts *)
    exfalso. destruct HH as [C | (_ & _ & St & _)]; [|rewrite St in Sk; discriminate].
    destruct C as [Hs _ _ _ _ _ | Hs _ _ _ _ _ _ | d maxb Hs _ _ _ | d maxb Hs _ _
                  | d maxb t Hs _ _ _ _ | d maxb acc0 data1 Hs _ _ _ _ _ _
                  | d maxb acc0 data t Hs _ _ _ _ _ _ _ _ | d maxb n Hs _ _ _ _
                  | d maxb n t Hs _ _ _ _ _ _ | d maxb acc0 Hs _ _ _ _ | d maxb Hs _ _
                  | d maxb t Hs _ _ _ _ _ _ | _ HS]; try (rewrite Hs in Sk; discriminate).
    exact (skinv_not_valid bdec dict _ _ _ _ HS G'). }
  destruct HH as [C | (Pn & _ & AS)].
  - rewrite Eh.
    assert (Hbrg : bytes_ok (rest ++ g) = true).
    { rewrite E1, bytes_ok_app in Hb. apply andb_prop in Hb. rewrite bytes_ok_app, (proj2 Hb), Hbg. reflexivity. }
    pose proof (hint_state_bound bdec skip dict (p ++ x) _ (l_s l') (rest ++ g) res C Hwf' G' Hbrg) as B.
    rewrite zlen_app in B. rewrite E1, zlen_app. lia.
  - (* still at the very start of the frame: the stage is GetFrameHeader, which never stops with a hint *)
    destruct AS as (St & _). rewrite Eh. unfold stop_hint. rewrite St. pose proof (zlen_nonneg g).
    pose proof (zlen_nonneg src). rewrite Eh in Hh. unfold stop_hint in Hh. rewrite St in Hh. lia.
Qed.
End Call.

(* ---- the statement of Proofs/FrameDHint.v, on the repaired model ---- *)
Theorem hint_within_frame : hint_within_frame_statement.
Proof.
  intros bdec frame content k cap o G Hb Hk Hc. cbv zeta. intros Hcons Hret.
  set (src := ztake k frame) in *. set (g := zdrop k frame).
  assert (Ef : frame = src ++ g) by (unfold src, g, ztake, zdrop; symmetry; apply firstn_skipn).
  assert (Hbs : bytes_ok src = true /\ bytes_ok g = true).
  { rewrite Ef, bytes_ok_app in Hb. apply andb_prop in Hb. exact Hb. }
  assert (Lf : zlen frame = zlen src + zlen g) by (rewrite Ef at 1; apply zlen_app).
  assert (HB : BInv bdec (o_skip o) [] [] [] dctx_init) by (right; repeat split; reflexivity).
  assert (G0 : frame_decode bdec false [] ([] ++ src ++ g) = Some (content, [])) by (cbn [app]; rewrite <- Ef; exact G).
  unfold decompress in *.
  destruct (run bdec (call_fuel src) o (mkL (set_skip dctx_init (d_skip dctx_init || o_skip o)) src 0 [] cap)) as [l' f] eqn:HR.
  destruct f as [h|v|]; cbn [snd r_consumed r_ret] in *; [|lia|lia].
  destruct (call_hint_within_frame bdec (o_skip o) [] dctx_init src cap o [] [] g (content, []) l' h
              eq_refl wf_init HB (proj1 Hbs) Hc G0 HR Hret (proj2 Hbs)) as [_ B].
  lia.
Qed.
