(* A statement about the block SPECIFICATION only (Spec/BlockSpec.v):

   if a list of sequences is a *factorisation* of the bytes [s, fin) of a
   virtual byte space [vrd] -- every literal run is the next bytes of the input,
   every match (offset, length) designates bytes that equal the bytes it stands
   for, under the overlapping-copy semantics, and never reaches before [lo], the
   start of the history -- then the specification's decoder, given the history
   bytes [lo, s), decodes the encoded block to exactly the bytes [s, fin).

   Every compressor model (fast, and HC under its search contract) is proved
   correct by showing that it emits such a factorisation. *)
From Coq Require Import ZArith List Lia Bool.
From LZ4V Require Import Spec.BlockSpec Proofs.BlockSpecProofs.
Import ListNotations.
Local Open Scope Z_scope.

Section Factor.
  Variable vrd : Z -> Z.

  Fixpoint bytes (n : nat) (a : Z) : list Z :=
    match n with O => [] | S k => vrd a :: bytes k (a + 1) end.
  Definition seg (a b : Z) : list Z := bytes (Z.to_nat (b - a)) a.

  Lemma bytes_length n a : length (bytes n a) = n.
  Proof. revert a; induction n as [|n IH]; intros a; cbn [bytes length]; [reflexivity | rewrite IH; reflexivity]. Qed.

  Lemma seg_length a b : length (seg a b) = Z.to_nat (b - a).
  Proof. apply bytes_length. Qed.

  Lemma bytes_app n m a : bytes (n + m) a = bytes n a ++ bytes m (a + Z.of_nat n).
  Proof.
    revert a; induction n as [|n IH]; intros a.
    - cbn [Nat.add bytes app]. f_equal. lia.
    - cbn [Nat.add bytes app]. f_equal. rewrite IH. f_equal. f_equal. lia.
  Qed.

  Lemma seg_app a b c : a <= b -> b <= c -> seg a b ++ seg b c = seg a c.
  Proof.
    intros H1 H2. unfold seg.
    replace (Z.to_nat (c - a)) with (Z.to_nat (b - a) + Z.to_nat (c - b))%nat by lia.
    rewrite bytes_app. f_equal. f_equal. lia.
  Qed.

  Lemma seg_nil a b : b <= a -> seg a b = [].
  Proof. intros H. unfold seg. replace (Z.to_nat (b - a)) with 0%nat by lia. reflexivity. Qed.

  Lemma seg_snoc a b : a <= b -> seg a (b + 1) = seg a b ++ [vrd b].
  Proof.
    intros H. rewrite <- (seg_app a b (b + 1)) by lia. f_equal.
    unfold seg. replace (Z.to_nat (b + 1 - b)) with 1%nat by lia. reflexivity.
  Qed.

  Lemma bytes_nth n a j : (j < n)%nat -> nth_error (bytes n a) j = Some (vrd (a + Z.of_nat j)).
  Proof.
    revert a j; induction n as [|n IH]; intros a j Hj; [lia|].
    destruct j as [|j]; cbn [bytes nth_error].
    - f_equal. f_equal. lia.
    - rewrite IH by lia. f_equal. f_equal. lia.
  Qed.

  (* index k of the reversed segment [lo, cur) is the byte at cur - 1 - k *)
  Lemma rev_seg_nth lo cur k :
    0 <= k < cur - lo -> nth_error (rev (seg lo cur)) (Z.to_nat k) = Some (vrd (cur - 1 - k)).
  Proof.
    intros Hk.
    assert (Hlen : length (seg lo cur) = Z.to_nat (cur - lo)) by apply seg_length.
    assert (Hn : nth_error (rev (seg lo cur)) (Z.to_nat k)
                 = nth_error (seg lo cur) (length (seg lo cur) - S (Z.to_nat k))).
    { destruct (nth_error (seg lo cur) (length (seg lo cur) - S (Z.to_nat k))) as [x|] eqn:E.
      - (* use nth / rev_nth through nth_error_nth' *)
        assert (Hlt : (Z.to_nat k < length (seg lo cur))%nat) by lia.
        rewrite (nth_error_nth' (rev (seg lo cur)) 0) by (rewrite rev_length; exact Hlt).
        rewrite rev_nth by exact Hlt.
        rewrite (nth_error_nth' (seg lo cur) 0) in E by lia. exact E.
      - apply nth_error_None in E. lia. }
    rewrite Hn. unfold seg. rewrite bytes_nth by (rewrite bytes_length; lia).
    f_equal. f_equal. rewrite bytes_length. lia.
  Qed.

  (* ---- a match that designates equal bytes is decoded to those bytes ---- *)
  Definition match_ok (lo pos off len : Z) : Prop :=
    1 <= off <= 65535 /\ 4 <= len /\ lo <= pos - off /\
    forall i, 0 <= i < len -> vrd (pos + i) = vrd (pos + i - off).

  Lemma copy_match_seg lo off : forall n cur,
    1 <= off -> lo <= cur - off ->
    (forall i, 0 <= i < Z.of_nat n -> vrd (cur + i) = vrd (cur + i - off)) ->
    copy_match (rev (seg lo cur)) (Z.to_nat off) n = Some (rev (seg lo (cur + Z.of_nat n))).
  Proof.
    induction n as [|n IH]; intros cur Hoff Hlo Heq.
    - cbn [copy_match]. f_equal. f_equal. f_equal. lia.
    - cbn [copy_match].
      replace (Z.to_nat off - 1)%nat with (Z.to_nat (off - 1)) by lia.
      rewrite rev_seg_nth by lia.
      replace (cur - 1 - (off - 1)) with (cur - off) by lia.
      assert (E : vrd cur = vrd (cur - off)).
      { pose proof (Heq 0 ltac:(lia)) as H0. replace (cur + 0) with cur in H0 by lia. exact H0. }
      rewrite <- E.
      assert (Hs : vrd cur :: rev (seg lo cur) = rev (seg lo (cur + 1)))
        by (rewrite seg_snoc by lia; rewrite rev_app_distr; reflexivity).
      unfold byte in *. rewrite Hs.
      rewrite IH; try lia.
      + f_equal. f_equal. f_equal. lia.
      + intros i Hi. replace (cur + 1 + i) with (cur + (i + 1)) by lia. apply Heq. lia.
  Qed.

  (* ---- factorisations ---- *)
  Fixpoint seqs_valid (lo pos : Z) (ss : list seq) : Prop :=
    match ss with
    | [] => True
    | q :: r =>
      let ll := Z.of_nat (length (s_lits q)) in
      s_lits q = seg pos (pos + ll) /\
      match_ok lo (pos + ll) (s_off q) (s_mlen q) /\
      seqs_valid lo (pos + ll + s_mlen q) r
    end.

  Fixpoint seqs_end (pos : Z) (ss : list seq) : Z :=
    match ss with
    | [] => pos
    | q :: r => seqs_end (pos + Z.of_nat (length (s_lits q)) + s_mlen q) r
    end.

  Lemma seqs_end_ge pos ss : (forall q, In q ss -> 0 <= s_mlen q) -> pos <= seqs_end pos ss.
  Proof.
    revert pos; induction ss as [|q r IH]; intros pos H; cbn [seqs_end]; [lia|].
    assert (0 <= s_mlen q) by (apply H; left; reflexivity).
    etransitivity; [|apply IH; intros q' Hq'; apply H; right; exact Hq']. lia.
  Qed.

  Lemma seqs_valid_mlen lo pos ss : seqs_valid lo pos ss -> forall q, In q ss -> 4 <= s_mlen q.
  Proof.
    revert pos; induction ss as [|q r IH]; intros pos H q' Hin; [destruct Hin|].
    cbn [seqs_valid] in H. destruct H as (_ & Hm & Hr).
    destruct Hin as [<-|Hin]; [destruct Hm as (_ & H4 & _); exact H4 | eapply IH; eauto].
  Qed.

  Lemma apply_seqs_valid lo : forall ss pos,
    lo <= pos -> seqs_valid lo pos ss ->
    apply_seqs (rev (seg lo pos)) ss = Some (rev (seg lo (seqs_end pos ss))).
  Proof.
    induction ss as [|q r IH]; intros pos Hlo Hv; cbn [apply_seqs seqs_end]; [reflexivity|].
    cbn [seqs_valid] in Hv. destruct Hv as (Hl & (Hoff & Hml & Hsrc & Heq) & Hr).
    set (ll := Z.of_nat (length (s_lits q))) in *.
    unfold apply_seq, off_ok.
    replace ((1 <=? s_off q) && (s_off q <=? 65535) && (4 <=? s_mlen q)) with true
      by (symmetry; apply andb_true_intro; split; [apply andb_true_intro; split|]; apply Z.leb_le; lia).
    rewrite Hl at 1. rewrite <- rev_app_distr. rewrite seg_app by lia.
    rewrite (copy_match_seg lo (s_off q) (Z.to_nat (s_mlen q)) (pos + ll)); try lia.
    2:{ intros i Hi. apply Heq. lia. }
    rewrite Z2Nat.id by lia.
    apply IH; [lia | exact Hr].
  Qed.

  Theorem factor_decodes lo s fin ss last :
    lo <= s -> seqs_valid lo s ss -> seqs_end s ss <= fin -> last = seg (seqs_end s ss) fin ->
    run_seqs (seg lo s) ss last = Some (seg s fin).
  Proof.
    intros Hlo Hv He Hlast. unfold run_seqs. unfold byte in *.
    rewrite (apply_seqs_valid lo ss s Hlo Hv).
    assert (Hge : s <= seqs_end s ss).
    { apply seqs_end_ge. intros q Hq. pose proof (seqs_valid_mlen lo s ss Hv q Hq). lia. }
    f_equal. rewrite rev_app_distr, !rev_involutive. subst last.
    rewrite seg_app by lia.
    rewrite <- (seg_app lo s fin) by lia.
    rewrite seg_length.
    replace (Z.to_nat (s - lo)) with (length (seg lo s)) by apply seg_length.
    rewrite skipn_app, skipn_all, Nat.sub_diag. reflexivity.
  Qed.

  (* every sequence of a factorisation is well formed for the encoder/parser round trip *)
  Lemma seqs_valid_wf lo pos ss :
    (forall a, 0 <= vrd a < 256) -> seqs_valid lo pos ss -> Forall seq_wf ss.
  Proof.
    intros Hb. revert pos; induction ss as [|q r IH]; intros pos Hv; constructor.
    - cbn [seqs_valid] in Hv. destruct Hv as (Hl & (Hoff & Hml & _) & _).
      split; [|split; lia].
      rewrite Hl. unfold seg. generalize (Z.to_nat (pos + Z.of_nat (length (s_lits q)) - pos)) as n.
      generalize pos as a. intros a n. revert a. induction n as [|n IHn]; intros a; [reflexivity|].
      cbn [bytes]. rewrite bytes_ok_cons, IHn, byte_ok_intro by apply Hb. reflexivity.
    - cbn [seqs_valid] in Hv. destruct Hv as (_ & _ & Hr). eapply IH; eauto.
  Qed.

  Lemma seg_bytes_ok a b : (forall x, 0 <= vrd x < 256) -> bytes_ok (seg a b) = true.
  Proof.
    intros Hb. unfold seg. generalize (Z.to_nat (b - a)) as n. intros n. revert a.
    induction n as [|n IHn]; intros a; [reflexivity|].
    cbn [bytes]. rewrite bytes_ok_cons, IHn, byte_ok_intro by apply Hb. reflexivity.
  Qed.

  (* the block that the encoder writes for a factorisation decodes to the input *)
  Theorem factor_block_decodes lo s fin ss last :
    (forall a, 0 <= vrd a < 256) ->
    lo <= s -> seqs_valid lo s ss -> seqs_end s ss <= fin -> last = seg (seqs_end s ss) fin ->
    spec_decode (seg lo s) (encode_block ss last) = Some (seg s fin).
  Proof.
    intros Hb Hlo Hv He Hlast.
    rewrite spec_decode_encode.
    - apply (factor_decodes lo s fin ss last); assumption.
    - eapply seqs_valid_wf; eauto.
    - subst last. apply seg_bytes_ok. exact Hb.
  Qed.
End Factor.

Print Assumptions factor_block_decodes.
