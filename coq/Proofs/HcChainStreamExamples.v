(* Concrete, non-trivial instances of the hash-chain streaming theorems (memory, dictionary and blocks of
   Proofs/FastStreamExamples.v: an 81-byte dictionary at 1000, two blocks sharing content with it back to back at 3000). *)
From Coq Require Import ZArith List Lia Bool.
From LZ4V Require Import Gen.Consts Spec.BlockSpec Model.Mem Model.Fast Model.FastApi Model.HcEmit Model.HcMid Model.HcMidStream.
From LZ4V Require Import Model.HcChain Model.HcChainApi Model.HcChainStream.
From LZ4V Require Import Proofs.FastStreamMem Proofs.FastStreamExamples Proofs.HcMidStreamProofs Proofs.HcMidStreamHist.
From LZ4V Require Import Proofs.HcChainStreamProofs Proofs.HcChainStreamHist.
Import ListNotations.
Local Open Scope Z_scope.

Definition ex_cc0 : cctx := cs_setLevel cs_init 5.
Lemma ex_cstate : cstate_inv (ex_m, ex_cc0).
Proof. split; [exact ex_m_ok | apply cs_setLevel_ok; exact cs_init_ok]. Qed.

(* loadDictHC (LZ4HC_Insert of the dictionary), a block elsewhere (LZ4HC_setExternalDict with its Insert; external segment
   = the dictionary), a contiguous block, a level change inside the strategy (5 -> 9: nbSearches 16 -> 256), saveDictHC,
   a block against the saved bytes, a destSize call with an 8-byte budget (partial consumption: re-anchored), a failing
   call (capacity 10: dirty), LZ4_resetStreamHC_fast, a block *)
Definition ex_cops : list cop :=
  [CLoadDict 1000 81; CContinue 3000 78 200; CContinue 3078 63 200; CSetLevel 9; CSaveDict 5000 100; CContinue 3000 78 200;
   CContinueDestSize 3078 63 8; CContinue 3000 78 10; CResetFast 3; CContinue 3000 78 200].

Lemma cstream_pre_cons st H o r st' ret out consumed :
  cop_pre st o ->
  match o with
  | CContinue src n _ | CContinueDestSize src n _ =>
    forall ke cte, cs_effective (fst st) (snd st) src n = Some (ke, cte) -> hhist_inv (fst st) ke H
  | _ => True
  end ->
  cstep st o = Some (st', (ret, out, consumed)) ->
  cstream_pre st' (chist_next st H o ret consumed) r ->
  cstream_pre st H (o :: r).
Proof. intros P1 P2 E P3. cbn [cstream_pre]. rewrite E. split; [exact P1 | split; [exact P2 | exact P3]]. Qed.

Ltac cnum := vm_compute; first [reflexivity | exact I | (intro; discriminate)].
Ltac chist_tac :=
  first [exact I |
    (intros ke cte He; vm_compute in He; injection He as <- <-; unfold hhist_inv;
     match goal with |- is_suffix ?v ?H =>
       let vv := eval vm_compute in v in let hh := eval vm_compute in H in
       exists (firstn (length hh - length vv) hh) end;
     vm_compute; reflexivity)].
Ltac cstep_tac :=
  match goal with |- cstream_pre ?st ?H (?o :: ?r) =>
    let v := eval vm_compute in (cstep st o) in
    match v with Some (?st', (?ret, ?out, ?consumed)) =>
      apply (cstream_pre_cons st H o r st' ret out consumed);
      [ first [exact I | repeat split; cnum] | chist_tac | vm_compute; reflexivity | ]
    end
  end.

Lemma ex_cstream_pre : cstream_pre (ex_m, ex_cc0) [] ex_cops.
Proof. unfold ex_cops. repeat cstep_tac. exact I. Qed.

Fixpoint ctrace (st : mem * cctx) (ops : list cop) : list (option (Z * Z)) :=
  match ops with
  | [] => []
  | o :: r => match cstep st o with Some (st', (ret, _, consumed)) => Some (ret, consumed) :: ctrace st' r | None => [None] end
  end.
(* what the run returns: (return value, consumed) of every call; the destSize call consumes 7 of 63 bytes, the 8th call fails
   (capacity 10), the stream is dirty and LZ4_resetStreamHC_fast re-initialises it *)
Lemma ex_ctrace :
  ctrace (ex_m, ex_cc0) ex_cops =
  [Some (81, 0); Some (20, 78); Some (18, 63); Some (0, 0); Some (100, 0); Some (27, 78); Some (8, 7); Some (0, 78); Some (0, 0); Some (73, 78)].
Proof. vm_compute. reflexivity. Qed.

(* the first block needs the dictionary (indexed by the LZ4HC_Insert of LZ4_loadDictHC) *)
Definition ex_cout (st : mem * cctx) (o : cop) : list Z := match cstep st o with Some (_, (_, out, _)) => out | None => [] end.
Definition ex_cst1 : mem * cctx := match cstep (ex_m, ex_cc0) (CLoadDict 1000 81) with Some (st, _) => st | None => (ex_m, ex_cc0) end.
Lemma ex_cresults :
  strict_valid ex_dict (ex_cout ex_cst1 (CContinue 3000 78 200)) = Some ex_b1 /\
  strict_valid [] (ex_cout ex_cst1 (CContinue 3000 78 200)) = None.
Proof. vm_compute. split; reflexivity. Qed.
