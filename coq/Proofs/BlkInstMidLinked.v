(* FrameC's block compressor instantiated with the model of LZ4_compress_HC_continue at the LZ4MID level (2; Model.HcMidStream,
   attached dictionary context included), i.e. what lz4frame.c calls at level 2 for LINKED blocks
   (LZ4F_compressBlockHC_continue) and for independent blocks with a CDict (LZ4F_compressBlockHC), capacity srcSize-1.
   Same explicit memory-model glue as Proofs.BlkInstFastLinked: the oracle gives memory, stream context, block address and the
   byte history designated by the context; the instance compresses only if that is consistent with the block and the
   history FrameC offers.  The invariants asked of the oracle are those every legal stream session maintains
   (C11_hc_mid_stream; the history invariant of the EFFECTIVE context is what C11_hc_mid_write_block provides). *)
From Coq Require Import ZArith List Lia Bool.
From LZ4V Require Import Gen.Consts Spec.BlockSpec Model.Mem Model.Fast Model.FastApi Model.FrameC.
From LZ4V Require Import Model.HcEmit Model.HcMid Model.HcMidStream Proofs.HcMidStreamProofs Proofs.HcMidStreamHist.
From LZ4V Require Import Model.HcChain Model.HcChainApi Model.HcChainStream Proofs.HcChainStreamProofs Proofs.HcChainStreamHist.
From LZ4V Require Import Model.HcOpt Model.HcOptApi Model.HcTabStream Model.HcOptStream Proofs.HcTabStreamProofs Proofs.HcOptStreamProofs.
From LZ4V Require Import Proofs.FastStreamMem Proofs.FrameCExamples Proofs.FrameCTheorems Proofs.FrameRoundTrip Proofs.BlkInst Proofs.ParserBytesStream.
Import ListNotations.
Local Open Scope Z_scope.

Record morc := mkMO { mo_m : mem; mo_c : hsctx; mo_src : Z; mo_H : list Z }.

Definition morc_ok (o : morc) : Prop :=
  hmem_ok (mo_m o) /\ hs_ok (mo_c o) /\ k_dirty (hs_core (mo_c o)) = false /\ 0 < mo_src o /\
  (forall n ke dc, hs_effective (mo_m o) (mo_c o) (mo_src o) n = Some (ke, dc) -> hhist_invd (mo_m o) ke dc (mo_H o)).

Definition morc_consistent (o : morc) (h x : list byte) : bool :=
  list_eqb x (load_list (mo_m o) (mo_src o) (length x)) && list_eqb h (lastZ FC_64KB (mo_H o)).

Definition blk_mid_linked (st : nat -> morc) (n : nat) (h x : list byte) : option (list byte) :=
  let o := st n in
  if blk_guard x && morc_consistent o h x then
    match hs_continue (mo_m o) (mo_c o) (mo_src o) (len x) (len x - 1) with
    | Some (HRes ret consumed out hw c') => blk_out ret out
    | None => None
    end
  else None.

Theorem blk_mid_linked_contract st : (forall n, morc_ok (st n)) -> blk_contract strict_valid (blk_mid_linked st).
Proof.
  intros Hst n h x c. unfold blk_mid_linked. cbv zeta.
  destruct (blk_guard x && morc_consistent (st n) h x) eqn:G; [|discriminate].
  apply andb_true_iff in G. destruct G as [G Gc]. destruct (guard_facts x G) as (Gb & Gn).
  unfold morc_consistent in Gc. apply andb_true_iff in Gc. destruct Gc as [Gx Gh].
  apply list_eqb_eq in Gx. apply list_eqb_eq in Gh.
  destruct (Hst n) as (O1 & O2 & O3 & O4 & O5).
  unfold hs_continue.
  set (lim := if len x - 1 <? compressBound (len x) then LimitedOutput else NotLimited).
  assert (Hlim : lim <> FillOutput) by (subst lim; destruct (len x - 1 <? compressBound (len x)); discriminate).
  destruct (hs_continue_generic (mo_m (st n)) (mo_c (st n)) (mo_src (st n)) (len x) (len x - 1) lim) as [[ret consumed out hw c']|] eqn:E; [|discriminate].
  intros H. destruct (blk_out_some _ _ _ H) as (Hp & ->).
  destruct (hs_continue_generic_sound (mo_m (st n)) (mo_c (st n)) (mo_src (st n)) (len x) (len x - 1) lim ret consumed out hw c'
              O1 O2 O3 O4 ltac:(lia) ltac:(lia) E) as (ke & dc & He & Hr & Hdc & _ & Hpost).
  pose proof (hs_call_decodes (mo_m (st n)) ke dc (mo_src (st n)) (len x) (len x - 1) lim ret consumed out hw c' (mo_H (st n))
                Hr Hdc Hpost (O5 _ _ _ He) Hp) as (_ & HV & _).
  specialize (HV Hlim (Z.to_nat 65536) ltac:(lia)).
  destruct Hpost as (_ & _ & _ & _ & _ & _ & Hpos). destruct (Hpos Hp) as (_ & _ & _ & _ & Hc & _).
  rewrite (Hc Hlim) in HV. unfold len in HV. rewrite Nat2Z.id in HV. rewrite <- Gx in HV.
  rewrite Gh. unfold lastZ, FC_64KB. exact HV.
Qed.

Theorem blk_mid_linked_bytes st : (forall n, morc_ok (st n)) -> blk_bytes (blk_mid_linked st).
Proof.
  intros Hst n h x c. unfold blk_mid_linked. cbv zeta.
  destruct (blk_guard x && morc_consistent (st n) h x) eqn:G; [|discriminate].
  apply andb_true_iff in G. destruct G as [G Gc]. destruct (guard_facts x G) as (Gb & Gn).
  destruct (Hst n) as (O1 & O2 & O3 & O4 & O5).
  destruct (hs_continue _ _ _ _ _) as [[ret consumed out hw c']|] eqn:E; [|discriminate].
  intros H. destruct (blk_out_some _ _ _ H) as (Hp & ->).
  apply (hs_continue_bytes (mo_m (st n)) (mo_c (st n)) (mo_src (st n)) (len x) (len x - 1) ret consumed out hw c' O1 O2 O3 O4 ltac:(lia) ltac:(lia) E).
Qed.

Print Assumptions blk_mid_linked_contract.
