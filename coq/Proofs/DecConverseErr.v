(* C05 converse, auxiliary: the input position reported by an error exit of one safe-loop
   iteration is never before the position at which the iteration started (so an error result
   -(ip)-1 is negative).  Proved by exhaustive case analysis of the iteration. *)
From Coq Require Import ZArith List Lia Bool ZifyBool.
From LZ4V Require Import Gen.Consts Model.Mem Model.Dec.
Import ListNotations.
Local Open Scope Z_scope.

Section Err.
  Variables (dict : ddict) (srcm : mem).
  Variables (iend oend lowPrefix rlow : Z) (dictm : mem) (dictSize : Z).
  Hypothesis Hsrc : forall a, 0 <= get srcm a < 256.

  (* ---------- the position reported with an error never precedes the current one ---------- *)
  Lemma rvl_loop_ip : forall fuel p len kf ilimit, 0 <= len ->
    let '(o, p', _) := rvl_loop srcm iend fuel p len kf ilimit in
    p <= p' /\ match o with Some l => 0 <= l | None => True end.
  Proof.
    induction fuel as [|f IH]; intros p len kf ilimit Hlen; cbn [rvl_loop]; [split; [lia | exact I]|]. cbv zeta.
    pose proof (Hsrc p) as Hb.
    destruct (p + 1 >? ilimit); [split; [lia | exact I]|].
    destruct (get srcm p =? 255); [|split; lia].
    specialize (IH (p + 1) (len + get srcm p) (kf && rd_src iend p 1) ilimit ltac:(lia)).
    destruct (rvl_loop srcm iend f (p + 1) (len + get srcm p) (kf && rd_src iend p 1) ilimit) as [[l p'] k'].
    destruct IH as [H1 H2]. split; [lia | exact H2].
  Qed.

  Lemma rvl_ip p ilimit ic kf :
    let '(o, p', _) := rvl srcm iend p ilimit ic kf in
    p <= p' /\ match o with Some l => 0 <= l | None => True end.
  Proof.
    unfold rvl. destruct (ic && (p >=? ilimit)); [split; [lia | exact I]|]. apply rvl_loop_ip. lia.
  Qed.

  Lemma safe_top_err_ip s :
    match safe_top false dict srcm iend oend lowPrefix rlow dictm dictSize s with
    | Err s' => ip s <= ip s' | _ => True end.
  Proof.
    pose proof (Hsrc (ip s)) as Htok.
    assert (Hn : 0 <= get srcm (ip s) / 16) by (apply Z.div_pos; lia).
    unfold safe_top, safe_lit, copy_match_lbl, safe_match, ext_match. cbv zeta. cbn [ip op dm ok andb negb orb].
    repeat match goal with
    | |- context [rvl srcm iend ?p ?il ?ic ?k] =>
        let H := fresh "Hr" in pose proof (rvl_ip p il ic k) as H;
        destruct (rvl srcm iend p il ic k) as [[[?|] ?] ?]; destruct H
    | |- context [first8 ?m ?d ?ss ?o] => destruct (first8 m d ss o)
    | |- context [if ?c then _ else _] => destruct c
    end; cbn [ip]; try exact I; lia.
  Qed.

End Err.
