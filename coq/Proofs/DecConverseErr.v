(* C05 converse, auxiliary: the input position reported by an error exit of one loop iteration
   is never before the position at which the iteration started (so an error result -(ip)-1 is
   negative).  Case analysis of each labelled region of the decoder model. *)
From Coq Require Import ZArith List Lia Bool ZifyBool.
From LZ4V Require Import Gen.Consts Model.Mem Model.Dec.
Import ListNotations.
Local Open Scope Z_scope.

Section Err.
  Variables (dict : ddict) (srcm : mem).
  Variables (iend oend lowPrefix rlow : Z) (dictm : mem) (dictSize : Z).
  Hypothesis Hsrc : forall a, 0 <= get srcm a < 256.

  Definition err_ge (lo : Z) (out : dout) : Prop :=
    match out with Err s' => lo <= ip s' | _ => True end.

  Lemma err_ge_mono lo lo' out : lo' <= lo -> err_ge lo out -> err_ge lo' out.
  Proof. destruct out; cbn [err_ge]; intros; lia. Qed.

  Lemma rvl_loop_ip : forall fuel p len kf ilimit, 0 <= len ->
    let '(o, p', _) := rvl_loop srcm iend fuel p len kf ilimit in
    p <= p' /\ match o with Some l => 0 <= l | None => True end.
  Proof.
    induction fuel as [|f IH]; intros p len kf ilimit Hlen; cbn [rvl_loop]; [split; [lia | exact I]|]. cbv zeta.
    pose proof (Hsrc p) as Hb.
    destruct (p + 1 >? ilimit); [split; [lia | exact I]|].
    destruct (get srcm p =? 255); [|split; lia].
    specialize (IH (p + 1) (len + get srcm p) (kf && rd_src iend p 1) ilimit ltac:(lia)).
    destruct (rvl_loop srcm iend f (p + 1) (len + get srcm p) (kf && rd_src iend p 1) ilimit) as [[l p'] k'].
    destruct IH as [H1 H2]. split; [lia | exact H2].
  Qed.

  Lemma rvl_ip p ilimit ic kf :
    let '(o, p', _) := rvl srcm iend p ilimit ic kf in
    p <= p' /\ match o with Some l => 0 <= l | None => True end.
  Proof.
    unfold rvl. destruct (ic && (p >=? ilimit)); [split; [lia | exact I]|]. apply rvl_loop_ip. lia.
  Qed.

  Ltac split_ifs :=
    repeat match goal with
    | |- context [first8 ?m ?d ?ss ?o] => destruct (first8 m d ss o)
    | |- context [if ?c then _ else _] => destruct c
    end.

  Lemma safe_match_err s offset length :
    err_ge (ip s) (safe_match false dict oend lowPrefix rlow dictm dictSize s offset length).
  Proof.
    unfold safe_match, ext_match. cbv zeta. cbn [andb negb]. split_ifs; cbn [err_ge ip]; try exact I; lia.
  Qed.

  Lemma fast_match_err s offset length :
    err_ge (ip s) (fast_match false dict oend lowPrefix rlow dictm dictSize s offset length).
  Proof.
    unfold fast_match, ext_match. cbv zeta. cbn [andb negb]. split_ifs; cbn [err_ge ip]; try exact I; lia.
  Qed.

  Lemma copy_match_lbl_err s offset ml :
    err_ge (ip s) (copy_match_lbl false dict srcm iend oend lowPrefix rlow dictm dictSize s offset ml).
  Proof.
    unfold copy_match_lbl.
    destruct (ml =? ML_MASK).
    - pose proof (rvl_ip (ip s) (iend - LASTLITERALS + 1) false (ok s)) as Hr.
      destruct (rvl srcm iend (ip s) (iend - LASTLITERALS + 1) false (ok s)) as [[[l|] p'] k']; destruct Hr as [Hr _].
      + eapply err_ge_mono; [|apply safe_match_err]. cbn [ip]. exact Hr.
      + cbn [err_ge ip]. exact Hr.
    - apply safe_match_err.
  Qed.

  Lemma safe_lit_err s token length :
    0 <= length ->
    err_ge (ip s) (safe_lit false dict srcm iend oend lowPrefix rlow dictm dictSize s token length).
  Proof.
    intros Hl. unfold safe_lit. cbv zeta. cbn [andb negb orb].
    destruct ((op s + length >? oend - MFLIMIT) || (ip s + length >? iend - (2 + 1 + LASTLITERALS))).
    - destruct (negb (ip s + length =? iend) || (op s + length >? oend)); cbn [err_ge]; [lia | exact I].
    - eapply err_ge_mono; [|apply copy_match_lbl_err]. cbn [ip]. lia.
  Qed.

  Lemma fast_offset_err s token :
    err_ge (ip s) (fast_offset false dict srcm iend oend lowPrefix rlow dictm dictSize s token).
  Proof.
    unfold fast_offset. cbv zeta.
    destruct (token mod 16 =? ML_MASK).
    - pose proof (rvl_ip (ip s + 2) (iend - LASTLITERALS + 1) false (ok s && rd_src iend (ip s) 2)) as Hr.
      destruct (rvl srcm iend (ip s + 2) (iend - LASTLITERALS + 1) false (ok s && rd_src iend (ip s) 2)) as [[[l|] p'] k']; destruct Hr as [Hr _].
      + destruct (op s + (token mod 16 + l + MINMATCH) >=? oend - FASTLOOP_SAFE_DISTANCE).
        * eapply err_ge_mono; [|apply safe_match_err]. cbn [ip]. lia.
        * eapply err_ge_mono; [|apply fast_match_err]. cbn [ip]. lia.
      + cbn [err_ge ip]. lia.
    - destruct (op s + (token mod 16 + MINMATCH) >=? oend - FASTLOOP_SAFE_DISTANCE).
      + eapply err_ge_mono; [|apply safe_match_err]. cbn [ip]. lia.
      + destruct ((is_prefix64k dict || (op s - readLE16 srcm (ip s) >=? lowPrefix)) && (readLE16 srcm (ip s) >=? 8)).
        * exact I.
        * eapply err_ge_mono; [|apply fast_match_err]. cbn [ip]. lia.
  Qed.

  Lemma safe_top_err_ip s :
    err_ge (ip s) (safe_top false dict srcm iend oend lowPrefix rlow dictm dictSize s).
  Proof.
    pose proof (Hsrc (ip s)) as Htok.
    assert (Hn : 0 <= get srcm (ip s) / 16) by (apply Z.div_pos; lia).
    unfold safe_top. cbv zeta.
    destruct (negb (get srcm (ip s) / 16 =? RUN_MASK) && ((ip s + 1 <? shortiend iend) && (op s <=? shortoend oend))).
    - match goal with |- err_ge _ (if ?c then _ else _) => destruct c end.
      + exact I.
      + eapply err_ge_mono; [|apply copy_match_lbl_err]. cbn [ip]. lia.
    - destruct (get srcm (ip s) / 16 =? RUN_MASK).
      + pose proof (rvl_ip (ip s + 1) (iend - RUN_MASK) true (ok s && rd_src iend (ip s) 1)) as Hr.
        destruct (rvl srcm iend (ip s + 1) (iend - RUN_MASK) true (ok s && rd_src iend (ip s) 1)) as [[[l|] p'] k']; destruct Hr as [Hr Hl].
        * eapply err_ge_mono; [|apply safe_lit_err; lia]. cbn [ip]. lia.
        * cbn [err_ge ip]. lia.
      + eapply err_ge_mono; [|apply safe_lit_err; lia]. cbn [ip]. lia.
  Qed.

  Lemma fast_top_err_ip s :
    err_ge (ip s) (fast_top false dict srcm iend oend lowPrefix rlow dictm dictSize s).
  Proof.
    pose proof (Hsrc (ip s)) as Htok.
    assert (Hn : 0 <= get srcm (ip s) / 16) by (apply Z.div_pos; lia).
    unfold fast_top. cbv zeta.
    destruct (get srcm (ip s) / 16 =? RUN_MASK).
    - pose proof (rvl_ip (ip s + 1) (iend - RUN_MASK) true (ok s && rd_src iend (ip s) 1)) as Hr.
      destruct (rvl srcm iend (ip s + 1) (iend - RUN_MASK) true (ok s && rd_src iend (ip s) 1)) as [[[l|] p'] k']; destruct Hr as [Hr Hl].
      + match goal with |- err_ge _ (if ?c then _ else _) => destruct c end.
        * eapply err_ge_mono; [|apply safe_lit_err; lia]. cbn [ip]. lia.
        * eapply err_ge_mono; [|apply fast_offset_err]. cbn [ip]. lia.
      + cbn [err_ge ip]. lia.
    - destruct (ip s + 1 <=? iend - (16 + 1)).
      + eapply err_ge_mono; [|apply fast_offset_err]. cbn [ip]. lia.
      + eapply err_ge_mono; [|apply safe_lit_err; lia]. cbn [ip]. lia.
  Qed.

End Err.
