(* Invariants of the lz4mid streaming model (Model/HcMidStream.v) and soundness of one compression call.

   [k_ok k]: lowLimit <= dictLimit, prefixStart <= end, the index reached so far
   (dictLimit + end - prefixStart) stays below 2^31 + LZ4_MAX_INPUT_SIZE, an anchored context has
   lowLimit >= 64 KB, and - unless the context is dirty - every entry of both hash tables is an index
   below the index reached so far.  Established by LZ4_initStreamHC / LZ4_loadDictHC, preserved by
   every modelled operation.  Under it each call of the parser made by the API satisfies the
   hypotheses of HcMidSound.mid_compress_sound / HcMidCap.mid_compress_cap. *)
From Coq Require Import ZArith List Lia Bool ZifyBool FMapPositive.
From LZ4V Require Import Gen.Consts Spec.BlockSpec Model.Mem Model.Fast Model.FastApi Model.HcEmit Model.HcMid Model.HcMidDict Model.HcMidStream.
From LZ4V Require Import Proofs.BlockSpecProofs Proofs.FactorSpec Proofs.FastStreamMem Proofs.HcMidSound Proofs.HcMidCap Proofs.HcMidDictSound.
Import ListNotations.
Local Open Scope Z_scope.

Definition hmem_ok (m : mem) : Prop := forall a, 0 <= get m a < 256.
Definition EMAX : Z := 4261412864.        (* 2^31 + LZ4_MAX_INPUT_SIZE *)

Definition tabs_below (k : hcore) (b : Z) : Prop := tab_lt (k_h4 k) b /\ tab_lt (k_h8 k) b.

Definition k_ok (k : hcore) : Prop :=
  0 <= k_lowLimit k <= k_dictLimit k /\ 0 <= k_prefixStart k <= k_end k /\ k_endIdx k <= EMAX /\
  (k_prefixStart k <> 0 -> K64 <= k_lowLimit k) /\
  (k_dirty k = false -> tabs_below k (Z.max 1 (k_endIdx k))).

(* what a dictionary context must satisfy to be attached; one at an lz4mid level is searched in place
   (LZ4MID_searchExtDict): every entry of its tables is 0 or an index of its own prefix, which is at most 64 KB long -
   the shape LZ4_loadDictHC produces ("only streams prepared by LZ4_loadDictHC should be expected to work", lz4hc.h) *)
Definition dsearch_ok (d : hcore) : Prop :=
  dtab_ok (k_dictLimit d) (k_endIdx d) (k_h4 d) /\ dtab_ok (k_dictLimit d) (k_endIdx d) (k_h8 d) /\
  k_end d - k_prefixStart d <= K64 /\ k_endIdx d <= GB1 + 2 * K64.
Definition d_ok (d : hcore) : Prop :=
  k_ok d /\ k_dirty d = false /\ K64 <= k_dictLimit d /\ k_endIdx d <= GB2 /\
  (is_mid (k_level d) = true -> dsearch_ok d).

Definition hs_ok (c : hsctx) : Prop :=
  k_ok (hs_core c) /\ match hs_dctx c with Some d => d_ok d | None => True end.

Lemma M32_v : M32 = 4294967296. Proof. reflexivity. Qed.
Lemma u32s x : 0 <= x < 4294967296 -> u32 x = x.
Proof. intros H. apply u32_id. rewrite M32_v. exact H. Qed.

Lemma get_empty_ h : get empty h = 0.
Proof. unfold get, empty. rewrite PositiveMap.gempty. reflexivity. Qed.
Lemma tab_lt_empty b : 0 < b -> tab_lt empty b.
Proof. intros H k. rewrite get_empty_. lia. Qed.

Lemma k_endIdx_ge k : k_ok k -> k_dictLimit k <= k_endIdx k.
Proof. intros (_ & H & _). unfold k_endIdx. lia. Qed.

(* ---------------------------------------------------------------- bookkeeping operations *)
Lemma k_init_ok : k_ok k_init.
Proof.
  unfold k_ok, k_init, with_level, k_zero, k_endIdx, tabs_below, EMAX, K64.
  cbn [k_lowLimit k_dictLimit k_prefixStart k_end k_dirty k_h4 k_h8].
  split; [lia|]. split; [lia|]. split; [lia|]. split; [intros; lia|]. intros _. split; apply tab_lt_empty; lia.
Qed.

Lemma with_level_ok k l : k_ok k -> k_ok (with_level k l).
Proof. intros H. exact H. Qed.

Lemma hs_init_ok : hs_ok hs_init.
Proof. split; [exact k_init_ok | exact I]. Qed.

Lemma hs_setLevel_ok c l : hs_ok c -> hs_ok (hs_setLevel c l).
Proof. intros H. exact H. Qed.

Lemma hs_resetStream_ok l : hs_ok (hs_resetStream l).
Proof. apply hs_setLevel_ok. exact hs_init_ok. Qed.

Lemma hs_resetFast_ok c l : hs_ok c -> hs_ok (hs_resetFast c l) /\ k_dirty (hs_core (hs_resetFast c l)) = false /\ hs_dctx (hs_resetFast c l) = None.
Proof.
  intros ((L & P & E & A & T) & _). unfold hs_resetFast. cbv zeta.
  destruct (k_dirty (hs_core c)) eqn:Ed.
  - split; [apply hs_setLevel_ok; exact hs_init_ok|]. split; reflexivity.
  - split; [|split; reflexivity]. apply hs_setLevel_ok. split; [|exact I].
    set (k := hs_core c) in *. unfold k_endIdx, EMAX in *.
    assert (U1 : u32 (k_end k - k_prefixStart k) = k_end k - k_prefixStart k) by (apply u32s; lia).
    assert (U2 : u32 (k_dictLimit k + (k_end k - k_prefixStart k)) = k_dictLimit k + (k_end k - k_prefixStart k)) by (apply u32s; lia).
    unfold k_ok, k_endIdx, tabs_below, EMAX. cbn [hs_core k_lowLimit k_dictLimit k_prefixStart k_end k_dirty k_h4 k_h8].
    rewrite U1, U2. split; [lia|]. split; [lia|]. split; [lia|]. split; [intros; lia|].
    intros _. specialize (T eq_refl). unfold tabs_below in T.
    replace (k_dictLimit k + (k_end k - k_prefixStart k) + (0 - 0)) with (k_dictLimit k + (k_end k - k_prefixStart k)) by lia.
    exact T.
Qed.

(* LZ4HC_init_internal: the new anchor is at least 64 KB above every table entry *)
Lemma k_init_internal_ok k start :
  k_ok k -> 0 <= start ->
  let k' := k_init_internal k start in
  k_ok k' /\ K64 <= k_dictLimit k' /\ k_endIdx k' <= GB1 + K64 /\ k_endIdx k' = k_dictLimit k' /\ k_lowLimit k' = k_dictLimit k' /\
  k_prefixStart k' = start /\ k_end k' = start /\ k_dirty k' = k_dirty k /\ k_level k' = k_level k.
Proof.
  intros (L & P & E & A & T) Hs. cbv zeta. unfold k_init_internal. unfold k_endIdx, EMAX, GB1, K64 in *.
  replace (k_end k - k_prefixStart k + k_dictLimit k) with (k_dictLimit k + (k_end k - k_prefixStart k)) by lia.
  set (E0 := k_dictLimit k + (k_end k - k_prefixStart k)) in *.
  destruct (E0 >? 1073741824) eqn:Eg.
  - rewrite (u32s (0 + 65536)) by lia. unfold k_ok, k_endIdx, tabs_below, EMAX, K64.
    cbn [k_lowLimit k_dictLimit k_prefixStart k_end k_dirty k_h4 k_h8 k_level].
    split; [|repeat split; lia].
    split; [lia|]. split; [lia|]. split; [lia|]. split; [intros; lia|]. intros _. split; apply tab_lt_empty; lia.
  - rewrite (u32s (E0 + 65536)) by lia. unfold k_ok, k_endIdx, tabs_below, EMAX, K64.
    cbn [k_lowLimit k_dictLimit k_prefixStart k_end k_dirty k_h4 k_h8 k_level].
    split; [|repeat split; lia].
    split; [lia|]. split; [lia|]. split; [lia|]. split; [intros; lia|].
    intros Hd. destruct (T Hd) as (T4 & T8). split; eapply tab_lt_mono; eauto; lia.
Qed.

(* LZ4HC_setExternalDict on an anchored context *)
Lemma k_setExternalDict_ok k nb :
  k_ok k -> K64 <= k_dictLimit k -> 0 <= nb ->
  let k' := k_setExternalDict k nb in
  k_ok k' /\ K64 <= k_dictLimit k' /\ k_endIdx k' = k_endIdx k /\ k_dictLimit k' = k_endIdx k /\ k_lowLimit k' = k_dictLimit k /\
  k_dictStart k' = k_prefixStart k /\ k_prefixStart k' = nb /\ k_end k' = nb /\ k_dirty k' = k_dirty k /\ k_level k' = k_level k /\
  k_h4 k' = k_h4 k /\ k_h8 k' = k_h8 k.
Proof.
  intros (L & P & E & A & T) Hd Hn. cbv zeta. unfold k_setExternalDict. unfold k_endIdx, EMAX, K64 in *.
  assert (U1 : u32 (k_end k - k_prefixStart k) = k_end k - k_prefixStart k) by (apply u32s; lia).
  rewrite U1. rewrite (u32s (k_dictLimit k + (k_end k - k_prefixStart k))) by lia.
  unfold k_ok, k_endIdx, tabs_below, EMAX, K64.
  cbn [k_lowLimit k_dictLimit k_prefixStart k_end k_dirty k_h4 k_h8 k_level k_dictStart].
  split; [|repeat split; lia].
  split; [lia|]. split; [lia|]. split; [lia|]. split; [intros; lia|].
  intros Hdy. specialize (T Hdy). unfold tabs_below in T.
  replace (k_dictLimit k + (k_end k - k_prefixStart k) + (nb - nb)) with (k_dictLimit k + (k_end k - k_prefixStart k)) by lia.
  exact T.
Qed.

(* ---------------------------------------------------------------- LZ4MID_fillHTable / LZ4_loadDictHC *)
Lemma fill_loop1_lt rdi b : forall k h4 h8 idx,
  tab_lt h4 b -> tab_lt h8 b -> 0 <= idx -> idx + 3 * Z.of_nat k <= b + 1 ->
  tab_lt (fst (fill_loop1 rdi k h4 h8 idx)) b /\ tab_lt (snd (fill_loop1 rdi k h4 h8 idx)) b.
Proof.
  induction k as [|k IH]; intros h4 h8 idx T4 T8 Hi Hb; cbn [fill_loop1]; [split; assumption|].
  apply IH; try lia; apply tab_lt_set; try assumption; lia.
Qed.

Lemma fill_loop2_lt rdi b : forall k h8 idx,
  tab_lt h8 b -> 0 <= idx -> idx + Z.of_nat k <= b -> tab_lt (fill_loop2 rdi k h8 idx) b.
Proof.
  induction k as [|k IH]; intros h8 idx T8 Hi Hb; cbn [fill_loop2]; [assumption|].
  apply IH; try lia. apply tab_lt_set; [assumption | lia].
Qed.

Lemma dtab_empty lo hi : dtab_ok lo hi empty.
Proof. intros k. left. apply get_empty_. Qed.
Lemma dtab_set lo hi T k v : dtab_ok lo hi T -> lo <= v < hi -> dtab_ok lo hi (set T k v).
Proof. intros H Hv j. rewrite get_set. destruct (k =? j); [right; exact Hv | apply H]. Qed.

Lemma fill_loop1_dtab rdi lo b : forall k h4 h8 idx,
  dtab_ok lo b h4 -> dtab_ok lo b h8 -> lo <= idx -> idx + 3 * Z.of_nat k <= b + 1 ->
  dtab_ok lo b (fst (fill_loop1 rdi k h4 h8 idx)) /\ dtab_ok lo b (snd (fill_loop1 rdi k h4 h8 idx)).
Proof.
  induction k as [|k IH]; intros h4 h8 idx T4 T8 Hi Hb; cbn [fill_loop1]; [split; assumption|].
  apply IH; try lia; apply dtab_set; try assumption; lia.
Qed.

Lemma fill_loop2_dtab rdi lo b : forall k h8 idx,
  dtab_ok lo b h8 -> lo <= idx -> idx + Z.of_nat k <= b -> dtab_ok lo b (fill_loop2 rdi k h8 idx).
Proof.
  induction k as [|k IH]; intros h8 idx T8 Hi Hb; cbn [fill_loop2]; [assumption|].
  apply IH; try lia. apply dtab_set; [assumption | lia].
Qed.

Lemma loop_count_le p e step : 0 < step -> p + step * Z.of_nat (loop_count p e step) <= Z.max p (e + step - 1).
Proof.
  intros Hs. unfold loop_count. destruct (p <? e) eqn:E; [|cbn; lia].
  assert (0 <= (e - p + step - 1) / step) by (apply Z.div_pos; lia).
  rewrite Z2Nat.id by lia.
  assert (step * ((e - p + step - 1) / step) <= e - p + step - 1) by (apply Z.mul_div_le; lia). lia.
Qed.

Lemma k_fillHTable_ok m k da ds :
  k_h4 k = empty -> k_h8 k = empty -> k_dictLimit k = K64 -> k_ntu k = K64 -> 0 <= ds <= K64 ->
  let k2 := k_fillHTable m k da ds in
  tabs_below k2 (K64 + ds) /\ k_end k2 = k_end k /\ k_prefixStart k2 = k_prefixStart k /\ k_dictLimit k2 = K64 /\
  k_lowLimit k2 = k_lowLimit k /\ k_dirty k2 = k_dirty k /\ k_level k2 = k_level k /\
  dtab_ok K64 (K64 + ds) (k_h4 k2) /\ dtab_ok K64 (K64 + ds) (k_h8 k2).
Proof.
  intros H4 H8 Hdl Hntu Hds. cbv zeta. unfold k_fillHTable. rewrite Hdl, Hntu, H4, H8.
  unfold LZ4MID_HASHSIZE. destruct (ds <=? 8) eqn:Es.
  - unfold tabs_below. rewrite H4, H8. split; [split; apply tab_lt_empty; unfold K64; lia|].
    split; [reflexivity|]. split; [reflexivity|]. split; [assumption|]. split; [reflexivity|]. split; [reflexivity|].
    split; [reflexivity|]. split; apply dtab_empty.
  - assert (U1 : u32 ds = ds) by (apply u32s; unfold K64 in *; lia). rewrite U1.
    assert (U2 : u32 (K64 + ds - 8) = K64 + ds - 8) by (apply u32s; unfold K64 in *; lia). rewrite U2.
    remember (K64 + ds - 8) as target eqn:Et.
    remember (fun i : Z => get m (da + (i - K64))) as rdi eqn:Er.
    remember (K64 + ds) as E eqn:EE.
    pose proof (fill_loop1_lt rdi E (loop_count K64 target 3) empty empty K64
                  ltac:(apply tab_lt_empty; unfold K64 in *; lia) ltac:(apply tab_lt_empty; unfold K64 in *; lia) ltac:(unfold K64; lia)) as F1.
    pose proof (loop_count_le K64 target 3 ltac:(lia)) as LC1.
    specialize (F1 ltac:(unfold K64 in *; lia)).
    pose proof (fill_loop1_dtab rdi K64 E (loop_count K64 target 3) empty empty K64 (dtab_empty _ _) (dtab_empty _ _) ltac:(lia)
                  ltac:(unfold K64 in *; lia)) as G1.
    destruct (fill_loop1 rdi (loop_count K64 target 3) empty empty K64) as [h4 h8]. cbn [fst snd] in F1, G1. destruct F1 as (F4 & F8).
    destruct G1 as (G4 & G8).
    remember (if ds >? 32768 + 8 then u32 (target - 32768) else K64) as idx2 eqn:Ei.
    assert (Hi2 : K64 <= idx2 <= target).
    { rewrite Ei. destruct (ds >? 32768 + 8) eqn:E2; [|unfold K64 in *; lia].
      rewrite u32s by (unfold K64 in *; lia). unfold K64 in *. lia. }
    pose proof (loop_count_le idx2 target 1 ltac:(lia)) as LC2.
    pose proof (fill_loop2_lt rdi E (loop_count idx2 target 1) h8 idx2 F8 ltac:(unfold K64 in *; lia)
                  ltac:(unfold K64 in *; lia)) as F2.
    pose proof (fill_loop2_dtab rdi K64 E (loop_count idx2 target 1) h8 idx2 G8 ltac:(lia) ltac:(unfold K64 in *; lia)) as G2.
    unfold tabs_below. cbn [k_h4 k_h8 k_end k_prefixStart k_dictLimit k_lowLimit k_dirty k_level].
    split; [split; assumption|].
    split; [reflexivity|]. split; [reflexivity|]. split; [reflexivity|]. split; [reflexivity|]. split; [reflexivity|].
    split; [reflexivity|]. split; assumption.
Qed.

Lemma hs_loadDict_ok m c a n c' r :
  0 <= n -> 0 <= a -> hs_loadDict m c a n = Some (c', r) ->
  hs_ok c' /\ d_ok (hs_core c') /\ hs_dctx c' = None /\ r = Z.min n K64 /\
  k_prefixStart (hs_core c') = a + n - r /\ k_end (hs_core c') = a + n /\
  k_dictLimit (hs_core c') = K64 /\ k_lowLimit (hs_core c') = K64 /\ k_dirty (hs_core c') = false /\
  is_mid (k_level (hs_core c')) = true.
Proof.
  intros Hn Ha. unfold hs_loadDict.
  remember (if n >? K64 then (a + (n - K64), K64) else (a, n)) as dd eqn:Edd.
  assert (Hdd : fst dd = a + n - Z.min n K64 /\ snd dd = Z.min n K64 /\ 0 <= snd dd <= K64).
  { rewrite Edd. unfold K64. destruct (n >? 65536) eqn:E; cbn [fst snd]; lia. }
  clear Edd. destruct dd as [da ds]. cbn [fst snd] in Hdd. destruct Hdd as (D1 & D2 & D3).
  destruct (is_mid (clamp_level (k_level (hs_core c)))) eqn:Em; [|discriminate].
  pose proof (k_init_internal_ok (with_level k_init (k_level (hs_core c))) da (with_level_ok _ _ k_init_ok) ltac:(lia)) as I0.
  cbv zeta in I0. destruct I0 as (I1 & I2 & I3 & I4 & I5 & I6 & I7 & I8 & I9).
  assert (Hk0 : k_dictLimit (k_init_internal (with_level k_init (k_level (hs_core c))) da) = K64 /\
                k_ntu (k_init_internal (with_level k_init (k_level (hs_core c))) da) = K64 /\
                k_h4 (k_init_internal (with_level k_init (k_level (hs_core c))) da) = empty /\
                k_h8 (k_init_internal (with_level k_init (k_level (hs_core c))) da) = empty).
  { unfold k_init_internal, with_level, k_init, k_zero, GB1, K64. cbn. repeat split; reflexivity. }
  remember (k_init_internal (with_level k_init (k_level (hs_core c))) da) as k0 eqn:Ek0.
  destruct Hk0 as (Hdl & Hntu & Hh4 & Hh8).
  assert (Hd0 : k_dirty k0 = false) by (rewrite I8; reflexivity).
  remember (mkK (k_h4 k0) (k_h8 k0) (da + ds) (k_prefixStart k0) (k_dictStart k0) (k_dictLimit k0) (k_lowLimit k0) (k_ntu k0) (k_level k0) (k_dirty k0)) as k1 eqn:Ek1.
  pose proof (k_fillHTable_ok m k1 da ds) as F. rewrite Ek1 in F at 1 2 3 4. cbn [k_h4 k_h8 k_dictLimit k_ntu] in F.
  specialize (F Hh4 Hh8 Hdl Hntu D3). cbv zeta in F.
  remember (k_fillHTable m k1 da ds) as k2 eqn:Ek2.
  intros Heq. injection Heq as <- <-. cbn [hs_core hs_dctx].
  destruct F as (F1 & F2 & F3 & F4 & F5 & F6 & F7 & F8 & F9).
  rewrite Ek1 in F2, F3, F5, F6, F7. cbn [k_end k_prefixStart k_lowLimit k_dirty k_level] in F2, F3, F5, F6, F7.
  assert (Ek : k_endIdx k2 = K64 + ds) by (unfold k_endIdx; lia).
  assert (K : k_ok k2).
  { unfold k_ok. rewrite Ek. unfold EMAX, K64 in *.
    split; [lia|]. split; [lia|]. split; [lia|]. split; [intros; lia|].
    intros _. replace (Z.max 1 (65536 + ds)) with (65536 + ds) by lia. exact F1. }
  unfold GB2, K64 in *.
  split; [split; [exact K | exact I]|].
  split.
  { unfold d_ok. split; [exact K|]. split; [congruence|]. unfold GB2, K64. split; [lia|]. split; [lia|].
    intros _. unfold dsearch_ok. rewrite Ek, F4. unfold GB1, K64 in *. split; [exact F8|]. split; [exact F9 | lia]. }
  split; [reflexivity|]. split; [lia|]. split; [lia|]. split; [lia|].
  split; [lia|]. split; [lia|]. split; [congruence|].
  rewrite F7, I9. unfold with_level. cbn [k_level]. exact Em.
Qed.

(* ---------------------------------------------------------------- the prelude of LZ4_compressHC_continue_generic *)
(* a context ready for the parser: anchored, below 2 GB, its prefix ends where the new block starts *)
Definition k_ready (k : hcore) (src : Z) : Prop :=
  k_ok k /\ k_dirty k = false /\ K64 <= k_lowLimit k /\ k_endIdx k <= GB2 /\ k_end k = src.

Lemma k_ok_lowdict k low dstart :
  k_ok k -> k_lowLimit k <= low <= k_dictLimit k ->
  k_ok (mkK (k_h4 k) (k_h8 k) (k_end k) (k_prefixStart k) dstart (k_dictLimit k) low (k_ntu k) (k_level k) (k_dirty k)).
Proof.
  intros (L & P & E & A & T) Hl. unfold k_ok, k_endIdx, tabs_below in *.
  cbn [k_lowLimit k_dictLimit k_prefixStart k_end k_dirty k_h4 k_h8].
  split; [lia|]. split; [exact P|]. split; [exact E|]. split; [intros Hz; specialize (A Hz); lia | exact T].
Qed.

(* the four stages of the prelude *)
Definition pre1 (c : hsctx) (src : Z) : hsctx :=
  if k_prefixStart (hs_core c) =? 0 then mkHS (k_init_internal (hs_core c) src) (hs_dctx c) else c.
Definition pre2 (m : mem) (c : hsctx) : option hsctx :=
  let k := hs_core c in
  if (k_end k - k_prefixStart k) + k_dictLimit k >? GB2 then
    let ds := k_end k - k_prefixStart k in
    let ds := if ds >? K64 then K64 else ds in
    match hs_loadDict m c (k_end k - ds) ds with Some (c', _) => Some c' | None => None end
  else Some c.
Definition pre3 (c : hsctx) (src : Z) : hsctx :=
  if negb (src =? k_end (hs_core c)) then mkHS (k_setExternalDict (hs_core c) src) None else c.
Definition pre4 (c : hsctx) (src n : Z) : hsctx :=
  let k := hs_core c in
  let sourceEnd := src + n in
  let dictBegin := k_dictStart k in
  let dictEnd := k_dictStart k + u32 (k_dictLimit k - k_lowLimit k) in
  if (sourceEnd >? dictBegin) && (src <? dictEnd) then
    let sourceEnd := if sourceEnd >? dictEnd then dictEnd else sourceEnd in
    let low := u32 (k_lowLimit k + u32 (sourceEnd - k_dictStart k)) in
    let ds := k_dictStart k + u32 (sourceEnd - k_dictStart k) in
    let '(low, ds) := if u32 (k_dictLimit k - low) <? LZ4HC_HASHSIZE then (k_dictLimit k, k_prefixStart k) else (low, ds) in
    mkHS (mkK (k_h4 k) (k_h8 k) (k_end k) (k_prefixStart k) ds (k_dictLimit k) low (k_ntu k) (k_level k) (k_dirty k)) (hs_dctx c)
  else c.

Lemma hs_prelude_eq m c src n :
  hs_prelude m c src n = match pre2 m (pre1 c src) with Some c2 => Some (pre4 (pre3 c2 src) src n) | None => None end.
Proof.
  unfold hs_prelude, pre1, pre2, pre3, pre4. cbv zeta.
  destruct (k_prefixStart (hs_core c) =? 0);
    (match goal with |- context [if ?b >? GB2 then _ else _] => destruct (b >? GB2) end;
     [match goal with |- context [hs_loadDict ?a ?b ?c ?d] => destruct (hs_loadDict a b c d) as [[c' r']|] end; [|reflexivity]|]);
    (match goal with |- context [negb (src =? ?e)] => destruct (negb (src =? e)) end);
    (match goal with |- (if ?b then _ else _) = _ => destruct b end); try reflexivity;
    (match goal with |- context [if ?b <? LZ4HC_HASHSIZE then _ else _] => destruct (b <? LZ4HC_HASHSIZE) end); reflexivity.
Qed.

Definition pre_inv (c : hsctx) : Prop :=
  hs_ok c /\ k_dirty (hs_core c) = false /\ is_mid (k_level (hs_core c)) = true.

Lemma pre1_ok c src : pre_inv c -> 0 <= src ->
  pre_inv (pre1 c src) /\ K64 <= k_lowLimit (hs_core (pre1 c src)) /\
  (hs_dctx (pre1 c src) = hs_dctx c).
Proof.
  intros ((K & D) & Hd & Hl) Hs. unfold pre1. destruct (k_prefixStart (hs_core c) =? 0) eqn:E.
  - pose proof (k_init_internal_ok (hs_core c) src K Hs) as I0. cbv zeta in I0.
    destruct I0 as (I1 & I2 & _ & _ & I5 & _ & _ & I8 & I9). cbn [hs_core hs_dctx].
    split; [|split; [lia | reflexivity]].
    split; [split; [exact I1 | exact D]|]. cbn [hs_core]. split; [congruence | rewrite I9; exact Hl].
  - split; [exact (conj (conj K D) (conj Hd Hl))|]. split; [|reflexivity].
    destruct K as (L & _ & _ & A & _). specialize (A ltac:(lia)). lia.
Qed.

Lemma pre2_ok m c c2 : pre_inv c -> K64 <= k_lowLimit (hs_core c) -> pre2 m c = Some c2 ->
  pre_inv c2 /\ K64 <= k_lowLimit (hs_core c2) /\ k_endIdx (hs_core c2) <= GB2 /\
  (hs_dctx c2 = hs_dctx c \/ hs_dctx c2 = None).
Proof.
  intros ((K & D) & Hd & Hl) Ha. unfold pre2. cbv zeta.
  pose proof K as (L & P & E & A & T).
  destruct (k_end (hs_core c) - k_prefixStart (hs_core c) + k_dictLimit (hs_core c) >? GB2) eqn:Eg.
  - remember (k_end (hs_core c) - k_prefixStart (hs_core c)) as pl eqn:Epl.
    remember (if pl >? K64 then K64 else pl) as ds eqn:Eds.
    assert (Hds : 0 <= ds <= pl) by (rewrite Eds; unfold K64; destruct (pl >? 65536) eqn:E1; lia).
    destruct (hs_loadDict m c (k_end (hs_core c) - ds) ds) as [[c' r]|] eqn:El; [|discriminate].
    intros Heq. injection Heq as <-.
    pose proof (hs_loadDict_ok m c (k_end (hs_core c) - ds) ds c' r ltac:(lia) ltac:(lia) El) as LD.
    destruct LD as (L1 & (L2a & L2b & L2c & L2d & _) & L3 & _ & _ & _ & L7 & L8 & L9 & L10).
    split; [split; [exact L1|]; split; assumption|]. split; [lia|]. split; [exact L2d|]. right. exact L3.
  - intros Heq. injection Heq as <-.
    split; [exact (conj (conj K D) (conj Hd Hl))|]. split; [exact Ha|]. split; [unfold k_endIdx; lia|]. left. reflexivity.
Qed.

Lemma pre3_ok c src : pre_inv c -> K64 <= k_lowLimit (hs_core c) -> k_endIdx (hs_core c) <= GB2 -> 0 <= src ->
  pre_inv (pre3 c src) /\ k_ready (hs_core (pre3 c src)) src /\ (hs_dctx (pre3 c src) = hs_dctx c \/ hs_dctx (pre3 c src) = None).
Proof.
  intros ((K & D) & Hd & Hl) Ha He Hs. unfold pre3. destruct (src =? k_end (hs_core c)) eqn:E; cbn [negb].
  - split; [exact (conj (conj K D) (conj Hd Hl))|]. split; [|left; reflexivity].
    unfold k_ready. split; [exact K|]. split; [exact Hd|]. split; [exact Ha|]. split; [exact He|]. lia.
  - pose proof (k_setExternalDict_ok (hs_core c) src K ltac:(destruct K as (L & _); lia) Hs) as S0. cbv zeta in S0.
    destruct S0 as (S1 & S2 & S3 & _ & S5 & _ & _ & S8 & S9 & S10 & _). cbn [hs_core hs_dctx].
    split; [split; [split; [exact S1 | exact I]|]; cbn [hs_core]; split; [congruence | rewrite S10; exact Hl]|].
    split; [|right; reflexivity]. unfold k_ready. split; [exact S1|]. split; [congruence|].
    split; [destruct K as (L & _); lia|]. split; [lia | exact S8].
Qed.

Lemma pre4_ok c src n : pre_inv c -> k_ready (hs_core c) src -> 0 <= src -> 0 <= n ->
  pre_inv (pre4 c src n) /\ k_ready (hs_core (pre4 c src n)) src /\ hs_dctx (pre4 c src n) = hs_dctx c.
Proof.
  intros ((K & D) & Hd & Hl) (_ & R2 & R3 & R4 & R5) Hs Hn. unfold pre4. cbv zeta.
  pose proof K as (L & P & E & A & T). unfold k_endIdx, EMAX in E.
  remember (hs_core c) as k eqn:Ek.
  assert (U0 : u32 (k_dictLimit k - k_lowLimit k) = k_dictLimit k - k_lowLimit k) by (apply u32s; lia).
  rewrite U0.
  destruct ((src + n >? k_dictStart k) && (src <? k_dictStart k + (k_dictLimit k - k_lowLimit k))) eqn:Ec.
  - remember (if src + n >? k_dictStart k + (k_dictLimit k - k_lowLimit k) then k_dictStart k + (k_dictLimit k - k_lowLimit k) else src + n) as se eqn:Ese.
    assert (Hse : k_dictStart k <= se <= k_dictStart k + (k_dictLimit k - k_lowLimit k)).
    { rewrite Ese. destruct (src + n >? k_dictStart k + (k_dictLimit k - k_lowLimit k)) eqn:E1; lia. }
    assert (U1 : u32 (se - k_dictStart k) = se - k_dictStart k) by (apply u32s; lia). rewrite U1.
    assert (U2 : u32 (k_lowLimit k + (se - k_dictStart k)) = k_lowLimit k + (se - k_dictStart k)) by (apply u32s; lia). rewrite U2.
    assert (U3 : u32 (k_dictLimit k - (k_lowLimit k + (se - k_dictStart k))) = k_dictLimit k - (k_lowLimit k + (se - k_dictStart k))) by (apply u32s; lia).
    rewrite U3.
    destruct (k_dictLimit k - (k_lowLimit k + (se - k_dictStart k)) <? LZ4HC_HASHSIZE) eqn:E4; cbn [hs_core hs_dctx].
    + pose proof (k_ok_lowdict k (k_dictLimit k) (k_prefixStart k) K ltac:(lia)) as K'.
      split; [split; [split; [exact K' | exact D]|]; split; assumption|].
      split; [|reflexivity]. unfold k_ready, k_endIdx in *. cbn [k_dirty k_dictLimit k_lowLimit k_end k_prefixStart].
      split; [exact K'|]. split; [exact R2|]. split; [lia|]. split; [exact R4 | exact R5].
    + pose proof (k_ok_lowdict k (k_lowLimit k + (se - k_dictStart k)) (k_dictStart k + (se - k_dictStart k)) K ltac:(lia)) as K'.
      split; [split; [split; [exact K' | exact D]|]; split; assumption|].
      split; [|reflexivity]. unfold k_ready, k_endIdx in *. cbn [k_dirty k_dictLimit k_lowLimit k_end k_prefixStart].
      split; [exact K'|]. split; [exact R2|]. split; [lia|]. split; [exact R4 | exact R5].
  - unfold pre_inv, hs_ok. rewrite <- Ek. split; [exact (conj (conj K D) (conj Hd Hl))|]. split; [|reflexivity].
    unfold k_ready. split; [exact K|]. split; [exact R2|]. split; [exact R3|]. split; [exact R4 | exact R5].
Qed.

Lemma hs_prelude_ok m c src n c1 :
  pre_inv c -> 0 < src -> 0 <= n -> hs_prelude m c src n = Some c1 ->
  pre_inv c1 /\ k_ready (hs_core c1) src /\ (hs_dctx c1 = hs_dctx c \/ hs_dctx c1 = None).
Proof.
  intros P Hs Hn. rewrite hs_prelude_eq.
  destruct (pre1_ok c src P ltac:(lia)) as (P1 & A1 & D1).
  destruct (pre2 m (pre1 c src)) as [c2|] eqn:E2; [|discriminate].
  destruct (pre2_ok m (pre1 c src) c2 P1 A1 E2) as (P2 & A2 & G2 & D2).
  destruct (pre3_ok c2 src P2 A2 G2 ltac:(lia)) as (P3 & R3 & D3).
  destruct (pre4_ok (pre3 c2 src) src n P3 R3 ltac:(lia) Hn) as (P4 & R4 & D4).
  intros Heq. injection Heq as <-. split; [exact P4|]. split; [exact R4|].
  rewrite D4. destruct D3 as [D3|D3]; [|right; exact D3]. rewrite D3.
  destruct D2 as [D2|D2]; [|right; exact D2]. rewrite D2, D1. left. reflexivity.
Qed.

(* ---------------------------------------------------------------- LZ4HC_compress_generic: dictCtx bookkeeping *)
(* the context the parser finally runs on and the dictionary context it searches in place (usingDictCtxHc);
   None: the cross-strategy dictionary search would be used (not modelled) *)
Definition hs_pick (c1 : hsctx) (src n : Z) : option (hcore * option hcore) :=
  let k := hs_core c1 in
  match hs_dctx c1 with
  | None => Some (k, None)
  | Some d =>
    let position := (k_end k - k_prefixStart k) + u32 (k_dictLimit k - k_lowLimit k) in
    if position >=? K64 then Some (k, None)
    else if (position =? 0) && (n >? 4096) && (Bool.eqb (is_mid (k_level k)) (is_mid (k_level d))) then
      let k' := k_setExternalDict d src in
      Some (mkK (k_h4 k') (k_h8 k') (k_end k') (k_prefixStart k') (k_dictStart k') (k_dictLimit k') (k_lowLimit k') (k_ntu k')
                (k_level k) (k_dirty k'), None)
    else if is_mid (k_level d) then Some (k, Some d)
    else None
  end.

Lemma hs_generic_eq m c1 src n cap lim :
  hs_generic m c1 src n cap lim =
  match hs_pick c1 src n with Some (ke, dc) => k_generic_mid m ke dc src n cap lim | None => None end.
Proof.
  unfold hs_generic, hs_pick. cbv zeta. destruct (hs_dctx c1) as [d|]; [|reflexivity].
  destruct (_ >=? K64); [reflexivity|]. destruct (_ && _ && _); [reflexivity|]. destruct (is_mid (k_level d)); reflexivity.
Qed.

(* the dictionary context searched in place is fit for it *)
Definition dc_ready (dc : option hcore) : Prop :=
  match dc with Some d => d_ok d /\ is_mid (k_level d) = true | None => True end.

Lemma relevel_ready k l src :
  k_ready k src ->
  k_ready (mkK (k_h4 k) (k_h8 k) (k_end k) (k_prefixStart k) (k_dictStart k) (k_dictLimit k) (k_lowLimit k) (k_ntu k) l (k_dirty k)) src.
Proof.
  intros ((L & P & E & A & T) & R2 & R3 & R4 & R5). unfold k_ready, k_ok, k_endIdx, tabs_below in *.
  cbn [k_lowLimit k_dictLimit k_prefixStart k_end k_dirty k_h4 k_h8].
  split; [split; [exact L|]; split; [exact P|]; split; [exact E|]; split; [exact A | exact T]|].
  split; [exact R2|]. split; [exact R3|]. split; [exact R4 | exact R5].
Qed.

Lemma hs_pick_ok c1 src n ke dc :
  pre_inv c1 -> k_ready (hs_core c1) src -> 0 <= src -> hs_pick c1 src n = Some (ke, dc) ->
  k_ready ke src /\ dc_ready dc.
Proof.
  intros ((K & D) & Hd & Hl) R Hs. unfold hs_pick. cbv zeta. destruct (hs_dctx c1) as [d|].
  - destruct (_ >=? K64); [intros H; injection H as <- <-; exact (conj R I)|].
    destruct (_ && _ && _).
    + intros H. injection H as <- <-. split; [|exact I].
      destruct D as (Dk & Dd & Da & De & _).
      pose proof (k_setExternalDict_ok d src Dk Da Hs) as S0. cbv zeta in S0.
      destruct S0 as (S1 & S2 & S3 & S4 & S5 & S6 & S7 & S8 & S9 & S10 & S11 & S12).
      apply (relevel_ready (k_setExternalDict d src) (k_level (hs_core c1)) src).
      split; [exact S1|]. split; [congruence|]. split; [lia|]. split; [lia | exact S8].
    + destruct (is_mid (k_level d)) eqn:Em; [|discriminate]. intros H. injection H as <- <-.
      split; [exact R | exact (conj D Em)].
  - intros H. injection H as <- <-. exact (conj R I).
Qed.

(* ---------------------------------------------------------------- one call of the parser *)
Lemma k_vrd_byte m k : hmem_ok m -> forall a, 0 <= k_vrd m k a < 256.
Proof. intros Hm a. unfold k_vrd. destruct (a >=? k_dictLimit k); apply Hm. Qed.

Lemma kd_vrd_byte m k dc : hmem_ok m -> forall a, 0 <= kd_vrd m k dc a < 256.
Proof.
  intros Hm a. unfold kd_vrd. destruct dc as [d|]; [|apply k_vrd_byte; exact Hm].
  destruct (a >=? k_lowLimit k); [apply k_vrd_byte; exact Hm | apply Hm].
Qed.

Lemma kd_vrd_hi m k dc i : k_lowLimit k <= i -> kd_vrd m k dc i = k_vrd m k i.
Proof. intros H. unfold kd_vrd. destruct dc as [d|]; [|reflexivity]. replace (i >=? k_lowLimit k) with true by lia. reflexivity. Qed.

Lemma k_vrd_src m k src j :
  k_end k = src -> 0 <= j -> k_prefixStart k <= k_end k ->
  k_vrd m k (k_endIdx k + j) = get m (src + j).
Proof.
  intros He Hj Hp. unfold k_vrd, k_endIdx. replace (k_dictLimit k + (k_end k - k_prefixStart k) + j >=? k_dictLimit k) with true by lia.
  f_equal. lia.
Qed.

(* start of the history in the virtual index space: the dictionary context's prefix sits below lowLimit *)
Definition k_dlen (dc : option hcore) : Z := match dc with Some d => k_end d - k_prefixStart d | None => 0 end.
Definition k_lo (k : hcore) (dc : option hcore) : Z := k_lowLimit k - k_dlen dc.

(* which bytes the context designates after the call *)
Definition after_call (ke k' : hcore) (src n consumed : Z) (lim : outdir) : Prop :=
  (lim = FillOutput /\ consumed < n /\ k_prefixStart k' = src + consumed /\ k_end k' = src + consumed /\
   k_lowLimit k' = k_dictLimit k') \/
  (consumed = n /\ k_prefixStart k' = k_prefixStart ke /\ k_end k' = src + n /\ k_dictStart k' = k_dictStart ke /\
   k_dictLimit k' = k_dictLimit ke /\ k_lowLimit k' = k_lowLimit ke).

(* the statement about one call of LZ4HC_compress_generic_internal on the context [ke] with the dictionary context [dc]
   searched in place (None: noDictCtx) *)
Definition call_post (m : mem) (ke : hcore) (dc : option hcore) (src n cap : Z) (lim : outdir) (ret consumed : Z) (out : list Z) (hw : Z) (c' : hsctx) : Prop :=
  hs_ok c' /\ (hs_dctx c' = dc \/ hs_dctx c' = None) /\ k_level (hs_core c') = k_level ke /\
  hw <= hwlim lim n cap /\
  (lim = NotLimited -> n <= LZ4_MAX_INPUT_SIZE -> 0 < ret) /\
  (ret <= 0 -> k_dirty (hs_core c') = true \/ hs_core c' = ke) /\
  (0 < ret ->
   k_dirty (hs_core c') = false /\
   ret = Z.of_nat (length out) /\ ret <= hw /\ 0 <= consumed <= n /\ (lim <> FillOutput -> consumed = n) /\
   spec_decode (seg (kd_vrd m ke dc) (k_lo ke dc) (k_endIdx ke)) out = Some (load_list m src (Z.to_nat consumed)) /\
   (lim <> FillOutput ->
    strict_valid (seg (kd_vrd m ke dc) (k_lo ke dc) (k_endIdx ke)) out = Some (load_list m src (Z.to_nat consumed))) /\
   (after_call ke (hs_core c') src n consumed lim /\ hs_dctx c' = (if consumed <? n then None else dc))).

Theorem k_generic_mid_sound m ke dc src n cap lim ret consumed out hw c' :
  hmem_ok m -> k_ready ke src -> dc_ready dc -> 0 <= src -> 0 <= n < 2147483648 -> 0 <= cap ->
  k_generic_mid m ke dc src n cap lim = Some (HRes ret consumed out hw c') ->
  call_post m ke dc src n cap lim ret consumed out hw c'.
Proof.
  intros Hm (K & Hd & Ha & He & Hend) Hdc Hs Hn Hcap. unfold k_generic_mid, call_post.
  pose proof K as (L & P & E & A & T).
  assert (Hw0 : 0 <= hwlim lim n cap).
  { unfold hwlim. destruct lim; try lia. assert (0 <= n / 255) by (apply Z.div_pos; lia). lia. }
  assert (Dok : match dc with Some d => d_ok d | None => True end) by (destruct dc; [apply Hdc | exact I]).
  assert (Kself : hs_ok (mkHS ke dc)) by (split; [exact K | exact Dok]).
  destruct (match lim with FillOutput => cap <? 1 | _ => false end) eqn:E1.
  { intros H. injection H as <- <- <- <- <-. cbn [hs_core hs_dctx].
    split; [exact Kself|]. split; [left; reflexivity|]. split; [reflexivity|]. split; [exact Hw0|].
    split; [intros ->; discriminate|]. split; [intros _; right; reflexivity | intros; lia]. }
  destruct (u32 n >? LZ4_MAX_INPUT_SIZE) eqn:E2.
  { intros H. injection H as <- <- <- <- <-. cbn [hs_core hs_dctx].
    split; [exact Kself|]. split; [left; reflexivity|]. split; [reflexivity|]. split; [exact Hw0|].
    split; [intros _ Hmax; unfold LZ4_MAX_INPUT_SIZE in *; rewrite u32s in E2 by lia; lia|].
    split; [intros _; right; reflexivity | intros; lia]. }
  assert (Hmax : n <= LZ4_MAX_INPUT_SIZE).
  { unfold LZ4_MAX_INPUT_SIZE in *. rewrite u32s in E2 by lia. lia. }
  cbv zeta.
  remember (k_dictLimit ke + (k_end ke - k_prefixStart ke)) as s0 eqn:Es0.
  assert (Es : s0 = k_endIdx ke) by (rewrite Es0; reflexivity).
  remember (kd_vrd m ke dc) as vrd eqn:Evrd.
  remember (match dc with
            | Some d => dict_search vrd s0 n (k_lowLimit ke) (k_h4 d) (k_h8 d) (k_endIdx d)
            | None => fun _ : Z => @None found
            end) as dsrch eqn:Eds.
  assert (Hb : forall a, 0 <= vrd a < 256) by (rewrite Evrd; apply kd_vrd_byte; exact Hm).
  unfold GB2, K64, EMAX, LZ4_MAX_INPUT_SIZE in *.
  assert (Hidx : 0 <= k_lowLimit ke /\ k_lowLimit ke <= k_dictLimit ke /\ k_dictLimit ke <= s0 /\ s0 + n < M32).
  { rewrite M32_v. unfold k_endIdx in *. lia. }
  assert (Hlo : 0 <= k_lo ke dc <= k_lowLimit ke).
  { unfold k_lo, k_dlen. destruct dc as [d|]; [|lia]. destruct Hdc as ((Dk & _ & _ & _ & Dsr) & Dm).
    destruct (Dsr Dm) as (_ & _ & D3 & _). destruct Dk as (_ & Dp & _). unfold K64 in *. lia. }
  assert (Hds : forall ip f, s0 <= ip <= mi_mflimit s0 n -> dsrch ip = Some f -> found_ok vrd s0 n (k_lo ke dc) ip f).
  { rewrite Eds. destruct dc as [d|]; [|intros ip f _ Hx; discriminate Hx].
    destruct Hdc as ((Dk & _ & Dl & _ & Dsr) & Dm). destruct (Dsr Dm) as (D1 & D2 & D3 & D4). pose proof Dk as (_ & Dp & _).
    intros ip f Hip Hf.
    apply (dict_search_sound vrd s0 n (k_lowLimit ke) (k_lo ke (Some d)) (k_h4 d) (k_h8 d) (k_dictLimit d) (k_endIdx d) D1 D2); try assumption.
    - unfold GB1, K64, k_endIdx in *. lia.
    - rewrite M32_v. unfold k_lo, k_dlen, k_endIdx in *. lia. }
  assert (Tb : tab_lt (k_h4 ke) s0 /\ tab_lt (k_h8 ke) s0).
  { destruct (T Hd) as (T4 & T8). replace (Z.max 1 (k_endIdx ke)) with s0 in * by (unfold k_endIdx in *; lia). split; assumption. }
  destruct Tb as (T4 & T8).
  pose proof (mid_compress_sound vrd lim (k_dictLimit ke) (k_lowLimit ke) s0 n cap Hb Hidx (proj1 Hn)
                (k_lo ke dc) Hlo dsrch Hds (k_h4 ke) (k_h8 ke) T4 T8) as RS.
  pose proof (mid_compress_cap vrd lim (k_dictLimit ke) (k_lowLimit ke) s0 n cap Hb Hidx (proj1 Hn) Hcap
                (k_lo ke dc) Hlo dsrch Hds (k_h4 ke) (k_h8 ke) ltac:(unfold LZ4_MAX_INPUT_SIZE; lia) T4 T8) as RC.
  destruct (mid_compress vrd lim (k_dictLimit ke) (k_lowLimit ke) s0 n cap dsrch (k_h4 ke) (k_h8 ke))
    as [h4 h8 hw'|ret' consumed' out' h4 h8 hw'|] eqn:Em; [| |discriminate].
  - (* the parser failed: dirty *)
    intros H. injection H as <- <- <- <- <-. cbn [RCap] in RC. destruct RC as (RC1 & RC2). cbn [hs_core hs_dctx].
    split.
    { split; [|exact Dok]. cbn [hs_core]. unfold k_ok, with_tabs, k_endIdx, tabs_below, EMAX. cbn [k_lowLimit k_dictLimit k_prefixStart k_end k_dirty k_h4 k_h8].
      unfold k_endIdx in *. split; [lia|]. split; [lia|]. split; [lia|]. split; [exact A | intros; discriminate]. }
    split; [left; reflexivity|]. split; [reflexivity|]. split; [exact RC1|].
    split; [intros ->; exfalso; apply RC2; reflexivity|]. split; [intros _; left; reflexivity | intros; lia].
  - cbn [RSpec] in RS. cbn [RCap] in RC. destruct RC as (RC1 & RC2).
    destruct RS as (R1 & R2 & R3 & R4 & R5 & R6 & R7 & RB).
    replace (ret' <=? 0) with false by lia.
    assert (Hseg : seg vrd s0 (s0 + consumed') = load_list m src (Z.to_nat consumed')).
    { rewrite (seg_as_load _ m _ _ src) by first [lia | (intros i Hi; rewrite Evrd, kd_vrd_hi by lia; rewrite Es; apply k_vrd_src; [exact Hend | lia | lia])]. f_equal. lia. }
    rewrite Hseg in R3, R4. rewrite Es in R3, R4.
    unfold mi_iend in R6, R7.
    assert (Kfull : k_ok (with_tabs ke h4 h8 (k_end ke + n) (k_dirty ke))).
    { unfold k_ok, with_tabs, k_endIdx, tabs_below, EMAX. cbn [k_lowLimit k_dictLimit k_prefixStart k_end k_dirty k_h4 k_h8].
      unfold k_endIdx in *. split; [lia|]. split; [lia|]. split; [lia|]. split; [exact A|].
      intros _. replace (Z.max 1 (k_dictLimit ke + (k_end ke + n - k_prefixStart ke))) with (s0 + n) by lia. split; assumption. }
    assert (Common : forall c'', hs_ok c'' -> (hs_dctx c'' = dc \/ hs_dctx c'' = None) -> k_level (hs_core c'') = k_level ke -> k_dirty (hs_core c'') = false ->
               after_call ke (hs_core c'') src n consumed' lim -> hs_dctx c'' = (if consumed' <? n then None else dc) ->
               hs_ok c'' /\ (hs_dctx c'' = dc \/ hs_dctx c'' = None) /\ k_level (hs_core c'') = k_level ke /\ hw' <= hwlim lim n cap /\
               (lim = NotLimited -> n <= 2113929216 -> 0 < ret') /\
               (ret' <= 0 -> k_dirty (hs_core c'') = true \/ hs_core c'' = ke) /\
               (0 < ret' ->
                k_dirty (hs_core c'') = false /\ ret' = Z.of_nat (length out') /\ ret' <= hw' /\ 0 <= consumed' <= n /\
                (lim <> FillOutput -> consumed' = n) /\
                spec_decode (seg vrd (k_lo ke dc) (k_endIdx ke)) out' = Some (load_list m src (Z.to_nat consumed')) /\
                (lim <> FillOutput -> strict_valid (seg vrd (k_lo ke dc) (k_endIdx ke)) out' = Some (load_list m src (Z.to_nat consumed'))) /\
                (after_call ke (hs_core c'') src n consumed' lim /\ hs_dctx c'' = (if consumed' <? n then None else dc)))).
    { intros c'' C1 C2 C3 C4 C5 C6. split; [exact C1|]. split; [exact C2|]. split; [exact C3|]. split; [exact RC1|].
      split; [intros; lia|]. split; [intros; lia|]. intros _.
      split; [exact C4|]. split; [exact R5|]. split; [lia|]. split; [exact R1|]. split; [exact R2|]. split; [exact R3|]. split; [exact R4 | exact (conj C5 C6)]. }
    assert (Full : after_call ke (with_tabs ke h4 h8 (k_end ke + n) (k_dirty ke)) src n n lim).
    { right. unfold with_tabs. cbn [k_prefixStart k_end k_dictStart k_dictLimit k_lowLimit]. repeat split; try reflexivity. lia. }
    destruct lim.
    + intros H. injection H as <- <- <- <- <-. rewrite (R2 ltac:(discriminate)) in *.
      apply Common; [split; [exact Kfull | exact Dok] | left; reflexivity | reflexivity | exact Hd | exact Full | rewrite Z.ltb_irrefl; reflexivity].
    + intros H. injection H as <- <- <- <- <-. rewrite (R2 ltac:(discriminate)) in *.
      apply Common; [split; [exact Kfull | exact Dok] | left; reflexivity | reflexivity | exact Hd | exact Full | rewrite Z.ltb_irrefl; reflexivity].
    + destruct ((0 <? ret') && (consumed' <? n)) eqn:Ep.
      * intros H. injection H as <- <- <- <- <-.
        pose proof (k_init_internal_ok (with_tabs ke h4 h8 (k_end ke + n) (k_dirty ke)) (src + consumed') Kfull ltac:(lia)) as I0.
        cbv zeta in I0. destruct I0 as (I1 & I2 & I3 & I4 & I5 & I6 & I7 & I8 & I9).
        apply Common; cbn [hs_core hs_dctx]; [split; [exact I1 | exact I] | right; reflexivity | rewrite I9; reflexivity | rewrite I8; exact Hd| | replace (consumed' <? n) with true by lia; reflexivity].
        left. split; [reflexivity|]. split; [lia|]. split; [exact I6|]. split; [exact I7 | exact I5].
      * intros H. injection H as <- <- <- <- <-.
        assert (consumed' = n) by lia. subst consumed'.
        apply Common; [split; [exact Kfull | exact Dok] | left; reflexivity | reflexivity | exact Hd | exact Full | rewrite Z.ltb_irrefl; reflexivity].
Qed.

(* ---------------------------------------------------------------- LZ4_compress_HC_continue(_destSize) *)
Definition hs_effective (m : mem) (c : hsctx) (src n : Z) : option (hcore * option hcore) :=
  match hs_prelude m c src n with Some c1 => hs_pick c1 src n | None => None end.

Lemma hs_continue_generic_eq m c src n cap lim :
  hs_continue_generic m c src n cap lim =
  if is_mid (k_level (hs_core c)) then
    match hs_effective m c src n with Some (ke, dc) => k_generic_mid m ke dc src n cap lim | None => None end
  else None.
Proof.
  unfold hs_continue_generic, hs_effective. destruct (is_mid (k_level (hs_core c))); [|reflexivity].
  destruct (hs_prelude m c src n) as [c1|]; [apply hs_generic_eq | reflexivity].
Qed.

Lemma hs_effective_ready m c src n ke dc :
  hs_ok c -> k_dirty (hs_core c) = false -> is_mid (k_level (hs_core c)) = true -> 0 < src -> 0 <= n ->
  hs_effective m c src n = Some (ke, dc) -> k_ready ke src /\ dc_ready dc.
Proof.
  intros K Hd Hl Hs Hn. unfold hs_effective.
  destruct (hs_prelude m c src n) as [c1|] eqn:E; [|discriminate].
  destruct (hs_prelude_ok m c src n c1 (conj K (conj Hd Hl)) Hs Hn E) as (P1 & R1 & _).
  intros Hp. apply (hs_pick_ok c1 src n ke dc P1 R1 ltac:(lia) Hp).
Qed.

Theorem hs_continue_generic_sound m c src n cap lim ret consumed out hw c' :
  hmem_ok m -> hs_ok c -> k_dirty (hs_core c) = false -> 0 < src -> 0 <= n < 2147483648 -> 0 <= cap ->
  hs_continue_generic m c src n cap lim = Some (HRes ret consumed out hw c') ->
  exists ke dc, hs_effective m c src n = Some (ke, dc) /\ k_ready ke src /\ dc_ready dc /\ is_mid (k_level (hs_core c)) = true /\
                call_post m ke dc src n cap lim ret consumed out hw c'.
Proof.
  intros Hm K Hd Hs Hn Hcap. rewrite hs_continue_generic_eq.
  destruct (is_mid (k_level (hs_core c))) eqn:Hl; [|discriminate].
  destruct (hs_effective m c src n) as [[ke dc]|] eqn:Ee; [|discriminate].
  intros Hg. exists ke, dc. split; [reflexivity|].
  pose proof (hs_effective_ready m c src n ke dc K Hd Hl Hs ltac:(lia) Ee) as (R & Rd).
  split; [exact R|]. split; [exact Rd|]. split; [reflexivity|].
  apply (k_generic_mid_sound m ke dc src n cap lim ret consumed out hw c' Hm R Rd ltac:(lia) Hn Hcap Hg).
Qed.

(* LZ4_compress_HC_extStateHC_fastReset on a stream in any state: the parser runs on a freshly anchored context *)
Theorem hs_fastReset_sound m c src n cap level ret consumed out hw c' :
  hmem_ok m -> hs_ok c -> 0 < src -> 0 <= n < 2147483648 -> 0 <= cap ->
  hs_fastReset m c src n cap level = Some (HRes ret consumed out hw c') ->
  let lim := if cap <? compressBound n then LimitedOutput else NotLimited in
  let ke := k_init_internal (hs_core (hs_resetFast c level)) src in
  k_ready ke src /\ k_lowLimit ke = k_dictLimit ke /\ k_endIdx ke = k_dictLimit ke /\
  call_post m ke None src n cap lim ret consumed out hw c'.
Proof.
  intros Hm K Hs Hn Hcap. unfold hs_fastReset. cbv zeta.
  destruct (hs_resetFast_ok c level K) as (K1 & D1 & X1).
  destruct (is_mid (k_level (hs_core (hs_resetFast c level)))) eqn:Hl; [|discriminate].
  rewrite hs_generic_eq. unfold hs_pick. cbn [hs_dctx hs_core]. rewrite X1. cbv zeta.
  destruct K1 as (K1 & _).
  pose proof (k_init_internal_ok (hs_core (hs_resetFast c level)) src K1 ltac:(lia)) as I0. cbv zeta in I0.
  destruct I0 as (I1 & I2 & I3 & I4 & I5 & I6 & I7 & I8 & I9).
  assert (R : k_ready (k_init_internal (hs_core (hs_resetFast c level)) src) src).
  { unfold k_ready. split; [exact I1|]. split; [congruence|]. split; [lia|]. split; [unfold GB1, GB2, K64 in *; lia | exact I7]. }
  intros Hg. split; [exact R|]. split; [exact I5|]. split; [exact I4|].
  apply (k_generic_mid_sound m _ None src n cap _ ret consumed out hw c' Hm R I ltac:(lia) Hn Hcap Hg).
Qed.

(* ---------------------------------------------------------------- LZ4_attach_HC_dictionary, LZ4_saveDictHC *)
Lemma hs_attach_ok c d :
  hs_ok c -> (match d with Some ds => d_ok (hs_core ds) | None => True end) -> hs_ok (hs_attach c d).
Proof. intros (K & _) P. unfold hs_attach. split; [exact K|]. cbn [hs_dctx]. destruct d; exact P. Qed.

Lemma hs_saveDict_ok m c a n :
  hmem_ok m -> hs_ok c -> 0 < a ->
  let m' := fst (fst (hs_saveDict m c a n)) in let c' := snd (fst (hs_saveDict m c a n)) in let r := snd (hs_saveDict m c a n) in
  hmem_ok m' /\ hs_ok c' /\ k_dirty (hs_core c') = k_dirty (hs_core c) /\ k_level (hs_core c') = k_level (hs_core c) /\
  (hs_dctx c' = hs_dctx c \/ hs_dctx c' = None) /\ 0 <= r <= K64 /\
  (k_prefixStart (hs_core c) = 0 -> c' = c /\ m' = m /\ r = 0) /\
  (k_prefixStart (hs_core c) <> 0 ->
   r <= k_end (hs_core c) - k_prefixStart (hs_core c) /\
   k_prefixStart (hs_core c') = a /\ k_end (hs_core c') = a + r /\ k_lowLimit (hs_core c') = k_dictLimit (hs_core c') /\
   k_endIdx (hs_core c') = k_endIdx (hs_core c) /\
   m' = (if r >? 0 then blit m (k_end (hs_core c) - r) m a (Z.to_nat r) else m) /\
   hs_dctx c' = (if r <? k_end (hs_core c) - k_prefixStart (hs_core c) then None else hs_dctx c)).
Proof.
  intros Hm (K & D) Ha. cbv zeta. unfold hs_saveDict. cbv zeta.
  pose proof K as (L & P & E & A & T).
  destruct (k_prefixStart (hs_core c) =? 0) eqn:E0; cbn [fst snd].
  { split; [exact Hm|]. split; [exact (conj K D)|]. split; [reflexivity|]. split; [reflexivity|]. split; [left; reflexivity|].
    split; [unfold K64; lia|]. split; [intros _; repeat split; reflexivity | intros; lia]. }
  remember (hs_core c) as k eqn:Ek.
  specialize (A ltac:(lia)).
  remember (k_end k - k_prefixStart k) as pl eqn:Epl.
  remember (if n >? K64 then K64 else n) as d1 eqn:Ed1.
  remember (if d1 <? 4 then 0 else d1) as d2 eqn:Ed2.
  remember (if d2 >? pl then pl else d2) as ds eqn:Eds.
  assert (Hds : 0 <= ds <= K64 /\ ds <= pl).
  { rewrite Eds, Ed2, Ed1. unfold K64 in *. destruct (n >? 65536) eqn:E1; [destruct (65536 <? 4) eqn:E2 | destruct (n <? 4) eqn:E2];
      match goal with |- context [if ?b >? pl then _ else _] => destruct (b >? pl) eqn:E3 end; lia. }
  unfold k_endIdx, EMAX, K64 in *.
  assert (U1 : u32 pl = pl) by (apply u32s; lia). rewrite U1.
  assert (U2 : u32 (pl + k_dictLimit k) = pl + k_dictLimit k) by (apply u32s; lia). rewrite U2.
  assert (U3 : u32 (pl + k_dictLimit k - ds) = pl + k_dictLimit k - ds) by (apply u32s; lia). rewrite U3.
  replace (a =? 0) with false by lia. cbn [hs_core hs_dctx k_dirty k_level k_prefixStart k_end k_lowLimit k_dictLimit].
  split.
  { destruct (ds >? 0); [|exact Hm]. unfold blit. intros x. apply store_list_ok; [exact Hm | apply load_list_ok; exact Hm]. }
  split.
  { split; [|destruct (ds <? pl); [exact I | exact D]]. cbn [hs_core]. unfold k_ok, k_endIdx, tabs_below, EMAX, K64. cbn [k_lowLimit k_dictLimit k_prefixStart k_end k_dirty k_h4 k_h8].
    split; [lia|]. split; [lia|]. split; [lia|]. split; [intros; lia|].
    intros Hdy. specialize (T Hdy). unfold tabs_below in T.
    replace (pl + k_dictLimit k - ds + (a + ds - a)) with (k_dictLimit k + (k_end k - k_prefixStart k)) by lia. exact T. }
  split; [reflexivity|]. split; [reflexivity|]. split; [destruct (ds <? pl); [right | left]; reflexivity|]. split; [lia|].
  split; [intros; lia|]. intros _.
  split; [lia|]. split; [reflexivity|]. split; [reflexivity|]. split; [reflexivity|]. split; [lia|].
  split; reflexivity.
Qed.

(* ================================================================ every operation, any history *)
Definition hop_pre (st : mem * hsctx) (o : hop) : Prop :=
  match o with
  | HWrite a bs => list_ok bs
  | HLoadDict a n => 0 <= n /\ 0 <= a
  | HAttach (Some d) => d_ok (hs_core d)
  | HContinue src n cap | HContinueDestSize src n cap =>
    k_dirty (hs_core (snd st)) = false /\ 0 < src /\ 0 <= n < 2147483648 /\ 0 <= cap
  | HSaveDict a n => 0 < a
  | HFastReset src n cap l | HExtState src n cap l => 0 < src /\ 0 <= n < 2147483648 /\ 0 <= cap
  | _ => True
  end.

Definition hstate_inv (st : mem * hsctx) : Prop := hmem_ok (fst st) /\ hs_ok (snd st).

Lemma of_res_inv m r st' x : of_res m r = Some (st', x) -> exists ret consumed out hw c', r = Some (HRes ret consumed out hw c') /\ st' = (m, c') /\ x = (ret, out, consumed).
Proof.
  unfold of_res. destruct r as [[ret consumed out hw c']|]; [|discriminate].
  intros H. injection H as <- <-. exists ret, consumed, out, hw, c'. repeat split; reflexivity.
Qed.

Lemma hstep_inv st o st' x : hstate_inv st -> hop_pre st o -> hstep st o = Some (st', x) -> hstate_inv st'.
Proof.
  destruct st as [m c]. intros (Hm & K) P. unfold hstate_inv in *. cbn [fst snd] in *.
  destruct o; cbn [hstep hop_pre snd] in *.
  - intros H. injection H as <- <-. cbn [fst snd]. split; [intros y; apply store_list_ok; assumption | exact K].
  - intros H. injection H as <- <-. split; [exact Hm | exact hs_init_ok].
  - intros H. injection H as <- <-. split; [exact Hm | apply hs_resetStream_ok].
  - intros H. injection H as <- <-. split; [exact Hm | apply hs_resetFast_ok; exact K].
  - intros H. injection H as <- <-. split; [exact Hm | apply hs_setLevel_ok; exact K].
  - destruct (hs_loadDict m c a n) as [[c' r]|] eqn:E; [|discriminate]. intros H. injection H as <- <-.
    destruct P as (P1 & P2). split; [exact Hm | apply (hs_loadDict_ok m c a n c' r P1 P2 E)].
  - intros H. injection H as <- <-. split; [exact Hm | apply hs_attach_ok; [exact K | destruct d; [exact P | exact I]]].
  - intros H. apply of_res_inv in H. destruct H as (ret & consumed & out & hw & c' & E & -> & _).
    destruct P as (Pd & Ps & Pn & Pc). unfold hs_continue in E.
    destruct (hs_continue_generic_sound m c src n cap _ ret consumed out hw c' Hm K Pd Ps Pn Pc E) as (ke & dc & _ & _ & _ & _ & Q).
    split; [exact Hm | apply Q].
  - intros H. apply of_res_inv in H. destruct H as (ret & consumed & out & hw & c' & E & -> & _).
    destruct P as (Pd & Ps & Pn & Pc). unfold hs_continue_destSize in E.
    destruct (hs_continue_generic_sound m c src n target _ ret consumed out hw c' Hm K Pd Ps Pn Pc E) as (ke & dc & _ & _ & _ & _ & Q).
    split; [exact Hm | apply Q].
  - pose proof (hs_saveDict_ok m c a n Hm K P) as S. cbv zeta in S.
    destruct (hs_saveDict m c a n) as [[m' c'] r]. cbn [fst snd] in S. intros H. injection H as <- <-.
    split; apply S.
  - intros H. apply of_res_inv in H. destruct H as (ret & consumed & out & hw & c' & E & -> & _).
    destruct P as (Ps & Pn & Pc).
    pose proof (hs_fastReset_sound m c src n cap level ret consumed out hw c' Hm K Ps Pn Pc E) as Q. cbv zeta in Q.
    split; [exact Hm | apply Q].
  - intros H. apply of_res_inv in H. destruct H as (ret & consumed & out & hw & c' & E & -> & _).
    destruct P as (Ps & Pn & Pc). unfold hs_extState in E.
    pose proof (hs_fastReset_sound m hs_init src n cap level ret consumed out hw c' Hm hs_init_ok Ps Pn Pc E) as Q. cbv zeta in Q.
    split; [exact Hm | apply Q].
Qed.

(* a run inside the model: every step is defined *)
Fixpoint hrun (st : mem * hsctx) (ops : list hop) : option (mem * hsctx) :=
  match ops with
  | [] => Some st
  | o :: r => match hstep st o with Some (st', _) => hrun st' r | None => None end
  end.
Fixpoint hops_pre (st : mem * hsctx) (ops : list hop) : Prop :=
  match ops with
  | [] => True
  | o :: r => hop_pre st o /\ match hstep st o with Some (st', _) => hops_pre st' r | None => True end
  end.

Theorem hs_inv_run : forall ops st st', hstate_inv st -> hops_pre st ops -> hrun st ops = Some st' -> hstate_inv st'.
Proof.
  induction ops as [|o r IH]; intros st st' I P; cbn [hrun hops_pre] in *.
  - intros H. injection H as <-. exact I.
  - destruct P as (P1 & P2). destruct (hstep st o) as [[st1 x]|] eqn:E; [|discriminate].
    apply IH; [apply (hstep_inv st o st1 x I P1 E) | exact P2].
Qed.
