(* Capacity contract of the building blocks of the HC hash-chain parser model (Model.HcChain), as for LZ4MID:
   - limitedOutput / fillOutput: nothing is ever written beyond maxOutputSize (the high-water mark [hw] includes
     the slack of LZ4_wildCopy8 and the bytes of an attempt that was then abandoned);
   - notLimited: nothing is written beyond LZ4_COMPRESSBOUND(srcSize) (255 * output <= 256 * input consumed,
     per sequence), and the parser cannot fail;
   - the size_t subtraction of the fillOutput epilogue cannot wrap (maxOutputSize >= 1, which
     LZ4HC_compress_generic_internal checks). *)
From Coq Require Import ZArith List Lia Bool ZifyBool.
From LZ4V Require Import Gen.Consts Spec.BlockSpec Model.Mem Model.Fast Model.HcEmit Model.HcMid Model.HcChain.
From LZ4V Require Import Proofs.BlockSpecProofs Proofs.FactorSpec Proofs.FastBasics Proofs.FastCap Proofs.HcEmitProofs.
From LZ4V Require Import Proofs.HcMidSound Proofs.HcMidCap Proofs.HcChainSearch Proofs.HcChainSound.
Import ListNotations.
Local Open Scope Z_scope.

(* section-independent restatements (the HcMidCap versions carry incidental section arguments) *)
Lemma bound_255c srcSize : 0 <= srcSize -> 256 * srcSize + 3826 <= 255 * (srcSize + srcSize / 255 + 16).
Proof. intros H. Z.div_mod_to_equations. lia. Qed.
Lemma extlen_le_addc v : 0 <= v -> extlen v <= (v + 240) / 255.
Proof. intros Hv. unfold extlen. destruct (v <? 15) eqn:B; Z.div_mod_to_equations; lia. Qed.

Section ChainCap.
  Variable vrd : Z -> Z.
  Variable lim : outdir.
  Variables s0 srcSize maxOut : Z.
  Hypothesis Hb : forall a, 0 <= vrd a < 256.
  Hypothesis Hsz : 0 <= srcSize.
  Hypothesis Hmo : 0 <= maxOut.

  Notation iend := (hc_iend s0 srcSize).
  Notation mflimit := (hc_mflimit s0 srcSize).
  Notation matchlimit := (hc_matchlimit s0 srcSize).
  Definition chw : Z := HcMidCap.hwlim lim srcSize maxOut.
  Definition coe : Z := HcMidCap.oend_seq lim maxOut.
  Notation hwlim := chw.
  Notation oend_seq := coe.

  Definition CInv (s : cst) : Prop :=
    c_hw s <= hwlim /\ 0 <= c_op s <= hwlim /\
    (lim = NotLimited -> 255 * c_op s <= 256 * (c_anchor s - s0)) /\
    (lim = FillOutput -> c_op s <= Z.max 0 oend_seq).

  Definition RCap (r : cres) : Prop :=
    match r with
    | COk ret consumed out t hw => hw <= hwlim /\ 1 <= ret <= hw
    | CFail t hw => hw <= hwlim /\ lim <> NotLimited
    | CUndef => False
    end.

  Lemma cclimits : mflimit = iend - 12 /\ matchlimit = iend - 5 /\ iend = s0 + srcSize.
  Proof. unfold hc_mflimit, hc_matchlimit, hc_iend, MFLIMIT, LASTLITERALS. lia. Qed.

  Lemma c_last_literals_cap s oend :
    (lim = FillOutput -> 1 <= maxOut) -> CInv s -> s0 <= c_anchor s <= iend -> oend = maxOut ->
    RCap (c_last_literals vrd lim s0 srcSize s oend).
  Proof.
    intros Hfill (Hhw & Hop & Hpot & Hfo) Ha ->. pose proof cclimits as (L1 & L2 & L3).
    unfold c_last_literals. cbv zeta.
    set (lastRun := iend - c_anchor s). assert (HlR : 0 <= lastRun) by (subst lastRun; lia).
    assert (Emit : forall lr, 0 <= lr ->
      c_op s + 1 + extlen lr + lr <= hwlim ->
      RCap (let hdr := if lr >=? RUN_MASK then RUN_MASK * 16 :: lit_ext (Z.to_nat lr) (lr - RUN_MASK) else [lr * 16] in
            let bytes := hdr ++ src_bytes vrd (Z.to_nat lr) (c_anchor s) in
            let op' := c_op s + Z.of_nat (length bytes) in
            COk op' (c_anchor s + lr - s0) (rev_append (c_rout s) bytes) (c_tabs s) (Z.max (c_hw s) op'))).
    { intros lr Hlr Hfit. cbv zeta. cbn [RCap].
      assert (Hlen : Z.of_nat (length ((if lr >=? RUN_MASK then RUN_MASK * 16 :: lit_ext (Z.to_nat lr) (lr - RUN_MASK) else [lr * 16])
                                        ++ src_bytes vrd (Z.to_nat lr) (c_anchor s))) = 1 + extlen lr + lr).
      { rewrite app_length, src_bytes_length, Nat2Z.inj_add, Z2Nat.id by lia.
        unfold RUN_MASK, extlen. destruct (lr >=? 15) eqn:A; destruct (lr <? 15) eqn:B; try lia; [|cbn [length]; lia].
        cbn [length]. rewrite lit_ext_spec; [|lia | left; Z.div_mod_to_equations; lia].
        unfold ext_len. rewrite app_length, repeat_length. cbn [length].
        assert (0 <= (lr - 15) / 255) by (Z.div_mod_to_equations; lia). lia. }
      rewrite Hlen. pose proof (extlen_nonneg lr). lia. }
    assert (Hex : forall v, 0 <= v -> extlen v <= (v + 255 - RUN_MASK) / 255).
    { intros v Hv. unfold extlen, RUN_MASK. destruct (v <? 15) eqn:B; Z.div_mod_to_equations; lia. }
    destruct (hc_limited lim && (c_op s + (1 + (lastRun + 255 - RUN_MASK) / 255 + lastRun) >? maxOut)) eqn:E.
    - remember lim as l eqn:El. destruct l.
      + cbn [hc_limited andb] in E. discriminate.
      + cbn [RCap]. split; [exact Hhw | congruence].
      + specialize (Hfo eq_refl). specialize (Hfill eq_refl).
        assert (Eo : oend_seq = maxOut - 5) by (unfold coe, HcMidCap.oend_seq, LASTLITERALS; rewrite <- El; reflexivity).
        destruct (maxOut - c_op s <? 1) eqn:E1; [exfalso; lia|].
        apply Emit.
        * assert (0 <= maxOut - c_op s - 1) by lia. set (x := maxOut - c_op s - 1) in *. clearbody x.
          unfold RUN_MASK. Z.div_mod_to_equations. lia.
        * unfold chw, HcMidCap.hwlim. rewrite <- El.
          assert (Hx : 0 <= maxOut - c_op s - 1) by lia.
          set (x := maxOut - c_op s - 1) in *.
          replace maxOut with (x + c_op s + 1) by (subst x; lia). clearbody x.
          unfold extlen, RUN_MASK. destruct (x - (x + 256 - 15) / 256 <? 15) eqn:B; Z.div_mod_to_equations; lia.
    - apply Emit; [exact HlR|].
      pose proof (Hex lastRun HlR) as Hx.
      unfold chw, HcMidCap.hwlim. remember lim as l eqn:El. destruct l.
      + specialize (Hpot eq_refl). pose proof (bound_255c srcSize Hsz). pose proof (extlen_bound lastRun HlR).
        subst lastRun. destruct (iend - c_anchor s <? 15) eqn:B; Z.div_mod_to_equations; lia.
      + cbn [hc_limited andb] in E. lia.
      + cbn [hc_limited andb] in E. lia.
  Qed.

  Lemma c_dest_overflow_cap s ml off :
    (lim = FillOutput -> 1 <= maxOut) -> lim <> NotLimited -> CInv s -> s0 <= c_anchor s <= c_ip s -> c_ip s + ml <= matchlimit -> 4 <= ml ->
    RCap (c_dest_overflow vrd lim s0 srcSize s ml off oend_seq).
  Proof.
    intros Hfill Hnl (Hhw & Hop & Hpot & Hfo) Ha Hml H4. pose proof cclimits as (L1 & L2 & L3).
    unfold c_dest_overflow. remember lim as l eqn:El. destruct l; [congruence | cbn [RCap]; split; [exact Hhw | congruence] |].
    rewrite El. cbv zeta.
    assert (Eo : oend_seq = maxOut - 5) by (unfold coe, HcMidCap.oend_seq, LASTLITERALS; rewrite <- El; reflexivity).
    assert (Eh : hwlim = maxOut) by (unfold chw, HcMidCap.hwlim; rewrite <- El; reflexivity).
    rewrite Eo. unfold LASTLITERALS. replace (maxOut - 5 + 5) with maxOut by lia.
    set (L := c_ip s - c_anchor s) in *. assert (HL : 0 <= L) by (subst L; lia).
    assert (EL : L = c_ip s - c_anchor s) by reflexivity. clearbody L.
    pose proof (extlen_le_addc L HL) as HeL. pose proof (extlen_nonneg L) as HeL0.
    apply c_last_literals_cap; [intros _; apply Hfill; reflexivity | | | reflexivity].
    - assert (Same : CInv s).
      { unfold CInv. split; [assumption|]. split; [assumption|]. split; [intros; congruence | intros _; apply Hfo; reflexivity]. }
      destruct (c_op s + (1 + (L + 240) / 255 + L) <=? maxOut - 5 - 3) eqn:E1; [|exact Same].
      set (left := maxOut - 5 - 3 - (c_op s + (1 + (L + 240) / 255 + L))) in *.
      assert (Hleft : 0 <= left) by (subst left; lia).
      assert (Eleft : left = maxOut - 5 - 3 - (c_op s + (1 + (L + 240) / 255 + L))) by reflexivity.
      clearbody left.
      set (mx := MINMATCH + (ML_MASK - 1) + left * 255).
      set (ml' := if ml >? mx then mx else ml).
      destruct (maxOut - (c_op s + (1 + (L + 240) / 255 + L) + 2) - 1 + ml' >=? MFLIMIT) eqn:E2; [|exact Same].
      assert (Hml' : 4 <= ml' <= mx) by (subst ml' mx; unfold MINMATCH, ML_MASK, MFLIMIT in *; destruct (ml >? _) eqn:E3; lia).
      assert (Emx : mx = 18 + left * 255) by (subst mx; unfold MINMATCH, ML_MASK; lia).
      clearbody ml'. clearbody mx.
      pose proof (encodeSequence_shape vrd (c_ip s) (c_anchor s) (c_op s) ml' off false (maxOut - 5) ltac:(lia) ltac:(unfold MINMATCH; lia)) as Hsh.
      cbv zeta in Hsh. specialize (Hsh (encodeSequence_notlimited vrd (c_ip s) (c_anchor s) (c_op s) ml' off (maxOut - 5))).
      rewrite <- EL in Hsh. destruct Hsh as (Hso & Hsw).
      assert (Hem : extlen (ml' - MINMATCH) <= left).
      { unfold extlen, MINMATCH, ML_MASK in *. destruct (ml' - 4 <? 15) eqn:B; [lia|]. Z.div_mod_to_equations. lia. }
      pose proof (extlen_nonneg (ml' - MINMATCH)).
      unfold CInv. cbn [c_hw c_op c_anchor]. rewrite Eh.
      split; [|split; [|split; [intros; congruence | intros _; rewrite Eo; lia]]].
      + lia.
      + lia.
    - destruct (c_op s + (1 + (L + 240) / 255 + L) <=? maxOut - 5 - 3) eqn:E1; [|lia].
      set (mx := MINMATCH + (ML_MASK - 1) + (maxOut - 5 - 3 - (c_op s + (1 + (L + 240) / 255 + L))) * 255).
      assert (Hml' : 0 <= (if ml >? mx then mx else ml) <= ml).
      { assert (18 <= mx) by (subst mx; unfold MINMATCH, ML_MASK; lia). clearbody mx. destruct (ml >? mx) eqn:E3; lia. }
      clearbody mx. set (ml' := if ml >? mx then mx else ml) in *. clearbody ml'.
      destruct (_ >=? MFLIMIT); cbn [c_anchor]; lia.
  Qed.

  (* one sequence *)
  Lemma c_encode_cap s ml off :
    (lim = FillOutput -> 1 <= maxOut) -> CInv s -> s0 <= c_anchor s <= c_ip s -> c_ip s + ml <= matchlimit -> 4 <= ml ->
    match c_encode vrd lim s0 srcSize s ml off oend_seq with
    | inl s' => CInv s'
    | inr r => RCap r
    end.
  Proof.
    intros Hfill (Hhw & Hop & Hpot & Hfo) Ha Hml Hml4. pose proof cclimits as (L1 & L2 & L3).
    unfold c_encode. cbv zeta.
    set (L := c_ip s - c_anchor s) in *. assert (HL : 0 <= L) by (subst L; lia).
    pose proof (extlen_nonneg L) as HeL0. pose proof (extlen_nonneg (ml - MINMATCH)) as HeM0.
    set (e := encodeSequence vrd (c_ip s) (c_anchor s) (c_op s) ml off (hc_limited lim) oend_seq).
    pose proof (encodeSequence_shape vrd (c_ip s) (c_anchor s) (c_op s) ml off (hc_limited lim) oend_seq ltac:(lia) ltac:(unfold MINMATCH; lia)) as Hsh.
    cbv zeta in Hsh. fold e in Hsh. fold L in Hsh.
    assert (Hoe : lim <> NotLimited -> oend_seq <= hwlim).
    { intros Hn. unfold coe, chw, HcMidCap.oend_seq, HcMidCap.hwlim, LASTLITERALS. destruct lim; [congruence | lia | lia]. }
    assert (Hlimcase : lim <> NotLimited -> e_hw e <= Z.max (c_op s) oend_seq /\ (e_ret e = 0 -> e_op e <= oend_seq)).
    { intros Hn. subst e. replace (hc_limited lim) with true by (destruct lim; [congruence | reflexivity | reflexivity]).
      apply encodeSequence_hw_lim; [lia | unfold MINMATCH; lia]. }
    destruct (e_ret e =? 0) eqn:Er.
    - assert (Hret : e_ret e = 0) by lia. specialize (Hsh Hret). destruct Hsh as (Hso & Hsw).
      unfold CInv; cbn [c_hw c_op c_anchor].
      destruct (outdir_case lim) as [Hn|Hn].
      + specialize (Hpot Hn). pose proof (bound_255c srcSize Hsz) as B255.
        pose proof (seq_potential_255 L ml HL Hml4) as P255. pose proof (extlen_bound L HL) as EB.
        assert (Ehw : hwlim = srcSize + srcSize / 255 + 16) by (unfold chw, HcMidCap.hwlim; rewrite Hn; reflexivity).
        unfold MINMATCH in *.
        split; [|split; [|split; [intros _|intros; congruence]]];
          [destruct (L <? 15); lia | destruct (L <? 15); lia | subst L; lia].
      + specialize (Hlimcase Hn); specialize (Hoe Hn); destruct Hlimcase as (Hw1 & Hw2); specialize (Hw2 Hret).
        split; [lia | split; [lia | split; [intros; congruence | intros _; lia]]].
    - destruct (outdir_case lim) as [Hn|Hn].
      + exfalso. subst e. rewrite Hn in Er. cbn [hc_limited] in Er. rewrite encodeSequence_notlimited in Er. discriminate.
      + specialize (Hlimcase Hn); specialize (Hoe Hn). destruct Hlimcase as (Hw1 & _).
        apply c_dest_overflow_cap; cbn [c_ip c_anchor c_op c_hw]; try lia; try assumption.
        unfold CInv. cbn [c_hw c_op c_anchor]. split; [lia|]. split; [lia|]. split; [intros; congruence | exact Hfo].
  Qed.

  Lemma CInv_with_ip s x : CInv s -> CInv (with_ip s x).
  Proof. intros H. exact H. Qed.
  Lemma CInv_with_tabs s t : CInv s -> CInv (with_tabs s t).
  Proof. intros H. exact H. Qed.
End ChainCap.
