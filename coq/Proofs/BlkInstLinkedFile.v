(* C20 (lz4file round trip) with the block-compressor hypotheses discharged for linked blocks by the stream models. *)
From Coq Require Import ZArith List Bool.
From LZ4V Require Import Model.FrameD Proofs.FrameDProofs.
From LZ4V Require Import Gen.Consts Spec.BlockSpec Spec.FrameSpec Model.FrameCSizes Model.File Model.FileInst.
From LZ4V Require Import Proofs.FileProofs Proofs.FileInstProofs.
From LZ4V Require Import Proofs.FileDecInst Proofs.FileCompInst.
From LZ4V Require Model.FrameC Proofs.FrameCTheorems Proofs.BlkInstLinked.
Import ListNotations.

(* the conclusion of C20_roundtrip_discharged for one block compressor *)
Definition C20_body (blk : nat -> list byte -> list byte -> option (list byte)) : Prop :=
  forall (po : option prefs) (mw : nat) (bufs : list (list byte)) (sizes : list nat) (junk : list byte),
    maxWrite_of po = Some mw -> FileProofs.csize_ok po (concat bufs) -> prefs_wf po ->
    (Z.of_nat (length (concat bufs)) < FrameC.U64)%Z -> bytes_ok (concat bufs) = true ->
    exists file : list byte,
      write_session FrameC.cctx FrameC.cctx_zero fc_begin (fc_update blk) (fc_end blk) po bufs
        = (FOk (map (fun b => FOk (length b)) bufs), file) /\
      frame_ok file (concat bufs) /\
      read_session dstate dctx_init fd_info fd_dec true junk file sizes = FOk (chop (concat bufs) sizes).

Theorem c20_linked orc : (forall n, BlkInstLinked.lcall_ok (orc n)) -> C20_body (BlkInstLinked.blk_of orc).
Proof.
  intros H. destruct (BlkInstLinked.blk_of_contract orc H) as (A & _ & C). unfold C20_body.
  apply (roundtrip_discharged (BlkInstLinked.blk_of orc) A C).
Qed.
