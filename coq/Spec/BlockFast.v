(* An O(off + n) implementation of [copy_match] (rotating window queue) and the
   proof that it equals the byte-by-byte specification.  Used by the extracted
   oracle so that MB-scale blocks can be judged by the *specified* semantics. *)
From Coq Require Import ZArith List Lia Bool.
From LZ4V Require Import Spec.BlockSpec.
Import ListNotations.

(* linear-time list reversal (stdlib [rev] is quadratic once extracted) *)
Definition rev' (l : list byte) : list byte := rev_append l [].
Lemma rev'_rev l : rev' l = rev l.
Proof. unfold rev'. symmetry. apply rev_alt. Qed.
(* does [l] have at least [k] elements?  O(k), not O(length l) *)
Fixpoint has_len (k : nat) (l : list byte) : bool :=
  match k with O => true | S k' => match l with [] => false | _ :: r => has_len k' r end end.
Lemma has_len_spec k : forall l, has_len k l = Nat.leb k (length l).
Proof. induction k as [|k IH]; intros [|x l]; cbn [has_len length Nat.leb]; auto. Qed.

(* window = the last [off] bytes in forward order = front ++ rev back *)
Fixpoint cm_q (front back acc : list byte) (n : nat) : list byte :=
  match n with
  | O => acc
  | S n' =>
    match front with
    | b :: f => cm_q f (b :: back) (b :: acc) n'
    | [] => match rev' back with
            | b :: f => cm_q f [b] (b :: acc) n'
            | [] => acc
            end
    end
  end.

Definition copy_match_fast (rout : list byte) (off n : nat) : option (list byte) :=
  match n with
  | O => Some rout
  | _ => if negb (has_len off rout) || (Nat.eqb off 0) then None
         else Some (cm_q (rev' (firstn off rout)) [] rout n)
  end.

Lemma nth_error_rev_firstn_hd : forall (l : list byte) off,
  (1 <= off <= length l)%nat ->
  exists w, rev (firstn off l) = match nth_error l (off - 1) with Some b => b :: w | None => [] end
            /\ nth_error l (off - 1) <> None.
Proof.
  intros l off H.
  destruct (nth_error l (off - 1)) as [b|] eqn:E.
  2:{ apply nth_error_None in E. lia. }
  assert (Hs : firstn off l = firstn (off - 1) l ++ [b]).
  { replace off with (S (off - 1)) at 1 by lia.
    clear H. revert l E. generalize (off - 1)%nat as k.
    induction k as [|k IH]; intros l E; destruct l as [|x l]; simpl in *; try discriminate.
    - inversion E; reflexivity.
    - f_equal. apply IH. exact E. }
  exists (rev (firstn (off - 1) l)). split; [|discriminate].
  rewrite Hs, rev_app_distr. reflexivity.
Qed.

Lemma window_push : forall (l : list byte) off b w,
  (1 <= off <= length l)%nat ->
  rev (firstn off l) = b :: w ->
  rev (firstn off (b :: l)) = w ++ [b].
Proof.
  intros l off b w H E.
  destruct off as [|k]; [lia|].
  simpl firstn. simpl rev.
  f_equal.
  (* rev (firstn k l) = w *)
  assert (Hk : firstn (S k) l = firstn k l ++ skipn k (firstn (S k) l)).
  { rewrite <- (firstn_skipn k (firstn (S k) l)) at 1.
    rewrite firstn_firstn. replace (Nat.min k (S k)) with k by lia. reflexivity. }
  assert (Hl : length (skipn k (firstn (S k) l)) = 1%nat).
  { rewrite skipn_length, firstn_length. lia. }
  destruct (skipn k (firstn (S k) l)) as [|x [|y t]] eqn:Es; simpl in Hl; try lia.
  rewrite Hk, rev_app_distr in E. simpl in E. inversion E. reflexivity.
Qed.

Lemma cm_q_spec : forall n front back acc off,
  (1 <= off <= length acc)%nat ->
  rev (firstn off acc) = front ++ rev back ->
  copy_match acc off n = Some (cm_q front back acc n).
Proof.
  induction n as [|n IH]; intros front back acc off Hoff Hw; cbn [copy_match cm_q]; [reflexivity|].
  rewrite rev'_rev.
  destruct (nth_error_rev_firstn_hd acc off Hoff) as [w [Hw1 Hne]].
  destruct (nth_error acc (off - 1)) as [b|] eqn:E; [|congruence].
  destruct front as [|x f].
  - simpl in Hw. rewrite <- Hw, Hw1.
    apply IH; [simpl; lia|].
    rewrite (window_push acc off b w Hoff Hw1). reflexivity.
  - rewrite Hw in Hw1. simpl in Hw1. inversion Hw1 as [[Hx Hf]]. subst x.
    apply IH; [simpl; lia|].
    rewrite (window_push acc off b (f ++ rev back) Hoff Hw).
    simpl. rewrite app_assoc. reflexivity.
Qed.

Theorem copy_match_fast_ok : forall rout off n,
  (1 <= off)%nat -> copy_match_fast rout off n = copy_match rout off n.
Proof.
  intros rout off n Hoff. unfold copy_match_fast.
  destruct n as [|n]; [reflexivity|].
  rewrite has_len_spec, rev'_rev.
  destruct (Nat.leb off (length rout)) eqn:El; cbn [negb orb].
  2:{ apply PeanoNat.Nat.leb_gt in El.
    assert (E : nth_error rout (off - 1) = None) by (apply nth_error_None; lia).
    cbn [copy_match]. rewrite E. reflexivity. }
  apply PeanoNat.Nat.leb_le in El.
  destruct (Nat.eqb off 0) eqn:E0; [apply PeanoNat.Nat.eqb_eq in E0; lia|].
  symmetry. apply (cm_q_spec (S n)); [lia|]. rewrite app_nil_r. reflexivity.
Qed.

(* fast variants of the sequence semantics *)
Definition apply_seq_fast (rout : list byte) (s : seq) : option (list byte) :=
  if off_ok (s_off s) && (4 <=? s_mlen s)%Z then
    copy_match_fast (rev_append (s_lits s) rout) (Z.to_nat (s_off s)) (Z.to_nat (s_mlen s))
  else None.

Fixpoint apply_seqs_fast (rout : list byte) (ss : list seq) : option (list byte) :=
  match ss with
  | [] => Some rout
  | s :: r => match apply_seq_fast rout s with
              | Some rout' => apply_seqs_fast rout' r
              | None => None
              end
  end.

Definition run_seqs_fast (hist : list byte) (ss : list seq) (last : list byte) : option (list byte) :=
  match apply_seqs_fast (rev' hist) ss with
  | Some rout => Some (skipn (length hist) (rev' (rev_append last rout)))
  | None => None
  end.

Lemma apply_seq_fast_ok rout s : apply_seq_fast rout s = apply_seq rout s.
Proof.
  unfold apply_seq_fast, apply_seq, off_ok.
  destruct ((1 <=? s_off s)%Z && (s_off s <=? 65535)%Z && (4 <=? s_mlen s)%Z) eqn:E; [|reflexivity].
  rewrite rev_append_rev. apply copy_match_fast_ok.
  apply andb_prop in E. destruct E as [E _]. apply andb_prop in E. destruct E as [E _].
  apply Z.leb_le in E. lia.
Qed.

Lemma apply_seqs_fast_ok ss : forall rout, apply_seqs_fast rout ss = apply_seqs rout ss.
Proof.
  induction ss as [|s ss IH]; intros rout; simpl; [reflexivity|].
  rewrite apply_seq_fast_ok. destruct (apply_seq rout s); [apply IH|reflexivity].
Qed.

Theorem run_seqs_fast_ok hist ss last : run_seqs_fast hist ss last = run_seqs hist ss last.
Proof.
  unfold run_seqs_fast, run_seqs. rewrite rev'_rev, apply_seqs_fast_ok.
  destruct (apply_seqs (rev hist) ss); [|reflexivity].
  rewrite rev'_rev, rev_append_rev. reflexivity.
Qed.

Definition spec_decode_fast (hist blk : list byte) : option (list byte) :=
  match parse_block blk with
  | Some (ss, last) => run_seqs_fast hist ss last
  | None => None
  end.
Definition strict_valid_fast (hist blk : list byte) : option (list byte) :=
  match parse_block blk with
  | Some (ss, last) => if end_ok ss last then run_seqs_fast hist ss last else None
  | None => None
  end.

Theorem spec_decode_fast_ok hist blk : spec_decode_fast hist blk = spec_decode hist blk.
Proof. unfold spec_decode_fast, spec_decode. destruct (parse_block blk) as [[ss last]|]; [apply run_seqs_fast_ok|reflexivity]. Qed.
Theorem strict_valid_fast_ok hist blk : strict_valid_fast hist blk = strict_valid hist blk.
Proof.
  unfold strict_valid_fast, strict_valid. destruct (parse_block blk) as [[ss last]|]; [|reflexivity].
  destruct (end_ok ss last); [apply run_seqs_fast_ok|reflexivity].
Qed.
