(* LZ4 frame format, legacy frames, skippable frames and concatenated streams,
   written from doc/lz4_Frame_format.md only. *)
From Coq Require Import ZArith List Lia Bool.
From LZ4V Require Import Spec.BlockSpec Spec.XXH32.
Import ListNotations.
Local Open Scope Z_scope.

Definition le16 (b0 b1 : Z) : Z := b0 + 256 * b1.
Fixpoint le_bytes (n : nat) (v : Z) : list byte :=
  match n with O => [] | S n' => (v mod 256) :: le_bytes n' (v / 256) end.
Fixpoint le_val (bs : list byte) : Z :=
  match bs with [] => 0 | b :: r => b + 256 * le_val r end.

Definition MAGIC : Z := 407708164.          (* 0x184D2204 *)
Definition MAGIC_SKIP_LO : Z := 407710288.  (* 0x184D2A50 *)
Definition MAGIC_SKIP_HI : Z := 407710303.  (* 0x184D2A5F *)
Definition MAGIC_LEGACY : Z := 407642370.   (* 0x184C2102 *)
Definition LEGACY_BLOCK : Z := 8388608.     (* 8 MB *)

Record fdesc := mkDesc {
  f_indep : bool; f_bcrc : bool; f_csize : option Z; f_ccrc : bool;
  f_dictid : option Z; f_bsid : Z }.

Definition bsid_size (id : Z) : option Z :=
  if id =? 4 then Some 65536 else if id =? 5 then Some 262144
  else if id =? 6 then Some 1048576 else if id =? 7 then Some 4194304 else None.

Definition b2z (b : bool) : Z := if b then 1 else 0.
Definition flg_of (d : fdesc) : Z :=
  64 (* version 01 *) + 32 * b2z (f_indep d) + 16 * b2z (f_bcrc d)
  + 8 * b2z (match f_csize d with Some _ => true | None => false end)
  + 4 * b2z (f_ccrc d) + b2z (match f_dictid d with Some _ => true | None => false end).
Definition bd_of (d : fdesc) : Z := 16 * f_bsid d.

Definition descriptor_bytes (d : fdesc) : list byte :=
  [flg_of d; bd_of d]
  ++ (match f_csize d with Some n => le_bytes 8 n | None => [] end)
  ++ (match f_dictid d with Some n => le_bytes 4 n | None => [] end).
Definition header_checksum (desc : list byte) : Z := (xxh32 0 desc / 256) mod 256.
Definition header_bytes (d : fdesc) : list byte :=
  le_bytes 4 MAGIC ++ descriptor_bytes d ++ [header_checksum (descriptor_bytes d)].

(* Parse the frame descriptor that follows the 4 magic bytes. *)
Definition parse_desc (bs : list byte) : option (fdesc * list byte) :=
  match bs with
  | flg :: bd :: r =>
    let version := (flg / 64) mod 4 in
    let indep := (flg / 32) mod 2 in
    let bcrc := (flg / 16) mod 2 in
    let csz := (flg / 8) mod 2 in
    let ccrc := (flg / 4) mod 2 in
    let resv := (flg / 2) mod 2 in
    let did := flg mod 2 in
    let bsid := (bd / 16) mod 8 in
    if negb (version =? 1) then None
    else if negb (resv =? 0) then None
    else if negb ((bd / 128) =? 0) then None
    else if negb ((bd mod 16) =? 0) then None
    else match bsid_size bsid with
    | None => None
    | Some _ =>
      match take (if csz =? 1 then 8%nat else 0%nat) r with
      | None => None
      | Some (cs, r1) =>
        match take (if did =? 1 then 4%nat else 0%nat) r1 with
        | None => None
        | Some (di, r2) =>
          match r2 with
          | [] => None
          | hc :: r3 =>
            let desc := flg :: bd :: cs ++ di in
            if hc =? header_checksum desc then
              Some (mkDesc (indep =? 1) (bcrc =? 1)
                           (if csz =? 1 then Some (le_val cs) else None) (ccrc =? 1)
                           (if did =? 1 then Some (le_val di) else None) bsid, r3)
            else None
          end
        end
      end
    end
  | _ => None
  end.

Definition lastn (n : nat) (l : list byte) : list byte := skipn (length l - n) l.

Section Blocks.
  (* block decoder: history -> block bytes -> content.  Instantiated with
     [spec_decode] (sequence semantics) or [strict_valid] (plus end conditions). *)
  Variable bdec : list byte -> list byte -> option (list byte).
  Variable skipcrc : bool.

  (* hist : dictionary ++ content so far (for linked blocks); dict : initial dictionary *)
  Fixpoint blocks (fuel : nat) (d : fdesc) (maxb : Z) (dict : list byte) (acc : list byte)
           (bs : list byte) : option (list byte * list byte) :=
    match fuel with
    | O => None
    | S f =>
      match take 4 bs with
      | None => None
      | Some (szb, r) =>
        let w := le_val szb in
        if w =? 0 then
          (* EndMark, optional content checksum *)
          let fin (rest : list byte) :=
            match f_csize d with
            | Some n => if (n =? 0) || (n =? Z.of_nat (length acc)) then Some (acc, rest) else None
            | None => Some (acc, rest)
            end in
          if f_ccrc d then
            match take 4 r with
            | None => None
            | Some (cb, r1) =>
              if skipcrc || (le_val cb =? xxh32 0 acc) then fin r1 else None
            end
          else fin r
        else
          let raw := 2147483648 <=? w in
          let n := w mod 2147483648 in
          if maxb <? n then None else
          match take (Z.to_nat n) r with
          | None => None
          | Some (data, r1) =>
            let after (rest : list byte) :=
              let hist := if f_indep d then dict else lastn 65536 (dict ++ acc) in
              let content := if raw then Some data else bdec hist data in
              match content with
              | None => None
              | Some c => if maxb <? Z.of_nat (length c) then None
                          else blocks f d maxb dict (acc ++ c) rest
              end in
            if f_bcrc d then
              match take 4 r1 with
              | None => None
              | Some (cb, r2) => if skipcrc || (le_val cb =? xxh32 0 data) then after r2 else None
              end
            else after r1
          end
      end
    end.

  (* One LZ4 frame starting at the magic number: (content, remaining bytes). *)
  Definition frame_decode (dict bs : list byte) : option (list byte * list byte) :=
    match take 4 bs with
    | None => None
    | Some (mg, r) =>
      if le_val mg =? MAGIC then
        match parse_desc r with
        | None => None
        | Some (d, r1) =>
          match bsid_size (f_bsid d) with
          | None => None
          | Some maxb => blocks (S (length r1)) d maxb dict [] r1
          end
        end
      else None
    end.

  (* Legacy frame body (after its magic): blocks of <= 8 MB content, no end
     mark: the frame ends at end of input or where a frame magic number stands. *)
  Definition is_magic (w : Z) : bool :=
    (w =? MAGIC) || (w =? MAGIC_LEGACY) || ((MAGIC_SKIP_LO <=? w) && (w <=? MAGIC_SKIP_HI)).

  Fixpoint legacy_blocks (fuel : nat) (acc bs : list byte) : option (list byte * list byte) :=
    match fuel with
    | O => None
    | S f =>
      match bs with
      | [] => Some (acc, [])
      | _ =>
        match take 4 bs with
        | None => None
        | Some (szb, r) =>
          let w := le_val szb in
          if is_magic w then Some (acc, bs) else
          match take (Z.to_nat w) r with
          | None => None
          | Some (data, r1) =>
            match bdec [] data with
            | None => None
            | Some c => if LEGACY_BLOCK <? Z.of_nat (length c) then None
                        else legacy_blocks f (acc ++ c) r1
            end
          end
        end
      end
    end.

  (* A stream: any concatenation of LZ4 frames, legacy frames, skippable frames. *)
  Fixpoint stream_decode (fuel : nat) (dict acc bs : list byte) : option (list byte) :=
    match fuel with
    | O => None
    | S f =>
      match bs with
      | [] => Some acc
      | _ =>
        match take 4 bs with
        | None => None
        | Some (mg, r) =>
          let w := le_val mg in
          if w =? MAGIC then
            match frame_decode dict bs with
            | Some (c, rest) => stream_decode f dict (acc ++ c) rest
            | None => None
            end
          else if w =? MAGIC_LEGACY then
            match legacy_blocks (S (length r)) [] r with
            | Some (c, rest) => stream_decode f dict (acc ++ c) rest
            | None => None
            end
          else if (MAGIC_SKIP_LO <=? w) && (w <=? MAGIC_SKIP_HI) then
            match take 4 r with
            | None => None
            | Some (szb, r1) =>
              match take (Z.to_nat (le_val szb)) r1 with
              | Some (_, rest) => stream_decode f dict acc rest
              | None => None
              end
            end
          else None
        end
      end
    end.
End Blocks.
