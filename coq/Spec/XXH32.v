(* XXH32, written from the xxHash specification (not from lib/xxhash.c). *)
From Coq Require Import ZArith List Lia Bool.
Import ListNotations.
Local Open Scope Z_scope.

Definition M32 : Z := 4294967296.
Definition u32 (x : Z) : Z := x mod M32.
Definition P1 : Z := 2654435761.
Definition P2 : Z := 2246822519.
Definition P3 : Z := 3266489917.
Definition P4 : Z := 668265263.
Definition P5 : Z := 374761393.

Definition rotl32 (x r : Z) : Z :=
  u32 (Z.lor (Z.shiftl x r) (Z.shiftr (u32 x) (32 - r))).
Definition le32 (b0 b1 b2 b3 : Z) : Z := b0 + 256 * b1 + 65536 * b2 + 16777216 * b3.
Definition xround (acc inp : Z) : Z := u32 (rotl32 (u32 (acc + inp * P2)) 13 * P1).

(* 16-byte stripes *)
Fixpoint stripes (fuel : nat) (v1 v2 v3 v4 : Z) (bs : list Z) : (Z * Z * Z * Z) * list Z :=
  match fuel with
  | O => ((v1, v2, v3, v4), bs)
  | S f =>
    match bs with
    | a0::a1::a2::a3::b0::b1::b2::b3::c0::c1::c2::c3::d0::d1::d2::d3::r =>
        stripes f (xround v1 (le32 a0 a1 a2 a3)) (xround v2 (le32 b0 b1 b2 b3))
                  (xround v3 (le32 c0 c1 c2 c3)) (xround v4 (le32 d0 d1 d2 d3)) r
    | _ => ((v1, v2, v3, v4), bs)
    end
  end.

Fixpoint tail4 (fuel : nat) (h : Z) (bs : list Z) : Z * list Z :=
  match fuel with
  | O => (h, bs)
  | S f =>
    match bs with
    | a0::a1::a2::a3::r => tail4 f (u32 (rotl32 (u32 (h + le32 a0 a1 a2 a3 * P3)) 17 * P4)) r
    | _ => (h, bs)
    end
  end.

Fixpoint tail1 (h : Z) (bs : list Z) : Z :=
  match bs with
  | [] => h
  | b :: r => tail1 (u32 (rotl32 (u32 (h + b * P5)) 11 * P1)) r
  end.

Definition avalanche (h : Z) : Z :=
  let h := Z.lxor h (Z.shiftr h 15) in
  let h := u32 (h * P2) in
  let h := Z.lxor h (Z.shiftr h 13) in
  let h := u32 (h * P3) in
  Z.lxor h (Z.shiftr h 16).

Definition xxh32 (seed : Z) (bs : list Z) : Z :=
  let len := Z.of_nat (length bs) in
  let '(h, rest) :=
    if 16 <=? len then
      let '((v1, v2, v3, v4), rest) :=
        stripes (length bs) (u32 (seed + P1 + P2)) (u32 (seed + P2)) (u32 seed) (u32 (seed - P1)) bs in
      (u32 (rotl32 v1 1 + rotl32 v2 7 + rotl32 v3 12 + rotl32 v4 18), rest)
    else (u32 (seed + P5), bs) in
  let h := u32 (h + len) in
  let '(h, rest) := tail4 (length rest) h rest in
  avalanche (tail1 h rest).

(* test vectors of the specification *)
Example xxh32_empty : xxh32 0 [] = 46947589. Proof. vm_compute. reflexivity. Qed.
