(* LZ4 block format, written from doc/lz4_Block_format.md only.
   Nothing here is derived from lib/lz4.c.  Bytes are Z in [0,256). *)
From Coq Require Import ZArith List Lia Bool.
Import ListNotations.
Local Open Scope Z_scope.

Definition byte := Z.
Definition byte_ok (b : Z) : bool := (0 <=? b) && (b <? 256).
Definition bytes_ok (l : list byte) : bool := forallb byte_ok l.

(* A sequence: literals, then a match (offset, length >= 4). *)
Record seq := mkSeq { s_lits : list byte; s_off : Z; s_mlen : Z }.

(* ---- length fields ---------------------------------------------------- *)
(* "additional bytes" of a length whose 4-bit field is 15: v = total - 15.   *)
Definition ext_len (v : Z) : list byte :=
  repeat 255 (Z.to_nat (v / 255)) ++ [v mod 255].
Definition enc_nib (v : Z) : Z := if v <? 15 then v else 15.
Definition enc_ext (v : Z) : list byte := if v <? 15 then [] else ext_len (v - 15).

Fixpoint read_ext (bs : list byte) (acc : Z) : option (Z * list byte) :=
  match bs with
  | [] => None
  | b :: r => if b =? 255 then read_ext r (acc + 255) else Some (acc + b, r)
  end.
Definition read_len (nib : Z) (bs : list byte) : option (Z * list byte) :=
  if nib =? 15 then read_ext bs 15 else Some (nib, bs).

(* ---- encoder (defines the format constructively) ---------------------- *)
Definition encode_seq (s : seq) : list byte :=
  let ll := Z.of_nat (length (s_lits s)) in
  let ml := s_mlen s - 4 in
  (enc_nib ll * 16 + enc_nib ml) :: enc_ext ll ++ s_lits s
     ++ [s_off s mod 256; s_off s / 256] ++ enc_ext ml.
Definition encode_last (l : list byte) : list byte :=
  let ll := Z.of_nat (length l) in (enc_nib ll * 16) :: enc_ext ll ++ l.
Definition encode_block (ss : list seq) (last : list byte) : list byte :=
  concat (map encode_seq ss) ++ encode_last last.

(* ---- parser ----------------------------------------------------------- *)
Fixpoint take (n : nat) (bs : list byte) : option (list byte * list byte) :=
  match n with
  | O => Some ([], bs)
  | S n' => match bs with
            | [] => None
            | b :: r => match take n' r with
                        | Some (a, t) => Some (b :: a, t)
                        | None => None
                        end
            end
  end.

(* fuel: any value > length of the block is enough (each sequence eats >= 1 byte) *)
Fixpoint parse_seqs (fuel : nat) (bs : list byte) : option (list seq * list byte) :=
  match fuel with
  | O => None
  | S f =>
    match bs with
    | [] => None
    | tok :: r =>
      match read_len (tok / 16) r with
      | None => None
      | Some (ll, r1) =>
        match take (Z.to_nat ll) r1 with
        | None => None
        | Some (lits, r2) =>
          match r2 with
          | [] => Some ([], lits)             (* last sequence: literals only *)
          | [_] => None                       (* truncated offset *)
          | o1 :: o2 :: r3 =>
            match read_len (tok mod 16) r3 with
            | None => None
            | Some (ml, r4) =>
              match parse_seqs f r4 with
              | None => None
              | Some (ss, last) => Some (mkSeq lits (o1 + 256 * o2) (ml + 4) :: ss, last)
              end
            end
          end
        end
      end
    end
  end.
Definition parse_block (bs : list byte) : option (list seq * list byte) :=
  parse_seqs (S (length bs)) bs.

(* ---- sequence semantics ----------------------------------------------- *)
(* The output is kept REVERSED (most recent byte first), history included:
   "offset 1 = current position - 1 byte" is index 0 of that list. *)
Fixpoint copy_match (rout : list byte) (off : nat) (n : nat) : option (list byte) :=
  match n with
  | O => Some rout
  | S n' => match nth_error rout (off - 1) with
            | Some b => copy_match (b :: rout) off n'
            | None => None                    (* reaches before the available history *)
            end
  end.

Definition off_ok (off : Z) : bool := (1 <=? off) && (off <=? 65535).

Definition apply_seq (rout : list byte) (s : seq) : option (list byte) :=
  if off_ok (s_off s) && (4 <=? s_mlen s) then
    copy_match (rev (s_lits s) ++ rout) (Z.to_nat (s_off s)) (Z.to_nat (s_mlen s))
  else None.

Fixpoint apply_seqs (rout : list byte) (ss : list seq) : option (list byte) :=
  match ss with
  | [] => Some rout
  | s :: r => match apply_seq rout s with
              | Some rout' => apply_seqs rout' r
              | None => None
              end
  end.

(* decoded content of (ss,last) after history [hist] (hist in normal order) *)
Definition run_seqs (hist : list byte) (ss : list seq) (last : list byte) : option (list byte) :=
  match apply_seqs (rev hist) ss with
  | Some rout => Some (skipn (length hist) (rev (rev last ++ rout)))
  | None => None
  end.

Definition spec_decode (hist blk : list byte) : option (list byte) :=
  match parse_block blk with
  | Some (ss, last) => run_seqs hist ss last
  | None => None
  end.

(* ---- end-of-block conditions ------------------------------------------ *)
(* 2. last 5 bytes are literals (unless the whole content is < 5 bytes and
      there is a single sequence);
   3. the last match starts at least 12 bytes before the end of the block
      (i.e. of the decoded content): the last match length plus the last
      literals is >= 12. *)
Definition total_len (ss : list seq) (last : list byte) : Z :=
  fold_right (fun s a => Z.of_nat (length (s_lits s)) + s_mlen s + a) (Z.of_nat (length last)) ss.

Definition end_ok (ss : list seq) (last : list byte) : bool :=
  match rev ss with
  | [] => true
  | s :: _ => (5 <=? Z.of_nat (length last)) && (12 <=? s_mlen s + Z.of_nat (length last))
  end.

Definition strict_valid (hist blk : list byte) : option (list byte) :=
  match parse_block blk with
  | Some (ss, last) => if end_ok ss last then run_seqs hist ss last else None
  | None => None
  end.
