(* A third implementation of the block decoder of Spec/BlockSpec.v, over a finite map with
   O(log n) access (Model.Mem), so that multi-megabyte blocks with arbitrary offsets are judged in
   n log n time; proved equal to the specification ([spec_decode] / [strict_valid]).
   Layout: the history occupies [0, H), the decoded content grows from H. *)
From Coq Require Import ZArith List Lia Bool.
From LZ4V Require Import Spec.BlockSpec Model.Mem.
Import ListNotations.
Local Open Scope Z_scope.

Fixpoint copy_m (m : mem) (pos off : Z) (n : nat) : mem :=
  match n with O => m | S k => copy_m (set m pos (get m (pos - off))) (pos + 1) off k end.

Definition apply_seq_m (st : mem * Z) (s : seq) : option (mem * Z) :=
  let '(m, pos) := st in
  if off_ok (s_off s) && (4 <=? s_mlen s) then
    let m1 := store_list m pos (s_lits s) in
    let p1 := pos + Z.of_nat (length (s_lits s)) in
    if p1 - s_off s <? 0 then None
    else Some (copy_m m1 p1 (s_off s) (Z.to_nat (s_mlen s)), p1 + s_mlen s)
  else None.

Fixpoint apply_seqs_m (st : mem * Z) (ss : list seq) : option (mem * Z) :=
  match ss with
  | [] => Some st
  | s :: r => match apply_seq_m st s with Some st' => apply_seqs_m st' r | None => None end
  end.

Definition run_seqs_m (hist : list byte) (ss : list seq) (last : list byte) : option (list byte) :=
  let H := Z.of_nat (length hist) in
  match apply_seqs_m (store_list empty 0 hist, H) ss with
  | Some (m, pos) =>
    let m' := store_list m pos last in
    Some (load_list m' H (Z.to_nat (pos + Z.of_nat (length last) - H)))
  | None => None
  end.

Definition spec_decode_mem (hist blk : list byte) : option (list byte) :=
  match parse_block blk with Some (ss, last) => run_seqs_m hist ss last | None => None end.
Definition strict_valid_mem (hist blk : list byte) : option (list byte) :=
  match parse_block blk with
  | Some (ss, last) => if end_ok ss last then run_seqs_m hist ss last else None
  | None => None
  end.

(* ---- equivalence with the list semantics ---- *)
Lemma store_list_get_lo : forall l m a x, x < a -> get (store_list m a l) x = get m x.
Proof.
  induction l as [|b r IH]; intros m a x Hx; cbn [store_list]; [reflexivity|].
  rewrite IH by lia. apply get_set_other. lia.
Qed.

Lemma load_store_app : forall l m a k,
  a = Z.of_nat k ->
  load_list (store_list m a l) 0 (k + length l) = load_list m 0 k ++ l.
Proof.
  induction l as [|b r IH]; intros m a k Ha.
  - cbn [store_list length app]. rewrite Nat.add_0_r, app_nil_r. reflexivity.
  - cbn [store_list length].
    replace (k + S (length r))%nat with (S k + length r)%nat by lia.
    rewrite (IH (set m a b) (a + 1) (S k)) by lia.
    assert (G : forall n s, (s + Z.of_nat n <= a) -> load_list (set m a b) s n = load_list m s n).
    { induction n as [|n IHn]; intros s Hs; cbn [load_list]; [reflexivity|].
      rewrite get_set_other by lia. f_equal. apply IHn. lia. }
    assert (K : forall n s, s + Z.of_nat n = a -> load_list (set m a b) s (S n) = load_list m s n ++ [b]).
    { induction n as [|n IHn]; intros s Hs.
      - cbn [load_list app]. replace s with a by lia. rewrite get_set_same. reflexivity.
      - change (load_list (set m a b) s (S (S n))) with (get (set m a b) s :: load_list (set m a b) (s + 1) (S n)).
        rewrite get_set_other by lia. rewrite IHn by lia. reflexivity. }
    rewrite (K k 0) by lia. rewrite <- app_assoc. reflexivity.
Qed.

Lemma load_list_length m a n : length (load_list m a n) = n.
Proof. revert a; induction n as [|n IH]; intros a; cbn [load_list length]; [reflexivity | rewrite IH; reflexivity]. Qed.

Lemma load_list_nth m : forall n a j, (j < n)%nat -> nth_error (load_list m a n) j = Some (get m (a + Z.of_nat j)).
Proof.
  induction n as [|n IH]; intros a j Hj; [lia|].
  destruct j as [|j]; cbn [load_list nth_error].
  - f_equal. f_equal. lia.
  - rewrite IH by lia. f_equal. f_equal. lia.
Qed.

Lemma rev_load_nth m pos k :
  0 <= k < pos -> nth_error (rev (load_list m 0 (Z.to_nat pos))) (Z.to_nat k) = Some (get m (pos - 1 - k)).
Proof.
  intros Hk.
  assert (Hlen : length (load_list m 0 (Z.to_nat pos)) = Z.to_nat pos) by apply load_list_length.
  assert (Hlt : (Z.to_nat k < length (load_list m 0 (Z.to_nat pos)))%nat) by lia.
  rewrite (nth_error_nth' (rev (load_list m 0 (Z.to_nat pos))) 0) by (rewrite rev_length; exact Hlt).
  rewrite rev_nth by exact Hlt.
  rewrite <- (nth_error_nth' (load_list m 0 (Z.to_nat pos)) 0) by lia.
  rewrite load_list_nth by lia. f_equal. f_equal. lia.
Qed.

Lemma load_snoc m pos : 0 <= pos ->
  load_list (set m pos (get m pos)) 0 (Z.to_nat (pos + 1)) = load_list m 0 (Z.to_nat pos) ++ [get m pos].
Proof.
  intros Hp. replace (Z.to_nat (pos + 1)) with (Z.to_nat pos + length [get m pos])%nat by (cbn [length]; lia).
  rewrite <- (load_store_app [get m pos] m pos (Z.to_nat pos)) by lia. reflexivity.
Qed.

Lemma copy_m_spec : forall n m pos off,
  1 <= off -> 0 <= pos - off ->
  copy_match (rev (load_list m 0 (Z.to_nat pos))) (Z.to_nat off) n
  = Some (rev (load_list (copy_m m pos off n) 0 (Z.to_nat (pos + Z.of_nat n)))).
Proof.
  induction n as [|n IH]; intros m pos off Hoff Hlo.
  - cbn [copy_match copy_m]. f_equal. f_equal. f_equal. lia.
  - cbn [copy_match copy_m].
    replace (Z.to_nat off - 1)%nat with (Z.to_nat (off - 1)) by lia.
    rewrite rev_load_nth by lia.
    replace (pos - 1 - (off - 1)) with (pos - off) by lia.
    set (b := get m (pos - off)).
    assert (Hs : b :: rev (load_list m 0 (Z.to_nat pos))
                 = rev (load_list (set m pos b) 0 (Z.to_nat (pos + 1)))).
    { replace (Z.to_nat (pos + 1)) with (Z.to_nat pos + length [b])%nat by (cbn [length]; lia).
      assert (E : load_list (set m pos b) 0 (Z.to_nat pos + length [b]) = load_list m 0 (Z.to_nat pos) ++ [b]).
      { rewrite <- (load_store_app [b] m pos (Z.to_nat pos)) by lia. reflexivity. }
      rewrite E, rev_app_distr. reflexivity. }
    unfold byte in *. rewrite Hs. rewrite IH by lia.
    f_equal. f_equal. f_equal. lia.
Qed.

Lemma apply_seq_m_spec m pos s :
  0 <= pos ->
  match apply_seq_m (m, pos) s with
  | Some (m', pos') => apply_seq (rev (load_list m 0 (Z.to_nat pos))) s = Some (rev (load_list m' 0 (Z.to_nat pos'))) /\ 0 <= pos'
  | None => apply_seq (rev (load_list m 0 (Z.to_nat pos))) s = None
  end.
Proof.
  intros Hp. unfold apply_seq_m, apply_seq.
  destruct (off_ok (s_off s) && (4 <=? s_mlen s)) eqn:E; [|reflexivity].
  apply andb_prop in E. destruct E as [E1 E2]. unfold off_ok in E1. apply andb_prop in E1. destruct E1 as [E1 E3].
  set (ll := Z.of_nat (length (s_lits s))).
  assert (Hl : rev (s_lits s) ++ rev (load_list m 0 (Z.to_nat pos))
               = rev (load_list (store_list m pos (s_lits s)) 0 (Z.to_nat (pos + ll)))).
  { rewrite <- rev_app_distr. f_equal.
    replace (Z.to_nat (pos + ll)) with (Z.to_nat pos + length (s_lits s))%nat by (unfold ll; lia).
    rewrite load_store_app by lia. reflexivity. }
  unfold byte in *. rewrite Hl.
  destruct (pos + ll - s_off s <? 0) eqn:E4.
  - (* not enough history *)
    destruct (Z.to_nat (s_mlen s)) as [|n] eqn:En; [lia|].
    cbn [copy_match].
    match goal with |- match ?x with _ => _ end = None => destruct x eqn:Q end; [|reflexivity].
    exfalso.
    match type of Q with nth_error ?l ?k = Some _ =>
      assert (Q' : (k < length l)%nat) by (apply nth_error_Some; intro HN; cbv [byte] in *; congruence) end.
    rewrite rev_length, load_list_length in Q'. lia.
  - split; [|lia].
    rewrite (copy_m_spec (Z.to_nat (s_mlen s)) _ (pos + ll) (s_off s)) by lia.
    f_equal. f_equal. f_equal. lia.
Qed.

Lemma apply_seqs_m_spec : forall ss m pos,
  0 <= pos ->
  match apply_seqs_m (m, pos) ss with
  | Some (m', pos') => apply_seqs (rev (load_list m 0 (Z.to_nat pos))) ss = Some (rev (load_list m' 0 (Z.to_nat pos'))) /\ 0 <= pos'
  | None => apply_seqs (rev (load_list m 0 (Z.to_nat pos))) ss = None
  end.
Proof.
  induction ss as [|s r IH]; intros m pos Hp; cbn [apply_seqs_m apply_seqs]; [split; [reflexivity | lia]|].
  pose proof (apply_seq_m_spec m pos s Hp) as H.
  destruct (apply_seq_m (m, pos) s) as [[m1 p1]|]; [|rewrite H; reflexivity].
  destruct H as [H1 H2]. rewrite H1. apply IH. exact H2.
Qed.

Theorem run_seqs_m_ok hist ss last : run_seqs_m hist ss last = run_seqs hist ss last.
Proof.
  unfold run_seqs_m, run_seqs. cbv [byte] in *.
  set (H := Z.of_nat (length hist)).
  assert (Hh : load_list (store_list empty 0 hist) 0 (Z.to_nat H) = hist).
  { replace (Z.to_nat H) with (0 + length hist)%nat by (unfold H; lia).
    rewrite load_store_app by reflexivity. reflexivity. }
  pose proof (apply_seqs_m_spec ss (store_list empty 0 hist) H ltac:(unfold H; lia)) as S.
  rewrite Hh in S.
  destruct (apply_seqs_m (store_list empty 0 hist, H) ss) as [[m pos]|]; [|rewrite S; reflexivity].
  destruct S as [S1 S2]. rewrite S1. f_equal.
  rewrite rev_app_distr, !rev_involutive.
  assert (E : load_list m 0 (Z.to_nat pos) ++ last
              = load_list (store_list m pos last) 0 (Z.to_nat pos + length last)).
  { rewrite load_store_app by lia. reflexivity. }
  rewrite E.
  (* skipn of a load_list is a load_list *)
  assert (K : forall n k mm a, skipn k (load_list mm a (k + n)) = load_list mm (a + Z.of_nat k) n).
  { intros n k. induction k as [|k IHk]; intros mm a.
    - cbn [skipn Nat.add]. f_equal. lia.
    - cbn [Nat.add load_list skipn]. rewrite IHk. f_equal. lia. }
  assert (Hge : H <= pos).
  { (* positions only grow *)
    clear -S1 S2. unfold H in *.
    assert (G : forall ss0 r0 r1, apply_seqs r0 ss0 = Some r1 -> (length r0 <= length r1)%nat).
    { induction ss0 as [|s r IHs]; intros r0 r1 A; cbn [apply_seqs] in A; [inversion A; lia|].
      destruct (apply_seq r0 s) as [r2|] eqn:B; [|discriminate].
      specialize (IHs _ _ A).
      unfold apply_seq in B. destruct (off_ok (s_off s) && (4 <=? s_mlen s)); [|discriminate].
      assert (C : forall n x y o, copy_match x o n = Some y -> (length x <= length y)%nat).
      { induction n as [|n IHn]; intros x y o Cx; cbn [copy_match] in Cx; [inversion Cx; lia|].
        destruct (nth_error x (o - 1)); [|discriminate]. specialize (IHn _ _ _ Cx). cbn [length] in IHn. lia. }
      specialize (C _ _ _ _ B). rewrite app_length in C. lia. }
    specialize (G _ _ _ S1). rewrite !rev_length, load_list_length in G. lia. }
  replace (Z.to_nat pos + length last)%nat with (length hist + Z.to_nat (pos + Z.of_nat (length last) - H))%nat by (unfold H in *; lia).
  rewrite K. f_equal; unfold H; lia.
Qed.

Theorem spec_decode_mem_ok hist blk : spec_decode_mem hist blk = spec_decode hist blk.
Proof. unfold spec_decode_mem, spec_decode. destruct (parse_block blk) as [[ss last]|]; [apply run_seqs_m_ok | reflexivity]. Qed.
Theorem strict_valid_mem_ok hist blk : strict_valid_mem hist blk = strict_valid hist blk.
Proof.
  unfold strict_valid_mem, strict_valid. destruct (parse_block blk) as [[ss last]|]; [|reflexivity].
  destruct (end_ok ss last); [apply run_seqs_m_ok | reflexivity].
Qed.
