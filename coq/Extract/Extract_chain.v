(* Extraction of the hash-chain and optimal parser models (HC levels 3-12).  Directives: ExtrOcamlBasic, ExtrOcamlZBigInt,
   ExtrOcamlNatBigInt; no Extract Constant of our own. *)
Require Extraction.
Require Import ExtrOcamlBasic ExtrOcamlZBigInt ExtrOcamlNatBigInt.
From LZ4V Require Import Gen.Consts Model.Mem Model.Fast Model.HcEmit Model.HcMid Model.HcChain Model.HcChainApi Model.HcOpt Model.HcOptApi Model.HcChainDict.
Extraction Language OCaml.
Extraction "lz4v.ml" mem_of_list get ctget cc_init cc_set_fav cc_reset_fast cc_init_internal cc_generic chain_level cl_params
  compress_HC_fastReset_chain compress_HC_chain compress_HC_destSize_chain hc_compress ss_init ss_search
  opt_compress cc_generic_all compress_HC_fastReset_all compress_HC_all compress_HC_destSize_all opt_level cl_target
  insertAndGetWiderMatch_dict searchExtDict set empty ctset.
