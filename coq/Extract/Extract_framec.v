(* Extraction of the LZ4F compressor model, the frame audit and the spec functions it is
   judged by.  Directives: ExtrOcamlBasic, ExtrOcamlZBigInt, ExtrOcamlNatBigInt only. *)
Require Extraction.
Require Import ExtrOcamlBasic ExtrOcamlZBigInt ExtrOcamlNatBigInt.
From LZ4V Require Import Spec.BlockSpec Spec.BlockFast Spec.XXH32 Spec.FrameSpec.
From LZ4V Require Import Gen.Consts Model.FrameC Model.FrameAudit.
Extraction Language OCaml.
Extraction "lz4v.ml"
  spec_decode_fast strict_valid_fast parse_block end_ok run_seqs_fast xxh32 frame_decode parse_desc header_bytes
  frame_audit cctx_zero step run compressFrame createCDict history frame_header
  getBlockSize optimalBSID.
