(* Extraction of the executable spec and models to OCaml.
   Directives used: ExtrOcamlBasic (bool, option, list, prod, unit, sumbool to
   native OCaml types), ExtrOcamlZBigInt (positive, Z, N to Zarith-backed
   Big_int_Z), ExtrOcamlNatBigInt (nat to Big_int_Z).  No Extract Constant of
   our own. *)
Require Extraction.
Require Import ExtrOcamlBasic ExtrOcamlZBigInt ExtrOcamlNatBigInt.
From LZ4V Require Import Spec.BlockSpec Spec.BlockFast Spec.BlockMem Spec.XXH32 Spec.FrameSpec.
From LZ4V Require Import Gen.Consts Model.Mem Model.Dec Model.DecApi Model.Fast Model.FastApi Model.HcEmit.
Extraction Language OCaml.
Extraction "lz4v.ml"
  spec_decode_fast strict_valid_fast spec_decode_mem strict_valid_mem spec_decode strict_valid parse_block encode_block
  xxh32 frame_decode stream_decode header_bytes parse_desc
  mem_of_list store_list load_list get dec_generic decompress_usingDict
  ctx_init compress_fast_extState compress_fast_extState_fastReset compress_destSize compress_destSize_internal compressBound encodeSequence.
