(* Extraction of the Io model (decode-side control flow of lz4io.c) to OCaml: oracle "io".
   Directives: ExtrOcamlBasic, ExtrOcamlZBigInt, ExtrOcamlNatBigInt only. *)
Require Extraction.
Require Import ExtrOcamlBasic ExtrOcamlZBigInt ExtrOcamlNatBigInt.
From LZ4V Require Import Spec.BlockSpec Spec.BlockFast Spec.XXH32 Spec.FrameSpec.
From LZ4V Require Import Gen.Consts Model.Io.
Extraction Language OCaml.
Extraction "lz4v.ml"
  spec_decode_fast spec_decode frame_decode stream_decode
  decompress_file decompress_multi compress_file no_faults
  LZ4IO_LEGACY_BOUND LEGACY_BLOCKSIZE LEGACY_MAGICNUMBER LZ4IO_MAGICNUMBER LZ4IO_SKIPPABLE0 LZ4IO_SKIPPABLEMASK IO_INBUFF_SIZE.
