(* Extraction of the concrete single-thread LZ4F decode loop (Model/IoLz4f.v over Model/FrameD.v): oracle "iolz4f".
   Directives: ExtrOcamlBasic, ExtrOcamlZBigInt, ExtrOcamlNatBigInt only. *)
Require Extraction.
Require Import ExtrOcamlBasic ExtrOcamlZBigInt ExtrOcamlNatBigInt.
From LZ4V Require Import Spec.BlockSpec Spec.BlockFast Spec.XXH32 Spec.FrameSpec.
From LZ4V Require Import Gen.Consts Model.FrameD Model.Io Model.IoLz4f.
Extraction Language OCaml.
Extraction "lz4v.ml" spec_decode_fast frame_decode lz4f_st_run lz4f_st no_faults st_init LZ4IO_MAGICNUMBER IOL_dBufferSize
  decompress dctx_init o_null.
