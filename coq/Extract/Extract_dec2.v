(* Extraction of the streaming-decoder model (oracle "dec2").
   Directives: ExtrOcamlBasic, ExtrOcamlZBigInt, ExtrOcamlNatBigInt only. *)
Require Extraction.
Require Import ExtrOcamlBasic ExtrOcamlZBigInt ExtrOcamlNatBigInt.
From LZ4V Require Import Spec.BlockSpec Spec.BlockFast.
From LZ4V Require Import Model.DecSem.
From LZ4V Require Import Gen.Consts Model.Mem Model.Dec Model.DecApi Model.DecStream Model.DecFast Model.DecInplace Model.DecRingWrap.
Extraction Language OCaml.
Extraction "lz4v.ml"
  spec_decode_fast strict_valid_fast
  mem_of_list store_list load_list get dec_generic decompress_usingDict
  setStreamDecode decompress_safe_continue
  decompress_fast_usingDict decompress_fast_continue
  specified_output
  decompress_safe_inplace
  decompress_ring_wrap.
