(* Extraction of the C13 models (write register, thread pool, pipelines) to OCaml.
   Directives: ExtrOcamlBasic, ExtrOcamlZBigInt, ExtrOcamlNatBigInt only. *)
Require Extraction.
Require Import ExtrOcamlBasic ExtrOcamlZBigInt ExtrOcamlNatBigInt.
From LZ4V Require Import Gen.Consts Gen.TPoolSites Model.WriteReg Model.TPool Model.Pipeline.
Extraction Language OCaml.
Extraction "lz4v.ml"
  WR_init arrive arrive_all slot_ranks stored_ranks wr_capacity
  pstep run init_state final sequential_output main_program live_jobs q_len queued
  TP_CL_t_depth TP_CL_w_depth TP_CF_t_depth TP_CF_w_depth TP_DL_t_depth TP_DL_w_depth TP_DF_t_depth TP_DF_w_depth
  RING_DL_in RING_DL_out RING_DF_in RING_DF_out.
