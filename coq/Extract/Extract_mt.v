(* Extraction of the C13 models (write register, thread pool, pipelines) to OCaml.
   Directives: ExtrOcamlBasic, ExtrOcamlZBigInt, ExtrOcamlNatBigInt only. *)
Require Extraction.
Require Import ExtrOcamlBasic ExtrOcamlZBigInt ExtrOcamlNatBigInt.
From LZ4V Require Import Gen.Consts Gen.TPoolSites Model.WriteReg.
Extraction Language OCaml.
Extraction "lz4v.ml"
  WR_init arrive arrive_all slot_ranks stored_ranks wr_capacity.
