(* Extraction of the LZ4MID (HC levels 1-2) models.  Directives: ExtrOcamlBasic, ExtrOcamlZBigInt,
   ExtrOcamlNatBigInt; no Extract Constant of our own. *)
Require Extraction.
Require Import ExtrOcamlBasic ExtrOcamlZBigInt ExtrOcamlNatBigInt.
From LZ4V Require Import Gen.Consts Model.Mem Model.Fast Model.HcEmit Model.HcMid Model.HcMidApi.
Extraction Language OCaml.
Extraction "lz4v.ml" mem_of_list get hc_init compress_HC_fastReset_mid compress_HC_mid compress_HC_destSize_mid mid_compress
  hc_generic_mid hc_init_internal hc_reset_fast.
