(* Extraction of the frame-decoder model (Model.FrameD) together with the frame/block
   specification it is judged against.  Directives: ExtrOcamlBasic, ExtrOcamlZBigInt,
   ExtrOcamlNatBigInt only; no Extract Constant of our own. *)
Require Extraction.
Require Import ExtrOcamlBasic ExtrOcamlZBigInt ExtrOcamlNatBigInt.
From LZ4V Require Import Spec.BlockSpec Spec.BlockFast Spec.XXH32 Spec.FrameSpec.
From LZ4V Require Import Gen.Consts Model.FrameD Model.FrameCtx Model.FrameDDict.
Extraction Language OCaml.
Extraction "lz4v.ml"
  spec_decode_fast spec_decode xxh32 frame_decode parse_desc header_bytes bsid_size
  dctx_init reset decompress decompress_usingDict getFrameInfo headerSize decodeHeader stage_num
  cctx_init cbegin cend_ok
  dd_init dd_reset dd_decompress dd_decompress_usingDict dd_getFrameInfo ops_okb.
