(* Extraction of the C04 models (sparse writer, option map, pipeline layouts) to OCaml.
   Directives: ExtrOcamlBasic, ExtrOcamlZBigInt, ExtrOcamlNatBigInt only. *)
Require Extraction.
Require Import ExtrOcamlBasic ExtrOcamlZBigInt ExtrOcamlNatBigInt.
From LZ4V Require Import Gen.Consts Model.Sparse Model.CliOpts Model.CompressPipe Proofs.CliCompInst.
Extraction Language OCaml.
Extraction "lz4v.ml" fwrite_sparse fwrite_sparse_end sparse_run run_ops fresh_file f_data f_pos
  set_block_size set_block_size_id default_io_prefs cli_init parse_args prefs_of st_layout mt_layout legacy_layout cli_bytes_raw.
