(* Extraction of the streaming model (Model/FastStream.v) and of the linear-time evaluation of the
   block specification (Spec/BlockFast.v).
   Directives: ExtrOcamlBasic, ExtrOcamlZBigInt, ExtrOcamlNatBigInt only. *)
Require Extraction.
Require Import ExtrOcamlBasic ExtrOcamlZBigInt ExtrOcamlNatBigInt.
From LZ4V Require Import Spec.BlockSpec Spec.BlockFast.
From LZ4V Require Import Gen.Consts Model.Mem Model.Fast Model.FastApi Model.FastStream Model.HcEmit Model.HcMid Model.HcMidStream Model.HcChain Model.HcChainApi Model.HcChainStream Model.HcOpt Model.HcOptApi Model.HcTabStream Model.HcOptStream.
Extraction Language OCaml.
Extraction "lz4v.ml"
  spec_decode_fast strict_valid_fast
  mem_of_list store_list load_list get empty
  s_init resetStream_fast loadDict attach_dictionary renormDictT fast_continue forceExtDict saveDict
  s_fastReset s_extState s_destSize shift_ctx view step run
  hs_init hs_resetStream hs_resetFast hs_setLevel hs_loadDict hs_attach hs_continue hs_continue_destSize hs_saveDict
  hs_fastReset hs_extState hstep k_endIdx
  cs_init cs_resetStream cs_resetFast cs_setLevel cs_loadDict cs_attach cs_continue cs_continue_destSize cs_saveDict
  cs_fastReset cs_extState cstep ctget
  ts_init ts_resetStream ts_resetFast ts_setLevel ts_setFav ts_attach ts_saveDict os_loadDict os_continue os_continue_destSize
  os_fastReset os_extState ostep.
