(* Extraction of the LZ4F size model (Model/FrameCSizes.v) to OCaml: oracle "framesz".
   Directives used: ExtrOcamlBasic, ExtrOcamlZBigInt, ExtrOcamlNatBigInt.  No Extract
   Constant of our own. *)
Require Extraction.
Require Import ExtrOcamlBasic ExtrOcamlZBigInt ExtrOcamlNatBigInt.
From LZ4V Require Import Gen.Consts Model.FrameCSizes.
Extraction Language OCaml.
Extraction "lz4v.ml"
  compressBound_internal compressBound compressFrameBound getBlockSize
  cctx0 step run compressFrame frame_prefs header_size.
