(* Extraction of the lz4file model with the specification-derived decompressor: oracle "lzfile".
   Directives used: ExtrOcamlBasic, ExtrOcamlZBigInt, ExtrOcamlNatBigInt.  No Extract
   Constant of our own. *)
Require Extraction.
Require Import ExtrOcamlBasic ExtrOcamlZBigInt ExtrOcamlNatBigInt.
From LZ4V Require Import Spec.BlockSpec Spec.BlockFast Spec.FrameSpec Gen.Consts Model.FrameCSizes Model.File Model.FileInst.
Extraction Language OCaml.
Extraction "lz4v.ml" read_session_ideal read_session_given strict_valid_fast frame_decode bufsize_of_bsid.
