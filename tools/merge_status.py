#!/usr/bin/env python3
"""merge_status.py <shard.json> ... : merge parallel revalidation shards into /verif/seeded/STATUS.json"""
import sys, os, json
root = os.path.join(os.path.dirname(os.path.dirname(os.path.abspath(__file__))), "seeded", "STATUS.json")
st = json.load(open(root)) if os.path.exists(root) else {}
for f in sys.argv[1:]:
    st.update(json.load(open(f)))
json.dump(dict(sorted(st.items())), open(root, "w"), indent=1)
print(len(st), "entries;", sum(1 for v in st.values() if any(c.get("fired") for c in v.get("checks", {}).values())), "with a firing check")
