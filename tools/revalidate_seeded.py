#!/usr/bin/env python3
"""Re-run every stored seeded breaking change against the current checks.
usage: revalidate_seeded.py [id-prefix ...]   (default: all of /verif/seeded/*)
For each seeded/<id>/: tools/try_seeded.py <dir> <checks_expected_to_fire> ; writes seeded/STATUS.json
(id -> demo verdicts, per check: fired / violation line / what) and prints one line per change."""
import sys, os, json, subprocess, glob
VROOT = os.path.dirname(os.path.dirname(os.path.abspath(__file__)))
root = os.path.join(VROOT, "seeded")
want = sys.argv[1:]
# VERIF_STATUS_OUT: write to another file (parallel shards in several worktrees; merge with tools/merge_status.py)
status_path = os.environ.get("VERIF_STATUS_OUT", os.path.join(root, "STATUS.json"))
status = json.load(open(status_path)) if os.path.exists(status_path) else {}
for d in sorted(glob.glob(root + "/*/")):
    sid = os.path.basename(d.rstrip("/"))
    if want and not any(sid == w or (w.endswith("*") and sid.startswith(w[:-1])) or (len(w) == 3 and sid.startswith(w + "_")) for w in want):
        continue
    meta = json.load(open(os.path.join(d, "meta.json")))
    checks = ",".join(meta.get("checks_expected_to_fire") or [meta["property"]])
    p = subprocess.run([sys.executable, os.path.join(VROOT, "tools", "try_seeded.py"), d, checks], stdout=subprocess.PIPE, stderr=subprocess.STDOUT)
    try:
        r = json.load(open(os.path.join(d, "result.json")))
    except Exception as e:
        status[sid] = {"error": str(e), "log": p.stdout.decode()[-500:]}
        print(sid, "ERROR"); continue
    st = {"demo_clean": r.get("demo_clean", ["?"])[0], "demo_patched": r.get("demo_patched", ["?"])[0],
          "checks": {c: {"fired": bool(v["violation"]), "line": (v["violation"] or [""])[0], "what": v["what"][:200], "wall": v["wall"]}
                     for c, v in r["checks"].items()}}
    status[sid] = st
    json.dump(status, open(status_path, "w"), indent=1)
    print(sid, st["demo_clean"], st["demo_patched"], {c: v["fired"] for c, v in st["checks"].items()}, flush=True)
