#!/usr/bin/env python3
"""Validate one seeded breaking change and run checks against it.
usage: try_seeded.py <dir with patch.diff + demo.(c|sh)> <check ids,comma> [--keep]
 1. scratch worktree of /repo HEAD; demo must PASS (exit 0) on it;
 2. patch applied; lib must compile; demo must FAIL (exit != 0);
 3. each named check runs with VERIF_REPO=<scratch>; reports whether it printed VIOLATION.
Writes <dir>/result.json."""
import sys, os, subprocess, json, shutil, tempfile, time
d = os.path.abspath(sys.argv[1]); checks = [c for c in sys.argv[2].split(",") if c and c != "-"]
VROOT = os.path.dirname(os.path.dirname(os.path.abspath(__file__)))     # the framework tree this script belongs to
wt = tempfile.mkdtemp(prefix="seedwt_", dir="/var/tmp")
os.rmdir(wt)
def sh(cmd, **kw):
    p = subprocess.run(cmd, shell=True, stdout=subprocess.PIPE, stderr=subprocess.STDOUT, **kw)
    return p.returncode, p.stdout.decode("utf-8", "replace")
res = {"dir": d, "checks": {}}
try:
    rc, out = sh("git -C /repo worktree add -q --detach %s HEAD" % wt); assert rc == 0, out
    patch = os.path.join(d, "patch.diff")
    demo = [f for f in os.listdir(d) if f.startswith("demo")][0]
    def run_demo(tag):
        if demo.endswith(".c"):
            exe = os.path.join(wt, "demo_bin")
            rc, out = sh("gcc -g -O1 -fsanitize=address -I lib %s lib/*.c -o %s -lpthread" % (os.path.join(d, demo), exe), cwd=wt, timeout=600)
            if rc != 0: return ("build-fail", out[-800:])
            rc, out = sh("ASAN_OPTIONS=detect_leaks=0 timeout 600 %s" % exe, cwd=wt)
        else:
            sh("make -j8 -C programs lz4 >/dev/null 2>&1", cwd=wt, timeout=900)
            os.makedirs(os.path.join(wt, "SEEDED"), exist_ok=True)
            shutil.copy(os.path.join(d, demo), os.path.join(wt, "SEEDED", demo))
            rc, out = sh("timeout 900 sh %s" % os.path.join(wt, "SEEDED", demo), cwd=wt)
        return (rc, out[-600:])
    res["demo_clean"] = run_demo("clean")
    rc, out = sh("git apply %s" % patch, cwd=wt); res["apply"] = (rc, out[-300:])
    res["demo_patched"] = run_demo("patched")
    sh("git clean -fdxq", cwd=wt)
    for c in checks:
        t = time.time()
        env = dict(os.environ, VERIF_REPO=wt, VERIF_NCPU=os.environ.get("VERIF_NCPU", "8"))
        p = subprocess.run("cd %s && ./check %s quick" % (VROOT, c), shell=True, stdout=subprocess.PIPE, stderr=subprocess.STDOUT, env=env, timeout=3600)
        out = p.stdout.decode("utf-8", "replace")
        vio = [l for l in out.split("\n") if l.startswith("VIOLATION")]
        what = ""
        if vio:
            try:
                rp = vio[0].split("replay=")[1].split()[0]
                what = json.load(open(rp)).get("what", "")[:300]
            except Exception as e:
                what = str(e)
        res["checks"][c] = {"rc": p.returncode, "violation": vio[:1], "what": what, "wall": round(time.time() - t, 1), "tail": out[-300:]}
finally:
    sh("git -C /repo worktree remove --force %s" % wt)
    shutil.rmtree(wt, ignore_errors=True)
json.dump(res, open(os.path.join(d, "result.json"), "w"), indent=1)
print(json.dumps({"dir": d, "demo_clean": res.get("demo_clean", ["?"])[0], "demo_patched": res.get("demo_patched", ["?"])[0],
                  "checks": {c: (v["rc"], v["violation"], v["what"][:120]) for c, v in res["checks"].items()}}))
