#!/usr/bin/env python3
"""store_seeded.py <cand dir> <id> <breaks> <needs> <fired json: {"C13": true}> [first_run json] [note]
copies a validated candidate (patch.diff, demo*, notes.md, result.json verdicts) to /verif/seeded/<id>/ with meta.json"""
import sys, os, json, shutil, subprocess
cand, sid, breaks, needs, fired = sys.argv[1:6]
first = json.loads(sys.argv[6]) if len(sys.argv) > 6 and sys.argv[6] else None
note = sys.argv[7] if len(sys.argv) > 7 else ""
fired = json.loads(fired)
dst = os.path.join("/verif/seeded", sid); os.makedirs(dst, exist_ok=True)
for f in os.listdir(cand):
    if f == "patch.diff" or f == "notes.md" or (f.startswith("demo") and os.path.isfile(os.path.join(cand, f))):
        shutil.copy(os.path.join(cand, f), dst)
r = json.load(open(os.path.join(cand, "result.json")))
head = subprocess.run("git -C /repo rev-parse --short HEAD", shell=True, stdout=subprocess.PIPE).stdout.decode().strip()
meta = {"id": sid, "property": sid.split("_")[0], "breaks": breaks, "needs_to_manifest": needs,
        "source": "fresh sub-agent given only the property text and a scratch worktree of /repo",
        "confirmed": {"patch_applies_on": head,
                      "demo_on_clean_tree": "PASS (exit 0)" if r["demo_clean"][0] == 0 else "exit %s" % r["demo_clean"][0],
                      "demo_with_patch": "FAIL (exit %s)" % r["demo_patched"][0],
                      "existing_suite_with_patch": "passes (run by the sub-agent: lib/programs build, test-lz4 test-fullbench test-frametest test-fuzzer, make check)",
                      "how": "tools/try_seeded.py <dir> <checks> (scratch worktree, demo built with ASan or run against the built lz4, checks run with VERIF_REPO=<scratch>)"},
        "checks_expected_to_fire": sorted(k for k, v in fired.items() if v),
        "checks_run": fired}
if first is not None:
    meta["first_run"] = first
if note:
    meta["note"] = note
json.dump(meta, open(os.path.join(dst, "meta.json"), "w"), indent=1)
print("stored", dst)
