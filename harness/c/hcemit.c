/* Reach the static (force-inlined) LZ4HC_encodeSequence of lib/lz4hc.c for the correspondence check. */
#include "lz4hc.c"

/* returns the function's return code; *newOp / *newIp = offsets after the call */
int v_hc_encodeSequence(const unsigned char* src, int ipOff, int anchorOff,
                        unsigned char* dst, int opOff, int matchLength, int offset,
                        int limit, int oendOff, int* newOp, int* newIp, int* newAnchor)
{
    const BYTE* ip = src + ipOff;
    const BYTE* anchor = src + anchorOff;
    BYTE* op = dst + opOff;
    int const r = LZ4HC_encodeSequence(&ip, &op, &anchor, matchLength, offset,
                                       (limitedOutput_directive)limit, dst + oendOff);
    *newOp = (int)(op - dst);
    *newIp = (int)(ip - src);
    *newAnchor = (int)(anchor - src);
    return r;
}
