/* programs/threadpool.c compiled with its pthread operations redirected to the scheduler shim
 * (equivalent to `-include sched_shim.h`; a wrapper TU because vlib.build_exe uses one flag set). */
#include "sched_shim.h"
#include "threadpool.c"
