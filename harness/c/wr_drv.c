/* C13 correspondence driver for the write register: reaches the static functions of
 * programs/lz4io.c (WR_init, LZ4IO_checkWriteOrder, ...) by including the translation unit.
 * stdin : one arrival per line  "<rank> <hex data | ->"
 * stdout: one state line per arrival, in the format printed by the extracted model (harness/ml/mt.ml, cmd "wr"):
 *         "<expectedRank> <capacity> <totalCSize> <hex of the bytes written by this call | -> <slot ranks, -1 = null, comma separated>"
 */
#include "lz4io.c"

static int hexv(int c) { return (c <= '9') ? c - '0' : (c | 32) - 'a' + 10; }

int main(void)
{
    WriteRegister wr = WR_init(1);
    FILE* const out = tmpfile();
    static char line[1 << 20];
    long written = 0;
    if (!out || !wr.buffers) { fprintf(stderr, "wr_drv: init failed\n"); return 2; }
    while (fgets(line, sizeof(line), stdin)) {
        unsigned long long rank;
        char* p = line;
        size_t n = 0;
        char* data;
        WriteJobDesc* wjd;
        rank = strtoull(p, &p, 10);
        while (*p == ' ') p++;
        data = (char*)malloc(strlen(p) / 2 + 1);   /* never NULL-sized: +1 */
        if (*p != '-') {
            while (isxdigit((unsigned char)p[0]) && isxdigit((unsigned char)p[1])) {
                data[n++] = (char)(hexv(p[0]) * 16 + hexv(p[1]));
                p += 2;
            }
        }
        wjd = (WriteJobDesc*)malloc(sizeof(*wjd));
        wjd->wr = &wr; wjd->cBuf = data; wjd->cSize = n; wjd->blockNb = rank; wjd->out = out;
        LZ4IO_checkWriteOrder(wjd);      /* frees wjd, and data once written */
        /* state */
        printf("%llu %lu %llu ", wr.expectedRank, (unsigned long)wr.capacity, wr.totalCSize);
        {   long const end = (fflush(out), ftell(out));
            long i;
            if (end == written) printf("-");
            fseek(out, written, SEEK_SET);
            for (i = written; i < end; i++) printf("%02x", (unsigned)fgetc(out) & 255);
            fseek(out, 0, SEEK_END);
            written = end;
        }
        printf(" ");
        {   size_t s;
            for (s = 0; s < wr.capacity; s++)
                printf("%s%lld", s ? "," : "", wr.buffers[s].buf ? (long long)wr.buffers[s].rank : -1LL);
        }
        printf("\n");
    }
    /* leftovers are owned by the register */
    {   size_t s; for (s = 0; s < wr.capacity; s++) free(wr.buffers[s].buf); }
    WR_destroy(&wr);
    fclose(out);
    return 0;
}
