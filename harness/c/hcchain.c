/* Correspondence check of the hash-chain parser model (Model.HcChain / Model.HcChainApi):
   read access to the fields of LZ4_streamHC_t the model keeps, and direct calls of the static
   (force-inlined) LZ4HC_InsertAndGetWiderMatch / LZ4HC_Insert of lib/lz4hc.c. */
#include "lz4hc.c"
#include <string.h>

/* copies hashTable (LZ4HC_HASHTABLESIZE U32) and chainTable (LZ4HC_MAXD U16) */
void v_hcc_tables(const LZ4_streamHC_t* s, unsigned* hash, unsigned short* chain)
{
    memcpy(hash, s->internal_donotuse.hashTable, sizeof(s->internal_donotuse.hashTable));
    memcpy(chain, s->internal_donotuse.chainTable, sizeof(s->internal_donotuse.chainTable));
}
int v_hcc_hash_size(void) { return LZ4HC_HASHTABLESIZE; }
int v_hcc_chain_size(void) { return LZ4HC_MAXD; }
/* dictLimit + (end - prefixStart) */
unsigned long long v_hcc_end_index(const LZ4_streamHC_t* s)
{
    return (unsigned long long)s->internal_donotuse.dictLimit
         + (unsigned long long)(s->internal_donotuse.end - s->internal_donotuse.prefixStart);
}
unsigned v_hcc_next_to_update(const LZ4_streamHC_t* s) { return s->internal_donotuse.nextToUpdate; }
int v_hcc_dirty(const LZ4_streamHC_t* s) { return s->internal_donotuse.dirty; }
int v_hcc_fav(const LZ4_streamHC_t* s) { return s->internal_donotuse.favorDecSpeed; }
/* pretend that `idx` bytes of history were already indexed (a long-lived context): only the index
   arithmetic changes; used to reach the > 1 GB re-initialisation of LZ4HC_init_internal */
void v_hcc_set_end_index(LZ4_streamHC_t* s, unsigned idx)
{
    s->internal_donotuse.dictLimit = idx;
    s->internal_donotuse.end = s->internal_donotuse.prefixStart;
}

/* ---- a search session on a context with an external dictionary segment and a prefix ----
   v_hcc_search_init: fresh state, `dict` indexed as a first block, then `prefix` becomes the current prefix
   (LZ4HC_init_internal, LZ4HC_setExternalDict); dictSize may be 0 (no external segment). */
void v_hcc_search_init(LZ4_streamHC_t* s, const unsigned char* dict, int dictSize, const unsigned char* prefix, int level)
{
    LZ4HC_CCtx_internal* const ctx = &s->internal_donotuse;
    LZ4_initStreamHC(s, sizeof(*s));
    LZ4_setCompressionLevel(s, level);
    LZ4HC_init_internal(ctx, dict);
    ctx->end = dict + dictSize;
    LZ4HC_setExternalDict(ctx, prefix);
}
/* one LZ4HC_InsertAndGetWiderMatch call at prefix + ipOff; res = {off, len, back} */
void v_hcc_search(LZ4_streamHC_t* s, const unsigned char* prefix, int ipOff, int lowOff, int highOff, int longest,
                  int nbAttempts, int patternAnalysis, int chainSwap, int favorDecSpeed, int* res)
{
    LZ4HC_match_t const m = LZ4HC_InsertAndGetWiderMatch(&s->internal_donotuse, prefix + ipOff, prefix + lowOff, prefix + highOff,
                                longest, nbAttempts, patternAnalysis, chainSwap, noDictCtx,
                                favorDecSpeed ? favorDecompressionSpeed : favorCompressionRatio);
    res[0] = m.off; res[1] = m.len; res[2] = m.back;
}
unsigned v_hcc_dict_limit(const LZ4_streamHC_t* s) { return s->internal_donotuse.dictLimit; }
unsigned v_hcc_low_limit(const LZ4_streamHC_t* s) { return s->internal_donotuse.lowLimit; }

/* ---- dictCtx search: `dict` prepared by LZ4_loadDictHC at dictLevel and attached to a fresh working stream anchored at
   `prefix` (LZ4HC_init_internal), then LZ4HC_InsertAndGetWiderMatch with dict == usingDictCtxHc ---- */
void v_hcc_dict_init(LZ4_streamHC_t* work, LZ4_streamHC_t* dict, const char* dictbuf, int dictSize, int dictLevel,
                     const unsigned char* prefix, int level)
{
    LZ4_initStreamHC(dict, sizeof(*dict));
    LZ4_setCompressionLevel(dict, dictLevel);
    LZ4_loadDictHC(dict, dictbuf, dictSize);
    LZ4_initStreamHC(work, sizeof(*work));
    LZ4_setCompressionLevel(work, level);
    LZ4HC_init_internal(&work->internal_donotuse, prefix);
    LZ4_attach_HC_dictionary(work, dict);
}
void v_hcc_search_dict(LZ4_streamHC_t* s, const unsigned char* prefix, int ipOff, int lowOff, int highOff, int longest,
                  int nbAttempts, int patternAnalysis, int chainSwap, int favorDecSpeed, int* res)
{
    LZ4HC_match_t const m = LZ4HC_InsertAndGetWiderMatch(&s->internal_donotuse, prefix + ipOff, prefix + lowOff, prefix + highOff,
                                longest, nbAttempts, patternAnalysis, chainSwap, usingDictCtxHc,
                                favorDecSpeed ? favorDecompressionSpeed : favorCompressionRatio);
    res[0] = m.off; res[1] = m.len; res[2] = m.back;
}
