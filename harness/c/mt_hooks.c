/* C13 event hooks: programs/lz4io.c compiled unchanged, with TPool_create / TPool_submitJob / fread / fwrite
 * routed through observers that (a) log the job-level event trace compared with the model
 * (sub/start/end of each job with kind, index and buffer slots; write of rank r),
 * (b) check buffer ownership directly on the real execution: a ring buffer handed to a job that has not
 * finished must not be refilled / reused (VIOL ... => exit code 95).
 * The observers add no synchronisation of their own in coop mode (one thread runs at a time). */
#include <stdio.h>
#include <stdlib.h>
#include <string.h>
#define SCHED_SHIM_IMPL   /* this TU uses the real pthread mutex for its own tables */
#include "sched_shim.h"
#include "threadpool.h"

static TPool* hook_pool_create(int nbThreads, int queueSize);
static void hook_submit(TPool* ctx, void (*fn)(void*), void* arg);
static size_t hook_fread(void* p, size_t s, size_t n, FILE* f);
static size_t hook_fwrite(const void* p, size_t s, size_t n, FILE* f);

#define TPool_create(n, q)      hook_pool_create(n, q)
#define TPool_submitJob(c, f, a) hook_submit(c, f, a)
#define fread  hook_fread
#define fwrite hook_fwrite
#include "lz4io.c"
#undef TPool_create
#undef TPool_submitJob
#undef fread
#undef fwrite

/* ---- tables (coop mode: single runner; free mode: guarded by a lock) */
static pthread_mutex_t h_lock = PTHREAD_MUTEX_INITIALIZER;
#define HLOCK()   (void)(pthread_mutex_lock)(&h_lock)
#define HUNLOCK() (void)(pthread_mutex_unlock)(&h_lock)

#define MAXPOOLS 64
static TPool* h_pools[MAXPOOLS];
static int h_npools = 0;

static TPool* hook_pool_create(int nbThreads, int queueSize)
{
    TPool* const p = TPool_create(nbThreads, queueSize);
    HLOCK();
    if (h_npools < MAXPOOLS) h_pools[h_npools++] = p;
    shim_event("pool %d workers=%d depth=%d", h_npools - 1, nbThreads, queueSize);
    HUNLOCK();
    return p;
}

static char pool_name(TPool* p)
{
    int i;
    for (i = h_npools - 1; i >= 0; i--) if (h_pools[i] == p) return (i & 1) ? 'w' : 't';   /* tPool is created first, then wPool */
    return '?';
}

/* buffer slots: name pointers by order of first appearance, per class */
#define MAXSLOTS 64
static const void* h_in[MAXSLOTS];  static int h_nin = 0;
static const void* h_out[MAXSLOTS]; static int h_nout = 0;
static int slot_of(const void** tab, int* n, const void* p)
{
    int i;
    for (i = 0; i < *n; i++) if (tab[i] == p) return i;
    if (*n < MAXSLOTS) { tab[*n] = p; return (*n)++; }
    return -1;
}

/* live jobs (submitted, body not yet returned) that own a ring buffer */
typedef struct { int live; char kind; long idx; const void* in; const void* out; } LiveJob;
#define MAXLIVE 256
static LiveJob h_live[MAXLIVE];

/* compressed blocks waiting to be written: cBuf -> rank */
typedef struct { const void* buf; unsigned long long rank; } PendingW;
#define MAXPW 4096
static PendingW h_pw[MAXPW];

static long h_count[128];   /* per job kind: number submitted so far (index of the next one) */

typedef struct { void (*fn)(void*); void* arg; char desc[64]; int live; } Wrap;

static void tramp(void* p)
{
    Wrap* const w = (Wrap*)p;
    if (w->live >= 0 && h_live[w->live].kind == 'D') {
        /* the decoder is about to fill its output buffer: no unfinished write job may still hold it */
        int i;
        HLOCK();
        for (i = 0; i < MAXLIVE; i++)
            if (h_live[i].live && h_live[i].kind == 'X' && h_live[i].out == h_live[w->live].out)
                shim_violation("job %s starts decoding into an output buffer still owned by write job X%ld", w->desc, h_live[i].idx);
        HUNLOCK();
    }
    shim_event("start %s", w->desc);
    w->fn(w->arg);
    shim_event("end %s", w->desc);
    if (w->live >= 0) { HLOCK(); h_live[w->live].live = 0; HUNLOCK(); }
    free(w);
}

static int add_live(char kind, long idx, const void* in, const void* out)
{
    int i;
    for (i = 0; i < MAXLIVE; i++) if (!h_live[i].live) {
        h_live[i].live = 1; h_live[i].kind = kind; h_live[i].idx = idx; h_live[i].in = in; h_live[i].out = out;
        return i;
    }
    return -1;
}

static void hook_submit(TPool* ctx, void (*fn)(void*), void* arg)
{
    Wrap* const w = (Wrap*)malloc(sizeof(*w));
    int i;
    if (!w) exit(99);
    w->fn = fn; w->arg = arg; w->live = -1;
    HLOCK();
    if (fn == LZ4IO_readAndProcess) {
        snprintf(w->desc, sizeof(w->desc), "R%llu", ((ReadTracker*)arg)->blockNb);
    } else if (fn == LZ4IO_compressChunk || fn == LZ4IO_compressAndFreeChunk) {
        snprintf(w->desc, sizeof(w->desc), "C%llu", ((CompressJobDesc*)arg)->blockNb);
    } else if (fn == LZ4IO_checkWriteOrder) {
        WriteJobDesc* const j = (WriteJobDesc*)arg;
        snprintf(w->desc, sizeof(w->desc), "W%llu", j->blockNb);
        for (i = 0; i < MAXPW; i++) if (h_pw[i].buf == NULL) { h_pw[i].buf = j->cBuf; h_pw[i].rank = j->blockNb; break; }
#if LZ4IO_MULTITHREAD
    } else if (fn == LZ4IO_decompressBlockLegacy) {
        LegacyBlockInput* const j = (LegacyBlockInput*)arg;
        long const k = h_count['D']++;
        int const si = slot_of(h_in, &h_nin, j->inBuffer), so = slot_of(h_out, &h_nout, j->outBuffer);
        snprintf(w->desc, sizeof(w->desc), "D%ld:%d:%d", k, si, so);
        w->live = add_live('D', k, j->inBuffer, j->outBuffer);
    } else if (fn == LZ4IO_writeDecodedChunk) {
        ChunkToWrite* const j = (ChunkToWrite*)arg;
        long const k = h_count['X']++;
        snprintf(w->desc, sizeof(w->desc), "X%ld:%d", k, slot_of(h_out, &h_nout, j->buffer));
        w->live = add_live('X', k, NULL, j->buffer);
    } else if (fn == LZ4IO_decompressLZ4FChunk) {
        LZ4FChunk* const j = (LZ4FChunk*)arg;
        long const k = h_count['F']++;
        snprintf(w->desc, sizeof(w->desc), "F%ld:%d", k, slot_of(h_in, &h_nin, j->inBuffer));
        w->live = add_live('F', k, j->inBuffer, NULL);
    } else if (fn == LZ4IO_writeDecodedLZ4FChunk) {
        LZ4FChunkToWrite* const j = (LZ4FChunkToWrite*)arg;
        long const k = h_count['Y']++;
        for (i = 0; i < MAXLIVE; i++)
            if (h_live[i].live && h_live[i].kind == 'Y' && h_live[i].out == j->bufOut.ptr)
                shim_violation("output buffer of write job Y%ld is still owned by unfinished write job Y%ld", k, h_live[i].idx);
        snprintf(w->desc, sizeof(w->desc), "Y%ld:%d", k, slot_of(h_out, &h_nout, j->bufOut.ptr));
        w->live = add_live('Y', k, NULL, j->bufOut.ptr);
#endif
    } else {
        snprintf(w->desc, sizeof(w->desc), "?");
    }
    HUNLOCK();
    shim_event("sub %c %s", pool_name(ctx), w->desc);
    TPool_submitJob(ctx, tramp, w);
}

static size_t hook_fread(void* p, size_t s, size_t n, FILE* f)
{
    int i;
    HLOCK();
    for (i = 0; i < MAXLIVE; i++)
        if (h_live[i].live && h_live[i].in == p)
            shim_violation("input buffer refilled while job %c%ld that reads it has not finished", h_live[i].kind, h_live[i].idx);
    HUNLOCK();
    return fread(p, s, n, f);
}

static size_t hook_fwrite(const void* p, size_t s, size_t n, FILE* f)
{
    int i;
    HLOCK();
    for (i = 0; i < MAXPW; i++) if (h_pw[i].buf == p && p != NULL) {
        shim_event("wr %llu", h_pw[i].rank);
        h_pw[i].buf = NULL;
        break;
    }
    HUNLOCK();
    return fwrite(p, s, n, f);
}
