/* Driver around the static functions of programs/lz4io.c (C04 correspondence).
 * lz4io.c is #included unchanged; fwrite/fseek issued by it are routed through logging
 * wrappers that perform the real operation and append one record to a trace file:
 *   'S' u64 offset            fseek(file, offset, SEEK_CUR)
 *   'W' u64 nbytes  bytes     fwrite
 *   'R' u64 value             value returned by LZ4IO_fwriteSparse
 * Commands:
 *   cli_drv sparse <outfile> <script> <trace> <sparseFileSupport> <use_stdout 0|1>
 *        script records: u32 len, u8 has_override, u32 storedSkips_override, len bytes
 *                        len == 0xFFFFFFFF : LZ4IO_fwriteSparseEnd, storedSkips = 0 (end of one frame)
 *        LZ4IO_fwriteSparseEnd is always called at the end of the script.
 *   cli_drv setbs <n>...      LZ4IO_setBlockSize on default preferences: "n ret blockSize blockSizeId"
 *   cli_drv setbsid <id>...   LZ4IO_setBlockSizeID: "id ret blockSize blockSizeId"
 */
#include <stdio.h>
#include <stdlib.h>
#include <string.h>
#include <sys/types.h>

static FILE* g_trace = NULL;
static FILE* g_target = NULL;

static void put64(unsigned long long v) { fwrite(&v, 8, 1, g_trace); }

static size_t verif_fwrite(const void* p, size_t sz, size_t n, FILE* f)
{
    if (g_trace && f == g_target) {
        fputc('W', g_trace); put64((unsigned long long)(sz * n));
        fwrite(p, 1, sz * n, g_trace);
    }
    return fwrite(p, sz, n, f);
}
static int verif_fseek(FILE* f, long long off, int whence)
{
    if (g_trace && f == g_target) {
        if (whence != SEEK_CUR) { fputc('?', g_trace); }
        fputc('S', g_trace); put64((unsigned long long)off);
    }
    return fseeko(f, (off_t)off, whence);
}

#define fwrite verif_fwrite
#define fseek  verif_fseek
#define fseeko verif_fseek
#include "lz4io.c"
#undef fwrite
#undef fseek
#undef fseeko

static unsigned rd32(FILE* f, int* ok)
{
    unsigned char b[4];
    if (fread(b, 1, 4, f) != 4) { *ok = 0; return 0; }
    return (unsigned)b[0] | ((unsigned)b[1] << 8) | ((unsigned)b[2] << 16) | ((unsigned)b[3] << 24);
}

static int cmd_sparse(int argc, char** argv)
{
    FILE* out; FILE* script; unsigned storedSkips = 0; int support; int use_stdout;
    if (argc < 7) return 2;
    support = atoi(argv[5]);
    use_stdout = atoi(argv[6]);
    if (use_stdout) { out = freopen(argv[2], "wb", stdout); } else { out = fopen(argv[2], "wb"); }
    script = fopen(argv[3], "rb");
    g_trace = fopen(argv[4], "wb");
    if (!out || !script || !g_trace) return 3;
    g_target = out;
    for (;;) {
        int ok = 1;
        unsigned const len = rd32(script, &ok);
        int has; unsigned ov;
        if (!ok) break;
        if (len == 0xFFFFFFFFu) {
            LZ4IO_fwriteSparseEnd(out, storedSkips);
            storedSkips = 0;
            continue;
        }
        has = fgetc(script);
        ov = rd32(script, &ok);
        if (!ok) return 4;
        if (has) storedSkips = ov;
        {   char* const buf = (char*)malloc(len ? len : 1);   /* malloc'ed, exact size, as in lz4io.c */
            if (!buf) return 5;
            if (len && fread(buf, 1, len, script) != len) return 6;
            storedSkips = LZ4IO_fwriteSparse(out, buf, len, support, storedSkips);
            fputc('R', g_trace); put64(storedSkips);
            free(buf);
        }
    }
    LZ4IO_fwriteSparseEnd(out, storedSkips);
    if (fclose(out)) return 7;
    fclose(g_trace);
    fclose(script);
    return 0;
}

int main(int argc, char** argv)
{
    int i;
    if (argc < 2) return 2;
    if (!strcmp(argv[1], "sparse")) return cmd_sparse(argc, argv);
    if (!strcmp(argv[1], "setbs")) {
        for (i = 2; i < argc; i++) {
            LZ4IO_prefs_t* const p = LZ4IO_defaultPreferences();
            size_t const n = (size_t)strtoull(argv[i], NULL, 10);
            size_t const r = LZ4IO_setBlockSize(p, n);
            printf("%llu %llu %llu %d\n", (unsigned long long)n, (unsigned long long)r, (unsigned long long)p->blockSize, p->blockSizeId);
            LZ4IO_freePreferences(p);
        }
        return 0;
    }
    if (!strcmp(argv[1], "setbsid")) {
        for (i = 2; i < argc; i++) {
            LZ4IO_prefs_t* const p = LZ4IO_defaultPreferences();
            unsigned const id = (unsigned)strtoul(argv[i], NULL, 10);
            size_t const r = LZ4IO_setBlockSizeID(p, id);
            printf("%u %llu %llu %d\n", id, (unsigned long long)r, (unsigned long long)p->blockSize, p->blockSizeId);
            LZ4IO_freePreferences(p);
        }
        return 0;
    }
    return 2;
}
