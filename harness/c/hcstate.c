/* Read-only access to the fields of LZ4_streamHC_t the LZ4MID models keep (correspondence check). */
#define LZ4_HC_STATIC_LINKING_ONLY
#include "lz4hc.h"
#include <string.h>

/* copies the two LZ4MID hash tables (the halves of hashTable[]) into out[2 * n]; returns n */
int v_hc_mid_tables(const LZ4_streamHC_t* s, unsigned* out)
{
    int const n = LZ4HC_HASHTABLESIZE / 2;
    memcpy(out, s->internal_donotuse.hashTable, sizeof(unsigned) * (size_t)LZ4HC_HASHTABLESIZE);
    return n;
}
/* dictLimit + (end - prefixStart) */
unsigned long long v_hc_end_index(const LZ4_streamHC_t* s)
{
    return (unsigned long long)s->internal_donotuse.dictLimit
         + (unsigned long long)(s->internal_donotuse.end - s->internal_donotuse.prefixStart);
}
int v_hc_dirty(const LZ4_streamHC_t* s) { return s->internal_donotuse.dirty; }
int v_hc_has_dictctx(const LZ4_streamHC_t* s) { return s->internal_donotuse.dictCtx != 0; }
