/* Scheduler shim (C13): force-included in front of programs/threadpool.c (see threadpool_shim.c),
 * it redirects the pthread operations of the thread pool to sched_shim.c.  No source change in /repo.
 *
 * SCHED_MODE=coop (default): real threads, but exactly one runs at a time; a thread keeps running until it
 *   releases a mutex, blocks in cond_wait / join, or ends ("step").  After each step the next thread is taken
 *   from SCHED_FILE (replay: lines "tid wake") or from a seeded PRNG (SCHED_SEED, SCHED_WEIGHTS, SCHED_STICKY,
 *   SCHED_WAKE); a cond_signal with several waiters wakes the one named by the schedule.  Every decision is
 *   logged (SCHED_PICKS), as are the events reported through shim_event (SCHED_TRACE).  No runnable thread
 *   = deadlock: message + exit code 97.  A replayed pick that is not enabled: exit code 96.
 * SCHED_MODE=free: the real pthread operations, with seeded sched_yield/usleep perturbation at the same points.
 * SCHED_MODE=off: plain pass-through. */
#ifndef SCHED_SHIM_H
#define SCHED_SHIM_H
#include <pthread.h>

int shim_mutex_init(pthread_mutex_t* m, const pthread_mutexattr_t* a);
int shim_mutex_destroy(pthread_mutex_t* m);
int shim_mutex_lock(pthread_mutex_t* m);
int shim_mutex_unlock(pthread_mutex_t* m);
int shim_cond_init(pthread_cond_t* c, const pthread_condattr_t* a);
int shim_cond_destroy(pthread_cond_t* c);
int shim_cond_wait(pthread_cond_t* c, pthread_mutex_t* m);
int shim_cond_signal(pthread_cond_t* c);
int shim_cond_broadcast(pthread_cond_t* c);
int shim_create(pthread_t* t, const pthread_attr_t* a, void* (*fn)(void*), void* arg);
int shim_join(pthread_t t, void** ret);

/* for the hooks (mt_hooks.c) */
int  shim_self(void);                 /* 0 = main, then creation order */
void shim_event(const char* fmt, ...);/* appended to SCHED_TRACE as "<step> <tid> <text>" */
void shim_violation(const char* fmt, ...); /* same, prefixed VIOL, and remembered: exit code 95 at exit */

#ifndef SCHED_SHIM_IMPL
#define pthread_mutex_init    shim_mutex_init
#define pthread_mutex_destroy shim_mutex_destroy
#define pthread_mutex_lock    shim_mutex_lock
#define pthread_mutex_unlock  shim_mutex_unlock
#define pthread_cond_init     shim_cond_init
#define pthread_cond_destroy  shim_cond_destroy
#define pthread_cond_wait     shim_cond_wait
#define pthread_cond_signal   shim_cond_signal
#define pthread_cond_broadcast shim_cond_broadcast
#define pthread_create        shim_create
#define pthread_join          shim_join
#endif
#endif
