/* io_shim.c - LD_PRELOAD fault injector / tracer for the stdio calls of the lz4 CLI.
 *
 *   IOSHIM_LOG=<path>     append one line per intercepted call:
 *                           <seq> <kind> <fid> <req> <ret> <pos> [<path> <mode>]
 *                         fid: 0 stdin, 1 stdout, 2 stderr, >=3 in fopen order; pos = bytes
 *                         transferred on that stream before the call (fseek SEEK_CUR adds its offset).
 *   IOSHIM_FAULT=<kind>:<k>   the k-th (1-based) call of <kind> fails; kinds
 *        fopen    k-th fopen returns NULL (EACCES)            fclose_w  k-th fclose of a write stream: closes, returns EOF (ENOSPC)
 *        fread    k-th fread returns 0, error flag set (EIO)  fclose_r  same for a read stream (EIO)
 *        freadshort  k-th fread delivers half, error flag set fflush    k-th fflush(non-NULL) returns EOF (ENOSPC)
 *        fwrite   k-th fwrite writes nothing, returns 0       fseek     k-th fseek/fseeko returns -1 (ESPIPE)
 *        fwriteshort k-th fwrite writes half                  remove    k-th remove returns -1 (EPERM), nothing removed
 *        rpos     (position based) any read stream delivers at most <k> bytes in total, then EIO (sticky)
 *        wpos     (position based) any write stream except stderr accepts at most <k> bytes in total, then ENOSPC (sticky)
 *   Calls on stderr are passed through and never counted.  fflush(NULL) is passed through (logged as fflushall).
 */
#define _GNU_SOURCE
#include <stdio.h>
#include <stdlib.h>
#include <string.h>
#include <errno.h>
#include <dlfcn.h>
#include <unistd.h>
#include <fcntl.h>
#include <pthread.h>
#include <sys/types.h>

#define MAXF 64
static FILE* g_files[MAXF];
static int   g_isw[MAXF];
static long long g_pos[MAXF];
static int g_nfiles = 3;
static pthread_mutex_t g_mu = PTHREAD_MUTEX_INITIALIZER;
static int g_logfd = -2;
static long g_seq = 0;
static char g_fkind[32];
static long long g_fk = -1;
static int g_init = 0;
static long g_count[16];
enum { K_FOPEN, K_FREAD, K_FWRITE, K_FCLOSE_W, K_FCLOSE_R, K_FFLUSH, K_FSEEK, K_REMOVE };

static size_t (*real_fread)(void*, size_t, size_t, FILE*);
static size_t (*real_fwrite)(const void*, size_t, size_t, FILE*);
static FILE* (*real_fopen)(const char*, const char*);
static FILE* (*real_fopen64)(const char*, const char*);
static int (*real_fclose)(FILE*);
static int (*real_fflush)(FILE*);
static int (*real_fseeko)(FILE*, off_t, int);
static int (*real_fseek)(FILE*, long, int);
static int (*real_remove)(const char*);

static void init(void)
{
    if (g_init) return;
    g_init = 1;
    real_fread = dlsym(RTLD_NEXT, "fread");
    real_fwrite = dlsym(RTLD_NEXT, "fwrite");
    real_fopen = dlsym(RTLD_NEXT, "fopen");
    real_fopen64 = dlsym(RTLD_NEXT, "fopen64");
    real_fclose = dlsym(RTLD_NEXT, "fclose");
    real_fflush = dlsym(RTLD_NEXT, "fflush");
    real_fseeko = dlsym(RTLD_NEXT, "fseeko");
    real_fseek = dlsym(RTLD_NEXT, "fseek");
    real_remove = dlsym(RTLD_NEXT, "remove");
    g_files[0] = stdin; g_files[1] = stdout; g_files[2] = stderr;
    g_isw[0] = 0; g_isw[1] = 1; g_isw[2] = 1;
    {   const char* l = getenv("IOSHIM_LOG");
        g_logfd = l ? open(l, O_WRONLY | O_CREAT | O_APPEND, 0644) : -1;
    }
    {   const char* f = getenv("IOSHIM_FAULT");
        if (f) {
            const char* c = strchr(f, ':');
            if (c && (size_t)(c - f) < sizeof(g_fkind)) {
                memcpy(g_fkind, f, (size_t)(c - f));
                g_fkind[c - f] = 0;
                g_fk = atoll(c + 1);
            }
        }
    }
}

static int fid_of(FILE* f)
{
    int i;
    for (i = 0; i < g_nfiles; i++) if (g_files[i] == f) return i;
    if (g_nfiles < MAXF) { g_files[g_nfiles] = f; g_isw[g_nfiles] = 0; g_pos[g_nfiles] = 0; return g_nfiles++; }
    return MAXF - 1;
}

static void logline(const char* kind, int fid, long long req, long long ret, long long pos, const char* a, const char* b)
{
    char buf[600];
    int n;
    if (g_logfd < 0) return;
    n = snprintf(buf, sizeof(buf), "%ld %s %d %lld %lld %lld %s %s\n", ++g_seq, kind, fid, req, ret, pos, a ? a : "-", b ? b : "-");
    if (n > 0) { ssize_t w = write(g_logfd, buf, (size_t)n); (void)w; }
}

/* is this the faulty call ?  (call with g_mu held) */
static int hit(const char* kind, int k)
{
    long const c = ++g_count[k];
    return (g_fk >= 0) && (c == g_fk) && !strcmp(g_fkind, kind);
}
static void set_err(FILE* f) { ((struct _IO_FILE*)f)->_flags |= 0x20; /* _IO_ERR_SEEN */ }

size_t fread(void* p, size_t sz, size_t n, FILE* f)
{
    size_t r; int fid; long long pos; int h, hs;
    init();
    pthread_mutex_lock(&g_mu);
    fid = fid_of(f); pos = g_pos[fid];
    h = hit("fread", K_FREAD);
    hs = (g_fk >= 0) && (g_count[K_FREAD] == g_fk) && !strcmp(g_fkind, "freadshort");
    pthread_mutex_unlock(&g_mu);
    if (h) { set_err(f); errno = EIO; r = 0; }
    else if (!strcmp(g_fkind, "rpos") && g_fk >= 0) {
        long long const room = g_fk - pos;
        size_t const want = sz * n;
        if (room <= 0) { set_err(f); errno = EIO; r = 0; }
        else if ((long long)want > room) {
            size_t const got = real_fread(p, 1, (size_t)room, f);
            if (got == (size_t)room) { set_err(f); errno = EIO; }
            r = sz ? got / sz : 0;
        } else r = real_fread(p, sz, n, f);
    }
    else {
        r = real_fread(p, sz, n, f);
        if (hs) { r = r / 2; set_err(f); errno = EIO; }
    }
    pthread_mutex_lock(&g_mu);
    g_pos[fid] += (long long)(r * sz);
    logline("fread", fid, (long long)(sz * n), (long long)(r * sz), pos, NULL, NULL);
    pthread_mutex_unlock(&g_mu);
    return r;
}

size_t fwrite(const void* p, size_t sz, size_t n, FILE* f)
{
    size_t r; int fid; long long pos; int h = 0, hs = 0;
    init();
    if (f == stderr) return real_fwrite(p, sz, n, f);
    pthread_mutex_lock(&g_mu);
    fid = fid_of(f); pos = g_pos[fid];
    h = hit("fwrite", K_FWRITE);
    hs = (g_fk >= 0) && (g_count[K_FWRITE] == g_fk) && !strcmp(g_fkind, "fwriteshort");
    pthread_mutex_unlock(&g_mu);
    if (h) { set_err(f); errno = ENOSPC; r = 0; }
    else if (hs) { r = real_fwrite(p, 1, (sz * n) / 2, f); r = sz ? r / sz : 0; if (sz * n) { set_err(f); errno = ENOSPC; } else r = n; }
    else if (!strcmp(g_fkind, "wpos") && g_fk >= 0) {
        long long const room = g_fk - pos;
        size_t const want = sz * n;
        if ((long long)want > room) {
            size_t const got = room > 0 ? real_fwrite(p, 1, (size_t)room, f) : 0;
            set_err(f); errno = ENOSPC;
            r = sz ? got / sz : 0;
        } else r = real_fwrite(p, sz, n, f);
    }
    else r = real_fwrite(p, sz, n, f);
    pthread_mutex_lock(&g_mu);
    g_pos[fid] += (long long)(r * sz);
    logline("fwrite", fid, (long long)(sz * n), (long long)(r * sz), pos, NULL, NULL);
    pthread_mutex_unlock(&g_mu);
    return r;
}

static FILE* open_common(const char* path, const char* mode, int is64)
{
    FILE* f; int h; int fid = -1;
    init();
    pthread_mutex_lock(&g_mu);
    h = hit("fopen", K_FOPEN);
    pthread_mutex_unlock(&g_mu);
    if (h) { errno = EACCES; f = NULL; }
    else f = (is64 && real_fopen64) ? real_fopen64(path, mode) : real_fopen(path, mode);
    pthread_mutex_lock(&g_mu);
    if (f) {
        int i;
        for (i = 3; i < g_nfiles; i++) if (g_files[i] == f) g_files[i] = NULL;   /* recycled FILE* */
        if (g_nfiles < MAXF) { fid = g_nfiles++; g_files[fid] = f; g_isw[fid] = (mode[0] != 'r'); g_pos[fid] = 0; }
    }
    logline("fopen", fid, 0, f ? 0 : -1, 0, path, mode);
    pthread_mutex_unlock(&g_mu);
    return f;
}
FILE* fopen(const char* path, const char* mode) { return open_common(path, mode, 0); }
FILE* fopen64(const char* path, const char* mode) { return open_common(path, mode, 1); }

int fclose(FILE* f)
{
    int r; int fid; int h; int w;
    init();
    pthread_mutex_lock(&g_mu);
    fid = fid_of(f); w = g_isw[fid];
    h = w ? hit("fclose_w", K_FCLOSE_W) : hit("fclose_r", K_FCLOSE_R);
    pthread_mutex_unlock(&g_mu);
    r = real_fclose(f);
    if (h) { r = EOF; errno = w ? ENOSPC : EIO; }
    pthread_mutex_lock(&g_mu);
    logline(w ? "fclose_w" : "fclose_r", fid, 0, r, g_pos[fid], NULL, NULL);
    if (fid >= 3) g_files[fid] = NULL;
    pthread_mutex_unlock(&g_mu);
    return r;
}

int fflush(FILE* f)
{
    int r; int fid; int h;
    init();
    if (f == NULL) { pthread_mutex_lock(&g_mu); logline("fflushall", -1, 0, 0, 0, NULL, NULL); pthread_mutex_unlock(&g_mu); return real_fflush(f); }
    if (f == stderr) return real_fflush(f);
    pthread_mutex_lock(&g_mu);
    fid = fid_of(f);
    h = hit("fflush", K_FFLUSH);
    pthread_mutex_unlock(&g_mu);
    r = real_fflush(f);
    if (h) { r = EOF; errno = ENOSPC; }
    pthread_mutex_lock(&g_mu);
    logline("fflush", fid, 0, r, g_pos[fid], NULL, NULL);
    pthread_mutex_unlock(&g_mu);
    return r;
}

static int seek_common(FILE* f, long long off, int whence, int which)
{
    int r; int fid; int h;
    init();
    pthread_mutex_lock(&g_mu);
    fid = fid_of(f);
    h = hit("fseek", K_FSEEK);
    pthread_mutex_unlock(&g_mu);
    if (h) { errno = ESPIPE; r = -1; }
    else r = which ? real_fseeko(f, (off_t)off, whence) : real_fseek(f, (long)off, whence);
    pthread_mutex_lock(&g_mu);
    logline("fseek", fid, off, r, g_pos[fid], NULL, NULL);
    if (r == 0 && whence == SEEK_CUR) g_pos[fid] += off;
    pthread_mutex_unlock(&g_mu);
    return r;
}
int fseeko(FILE* f, off_t off, int whence) { return seek_common(f, (long long)off, whence, 1); }
int fseeko64(FILE* f, off64_t off, int whence) { return seek_common(f, (long long)off, whence, 1); }
int fseek(FILE* f, long off, int whence) { return seek_common(f, (long long)off, whence, 0); }

int remove(const char* path)
{
    int r; int h;
    init();
    pthread_mutex_lock(&g_mu);
    h = hit("remove", K_REMOVE);
    pthread_mutex_unlock(&g_mu);
    if (h) { errno = EPERM; r = -1; }
    else r = real_remove(path);
    pthread_mutex_lock(&g_mu);
    logline("remove", -1, 0, r, 0, path, NULL);
    pthread_mutex_unlock(&g_mu);
    return r;
}
