/* C19: read-only access to the private bookkeeping fields of LZ4F_cctx_s / LZ4F_dctx_s
   (lz4frame.c:265-283, 1263-1284).  The library TU is included unchanged. */
#include "lz4frame.c"

int verif_cctx_alloc(const LZ4F_cctx* c) { return (int)c->lz4CtxAlloc; }
int verif_cctx_type(const LZ4F_cctx* c) { return (int)c->lz4CtxType; }
int verif_cctx_stage(const LZ4F_cctx* c) { return (int)c->cStage; }
int verif_dctx_stage(const LZ4F_dctx* d) { return (int)d->dStage; }
unsigned long long verif_dctx_remaining(const LZ4F_dctx* d) { return (unsigned long long)d->frameRemainingSize; }
int verif_dctx_skip(const LZ4F_dctx* d) { return d->skipChecksum; }
unsigned long long verif_dctx_tmpInSize(const LZ4F_dctx* d) { return (unsigned long long)d->tmpInSize; }
unsigned long long verif_dctx_tmpInTarget(const LZ4F_dctx* d) { return (unsigned long long)d->tmpInTarget; }
unsigned long long verif_dctx_maxBlockSize(const LZ4F_dctx* d) { return (unsigned long long)d->maxBlockSize; }
unsigned long long verif_dctx_maxBufferSize(const LZ4F_dctx* d) { return (unsigned long long)d->maxBufferSize; }

/* C08: a decompression context whose internal allocations (tmpIn, tmpOutBuffer) are made with plain
   malloc (so ASan watches them) and whose requested sizes are recorded, to be compared with the
   capacities the model - and theorem C08_staging_in_bounds - assume. */
static size_t verif_alloc_log[64];
static int verif_alloc_n = 0;
static void* verif_malloc(void* opaque, size_t s) { (void)opaque; if (verif_alloc_n < 64) verif_alloc_log[verif_alloc_n++] = s; return malloc(s); }
static void* verif_calloc(void* opaque, size_t s) { (void)opaque; return calloc(1, s); }
static void verif_free(void* opaque, void* p) { (void)opaque; free(p); }
LZ4F_dctx* verif_create_dctx(void)
{
    LZ4F_CustomMem cmem;
    cmem.customAlloc = verif_malloc; cmem.customCalloc = verif_calloc; cmem.customFree = verif_free; cmem.opaqueState = NULL;
    return LZ4F_createDecompressionContext_advanced(cmem, LZ4F_VERSION);
}
int verif_alloc_count(void) { return verif_alloc_n; }
unsigned long long verif_alloc_get(int i) { return (i >= 0 && i < verif_alloc_n) ? (unsigned long long)verif_alloc_log[i] : 0; }
void verif_alloc_reset(void) { verif_alloc_n = 0; }

/* C08 (Model.FrameDDict): the dictionary / tmpOut bookkeeping, read after every LZ4F_decompress call.
   dict is classified: 0 = NULL, 1 = inside tmpOutBuffer [tmpOutBuffer, tmpOutBuffer+maxBufferSize] (value = offset),
   2 = elsewhere, i.e. caller memory (value = the address). */
int verif_dctx_dict_class(const LZ4F_dctx* d)
{
    if (d->dict == NULL) return 0;
    if (d->tmpOutBuffer != NULL && d->dict >= d->tmpOutBuffer && d->dict <= d->tmpOutBuffer + d->maxBufferSize) return 1;
    return 2;
}
unsigned long long verif_dctx_dict_value(const LZ4F_dctx* d)
{
    int const c = verif_dctx_dict_class(d);
    if (c == 0) return 0;
    if (c == 1) return (unsigned long long)(d->dict - d->tmpOutBuffer);
    return (unsigned long long)(size_t)d->dict;
}
unsigned long long verif_dctx_dictSize(const LZ4F_dctx* d) { return (unsigned long long)d->dictSize; }
/* tmpOut - tmpOutBuffer; tmpOut == NULL (never initialised) counts as offset 0 */
long long verif_dctx_tmpOut_off(const LZ4F_dctx* d) { return d->tmpOut == NULL ? 0 : (long long)(d->tmpOut - d->tmpOutBuffer); }
unsigned long long verif_dctx_tmpOutSize(const LZ4F_dctx* d) { return (unsigned long long)d->tmpOutSize; }
unsigned long long verif_dctx_tmpOutStart(const LZ4F_dctx* d) { return (unsigned long long)d->tmpOutStart; }
/* address of tmpOutBuffer (to read back what the dictionary bytes really are: C08_dict_is_history_refuted replay) */
unsigned long long verif_dctx_tmpOutBuffer(const LZ4F_dctx* d) { return (unsigned long long)(size_t)d->tmpOutBuffer; }
