/* C19: read-only access to the private bookkeeping fields of LZ4F_cctx_s / LZ4F_dctx_s
   (lz4frame.c:265-283, 1263-1284).  The library TU is included unchanged. */
#include "lz4frame.c"

int verif_cctx_alloc(const LZ4F_cctx* c) { return (int)c->lz4CtxAlloc; }
int verif_cctx_type(const LZ4F_cctx* c) { return (int)c->lz4CtxType; }
int verif_cctx_stage(const LZ4F_cctx* c) { return (int)c->cStage; }
int verif_dctx_stage(const LZ4F_dctx* d) { return (int)d->dStage; }
unsigned long long verif_dctx_remaining(const LZ4F_dctx* d) { return (unsigned long long)d->frameRemainingSize; }
int verif_dctx_skip(const LZ4F_dctx* d) { return d->skipChecksum; }
unsigned long long verif_dctx_tmpInSize(const LZ4F_dctx* d) { return (unsigned long long)d->tmpInSize; }
unsigned long long verif_dctx_tmpInTarget(const LZ4F_dctx* d) { return (unsigned long long)d->tmpInTarget; }
unsigned long long verif_dctx_maxBlockSize(const LZ4F_dctx* d) { return (unsigned long long)d->maxBlockSize; }
unsigned long long verif_dctx_maxBufferSize(const LZ4F_dctx* d) { return (unsigned long long)d->maxBufferSize; }
