/* C10 harness: reach the static pieces of lz4frame.c (the TU is included, not copied). */
#include "lz4frame.c"

size_t c10_compressBound_internal(size_t srcSize, const LZ4F_preferences_t* prefsPtr, size_t alreadyBuffered)
{
    return LZ4F_compressBound_internal(srcSize, prefsPtr, alreadyBuffered);
}

int c10_optimalBSID(int requested, size_t srcSize)
{
    return (int)LZ4F_optimalBSID((LZ4F_blockSizeID_t)requested, srcSize);
}

/* state of a compression context that the size model mirrors */
void c10_cctx_state(const LZ4F_cctx* c, unsigned long long* out)
{
    out[0] = c->cStage;
    out[1] = c->maxBlockSize;
    out[2] = c->tmpInSize;
    out[3] = c->totalInSize;
    out[4] = (unsigned long long)c->blockCompressMode;
    out[5] = (unsigned long long)c->prefs.frameInfo.blockSizeID;
    out[6] = (unsigned long long)c->prefs.autoFlush;
    out[7] = (unsigned long long)c->maxBufferSize;
}

unsigned c10_version(void) { return LZ4F_VERSION; }
