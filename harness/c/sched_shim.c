/* Cooperative, schedule-driven implementation of the pthread subset used by programs/threadpool.c. */
#define SCHED_SHIM_IMPL
#include "sched_shim.h"
#include <semaphore.h>
#include <stdio.h>
#include <stdlib.h>
#include <string.h>
#include <stdarg.h>
#include <stdint.h>
#include <unistd.h>
#include <sched.h>

#define MAXT 512
enum { M_COOP, M_FREE, M_OFF };
enum { T_UNUSED = 0, T_RUNNABLE, T_WAITCOND, T_WAITJOIN, T_DONE };

typedef struct {
    int st;
    pthread_t real;
    sem_t sem;
    void* (*fn)(void*);
    void* arg;
    void* ret;
    const void* waitobj;      /* condition variable waited for */
    unsigned long waitseq;    /* order of arrival in the wait */
    int join_target;
} sthread;

static sthread T[MAXT];
static int nT = 0;
static __thread int self_id = 0;
static int g_mode = -1;
static int g_violations = 0;
static FILE* g_trace = NULL;
static FILE* g_picks = NULL;
static FILE* g_sched = NULL;      /* replay */
static unsigned long long g_rng = 88172645463325252ULL;
static int g_weights[MAXT];
static int g_sticky = 0;          /* percent */
static int g_wakepol = 0;         /* 0 random, 1 first, 2 last, 3 prefer main, 4 avoid main */
static unsigned long g_step = 0;
static int g_cur_wake = -1;       /* wake choice used in the current step */
static int g_replay_wake = -1;    /* wake choice prescribed for the current step */
static unsigned long g_waitseq = 0;
static unsigned long g_maxsteps = 0;
static pthread_mutex_t g_freelock = PTHREAD_MUTEX_INITIALIZER;   /* free mode: log + ids */
static __thread unsigned long long t_rng = 0;
static int g_perturb = 30;        /* free mode: percent of points perturbed */

static unsigned long long rnd(unsigned long long* s)
{
    unsigned long long x = *s;
    x ^= x << 13; x ^= x >> 7; x ^= x << 17;
    *s = x;
    return x;
}

static void at_exit_check(void)
{
    if (g_trace) fflush(g_trace);
    if (g_picks) fflush(g_picks);
    if (g_violations) _exit(95);
}

static void init(void)
{
    const char* e;
    int i;
    if (g_mode >= 0) return;
    e = getenv("SCHED_MODE");
    g_mode = (!e || !strcmp(e, "coop")) ? M_COOP : !strcmp(e, "free") ? M_FREE : M_OFF;
    for (i = 0; i < MAXT; i++) g_weights[i] = 100;
    if ((e = getenv("SCHED_SEED")) != NULL) g_rng ^= strtoull(e, NULL, 10) * 0x9E3779B97F4A7C15ULL;
    if (!g_rng) g_rng = 1;
    for (i = 0; i < 8; i++) rnd(&g_rng);
    if ((e = getenv("SCHED_TRACE")) != NULL) g_trace = fopen(e, "w");
    if ((e = getenv("SCHED_PICKS")) != NULL) g_picks = fopen(e, "w");
    if ((e = getenv("SCHED_FILE")) != NULL) {
        g_sched = fopen(e, "r");
        if (!g_sched) { fprintf(stderr, "sched_shim: cannot open SCHED_FILE %s\n", e); _exit(94); }
        {   int t = -1, w = -1;     /* step 0 is the main thread up to its first mutex release */
            if (fscanf(g_sched, "%d %d", &t, &w) != 2 || t != 0) { fprintf(stderr, "sched_shim: schedule must start with the main thread\n"); _exit(96); }
            g_replay_wake = w;
        }
    }
    if ((e = getenv("SCHED_STICKY")) != NULL) g_sticky = atoi(e);
    if ((e = getenv("SCHED_PERTURB")) != NULL) g_perturb = atoi(e);
    if ((e = getenv("SCHED_MAXSTEPS")) != NULL) g_maxsteps = strtoul(e, NULL, 10);
    if ((e = getenv("SCHED_WAKE")) != NULL)
        g_wakepol = !strcmp(e, "first") ? 1 : !strcmp(e, "last") ? 2 : !strcmp(e, "main") ? 3 : !strcmp(e, "notmain") ? 4 : 0;
    if ((e = getenv("SCHED_WEIGHTS")) != NULL) {       /* "tid:weight,tid:weight" ; tid -1 = default */
        const char* p = e;
        while (*p) {
            char* q;
            long const t = strtol(p, &q, 10);
            long w = 100;
            if (*q == ':') w = strtol(q + 1, &q, 10);
            if (t < 0) { for (i = 0; i < MAXT; i++) g_weights[i] = (int)w; }
            else if (t < MAXT) g_weights[t] = (int)w;
            p = (*q == ',') ? q + 1 : q;
            if (q == p && *p && *p != ',') break;
        }
    }
    T[0].st = T_RUNNABLE;
    sem_init(&T[0].sem, 0, 0);
    nT = 1;
    atexit(at_exit_check);
}

int shim_self(void) { return self_id; }

static void vlog(const char* prefix, const char* fmt, va_list ap)
{
    if (!g_trace) return;
    if (g_mode != M_COOP) pthread_mutex_lock(&g_freelock);
    fprintf(g_trace, "%lu %d %s", g_step, self_id, prefix);
    vfprintf(g_trace, fmt, ap);
    fputc('\n', g_trace);
    fflush(g_trace);
    if (g_mode != M_COOP) pthread_mutex_unlock(&g_freelock);
}

void shim_event(const char* fmt, ...)
{
    va_list ap;
    init();
    va_start(ap, fmt); vlog("", fmt, ap); va_end(ap);
}

void shim_violation(const char* fmt, ...)
{
    va_list ap;
    init();
    g_violations++;
    va_start(ap, fmt); vlog("VIOL ", fmt, ap); va_end(ap);
    va_start(ap, fmt); fprintf(stderr, "sched_shim: VIOLATION: "); vfprintf(stderr, fmt, ap); fputc('\n', stderr); va_end(ap);
}

static void die_deadlock(void)
{
    int i;
    fprintf(stderr, "sched_shim: DEADLOCK at step %lu: no runnable thread;", g_step);
    for (i = 0; i < nT; i++)
        fprintf(stderr, " t%d=%s", i, T[i].st == T_WAITCOND ? "cond" : T[i].st == T_WAITJOIN ? "join" : T[i].st == T_DONE ? "done" : "?");
    fputc('\n', stderr);
    if (g_trace) { fprintf(g_trace, "%lu %d DEADLOCK\n", g_step, self_id); fflush(g_trace); }
    if (g_picks) fflush(g_picks);
    _exit(97);
}

static void die_mismatch(const char* what, int t)
{
    fprintf(stderr, "sched_shim: SCHED-MISMATCH at step %lu: %s (%d)\n", g_step, what, t);
    if (g_trace) { fprintf(g_trace, "%lu %d MISMATCH %s %d\n", g_step, self_id, what, t); fflush(g_trace); }
    if (g_picks) fflush(g_picks);
    _exit(96);
}

/* end of the current step: log its pick, choose the next thread, hand over */
static void reschedule(int self_continues_possible)
{
    int next = -1;
    int i;
    (void)self_continues_possible;
    if (g_picks) fprintf(g_picks, "%d %d\n", self_id, g_cur_wake);
    g_step++;
    g_cur_wake = -1;
    g_replay_wake = -1;
    if (g_maxsteps && g_step > g_maxsteps) {
        fprintf(stderr, "sched_shim: step limit %lu exceeded\n", g_maxsteps);
        _exit(93);
    }
    {   int any = 0;
        for (i = 0; i < nT; i++) if (T[i].st == T_RUNNABLE) any = 1;
        if (!any) die_deadlock();
    }
    if (g_sched) {
        int t = -1, w = -1;
        if (fscanf(g_sched, "%d %d", &t, &w) != 2) {
            /* schedule exhausted: continue with the lowest runnable thread, flagged in the trace */
            if (g_trace) fprintf(g_trace, "%lu %d SCHEDULE-EXHAUSTED\n", g_step, self_id);
            fclose(g_sched); g_sched = NULL;
        } else {
            if (t < 0 || t >= nT || T[t].st != T_RUNNABLE) die_mismatch("scheduled thread is not runnable", t);
            next = t;
            g_replay_wake = w;
        }
    }
    if (next < 0) {
        long total = 0;
        if (g_sticky > 0 && T[self_id].st == T_RUNNABLE && (int)(rnd(&g_rng) % 100) < g_sticky) next = self_id;
        if (next < 0) {
            for (i = 0; i < nT; i++) if (T[i].st == T_RUNNABLE) total += (g_weights[i] > 0 ? g_weights[i] : 0);
            if (total <= 0) {           /* only zero-weight threads can run: take the first of them */
                for (i = 0; i < nT && next < 0; i++) if (T[i].st == T_RUNNABLE) next = i;
            } else {
                long r = (long)(rnd(&g_rng) % (unsigned long long)total);
                for (i = 0; i < nT; i++) if (T[i].st == T_RUNNABLE && g_weights[i] > 0) {
                    if (r < g_weights[i]) { next = i; break; }
                    r -= g_weights[i];
                }
            }
        }
    }
    if (next == self_id) return;
    {   int const me = self_id;
        int const done = (T[me].st == T_DONE);
        sem_post(&T[next].sem);
        if (!done) sem_wait(&T[me].sem);
    }
}

static void perturb(void)
{
    if (!t_rng) {
        pthread_mutex_lock(&g_freelock);
        t_rng = rnd(&g_rng) | 1;
        pthread_mutex_unlock(&g_freelock);
    }
    if ((int)(rnd(&t_rng) % 100) < g_perturb) {
        unsigned const k = (unsigned)(rnd(&t_rng) % 8);
        if (k < 4) sched_yield();
        else usleep((useconds_t)(rnd(&t_rng) % (k == 7 ? 3000 : 200)));
    }
}

/* ------------------------------------------------------------------ mutex */
int shim_mutex_init(pthread_mutex_t* m, const pthread_mutexattr_t* a) { init(); return pthread_mutex_init(m, a); }
int shim_mutex_destroy(pthread_mutex_t* m) { return pthread_mutex_destroy(m); }

int shim_mutex_lock(pthread_mutex_t* m)
{
    init();
    if (g_mode == M_OFF) return pthread_mutex_lock(m);
    if (g_mode == M_FREE) { perturb(); return pthread_mutex_lock(m); }
    /* coop: nobody yields while holding a mutex, so it is free */
    if (pthread_mutex_trylock(m) != 0) { fprintf(stderr, "sched_shim: mutex held at a step boundary\n"); _exit(94); }
    return 0;
}

int shim_mutex_unlock(pthread_mutex_t* m)
{
    int r;
    if (g_mode == M_OFF) return pthread_mutex_unlock(m);
    r = pthread_mutex_unlock(m);
    if (g_mode == M_FREE) { perturb(); return r; }
    reschedule(1);
    return r;
}

/* ------------------------------------------------------------------ condition variables */
int shim_cond_init(pthread_cond_t* c, const pthread_condattr_t* a) { init(); return pthread_cond_init(c, a); }
int shim_cond_destroy(pthread_cond_t* c) { return pthread_cond_destroy(c); }

int shim_cond_wait(pthread_cond_t* c, pthread_mutex_t* m)
{
    if (g_mode == M_OFF) return pthread_cond_wait(c, m);
    if (g_mode == M_FREE) { int const r = pthread_cond_wait(c, m); perturb(); return r; }
    pthread_mutex_unlock(m);
    T[self_id].st = T_WAITCOND;
    T[self_id].waitobj = c;
    T[self_id].waitseq = ++g_waitseq;
    reschedule(0);
    /* woken and scheduled */
    if (pthread_mutex_trylock(m) != 0) { fprintf(stderr, "sched_shim: mutex held when a waiter resumes\n"); _exit(94); }
    return 0;
}

int shim_cond_signal(pthread_cond_t* c)
{
    int w[MAXT];
    int n = 0, i, j, pick = -1;
    init();
    if (g_mode == M_OFF) return pthread_cond_signal(c);
    if (g_mode == M_FREE) { perturb(); return pthread_cond_signal(c); }
    for (i = 0; i < nT; i++) if (T[i].st == T_WAITCOND && T[i].waitobj == c) w[n++] = i;
    if (n == 0) return 0;
    /* order of arrival */
    for (i = 1; i < n; i++) for (j = i; j > 0 && T[w[j-1]].waitseq > T[w[j]].waitseq; j--) { int const x = w[j]; w[j] = w[j-1]; w[j-1] = x; }
    if (g_cur_wake >= 0) { fprintf(stderr, "sched_shim: two effective signals in one step\n"); _exit(94); }
    if (g_sched || g_replay_wake >= 0) {
        for (i = 0; i < n; i++) if (w[i] == g_replay_wake) pick = w[i];
        if (pick < 0) die_mismatch("scheduled wake-up target is not waiting on the signalled condition", g_replay_wake);
    } else {
        switch (g_wakepol) {
        case 1: pick = w[0]; break;
        case 2: pick = w[n-1]; break;
        case 3: pick = w[rnd(&g_rng) % (unsigned)n]; for (i = 0; i < n; i++) if (w[i] == 0) pick = 0; break;
        case 4: { int k = 0; int v[MAXT]; for (i = 0; i < n; i++) if (w[i] != 0) v[k++] = w[i];
                  pick = k ? v[rnd(&g_rng) % (unsigned)k] : w[0]; break; }
        default: pick = w[rnd(&g_rng) % (unsigned)n];
        }
    }
    T[pick].st = T_RUNNABLE;
    T[pick].waitobj = NULL;
    g_cur_wake = pick;
    return 0;
}

int shim_cond_broadcast(pthread_cond_t* c)
{
    int i;
    init();
    if (g_mode == M_OFF) return pthread_cond_broadcast(c);
    if (g_mode == M_FREE) { perturb(); return pthread_cond_broadcast(c); }
    for (i = 0; i < nT; i++) if (T[i].st == T_WAITCOND && T[i].waitobj == c) { T[i].st = T_RUNNABLE; T[i].waitobj = NULL; }
    return 0;
}

/* ------------------------------------------------------------------ threads */
static void* trampoline(void* p)
{
    sthread* const t = (sthread*)p;
    int i;
    self_id = (int)(t - T);
    if (g_mode == M_COOP) sem_wait(&t->sem);
    t->ret = t->fn(t->arg);
    if (g_mode != M_COOP) return t->ret;
    /* end of thread = end of step */
    t->st = T_DONE;
    for (i = 0; i < nT; i++) if (T[i].st == T_WAITJOIN && T[i].join_target == self_id) T[i].st = T_RUNNABLE;
    reschedule(0);
    return t->ret;
}

int shim_create(pthread_t* th, const pthread_attr_t* a, void* (*fn)(void*), void* arg)
{
    int id, r;
    init();
    if (g_mode == M_OFF) return pthread_create(th, a, fn, arg);
    if (g_mode == M_FREE) pthread_mutex_lock(&g_freelock);
    if (nT >= MAXT) { fprintf(stderr, "sched_shim: too many threads\n"); _exit(94); }
    id = nT++;
    T[id].fn = fn; T[id].arg = arg; T[id].st = T_RUNNABLE; T[id].join_target = -1;
    sem_init(&T[id].sem, 0, 0);
    if (g_mode == M_FREE) pthread_mutex_unlock(&g_freelock);
    r = pthread_create(&T[id].real, a, trampoline, &T[id]);
    *th = (pthread_t)(uintptr_t)id;
    return r;
}

int shim_join(pthread_t th, void** ret)
{
    int const id = (int)(uintptr_t)th;
    if (g_mode == M_OFF) return pthread_join(th, ret);
    if (g_mode == M_COOP && T[id].st != T_DONE) {
        T[self_id].st = T_WAITJOIN;
        T[self_id].join_target = id;
        reschedule(0);
    }
    pthread_join(T[id].real, NULL);
    if (ret) *ret = T[id].ret;
    return 0;
}
