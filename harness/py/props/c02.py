"""C02 - safe block decoding never leaves the caller's buffers.
Theorem side: Properties_C02.v (ok flag of the decoder model is always true).
Tie: model image == real image (incl. wild-copy slack) for both LZ4_FAST_DEC_LOOP builds.
Direct oracle on the real code: ASan exact buffers, return-value range."""
import random, hashlib, itertools
import declib, gens
from capi import Lib
from vlib import Oracle, build_lib, hx, md5

THEOREMS = None
ORACLES = ["block", "dec2"]
CORRESPONDENCE = ["DecStream.decompress_safe_continue model == LZ4_setStreamDecode / LZ4_decompress_safe_continue sessions in every documented geometry (return value, destination image, the four LZ4_streamDecode_t fields after every call)",
                  "dec_generic model == LZ4_decompress_safe* (return value and whole destination image), fast loop on",
                  "dec_generic model == LZ4_decompress_safe* (return value and whole destination image), fast loop off"]
RULE = ("blocks generated from sequences by an independent encoder (valid), mutations of them, random bytes, "
        "small-alphabet enumeration; x API {safe, partial, usingDict prefix/external, partial_usingDict} x capacity "
        "{0, small, |D|-1, |D|, |D|+1, |D|+13, |D|+64, large} x dictionary size {0,1,7,8,100,65535,65536,70000} x both fast-loop builds. "
        "non-trivial = at least one match copied by the real decoder or an error branch other than the first check; "
        "distinct = distinct (block, api, cap, target, dict) tuples")
TRUSTED = ["hand-written model Model/Dec.v of LZ4_decompress_generic, tied by the image comparison only"]
ASSUMPTIONS = ["buffers do not wrap the address space (pointer-overflow guards never fire)",
               "fixed-size LZ4_memcpy is load-then-store"]

def build(tier):
    return {"libs": {"fast1": build_lib("dec_fast1", flags=["-DLZ4_FAST_DEC_LOOP=1"]),
                     "fast0": build_lib("dec_fast0", flags=["-DLZ4_FAST_DEC_LOOP=0"])}}

def gen_cases(tier, seed):
    rng = random.Random(seed)
    n = {"quick": 120, "search": 400, "thorough": 1500}[tier]
    cases = []
    for i in range(n):
        cases.append({"bseed": rng.randrange(1 << 48), "kind": rng.choice(["valid", "valid", "mutated", "mutated", "random", "validbig", "streamdec"]),
                      "count": 24})
    import declib2
    for i in range({"quick": 12, "search": 24, "thorough": 96}[tier]):
        cases.append({"bseed": rng.randrange(1 << 48), "kind": "sdmodel", "geom": declib2.GEOMS2[i % len(declib2.GEOMS2)], "edge": i % 6 == 5, "count": 1})
    if tier == "thorough":
        cases.append({"kind": "exhaustive", "maxlen": 5, "count": 0, "bseed": 0})
    return cases

DICT_SIZES = [0, 0, 1, 7, 8, 100, 4000, 65534, 65535, 65536, 70000]
ALPHA = [0x00, 0x01, 0x0F, 0x10, 0xF0, 0xFF]

def worker_init(ctx):
    return {"libs": {k: declib.Dec(Lib(v)) for k, v in ctx["libs"].items()}, "oracle": Oracle(), "hist_cache": {}, "ctx": ctx, "c05st": None}

def one(st, blk, content_len, rng, res, extra_ok=True):
    """run one block through a random API/cap/dict choice on both builds + model"""
    orc = st["oracle"]
    api = rng.choice(["safe", "safe", "partial", "dict_p", "dict_x", "pdict_p", "pdict_x"])
    D = content_len
    cap = rng.choice([0, 1, 7, max(0, D - 1), D, D, D + 1, D + 13, D + 64, D + 1000, rng.randrange(0, D + 70)])
    target = rng.choice([0, 1, max(0, D - 1), D, D + 1, rng.randrange(0, D + 3)])
    ds = 0
    hist = b""
    if api not in ("safe", "partial"):
        hist = st.get("cur_hist", b"")
    srcsize = len(blk)
    extra = b""
    if rng.random() < 0.1 and srcsize > 0:
        srcsize = rng.randrange(0, len(blk) + 1)          # declared size smaller than the buffer
    salt = rng.randrange(256)
    key = hashlib.sha1(b"%s|%s|%d|%d|%d|%d" % (blk, api.encode(), cap, target, len(hist), srcsize)).hexdigest()
    for bname, dec in st["libs"].items():
        r, img, perr = dec.run(api, blk[:srcsize] if False else blk, srcsize, cap, target, prefix=hist, dict_=hist, salt=salt)
        res["evals"] += 1
        part = api in ("partial", "pdict_p", "pdict_x")
        lim = min(target, cap) if part else cap
        if perr:
            res["fails"].append({"status": "prop_fail", "what": perr, "detail": {"blk": blk.hex(), "api": api, "cap": cap, "build": bname}})
        if not (r < 0 or 0 <= r <= max(lim, 0)):
            res["fails"].append({"status": "prop_fail", "what": "return value %d outside [0,%d]" % (r, lim),
                                 "detail": {"blk": blk.hex(), "api": api, "cap": cap, "target": target, "srcsize": srcsize, "hist_len": len(hist), "build": bname}})
        if part and r >= 0 and img[min(lim, cap):] != declib.fill(cap, salt)[min(lim, cap):]:
            res["fails"].append({"status": "prop_fail", "what": "partial decoder wrote beyond min(target,cap)",
                                 "detail": {"blk": blk.hex(), "api": api, "cap": cap, "target": target, "build": bname}})
        mr, mok, mimg = declib.model_dec(orc, bname == "fast1", api, blk, srcsize, cap, target, hist, hist, salt)
        if mok != "ok":
            res["fails"].append({"status": "prop_fail", "what": "model reports an out-of-bounds access (theorem C02_no_oob contradicted?)",
                                 "detail": {"blk": blk.hex(), "api": api, "cap": cap, "target": target, "build": bname}})
        if mr != r or mimg != md5(img):
            res["fails"].append({"status": "corr_fail", "what": "model/code disagree: model ret=%d code ret=%d image %s" % (mr, r, "same" if mimg == md5(img) else "differs"),
                                 "detail": {"blk": blk.hex(), "api": api, "cap": cap, "target": target, "srcsize": srcsize,
                                            "hist": hist.hex() if len(hist) < 300 else "len=%d" % len(hist), "salt": salt, "build": bname}})
        if r > 0 and declib.nontrivial_hint(blk):
            res["keys"].add(key)
        elif r < -1:
            res["keys"].add(key)
        res["stats"]["ret_" + ("neg" if r < 0 else "zero" if r == 0 else "pos")] += 1
        res["stats"]["api_" + api] += 1

def stream_decode_case(st, rng, res):
    """LZ4_decompress_safe_continue on ONE stream-decode object over several streams (reset with
    LZ4_setStreamDecode between them, with and without a dictionary), each stream decoded into its own
    exact-size heap buffers which are FREED when the stream ends: a decoder that keeps referring to a
    previous stream's memory, or reads before the history it was given, is caught by ASan.
    Blocks are valid or malformed (offsets reaching beyond the real history)."""
    from capi import Buf
    for bname, dec in st["libs"].items():
        lib = dec.lib
        sd = Buf(64, fill=0)
        for stream in range(rng.choice([2, 3, 4])):
            use_dict = rng.random() < 0.4
            dictb = None
            if use_dict:
                dsz = rng.choice([1, 8, 100, 5000, 65536, 70000])
                dictb = Buf(dsz, data=rng.randbytes(dsz))
                lib.setStreamDecode(sd.p, dictb.p, dsz)
                seg = dictb.bytes()          # the dictionary is the stream's first (prefix) segment
            else:
                lib.setStreamDecode(sd.p, None, 0)
                seg = b""
            ext = b""                        # the segment before the current one (only ONE is remembered)
            nblocks = rng.choice([1, 2, 3, 5])
            geometry = rng.choice(["contig", "switch", "double"])
            bufs = []
            total = 0
            cur = None; curpos = 0
            for b in range(nblocks):
                valid = rng.random() < 0.6
                # where will this block be decoded?  contiguous to the current segment, or in another buffer
                # (then the current segment becomes the only external dictionary and older data is forgotten)
                probe_cap = None
                contiguous = (geometry == "contig" and cur is not None)
                hist_contig = (ext + seg)[-65536:]
                hist_switch = seg[-65536:]
                hist = hist_contig if contiguous else hist_switch
                blk, content, seqs = declib.gen_valid_block(rng, hist, max_seqs=6)
                for _retry in range(20):
                    # an empty block (result 0) leaves LZ4_streamDecode_t untouched - the previous segment stays the
                    # history - which this scenario's bookkeeping of "what the decoder may still reference" does not follow
                    if len(content) > 0:
                        break
                    blk, content, seqs = declib.gen_valid_block(rng, hist, max_seqs=6)
                if len(content) == 0:
                    break
                if not valid:
                    # make one offset reach before the available history
                    lits = rng.randbytes(rng.choice([0, 3, 12]))
                    have = len(hist_contig if contiguous else hist_switch) + len(lits)
                    far = have + rng.choice([1, 2, 16, 300, 20000])
                    if far > 65535:
                        # cannot express an out-of-history offset: use a valid block instead
                        far = None
                    if far is not None:
                        blk = declib.enc_seq(lits, far, rng.choice([4, 8, 20])) + declib.enc_last(rng.randbytes(12))
                        content = None
                D = len(content) if content is not None else 64
                cap = D + rng.choice([0, 0, 1, 13])
                if contiguous and curpos + cap <= cur.n:
                    dst = cur; off = curpos
                elif contiguous:
                    # no room left: grow by moving to a buffer that holds the whole current segment again is not
                    # possible through this API; end the stream here
                    break
                else:
                    size = cap if geometry != "contig" else cap + rng.choice([200, 5000, 70000])
                    dst = Buf(max(size, 1), fill=0x5A); off = 0; bufs.append(dst); cur = dst; curpos = 0
                    ext = seg[-65536:]; seg = b""
                srcb = Buf(len(blk), data=blk)
                r = lib.decompress_safe_continue(sd.p, srcb.p, (dst.p or 0) + off, len(blk), cap)
                res["evals"] += 1
                srcb.free()
                if content is not None:
                    got = dst.bytes(D, off) if r == D else None
                    if r != D or got != content:
                        res["fails"].append({"status": "prop_fail", "what": "LZ4_decompress_safe_continue returned %d for a valid block of %d bytes (or wrong bytes), stream %d block %d, geometry %s, build %s" % (r, D, stream, b, geometry, bname),
                                             "detail": {"blk": blk.hex()[:400], "hist_len": len(hist)}})
                        break
                    seg = (seg + content)[-140000:]
                    curpos = off + D
                    res["keys"].add(hashlib.sha1(blk + bytes([stream, b])).hexdigest())
                else:
                    if r >= 0:
                        res["fails"].append({"status": "prop_fail", "what": "LZ4_decompress_safe_continue accepted (ret %d) a block whose offset reaches %d bytes back with only %d bytes of history (stream %d after reset, geometry %s, build %s)" % (r, far, have, stream, geometry, bname),
                                             "detail": {"blk": blk.hex()[:400]}})
                    res["keys"].add(hashlib.sha1(blk + b"bad").hexdigest())
                    break     # the stream is dead after an error
            # the stream is over: release its memory
            for x in bufs: x.free()
            if dictb: dictb.free()
        sd.free()
        res["stats"]["streamdec"] += 1

def run_case(st, case):
    import collections
    rng = random.Random(case["bseed"])
    res = {"evals": 0, "fails": [], "keys": set(), "stats": collections.Counter()}
    kind = case["kind"]
    if kind == "exhaustive":
        for l in range(0, case["maxlen"] + 1):
            for t in itertools.product(ALPHA, repeat=l):
                blk = bytes(t)
                st["cur_hist"] = b"\x01\x02\x03\x04\x05\x06\x07\x08\x09"
                one(st, blk, 20, rng, res)
    elif kind == "streamdec":
        for j in range(case["count"] // 4):
            stream_decode_case(st, rng, res)
    elif kind == "sdmodel":
        # tie of Model.DecStream (theorem C02_stream_session_safe): LZ4_setStreamDecode / LZ4_decompress_safe_continue sessions in
        # every documented geometry, real code (ASan, exact buffers) vs the extracted model after every call: return value,
        # destination image, the four LZ4_streamDecode_t fields.  Machinery shared with C05 (declib2.run_stream).
        import c05
        if st["c05st"] is None:
            st["c05st"] = c05.worker_init(st["ctx"])
        r5 = {"evals": 0, "fails": [], "keys": set(), "stats": collections.Counter()}
        if case.get("edge"):
            c05.check_stream(st["c05st"], rng, r5, "extchain", True, edge=True)
        else:
            c05.check_stream(st["c05st"], rng, r5, case["geom"], False)
        res["evals"] += r5["evals"]; res["keys"] |= r5["keys"]; res["stats"].update(r5["stats"])
        for f in r5["fails"]:
            res["fails"].append({"status": f["status"], "what": "stream session: " + f["what"], "detail": f.get("detail")})
    else:
        for j in range(case["count"]):
            ds = rng.choice(DICT_SIZES)
            hkey = (case["bseed"] >> 8, ds)
            hist = rng.randbytes(ds)
            st["cur_hist"] = hist
            if kind in ("valid", "validbig"):
                blk, content, seqs = declib.gen_valid_block(rng, hist, big=(kind == "validbig" and j % 8 == 0))
                D = len(content)
            elif kind == "mutated":
                blk, content, seqs = declib.gen_valid_block(rng, hist, valid_end=rng.random() < 0.8)
                for _ in range(rng.choice([1, 1, 2, 3])):
                    blk = declib.mutate(rng, blk)
                D = len(content)
            else:
                n = rng.choice([0, 1, 2, 3, 5, 8, 16, 17, 30, 64, 200])
                blk = bytes(rng.choice(ALPHA + [rng.randrange(256)]) for _ in range(n))
                D = rng.choice([0, 10, 100, 1000])
            one(st, blk, D, rng, res)
    out = []
    for f in res["fails"][:3]:
        f["nontrivial"] = True; f["kind"] = kind
        out.append(f)
    out.append({"status": "ok", "evals": res["evals"], "keys": sorted(res["keys"])[:2000], "kind": kind, "stats": dict(res["stats"]),
                "nontrivial": False})
    return out
