"""C09 - block compressors honour the destination-capacity contract."""
import random
import gens, blk, compcases as cc
from capi import Lib, Buf

THEOREMS = ["C09_fast_generic_cap", "C09_fast_extState", "C09_fast_extState_fastReset", "C09_hc_emitter_cap", "C09_hc_emitter_encoding", "C09_hc_mid_bad_sizes", "C09_hc_chain_capacity", "C09_hc_opt_capacity", "C09_hc_mid_capacity"]
CORRESPONDENCE = [cc.MID_CORR, cc.CHAIN_CORR, cc.CHAIN_SEARCH_CORR, cc.CHAIN_DICT_CORR,
                  "Model.FastApi == liblz4 for every capacity tried: return value, bytes, and the model's write high-water mark <= capacity",
                  "Model.HcEmit.encodeSequence == LZ4HC_encodeSequence (static function reached by #include): return code, bytes, new op/ip/anchor, for literal and match lengths on every length-encoding boundary x every room value around both limit checks"]
ORACLES = ["block", "mid", "chain"]
RULE = ("inputs weighted to incompressible / barely compressible data, long literal runs and long matches straddling 255-multiples; "
        "EVERY capacity 0..bound+1 for inputs <= 48 bytes, capacities dense around each sequence boundary of the bound-capacity output and random otherwise; "
        "entry points {default, fast(accel), extState, fastReset history, HC levels, HC extState, fast_continue, HC_continue}; destination buffer has EXACTLY the "
        "capacity (ASan): any write beyond it or read outside the source kills the worker = violation; oracle: cap >= bound => ret > 0; cap < bound => ret == 0 or "
        "(0 < ret <= cap and the bytes decode to the input by the extracted specification decoder); negative / > LZ4_MAX_INPUT_SIZE sizes => 0. "
        "non-trivial = 0 < ret at a capacity below the bound, or failure at capacity >= (needed size - 3); distinct = (input, entry, parameter, capacity)")
TRUSTED = ["reads outside the source buffer are only observed (ASan, exact-size buffers), not proved",
           "HC levels 1-2 (LZ4MID), 3-9 (hash chain) and 10-12 (optimal parser) one-shot entry points are modelled and tied; HC streaming entry points: direct oracle only"]
ASSUMPTIONS = ["64-bit little-endian target"]

def build(tier):
    from vlib import build_lib
    return {"lib": build_lib("default"), "hcemit": cc.hcemit_lib(), "midstate": cc.midstate_lib(), "chainstate": cc.chainstate_lib()}

def gen_cases(tier, seed):
    rng = random.Random(seed * 131 + 9)
    n = {"quick": 64, "search": 256, "thorough": 600}[tier]
    cases = [{"bseed": rng.randrange(1 << 48), "count": 6, "mode": ["small", "small", "mid", "mid", "big", "bad", "emit", "litrun"][i % 8]} for i in range(n)]
    cases += cc.mid_gen_cases(rng, tier, 0.5)
    cases += cc.chain_gen_cases(rng, tier, 0.5)
    return cases

def worker_init(ctx):
    import ctypes
    st = blk.worker_init(ctx)
    st["hcemit"] = ctypes.CDLL(ctx["hcemit"])
    return cc.chain_worker(cc.mid_worker(st, ctx), ctx)

def seq_boundaries(out):
    """output offsets at which a sequence of the block ends"""
    pos, b = 0, []
    n = len(out)
    while pos < n:
        tok = out[pos]; pos += 1
        ll = tok >> 4
        if ll == 15:
            while pos < n:
                x = out[pos]; pos += 1; ll += x
                if x != 255: break
        pos += ll
        if pos >= n: break
        pos += 2
        ml = tok & 15
        if ml == 15:
            while pos < n:
                x = out[pos]; pos += 1
                if x != 255: break
        b.append(pos)
    return b

def check(st, res, info, fam, variant, p, src, cap, r, out, strict_hist=b""):
    n = len(src); b = cc.bound(n)
    def fail(what):
        res["fails"].append({"status": "prop_fail", "what": what,
                             "detail": dict(info, fam=fam, variant=variant, p=p, n=n, cap=cap, ret=r, src=src.hex() if n <= 300 else "len=%d" % n)})
    if cap >= b and r <= 0:
        fail("capacity %d >= LZ4_compressBound(%d)=%d but the compressor returned %d" % (cap, n, b, r))
    if r < 0 or r > max(cap, 0):
        fail("returned %d with capacity %d" % (r, cap))
    elif r > 0:
        a = st["oracle"].ask("specdec", blk.hx(strict_hist[-65536:]) if strict_hist else "-", blk.hx(out))
        if a != "ok %d %s" % (n, blk.md5(src)):
            fail("output at capacity %d does not decode to the input (specification decoder: %s)" % (cap, a[:40]))
        if cap < b:
            res["keys"].add(cc.key_of(src, variant, p, cap))

def run_variant(st, rng, res, info, fam, src, caps):
    lib = st["lib"]; n = len(src)
    if fam == "fast":
        variant = rng.choice(["default", "fast", "ext"]); p = rng.choice(cc.ACCELS)
        for cap in caps:
            r, out = cc.run_fast(st, variant, src, cap, p, res, dict(info, junk=rng.randrange(1 << 30)))
            check(st, res, info, fam, variant, p, src, cap, r, out)
    elif fam == "hc":
        variant = rng.choice(["hc", "hc_ext", "hc_fr", "hc_fr_fav"]); p = rng.choice(cc.LEVELS)
        for cap in caps:
            r, out = cc.run_hc(st, variant, src, cap, p, res, dict(info, junk=rng.randrange(1 << 30)))
            check(st, res, info, fam, variant, p, src, cap, r, out)
    else:
        # second block of a stream (history = first block), fast or HC
        hc = fam == "hcstream"
        first = gens.data(rng, rng.choice(["text", "selfdict", "random"]), rng.choice([0, 100, 5000, 70000]))
        if rng.random() < 0.5 and first:
            src = (first[-len(src) // 2:] + src)[:n] if n else src
        data = first + src
        p = rng.choice(cc.LEVELS if hc else cc.ACCELS)
        for cap in caps:
            whole = Buf(len(data), data=data)
            if hc:
                stb = blk.junk_state(lib, "hc", 1); lib.initStreamHC(stb.p, stb.n); lib.setCompressionLevel(stb.p, p)
            else:
                stb = blk.junk_state(lib, "fast", 1); lib.initStream(stb.p, stb.n)
            d0 = Buf(cc.bound(len(first)))
            r0 = (lib.compress_HC_continue(stb.p, whole.p, d0.p, len(first), d0.n) if hc
                  else lib.compress_fast_continue(stb.p, whole.p, d0.p, len(first), d0.n, 1))
            d0.free()
            dst = Buf(max(cap, 0), fill=0xC3)
            r = (lib.compress_HC_continue(stb.p, (whole.p or 0) + len(first), dst.p, n, cap) if hc
                 else lib.compress_fast_continue(stb.p, (whole.p or 0) + len(first), dst.p, n, cap, p))
            out = dst.bytes(r) if 0 < r <= cap else b""
            res["evals"] += 1
            dst.free(); whole.free(); stb.free()
            if len(first) and r0 <= 0:
                res["fails"].append({"status": "prop_fail", "what": "first block of the stream failed at bound capacity", "detail": info})
            check(st, res, info, fam, fam, p, src, cap, r, out, strict_hist=first)
    res["stats"]["fam_" + fam] += 1

def mid_judge(st):
    def judge(kind, src, cap, r, consumed, out):
        n = len(src)
        if r < 0 or r > max(cap, 0):
            return "returned %d with capacity %d" % (r, cap)
        if kind == "fr" and cap >= cc.bound(n) and r <= 0:
            return "failed (%d) although dstCapacity %d >= LZ4_compressBound(%d)" % (r, cap, n)
        return None
    return judge

def chain_judge(st):
    def judge(kind, src, cap, level, r, consumed, out):
        n = len(src)
        if r < 0 or r > max(cap, 0):
            return "returned %d with capacity %d" % (r, cap)
        if kind == "fr" and cap >= cc.bound(n) and r <= 0:
            return "failed (%d) although dstCapacity %d >= LZ4_compressBound(%d)" % (r, cap, n)
        if r > 0:
            err = blk.decode_checks(st, src[:consumed], out, strict=(kind != "ds"), caps=[consumed])
            if err:
                return "output within the capacity does not decode: " + err
        return None
    return judge

def run_case(st, case):
    if case.get("mode") == "hcmid":
        return cc.run_mid_case(st, case, mid_judge(st))
    if case.get("mode") == "hcchain":
        return cc.run_chain_case(st, case, chain_judge(st))
    rng = random.Random(case["bseed"])
    res = cc.new_res()
    lib = st["lib"]
    for j in range(case["count"]):
        info = {"bseed": case["bseed"], "j": j, "mode": case["mode"]}
        mode = case["mode"]
        if mode == "emit":
            LLS = [0, 1, 14, 15, 16, 254, 255, 256, 269, 270, 271, 509, 510, 511, 512, 765, 767, 1020, 1024, 5625, 5881, 70000]
            MLS = [4, 5, 18, 19, 20, 273, 274, 275, 528, 529, 530, 783, 784, 1039, 70000]
            for _ in range(40):
                L = rng.choice(LLS); ml = rng.choice(MLS); off = rng.choice([1, 2, 255, 256, 65535])
                need1 = 1 + L // 255 + L + 8          # first limit check threshold (room)
                need2 = 1 + (0 if L < 15 else (L - 15) // 255 + 1) + L + 2 + (ml - 4) // 255 + 6
                for room in sorted(set([need1 - 2, need1 - 1, need1, need1 + 1, need2 - 1, need2, need2 + 1, max(need1, need2) + 9,
                                        1 + (L >> 8) + L + 8, 1 + L // 256 + L + 8])):
                    if room >= 1:
                        cc.run_hcemit(st, rng, res, info, L, ml, off, True, room)
                cc.run_hcemit(st, rng, res, info, L, ml, off, False, 0)
                res["keys"].add(cc.key_of("emit", L, ml, off))
            res["stats"]["mode_emit"] += 1
            continue
        if mode == "litrun":
            # first sequence = L incompressible literals + a match: every capacity around the literal-run budget test
            # (and around where x/255, x>>8, x/256 would put it), fast and HC
            CRIT = [15, 255, 256, 270, 510, 511, 765, 1020, 1275, 2550, 5624, 5625, 5626, 5881, 6137, 11497]
            for L in rng.sample(CRIT, 5):
                lit = rng.randbytes(L)
                # the run is followed by copies of its own first bytes (all of which the search has inserted while its
                # step was still 1), so the match is found wherever the accelerated search lands and catch-up moves it
                # back to exactly L literals
                src = lit + lit[:min(64, L)] * rng.choice([8, 12, 40]) + rng.randbytes(13)
                ths = set()
                for d in (L // 255, L >> 8, L // 256):
                    t = 1 + L + 8 + d
                    ths.update(range(t - 3, t + 5))
                caps = sorted(c for c in ths if c >= 0)
                run_variant(st, rng, res, info, "fast", src, caps)
                run_variant(st, rng, res, info, "hc", src, caps)
                res["keys"].add(cc.key_of("litrun", L, case["bseed"]))
            res["stats"]["mode_litrun"] += 1
            continue
        if mode == "bad":
            # negative and oversized declared sizes must yield 0 without touching memory
            srcb = Buf(16, data=b"0123456789abcdef"); dstb = Buf(64, fill=0xC3)
            for n in (-1, -5, -2147483648, 0x7E000001, 0x7FFFFFFF):
                for name, call in (("default", lambda: lib.compress_default(srcb.p, dstb.p, n, 64)),
                                   ("fast", lambda: lib.compress_fast(srcb.p, dstb.p, n, 64, 3)),
                                   ("HC", lambda: lib.compress_HC(srcb.p, dstb.p, n, 64, rng.choice([1, 2, 4, 9, 12])))):
                    r = call(); res["evals"] += 1
                    if r != 0 or dstb.bytes() != b"\xC3" * 64:
                        res["fails"].append({"status": "prop_fail", "what": "%s with srcSize=%d returned %d / wrote to dst" % (name, n, r), "detail": info})
            res["keys"].add(cc.key_of("bad", case["bseed"], j)); res["keys"].add(cc.key_of("bad2", case["bseed"], j))
            srcb.free(); dstb.free()
            continue
        kind = rng.choice(["random", "barely", "lit255", "lit255", "longmatch", "runs", "incompressible_tail", "text", "twosym"])
        if mode == "small":
            n = rng.choice(list(range(0, 49)))
        elif mode == "mid":
            n = rng.choice([60, 255, 256, 270, 271, 285, 286, 524, 525, 526, 1000, 4095, 4096, 5000, 6000])
        else:
            n = rng.choice([65535 - 12, 65535, 65536 + 11, 65547, 70000])
        src = gens.data(rng, kind, n)
        b = cc.bound(n)
        fam = rng.choice(["fast", "fast", "hc", "hc", "stream", "hcstream"])
        if mode == "small":
            caps = list(range(0, b + 2))
        else:
            # dense around the sequence boundaries of the unconstrained output, plus the ends
            srcb = Buf(n, data=src); dstb = Buf(b)
            r = lib.compress_default(srcb.p, dstb.p, n, b); full = dstb.bytes(r)
            srcb.free(); dstb.free()
            pts = set([0, 1, b - 1, b, b + 1, r - 1, r, r + 1, n, n + 1])
            for sb in rng.sample(seq_boundaries(full), min(6, len(seq_boundaries(full)))) if full else []:
                pts.update(range(sb - 2, sb + 10))
            pts.update(rng.randrange(0, b + 2) for _ in range(6))
            caps = sorted(c for c in pts if 0 <= c <= b + 1)
            if mode == "big":
                caps = rng.sample(caps, min(12, len(caps)))
        res["stats"]["ncaps"] += len(caps)
        res["stats"]["size_" + mode] += 1
        run_variant(st, rng, res, info, fam, src, caps)
    return cc.finish(res, case["mode"])
