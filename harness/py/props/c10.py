"""C10 - LZ4F bound functions guarantee success and are never exceeded.

Theorem side: Properties_C10.v about the size model Model/FrameCSizes.v.
Tie: every LZ4F_compressBegin / compressUpdate / uncompressedUpdate / flush / compressEnd /
compressFrame call of a session on the REAL library (ctypes, exact-size ASan buffers) is
replayed on the extracted model (oracle "framesz"): return value (bytes written or the exact
LZ4F error code), sizes of the blocks found in the output, the context fields the model
mirrors (cStage, maxBlockSize, tmpInSize, totalInSize, blockCompressMode) and "nothing is
touched beyond the model's extent" (canary bytes).  The bound functions of the model are
cross-evaluated against the C functions (the static one through harness/c/c10_wrap.c).
Direct property oracles, independent of the model: written <= capacity (any overflow is an
ASan crash), success whenever capacity >= the C bound."""
import random, hashlib, collections, ctypes
from ctypes import c_size_t, c_void_p, c_int, c_uint, c_ulonglong, POINTER, byref
from capi import Lib, Buf, Prefs, COpts
from vlib import Oracle, build_lib

THEOREMS = ["C10_update_fits", "C10_uncompressed_update_fits", "C10_buffered_amounts_reachable",
            "C10_bound_user_prefs", "C10_bound_null_prefs", "C10_flush_end_fit", "C10_frame_fits", "C10_never_overflows",
            "C10_tmpIn_invariant", "C10_never_overflows_nofix_refuted", "C10_F1_history_now_rejected"]
CORRESPONDENCE = ["FrameCSizes.step == LZ4F_compressBegin/compressUpdate/uncompressedUpdate/flush/compressEnd "
                  "(return value or error code, block sizes, context fields, extent touched)",
                  "FrameCSizes.compressFrame == LZ4F_compressFrame (return value or error code, block sizes, extent)",
                  "FrameCSizes.compressBound_internal/compressBound/compressFrameBound/optimalBSID == the C functions on a grid"]
ORACLES = ["framesz"]
RULE = ("sessions = random preferences (block size 64KB..4MB, linked/independent, both checksums, autoFlush 0/1/2, "
        "content size right/wrong, dictID, levels) x scripts of Begin/Update/Uncompressed/Flush/End aimed at the "
        "boundaries (buffered 0,1,blockSize-1; srcSize 0,1,k*blockSize+-1, fill-the-buffer+-1; capacity = bound, "
        "bound-1, internal bound, internal bound-1, srcSize, tmpIn+8+-1, 0, larger), incompressible and compressible "
        "data, mode switches with data buffered, frames re-begun on a used context; plus one-shot compressFrame and the "
        "bound-function grid.  non-trivial = an operation that emitted at least one block or returned an error; "
        "distinct = distinct (prefs, buffered, op, srcSize, capacity, result) tuples")
TRUSTED = ["hand-written size model Model/FrameCSizes.v of lz4frame.c, tied by the per-call comparison only",
           "block compressors never write more than the dstCapacity they are given (property C06/C09): the model charges "
           "LZ4F_makeBlock BHSize+srcSize+crc bytes at its output position"]
ASSUMPTIONS = ["srcSize < 2^32 * 64 KB (no size_t wrap-around, the (unsigned) cast of nbFullBlocks is the identity)",
               "malloc succeeds", "blockSizeID in {0,4,5,6,7}, checksum flags in {0,1}",
               "LZ4F_uncompressedUpdate only with independent blocks (documented restriction)"]

U64 = 1 << 64
ERR_TOO_SMALL = 11
FILL = 0xA5
BS = {0: 65536, 4: 65536, 5: 262144, 6: 1048576, 7: 4194304}

def build(tier):
    return {"lib": build_lib("c10", wrappers=["c10_wrap.c"])}

# ---------------------------------------------------------------- cases
F1_CASE = {"kind": "script", "name": "F1", "prefs": {"bsid": 4, "linked": 0, "cchk": 0, "csize": 0, "dictid": 0, "bchk": 1, "af": 0, "level": 0},
           "ops": [["B", 0, "exact"], ["X", 1000, "bound"], ["U", 65536, "bound"], ["E", 0, "bound"]], "data": "rand", "seed": 1}
F1_CASE_B = {"kind": "script", "name": "F1-reverse", "prefs": {"bsid": 4, "linked": 0, "cchk": 1, "csize": 0, "dictid": 0, "bchk": 0, "af": 0, "level": 0},
             "ops": [["B", 0, "exact"], ["U", 65535, "bound"], ["X", 65536, "bound"], ["U", 1, "bound"], ["X", 0, "bound"], ["E", 0, "bound"]], "data": "rand", "seed": 2}
F1_CASE_C = {"kind": "script", "name": "F1-256K", "prefs": {"bsid": 5, "linked": 0, "cchk": 0, "csize": 0, "dictid": 0, "bchk": 1, "af": 0, "level": 0},
             "ops": [["B", 0, "exact"], ["X", 262143, "bound"], ["U", 262144, "bound"], ["E", 0, "bound"]], "data": "zero", "seed": 3}

def gen_cases(tier, seed):
    rng = random.Random(seed)
    n = {"quick": 1200, "search": 2000, "thorough": 30000}[tier]
    cases = [dict(F1_CASE), dict(F1_CASE_B), dict(F1_CASE_C), {"kind": "grid", "seed": rng.randrange(1 << 48)}]
    for i in range(n):
        k = rng.choice(["session"] * 6 + ["switch"] * 3 + ["frame"] * 2 + ["nullprefs"])
        cases.append({"kind": k, "seed": rng.randrange(1 << 48)})
    if tier != "quick":
        cases.append({"kind": "grid", "seed": rng.randrange(1 << 48)})
    return cases

# ---------------------------------------------------------------- helpers
def worker_init(ctx):
    lib = Lib(ctx["lib"])
    L = lib.L
    L.c10_compressBound_internal.restype = c_size_t
    L.c10_compressBound_internal.argtypes = [c_size_t, c_void_p, c_size_t]
    L.c10_optimalBSID.restype = c_int
    L.c10_optimalBSID.argtypes = [c_int, c_size_t]
    L.c10_cctx_state.restype = None
    L.c10_cctx_state.argtypes = [c_void_p, POINTER(c_ulonglong)]
    L.c10_version.restype = c_uint
    return {"lib": lib, "oracle": Oracle(name="framesz"), "version": L.c10_version()}

def c_prefs(p):
    if p is None:
        return None, None
    s = Prefs()
    s.blockSizeID = p["bsid"]; s.blockMode = 0 if p["linked"] else 1
    s.contentChecksumFlag = p["cchk"]; s.frameType = 0; s.contentSize = p["csize"]; s.dictID = p["dictid"]
    s.blockChecksumFlag = p["bchk"]; s.compressionLevel = p.get("level", 0); s.autoFlush = p["af"]; s.favorDecSpeed = 0
    return s, ctypes.cast(ctypes.pointer(s), c_void_p)

def m_prefs(p):
    if p is None:
        return "N"
    return "%d,%d,%d,%d,%d,%d,%d" % (p["bsid"], p["linked"], p["cchk"], p["csize"], p["dictid"], p["bchk"], 1 if p["af"] else 0)

def decode(ret):
    """size_t result -> ('ok', n) | ('err', code)"""
    if ret > U64 - 64:
        return ("err", U64 - ret)
    return ("ok", ret)

def gen_prefs(rng, independent=False, small=False):
    bsid = rng.choice([0, 4, 4, 4, 4, 5, 5, 6, 7] if not small else [0, 4, 4, 5])
    return {"bsid": bsid, "linked": 0 if independent else rng.choice([0, 1]), "cchk": rng.choice([0, 1]),
            "csize": 0, "dictid": rng.choice([0, 0, 0, rng.randrange(1, 1 << 32)]), "bchk": rng.choice([0, 1]),
            "af": rng.choice([0, 0, 0, 1, 1, 2]), "level": rng.choice([0, 0, 0, 0, -3, 2, 3, 9])}

def gen_data(rng, n, kind):
    if n == 0:
        return b""
    if kind == "rand":
        return rng.randbytes(n)
    if kind == "zero":
        return bytes(n)
    if kind == "text":
        unit = b"the quick brown fox jumps over the lazy dog %d " % rng.randrange(1000)
        return (unit * (n // len(unit) + 1))[:n]
    # mixed: compressible and incompressible stretches
    out = bytearray()
    while len(out) < n:
        l = min(n - len(out), rng.choice([1, 7, 100, 5000, 70000, 300000]))
        out += rng.randbytes(l) if rng.random() < 0.5 else bytes([rng.randrange(256)]) * l
    return bytes(out)

def parse_blocks(buf, crc, stop_at_endmark=False, first_only=False):
    """[(stored size, raw flag)] of the data blocks found at the start of buf, bytes consumed"""
    off, out = 0, []
    while off + 4 <= len(buf):
        h = int.from_bytes(buf[off:off + 4], "little")
        if h == 0:
            break
        size = h & 0x7FFFFFFF
        if size == 0 or off + 4 + size + (4 if crc else 0) > len(buf):
            break
        out.append((size, h >> 31))
        off += 4 + size + (4 if crc else 0)
        if first_only:
            break
    return out, off

class Session:
    def __init__(self, st, res):
        self.st, self.res = st, res
        self.lib = st["lib"]; self.o = st["oracle"]
        self.ctx = c_void_p()
        r = self.lib.F_createCompressionContext(byref(self.ctx), st["version"])
        if decode(r)[0] != "ok":
            raise RuntimeError("createCompressionContext failed")
        self.ms = self.o.ask("init")
        self.keep = []                      # source buffers stay alive (stableSrc / linked blocks)
        self.prefs = None                   # preferences of the last successful Begin (python dict) or None
        self.cp = None                      # their C struct (kept alive)
        self.begun_with_null = False
        self.trace = []

    def close(self):
        self.lib.F_freeCompressionContext(self.ctx)
        for b in self.keep:
            b.free()
        self.keep = []

    def mstate(self):
        f = [int(x) for x in self.ms.split(",")]
        return {"bsid": f[0], "linked": f[1], "cchk": f[2], "csize": f[3], "dictid": f[4], "bchk": f[5], "af": f[6],
                "stage": f[7], "mbs": f[8], "tmpin": f[9], "total": f[10], "unc": f[11]}

    def cstate(self):
        a = (c_ulonglong * 8)()
        self.lib.L.c10_cctx_state(self.ctx, a)
        return {"stage": a[0], "mbs": a[1], "tmpin": a[2], "total": a[3], "unc": a[4], "bsid": a[5], "af": a[6]}

    def c_bound(self, n, internal_ab=None):
        """the C bound for the preferences of the current frame (NULL stays NULL)"""
        ptr = None if self.begun_with_null else self.cp[1]
        if internal_ab is None:
            return self.lib.F_compressBound(n, ptr)
        return self.lib.L.c10_compressBound_internal(n, ptr, internal_ab)

    def fail(self, status, what, **detail):
        detail["trace"] = self.trace[-12:]
        self.res["fails"].append({"status": status, "what": what, "detail": detail})

    def op(self, kind, n=0, cap=0, prefs=None, null_prefs=False, data=b"", stable=0):
        """one call on the real library and on the model; returns the decoded C result"""
        L, res = self.lib, self.res
        ms0 = self.mstate()
        dst = Buf(cap, fill=FILL)
        opts = COpts(); opts.stableSrc = stable
        optp = ctypes.cast(ctypes.pointer(opts), c_void_p)
        if kind == "B":
            cp = c_prefs(None if null_prefs else prefs)
            ret = L.F_compressBegin(self.ctx, dst.p, cap, cp[1])
            mop = "B:%s:%d" % (m_prefs(None if null_prefs else prefs), cap)
        elif kind in ("U", "X"):
            src = Buf(len(data), data=data)
            self.keep.append(src)
            f = L.F_compressUpdate if kind == "U" else L.F_uncompressedUpdate
            ret = f(self.ctx, dst.p, cap, src.p, len(data), optp)
            mop = "%s:%d:%d" % (kind, len(data), cap)
        elif kind == "F":
            ret = L.F_flush(self.ctx, dst.p, cap, optp)
            mop = "F:%d" % cap
        else:
            ret = L.F_compressEnd(self.ctx, dst.p, cap, optp)
            mop = "E:%d" % cap
        cr = decode(ret)
        out = dst.bytes()
        # ---- tape: stored sizes of the blocks the C code produced in compressed mode
        crc = ms0["bchk"]
        new_unc = 1 if kind == "X" else (0 if kind == "U" else ms0["unc"])
        flush_first = ms0["tmpin"] > 0 and (kind in ("F", "E") or new_unc != ms0["unc"])
        parsed = []
        if kind != "B":
            if cr[0] == "ok":
                parsed, used = parse_blocks(out[:cr[1]], crc, stop_at_endmark=True)
            elif flush_first:
                parsed, used = parse_blocks(out, crc, first_only=True)
        tape = []
        for i, (size, raw) in enumerate(parsed):
            unc_mode = ms0["unc"] if (flush_first and i == 0) else new_unc
            if not unc_mode:
                tape.append(size)
        tape_s = ",".join(map(str, tape)) if tape else "-"
        r = self.o.ask("step", "1", self.ms, mop, tape_s).split(" ")
        if len(r) != 5:
            raise RuntimeError("oracle: " + " ".join(r))
        mret, mext, mblocks, mstate, mrest = r
        mext = int(mext)
        self.ms = mstate
        res["evals"] += 1
        desc = {"op": kind, "n": len(data), "cap": cap, "c": list(cr), "model": mret, "tmpin_before": ms0["tmpin"], "unc_before": ms0["unc"]}
        self.trace.append(desc)
        # ---- the property itself, on the real code
        if cr[0] == "ok" and cr[1] > cap:
            self.fail("prop_fail", "%s reported %d bytes written into a buffer of %d" % (kind, cr[1], cap), **desc)
        # ---- correspondence
        want = ("ok:%d" % cr[1]) if cr[0] == "ok" else ("err:%d" % cr[1])
        if mret != want:
            self.fail("corr_fail", "model/code disagree on the result of %s: model %s, code %s" % (kind, mret, want), **desc)
        else:
            mb = [] if mblocks == "-" else [tuple(map(int, x.split(":"))) for x in mblocks.split(",")]
            if cr[0] == "ok" and kind != "B":
                if [s for (_, s) in mb] != [s for (s, _) in parsed]:
                    self.fail("corr_fail", "block sizes differ: model %s, code %s" % (mb, parsed), **desc)
                for i, ((ln, s), (_, raw)) in enumerate(zip(mb, parsed)):
                    if (s == ln) != bool(raw):
                        self.fail("corr_fail", "block %d: raw flag %d but stored size %d for %d content bytes" % (i, raw, s, ln), **desc)
            if mext > cap:
                self.fail("corr_fail", "model extent %d exceeds the capacity %d (theorem C10_never_overflows contradicted?)" % (mext, cap), **desc)
            elif out[mext:] != bytes([FILL]) * (cap - mext):
                self.fail("corr_fail", "%s touched the destination beyond the model's extent %d (cap %d)" % (kind, mext, cap), **desc)
            cs, m1 = self.cstate(), self.mstate()
            for k in ("stage", "tmpin", "unc") + (("mbs", "total") if m1["stage"] == 1 or cs["stage"] == 1 else ()):
                if cs[k] != m1[k]:
                    self.fail("corr_fail", "context field %s: model %d, code %d after %s" % (k, m1[k], cs[k], kind), **desc)
                    break
            if mb or cr[0] == "err":
                res["keys"].add(hashlib.sha1(repr((self.ms, ms0["tmpin"], kind, len(data), cap, want)).encode()).hexdigest())
        res["stats"]["op_" + kind] += 1
        res["stats"]["ret_" + (cr[0] if cr[0] == "ok" else "err%d" % cr[1])] += 1
        if kind == "B" and cr[0] == "ok":
            self.prefs = dict(prefs) if not null_prefs else {"bsid": 4, "linked": 1, "cchk": 0, "csize": 0, "dictid": 0, "bchk": 0, "af": 0}
            self.cp = c_prefs(prefs) if not null_prefs else (None, None)
            self.begun_with_null = null_prefs
        dst.free()
        return cr, ms0

    # capacity for an op by name; 'bound' is what the documentation tells the caller to provide
    def capacity(self, rng, kind, n, how):
        ms = self.mstate()
        t = ms["tmpin"]
        if kind == "B":
            return {"exact": 19, "below": 18, "zero": 0}.get(how, 19 + rng.randrange(0, 30))
        nb = n if kind in ("U", "X") else 0
        bound = self.c_bound(nb)
        if how == "bound":
            return bound
        if how == "below":
            return max(0, bound - 1)
        if how == "internal":
            return self.c_bound(nb, t)
        if how == "internal-1":
            return max(0, self.c_bound(nb, t) - 1)
        if how == "switch-exact":          # flushed block + bound for the rest
            return t + 4 + 4 * ms["bchk"] + self.c_bound(nb, 0)
        if how == "switch-1":
            return max(0, t + 4 + 4 * ms["bchk"] + self.c_bound(nb, 0) - 1)
        if how == "n":
            return nb
        if how == "t+8":
            return t + 8
        if how == "t+7":
            return t + 7
        if how == "zero":
            return 0
        if how == "end-exact":             # exactly what compressEnd writes for incompressible data
            return (t + 4 + 4 * ms["bchk"] if t else 0) + 4 + 4 * ms["cchk"]
        if how == "end-1":
            return max(0, (t + 4 + 4 * ms["bchk"] if t else 0) + 4 + 4 * ms["cchk"] - 1)
        if how == "small":
            return rng.randrange(0, 24)
        return bound + rng.randrange(0, 100)

def src_sizes(rng, bs, t):
    return [0, 1, 2, max(0, bs - t - 1), bs - t, bs - t + 1, bs - 1, bs, bs + 1, 2 * bs - t, 2 * bs - 1, 2 * bs + 1,
            3 * bs - t - 1, rng.randrange(0, bs), rng.randrange(0, 3 * bs), rng.randrange(0, 2000)]

def check_fit(sess, kind, cr, ms0, n, cap, how):
    """direct property oracle: with the documented capacity the call must not fail for lack of space"""
    if kind in ("U", "X"):
        same_mode = ms0["unc"] == (1 if kind == "X" else 0) or ms0["tmpin"] == 0
        if ms0["stage"] == 1 and same_mode and cap >= sess.c_bound(n) and cr[0] != "ok":
            sess.fail("prop_fail", "%s of %d bytes failed (error %d) with capacity %d >= LZ4F_compressBound = %d, %d bytes buffered"
                      % (kind, n, cr[1], cap, sess.c_bound(n), ms0["tmpin"]), how=how)
    elif kind in ("F", "E"):
        if sess.cp is not None and cap >= sess.c_bound(0) and cr[0] == "err" and cr[1] in (ERR_TOO_SMALL, 20) and (ms0["stage"] == 1 or ms0["tmpin"] == 0):
            sess.fail("prop_fail", "%s failed (error %d) with capacity %d >= LZ4F_compressBound(0) = %d, %d bytes buffered"
                      % (kind, cr[1], cap, sess.c_bound(0), ms0["tmpin"]), how=how)

def run_script(st, case, res):
    """fixed corpus scripts (F1 regression): ops = [kind, n, capacity rule]"""
    rng = random.Random(case["seed"])
    s = Session(st, res)
    try:
        for kind, n, how in case["ops"]:
            data = gen_data(rng, n, case["data"]) if kind in ("U", "X") else b""
            if kind == "B":
                cr, ms0 = s.op("B", cap=19, prefs=case["prefs"])
            else:
                cap = s.capacity(rng, kind, n, how)
                cr, ms0 = s.op(kind, n=n, cap=cap, data=data)
                check_fit(s, kind, cr, ms0, n, cap, how)
    finally:
        s.close()

def run_session(st, case, res):
    rng = random.Random(case["seed"])
    kind = case["kind"]
    null_prefs = kind == "nullprefs"
    switching = kind == "switch"
    s = Session(st, res)
    try:
        for frame in range(rng.choice([1, 1, 2, 3])):
            prefs = gen_prefs(rng, independent=switching, small=rng.random() < 0.7)
            if BS[prefs["bsid"]] >= 1048576:
                prefs["level"] = rng.choice([0, 0, -3])
            if switching and rng.random() < 0.8:
                prefs["af"] = 0
            datakind = rng.choice(["rand", "rand", "rand", "zero", "text", "mixed"])
            bs = BS[prefs["bsid"]] if not null_prefs else 65536
            nops = rng.choice([2, 3, 4, 6, 8])
            # plan the source sizes first so that a declared content size can be right (or wrong)
            plan = []
            for i in range(nops):
                k = rng.choice(["U", "U", "U", "F", "U"] if not switching else ["U", "X", "U", "X", "F"])
                plan.append(k)
            res["stats"]["data_" + datakind] += 1
            res["stats"]["bsid_%d" % (prefs["bsid"] if not null_prefs else -1)] += 1
            want_csize = (not null_prefs) and rng.random() < 0.15
            bhow = rng.choice(["exact"] * 8 + ["below", "zero", "more"])
            if want_csize:
                prefs["csize"] = 1          # placeholder, fixed below once sizes are known
            sizes = []
            # Begin needs the final content size: choose sizes now, independent of the buffered amount,
            # then adjust them to boundaries relative to the running tmpInSize during execution
            t_est = 0
            for k in plan:
                if k in ("U", "X"):
                    n = rng.choice(src_sizes(rng, bs, t_est))
                    if bs >= 1048576 and n > bs + 1 and rng.random() < 0.7:
                        n = rng.choice([bs - t_est, bs, bs + 1, rng.randrange(0, 70000)])
                    sizes.append(n)
                    if not prefs["af"] and n >= 0:
                        t_est = (t_est + n) % bs
                    else:
                        t_est = 0
                else:
                    sizes.append(0)
                    t_est = 0
            if want_csize:
                tot = sum(sizes)
                prefs["csize"] = tot if rng.random() < 0.7 or tot == 0 else tot + rng.choice([-1, 1, 5])
                if prefs["csize"] <= 0:
                    prefs["csize"] = tot + 1
            cr, ms0 = s.op("B", cap=s.capacity(rng, "B", 0, bhow), prefs=prefs, null_prefs=null_prefs)
            if cr[0] != "ok":
                if bhow == "exact" or bhow == "more":
                    s.fail("prop_fail", "compressBegin failed (error %d) with %s capacity" % (cr[1], bhow))
                # the context keeps its previous state; go on with it only if a frame is open
                if s.cp is None or s.mstate()["stage"] != 1:
                    continue
            stable = rng.choice([0, 0, 1])
            for k, n in zip(plan, sizes):
                ms = s.mstate()
                if k in ("U", "X"):
                    if k == "X" and ms["linked"]:
                        k = "U"
                    mode_switch = ms["tmpin"] > 0 and ms["unc"] != (1 if k == "X" else 0)
                    hows = ["bound"] * 6 + ["below", "internal", "internal-1", "n", "zero", "more", "small"]
                    if mode_switch:
                        hows += ["switch-exact", "switch-1", "t+8", "t+7", "bound", "bound"]
                    how = rng.choice(hows)
                    data = gen_data(rng, n, datakind)
                    cap = s.capacity(rng, k, n, how)
                    cr, ms0 = s.op(k, n=n, cap=cap, data=data, stable=stable)
                    check_fit(s, k, cr, ms0, n, cap, how)
                    res["stats"]["cap_" + how] += 1
                    if mode_switch:
                        res["stats"]["mode_switch_with_data"] += 1
                    res["stats"]["buffered_" + ("0" if ms0["tmpin"] == 0 else "1" if ms0["tmpin"] == 1 else "bs-1" if ms0["tmpin"] == ms0["mbs"] - 1 else "mid")] += 1
                else:
                    how = rng.choice(["bound"] * 4 + ["below", "t+8", "t+7", "zero", "more"])
                    cap = s.capacity(rng, "F", 0, how)
                    cr, ms0 = s.op("F", cap=cap)
                    check_fit(s, "F", cr, ms0, 0, cap, how)
            how = rng.choice(["bound"] * 5 + ["below", "end-exact", "end-1", "t+8", "t+7", "zero", "more", "small"])
            cap = s.capacity(rng, "E", 0, how)
            cr, ms0 = s.op("E", cap=cap)
            check_fit(s, "E", cr, ms0, 0, cap, how)
            if cr[0] != "ok" and rng.random() < 0.5:
                cap = s.capacity(rng, "E", 0, "bound")
                cr, ms0 = s.op("E", cap=cap)
                check_fit(s, "E", cr, ms0, 0, cap, "bound")
    finally:
        s.close()

def run_frame(st, case, res):
    rng = random.Random(case["seed"])
    lib, o = st["lib"], st["oracle"]
    for it in range(6):
        null_prefs = rng.random() < 0.15
        prefs = None if null_prefs else gen_prefs(rng)
        if prefs is not None and rng.random() < 0.3:
            prefs["csize"] = rng.choice([1, 5, 1 << 40])
        bs = BS[prefs["bsid"]] if prefs else 65536
        n = rng.choice([0, 1, 12, 13, 65535, 65536, 65537, 262144, 262145, bs - 1, bs, bs + 1, 2 * bs + 1, rng.randrange(0, 200000),
                        rng.randrange(0, 2 * bs + 2)])
        if n > 3000000 and rng.random() < 0.6:
            n = rng.randrange(0, 300000)
        datakind = rng.choice(["rand", "rand", "zero", "text", "mixed"])
        data = gen_data(rng, n, datakind)
        if prefs is not None and n > 300000:
            prefs["level"] = rng.choice([0, 0, -3])
        cp = c_prefs(prefs)
        bound = lib.F_compressFrameBound(n, cp[1])
        how = rng.choice(["bound"] * 5 + ["below", "n", "zero", "more", "half"])
        cap = {"bound": bound, "below": bound - 1, "n": n, "zero": 0, "half": bound // 2}.get(how, bound + rng.randrange(1, 100))
        dst = Buf(cap, fill=FILL)
        src = Buf(n, data=data)
        ret = lib.F_compressFrame(dst.p, cap, src.p, n, cp[1])
        cr = decode(ret)
        out = dst.bytes()
        res["evals"] += 1
        desc = {"prefs": prefs, "n": n, "cap": cap, "how": how, "data": datakind, "c": list(cr)}
        fails = res["fails"]
        if cr[0] == "ok" and cr[1] > cap:
            fails.append({"status": "prop_fail", "what": "compressFrame reported %d bytes written into a buffer of %d" % (cr[1], cap), "detail": desc})
        if cap >= bound and cr[0] != "ok":
            fails.append({"status": "prop_fail", "what": "compressFrame failed (error %d) with capacity %d >= LZ4F_compressFrameBound = %d" % (cr[1], cap, bound), "detail": desc})
        tape, parsed = [], []
        if cr[0] == "ok":
            flg = out[4]
            hs = 7 + (8 if flg & 8 else 0) + (4 if flg & 1 else 0)
            parsed, used = parse_blocks(out[hs:cr[1]], (flg >> 4) & 1, stop_at_endmark=True)
            tape = [s for (s, _) in parsed]
        r = o.ask("frame", m_prefs(prefs), str(n), str(cap), ",".join(map(str, tape)) if tape else "-").split(" ")
        mret, mext, mblocks = r[0], int(r[1]), r[2]
        want = ("ok:%d" % cr[1]) if cr[0] == "ok" else ("err:%d" % cr[1])
        if mret != want:
            fails.append({"status": "corr_fail", "what": "compressFrame: model %s, code %s" % (mret, want), "detail": desc})
        else:
            mb = [] if mblocks == "-" else [tuple(map(int, x.split(":"))) for x in mblocks.split(",")]
            if cr[0] == "ok" and [s for (_, s) in mb] != [s for (s, _) in parsed]:
                fails.append({"status": "corr_fail", "what": "compressFrame block sizes: model %s, code %s" % (mb, parsed), "detail": desc})
            if mext <= cap and out[mext:] != bytes([FILL]) * (cap - mext):
                fails.append({"status": "corr_fail", "what": "compressFrame touched the destination beyond the model's extent %d" % mext, "detail": desc})
            if cr[0] == "ok" and prefs is not None:
                want_id = lib.L.c10_optimalBSID(prefs["bsid"], n)
                got_id = (out[5] >> 4) & 7
                if got_id != (want_id if want_id else 4):
                    fails.append({"status": "corr_fail", "what": "block size ID in the header %d, LZ4F_optimalBSID %d" % (got_id, want_id), "detail": desc})
        res["keys"].add(hashlib.sha1(repr((m_prefs(prefs), n, cap, want)).encode()).hexdigest())
        res["stats"]["frame_cap_" + how] += 1
        res["stats"]["frame_ret_" + (cr[0] if cr[0] == "ok" else "err%d" % cr[1])] += 1
        dst.free(); src.free()

def run_grid(st, case, res):
    """model bound functions == C bound functions"""
    rng = random.Random(case["seed"])
    lib, o = st["lib"], st["oracle"]
    bad = 0
    for bsid in (0, 4, 5, 6, 7):
        bs = BS[bsid]
        for bchk in (0, 1):
            for cchk in (0, 1):
                for af in (0, 1, 3):
                    p = {"bsid": bsid, "linked": rng.choice([0, 1]), "cchk": cchk, "csize": rng.choice([0, 7]), "dictid": 0, "bchk": bchk, "af": af}
                    cp = c_prefs(p)
                    ns = [0, 1, 2, bs - 1, bs, bs + 1, 2 * bs - 1, 2 * bs, 2 * bs + 1, 5 * bs + 3, rng.randrange(0, 10 * bs), rng.randrange(0, 1 << 40)]
                    for n in ns:
                        pairs = [("cb", lib.F_compressBound(n, cp[1]), o.ask("cb", str(n), m_prefs(p))),
                                 ("cfb", lib.F_compressFrameBound(n, cp[1]), o.ask("cfb", str(n), m_prefs(p)))]
                        for ab in (0, 1, bs - 2, bs - 1, bs, bs + 5, rng.randrange(0, bs), U64 - 1):
                            pairs.append(("cbi ab=%d" % ab, lib.L.c10_compressBound_internal(n, cp[1], ab), o.ask("cbi", str(n), m_prefs(p), str(ab))))
                        for name, c, m in pairs:
                            res["evals"] += 1
                            if str(c) != m:
                                bad += 1
                                if bad <= 3:
                                    res["fails"].append({"status": "corr_fail", "what": "bound function %s: model %s, code %d" % (name, m, c),
                                                         "detail": {"prefs": p, "n": n}})
                        if n < (1 << 33):
                            c = lib.L.c10_optimalBSID(bsid, n)
                            m = o.ask("fprefs", m_prefs(p), str(n)).split(",")[0]
                            res["evals"] += 1
                            if str(c) != m:
                                res["fails"].append({"status": "corr_fail", "what": "optimalBSID(%d,%d): model %s, code %d" % (bsid, n, m, c), "detail": {}})
    for n in (0, 1, 65535, 65536, 65537, 1000000, rng.randrange(0, 1 << 30)):
        for name, c, m in (("cb NULL", lib.F_compressBound(n, None), o.ask("cb", str(n), "N")),
                           ("cfb NULL", lib.F_compressFrameBound(n, None), o.ask("cfb", str(n), "N")),
                           ("cbi NULL", lib.L.c10_compressBound_internal(n, None, 77), o.ask("cbi", str(n), "N", "77"))):
            res["evals"] += 1
            if str(c) != m:
                res["fails"].append({"status": "corr_fail", "what": "bound function %s(%d): model %s, code %d" % (name, n, m, c), "detail": {}})
    res["keys"].add("grid")

def run_case(st, case):
    res = {"evals": 0, "fails": [], "keys": set(), "stats": collections.Counter()}
    kind = case["kind"]
    if kind == "script":
        run_script(st, case, res)
    elif kind == "grid":
        run_grid(st, case, res)
    elif kind == "frame":
        run_frame(st, case, res)
    else:
        run_session(st, case, res)
    out = []
    for f in res["fails"][:3]:
        f["nontrivial"] = True; f["kind"] = kind
        out.append(f)
    out.append({"status": "ok", "evals": res["evals"], "keys": sorted(res["keys"])[:4000], "kind": kind,
                "stats": dict(res["stats"]), "nontrivial": False})
    return out
