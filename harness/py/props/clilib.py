"""Helpers of the C04 check: builds of the real lz4 CLI (MT and ST), the driver around the
static functions of lz4io.c, seeded file-content generators, process runners, frame parsing."""
import os, sys, glob, random, subprocess, struct, hashlib, ctypes, shutil
import vlib
from vlib import REPO, ROOT, BUILD

PROG_TUS = ["bench.c", "lorem.c", "lz4cli.c", "lz4io.c", "threadpool.c", "timefn.c", "util.c"]
LIB_TUS = ["lz4.c", "lz4hc.c", "lz4frame.c", "xxhash.c", "lz4file.c"]
KB, MB, GB = 1 << 10, 1 << 20, 1 << 30

def build_cli(mt, tag=""):
    """the real CLI, compiled like programs/Makefile does (MT is the default of `make`)"""
    srcs = [os.path.join(REPO, "programs", t) for t in PROG_TUS] + [os.path.join(REPO, "lib", t) for t in LIB_TUS]
    return vlib.build_exe("lz4_%s%s" % ("mt" if mt else "st", tag), srcs,
                          flags=["-DXXH_NAMESPACE=LZ4_", "-DLZ4IO_MULTITHREAD=%d" % (1 if mt else 0)], opt="-O2")

def build_drv():
    """harness/c/cli_drv.c #includes programs/lz4io.c (static functions: LZ4IO_fwriteSparse, LZ4IO_fwriteSparseEnd)"""
    drv = os.path.join(ROOT, "harness", "c", "cli_drv.c")
    srcs = [drv] + [os.path.join(REPO, "programs", t) for t in ("threadpool.c", "timefn.c", "util.c")] + \
           [os.path.join(REPO, "lib", t) for t in LIB_TUS]
    return vlib.build_exe("cli_drv", srcs, flags=["-DXXH_NAMESPACE=LZ4_", "-DLZ4IO_MULTITHREAD=1"], opt="-O1")

def build_declib():
    """non-ASan liblz4 used only to measure the decoded size of single blocks when parsing frames"""
    return vlib.build_lib("cli_plain", asan=False, opt="-O2")

# ------------------------------------------------------------------ contents
WORDS = None
def _words(rng):
    return [bytes(rng.choice(b"abcdefghijklmnopqrstuvwxyzETAOIN") for _ in range(rng.randrange(1, 11))) for _ in range(600)]

def content(kind, n, seed):
    """file content of exactly n bytes; every byte is a function of (kind, n, seed)"""
    rng = random.Random("%s/%d/%d" % (kind, n, seed))
    if n == 0:
        return b""
    if kind == "random":
        return rng.randbytes(n)
    if kind == "zeros":
        return bytes(n)
    if kind == "text":
        ws = _words(rng)
        out = bytearray()
        # build ~64 KB of prose then repeat paragraphs with edits: cheap to generate, compressible, with long-range matches
        while len(out) < min(n, rng.choice([3000, 20000, 20000, 200000])):
            out += rng.choice(ws) + rng.choice([b" ", b" ", b" ", b", ", b". ", b"\n"])
        base = bytes(out)
        while len(out) < n:
            s = rng.randrange(0, len(base))
            out += base[s:s + rng.randrange(20, 30000)]
            out += rng.choice(ws)
        return bytes(out[:n])
    if kind == "zerorich":
        # runs of zeros whose lengths sit around the word (8) and segment (32 KB) sizes of LZ4IO_fwriteSparse,
        # separated by short data; the file may start and end inside a zero run
        out = bytearray()
        lens = [1, 7, 8, 9, 15, 16, 17, 4095, 4096, 32760, 32767, 32768, 32769, 32776, 65536, 65543, 100000, 1 << 20]
        if rng.random() < 0.5:
            out += rng.randbytes(rng.choice([1, 3, 8, 13]))
        while len(out) < n:
            out += bytes(rng.choice(lens))
            if rng.random() < 0.15:
                out += bytes(rng.randrange(0, 3 * MB))
            out += rng.randbytes(rng.choice([1, 1, 2, 7, 8, 9, 64, 1000])) if rng.random() < 0.9 else b""
        out = out[:n]
        if rng.random() < 0.5 and n > 0:      # force a zero tail (exercises LZ4IO_fwriteSparseEnd)
            k = min(n, rng.choice([1, 5, 8, 4096, 32768, 70001]))
            out[n - k:] = bytes(k)
        return bytes(out)
    if kind == "mixed":
        out = bytearray()
        while len(out) < n:
            k = rng.choice(["random", "text", "zeros", "zerorich"])
            m = min(n - len(out), rng.choice([1, 100, 4096, 65536, 300000, 1 << 20]))
            out += content(k, m, rng.randrange(1 << 30))
        return bytes(out[:n])
    raise ValueError(kind)

# ------------------------------------------------------------------ running the binaries
def run(argv, stdin_bytes=None, stdin_file=None, stdout_file=None, env_extra=None, timeout=280, pipe_out=False):
    """returns (exit code, stdout bytes or None, stderr text)"""
    env = dict(os.environ)
    env.pop("LD_PRELOAD", None)
    for k in ("LZ4_NBWORKERS", "LZ4_CLEVEL"):
        env.pop(k, None)
    if env_extra:
        env.update(env_extra)
    fin = fout = None
    try:
        if stdin_file is not None:
            fin = open(stdin_file, "rb")
        if stdout_file is not None:
            fout = open(stdout_file, "wb")
        p = subprocess.Popen(argv, stdin=(fin if fin else (subprocess.PIPE if stdin_bytes is not None else subprocess.DEVNULL)),
                             stdout=(fout if fout else (subprocess.PIPE if pipe_out else subprocess.DEVNULL)),
                             stderr=subprocess.PIPE, env=env)
        try:
            out, err = p.communicate(input=stdin_bytes if fin is None else None, timeout=timeout)
        except subprocess.TimeoutExpired:
            p.kill()
            out, err = p.communicate()
            return -999, out, "TIMEOUT after %ds: %s" % (timeout, err.decode("utf-8", "replace")[-500:])
        return p.returncode, out, err.decode("utf-8", "replace")
    finally:
        if fin: fin.close()
        if fout: fout.close()

def rd(path):
    with open(path, "rb") as f:
        return f.read()
def wr(path, b):
    with open(path, "wb") as f:
        f.write(b)
def sha(b):
    return hashlib.sha1(b).hexdigest()[:16]

# ------------------------------------------------------------------ frame parsing (layout of real outputs)
class PlainLib:
    def __init__(self, path):
        L = ctypes.CDLL(path)
        self.dec = L.LZ4_decompress_safe_usingDict
        self.dec.restype = ctypes.c_int
        self.dec.argtypes = [ctypes.c_char_p, ctypes.c_void_p, ctypes.c_int, ctypes.c_int, ctypes.c_char_p, ctypes.c_int]
        self.buf = ctypes.create_string_buffer(8 * MB + 16)
        self.xxh = L.LZ4_XXH32
        self.xxh.restype = ctypes.c_uint
        self.xxh.argtypes = [ctypes.c_char_p, ctypes.c_size_t, ctypes.c_uint]
    def xxh32(self, b):
        return self.xxh(b, len(b), 0)
    def block_size(self, blk, hist):
        r = self.dec(blk, self.buf, len(blk), 8 * MB, hist, len(hist))
        return r

BSID = {4: 64 * KB, 5: 256 * KB, 6: MB, 7: 4 * MB}

def parse_frame(lib, F, content, dict_=b""):
    """walk ONE lz4 frame produced by the CLI; returns dict(desc..., blocks=[decoded size of each data block]).
    `content` is the (already verified) decoded content: it supplies the history of linked blocks."""
    if len(F) < 7 or struct.unpack_from("<I", F, 0)[0] != 0x184D2204:
        return None
    flg, bd = F[4], F[5]
    d = {"indep": (flg >> 5) & 1, "bcrc": (flg >> 4) & 1, "csize": None, "ccrc": (flg >> 2) & 1, "dictid": None, "bsid": (bd >> 4) & 7}
    p = 6
    if (flg >> 3) & 1:
        d["csize"] = struct.unpack_from("<Q", F, p)[0]; p += 8
    if flg & 1:
        d["dictid"] = struct.unpack_from("<I", F, p)[0]; p += 4
    crc_ok, crc_what = True, ""
    if ((lib.xxh32(F[4:p]) >> 8) & 0xFF) != F[p]:
        crc_ok, crc_what = False, "header checksum"
    p += 1
    blocks, raw = [], []
    off = 0
    while True:
        if p + 4 > len(F):
            return None
        w = struct.unpack_from("<I", F, p)[0]; p += 4
        if w == 0:
            break
        n = w & 0x7FFFFFFF
        data = F[p:p + n]; p += n
        if d["bcrc"]:
            if p + 4 > len(F) or struct.unpack_from("<I", F, p)[0] != lib.xxh32(data):
                crc_ok, crc_what = False, "block checksum of block %d" % len(blocks)
            p += 4
        if w >> 31:
            sz = n
        else:
            hist = dict_[-65536:] if d["indep"] else (dict_ + content[:off])[-65536:]
            sz = lib.block_size(data, hist)
            if sz < 0:
                return None
        raw.append(w >> 31)
        blocks.append(sz); off += sz
    if d["ccrc"]:
        if p + 4 > len(F) or struct.unpack_from("<I", F, p)[0] != lib.xxh32(content):
            crc_ok, crc_what = False, "content checksum"
        p += 4
    d["crc_ok"], d["crc_what"] = crc_ok, crc_what
    d["blocks"] = blocks
    d["raw"] = raw
    d["end"] = p
    return d

def parse_legacy(lib, F):
    if len(F) < 4 or struct.unpack_from("<I", F, 0)[0] != 0x184C2102:
        return None
    p = 4
    blocks = []
    while p < len(F):
        n = struct.unpack_from("<I", F, p)[0]; p += 4
        sz = lib.block_size(F[p:p + n], b"")
        if sz < 0:
            return None
        blocks.append(sz); p += n
    return {"blocks": blocks, "end": p}
