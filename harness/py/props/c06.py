"""C06 - compressed blocks conform to the block format specification (independent strict decoder)."""
import random
import gens, blk, compcases as cc
from capi import Lib, Buf
from ctypes import c_int, byref

THEOREMS = ["C06_fast_generic_strict", "C06_fast_extState_strict", "C06_fastReset_history_strict", "C06_destSize_strict", "C06_hc_mid_strict", "C06_hc_mid_destSize_strict", "C06_hc_chain_strict", "C06_hc_opt_strict", "C06_hc_chain_destSize_strict", "C06_hc_opt_destSize_strict"]
CORRESPONDENCE = [cc.MID_CORR, cc.CHAIN_CORR, cc.CHAIN_SEARCH_CORR, cc.CHAIN_DICT_CORR,
                  "Model.FastApi one-shot entry points == liblz4 (bytes, return value, context) on the same cases"]
ORACLES = ["block", "mid", "chain"]
RULE = ("every successful output of {default, fast, extState, fastReset history, destSize, HC one-shot levels 1..12 (+favorDecSpeed), HC destSize, "
        "fast_continue and HC_continue on contiguous streams (history = previous blocks)} x capacity {bound, bound-1, n, n/2, random} is given to the decoder "
        "extracted from the Coq block specification WITH the end-of-block restrictions (strict_valid) and the right history; "
        "non-trivial = block with >= 1 match; distinct = distinct (input, entry point, parameter, capacity)")
TRUSTED = ["Spec/BlockSpec.v renders doc/lz4_Block_format.md (offset range, history reach, last 5 literals, last match >= 12 bytes from the end)",
           "HC levels 1-2 (LZ4MID), 3-9 (hash chain) and 10-12 (optimal parser) one-shot entry points are modelled and tied; the streaming variants: direct oracle only (streaming/dictionary theorems: C11/C12)"]
ASSUMPTIONS = ["64-bit little-endian target"]

def build(tier):
    from vlib import build_lib
    return {"lib": build_lib("default"), "midstate": cc.midstate_lib(), "chainstate": cc.chainstate_lib()}

def gen_cases(tier, seed):
    rng = random.Random(seed * 31 + 6)
    n = {"quick": 64, "search": 256, "thorough": 600}[tier]
    cases = [{"bseed": rng.randrange(1 << 48), "count": 20, "maxn": 70000 if i % 5 == 0 else 4000} for i in range(n)]
    # end-of-block restrictions: inputs whose last possible match start carries competing candidates, every compressor
    cases += [{"bseed": rng.randrange(1 << 48), "count": 6, "mode": "endgame"} for i in range({"quick": 6, "search": 24, "thorough": 60}[tier])]
    # window edge: a segment on the very first byte of the input repeated at distance 65535 / 65536 / 65537, every HC strategy
    cases += [{"bseed": rng.randrange(1 << 48), "count": 2, "mode": "faredge"} for i in range({"quick": 4, "search": 12, "thorough": 30}[tier])]
    cases += cc.mid_gen_cases(rng, tier, 0.5)
    cases += cc.chain_gen_cases(rng, tier, 0.5)
    return cases

def worker_init(ctx):
    return cc.chain_worker(cc.mid_worker(blk.worker_init(ctx), ctx), ctx)

def strict(st, hist, out, src):
    a = st["oracle"].ask("strict", blk.hx(hist[-65536:]) if hist else "-", blk.hx(out))
    want = "ok %d %s" % (len(src), blk.md5(src))
    return None if a == want else "strict specification decoder says %s, expected %s" % (a, want)

def one(st, rng, res, info, maxn):
    lib = st["lib"]
    kind = rng.choice(gens.KINDS)
    n = gens.size(rng, maxn)
    fam = rng.choice(["fast", "fast", "hc", "hc", "dest", "hcdest", "stream", "hcstream", "hist", "save", "hcsave"])
    if maxn >= 20000 and fam in ("fast", "hc", "hcdest") and rng.random() < 0.6:
        # window-edge inputs (> 64 KB, repeats at distances 65533..65540, also from the very first byte): an offset of
        # 65536 is written as 0, which the format excludes (seeded C06_5 / C01_5)
        kind = rng.choice(gens.FAR_KINDS); n = rng.choice([65536 + 40, 66000, 70000])
    src = gens.data(rng, kind, n)
    b = cc.bound(n)
    cap = rng.choice([b, b, b + 1, max(0, b - 1), n, n // 2 + 8, rng.randrange(0, b + 2)])
    info = dict(info, dkind=kind, n=n, cap=cap, fam=fam)
    def fail(what, **kw):
        res["fails"].append({"status": "prop_fail", "what": what, "detail": dict(info, **kw)})
    if fam == "fast":
        v = rng.choice(["default", "fast", "ext"]); p = rng.choice(cc.ACCELS)
        r, out = cc.run_fast(st, v, src, cap, p, res, dict(info, junk=rng.randrange(1 << 30)))
        if r > 0:
            e = strict(st, b"", out, src)
            if e: fail("%s: %s" % (v, e), accel=p, src=src.hex() if n < 300 else None, out=out.hex() if r < 300 else None)
            if blk.nontrivial_block(out): res["keys"].add(cc.key_of(src, v, p, cap))
    elif fam == "hc":
        v = rng.choice(["hc", "hc_ext", "hc_fr", "hc_fr_fav"]); p = rng.choice(cc.LEVELS)
        r, out = cc.run_hc(st, v, src, cap, p, res, dict(info, junk=rng.randrange(1 << 30)))
        if r > 0:
            e = strict(st, b"", out, src)
            if e: fail("%s level %d: %s" % (v, p, e), src=src.hex() if n < 300 else None, out=out.hex() if r < 300 else None)
            if blk.nontrivial_block(out): res["keys"].add(cc.key_of(src, v, p, cap))
    elif fam in ("dest", "hcdest"):
        target = rng.choice([max(1, cap), max(1, n // 3), rng.randrange(1, b + 2), 1, 5, 12, 13, 20])
        lvl = rng.choice(cc.LEVELS)
        r, consumed, out = cc.run_destsize(st, "fast" if fam == "dest" else "hc", src, target, lvl, res, dict(info, junk=rng.randrange(1 << 30)))
        if r > 0:
            e = strict(st, b"", out, src[:consumed])
            if e: fail("%s target %d: %s" % (fam, target, e), level=lvl, consumed=consumed, src=src.hex() if n < 300 else None, out=out.hex() if r < 300 else None)
            if blk.nontrivial_block(out): res["keys"].add(cc.key_of(src, fam, lvl, target))
    elif fam == "hist":
        k = rng.choice([2, 3, 4])
        srcs = [gens.data(rng, rng.choice(gens.KINDS), rng.choice([10, 200, 3000, 4095, 5000])) for _ in range(k)]
        params = [(rng.choice([cc.bound(len(x)), len(x) // 2 + 8]), rng.choice(cc.ACCELS)) for x in srcs]
        outs = cc.run_fr_history(st, srcs, params, res, dict(info, junk=rng.randrange(1 << 30)))
        for x, pr, (r, out) in zip(srcs, params, outs):
            if r > 0:
                e = strict(st, b"", out, x)
                if e: fail("fastReset history: %s" % e, sizes=[len(y) for y in srcs])
                if blk.nontrivial_block(out): res["keys"].add(cc.key_of(x, "fr", pr[1], pr[0]))
    elif fam in ("save", "hcsave"):
        # block A, then LZ4_saveDict / LZ4_saveDictHC of a (possibly partial) dictionary into a work buffer, then block B
        # placed right after the saved dictionary and sharing content with A: B must decode against exactly the saved bytes
        hc = fam == "hcsave"
        a_len = rng.choice([100, 1000, 5000, 70000]); b_len = rng.choice([50, 500, 4000])
        A = gens.data(rng, rng.choice(["text", "selfdict", "random", "period"]), a_len)
        B = bytearray(gens.data(rng, "random", b_len))
        for _ in range(rng.choice([1, 3, 6])):           # B repeats content from all over A (old and recent)
            l = rng.choice([8, 20, 64]); sa = rng.randrange(0, max(1, a_len - l)); sb = rng.randrange(0, max(1, b_len - l))
            B[sb:sb + l] = A[sa:sa + l]
        B = bytes(B[:b_len])
        dsz = rng.choice([0, 3, 4, 64, 1000, 65536, 70000, a_len, max(0, a_len - 1)])
        work = Buf(max(dsz, 70000, a_len) + b_len + 16, fill=0x77)
        inplace = rng.random() < 0.5        # the usual single-work-buffer pattern: A itself lives at the start of `work`
        if inplace:
            work.write(0, A)
            class _V: pass
            abuf = _V(); abuf.p = work.p; abuf.free = lambda: None
        else:
            abuf = Buf(a_len, data=A)
        if hc:
            stb = blk.junk_state(lib, "hc", rng.randrange(1 << 30)); lib.initStreamHC(stb.p, stb.n)
            lib.setCompressionLevel(stb.p, rng.choice(cc.LEVELS))
        else:
            stb = blk.junk_state(lib, "fast", rng.randrange(1 << 30)); lib.initStream(stb.p, stb.n)
        d = Buf(cc.bound(a_len))
        r = (lib.compress_HC_continue(stb.p, abuf.p, d.p, a_len, d.n) if hc else lib.compress_fast_continue(stb.p, abuf.p, d.p, a_len, d.n, 1))
        res["evals"] += 1
        outA = d.bytes(max(r, 0)); d.free()
        if r <= 0 or strict(st, b"", outA, A):
            fail("%s: first block failed or is not strictly valid" % fam)
        else:
            saved = (lib.saveDictHC if hc else lib.saveDict)(stb.p, work.p, dsz)
            if saved < 0 or saved > min(dsz, 65536, a_len):
                fail("%s returned %d for dictSize %d after a block of %d bytes" % ("LZ4_saveDictHC" if hc else "LZ4_saveDict", saved, dsz, a_len))
            else:
                if work.bytes(saved) != A[a_len - saved:]:
                    fail("saved dictionary is not the last %d bytes of the previous block" % saved)
                work.write(saved, B)
                c2 = cc.bound(b_len); d2 = Buf(c2, fill=0xC3)
                r2 = (lib.compress_HC_continue(stb.p, (work.p or 0) + saved, d2.p, b_len, c2) if hc
                      else lib.compress_fast_continue(stb.p, (work.p or 0) + saved, d2.p, b_len, c2, 1))
                res["evals"] += 1
                outB = d2.bytes(max(r2, 0)); d2.free()
                if r2 <= 0:
                    fail("%s: block after saveDict failed at bound capacity" % fam)
                else:
                    e = strict(st, A[a_len - saved:], outB, B)
                    if e: fail("%s: block compressed after saving %d of %d bytes of history: %s" % (fam, saved, a_len, e), dsz=dsz)
                    if blk.nontrivial_block(outB): res["keys"].add(cc.key_of(B, fam, dsz, saved))
        abuf.free(); work.free(); stb.free()
    else:
        # contiguous streaming: blocks laid out one after the other in one buffer
        hc = fam == "hcstream"
        nb = rng.choice([2, 3, 5])
        sizes = [rng.choice([0, 1, 12, 13, 100, 1000, 5000, 30000, 66000]) for _ in range(nb)]
        data = gens.data(rng, rng.choice(["selfdict", "text", "period", "mixed", "runs"]), sum(sizes))
        whole = Buf(len(data), data=data)
        if hc:
            stb = blk.junk_state(lib, "hc", rng.randrange(1 << 30)); lib.initStreamHC(stb.p, stb.n)
            lib.setCompressionLevel(stb.p, rng.choice(cc.LEVELS))
        else:
            stb = blk.junk_state(lib, "fast", rng.randrange(1 << 30)); lib.initStream(stb.p, stb.n)
        pos = 0
        for sz in sizes:
            bb = cc.bound(sz); c2 = rng.choice([bb, bb, max(0, bb - 1), sz // 2 + 8])
            dst = Buf(max(c2, 0), fill=0xC3)
            if hc:
                r = lib.compress_HC_continue(stb.p, (whole.p or 0) + pos, dst.p, sz, c2)
            else:
                r = lib.compress_fast_continue(stb.p, (whole.p or 0) + pos, dst.p, sz, c2, rng.choice(cc.ACCELS))
            res["evals"] += 1
            if r < 0 or r > c2:
                fail("%s returned %d with capacity %d" % (fam, r, c2), sizes=sizes)
            if r <= 0:
                dst.free(); break          # after a failure the stream must be reset: stop this stream
            out = dst.bytes(r); dst.free()
            e = strict(st, data[:pos], out, data[pos:pos + sz])
            if e: fail("%s block at %d: %s" % (fam, pos, e), sizes=sizes)
            if blk.nontrivial_block(out): res["keys"].add(cc.key_of(data[pos:pos + sz], fam, pos, c2))
            pos += sz
        whole.free(); stb.free()
    res["stats"]["fam_" + fam] += 1
    res["stats"]["size_" + ("0-20" if n <= 20 else "21-4095" if n < 4096 else "4K-64K" if n < 65536 else ">=64K")] += 1

def mid_judge(st):
    def judge(kind, src, cap, r, consumed, out):
        if r > 0:
            return strict(st, b"", out, src[:consumed])
        return None
    return judge

def chain_judge(st):
    def judge(kind, src, cap, level, r, consumed, out):
        if r > 0:
            return strict(st, b"", out, src[:consumed])
        return None
    return judge

def run_case(st, case):
    if case.get("mode") == "hcmid":
        return cc.run_mid_case(st, case, mid_judge(st))
    if case.get("mode") == "hcchain":
        return cc.run_chain_case(st, case, chain_judge(st))
    rng = random.Random(case["bseed"])
    res = cc.new_res()
    if case.get("mode") == "faredge":
        for j in range(case["count"]):
            D = rng.choice([65535, 65536, 65536, 65537])
            src = gens.distbound_at_start(rng, D)
            n = len(src); b = cc.bound(n)
            info = {"bseed": case["bseed"], "j": j, "dkind": "faredge", "n": n, "D": D}
            for p in (2, 3, 4, 9, 10, 12):
                r, out = cc.run_hc(st, rng.choice(["hc", "hc_ext", "hc_fr"]), src, b, p, res, dict(info, junk=rng.randrange(1 << 30)))
                e = strict(st, b"", out, src) if r > 0 else "returned %d with capacity = bound" % r
                if e:
                    res["fails"].append({"status": "prop_fail", "what": "hc level %d, segment at distance %d from the first byte: %s" % (p, D, e[:300]), "detail": info})
                elif blk.nontrivial_block(out): res["keys"].add(cc.key_of(src, "hc", p, b))
            r, out = cc.run_fast(st, "default", src, b, 1, res, dict(info, junk=rng.randrange(1 << 30)))
            e = strict(st, b"", out, src) if r > 0 else "returned %d with capacity = bound" % r
            if e:
                res["fails"].append({"status": "prop_fail", "what": "fast, segment at distance %d from the first byte: %s" % (D, e[:300]), "detail": info})
        return cc.finish(res, "faredge")
    if case.get("mode") == "endgame":
        for j in range(case["count"]):
            n = rng.choice([48, 59, 64, 100, 300, 1000])
            src = gens.data(rng, "endgame", n)
            info = {"bseed": case["bseed"], "j": j, "dkind": "endgame", "n": n}
            b = cc.bound(n)
            for p in (1, 2, 3, 4, 9, 10, 12):
                r, out = cc.run_hc(st, rng.choice(["hc", "hc_ext", "hc_fr"]), src, b, p, res, dict(info, junk=rng.randrange(1 << 30)))
                e = strict(st, b"", out, src) if r > 0 else "returned %d with capacity = bound" % r
                if e:
                    res["fails"].append({"status": "prop_fail", "what": "hc level %d: %s" % (p, e), "detail": dict(info, src=src.hex() if n < 400 else None, out=out.hex() if 0 < r < 400 else None)})
                elif blk.nontrivial_block(out): res["keys"].add(cc.key_of(src, "hc", p, b))
            for acc in (1, 7):
                r, out = cc.run_fast(st, rng.choice(["default", "fast", "ext"]), src, b, acc, res, dict(info, junk=rng.randrange(1 << 30)))
                e = strict(st, b"", out, src) if r > 0 else "returned %d with capacity = bound" % r
                if e:
                    res["fails"].append({"status": "prop_fail", "what": "fast accel %d: %s" % (acc, e), "detail": dict(info, src=src.hex() if n < 400 else None)})
                elif blk.nontrivial_block(out): res["keys"].add(cc.key_of(src, "fast", acc, b))
        return cc.finish(res, "endgame")
    for j in range(case["count"]):
        one(st, rng, res, {"bseed": case["bseed"], "j": j}, case["maxn"])
    return cc.finish(res, "mix")
