"""C15 - `lz4 -d` decodes any concatenation of LZ4, legacy and skippable frames.
Theorem side: Properties_C15.v (C15_st_concat, C15_legacy_magic_gap, C15_mt_concat_partial, C15_mt_refuted).
Direct oracle on the real binaries (ST and MT builds): exit 0 and output == concatenation of the
contents known by construction (and == Spec.stream_decode of the bytes), for file / pipe / seekable stdin
and -d / -t / -dc / -m.  Tie: the extracted Io model (ST model vs ST binary, MT model vs MT binary)
predicts exit status and output on the same bytes and seekable flag."""
import random, itertools, collections, os, hashlib
import iolib
from iolib import RunDir, run_cli, sig
from vlib import Oracle, hx, md5

THEOREMS = ["C15_legacy_magic_gap", "C15_st_concat", "C15_mt_concat_partial", "C15_mt_refuted"]
CORRESPONDENCE = ["Io.decompress (ST model) == lz4 -d of the ST build: exit status, output bytes (file and pipe input)",
                  "Io.decompress (MT model) == lz4 -d of the MT build: exit status, output bytes (file and pipe input)"]
RULE = ("streams = sequences over {LZ4 frame from an own frame writer over sequence-built/raw blocks with random options, LZ4 frame made by "
        "the lz4 tool (volume), legacy frame with 0..3 blocks, skippable frame of any of the 16 magics and sizes 0..20000}, length <= 6; "
        "all orders up to length 2 (quick) / 4 (thorough) plus random longer ones; x {ST, MT} x {file, pipe, seekable stdin} x {-d, -t, -dc, -m}. "
        "non-trivial = at least 2 frames; distinct = distinct (stream bytes) hashes")
TRUSTED = ["hand-written model Model/Io.v of lz4io.c's decode control flow (selectDecoder, legacy loop, skippable handling, ST/MT LZ4F loops), tied by "
           "differential runs against both real binaries",
           "library decoders (LZ4F_decompress, LZ4_decompress_safe) enter the model as section variables specified by Spec.FrameSpec.frame_decode / "
           "Spec.BlockSpec.spec_decode (their correctness is C05/C08)"]
ASSUMPTIONS = ["a valid legacy block has a compressed size <= LZ4_COMPRESSBOUND(8 MB) (what the reference decoder requires)",
               "LZ4F_decompress never asks for bytes beyond the end of the current frame (ST loop reads exactly the frame)"]
ORACLES = ["block", "io"]

def build(tier):
    ctx = iolib.build_bins()
    ctx["asan"] = False
    ctx["case_timeout"] = 600
    return ctx

def gen_cases(tier, seed):
    rng = random.Random(seed)
    cases = []
    # F21 (repaired in /repo, b4823ff): LZ4F's hint counted the block checksum twice; the single-thread loop then read 4 bytes
    # beyond a frame with block checksums and without content checksum and dropped them: the next frame was lost
    first = [{"kinds": "LL", "sseed": 2100 + i, "kind": "f21", "bs": bs} for i, bs in enumerate(("-B7", "-B4"))]
    # fixed corpus: the F4 witness and its neighbours
    for kinds in ["LG", "GL", "LSG", "SLG", "GLG", "LS", "SLS", "G", "L", "S", "LLL", "GGG"]:
        cases.append({"kinds": kinds, "sseed": 1000 + len(cases), "kind": "corpus"})
    maxall = {"quick": 2, "search": 3, "thorough": 4}[tier]
    for l in range(0, maxall + 1):
        for t in itertools.product("LGS", repeat=l):
            cases.append({"kinds": "".join(t), "sseed": rng.randrange(1 << 48), "kind": "allorders"})
    # sizes aimed at the readers' buffer arithmetic: what follows the first LZ4 magic is a whole number of 4 MB
    # read units (+-1), and legacy blocks that do not shrink (stored size = compressBound(8 MB) > 8 MB)
    pads = [(1, 0), (2, 0), (1, -1), (1, 1)] if tier == "quick" else [(k, d) for k in (1, 2, 3) for d in (-1, 0, 1)]
    for (k, d) in pads:
        cases.append({"kinds": "LS", "sseed": rng.randrange(1 << 48), "kind": "pad4m", "k": k, "delta": d, "lead": ""})
    cases.append({"kinds": "GLS", "sseed": rng.randrange(1 << 48), "kind": "pad4m", "k": 1, "delta": 0, "lead": "G"})
    for extra in ([1000] if tier == "quick" else [0, 1000, (8 << 20) + 5]):
        cases.append({"kinds": "G", "sseed": rng.randrange(1 << 48), "kind": "legbig", "extra": extra, "tail": ""})
    cases.append({"kinds": "GGSL", "sseed": rng.randrange(1 << 48), "kind": "legbig", "extra": 777, "tail": "GSL"})
    nrand = {"quick": 30, "search": 150, "thorough": 250}[tier]
    for _ in range(nrand):
        l = rng.choice([3, 3, 4, 5, 6])
        cases.append({"kinds": "".join(rng.choice("LLGGSST") for _ in range(l)), "sseed": rng.randrange(1 << 48), "kind": "random"})
    return first + cases

def worker_init(ctx):
    st = {"ctx": ctx, "spec": Oracle(name="block"), "rd": RunDir("c15")}
    try:
        st["io"] = Oracle(name="io")
    except Exception:
        st["io"] = None
    return st

def model_run(io, build, data, seekable, test=False):
    """extracted Io model: (exit code, (len, md5) of the bytes written, removed?)"""
    r = io.ask("dec", build, "1" if seekable else "0", "1" if test else "0", "0", "-", hx(data))
    t = r.split()
    if t[0] != "exit":
        raise RuntimeError("io oracle: " + r[:300])
    return int(t[1]), (int(t[2]), t[3]), t[4] == "1"

def run_case(st, case):
    rng = random.Random(case["sseed"])
    ctx = st["ctx"]; rd = st["rd"]
    kinds = case["kinds"]
    res = {"evals": 0, "fails": [], "stats": collections.Counter()}
    if case["kind"] == "pad4m":
        # [lead frames] LZ4 frame, then one skippable frame sized so that the bytes after the LZ4 magic number
        # number exactly k * 4 MB + delta
        lead = iolib.build_stream(rng, case["lead"], lz4tool=ctx["ST"]) if case["lead"] else {"data": b"", "content": b""}
        base = iolib.build_stream(rng, "L", lz4tool=ctx["ST"])
        pay = 4 + case["k"] * (4 << 20) + case["delta"] - len(base["data"]) - 8
        skip = iolib.le32(0x184D2A50 + rng.randrange(16)) + iolib.le32(pay) + rng.randbytes(pay)
        s = {"data": lead["data"] + base["data"] + skip, "content": lead["content"] + base["content"]}
    elif case["kind"] == "f21":
        data = b""; content = b""
        for n in (300000, 100000):
            raw = bytearray()
            while len(raw) < n:
                raw += rng.randbytes(200) + b"A" * 200
            raw = bytes(raw[:n])
            rc, out, err = run_cli(ctx["ST"], [case["bs"], "-BX", "--no-frame-crc", "-c", "-q"], stdin_bytes=raw)
            if rc != 0:
                raise RuntimeError("lz4 failed to compress: " + err[-200:])
            data += out; content += raw
        s = {"data": data, "content": content}
    elif case["kind"] == "legbig":
        raw = rng.randbytes((8 << 20) + case["extra"])
        rc, out, err = run_cli(ctx["ST"], ["-l", "-c"], stdin_bytes=raw)
        if rc != 0:
            return [{"status": "prop_fail", "what": "lz4 -l exits %d on %d incompressible bytes" % (rc, len(raw)), "kind": case["kind"],
                     "nontrivial": True, "detail": {"stderr": err[-300:], "sseed": case["sseed"], "extra": case["extra"]}}]
        tail = iolib.build_stream(rng, case["tail"], lz4tool=ctx["ST"]) if case["tail"] else {"data": b"", "content": b""}
        s = {"data": out + tail["data"], "content": raw + tail["content"]}
    else:
        s = iolib.build_stream(rng, kinds, lz4tool=ctx["ST"])
    data, content = s["data"], s["content"]
    other = iolib.build_stream(rng, rng.choice(["L", "G", "SL", "LL"]), lz4tool=ctx["ST"])
    exp = sig(content)
    f4 = iolib.legacy_after_lz4(kinds)
    res["stats"]["frames_%d" % len(kinds)] += 1
    for k in kinds:
        res["stats"]["frame_" + k] += 1
    res["stats"]["f4_class" if f4 else "non_f4"] += 1
    # the generator's claim, judged by the specification layer
    sp = iolib.spec_stream(st["spec"], data) if len(data) < 400000 else exp
    if sp != exp:
        res["fails"].append({"status": "harness_error", "what": "Spec.stream_decode disagrees with the content known by construction",
                             "detail": {"kinds": kinds, "spec": sp, "expected": exp, "data": data.hex()[:4000]}})
    def fail(build, mode, what, rc, err, got=None):
        res["fails"].append({"status": "prop_fail", "what": "%s %s %s: %s" % (build, mode, kinds, what),
                             "detail": {"build": build, "mode": mode, "kinds": kinds, "legacy_after_lz4": f4, "rc": rc, "stderr": err[-300:],
                                        "got": got, "expected": exp, "data": data.hex() if len(data) < 3000 else "len=%d" % len(data)}})
    mcache = {}
    for build in ("ST", "MT"):
        exe = ctx[build]
        runs = []
        rd.clean()
        src = rd.write("in.lz4", data)
        # -d file -> file
        rc, out, err = run_cli(exe, ["-d", "-q", src, rd.f("out.bin")] + rng.choice([[], ["--no-sparse"]]))
        runs.append(("d_file", rc, rd.read("out.bin"), err, True))
        # -t
        rc, out, err = run_cli(exe, ["-t", "-q", src])
        runs.append(("t_file", rc, None, err, True))
        # -dc file -> stdout
        rc, out, err = run_cli(exe, ["-dc", "-q", src])
        runs.append(("dc_file", rc, out, err, True))
        # pipe -> stdout
        rc, out, err = run_cli(exe, ["-d", "-q"], stdin_bytes=data)
        runs.append(("d_pipe", rc, out, err, False))
        rc, out, err = run_cli(exe, ["-t", "-q"], stdin_bytes=data)
        runs.append(("t_pipe", rc, None, err, False))
        # seekable stdin
        rc, out, err = run_cli(exe, ["-dc", "-q"], stdin_path=src)
        runs.append(("dc_stdinfile", rc, out, err, True))
        for (mode, rc, got, err, seekable) in runs:
            res["evals"] += 1
            if rc != 0:
                fail(build, mode, "exit %d on a concatenation of valid frames" % rc, rc, err)
            elif got is not None and sig(got) != exp:
                fail(build, mode, "exit 0 but output differs from the concatenated contents", rc, err, sig(got))
            # correspondence
            if st["io"] is not None and len(data) < 150000:
                mk = (build, seekable, mode.startswith("t_"))
                if mk not in mcache:
                    mcache[mk] = model_run(st["io"], build, data, seekable, test=mode.startswith("t_"))
                mrc, mout, _ = mcache[mk]
                bad = (mrc == 0) != (rc == 0) or (mrc in iolib_exact() and mrc != rc) or \
                      (rc == 0 and got is not None and mout != sig(got))
                if bad:
                    res["fails"].append({"status": "corr_fail", "what": "%s %s %s: model exit %d / %s, binary exit %d / %s" %
                                         (build, mode, kinds, mrc, mout, rc, sig(got) if got is not None else None),
                                         "detail": {"build": build, "mode": mode, "kinds": kinds, "data": data.hex() if len(data) < 3000 else "len=%d" % len(data)}})
        # -m : two inputs, outputs next to them
        rd.clean()
        a = rd.write("a.lz4", data); b = rd.write("b.lz4", other["data"])
        rc, out, err = run_cli(exe, ["-d", "-m", "-q", a, b])
        res["evals"] += 1
        ga, gb = rd.read("a"), rd.read("b")
        if rc != 0:
            fail(build, "m_files", "exit %d on a concatenation of valid frames" % rc, rc, err)
        elif ga is None or sig(ga) != exp or gb is None or sig(gb) != sig(other["content"]):
            fail(build, "m_files", "exit 0 but outputs differ", rc, err, [ga and sig(ga), gb and sig(gb)])
        rc, out, err = run_cli(exe, ["-dc", "-m", "-q", a, b])
        res["evals"] += 1
        if rc != 0:
            fail(build, "m_stdout", "exit %d on a concatenation of valid frames" % rc, rc, err)
        elif sig(out) != sig(content + other["content"]):
            fail(build, "m_stdout", "exit 0 but output differs", rc, err, sig(out))
    rd.clean()
    out = []
    seen = set()
    for f in res["fails"]:
        key = (f["status"], f.get("detail", {}).get("build"), f["what"].split(":")[-1][:30])
        if key in seen and len(out) > 6:
            continue
        seen.add(key)
        f["nontrivial"] = True; f["kind"] = case["kind"]
        out.append(f)
    out.append({"status": "ok", "evals": res["evals"], "keys": [hashlib.sha1(data).hexdigest()] if len(kinds) >= 2 else [],
                "kind": case["kind"], "stats": dict(res["stats"]), "nontrivial": False})
    return out

def iolib_exact():
    return EXACT_CODES
# exit codes the model predicts exactly (control-flow decisions of lz4io.c itself, not of the library decoders)
EXACT_CODES = {0, 1, 36, 40, 42, 43, 44, 45, 54}

def classify(r):
    d = r.get("detail") or {}
    if d.get("build") == "MT" and d.get("legacy_after_lz4") and d.get("rc") not in (0, None):
        return "F4"
    return None
