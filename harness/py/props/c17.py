"""C17 - destSize compressors fill the budget with a decodable prefix; streams continue after
LZ4_compress_HC_continue_destSize."""
import random, ctypes
from ctypes import c_int, byref
import gens, blk, compcases as cc
from capi import Lib, Buf

THEOREMS = ["C17_target_ge_bound", "C17_target_ge_bound_contract", "C17_fast_destSize", "C17_fast_fill_generic", "C17_hc_mid_destSize_strict", "C17_hc_chain_destSize", "C17_hc_opt_destSize", "C17_hc_chain_destSize_strict", "C17_hc_opt_destSize_strict"]
CORRESPONDENCE = [cc.MID_CORR, cc.CHAIN_CORR, cc.CHAIN_SEARCH_CORR, cc.CHAIN_DICT_CORR,
                  "Model.FastApi.compress_destSize == LZ4_compress_destSize / _destSize_extState (return value, consumed size, bytes, high-water mark)"]
ORACLES = ["block", "mid", "chain"]
RULE = ("inputs from the shared structured generators; EVERY targetDstSize 1..bound+1 for inputs <= 40 bytes, targets dense around each sequence boundary "
        "of the unconstrained output and random otherwise; entry points LZ4_compress_destSize, LZ4_compress_destSize_extState (any acceleration incl. <= 0 and huge), "
        "LZ4_compress_HC_destSize levels 1..12 (mid, hash-chain, optimal parsers), LZ4_compress_HC_continue_destSize inside a stream followed by further "
        "LZ4_compress_HC_continue blocks (smaller and larger than the unconsumed remainder); destination has EXACTLY targetDstSize bytes (ASan). Oracle: 1 <= r <= target, "
        "consumed <= offered, the r bytes are strictly valid and decode (extracted specification decoder, and LZ4_decompress_safe into a buffer of exactly `consumed` bytes) "
        "to the consumed prefix, target >= bound => everything consumed, following blocks decode against the consumed history. "
        "non-trivial = 0 < consumed < offered (the budget cut the input); distinct = (input, entry, parameter, target)")
TRUSTED = ["LZ4_compress_HC_destSize at levels 1-2 (LZ4MID), 3-9 (hash chain) and 10-12 (optimal parser) is modelled and tied; LZ4_compress_HC_continue_destSize: direct oracle only"]
ASSUMPTIONS = ["64-bit little-endian target"]

def build(tier):
    from vlib import build_lib
    return {"lib": build_lib("default"), "midstate": cc.midstate_lib(), "chainstate": cc.chainstate_lib()}

def gen_cases(tier, seed):
    rng = random.Random(seed * 977 + 17)
    n = {"quick": 64, "search": 256, "thorough": 600}[tier]
    cases = [{"bseed": 0, "count": 1, "mode": "corpus"}]
    cases += [{"bseed": rng.randrange(1 << 48), "count": 5, "mode": ["small", "mid", "mid", "big", "stream", "stream", "accel"][i % 7]} for i in range(n)]
    # literal-run lengths at the 255-multiples of the length encoding, every budget around the sequence that overflows
    cases += [{"bseed": rng.randrange(1 << 48), "count": 2, "mode": "ovf255"} for i in range({"quick": 4, "search": 16, "thorough": 40}[tier])]
    cases += cc.mid_gen_cases(rng, tier, 0.5)
    cases += cc.chain_gen_cases(rng, tier, 0.5)
    return cases

def worker_init(ctx):
    return cc.chain_worker(cc.mid_worker(blk.worker_init(ctx), ctx), ctx)

def check_block(st, res, info, what, src_offered, target, r, consumed, out, hist=b""):
    """the destSize contract for one call"""
    n = len(src_offered)
    def fail(msg):
        res["fails"].append({"status": "prop_fail", "what": "%s: %s" % (what, msg),
                             "detail": dict(info, n=n, target=target, ret=r, consumed=consumed,
                                            src=src_offered.hex() if n <= 300 else "len=%d" % n, out=out.hex() if 0 < len(out) <= 300 else None)})
        return False
    if n >= 0 and target >= 1 and not (1 <= r <= target):
        return fail("returned %d for targetDstSize %d" % (r, target))
    if not (0 <= consumed <= n):
        return fail("*srcSizePtr = %d outside 0..%d" % (consumed, n))
    if target >= cc.bound(n) and consumed != n:
        return fail("target >= LZ4_compressBound but only %d of %d bytes consumed" % (consumed, n))
    want = "ok %d %s" % (consumed, blk.md5(src_offered[:consumed]))
    a = st["oracle"].ask("strict", blk.hx(hist[-65536:]) if hist else "-", blk.hx(out))
    if a != want:
        return fail("specification decoder (strict) says %s, expected %s" % (a[:60], want))
    # decode inside a buffer of exactly the consumed length
    lib = st["lib"]
    cb = Buf(len(out), data=out); db = Buf(consumed, fill=0xA5)
    if hist:
        hb = Buf(len(hist[-65536:]), data=hist[-65536:])
        rr = lib.decompress_safe_usingDict(cb.p, db.p, len(out), consumed, hb.p, hb.n); hb.free()
    else:
        rr = lib.decompress_safe(cb.p, db.p, len(out), consumed)
    got = db.bytes(consumed); cb.free(); db.free()
    if rr != consumed or got != src_offered[:consumed]:
        return fail("LZ4_decompress_safe into a buffer of exactly %d bytes returned %d" % (consumed, rr))
    return True

def dest_fast(st, rng, res, info, src, target, accel=None):
    lib, orc = st["lib"], st["oracle"]
    n = len(src)
    if accel is None:
        r, consumed, out = cc.run_destsize(st, "fast", src, target, 0, res, info)
    else:
        srcb = Buf(n, data=src); dstb = Buf(max(target, 0), fill=0xC3); sz = c_int(n)
        stb = blk.junk_state(lib, "fast", info.get("junk", 1))
        r = lib.compress_destSize_extState(stb.p, srcb.p, dstb.p, byref(sz), target, accel)
        out = dstb.bytes(r) if 0 < r <= target else b""; consumed = sz.value
        res["evals"] += 1
        m = cc.parse_model(orc.ask("destx", blk.hx(src), str(target), str(accel)))
        if (m["ret"], m["consumed"]) != (r, consumed) or (r > 0 and m["md5"] != blk.md5(out)):
            res["fails"].append({"status": "corr_fail", "what": "destSize_extState model/code disagree: model ret=%d consumed=%d, code ret=%d consumed=%d" % (m["ret"], m["consumed"], r, consumed),
                                 "detail": dict(info, target=target, accel=accel, n=n, src=src.hex() if n <= 300 else None)})
        srcb.free(); dstb.free(); stb.free()
    ok = check_block(st, res, info, "LZ4_compress_destSize%s" % ("" if accel is None else "_extState(accel=%d)" % accel), src, target, r, consumed, out)
    if 0 < consumed < n: res["keys"].add(cc.key_of(src, "dest", accel, target))
    return r, consumed

def dest_hc(st, rng, res, info, src, target, level):
    r, consumed, out = cc.run_destsize(st, "hc", src, target, level, res, dict(info, junk=rng.randrange(1 << 30)))
    check_block(st, res, info, "LZ4_compress_HC_destSize(level=%d)" % level, src, target, r, consumed, out)
    if 0 < consumed < len(src): res["keys"].add(cc.key_of(src, "hcdest", level, target))

def hc_stream(st, rng, res, info, data, first, offered, target, level, nexts, dict_=b""):
    """stream: [first block by HC_continue] ; continue_destSize(offered, target) ; further blocks from the first unconsumed byte"""
    lib = st["lib"]
    whole = Buf(len(data), data=data)
    stb = blk.junk_state(lib, "hc", rng.randrange(1 << 30)); lib.initStreamHC(stb.p, stb.n); lib.setCompressionLevel(stb.p, level)
    dstb = dbuf = None
    if dict_:
        # a prepared dictionary stream attached to the working stream (LZ4_attach_HC_dictionary): the decoder has
        # the dictionary bytes followed by everything decoded so far
        dbuf = Buf(len(dict_), data=dict_)
        dstb = blk.junk_state(lib, "hc", rng.randrange(1 << 30)); lib.initStreamHC(dstb.p, dstb.n)
        lib.setCompressionLevel(dstb.p, rng.choice([1, 2, 3, 9, 12]))
        lib.loadDictHC(dstb.p, dbuf.p, len(dict_))
        lib.attach_HC_dictionary(stb.p, dstb.p)
        first = 0
    pos = 0
    first = min(first, max(0, len(data) - 1000))
    def blockfail(msg, **kw):
        res["fails"].append({"status": "prop_fail", "what": msg, "detail": dict(info, level=level, first=first, offered=offered, target=target, nexts=nexts, dlen=len(data), **kw)})
    if first:
        d = Buf(cc.bound(first))
        r = lib.compress_HC_continue(stb.p, whole.p, d.p, first, d.n); res["evals"] += 1
        out = d.bytes(max(r, 0)); d.free()
        a = st["oracle"].ask("strict", "-", blk.hx(out))
        if r <= 0 or a != "ok %d %s" % (first, blk.md5(data[:first])):
            blockfail("first HC_continue block failed / not decodable"); whole.free(); stb.free(); return
        pos = first
    offered = min(offered, len(data) - pos)
    d = Buf(target, fill=0xC3); sz = c_int(offered)
    r = lib.compress_HC_continue_destSize(stb.p, (whole.p or 0) + pos, d.p, byref(sz), target); res["evals"] += 1
    out = d.bytes(r) if 0 < r <= target else b""; d.free()
    consumed = sz.value
    if not check_block(st, res, dict(info, level=level, first=first), "LZ4_compress_HC_continue_destSize(level=%d)" % level,
                       data[pos:pos + offered], target, r, consumed, out, hist=(dict_ + data[:pos])):
        whole.free(); stb.free(); return
    if 0 < consumed < offered: res["keys"].add(cc.key_of(data[pos:pos+offered], "hcc", level, target))
    pos += consumed
    for nb in nexts:
        nb = min(nb, len(data) - pos)
        cap = cc.bound(nb)
        d = Buf(cap, fill=0xC3)
        r = lib.compress_HC_continue(stb.p, (whole.p or 0) + pos, d.p, nb, cap); res["evals"] += 1
        out = d.bytes(max(r, 0)); d.free()
        h = (dict_ + data[:pos])[-65536:]
        a = st["oracle"].ask("strict", blk.hx(h) if h else "-", blk.hx(out))
        if r <= 0 or a != "ok %d %s" % (nb, blk.md5(data[pos:pos + nb])):
            blockfail("block of %d bytes compressed after LZ4_compress_HC_continue_destSize (which consumed %d of %d offered) does not decode against the consumed history: ret=%d, specification decoder: %s" % (nb, consumed, offered, r, a[:40]),
                      pos=pos, consumed=consumed)
            break
        res["keys"].add(cc.key_of("after", info.get("bseed"), info.get("j"), nb))
        pos += nb
    whole.free(); stb.free()
    if dstb: dstb.free(); dbuf.free()

def targets_for(st, rng, src, dense):
    lib = st["lib"]; n = len(src); b = cc.bound(n)
    if dense:
        return list(range(1, b + 2))
    srcb = Buf(n, data=src); dstb = Buf(b)
    r = lib.compress_default(srcb.p, dstb.p, n, b); full = dstb.bytes(r); srcb.free(); dstb.free()
    import c09
    pts = set([1, 2, 5, 12, 13, b - 1, b, b + 1, r - 1, r, r + 1])
    sbs = c09.seq_boundaries(full)
    for sb in rng.sample(sbs, min(5, len(sbs))):
        pts.update(range(sb - 3, sb + 12))
    pts.update(rng.randrange(1, b + 2) for _ in range(6))
    return sorted(t for t in pts if 1 <= t <= b + 1)

def mid_judge(st):
    def judge(kind, src, cap, r, consumed, out):
        if kind != "ds":
            return None
        res = cc.new_res()
        ok = check_block(st, res, {}, "LZ4_compress_HC_destSize", src, cap, r, consumed, out)
        return None if ok else res["fails"][0]["what"]
    return judge

def chain_judge(st):
    def judge(kind, src, cap, level, r, consumed, out):
        if kind != "ds":
            return None
        res = cc.new_res()
        ok = check_block(st, res, {}, "LZ4_compress_HC_destSize", src, cap, r, consumed, out)
        return None if ok else res["fails"][0]["what"]
    return judge

def run_case(st, case):
    if case.get("mode") == "hcmid":
        return cc.run_mid_case(st, case, mid_judge(st))
    if case.get("mode") == "hcchain":
        return cc.run_chain_case(st, case, chain_judge(st))
    rng = random.Random(case["bseed"])
    res = cc.new_res()
    mode = case["mode"]
    if mode == "corpus":
        # regression of the fixed findings F6 (stream continued after HC_continue_destSize) and F13 (unclamped acceleration)
        r5 = random.Random(5)
        per = r5.randbytes(5000); data = (per * 21)[:100000]
        for lvl in (2, 4, 9, 10, 12):
            hc_stream(st, rng, res, {"corpus": "F6", "bseed": 0, "j": lvl}, data, 0, 60000, 2100, lvl, [1000, 3000, 60000])
        src = (b"abcdefgh" * 40 + r5.randbytes(100)) * 3
        for acc in (0, -1, -64, 1, 0x7fffffff):
            dest_fast(st, rng, res, {"corpus": "F13", "junk": 3}, src, 200, accel=acc)
        return cc.finish(res, mode)
    for j in range(case["count"]):
        info = {"bseed": case["bseed"], "j": j, "mode": mode}
        kind = rng.choice(gens.KINDS)
        if mode == "small":
            src = gens.data(rng, kind, rng.randrange(0, 41))
            for t in targets_for(st, rng, src, True):
                dest_fast(st, rng, res, info, src, t)
            lvl = rng.choice(cc.LEVELS)
            for t in rng.sample(targets_for(st, rng, src, True), min(12, cc.bound(len(src)))):
                dest_hc(st, rng, res, info, src, t, lvl)
        elif mode in ("mid", "big"):
            n = rng.choice([100, 300, 1000, 4096, 5000]) if mode == "mid" else rng.choice([65535, 65547, 70000, 200000])
            src = gens.data(rng, kind, n)
            ts = targets_for(st, rng, src, False)
            if mode == "big": ts = rng.sample(ts, min(8, len(ts)))
            for t in ts:
                dest_fast(st, rng, res, info, src, t)
            lvl = rng.choice(cc.LEVELS)
            for t in rng.sample(ts, min(6, len(ts))):
                dest_hc(st, rng, res, info, src, t, lvl)
        elif mode == "ovf255":
            # [ll literals][match of ml bytes][tail]: ll where (ll+240)/255, (ll-15)/255 and (ll+255-15)/256 differ or step
            # (270, 525, 526, 780..782, ...), every budget from "the literals do not fit" to "everything fits", every
            # compressor (seeded C17_4: the hash-chain overflow epilogue with a /256 formula)
            ll = rng.choice([269, 270, 270, 271, 524, 525, 526, 527, 779, 780, 781, 782, 783, 1035, 1036, 14, 15, 16])
            ml = rng.choice([8, 20, 100, 100, 300]); ml = min(ml, ll)
            L = rng.randbytes(ll)
            tail = rng.randbytes(rng.choice([13, 20, 60]))
            src = L + L[:ml] + bytes([(L[ml % ll] + 1) % 256]) + tail
            lo = max(1, ll - 4); hi = ll + ll // 255 + 40
            for t in range(lo, hi):
                dest_fast(st, rng, res, info, src, t)
            for lvl in (1, 2, 3, 4, 6, 9, 10, 11, 12):
                for t in range(lo, hi):
                    dest_hc(st, rng, res, info, src, t, lvl)
        elif mode == "accel":
            src = gens.data(rng, kind, rng.choice([50, 300, 1260, 5000, 70000]))
            for _ in range(4):
                t = rng.randrange(1, cc.bound(len(src)) + 2)
                dest_fast(st, rng, res, dict(info, junk=rng.randrange(1 << 30)), src, t, accel=rng.choice([0, -1, -64, 1, 2, 8, 65537, 70000, 0x7fffffff, -2147483648]))
        else:
            dk = rng.choice(["period", "selfdict", "text", "mixed", "random"])
            data = gens.data(rng, dk, rng.choice([20000, 100000, 200000]))
            if dk == "period" or rng.random() < 0.4:
                per = rng.randbytes(rng.choice([100, 5000, 30000])); data = (per * (len(data) // len(per) + 1))[:len(data)]
            first = rng.choice([0, 0, 1000, 70000])
            offered = rng.choice([5000, 60000, 100000])
            target = rng.choice([20, 100, 2100, 5000, rng.randrange(1, 8000)])
            nexts = [rng.choice([1, 100, 1000, 3000, 60000]) for _ in range(rng.choice([1, 2, 3]))]
            dict_ = b""
            if rng.random() < 0.4:
                # attached dictionary whose content recurs in the data (both in the destSize block and after it)
                dict_ = gens.data(rng, rng.choice(["text", "random", "selfdict"]), rng.choice([100, 4000, 65536, 70000]))
                mix = bytearray(data)
                for _ in range(40):
                    l = rng.choice([16, 64, 300]); sd = rng.randrange(0, max(1, len(dict_) - l)); so = rng.randrange(0, max(1, min(len(mix), 12000) - l))
                    mix[so:so + l] = dict_[sd:sd + l]
                data = bytes(mix[:len(data)])
                offered = rng.choice([500, 2000, 4000, 5000, 60000])
            hc_stream(st, rng, res, info, data, first, offered, target, rng.choice([1, 2, 3, 4, 6, 9, 10, 11, 12]), nexts, dict_)
        res["stats"]["mode_" + mode] += 1
    return cc.finish(res, mode)
