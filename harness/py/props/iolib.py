"""CLI decode-side shared machinery (C14, C15): real lz4 binaries (ST and MT builds), the LD_PRELOAD
fault shim, stream builders that do not rely on lz4 for validity (own frame writer over
sequence-built blocks), the extracted judges (Spec stream_decode via oracle `block`, the Io model via
oracle `io`), and run helpers.  All temp files live under <worktree>/_build/run."""
import os, sys, struct, random, shutil, subprocess, hashlib, json, itertools
import declib, gens
from vlib import REPO, ROOT, BUILD, build_exe, Oracle, hx, md5

MAGIC = 0x184D2204
MAGIC_LEGACY = 0x184C2102
MAGIC_SKIP0 = 0x184D2A50
LEGACY_BOUND = 8421520          # cross-checked against Gen.Consts by the io oracle (command `consts`)

PROG_TUS = ["lz4cli.c", "lz4io.c", "bench.c", "lorem.c", "util.c", "threadpool.c", "timefn.c"]
LIB_TUS = ["lz4.c", "lz4hc.c", "lz4frame.c", "xxhash.c", "lz4file.c"]

def build_bins():
    src = [os.path.join(REPO, "programs", t) for t in PROG_TUS] + [os.path.join(REPO, "lib", t) for t in LIB_TUS]
    missing = [s for s in src if not os.path.exists(s)]
    if missing:
        raise RuntimeError("sources missing: %s" % missing)
    common = ["-DXXH_NAMESPACE=LZ4_", "-U_FORTIFY_SOURCE", "-fno-builtin"]
    mt = build_exe("lz4_mt", src, flags=common + ["-DLZ4IO_MULTITHREAD=1"])
    st = build_exe("lz4_st", src, flags=common + ["-DLZ4IO_MULTITHREAD=0"])
    shim = build_exe("io_shim.so", [os.path.join(ROOT, "harness", "c", "io_shim.c")], flags=["-fPIC"],
                     libs=("-shared", "-ldl", "-lpthread"))
    return {"MT": mt, "ST": st, "shim": shim}

# ------------------------------------------------------------------ XXH32 (own implementation, from the spec)
P1, P2, P3, P4, P5 = 2654435761, 2246822519, 3266489917, 668265263, 374761393
M32 = 0xFFFFFFFF
def _rotl(x, r): return ((x << r) | (x >> (32 - r))) & M32
def xxh32(data, seed=0):
    n = len(data); i = 0
    if n >= 16:
        v1 = (seed + P1 + P2) & M32; v2 = (seed + P2) & M32; v3 = seed & M32; v4 = (seed - P1) & M32
        while i + 16 <= n:
            a, b, c, d = struct.unpack_from("<IIII", data, i)
            v1 = (_rotl((v1 + a * P2) & M32, 13) * P1) & M32
            v2 = (_rotl((v2 + b * P2) & M32, 13) * P1) & M32
            v3 = (_rotl((v3 + c * P2) & M32, 13) * P1) & M32
            v4 = (_rotl((v4 + d * P2) & M32, 13) * P1) & M32
            i += 16
        h = (_rotl(v1, 1) + _rotl(v2, 7) + _rotl(v3, 12) + _rotl(v4, 18)) & M32
    else:
        h = (seed + P5) & M32
    h = (h + n) & M32
    while i + 4 <= n:
        (w,) = struct.unpack_from("<I", data, i)
        h = (_rotl((h + w * P3) & M32, 17) * P4) & M32
        i += 4
    while i < n:
        h = (_rotl((h + data[i] * P5) & M32, 11) * P1) & M32
        i += 1
    h ^= h >> 15; h = (h * P2) & M32; h ^= h >> 13; h = (h * P3) & M32; h ^= h >> 16
    return h

def le32(v): return struct.pack("<I", v & M32)

# ------------------------------------------------------------------ frame writers (validity by construction)
BSIZE = {4: 65536, 5: 262144, 6: 1048576, 7: 4194304}

def gen_block(rng, hist=b""):
    """compressed block built from sequences, non-empty content"""
    while True:
        blk, content, seqs = declib.gen_valid_block(rng, hist, max_seqs=rng.choice([0, 1, 3, 8]))
        if content:
            return blk, content

def lz4_frame(rng, nblocks=None, opts=None):
    """(frame bytes, content, description).  Own writer following doc/lz4_Frame_format.md."""
    o = {"bsid": rng.choice([4, 4, 4, 5, 6, 7]), "indep": rng.random() < 0.5, "bcrc": rng.random() < 0.4,
         "ccrc": rng.random() < 0.6, "csize": rng.random() < 0.3, "dictid": rng.random() < 0.05}
    if opts:
        o.update(opts)
    if nblocks is None:
        nblocks = rng.choice([0, 1, 1, 2, 3])
    body = bytearray(); content = bytearray()
    nraw = 0
    for _ in range(nblocks):
        if rng.random() < 0.3:
            data = rng.randbytes(rng.choice([1, 4, 5, 64, 300, 1000]))
            body += le32(len(data) | 0x80000000) + data
            c = data; nraw += 1
        else:
            hist = b"" if o["indep"] else bytes(content[-65536:])
            data, c = gen_block(rng, hist)
            body += le32(len(data)) + data
        if o["bcrc"]:
            body += le32(xxh32(data))
        content += c
    body += le32(0)
    if o["ccrc"]:
        body += le32(xxh32(bytes(content)))
    flg = 0x40 | (0x20 if o["indep"] else 0) | (0x10 if o["bcrc"] else 0) | (0x08 if o["csize"] else 0) | \
          (0x04 if o["ccrc"] else 0) | (0x01 if o["dictid"] else 0)
    desc = bytes([flg, o["bsid"] << 4])
    if o["csize"]:
        desc += struct.pack("<Q", len(content))
    if o["dictid"]:
        desc += le32(rng.randrange(1 << 32))
    hc = (xxh32(desc) >> 8) & 0xFF
    fr = le32(MAGIC) + desc + bytes([hc]) + bytes(body)
    return fr, bytes(content), "L%d%s%s%s" % (nblocks, "i" if o["indep"] else "l", "b" if o["bcrc"] else "", "c" if o["ccrc"] else "")

def legacy_frame(rng, nblocks=None):
    if nblocks is None:
        nblocks = rng.choice([0, 1, 1, 2, 3])
    out = bytearray(le32(MAGIC_LEGACY)); content = bytearray(); ends = [4]
    for _ in range(nblocks):
        blk, c = gen_block(rng, b"")
        out += le32(len(blk)) + blk
        content += c
        ends.append(len(out))
    return bytes(out), bytes(content), "G%d" % nblocks, ends

def skippable_frame(rng, size=None, idx=None):
    if size is None:
        size = rng.choice([0, 0, 1, 3, 4, 5, 7, 8, 11, 16, 100, 1000, 20000])
    if idx is None:
        idx = rng.randrange(16)
    return le32(MAGIC_SKIP0 + idx) + le32(size) + rng.randbytes(size), b"", "S%x.%d" % (idx, size)

def build_stream(rng, kinds, lz4tool=None, rundir=None):
    """kinds: string over L (LZ4 frame, own writer), T (LZ4 frame made by the lz4 tool, for volume),
    G (legacy), S (skippable).  Returns dict(data, content, parts=[(kind, start, end, desc, extra)])."""
    data = bytearray(); content = bytearray(); parts = []
    for k in kinds:
        s = len(data)
        extra = None
        if k == "L":
            fr, c, d = lz4_frame(rng)
        elif k == "T":
            raw = gens.data(rng, rng.choice(["text", "runs", "mixed", "random"]), rng.choice([0, 1, 100, 5000, 70000, 200000]))
            args = rng.choice([["-1"], ["-9"], ["-BD", "-B4"], ["-BX"], ["--content-size"], ["--no-frame-crc"], ["-B5", "-BD"]])
            rc, out, err = run_cli(lz4tool, args + ["-c"], stdin_bytes=raw)
            if rc != 0:
                raise RuntimeError("lz4 tool failed to compress: %s" % err[-300:])
            fr, c, d = out, raw, "T%d" % len(raw)
        elif k == "G":
            fr, c, d, extra = legacy_frame(rng)
        elif k == "S":
            fr, c, d = skippable_frame(rng)
        else:
            raise ValueError(k)
        data += fr; content += c
        parts.append((k, s, len(data), d, extra))
    return {"data": bytes(data), "content": bytes(content), "parts": parts}

def legacy_after_lz4(kinds):
    """class of known finding F4: a legacy frame occurs after an LZ4 frame in the same input"""
    seen = False
    for k in kinds:
        if k in "LT":
            seen = True
        elif k == "G" and seen:
            return True
    return False

def boundaries(stream):
    """offsets at which a cut leaves a complete stream: frame boundaries and legacy block boundaries"""
    b = {0}
    for (k, s, e, d, extra) in stream["parts"]:
        b.add(e)
        if k == "G":
            for x in extra:
                b.add(s + x)
    return b

def in_skippable_payload(stream, off):
    """off (a cut position / length of the prefix) falls inside the user data of a skippable frame
    (after its 8-byte header, before its end)"""
    for (k, s, e, d, extra) in stream["parts"]:
        if k == "S" and s + 8 <= off < e:
            return True
    return False

# ------------------------------------------------------------------ running the binaries
class RunDir:
    """private scratch directory under _build/run, removed on close"""
    n = 0
    def __init__(self, tag):
        RunDir.n += 1
        self.path = os.path.join(BUILD, "run", "%s_%d_%d" % (tag, os.getpid(), RunDir.n))
        shutil.rmtree(self.path, ignore_errors=True)
        os.makedirs(self.path)
    def f(self, name):
        return os.path.join(self.path, name)
    def write(self, name, data):
        p = self.f(name)
        with open(p, "wb") as fh:
            fh.write(data)
        return p
    def read(self, name):
        try:
            with open(self.f(name), "rb") as fh:
                return fh.read()
        except OSError:
            return None
    def clean(self):
        for n in os.listdir(self.path):
            p = os.path.join(self.path, n)
            if os.path.isdir(p):
                shutil.rmtree(p, ignore_errors=True)
            else:
                os.remove(p)
    def close(self):
        shutil.rmtree(self.path, ignore_errors=True)

def run_cli(exe, args, stdin_bytes=None, stdin_path=None, stdout_path=None, env=None, cwd=None, timeout=120):
    """returns (rc, stdout bytes, stderr text).  stdin: bytes through a PIPE, or a file (seekable), or /dev/null."""
    e = dict(os.environ)
    e.pop("LD_PRELOAD", None)
    e.pop("LZ4_CLEVEL", None); e.pop("LZ4_NBWORKERS", None)
    if env:
        e.update(env)
    fin = None; fout = None
    try:
        if stdin_path is not None:
            fin = os.fdopen(os.open(stdin_path, os.O_RDONLY), "rb", buffering=0) if not os.path.isdir(stdin_path) else None
            if fin is None:
                dfd = os.open(stdin_path, os.O_RDONLY)        # a directory as stdin: every read() fails with EISDIR
                try:
                    p = subprocess.Popen([exe] + list(args), stdin=dfd, stdout=(open(stdout_path, "wb") if stdout_path else subprocess.PIPE),
                                         stderr=subprocess.PIPE, env=e, cwd=cwd)
                    out, err = p.communicate(timeout=timeout)
                    return p.returncode, out or b"", (err or b"").decode("utf-8", "replace")
                finally:
                    os.close(dfd)
        if stdout_path is not None:
            fout = open(stdout_path, "wb")
        p = subprocess.Popen([exe] + list(args), stdin=(subprocess.PIPE if stdin_bytes is not None else (fin or subprocess.DEVNULL)),
                             stdout=(fout or subprocess.PIPE), stderr=subprocess.PIPE, env=e, cwd=cwd)
        try:
            out, err = p.communicate(stdin_bytes, timeout=timeout)
        except subprocess.TimeoutExpired:
            p.kill(); out, err = p.communicate()
            return -999, out or b"", "TIMEOUT " + (err or b"").decode("utf-8", "replace")
        return p.returncode, out or b"", (err or b"").decode("utf-8", "replace")
    finally:
        if fin: fin.close()
        if fout: fout.close()

def shim_env(shim, fault=None, log=None):
    e = {"LD_PRELOAD": shim}
    if fault:
        e["IOSHIM_FAULT"] = fault
    if log:
        e["IOSHIM_LOG"] = log
    return e

def read_trace(path):
    """shim log -> list of dicts"""
    tr = []
    try:
        for line in open(path):
            t = line.split()
            if len(t) >= 8:
                tr.append({"seq": int(t[0]), "kind": t[1], "fid": int(t[2]), "req": int(t[3]), "ret": int(t[4]), "pos": int(t[5]),
                           "path": t[6], "mode": t[7]})
    except OSError:
        pass
    return tr

# ------------------------------------------------------------------ the judges
def spec_stream(orc, data, strict=False):
    """Spec.FrameSpec.stream_decode (extracted) on the bytes: None | (len, md5)"""
    r = orc.ask("stream", "1" if strict else "0", "-", hx(data))
    if r == "none":
        return None
    t = r.split()
    if t[0] != "ok":
        raise RuntimeError("stream oracle: " + r[:200])
    return (int(t[1]), t[2])

def sig(b):
    return (len(b), md5(b))

def block_has_offset0(blk):
    """lenient walk over an LZ4 block: does any sequence carry match offset 0 ? (class of finding F5)"""
    i = 0; n = len(blk)
    while i < n:
        tok = blk[i]; i += 1
        ll = tok >> 4
        if ll == 15:
            while i < n:
                b = blk[i]; i += 1; ll += b
                if b != 255: break
        i += ll
        if i >= n:
            return False
        if i + 2 > n:
            return False
        off = blk[i] | (blk[i + 1] << 8); i += 2
        if off == 0:
            return True
        ml = tok & 15
        if ml == 15:
            while i < n:
                b = blk[i]; i += 1
                if b != 255: break
    return False

def stream_has_offset0(data):
    """lenient walk over a stream; True if some compressed block (LZ4 frame or legacy) has an offset-0 match"""
    i = 0; n = len(data)
    try:
        while i + 4 <= n:
            (mg,) = struct.unpack_from("<I", data, i)
            if mg == MAGIC:
                flg = data[i + 4]; i += 6
                if flg & 8: i += 8
                if flg & 1: i += 4
                i += 1
                while True:
                    (w,) = struct.unpack_from("<I", data, i); i += 4
                    if w == 0:
                        if flg & 4: i += 4
                        break
                    sz = w & 0x7FFFFFFF
                    if not (w & 0x80000000) and block_has_offset0(data[i:i + sz]):
                        return True
                    i += sz
                    if flg & 16: i += 4
            elif mg == MAGIC_LEGACY:
                i += 4
                while i + 4 <= n:
                    (w,) = struct.unpack_from("<I", data, i)
                    if w > LEGACY_BOUND:
                        break
                    i += 4
                    if block_has_offset0(data[i:i + w]):
                        return True
                    i += w
            elif (mg & 0xFFFFFFF0) == MAGIC_SKIP0:
                (sz,) = struct.unpack_from("<I", data, i + 4)
                i += 8 + sz
            else:
                return False
    except (struct.error, IndexError):
        return False
    return False
